package rev3probe

import (
	"testing"
	"time"

	"google.golang.org/protobuf/proto"
	"google.golang.org/protobuf/types/known/wrapperspb"

	meshconfig "istio.io/api/mesh/v1alpha1"
	"istio.io/istio/pilot/pkg/features"
	"istio.io/istio/pilot/pkg/model"
	"istio.io/istio/pilot/pkg/networking/core"
	"istio.io/istio/pilot/pkg/xds"
	v3 "istio.io/istio/pilot/pkg/xds/v3"
	txds "istio.io/istio/pilot/test/xds"
	"istio.io/istio/pkg/util/sets"
)

func genRDS(t *testing.T, s *txds.FakeDiscoveryServer, g model.XdsResourceGenerator, p *model.Proxy) map[string]proto.Message {
	req := &model.PushRequest{Forced: true, Push: s.PushContext(), Start: time.Now()}
	rs, _, err := g.Generate(p, &model.WatchedResource{TypeUrl: v3.RouteType, ResourceNames: sets.New("443")}, req)
	if err != nil {
		t.Fatal(err)
	}
	out := map[string]proto.Message{}
	for _, r := range rs {
		m, err := r.Resource.UnmarshalNew()
		if err != nil {
			t.Fatal(err)
		}
		out[r.Name] = m
	}
	return out
}

func TestProxyHeadersRouteKey(t *testing.T) {
	features.EnableRDSCaching = true
	s := txds.NewFakeDiscoveryServer(t, txds.FakeOptions{ConfigString: cfg})
	cache := model.NewXdsCache()
	cached := &xds.RdsGenerator{ConfigGenerator: core.NewConfigGenerator(cache)}
	uncached := &xds.RdsGenerator{ConfigGenerator: core.NewConfigGenerator(model.DisabledCache{})}
	mk := func(id string, pc *model.NodeMetaProxyConfig) *model.Proxy {
		return s.SetupProxy(&model.Proxy{ID: id + ".default", ConfigNamespace: "default", IPAddresses: []string{"10.9.9.9"},
			Metadata: &model.NodeMetadata{Namespace: "default", ProxyConfig: pc}})
	}
	p1 := mk("plain", nil)
	p2 := mk("noattempt", &model.NodeMetaProxyConfig{ProxyHeaders: &meshconfig.ProxyConfig_ProxyHeaders{
		AttemptCount:   &meshconfig.ProxyConfig_ProxyHeaders_AttemptCount{Disabled: wrapperspb.Bool(true)},
		XForwardedHost: &meshconfig.ProxyConfig_ProxyHeaders_XForwardedHost{Enabled: wrapperspb.Bool(true)},
	}})
	for _, order := range [][2]*model.Proxy{{p1, p2}, {p2, p1}} {
		cache.ClearAll()
		genRDS(t, s, cached, order[0])
		warm := genRDS(t, s, cached, order[1])
		cold := genRDS(t, s, uncached, order[1])
		if len(cold) == 0 {
			t.Fatal("no routes")
		}
		for n, c := range cold {
			if !proto.Equal(c, warm[n]) {
				t.Errorf("second=%s: route %s served from the cache differs from fresh generation (entries in rds cache: %d)", order[1].ID, n, len(cache.Keys(model.RDSType)))
			}
		}
	}
}
