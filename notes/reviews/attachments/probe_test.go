package rev3probe

import (
	"testing"
	"time"

	"google.golang.org/protobuf/proto"

	"istio.io/istio/pilot/pkg/features"
	"istio.io/istio/pilot/pkg/model"
	"istio.io/istio/pilot/pkg/networking/core"
	"istio.io/istio/pilot/pkg/xds"
	v3 "istio.io/istio/pilot/pkg/xds/v3"
	txds "istio.io/istio/pilot/test/xds"
)

const cfg = `
apiVersion: networking.istio.io/v1
kind: ServiceEntry
metadata: {name: se-a, namespace: default}
spec:
  hosts: [a.example.com]
  ports:
  - {number: 443, name: https, protocol: HTTP}
  resolution: STATIC
  endpoints:
  - {address: 10.0.0.1}
---
apiVersion: networking.istio.io/v1
kind: DestinationRule
metadata: {name: dr-a, namespace: default}
spec:
  host: a.example.com
  trafficPolicy:
    tls:
      mode: MUTUAL
      clientCertificate: /etc/certs/c.pem
      privateKey: /etc/certs/k.pem
      caCertificates: /etc/certs/ca.pem
---
apiVersion: networking.istio.io/v1
kind: ServiceEntry
metadata: {name: se-b, namespace: default}
spec:
  hosts: [b.example.com]
  ports:
  - {number: 443, name: https, protocol: HTTP}
  resolution: STATIC
  endpoints:
  - {address: 10.0.0.2}
---
apiVersion: networking.istio.io/v1
kind: DestinationRule
metadata: {name: dr-b, namespace: default}
spec:
  host: b.example.com
  trafficPolicy:
    tls:
      mode: MUTUAL
      credentialName: sds://my-cert
`

func gen(t *testing.T, s *txds.FakeDiscoveryServer, g model.XdsResourceGenerator, p *model.Proxy) map[string]proto.Message {
	req := &model.PushRequest{Forced: true, Push: s.PushContext(), Start: time.Now()}
	rs, _, err := g.Generate(p, &model.WatchedResource{TypeUrl: v3.ClusterType}, req)
	if err != nil {
		t.Fatal(err)
	}
	out := map[string]proto.Message{}
	for _, r := range rs {
		m, err := r.Resource.UnmarshalNew()
		if err != nil {
			t.Fatal(err)
		}
		out[r.Name] = m
	}
	return out
}

func TestCredentialSocketKey(t *testing.T) {
	features.EnableCDSCaching = true
	s := txds.NewFakeDiscoveryServer(t, txds.FakeOptions{ConfigString: cfg})
	cache := model.NewXdsCache()
	cached := &xds.CdsGenerator{ConfigGenerator: core.NewConfigGenerator(cache)}
	uncached := &xds.CdsGenerator{ConfigGenerator: core.NewConfigGenerator(model.DisabledCache{})}
	mk := func(id string, raw map[string]any) *model.Proxy {
		return s.SetupProxy(&model.Proxy{ID: id + ".default", ConfigNamespace: "default", IPAddresses: []string{"10.9.9.9"},
			Metadata: &model.NodeMetadata{Namespace: "default", Raw: raw}})
	}
	p1 := mk("plain", map[string]any{})
	p2 := mk("sock", map[string]any{"file-credential": "true", "credential": "true"})
	for _, order := range [][2]*model.Proxy{{p1, p2}, {p2, p1}} {
		cache.ClearAll()
		gen(t, s, cached, order[0])
		warm := gen(t, s, cached, order[1])
		cold := gen(t, s, uncached, order[1])
		for n, c := range cold {
			if !proto.Equal(c, warm[n]) {
				t.Errorf("second=%s: cluster %s served from the cache differs from fresh generation\nWARM %v\nCOLD %v", order[1].ID, n, warm[n], c)
			}
		}
	}
}
