#!/bin/sh
# Offline build of the framework from files on disk: Lean library + drivers, Go harness binaries.
# Every check rebuilds what it needs from /repo's working tree anyway; this only warms the caches.
set -e
cd "$(dirname "$0")"
export GOFLAGS=-mod=mod GOPROXY=off
unset GOSUMDB
[ "$GOTOOLCHAIN" = "local" ] && unset GOTOOLCHAIN
(cd lean && lake build IstioModel.Common.Wire IstioModel.Common.Audit)
cp /repo/go.sum harness/go.sum 2>/dev/null || true
mkdir -p harness/bin
for d in harness/c[0-9][0-9]; do
  [ -d "$d" ] || continue
  n=$(basename "$d")
  (cd harness && go build -tags verif -o bin/$n ./$n) || echo "setup: harness $n does not build (the check will report it)"
done
for f in lean/Drv/C*.lean; do
  [ -f "$f" ] || continue
  n=$(basename "$f" .lean | tr 'A-Z' 'a-z')
  (cd lean && lake build drv_$n) || echo "setup: driver $n does not build (the check will report it)"
done
echo "setup done"
