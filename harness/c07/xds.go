package main

import (
	"sort"
	"strconv"
	"strings"

	cluster "github.com/envoyproxy/go-control-plane/envoy/config/cluster/v3"
	route "github.com/envoyproxy/go-control-plane/envoy/config/route/v3"

	"istio.io/istio/pilot/pkg/model"
	"istio.io/istio/pilot/pkg/networking/core"
	"verifharness/internal/wire"
)

// xds: the real CDS / RDS generators (core.ConfigGeneratorImpl) run for a sidecar proxy on the
// PushContext of the case; the observation points of the property.

var configGen = core.NewConfigGenerator(&model.DisabledCache{})

func (w *world) proxyFor(ns string, lbl map[string]string) *model.Proxy {
	p := &model.Proxy{
		Type:            model.SidecarProxy,
		ID:              "app.test",
		ConfigNamespace: ns,
		DNSDomain:       ns + ".svc.cluster.local",
		IPAddresses:     []string{"1.1.1.1"},
		Labels:          lbl,
		Metadata:        &model.NodeMetadata{Namespace: ns, Labels: lbl, IstioVersion: "1.23.0"},
	}
	p.IstioVersion = model.ParseIstioVersion(p.Metadata.IstioVersion)
	p.SetSidecarScope(w.ps)
	p.SetServiceTargets(w.env.ServiceDiscovery)
	p.SetGatewaysForProxy(w.ps)
	p.DiscoverIPMode()
	return p
}

// outboundClusters returns the names of the outbound clusters CDS generates for the proxy.
func (w *world) outboundClusters(p *model.Proxy) []string {
	raw, _ := configGen.BuildClusters(p, &model.PushRequest{Push: w.ps})
	var names []string
	for _, r := range raw {
		c := &cluster.Cluster{}
		if err := r.Resource.UnmarshalTo(c); err != nil {
			panic(err)
		}
		if strings.HasPrefix(c.Name, "outbound|") {
			names = append(names, c.Name)
		}
	}
	sort.Strings(names)
	return names
}

// routeVirtualHosts returns, for every outbound HTTP route configuration RDS generates, the
// virtual host names (host:port) - the route-level observation point.
func (w *world) routeVirtualHosts(p *model.Proxy, withDomains bool) []string {
	ls := configGen.BuildListeners(p, w.ps)
	names := map[string]bool{}
	for _, rn := range core.ExtractRoutesFromListeners(ls) {
		names[rn] = true
	}
	var rnames []string
	for n := range names {
		rnames = append(rnames, n)
	}
	sort.Strings(rnames)
	raw, _ := configGen.BuildHTTPRoutes(p, &model.PushRequest{Push: w.ps}, rnames)
	var out []string
	for _, r := range raw {
		rc := &route.RouteConfiguration{}
		if err := r.Resource.UnmarshalTo(rc); err != nil {
			panic(err)
		}
		for _, vh := range rc.VirtualHosts {
			out = append(out, rc.Name+">"+vh.Name)
			if withDomains {
				for _, d := range vh.Domains {
					out = append(out, rc.Name+">"+vh.Name+">"+d)
				}
			}
		}
	}
	sort.Strings(out)
	return out
}

func (w *world) queryXDS(t []string) string {
	lbl, _ := decLabels(t[2])
	p := w.proxyFor(wire.Dec(t[1]), lbl)
	if t[0] == "routes" { // debugging aid, not generated
		return wire.EncList(w.routeVirtualHosts(p, true))
	}
	return "C=" + wire.EncList(w.outboundClusters(p))
}

// oracleXDS: the observation points of the property on the generated xDS of one proxy:
// every outbound cluster (CDS; EDS clusters are a subset of these names) belongs to a service of
// the proxy's scope with that port, every scope service port has its cluster, and every route
// virtual host is a scope service or a host of a selected (exported) VirtualService.  The scope
// itself is checked against the documented visibility/import rules by oracleOneScope.
func (w *world) oracleXDS(ns string, lbl map[string]string) string {
	p := w.proxyFor(ns, lbl)
	sc := p.SidecarScope
	if v := w.checkAppliedSidecar(sc, ns, lbl); v != "" {
		return v
	}
	if v := w.oracleOneScope(sc, ns, false, w.expectedSidecar(ns, lbl)); v != "" {
		return v
	}
	type hp struct {
		h string
		p string
	}
	want := map[hp]bool{}
	hosts := map[string]bool{}
	for _, s := range sc.Services() {
		hosts[string(s.Hostname)] = true
		if sp := w.byID[svcID(s)]; sp != nil && sp.externalName != "" {
			continue // an ExternalName service has no cluster of its own
		}
		for _, port := range s.Ports {
			want[hp{string(s.Hostname), strconv.Itoa(port.Port)}] = true
		}
	}
	got := map[hp]bool{}
	for _, c := range w.outboundClusters(p) {
		f := strings.Split(c, "|")
		if len(f) != 4 {
			return "cluster-name-shape " + c
		}
		k := hp{f[3], f[1]}
		got[k] = true
		if !want[k] {
			return "cluster-for-service-outside-scope " + wire.Enc(c) + " " + ns
		}
	}
	for k := range want {
		if !got[k] {
			return "cluster-missing-for-scope-service " + k.h + ":" + k.p + " " + ns
		}
	}
	vsHosts := map[string]bool{}
	for _, l := range sc.EgressListeners {
		for _, c := range l.VirtualServices() {
			if v := w.vsByKey(c.Namespace + "/" + c.Name); v != nil {
				for _, h := range v.hosts {
					vsHosts[h] = true
				}
			}
		}
	}
	// route domains: a domain that is the hostname of mesh services must belong to one that is exported
	// to ns (this is where alias hostnames of ExternalName services surface)
	for _, r := range w.routeVirtualHosts(p, true) {
		parts := strings.Split(r, ">")
		if len(parts) != 3 {
			continue
		}
		d := strings.TrimSuffix(parts[2], ".")
		if i := strings.LastIndex(d, ":"); i >= 0 {
			d = d[:i]
		}
		known, visible := false, false
		for i := range w.svcs {
			if w.svcs[i].hostname == d {
				known = true
				if w.documentedVisible(&w.svcs[i], ns) {
					visible = true
				}
			}
		}
		if known && !visible && !vsHosts[d] {
			return "route-domain-for-hidden-service " + wire.Enc(parts[2]) + " " + ns
		}
	}
	for _, r := range w.routeVirtualHosts(p, false) {
		_, vh, _ := strings.Cut(r, ">")
		if vh == "allow_any" || vh == "block_all" {
			continue
		}
		i := strings.LastIndex(vh, ":")
		if i < 0 {
			return "route-vhost-shape " + wire.Enc(vh)
		}
		h := vh[:i]
		if !hosts[h] && !vsHosts[h] {
			return "route-for-host-outside-scope " + wire.Enc(vh) + " " + ns
		}
	}
	return ""
}
