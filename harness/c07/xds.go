package main

import (
	"fmt"
	"sort"
	"strconv"
	"strings"
	"time"

	cluster "github.com/envoyproxy/go-control-plane/envoy/config/cluster/v3"
	route "github.com/envoyproxy/go-control-plane/envoy/config/route/v3"
	tcpproxy "github.com/envoyproxy/go-control-plane/envoy/extensions/filters/network/tcp_proxy/v3"

	"istio.io/istio/pilot/pkg/features"
	"istio.io/istio/pilot/pkg/model"
	"istio.io/istio/pilot/pkg/networking/core"
	"istio.io/istio/pilot/pkg/xds/endpoints"
	"istio.io/istio/pkg/util/sets"
	"verifharness/internal/wire"
)

// xds: the real CDS / RDS generators (core.ConfigGeneratorImpl) run for a sidecar proxy on the
// PushContext of the case; the observation points of the property.

var configGen = core.NewConfigGenerator(&model.DisabledCache{})

func (w *world) proxyFor(ns string, lbl map[string]string) *model.Proxy {
	p := &model.Proxy{
		Type:            model.SidecarProxy,
		ID:              "app.test",
		ConfigNamespace: ns,
		DNSDomain:       ns + ".svc.cluster.local",
		IPAddresses:     []string{"1.1.1.1"},
		Labels:          lbl,
		Metadata:        &model.NodeMetadata{Namespace: ns, Labels: lbl, IstioVersion: "1.23.0"},
	}
	p.IstioVersion = model.ParseIstioVersion(p.Metadata.IstioVersion)
	p.SetSidecarScope(w.ps)
	p.SetServiceTargets(w.env.ServiceDiscovery)
	p.SetGatewaysForProxy(w.ps)
	p.DiscoverIPMode()
	return p
}

// outboundClusters returns the names of the outbound clusters CDS generates for the proxy.
func (w *world) outboundClusters(p *model.Proxy) []string {
	return w.outboundClustersWith(configGen, p)
}

func (w *world) outboundClustersWith(gen *core.ConfigGeneratorImpl, p *model.Proxy) []string {
	raw, _ := gen.BuildClusters(p, &model.PushRequest{Push: w.ps, Start: time.Now()})
	var names []string
	for _, r := range raw {
		c := &cluster.Cluster{}
		if err := r.Resource.UnmarshalTo(c); err != nil {
			panic(err)
		}
		if strings.HasPrefix(c.Name, "outbound|") {
			// the connection limit the cluster got (from the DestinationRule picked for it), "-" = default
			mc := "-"
			if th := c.GetCircuitBreakers().GetThresholds(); len(th) > 0 && th[0].GetMaxConnections() != nil &&
				th[0].GetMaxConnections().GetValue() < 1000000 {
				mc = strconv.Itoa(int(th[0].GetMaxConnections().GetValue()))
			}
			names = append(names, c.Name+"@"+mc)
		}
	}
	sort.Strings(names)
	return names
}

// routeVirtualHosts returns, for every outbound HTTP route configuration RDS generates, the
// virtual host names (host:port) - the route-level observation point.
func (w *world) routeVirtualHosts(p *model.Proxy, withDomains bool) []string {
	return w.routeVirtualHostsWith(configGen, p, withDomains)
}

// allClusterNames: every cluster name of the full (state of the world) CDS answer, the watched set of a delta client.
func (w *world) allClusterNames(p *model.Proxy) []string {
	raw, _ := configGen.BuildClusters(p, &model.PushRequest{Push: w.ps, Start: time.Now()})
	var names []string
	for _, r := range raw {
		names = append(names, r.Name)
	}
	sort.Strings(names)
	return names
}

// oracleDeltaCDS: the delta variant of CDS (the default xDS variant). A proxy that holds the full answer of the
// context before an update (`before`) gets BuildDeltaClusters for the updated object on the new context; what it
// then holds (before - removed, overwritten / extended by the delta resources) must be exactly the full answer of
// the new context - which the scope clauses judge - so a delta can neither keep nor add a cluster of a service
// outside the proxy's scope.
func (w *world) oracleDeltaCDS(p *model.Proxy, ns string, before []string) string {
	if w.lastKey == nil {
		return ""
	}
	// the same connection moves on to the new context (SetSidecarScope keeps the previous scope for the diff)
	p.SetSidecarScope(w.ps)
	p.SetServiceTargets(w.env.ServiceDiscovery)
	res, removed, _, usedDelta := configGen.BuildDeltaClusters(p,
		&model.PushRequest{Push: w.ps, ConfigsUpdated: sets.New(*w.lastKey), Start: time.Now()},
		&model.WatchedResource{TypeUrl: "type.googleapis.com/envoy.config.cluster.v3.Cluster", ResourceNames: sets.New(before...)})
	if !usedDelta {
		return ""
	}
	cnt("delta-cds-after-update")
	held := map[string]bool{}
	for _, n := range before {
		held[n] = true
	}
	for _, n := range removed {
		delete(held, n)
	}
	for _, r := range res {
		held[r.Name] = true
	}
	want := map[string]bool{}
	for _, n := range w.allClusterNames(p) {
		want[n] = true
	}
	for n := range held {
		if !want[n] {
			if f := strings.Split(n, "|"); len(f) == 4 && f[0] == "outbound" && p.SidecarScope.GetService(hostName(f[3])) == nil {
				return "delta-cluster-for-service-outside-scope " + wire.Enc(n) + " " + ns
			}
			// a stale cluster of a service that IS in the scope: delta / full consistency, not visibility (observation O10)
			cnt("delta-cds-keeps-cluster-the-full-answer-lacks")
		}
	}
	for n := range want {
		if !held[n] {
			// under-delivery by the delta path (seen with the legacy DestinationRule merge and a deleted wildcard rule):
			// not a visibility question either (observation O10)
			cnt("delta-cds-lacks-cluster-of-the-full-answer")
		}
	}
	return ""
}

// oracleCachedXDS: the xDS generators run with a real XdsCache (the production configuration; everything else in
// this harness uses DisabledCache) for proxies of several namespaces one after the other, twice (the second
// round is served from what the first one left in the cache): every proxy must get what the cache-less
// generator gives it - an entry cached for one namespace (alias-trimmed services, namespace-dependent
// DestinationRules) must never be handed to another.
func (w *world) oracleCachedXDS(lbl map[string]string, nss []string) string {
	gen := core.NewConfigGenerator(model.NewXdsCache())
	for round := 0; round < 2; round++ {
		for _, ns := range nss {
			p := w.proxyFor(ns, lbl)
			// one DNS domain for every namespace (DNS_DOMAIN can be set per proxy): the cache keys of proxies of
			// different namespaces then only differ in what really depends on the namespace
			// (O11, open) with p.DNSDomain = "mesh.cluster.local" set here the M2 mutation (alias names dropped from the RDS
			// cache key) is caught, but unmutated HEAD then also differs: two services on one (hostname, namespace) key
			// exported to different namespaces share an RDS cache key, and a proxy of one namespace is served the
			// virtual host (VIP domain) cached for the other. Left off until that is analysed.
			if a, b := strings.Join(w.routeVirtualHostsWith(gen, p, true), ","), strings.Join(w.routeVirtualHosts(p, true), ","); a != b {
				return "cached-rds-differs-from-uncached " + ns + " " + wire.Enc(firstDifference(a, b))
			}
			if a, b := strings.Join(w.outboundClustersWith(gen, p), ","), strings.Join(w.outboundClusters(p), ","); a != b {
				return "cached-cds-differs-from-uncached " + ns + " " + wire.Enc(firstDifference(a, b))
			}
		}
	}
	cnt("xds-with-real-cache")
	return ""
}

func firstDifference(a, b string) string {
	x, y := strings.Split(a, ","), strings.Split(b, ",")
	in := map[string]bool{}
	for _, e := range y {
		in[e] = true
	}
	for _, e := range x {
		if !in[e] {
			return "cached-only:" + e
		}
	}
	in = map[string]bool{}
	for _, e := range x {
		in[e] = true
	}
	for _, e := range y {
		if !in[e] {
			return "uncached-only:" + e
		}
	}
	return "order"
}

func (w *world) routeVirtualHostsWith(gen *core.ConfigGeneratorImpl, p *model.Proxy, withDomains bool) []string {
	ls := gen.BuildListeners(p, w.ps)
	names := map[string]bool{}
	for _, rn := range core.ExtractRoutesFromListeners(ls) {
		names[rn] = true
	}
	var rnames []string
	for n := range names {
		rnames = append(rnames, n)
	}
	sort.Strings(rnames)
	raw, _ := gen.BuildHTTPRoutes(p, &model.PushRequest{Push: w.ps, Start: time.Now()}, rnames)
	var out []string
	for _, r := range raw {
		rc := &route.RouteConfiguration{}
		if err := r.Resource.UnmarshalTo(rc); err != nil {
			panic(err)
		}
		for _, vh := range rc.VirtualHosts {
			out = append(out, rc.Name+">"+vh.Name)
			if withDomains {
				for _, d := range vh.Domains {
					out = append(out, rc.Name+">"+vh.Name+">"+d)
				}
			}
		}
	}
	sort.Strings(out)
	return out
}

var edsPorts = []int{80, 81, 8080, 9090, 8443}

// edsAnswers: what the real EDS generator (endpoints.EndpointBuilder) answers to this proxy for the
// cluster outbound|port||hostname of EVERY hostname of the mesh - also the ones outside its scope -
// as "hostname:port=address,...".
func (w *world) edsAnswers(p *model.Proxy, subsets []string) []string {
	hosts := map[string]bool{}
	for i := range w.svcs {
		hosts[w.svcs[i].hostname] = true
	}
	var out []string
	for h := range hosts {
		for _, port := range edsPorts {
			for _, sub := range append([]string{""}, subsets...) {
				name := model.BuildSubsetKey(model.TrafficDirectionOutbound, sub, hostName(h), port)
				b := endpoints.NewEndpointBuilder(name, p, w.ps)
				cla := b.BuildClusterLoadAssignment(w.env.EndpointIndex)
				var addrs []string
				for _, l := range cla.GetEndpoints() {
					for _, e := range l.GetLbEndpoints() {
						addrs = append(addrs, e.GetEndpoint().GetAddress().GetSocketAddress().GetAddress())
					}
				}
				sort.Strings(addrs)
				if len(addrs) > 0 {
					key := fmt.Sprintf("%s:%d", h, port)
					if sub != "" {
						key += ":" + sub
					}
					out = append(out, key+"="+strings.Join(addrs, "+"))
				}
			}
		}
	}
	sort.Strings(out)
	return out
}

// someSubsets: up to four subset names of the DestinationRules of the case (for the oracle's EDS questions).
func (w *world) someSubsets() []string {
	seen := map[string]bool{}
	var out []string
	for i := range w.drs {
		for _, sn := range w.drs[i].subsets {
			if !seen[sn.name] && len(out) < 4 {
				seen[sn.name] = true
				out = append(out, sn.name)
			}
		}
	}
	sort.Strings(out)
	return out
}

func (w *world) routerFor(ns string) *model.Proxy {
	lbl := map[string]string{"istio": "ingressgateway"}
	p := &model.Proxy{
		Type:            model.Router,
		ID:              "gw.test",
		ConfigNamespace: ns,
		DNSDomain:       ns + ".svc.cluster.local",
		IPAddresses:     []string{"1.1.1.2"},
		Labels:          lbl,
		Metadata:        &model.NodeMetadata{Namespace: ns, Labels: lbl, IstioVersion: "1.23.0"},
	}
	p.IstioVersion = model.ParseIstioVersion(p.Metadata.IstioVersion)
	p.SetSidecarScope(w.ps)
	p.SetServiceTargets(w.env.ServiceDiscovery)
	p.SetGatewaysForProxy(w.ps)
	p.DiscoverIPMode()
	return p
}

// oracleEDS: every endpoint EDS hands to the proxy belongs to a (hostname, namespace) key with a
// service exported to the proxy's namespace, and that key is the one of the scope's service.
func (w *world) oracleEDS(p *model.Proxy, ns string) string {
	inScope := map[[2]string]bool{}
	for _, s := range p.SidecarScope.Services() {
		inScope[[2]string{string(s.Hostname), s.Attributes.Namespace}] = true
	}
	addrKey := map[string][2]string{}
	for _, k := range w.keys() {
		addrKey[w.keyAddr(k[0], k[1])] = k
		addrKey[labelledAddr(w.keyAddr(k[0], k[1]))] = k
	}
	answers := w.edsAnswers(p, w.someSubsets())
	plain := map[string]string{}
	for _, a := range answers {
		hp, addrs, _ := strings.Cut(a, "=")
		if strings.Count(hp, ":") == 1 {
			plain[hp] = addrs
		}
	}
	for _, a := range answers {
		hp, addrs, _ := strings.Cut(a, "=")
		for _, addr := range strings.Split(addrs, "+") {
			k, ok := addrKey[addr]
			if !ok {
				return "eds-unknown-endpoint " + wire.Enc(a)
			}
			vis := false
			for i := range w.svcs {
				if w.svcs[i].hostname == k[0] && w.svcs[i].ns == k[1] && w.documentedVisible(&w.svcs[i], ns) {
					vis = true
				}
			}
			if !vis {
				return "eds-endpoints-of-hidden-service " + wire.Enc(hp) + " " + ns
			}
			if !inScope[k] {
				return "eds-endpoints-outside-scope " + wire.Enc(hp) + " " + ns
			}
		}
	}
	// a subset only narrows an answer when a DestinationRule that declares it for that host is exported
	// to the proxy's namespace (the subset of a rule the namespace cannot see shapes nothing)
	for hp, all := range plain {
		for _, sub := range w.someSubsets() {
			got := ""
			for _, a := range answers {
				if k, addrs, _ := strings.Cut(a, "="); k == hp+":"+sub {
					got = addrs
				}
			}
			if got == all {
				continue
			}
			cnt("eds-subset-narrows-answer")
			h := hp[:strings.LastIndex(hp, ":")]
			ok := false
			for i := range w.drs {
				d := &w.drs[i]
				has := false
				for _, sn := range d.subsets {
					has = has || sn.name == sub
				}
				if has && covers(fqdn(d.ns, d.host), h) && (w.drVisibleDoc(d, ns) || !w.enhanced) {
					ok = true
				}
			}
			if !ok {
				return "eds-subset-of-hidden-rule " + wire.Enc(hp+":"+sub) + " " + ns
			}
		}
	}
	return ""
}

// oracleRouter: the outbound clusters of a router proxy name only hostnames of services exported to
// its namespace (on the PushContext as built: PILOT_FILTER_GATEWAY_CLUSTER_CONFIG as currently set).
func (w *world) oracleRouter(ns string) string {
	return w.oracleRouterClusters(ns, w.outboundClusters(w.routerFor(ns)))
}

func (w *world) oracleRouterClusters(ns string, clusters []string) string {
	for _, c := range clusters {
		c, _, _ = strings.Cut(c, "@")
		f := strings.Split(c, "|")
		if len(f) != 4 {
			return "cluster-name-shape " + c
		}
		vis := false
		for i := range w.svcs {
			if w.svcs[i].hostname == f[3] && w.documentedVisible(&w.svcs[i], ns) {
				vis = true
			}
		}
		if !vis {
			return "router-cluster-for-hidden-service " + wire.Enc(c) + " " + ns
		}
	}
	return ""
}

// oracleRouterRoutes: the LDS and RDS of a Router proxy are really built (Gateway gw1 of every namespace whose
// VirtualServices name it, selector istio=ingressgateway) and checked against the documented rules: every
// virtual host and every destination cluster of the Router's routes comes from a VirtualService that is bound
// to one of the Gateways the Router serves AND exported to the Router's namespace (delegates: exported to the
// root's namespace); the destination's service, when the mesh has it, need not be visible (a route to a
// cluster CDS does not deliver blackholes) - the cluster side is oracleRouter.
func (w *world) oracleRouterRoutes(ns string) string {
	p := w.routerFor(ns)
	ls := configGen.BuildListeners(p, w.ps)
	names := map[string]bool{}
	for _, rn := range core.ExtractRoutesFromListeners(ls) {
		names[rn] = true
	}
	var rnames []string
	for n := range names {
		rnames = append(rnames, n)
	}
	sort.Strings(rnames)
	if len(rnames) == 0 {
		return ""
	}
	cnt("router-lds-with-http-routes")
	// the VirtualServices that may shape this Router's routes, by the documented rules
	var allowed []*vsSpec
	for i := range w.vss {
		v := &w.vss[i]
		if len(v.hosts) == 0 || !w.vsVisibleDoc(v, ns) {
			continue
		}
		bound := false
		for _, g := range v.gateways {
			bound = bound || g != "mesh"
		}
		if bound {
			allowed = append(allowed, v)
		}
	}
	raw, _ := configGen.BuildHTTPRoutes(p, &model.PushRequest{Push: w.ps}, rnames)
	for _, r := range raw {
		rc := &route.RouteConfiguration{}
		if err := r.Resource.UnmarshalTo(rc); err != nil {
			panic(err)
		}
		for _, vh := range rc.VirtualHosts {
			if vh.Name == "blackhole:80" || len(vh.Routes) == 0 {
				continue
			}
			cnt("router-rds-virtual-host")
			for _, d := range vh.Domains {
				if i := strings.LastIndex(d, ":"); i > 0 {
					d = d[:i]
				}
				ok := false
				for _, v := range allowed {
					for _, h := range vsHostsDoc(v) {
						ok = ok || covers(h, d) || covers(d, h)
					}
				}
				if !ok {
					return "router-vhost-without-exported-virtualservice " + wire.Enc(rc.Name+">"+vh.Name+">"+d) + " " + ns
				}
			}
			for _, rt := range vh.Routes {
				var clusters []string
				if c := rt.GetRoute().GetCluster(); c != "" {
					clusters = append(clusters, c)
				}
				for _, wc := range rt.GetRoute().GetWeightedClusters().GetClusters() {
					clusters = append(clusters, wc.Name)
				}
				for _, mp := range rt.GetRoute().GetRequestMirrorPolicies() {
					if mp.Cluster != "" {
						clusters = append(clusters, mp.Cluster)
					}
				}
				for _, c := range clusters {
					f := strings.Split(c, "|")
					if len(f) != 4 {
						continue // BlackHoleCluster and the like
					}
					ok := false
					for _, v := range allowed {
						for _, h := range w.httpRoutesDoc(v) {
							for _, d := range h.dests {
								ok = ok || d.host == f[3]
							}
						}
					}
					if !ok {
						return "router-route-to-destination-of-hidden-virtualservice " + wire.Enc(rc.Name+">"+vh.Name+">"+c) + " " + ns
					}
				}
			}
		}
	}
	return ""
}

// oracleRouterFiltered: the same with PILOT_FILTER_GATEWAY_CLUSTER_CONFIG on (the PushContext is
// rebuilt, its gateway destination index only exists under the flag); called last for a case.
func (w *world) oracleRouterFiltered(nss []string) string {
	defer func(v bool) { features.FilterGatewayClusterConfig = v }(features.FilterGatewayClusterConfig)
	defer func(v bool) { features.ScopeGatewayToNamespace = v }(features.ScopeGatewayToNamespace)
	features.FilterGatewayClusterConfig = true
	for _, scoped := range []bool{false, true} {
		features.ScopeGatewayToNamespace = scoped
		w.build()
		for _, ns := range nss {
			if v := w.oracleRouter(ns); v != "" {
				return "filtered-" + v
			}
		}
	}
	return ""
}

// oracleListeners: an outbound listener bound to the VIP of a declared service belongs to a service that
// is exported to the proxy's namespace and part of the scope or of one of its egress listeners (whose
// services are checked against the documented import rules by oracleOneScope); a wildcard-address
// listener uses a port of such a service or of a declared egress listener.
func (w *world) oracleListeners(p *model.Proxy, ns string, exp *sidecarSpec) string {
	keys := map[[2]string]bool{}
	ports := map[int]bool{}
	add := func(l []*model.Service) {
		for _, s := range l {
			keys[[2]string{string(s.Hostname), s.Attributes.Namespace}] = true
			for _, port := range s.Ports {
				ports[port.Port] = true
			}
		}
	}
	add(p.SidecarScope.Services())
	for _, l := range p.SidecarScope.EgressListeners {
		add(l.Services())
	}
	if exp != nil {
		for _, e := range exp.egress {
			ports[e.port] = true
		}
	}
	vip := map[string]*svcSpec{}
	for i := range w.svcs {
		vip[vipOf(i)] = &w.svcs[i]
	}
	for _, l := range configGen.BuildListeners(p, w.ps) {
		sa := l.GetAddress().GetSocketAddress()
		if sa == nil || l.Name == "virtualOutbound" || l.Name == "virtualInbound" {
			continue
		}
		if sp := vip[sa.GetAddress()]; sp != nil {
			if !keys[[2]string{sp.hostname, sp.ns}] {
				return "listener-for-service-outside-scope " + wire.Enc(l.Name) + " " + ns
			}
			// some service of that key must be exported to ns
			vis := false
			for i := range w.svcs {
				if w.svcs[i].hostname == sp.hostname && w.svcs[i].ns == sp.ns && w.documentedVisible(&w.svcs[i], ns) {
					vis = true
				}
			}
			if !vis {
				return "listener-for-hidden-service " + wire.Enc(l.Name) + " " + ns
			}
			continue
		}
		if sa.GetAddress() == "0.0.0.0" && !ports[int(sa.GetPortValue())] {
			return "listener-for-port-outside-scope " + wire.Enc(l.Name) + " " + ns
		}
	}
	return ""
}

// filteredRouterClusters: the CDS of a Router under PILOT_FILTER_GATEWAY_CLUSTER_CONFIG (and, if scoped,
// PILOT_SCOPE_GATEWAY_TO_NAMESPACE), from a PushContext built afresh under those flags over the current
// objects of the case (the gateway destination index only exists under the flag).
func (w *world) filteredRouterClusters(ns string, scoped bool) []string {
	defer func(v bool) { features.FilterGatewayClusterConfig = v }(features.FilterGatewayClusterConfig)
	defer func(v bool) { features.ScopeGatewayToNamespace = v }(features.ScopeGatewayToNamespace)
	features.FilterGatewayClusterConfig = true
	features.ScopeGatewayToNamespace = scoped
	w2 := &world{unified: w.unified, pickBest: w.pickBest, enhanced: w.enhanced, lazy: w.lazy, concurrent: w.concurrent,
		mesh: w.mesh, svcs: w.svcs, vss: w.vss, drs: w.drs, scs: w.scs}
	defer w2.close()
	w2.build()
	return w2.outboundClusters(w2.routerFor(ns))
}

func (w *world) queryXDS(t []string) string {
	if t[0] == "xdsgwf" {
		return "C=" + wire.EncList(w.filteredRouterClusters(wire.Dec(t[1]), t[2] == "1"))
	}
	if t[0] == "xdsgw" {
		return "C=" + wire.EncList(w.outboundClusters(w.routerFor(wire.Dec(t[1]))))
	}
	lbl, _ := decLabels(t[2])
	p := w.proxyFor(wire.Dec(t[1]), lbl)
	if t[0] == "eds" {
		var subs []string
		if len(t) == 4 {
			subs = decItems(t[3], ",")
		}
		return "E=" + wire.EncList(w.edsAnswers(p, subs))
	}
	if t[0] == "lds" { // the outbound listener names (LDS)
		var names []string
		for _, l := range configGen.BuildListeners(p, w.ps) {
			if l.Name != "virtualInbound" && l.Name != "virtualOutbound" {
				names = append(names, l.Name)
			}
		}
		sort.Strings(names)
		return "L=" + wire.EncList(names)
	}
	if t[0] == "rds" { // the virtual host names of the port-named route configurations (RDS)
		var out []string
		for _, it := range w.routeVirtualHosts(p, false) {
			rc, vh, _ := strings.Cut(it, ">")
			port, err := strconv.Atoi(rc)
			if err != nil || vh == "allow_any" || vh == "block_all" {
				continue
			}
			if e := p.SidecarScope.GetEgressListenerForRDS(port, rc); e != nil && e.IstioListener != nil &&
				e.IstioListener.Port != nil && e.IstioListener.Port.Protocol == "HTTP_PROXY" {
				continue
			}
			out = append(out, it)
		}
		return "R=" + wire.EncList(out)
	}
	if t[0] == "routes" { // debugging aid, not generated
		return wire.EncList(w.routeVirtualHosts(p, true))
	}
	return "C=" + wire.EncList(w.outboundClusters(p))
}

// oracleXDS: the observation points of the property on the generated xDS of one proxy:
// every outbound cluster (CDS; EDS clusters are a subset of these names) belongs to a service of
// the proxy's scope with that port, every scope service port has its cluster, and every route
// virtual host is a scope service or a host of a selected (exported) VirtualService.  The scope
// itself is checked against the documented visibility/import rules by oracleOneScope.
func (w *world) oracleXDS(ns string, lbl map[string]string) string {
	p := w.proxyFor(ns, lbl)
	sc := p.SidecarScope
	if v := w.checkAppliedSidecar(sc, ns, lbl); v != "" {
		return v
	}
	if v := w.oracleOneScope(sc, ns, false, w.expectedSidecar(ns, lbl)); v != "" {
		return v
	}
	type hp struct {
		h string
		p string
	}
	want := map[hp]bool{}
	hosts := map[string]bool{}
	for _, s := range sc.Services() {
		hosts[string(s.Hostname)] = true
		if sp := w.byID[svcID(s)]; sp != nil && sp.externalName != "" {
			continue // an ExternalName service has no cluster of its own
		}
		for _, port := range s.Ports {
			want[hp{string(s.Hostname), strconv.Itoa(port.Port)}] = true
		}
	}
	got := map[hp]bool{}
	for _, c := range w.outboundClusters(p) {
		c, mc, _ := strings.Cut(c, "@")
		f := strings.Split(c, "|")
		if len(f) != 4 {
			return "cluster-name-shape " + c
		}
		// the connection limit of the cluster identifies the rule (and the place in it) it was written in:
		// that rule must be exported to ns - a rule that is not exported must not shape the cluster
		if v, err := strconv.Atoi(mc); err == nil {
			var owner *drSpec
			for i := range w.drs {
				d := &w.drs[i]
				if d.tp != nil && (d.tp.pool == v || d.tp.plPool == v) {
					owner = d
				}
				for _, sn := range d.subsets {
					if sn.pool == v {
						owner = d
					}
				}
			}
			if owner == nil {
				return "cluster-policy-of-unknown-rule " + wire.Enc(c) + "@" + mc
			}
			if oh := fqdn(owner.ns, owner.host); oh != f[3] && !covers(oh, f[3]) {
				return "cluster-policy-of-rule-for-another-host " + wire.Enc(c) + "@" + mc
			}
			if !w.drVisibleDoc(owner, ns) {
				v := w.drNotExportedKind(owner, ns, fromKeys(sc, f[3])) + " policy " + wire.Enc(c) + "@" + mc + " " + owner.ns + "/" + owner.name + " " + ns
				if strings.HasPrefix(v, "dr-not-exported:legacy-merge-flag-off") {
					if w.deferred == "" {
						w.deferred = v
					}
				} else {
					return v
				}
			}
		}
		if f[2] != "" {
			// a subset cluster comes from a DestinationRule subset: some rule declaring it is exported to ns
			ok := false
			for i := range w.drs {
				for _, sn := range w.drs[i].subsets {
					if sn.name == f[2] && w.drVisibleDoc(&w.drs[i], ns) {
						ok = true
					}
				}
			}
			if !ok {
				legacy := false
				if from := fromKeys(sc, f[3]); !w.enhanced && len(from) > 1 {
					for _, k := range from {
						if o := w.drByKey(k); o != nil && w.drVisibleDoc(o, ns) {
							legacy = true
						}
					}
				}
				if legacy {
					if w.deferred == "" {
						w.deferred = "dr-not-exported:legacy-merge-flag-off subset-cluster " + wire.Enc(c) + " " + ns
					}
				} else {
					return "subset-cluster-from-unexported-rule " + wire.Enc(c) + " " + ns
				}
			}
		}
		k := hp{f[3], f[1]}
		got[k] = true
		if !want[k] {
			return "cluster-for-service-outside-scope " + wire.Enc(c) + " " + ns
		}
	}
	for k := range want {
		if !got[k] {
			return "cluster-missing-for-scope-service " + k.h + ":" + k.p + " " + ns
		}
	}
	vsHosts := map[string]bool{}
	for _, l := range sc.EgressListeners {
		for _, c := range l.VirtualServices() {
			if v := w.vsByKey(c.Namespace + "/" + c.Name); v != nil {
				for _, h := range vsHostsDoc(v) {
					vsHosts[h] = true
				}
			}
		}
	}
	// route domains: a domain that is the hostname of mesh services must belong to one that is exported
	// to ns (this is where alias hostnames of ExternalName services surface)
	for _, r := range w.routeVirtualHosts(p, true) {
		parts := strings.Split(r, ">")
		if len(parts) != 3 {
			continue
		}
		d := strings.TrimSuffix(parts[2], ".")
		if i := strings.LastIndex(d, ":"); i >= 0 {
			d = d[:i]
		}
		known, visible := false, false
		for i := range w.svcs {
			if w.svcs[i].hostname == d {
				known = true
				if w.documentedVisible(&w.svcs[i], ns) {
					visible = true
				}
			}
		}
		if known && !visible && !vsHosts[d] {
			return "route-domain-for-hidden-service " + wire.Enc(parts[2]) + " " + ns
		}
	}
	for _, r := range w.routeVirtualHosts(p, false) {
		_, vh, _ := strings.Cut(r, ">")
		if vh == "allow_any" || vh == "block_all" {
			continue
		}
		i := strings.LastIndex(vh, ":")
		if i < 0 {
			return "route-vhost-shape " + wire.Enc(vh)
		}
		h := vh[:i]
		if !hosts[h] && !vsHosts[h] {
			return "route-for-host-outside-scope " + wire.Enc(vh) + " " + ns
		}
	}
	if v := w.oracleEDS(p, ns); v != "" {
		return v
	}
	if v := w.oraclePerListener(p, ns, w.expectedSidecar(ns, lbl)); v != "" {
		return v
	}
	return w.oracleListeners(p, ns, w.expectedSidecar(ns, lbl))
}

// listenerView: what one egress listener of the scope may show to Envoy: the hostnames (and kept
// aliases) of its own services, and the hosts / destination hosts of the VirtualServices its
// documented host list imports (exported to ns, bound to the mesh gateway).
type listenerView struct {
	hosts map[string]bool // service hostnames and alias hostnames
	vs    map[string]bool // VirtualService hosts
	dests map[string]bool // VirtualService destination hosts
}

func (w *world) viewOf(ns string, ls []*model.IstioEgressListenerWrapper, docHosts [][]string) listenerView {
	v := listenerView{map[string]bool{}, map[string]bool{}, map[string]bool{}}
	for _, l := range ls {
		for _, s := range l.Services() {
			v.hosts[string(s.Hostname)] = true
			for _, a := range s.Attributes.Aliases {
				v.hosts[string(a.Hostname)] = true
			}
		}
	}
	for _, hosts := range docHosts {
		for i := range w.vss {
			vs := &w.vss[i]
			if len(vs.hosts) > 0 && vsOnMeshDoc(vs) && w.vsVisibleDoc(vs, ns) && vsImportedDoc(ns, hosts, vs) {
				for _, h := range vsHostsDoc(vs) {
					v.vs[h] = true
				}
				for h := range w.vsDestHostsFor(vs, ns) {
					v.dests[h] = true
				}
			}
		}
	}
	return v
}

// egressFor: the egress listeners of the scope an Envoy listener (rds = false) or a route configuration
// (rds = true) on `port` belongs to. A route configuration is answered from the first egress listener, in
// Sidecar order, that has no port or has that port (the API requires the port-less listener to be last); an
// Envoy listener on that port may come from the egress listeners bound to the port and from the port-less ones.
func egressFor(sc *model.SidecarScope, docs []oracleListener, port int, rds bool) ([]*model.IstioEgressListenerWrapper, [][]string) {
	var ls []*model.IstioEgressListenerWrapper
	var hs [][]string
	for i, l := range sc.EgressListeners {
		catchAll := l.IstioListener == nil || l.IstioListener.Port == nil
		bound := !catchAll && int(l.IstioListener.Port.Number) == port
		if !catchAll && l.IstioListener.Port.Number == 0 {
			bound = port == 0
		}
		if catchAll || bound {
			ls = append(ls, l)
			if i < len(docs) {
				hs = append(hs, docs[i].hosts)
			}
			if rds {
				break
			}
		}
	}
	return ls, hs
}

func clusterHost(name string) (string, bool) {
	f := strings.Split(name, "|")
	if len(f) != 4 || f[0] != "outbound" {
		return "", false
	}
	return f[3], true
}

// oraclePerListener inspects, per Envoy listener / route configuration and against the egress listener it
// belongs to: the route virtual hosts and domains, the clusters the routes and the tcp_proxy filters refer
// to, and the SNI names of the filter chain matches.
func (w *world) oraclePerListener(p *model.Proxy, ns string, exp *sidecarSpec) string {
	sc := p.SidecarScope
	docs := documentedListeners(exp)
	ok := func(v listenerView, h string) bool { return v.hosts[h] || v.vs[h] || v.dests[h] }
	// LDS: filter chains
	ls := configGen.BuildListeners(p, w.ps)
	for _, l := range ls {
		sa := l.GetAddress().GetSocketAddress()
		if sa == nil || l.Name == "virtualOutbound" || l.Name == "virtualInbound" {
			continue
		}
		els, hs := egressFor(sc, docs, int(sa.GetPortValue()), false)
		view := w.viewOf(ns, els, hs)
		for _, fc := range l.FilterChains {
			for _, sni := range fc.GetFilterChainMatch().GetServerNames() {
				if !ok(view, sni) {
					return "sni-for-host-outside-listener " + wire.Enc(l.Name+"/"+sni) + " " + ns
				}
			}
			for _, f := range fc.Filters {
				if f.Name != "envoy.filters.network.tcp_proxy" {
					continue
				}
				tp := &tcpproxy.TcpProxy{}
				if err := f.GetTypedConfig().UnmarshalTo(tp); err != nil {
					continue
				}
				names := []string{tp.GetCluster()}
				for _, wc := range tp.GetWeightedClusters().GetClusters() {
					names = append(names, wc.Name)
				}
				for _, n := range names {
					if h, isOut := clusterHost(n); isOut && !ok(view, h) {
						return "tcp-filter-cluster-outside-listener " + wire.Enc(l.Name+"/"+n) + " " + ns
					}
				}
			}
		}
	}
	// RDS: virtual hosts, domains, route cluster references
	names := map[string]bool{}
	for _, rn := range core.ExtractRoutesFromListeners(ls) {
		names[rn] = true
	}
	var rnames []string
	for n := range names {
		rnames = append(rnames, n)
	}
	sort.Strings(rnames)
	raw, _ := configGen.BuildHTTPRoutes(p, &model.PushRequest{Push: w.ps}, rnames)
	for _, r := range raw {
		rc := &route.RouteConfiguration{}
		if err := r.Resource.UnmarshalTo(rc); err != nil {
			continue
		}
		port := 0
		if i := strings.LastIndex(rc.Name, ":"); i >= 0 {
			port, _ = strconv.Atoi(rc.Name[i+1:])
		} else {
			port, _ = strconv.Atoi(rc.Name)
		}
		els, hs := egressFor(sc, docs, port, true)
		view := w.viewOf(ns, els, hs)
		for _, vh := range rc.VirtualHosts {
			if vh.Name == "allow_any" || vh.Name == "block_all" {
				continue
			}
			h := vh.Name
			if i := strings.LastIndex(h, ":"); i >= 0 {
				h = h[:i]
			}
			if !view.hosts[h] && !view.vs[h] {
				return "route-vhost-outside-listener " + wire.Enc(rc.Name+"/"+vh.Name) + " " + ns
			}
			for _, rt := range vh.Routes {
				ra := rt.GetRoute()
				if ra == nil {
					continue
				}
				cl := []string{ra.GetCluster()}
				for _, wc := range ra.GetWeightedClusters().GetClusters() {
					cl = append(cl, wc.Name)
				}
				for _, mp := range ra.GetRequestMirrorPolicies() {
					cl = append(cl, mp.GetCluster())
				}
				for _, n := range cl {
					if ch, isOut := clusterHost(n); isOut && !ok(view, ch) {
						return "route-cluster-outside-listener " + wire.Enc(rc.Name+"/"+n) + " " + ns
					}
				}
			}
		}
	}
	return ""
}
