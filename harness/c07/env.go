package main

import (
	"fmt"
	"sort"
	"strconv"
	"strings"
	"time"

	meshconfig "istio.io/api/mesh/v1alpha1"
	networking "istio.io/api/networking/v1alpha3"
	typev1beta1 "istio.io/api/type/v1beta1"
	"istio.io/istio/pilot/pkg/features"
	"istio.io/istio/pilot/pkg/model"
	"istio.io/istio/pilot/pkg/serviceregistry/provider"
	"istio.io/istio/pkg/config"
	"istio.io/istio/pkg/config/constants"
	"istio.io/istio/pkg/config/host"
	"istio.io/istio/pkg/config/labels"
	"istio.io/istio/pkg/config/mesh"
	"istio.io/istio/pkg/config/mesh/meshwatcher"
	"istio.io/istio/pkg/config/protocol"
	"istio.io/istio/pkg/config/schema/gvk"
	"istio.io/istio/pkg/config/schema/kind"
	"istio.io/istio/pkg/config/visibility"
	"istio.io/istio/pkg/kube/krt"
	"istio.io/istio/pkg/util/sets"
	"verifharness/internal/wire"
)

// ---------------------------------------------------------------- specs (what one case describes)

type portSpec struct {
	num  int
	name string
}

type svcSpec struct {
	id, hostname, ns, name string
	k8s                    bool
	ctime                  int
	ports                  []portSpec
	exportTo               []string
	vis                    string // p | n | x   (ServiceVisibility Public / Namespace / None)
	res                    int
	attr                   string
	aliases                [][2]string // (namespace, hostname)
	externalName           string      // non-empty: a Kubernetes ExternalName service (Resolution Alias) for that hostname
}

type destSpec struct {
	host string
	port int
}

type httpSpec struct {
	srcNs    []string // one entry per HTTPMatchRequest (its sourceNamespace, possibly "")
	dests    []destSpec
	delegate *[2]string // (namespace or "", name): a delegating route (no destinations; its match merges with the delegate's)
}

type vsSpec struct {
	name, ns string
	ctime    int
	hosts    []string
	exportTo []string
	gateways []string
	gwSem    bool
	http     []httpSpec
	tcp      []destSpec
}

type drSpec struct {
	name, ns string
	ctime    int
	host     string
	exportTo []string
	selector map[string]string // nil: no workloadSelector
	subsets  []subsetSpec
	tp       *tpSpec // top-level trafficPolicy (nil: none)
	backend  bool    // synthesized from a Gateway API backend policy (internal parents annotation)
}

// subsetSpec: a subset and the maxConnections of its own trafficPolicy (0: none).
type subsetSpec struct {
	name string
	pool int
}

// tpSpec: connectionPool.tcp.maxConnections and loadBalancer.simple at destination level (0: unset)
// and for one port (plPort 0: no port-level entry). The values identify the rule they were written in.
type tpSpec struct {
	pool, lb             int
	plPort, plPool, plLB int
}

func encSubsets(l []subsetSpec) string {
	if len(l) == 0 {
		return "-"
	}
	o := make([]string, len(l))
	for i, s := range l {
		o[i] = wire.Enc(s.name)
		if s.pool != 0 {
			o[i] += "~" + strconv.Itoa(s.pool)
		}
	}
	return strings.Join(o, ",")
}

func decSubsets(t string) []subsetSpec {
	if t == "-" {
		return nil
	}
	var out []subsetSpec
	for _, it := range strings.Split(t, ",") {
		a, b, _ := strings.Cut(it, "~")
		n, _ := strconv.Atoi(b)
		out = append(out, subsetSpec{wire.Dec(a), n})
	}
	return out
}

func num(n int) string {
	if n == 0 {
		return "-"
	}
	return strconv.Itoa(n)
}

// encTP: n | <pool>:<lb>:<plPort>/<plPool>/<plLB>:<backend>
func encTP(tp *tpSpec, backend bool) string {
	if tp == nil {
		return "n:" + wire.B(backend)
	}
	return fmt.Sprintf("%s:%s:%s/%s/%s:%s", num(tp.pool), num(tp.lb), num(tp.plPort), num(tp.plPool), num(tp.plLB), wire.B(backend))
}

func decTP(t string) (*tpSpec, bool) {
	f := strings.Split(t, ":")
	at := func(s string) int {
		if s == "-" {
			return 0
		}
		n, _ := strconv.Atoi(s)
		return n
	}
	if f[0] == "n" {
		return nil, len(f) > 1 && f[1] == "1"
	}
	if len(f) != 4 {
		return nil, false
	}
	pl := strings.Split(f[2], "/")
	tp := &tpSpec{pool: at(f[0]), lb: at(f[1])}
	if len(pl) == 3 {
		tp.plPort, tp.plPool, tp.plLB = at(pl[0]), at(pl[1]), at(pl[2])
	}
	return tp, f[3] == "1"
}

type listenerSpec struct {
	port  int
	proto string
	bind  string // "" or a unix domain socket path
	hosts []string
}

type sidecarSpec struct {
	name, ns string
	ctime    int
	selector map[string]string // nil: no workloadSelector
	egress   []listenerSpec
}

// sevRule: one matcher of a ServiceEntryVisibility policy.
type sevRule struct {
	kind   string            // "?" unset matcher, "!" namespace selector without a selector, "s" selector
	labels map[string]string // matchLabels (kind "s"; empty: matches every namespace)
	exprs  []sevExpr         // matchExpressions
}

// sevExpr: key, operator (in | notin | ex | nex), values
type sevExpr struct {
	key, op string
	values  []string
}

type sevPolicy struct {
	vis   string // u | p | n | x   (UNSPECIFIED / PUBLIC / NAMESPACE / NONE)
	rules []sevRule
}

// sevSpec: MeshConfig.serviceEntryVisibility (policies; applyToSidecars is meshSpec.apply).
type sevSpec struct {
	dflt     string
	policies []sevPolicy
}

type meshSpec struct {
	sev                  *sevSpec
	nsLabels             map[string]map[string]string
	root                 string
	defSvc, defVS, defDR []string
	nilSvc, nilVS, nilDR bool
	apply                bool
}

type world struct {
	unified, pickBest, enhanced bool
	lazy, concurrent            bool // ENABLE_LAZY_SIDECAR_EVALUATION, PILOT_CONVERT_SIDECAR_SCOPE_CONCURRENCY > 1
	mesh                        meshSpec
	svcs                        []svcSpec
	vss                         []vsSpec
	drs                         []drSpec
	scs                         []sidecarSpec

	// built
	ps    *model.PushContext
	store *model.FakeStore
	reg   *sd
	rev   int // revision marker of updated VirtualServices
	env   *model.Environment
	stop  chan struct{}
	stops []chan struct{} // environments replaced by a rebuild, stopped at the end of the case
	byID  map[string]*svcSpec

	lastKey  *model.ConfigKey // the object of the last update / delete
	queries  [][]string // scope queries of the case (oracle)
	deferred string     // a known-class failure, reported only when the case shows nothing else
}

// ---------------------------------------------------------------- encoding helpers

func encItems(items []string, sep string) string {
	if len(items) == 0 {
		return "-"
	}
	o := make([]string, len(items))
	for i, s := range items {
		o[i] = wire.Enc(s)
	}
	return strings.Join(o, sep)
}

func decItems(t, sep string) []string {
	if t == "-" {
		return nil
	}
	ps := strings.Split(t, sep)
	for i := range ps {
		ps[i] = wire.Dec(ps[i])
	}
	return ps
}

func encOptList(l []string, isNil bool) string {
	if isNil {
		return "nil"
	}
	return encItems(l, ",")
}

func encPorts(ps []portSpec) string {
	if len(ps) == 0 {
		return "-"
	}
	o := make([]string, len(ps))
	for i, p := range ps {
		o[i] = fmt.Sprintf("%d|%s", p.num, wire.Enc(p.name))
	}
	return strings.Join(o, ",")
}

func decPorts(t string) []portSpec {
	if t == "-" {
		return nil
	}
	var out []portSpec
	for _, it := range strings.Split(t, ",") {
		a, b, _ := strings.Cut(it, "|")
		n, _ := strconv.Atoi(a)
		out = append(out, portSpec{n, wire.Dec(b)})
	}
	return out
}

func encDests(ds []destSpec) string {
	if len(ds) == 0 {
		return "-"
	}
	o := make([]string, len(ds))
	for i, d := range ds {
		o[i] = fmt.Sprintf("%s!%d", wire.Enc(d.host), d.port)
	}
	return strings.Join(o, "|")
}

func decDests(t string) []destSpec {
	if t == "-" {
		return nil
	}
	var out []destSpec
	for _, it := range strings.Split(t, "|") {
		a, b, _ := strings.Cut(it, "!")
		n, _ := strconv.Atoi(b)
		out = append(out, destSpec{wire.Dec(a), n})
	}
	return out
}

func encHTTP(hs []httpSpec) string {
	if len(hs) == 0 {
		return "-"
	}
	o := make([]string, len(hs))
	for i, h := range hs {
		if h.delegate != nil {
			o[i] = "@" + wire.Enc(h.delegate[0]) + "|" + wire.Enc(h.delegate[1])
			if len(h.srcNs) > 0 {
				o[i] = encItems(h.srcNs, "|") + "^" + o[i]
			}
			continue
		}
		o[i] = encItems(h.srcNs, "|") + "^" + encDests(h.dests)
	}
	return strings.Join(o, ";")
}

func decHTTP(t string) []httpSpec {
	if t == "-" {
		return nil
	}
	var out []httpSpec
	for _, it := range strings.Split(t, ";") {
		if strings.HasPrefix(it, "@") {
			a, b, _ := strings.Cut(it[1:], "|")
			out = append(out, httpSpec{delegate: &[2]string{wire.Dec(a), wire.Dec(b)}})
			continue
		}
		a, b, _ := strings.Cut(it, "^")
		if strings.HasPrefix(b, "@") {
			x, y, _ := strings.Cut(b[1:], "|")
			out = append(out, httpSpec{srcNs: decItems(a, "|"), delegate: &[2]string{wire.Dec(x), wire.Dec(y)}})
			continue
		}
		out = append(out, httpSpec{srcNs: decItems(a, "|"), dests: decDests(b)})
	}
	return out
}

func encEgress(ls []listenerSpec) string {
	if len(ls) == 0 {
		return "-"
	}
	o := make([]string, len(ls))
	for i, l := range ls {
		if l.bind != "" {
			o[i] = fmt.Sprintf("%d|%s|%s^%s", l.port, wire.Enc(l.proto), wire.Enc(l.bind), encItems(l.hosts, "|"))
			continue
		}
		o[i] = fmt.Sprintf("%d|%s^%s", l.port, wire.Enc(l.proto), encItems(l.hosts, "|"))
	}
	return strings.Join(o, ";")
}

func decEgress(t string) []listenerSpec {
	if t == "-" {
		return nil
	}
	var out []listenerSpec
	for _, it := range strings.Split(t, ";") {
		a, b, _ := strings.Cut(it, "^")
		f := strings.Split(a, "|")
		n, _ := strconv.Atoi(f[0])
		l := listenerSpec{port: n, hosts: decItems(b, "|")}
		if len(f) > 1 {
			l.proto = wire.Dec(f[1])
		}
		if len(f) > 2 {
			l.bind = wire.Dec(f[2])
		}
		out = append(out, l)
	}
	return out
}

func encLabels(m map[string]string, isNil bool) string {
	if isNil {
		return "nil"
	}
	if len(m) == 0 {
		return "-"
	}
	ks := make([]string, 0, len(m))
	for k := range m {
		ks = append(ks, k)
	}
	sort.Strings(ks)
	o := make([]string, len(ks))
	for i, k := range ks {
		o[i] = wire.Enc(k) + "=" + wire.Enc(m[k])
	}
	return strings.Join(o, "|")
}

func decLabels(t string) (map[string]string, bool) {
	if t == "nil" {
		return nil, true
	}
	m := map[string]string{}
	if t == "-" {
		return m, false
	}
	for _, it := range strings.Split(t, "|") {
		a, b, _ := strings.Cut(it, "=")
		m[wire.Dec(a)] = wire.Dec(b)
	}
	return m, false
}

func encAliases(as [][2]string) string {
	if len(as) == 0 {
		return "-"
	}
	o := make([]string, len(as))
	for i, a := range as {
		o[i] = wire.Enc(a[0]) + "|" + wire.Enc(a[1])
	}
	return strings.Join(o, ",")
}

func decAliases(t string) [][2]string {
	if t == "-" {
		return nil
	}
	var out [][2]string
	for _, it := range strings.Split(t, ",") {
		a, b, _ := strings.Cut(it, "|")
		out = append(out, [2]string{wire.Dec(a), wire.Dec(b)})
	}
	return out
}

// ---------------------------------------------------------------- op lines <-> specs

func (m meshSpec) line() []string {
	out := []string{"mesh", wire.Enc(m.root), encOptList(m.defSvc, m.nilSvc), encOptList(m.defVS, m.nilVS),
		encOptList(m.defDR, m.nilDR), wire.B(m.apply)}
	if m.sev != nil {
		out = append(out, "v="+encSev(m.sev))
	}
	return out
}

// encSev: <default>[;<vis>^<rule>&<rule>...]...   rule = ? | ! | - | k=v+k=v
func encSev(v *sevSpec) string {
	parts := []string{v.dflt}
	for _, p := range v.policies {
		var rs []string
		for _, r := range p.rules {
			switch {
			case r.kind != "s":
				rs = append(rs, r.kind)
			case len(r.labels) == 0 && len(r.exprs) == 0:
				rs = append(rs, "-")
			default:
				var items []string
				if len(r.labels) > 0 {
					items = append(items, strings.Split(encLabels(r.labels, false), "|")...)
				}
				for _, e := range r.exprs {
					items = append(items, wire.Enc(e.key)+":"+e.op+":"+strings.Join(e.values, "."))
				}
				rs = append(rs, strings.Join(items, "+"))
			}
		}
		parts = append(parts, p.vis+"^"+strings.Join(rs, "&"))
	}
	return strings.Join(parts, ";")
}

func decSev(t string) *sevSpec {
	parts := strings.Split(t, ";")
	v := &sevSpec{dflt: parts[0]}
	for _, pt := range parts[1:] {
		vis, rs, _ := strings.Cut(pt, "^")
		p := sevPolicy{vis: vis}
		if rs != "" {
			for _, r := range strings.Split(rs, "&") {
				switch r {
				case "?", "!":
					p.rules = append(p.rules, sevRule{kind: r})
				case "-":
					p.rules = append(p.rules, sevRule{kind: "s", labels: map[string]string{}})
				default:
					rule := sevRule{kind: "s", labels: map[string]string{}}
					for _, it := range strings.Split(r, "+") {
						if f := strings.Split(it, ":"); len(f) == 3 {
							e := sevExpr{key: wire.Dec(f[0]), op: f[1]}
							if f[2] != "" {
								e.values = strings.Split(f[2], ".")
							}
							rule.exprs = append(rule.exprs, e)
						} else {
							a, b, _ := strings.Cut(it, "=")
							rule.labels[wire.Dec(a)] = wire.Dec(b)
						}
					}
					p.rules = append(p.rules, rule)
				}
			}
		}
		v.policies = append(v.policies, p)
	}
	return v
}

func sevVisProto(c string) meshconfig.ServiceEntryVisibility_Visibility {
	switch c {
	case "p":
		return meshconfig.ServiceEntryVisibility_PUBLIC
	case "n":
		return meshconfig.ServiceEntryVisibility_NAMESPACE
	case "x":
		return meshconfig.ServiceEntryVisibility_NONE
	}
	return meshconfig.ServiceEntryVisibility_VISIBILITY_UNSPECIFIED
}

// proto builds the MeshConfig.serviceEntryVisibility message of the spec.
func (v *sevSpec) proto(apply bool) *meshconfig.ServiceEntryVisibility {
	out := &meshconfig.ServiceEntryVisibility{ApplyToSidecars: apply, DefaultVisibility: sevVisProto(v.dflt)}
	for _, p := range v.policies {
		pp := &meshconfig.ServiceEntryVisibility_Policy{Visibility: sevVisProto(p.vis)}
		for _, r := range p.rules {
			mr := &meshconfig.ServiceEntryVisibility_MatchRule{}
			switch r.kind {
			case "!":
				mr.Matcher = &meshconfig.ServiceEntryVisibility_MatchRule_NamespaceSelector{}
			case "s":
				sel := &meshconfig.LabelSelector{MatchLabels: r.labels}
				for _, e := range r.exprs {
					op := map[string]string{"in": "In", "notin": "NotIn", "ex": "Exists", "nex": "DoesNotExist"}[e.op]
					sel.MatchExpressions = append(sel.MatchExpressions, &meshconfig.LabelSelectorRequirement{Key: e.key, Operator: op, Values: e.values})
				}
				mr.Matcher = &meshconfig.ServiceEntryVisibility_MatchRule_NamespaceSelector{NamespaceSelector: sel}
			}
			pp.MatchingRules = append(pp.MatchingRules, mr)
		}
		out.Policies = append(out.Policies, pp)
	}
	return out
}

func (s svcSpec) line() []string {
	reg := "e"
	if s.k8s {
		reg = "k"
	}
	out := []string{"svc", wire.Enc(s.id), wire.Enc(s.hostname), wire.Enc(s.ns), reg, strconv.Itoa(s.ctime), wire.Enc(s.name),
		encPorts(s.ports), encItems(s.exportTo, ","), s.vis, strconv.Itoa(s.res), wire.Enc(s.attr), encAliases(s.aliases)}
	if s.externalName != "" {
		out = append(out, "x="+wire.Enc(s.externalName))
	}
	return out
}

func (v vsSpec) line() []string {
	return []string{"vs", wire.Enc(v.name), wire.Enc(v.ns), strconv.Itoa(v.ctime), encItems(v.hosts, ","), encItems(v.exportTo, ","),
		encItems(v.gateways, ","), wire.B(v.gwSem), encHTTP(v.http), encDests(v.tcp)}
}

func (d drSpec) line() []string {
	return []string{"dr", wire.Enc(d.name), wire.Enc(d.ns), strconv.Itoa(d.ctime), wire.Enc(d.host), encItems(d.exportTo, ","),
		encLabels(d.selector, d.selector == nil), encSubsets(d.subsets), encTP(d.tp, d.backend)}
}

func (s sidecarSpec) line() []string {
	return []string{"sc", wire.Enc(s.name), wire.Enc(s.ns), strconv.Itoa(s.ctime), encLabels(s.selector, s.selector == nil), encEgress(s.egress)}
}

func optList(t string) ([]string, bool) {
	if t == "nil" {
		return nil, true
	}
	return decItems(t, ","), false
}

func flagOf(toks []string, key string, def bool) bool {
	for _, t := range toks {
		if strings.HasPrefix(t, key+"=") {
			return t[len(key)+1:] == "1"
		}
	}
	return def
}

func newWorld(caseToks []string) *world {
	w := &world{unified: flagOf(caseToks, "U", true), pickBest: flagOf(caseToks, "P", true), enhanced: flagOf(caseToks, "E", true),
		lazy: flagOf(caseToks, "L", true), concurrent: flagOf(caseToks, "C", false)}
	w.mesh = meshSpec{root: "istio-system", nilSvc: true, nilVS: true, nilDR: true}
	return w
}

// apply consumes a declaration line; returns false if the line is not a declaration.
func (w *world) apply(t []string) bool {
	atoi := func(s string) int { n, _ := strconv.Atoi(s); return n }
	switch {
	case t[0] == "nsl" && len(t) == 3:
		if w.mesh.nsLabels == nil {
			w.mesh.nsLabels = map[string]map[string]string{}
		}
		l, _ := decLabels(t[2])
		w.mesh.nsLabels[wire.Dec(t[1])] = l
	case t[0] == "mesh" && (len(t) == 6 || (len(t) == 7 && strings.HasPrefix(t[6], "v="))):
		if len(t) == 7 {
			w.mesh.sev = decSev(t[6][2:])
		}
		w.mesh.root = wire.Dec(t[1])
		w.mesh.defSvc, w.mesh.nilSvc = optList(t[2])
		w.mesh.defVS, w.mesh.nilVS = optList(t[3])
		w.mesh.defDR, w.mesh.nilDR = optList(t[4])
		w.mesh.apply = t[5] == "1"
	case t[0] == "svc" && (len(t) == 13 || (len(t) == 14 && strings.HasPrefix(t[13], "x="))):
		ext := ""
		if len(t) == 14 {
			ext = wire.Dec(t[13][2:])
		}
		w.svcs = append(w.svcs, svcSpec{externalName: ext, id: wire.Dec(t[1]), hostname: wire.Dec(t[2]), ns: wire.Dec(t[3]), k8s: t[4] == "k",
			ctime: atoi(t[5]), name: wire.Dec(t[6]), ports: decPorts(t[7]), exportTo: decItems(t[8], ","), vis: t[9],
			res: atoi(t[10]), attr: wire.Dec(t[11]), aliases: decAliases(t[12])})
	case t[0] == "vs" && len(t) == 10:
		w.vss = append(w.vss, vsSpec{name: wire.Dec(t[1]), ns: wire.Dec(t[2]), ctime: atoi(t[3]), hosts: decItems(t[4], ","),
			exportTo: decItems(t[5], ","), gateways: decItems(t[6], ","), gwSem: t[7] == "1", http: decHTTP(t[8]), tcp: decDests(t[9])})
	case t[0] == "dr" && len(t) == 9:
		sel, isNil := decLabels(t[6])
		if isNil {
			sel = nil
		}
		w.drs = append(w.drs, drSpec{name: wire.Dec(t[1]), ns: wire.Dec(t[2]), ctime: atoi(t[3]), host: wire.Dec(t[4]),
			exportTo: decItems(t[5], ","), selector: sel, subsets: decSubsets(t[7])})
		w.drs[len(w.drs)-1].tp, w.drs[len(w.drs)-1].backend = decTP(t[8])
	case t[0] == "sc" && len(t) == 6:
		sel, isNil := decLabels(t[4])
		if isNil {
			sel = nil
		}
		w.scs = append(w.scs, sidecarSpec{name: wire.Dec(t[1]), ns: wire.Dec(t[2]), ctime: atoi(t[3]), selector: sel, egress: decEgress(t[5])})
	default:
		return false
	}
	return true
}

// ---------------------------------------------------------------- real objects

var epoch = time.Date(2020, 1, 1, 0, 0, 0, 0, time.UTC)

// vipOf: the service VIP of the i-th declared service (TCP listeners bind to it).
func vipOf(i int) string { return fmt.Sprintf("10.1.%d.%d", i/200, i%200+1) }

func (s *svcSpec) real(idx int) *model.Service {
	ports := make(model.PortList, 0, len(s.ports))
	for _, p := range s.ports {
		pr := protocol.HTTP
		if strings.HasPrefix(p.name, "tcp") {
			pr = protocol.TCP
		} else if strings.HasPrefix(p.name, "tls") {
			pr = protocol.TLS
		}
		ports = append(ports, &model.Port{Name: p.name, Port: p.num, Protocol: pr})
	}
	reg := provider.External
	if s.k8s {
		reg = provider.Kubernetes
	}
	out := &model.Service{
		Hostname:     host.Name(s.hostname),
		Ports:        ports,
		CreationTime: epoch.Add(time.Duration(s.ctime) * time.Second),
		Resolution:   resolutionOf(s.res),
		Attributes: model.ServiceAttributes{
			Name:            s.name,
			Namespace:       s.ns,
			ServiceRegistry: reg,
		},
	}
	out.Attributes.K8sAttributes.ObjectName = s.id
	out.DefaultAddress = vipOf(idx)
	if s.externalName != "" {
		out.Resolution = model.Alias
		out.Attributes.K8sAttributes.ExternalName = s.externalName
	}
	if s.attr != "" {
		out.Attributes.Labels = map[string]string{"attr": s.attr}
	}
	if len(s.exportTo) > 0 {
		out.Attributes.ExportTo = sets.New[visibility.Instance]()
		for _, e := range s.exportTo {
			out.Attributes.ExportTo.Insert(visibility.Instance(e))
		}
	}
	switch s.vis {
	case "n":
		out.Attributes.Visibility = model.ServiceVisibilityNamespace
	case "x":
		out.Attributes.Visibility = model.ServiceVisibilityNone
	}
	for _, a := range s.aliases {
		out.Attributes.Aliases = append(out.Attributes.Aliases, model.NamespacedHostname{Namespace: a[0], Hostname: host.Name(a[1])})
	}
	return out
}

func dest(d destSpec) *networking.Destination {
	out := &networking.Destination{Host: d.host}
	if d.port != 0 {
		out.Port = &networking.PortSelector{Number: uint32(d.port)}
	}
	return out
}

func (v *vsSpec) real() config.Config {
	spec := &networking.VirtualService{Hosts: v.hosts, Gateways: v.gateways, ExportTo: v.exportTo}
	for _, h := range v.http {
		r := &networking.HTTPRoute{}
		for _, sn := range h.srcNs {
			r.Match = append(r.Match, &networking.HTTPMatchRequest{SourceNamespace: sn})
		}
		if h.delegate != nil {
			r.Delegate = &networking.Delegate{Name: h.delegate[1], Namespace: h.delegate[0]}
			spec.Http = append(spec.Http, r)
			continue
		}
		// the destinations of one http route are spread over route / mirror / mirrors
		for i, d := range h.dests {
			switch i {
			case 0:
				r.Route = append(r.Route, &networking.HTTPRouteDestination{Destination: dest(d)})
			case 1:
				r.Mirror = dest(d)
			default:
				r.Mirrors = append(r.Mirrors, &networking.HTTPMirrorPolicy{Destination: dest(d)})
			}
		}
		spec.Http = append(spec.Http, r)
	}
	// tcp-level destinations alternate between a tcp and a tls route
	for i, d := range v.tcp {
		if i%2 == 0 {
			spec.Tcp = append(spec.Tcp, &networking.TCPRoute{Route: []*networking.RouteDestination{{Destination: dest(d)}}})
		} else {
			spec.Tls = append(spec.Tls, &networking.TLSRoute{Route: []*networking.RouteDestination{{Destination: dest(d)}}})
		}
	}
	c := config.Config{
		Meta: config.Meta{GroupVersionKind: gvk.VirtualService, Name: v.name, Namespace: v.ns, Domain: "cluster.local",
			CreationTimestamp: epoch.Add(time.Duration(v.ctime) * time.Second)},
		Spec: spec,
	}
	if v.gwSem {
		c.Annotations = map[string]string{constants.InternalRouteSemantics: constants.RouteSemanticsGateway}
	}
	return c
}

func (d *drSpec) real() config.Config {
	spec := &networking.DestinationRule{Host: d.host, ExportTo: d.exportTo}
	if d.selector != nil {
		spec.WorkloadSelector = &typev1beta1.WorkloadSelector{MatchLabels: d.selector}
	}
	pool := func(n int) *networking.ConnectionPoolSettings {
		if n == 0 {
			return nil
		}
		return &networking.ConnectionPoolSettings{Tcp: &networking.ConnectionPoolSettings_TCPSettings{MaxConnections: int32(n)}}
	}
	lb := func(n int) *networking.LoadBalancerSettings {
		if n == 0 {
			return nil
		}
		return &networking.LoadBalancerSettings{LbPolicy: &networking.LoadBalancerSettings_Simple{
			Simple: networking.LoadBalancerSettings_SimpleLB(n)}}
	}
	for _, sn := range d.subsets {
		sub := &networking.Subset{Name: sn.name, Labels: map[string]string{"version": sn.name}}
		if sn.pool != 0 {
			sub.TrafficPolicy = &networking.TrafficPolicy{ConnectionPool: pool(sn.pool)}
		}
		spec.Subsets = append(spec.Subsets, sub)
	}
	if d.tp != nil {
		spec.TrafficPolicy = &networking.TrafficPolicy{ConnectionPool: pool(d.tp.pool), LoadBalancer: lb(d.tp.lb)}
		if d.tp.plPort != 0 {
			spec.TrafficPolicy.PortLevelSettings = []*networking.TrafficPolicy_PortTrafficPolicy{{
				Port: &networking.PortSelector{Number: uint32(d.tp.plPort)}, ConnectionPool: pool(d.tp.plPool), LoadBalancer: lb(d.tp.plLB)}}
		}
	}
	var ann map[string]string
	if d.backend {
		ann = map[string]string{constants.InternalParentNames: "BackendTLSPolicy/x." + d.ns}
	}
	return config.Config{
		Meta: config.Meta{GroupVersionKind: gvk.DestinationRule, Name: d.name, Namespace: d.ns, Annotations: ann, Domain: "cluster.local",
			CreationTimestamp: epoch.Add(time.Duration(d.ctime) * time.Second)},
		Spec: spec,
	}
}

func (s *sidecarSpec) real() config.Config {
	spec := &networking.Sidecar{}
	if s.selector != nil {
		spec.WorkloadSelector = &networking.WorkloadSelector{Labels: s.selector}
	}
	for _, l := range s.egress {
		e := &networking.IstioEgressListener{Hosts: l.hosts}
		if l.port != 0 || l.proto != "" {
			e.Port = &networking.SidecarPort{Number: uint32(l.port), Protocol: l.proto, Name: "p"}
		}
		e.Bind = l.bind
		spec.Egress = append(spec.Egress, e)
	}
	return config.Config{
		Meta: config.Meta{GroupVersionKind: gvk.Sidecar, Name: s.name, Namespace: s.ns,
			CreationTimestamp: epoch.Add(time.Duration(s.ctime) * time.Second)},
		Spec: spec,
	}
}

// ---------------------------------------------------------------- service discovery over the spec list

type sd struct {
	model.NetworkGatewaysHandler
	services []*model.Service
}

func (l *sd) Services() []*model.Service { return append([]*model.Service(nil), l.services...) }
func (l *sd) GetService(h host.Name) *model.Service {
	for _, s := range l.services {
		if s.Hostname == h {
			return s
		}
	}
	return nil
}
func (l *sd) GetProxyServiceTargets(*model.Proxy) []model.ServiceTarget { return nil }
func (l *sd) GetProxyWorkloadLabels(*model.Proxy) labels.Instance       { return nil }
func (l *sd) GetIstioServiceAccounts(*model.Service) []string           { return nil }
func (l *sd) NetworkGateways() []model.NetworkGateway                   { return nil }
func (l *sd) MCSServices() []model.MCSServiceInfo                       { return nil }

// ---------------------------------------------------------------- build the real PushContext

func (w *world) meshConfig() *meshconfig.MeshConfig {
	m := mesh.DefaultMeshConfig()
	m.RootNamespace = w.mesh.root
	set := func(l []string, isNil bool) []string {
		if isNil {
			return nil
		}
		if l == nil {
			return []string{}
		}
		return l
	}
	m.DefaultServiceExportTo = set(w.mesh.defSvc, w.mesh.nilSvc)
	m.DefaultVirtualServiceExportTo = set(w.mesh.defVS, w.mesh.nilVS)
	m.DefaultDestinationRuleExportTo = set(w.mesh.defDR, w.mesh.nilDR)
	if w.mesh.sev != nil {
		m.ServiceEntryVisibility = w.mesh.sev.proto(w.mesh.apply)
	} else if w.mesh.apply {
		m.ServiceEntryVisibility = &meshconfig.ServiceEntryVisibility{ApplyToSidecars: true}
	}
	return m
}

// close stops every environment the case built. Environments are only stopped at the end of the case, not when a
// rebuild replaces them: stopping a krt-based VirtualService controller that still digests an update makes its
// delegate transformation read a stopped singleton (nil dereference in a controller goroutine).
func (w *world) close() {
	if w.stop != nil {
		w.stops = append(w.stops, w.stop)
		w.stop = nil
	}
	if len(w.stops) > 0 {
		time.Sleep(time.Millisecond)
	}
	for _, s := range w.stops {
		close(s)
	}
	w.stops = nil
}

// retire keeps the current environment running until the case ends.
func (w *world) retire() {
	if w.stop != nil {
		w.stops = append(w.stops, w.stop)
		w.stop = nil
	}
}

// waitSynced waits up to a minute (a loaded machine can be slow); the panic value is a distinct
// token so that an environment timeout is not mistaken for a crash of the code under test.
func waitSynced(f func() bool) {
	deadline := time.Now().Add(60 * time.Second)
	for time.Now().Before(deadline) {
		if f() {
			return
		}
		time.Sleep(50 * time.Microsecond)
	}
	panic("env-timeout")
}

func (w *world) build() {
	w.retire()
	features.UnifiedSidecarScoping = w.unified
	features.SidecarPickBestServiceNamespace = w.pickBest
	features.EnableEnhancedDestinationRuleMerge = w.enhanced
	// how the scopes are computed must not matter: eagerly / lazily, sequentially / by a worker pool
	features.EnableLazySidecarEvaluation = w.lazy
	features.ConvertSidecarScopeConcurrency = 1
	if w.concurrent {
		features.ConvertSidecarScopeConcurrency = 4
	}
	w.byID = map[string]*svcSpec{}
	env := model.NewEnvironment()
	env.Watcher = meshwatcher.NewTestWatcher(w.meshConfig())
	d := &sd{}
	for i := range w.svcs {
		rs := w.svcs[i].real(i)
		if w.svcs[i].vis == "a" {
			// the visibility the real policy evaluation resolves for the service's namespace
			// (serviceentry_visibility.go: CompileServiceEntryVisibility + VisibilityFor)
			rs.Attributes.Visibility = w.realVisibilityFor(w.svcs[i].ns)
		}
		d.services = append(d.services, rs)
		w.byID[w.svcs[i].id] = &w.svcs[i]
	}
	env.ServiceDiscovery = d
	store := model.NewFakeStore()
	for i := range w.vss {
		if _, err := store.Create(w.vss[i].real()); err != nil {
			panic(err)
		}
	}
	for i := range w.drs {
		if _, err := store.Create(w.drs[i].real()); err != nil {
			panic(err)
		}
	}
	// a Gateway `gw1` in every namespace whose VirtualServices bind to it, served by the router proxies
	// of the oracle (selector istio=ingressgateway); it feeds GatewayServices when
	// PILOT_FILTER_GATEWAY_CLUSTER_CONFIG is on
	gwNs := map[string]bool{}
	for i := range w.vss {
		for _, g := range w.vss[i].gateways {
			if g == "gw1" && !gwNs[w.vss[i].ns] {
				gwNs[w.vss[i].ns] = true
				gw := config.Config{
					Meta: config.Meta{GroupVersionKind: gvk.Gateway, Name: "gw1", Namespace: w.vss[i].ns, CreationTimestamp: epoch},
					Spec: &networking.Gateway{
						Selector: map[string]string{"istio": "ingressgateway"},
						Servers: []*networking.Server{{
							Port:  &networking.Port{Number: 80, Name: "http", Protocol: "HTTP"},
							Hosts: []string{"*"},
						}},
					},
				}
				if _, err := store.Create(gw); err != nil {
					panic(err)
				}
			}
		}
	}
	for i := range w.scs {
		if _, err := store.Create(w.scs[i].real()); err != nil {
			panic(err)
		}
	}
	env.ConfigStore = store
	w.store, w.reg = store, d
	w.stop = make(chan struct{})
	env.VirtualServiceController = model.NewVirtualServiceController(store, model.VSControllerOptions{KrtDebugger: krt.GlobalDebugHandler}, env.Watcher)
	go store.Run(w.stop)
	go env.VirtualServiceController.Run(w.stop)
	waitSynced(store.HasSynced)
	waitSynced(env.VirtualServiceController.HasSynced)
	env.NetworksWatcher = meshwatcher.NewFixedNetworksWatcher(nil)
	env.Init()
	if err := env.InitNetworksManager(model.NewEndpointIndexUpdater(env.EndpointIndex)); err != nil {
		panic(err)
	}
	w.env = env
	w.registerEndpoints()
	ps := model.NewPushContext()
	ps.InitContext(env, nil, nil)
	w.ps, w.env = ps, env
}

func hostName(h string) host.Name { return host.Name(h) }

// resolutionOf maps the spec's resolution tag to resolutions whose outbound cluster CDS always
// builds (a DNS cluster without endpoints is dropped by the cluster builder, which is not the
// subject here): 0 = ClientSideLB (EDS), anything else = Passthrough (ORIGINAL_DST).
func resolutionOf(r int) model.Resolution {
	if r == 0 {
		return model.ClientSideLB
	}
	return model.Passthrough
}

// keys: the distinct (hostname, namespace) keys in declaration order.
func (w *world) keys() [][2]string {
	var out [][2]string
	seen := map[[2]string]bool{}
	for i := range w.svcs {
		k := [2]string{w.svcs[i].hostname, w.svcs[i].ns}
		if !seen[k] {
			seen[k] = true
			out = append(out, k)
		}
	}
	return out
}

// keyAddr: the endpoint address registered for a key (its index among the keys).
func (w *world) keyAddr(h, ns string) string {
	for i, k := range w.keys() {
		if k[0] == h && k[1] == ns {
			return fmt.Sprintf("10.9.%d.%d", i/200, i%200+1)
		}
	}
	return ""
}

// labelledAddr: the address of the version=shared workload of the key whose plain workload is a.
func labelledAddr(a string) string { return "10.8." + strings.TrimPrefix(a, "10.9.") }

// realVisibilityFor runs the real compiled serviceEntryVisibility matcher on the labels of a namespace.
func (w *world) realVisibilityFor(ns string) model.ServiceVisibility {
	var sev *meshconfig.ServiceEntryVisibility
	if w.mesh.sev != nil {
		sev = w.mesh.sev.proto(w.mesh.apply)
	}
	m, _ := model.CompileServiceEntryVisibility(sev)
	return m.VisibilityFor(w.mesh.nsLabels[ns])
}

// ---------------------------------------------------------------- incremental update
//
// update <declaration line> / delete <kind> <name> <namespace>: one object of the case changes (is replaced
// by name, added, or removed), the change is applied to the real config store / registry, and the NEXT
// PushContext is initialised incrementally from the current one: InitContext(env, old, pushReq) with the
// changed key in ConfigsUpdated (updateContext reuses every index the key does not invalidate). The model
// rebuilds from scratch: an incremental context must answer like a fresh one.

func (w *world) update(t []string) string {
	cnt("incremental-update-" + t[1])
	var key model.ConfigKey
	del := t[0] == "delete"
	decl := t[1:]
	if del {
		if len(t) != 4 {
			return "bad-op"
		}
		decl = []string{t[1]}
	}
	name, ns := "", ""
	if del {
		name, ns = wire.Dec(t[2]), wire.Dec(t[3])
	} else if len(decl) > 2 {
		name, ns = wire.Dec(decl[1]), wire.Dec(decl[2])
	}
	switch decl[0] {
	case "dr":
		key = model.ConfigKey{Kind: kind.DestinationRule, Name: name, Namespace: ns}
		var old bool
		for i := range w.drs {
			if w.drs[i].name == name && w.drs[i].ns == ns {
				w.drs = append(w.drs[:i], w.drs[i+1:]...)
				old = true
				break
			}
		}
		if del {
			if old {
				_ = w.store.Delete(gvk.DestinationRule, name, ns, nil)
			}
		} else {
			if !w.apply(decl) {
				return "bad-op"
			}
			c := w.drs[len(w.drs)-1].real()
			if old {
				_, _ = w.store.Update(c)
			} else {
				_, _ = w.store.Create(c)
			}
		}
	case "sc":
		key = model.ConfigKey{Kind: kind.Sidecar, Name: name, Namespace: ns}
		var old bool
		for i := range w.scs {
			if w.scs[i].name == name && w.scs[i].ns == ns {
				w.scs = append(w.scs[:i], w.scs[i+1:]...)
				old = true
				break
			}
		}
		if del {
			if old {
				_ = w.store.Delete(gvk.Sidecar, name, ns, nil)
			}
		} else {
			if !w.apply(decl) {
				return "bad-op"
			}
			c := w.scs[len(w.scs)-1].real()
			if old {
				_, _ = w.store.Update(c)
			} else {
				_, _ = w.store.Create(c)
			}
		}
	case "vs":
		key = model.ConfigKey{Kind: kind.VirtualService, Name: name, Namespace: ns}
		var old bool
		for i := range w.vss {
			if w.vss[i].name == name && w.vss[i].ns == ns {
				w.vss = append(w.vss[:i], w.vss[i+1:]...)
				old = true
				break
			}
		}
		w.rev++
		marker := strconv.Itoa(w.rev)
		if del {
			if old {
				_ = w.store.Delete(gvk.VirtualService, name, ns, nil)
			}
		} else {
			if !w.apply(decl) {
				return "bad-op"
			}
			c := w.vss[len(w.vss)-1].real()
			if c.Annotations == nil {
				c.Annotations = map[string]string{}
			}
			c.Annotations["verif/rev"] = marker
			if old {
				_, _ = w.store.Update(c)
			} else {
				_, _ = w.store.Create(c)
			}
		}
		// the VirtualService controller (krt) digests the change asynchronously: wait until its merged view shows it
		isDelegate := !del && len(w.vss[len(w.vss)-1].hosts) == 0
		waitSynced(func() bool {
			for _, mv := range w.env.VirtualServiceController.MergedVirtualServices() {
				if mv.Name == name && mv.Namespace == ns {
					return !del && !isDelegate && mv.Annotations["verif/rev"] == marker
				}
			}
			return del || isDelegate
		})
		if isDelegate || del {
			time.Sleep(2 * time.Millisecond) // roots referring to a delegate are re-merged after it
		}
	case "svc":
		id := wire.Dec(decl[1])
		if del {
			id = wire.Dec(t[2])
		}
		for i := range w.svcs {
			if w.svcs[i].id == id {
				key = model.ConfigKey{Kind: kind.ServiceEntry, Name: w.svcs[i].hostname, Namespace: w.svcs[i].ns}
				w.svcs = append(w.svcs[:i], w.svcs[i+1:]...)
				break
			}
		}
		if !del {
			if !w.apply(decl) {
				return "bad-op"
			}
			n := &w.svcs[len(w.svcs)-1]
			key = model.ConfigKey{Kind: kind.ServiceEntry, Name: n.hostname, Namespace: n.ns}
		}
		w.byID = map[string]*svcSpec{}
		w.reg.services = nil
		for i := range w.svcs {
			rs := w.svcs[i].real(i)
			if w.svcs[i].vis == "a" {
				rs.Attributes.Visibility = w.realVisibilityFor(w.svcs[i].ns)
			}
			w.reg.services = append(w.reg.services, rs)
			w.byID[w.svcs[i].id] = &w.svcs[i]
		}
		w.registerEndpoints()
	default:
		return "bad-op"
	}
	old := w.ps
	ps := model.NewPushContext()
	ps.InitContext(w.env, old, &model.PushRequest{
		ConfigsUpdated: sets.New(key),
		Reason:         model.NewReasonStats(model.ConfigUpdate),
	})
	w.ps = ps
	w.env.SetPushContext(ps)
	w.lastKey = &key
	return "ok"
}

// registerEndpoints: one endpoint per (hostname, namespace) key and port name, with an address that identifies the key.
func (w *world) registerEndpoints() {
	env := w.env
	for _, k := range w.keys() {
		var eps []*model.IstioEndpoint
		seen := map[string]bool{}
		for i := range w.svcs {
			sp := &w.svcs[i]
			if sp.hostname != k[0] || sp.ns != k[1] {
				continue
			}
			for _, p := range sp.ports {
				if seen[p.name] {
					continue
				}
				seen[p.name] = true
				// two workloads per key: an unlabelled one (10.9.x.y) and one labelled version=shared (10.8.x.y), so
				// that the subset of a DestinationRule (labels version=<subset name>) visibly narrows an EDS answer
				a := w.keyAddr(k[0], k[1])
				eps = append(eps, &model.IstioEndpoint{
					Addresses:       []string{a},
					ServicePortName: p.name,
					EndpointPort:    uint32(p.num),
					Namespace:       k[1],
					HostName:        k[0],
				}, &model.IstioEndpoint{
					Addresses:       []string{labelledAddr(a)},
					ServicePortName: p.name,
					EndpointPort:    uint32(p.num),
					Namespace:       k[1],
					HostName:        k[0],
					Labels:          map[string]string{"version": "shared"},
				})
			}
		}
		env.EndpointIndex.UpdateServiceEndpoints(model.ShardKey{Cluster: "c1", Provider: "External"}, k[0], k[1], eps, false)
	}
}

func epochStep(i int) time.Duration { return time.Duration(i) * time.Second }
