package main

import (
	"fmt"
	"sort"

	"verifharness/internal/wire"
)

// ---------------------------------------------------------------- shared generators (vis, scope)

var nsPool = []string{"ns1", "ns2", "ns3", "istio-system"}

var hostPool = []string{"a.com", "b.com", "x.a.com", "y.a.com", "svc.ns1.svc.cluster.local", "svc.ns2.svc.cluster.local", "db.ns3.svc.cluster.local", "*.wild.com", "w.wild.com"}

func dedupSorted(l []string) []string {
	c := append([]string(nil), l...)
	sort.Strings(c)
	out := c[:0]
	for i, s := range c {
		if i == 0 || s != c[i-1] {
			out = append(out, s)
		}
	}
	return out
}

// genExport produces every exportTo form: unset, *, ., ~, one or two namespaces, own namespace,
// "." plus a namespace, and (rarely) the mixtures validation would reject ("*" with "~", "~" with a namespace).
func genExport(r *wire.Rng, nss []string, own string, allowNone bool) []string {
	switch r.Intn(16) {
	case 0, 1, 2, 3:
		return nil
	case 4, 5:
		return []string{"*"}
	case 6, 7:
		return []string{"."}
	case 8:
		if allowNone {
			return []string{"~"}
		}
		return []string{"."}
	case 9, 10:
		return []string{wire.Pick(r, nss)}
	case 11:
		return dedupSorted([]string{wire.Pick(r, nss), wire.Pick(r, nss)})
	case 12:
		return []string{own}
	case 13:
		return dedupSorted([]string{".", wire.Pick(r, nss)})
	case 14:
		if allowNone && r.Chance(1, 2) {
			return dedupSorted([]string{"~", wire.Pick(r, nss)})
		}
		return dedupSorted([]string{"*", wire.Pick(r, nss)})
	default:
		if allowNone && r.Chance(1, 2) {
			return []string{"*", "~"}
		}
		return dedupSorted([]string{".", "*"})
	}
}

func genDefault(r *wire.Rng, nss []string, allowNone bool) ([]string, bool) {
	switch r.Intn(12) {
	case 0, 1, 2, 3, 4:
		return nil, true
	case 5:
		return []string{"*"}, false
	case 6, 7:
		return []string{"."}, false
	case 8:
		return []string{wire.Pick(r, nss)}, false
	case 9:
		return dedupSorted([]string{".", wire.Pick(r, nss)}), false
	case 10:
		if allowNone {
			return []string{"~"}, false
		}
		return []string{"."}, false
	default:
		return nil, false // non-nil empty list
	}
}

func genMesh(r *wire.Rng, nss []string) meshSpec {
	m := meshSpec{root: "istio-system"}
	if r.Chance(1, 6) {
		m.root = wire.Pick(r, nss)
	}
	m.defSvc, m.nilSvc = genDefault(r, nss, true)
	m.defVS, m.nilVS = genDefault(r, nss, true)
	m.defDR, m.nilDR = genDefault(r, nss, false)
	m.apply = r.Chance(1, 5)
	return m
}

// genSvcs: 2-12 services over the namespaces, colliding hostnames across (and sometimes within)
// namespaces, Kubernetes and ServiceEntry provenance, distinct (creation time, name) sort keys.
// At most one Kubernetes service per hostname (a Kubernetes hostname names its namespace).
func genSvcs(r *wire.Rng, nss []string, hosts []string, n int, aliases bool) []svcSpec {
	var out []svcSpec
	k8sHost := map[string]bool{}
	for i := 0; i < n; i++ {
		s := svcSpec{id: fmt.Sprintf("s%d", i), hostname: wire.Pick(r, hosts), ns: wire.Pick(r, nss)}
		s.k8s = r.Chance(1, 3) && !k8sHost[s.hostname]
		if s.k8s {
			k8sHost[s.hostname] = true
		}
		s.ctime = r.Intn(6) // ties on creation time are broken by the unique name
		s.name = fmt.Sprintf("n%02d", r.Intn(50)*100+i)
		np := 1 + r.Intn(3)
		used := map[int]bool{}
		for j := 0; j < np; j++ {
			p := wire.Pick(r, []int{80, 81, 8080, 9090})
			if used[p] {
				continue
			}
			used[p] = true
			s.ports = append(s.ports, portSpec{p, fmt.Sprintf("p%d", p)})
		}
		s.exportTo = genExport(r, nss, s.ns, true)
		s.vis = "p"
		if r.Chance(1, 6) {
			s.vis = wire.Pick(r, []string{"n", "x"})
		}
		s.res = r.Intn(2)
		if r.Chance(1, 5) {
			s.attr = wire.Pick(r, []string{"l1", "l2"})
		}
		if aliases && r.Chance(1, 5) {
			k := 1 + r.Intn(2)
			for j := 0; j < k; j++ {
				s.aliases = append(s.aliases, [2]string{wire.Pick(r, nss), wire.Pick(r, hosts)})
			}
		}
		out = append(out, s)
	}
	return out
}
