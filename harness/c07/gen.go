package main

import (
	"fmt"
	"sort"
	"strings"

	"verifharness/internal/wire"
)

// ---------------------------------------------------------------- shared generators (vis, scope)

var nsPool = []string{"ns1", "ns2", "ns3", "istio-system"}

var hostPool = []string{"a.com", "b.com", "x.a.com", "y.a.com", "svc.ns1.svc.cluster.local", "svc.ns2.svc.cluster.local", "db.ns3.svc.cluster.local", "*.wild.com", "w.wild.com"}

func dedupSorted(l []string) []string {
	c := append([]string(nil), l...)
	sort.Strings(c)
	out := c[:0]
	for i, s := range c {
		if i == 0 || s != c[i-1] {
			out = append(out, s)
		}
	}
	return out
}

// genExport produces every exportTo form: unset, *, ., ~, one or two namespaces, own namespace,
// "." plus a namespace, and (rarely) the mixtures validation would reject ("*" with "~", "~" with a namespace).
// exportTargets: namespaces an exportTo may name: the namespaces of the case, a namespace that holds no
// object at all and the foreign namespace the queries also ask for.
func exportTargets(nss []string) []string {
	return append(append([]string{}, nss...), "empty-ns", "other")
}

func genExport(r *wire.Rng, nss []string, own string, allowNone bool) []string {
	nss = exportTargets(nss)
	switch r.Intn(16) {
	case 0, 1, 2, 3:
		return nil
	case 4, 5:
		return []string{"*"}
	case 6, 7:
		return []string{"."}
	case 8:
		if allowNone {
			return []string{"~"}
		}
		return []string{"."}
	case 9, 10:
		return []string{wire.Pick(r, nss)}
	case 11:
		return dedupSorted([]string{wire.Pick(r, nss), wire.Pick(r, nss)})
	case 12:
		return []string{own}
	case 13:
		return dedupSorted([]string{".", wire.Pick(r, nss)})
	case 14:
		if allowNone && r.Chance(1, 2) {
			return dedupSorted([]string{"~", wire.Pick(r, nss)})
		}
		return dedupSorted([]string{"*", wire.Pick(r, nss)})
	default:
		if allowNone && r.Chance(1, 2) {
			return []string{"*", "~"}
		}
		return dedupSorted([]string{".", "*"})
	}
}

func genDefault(r *wire.Rng, nss []string, allowNone bool) ([]string, bool) {
	nss = exportTargets(nss)
	switch r.Intn(14) {
	case 12:
		return dedupSorted([]string{"*", wire.Pick(r, nss)}), false
	case 13:
		return dedupSorted([]string{wire.Pick(r, nss), wire.Pick(r, nss)}), false
	case 0, 1, 2, 3, 4:
		return nil, true
	case 5:
		return []string{"*"}, false
	case 6, 7:
		return []string{"."}, false
	case 8:
		return []string{wire.Pick(r, nss)}, false
	case 9:
		return dedupSorted([]string{".", wire.Pick(r, nss)}), false
	case 10:
		if allowNone {
			return []string{"~"}, false
		}
		return []string{"."}, false
	default:
		return nil, false // non-nil empty list
	}
}

func genMesh(r *wire.Rng, nss []string) meshSpec {
	m := meshSpec{root: "istio-system"}
	if r.Chance(1, 6) {
		m.root = wire.Pick(r, nss)
	}
	m.defSvc, m.nilSvc = genDefault(r, nss, true)
	m.defVS, m.nilVS = genDefault(r, nss, true)
	m.defDR, m.nilDR = genDefault(r, nss, false)
	m.apply = r.Chance(1, 5)
	// serviceEntryVisibility policies over namespace labels (resolved by the real
	// CompileServiceEntryVisibility / VisibilityFor for the services of class "a")
	if r.Chance(1, 3) {
		m.apply = m.apply || r.Chance(2, 3)
		m.sev = &sevSpec{dflt: wire.Pick(r, []string{"u", "p", "n", "x"})}
		for k := r.Intn(3); k > 0; k-- {
			p := sevPolicy{vis: wire.Pick(r, []string{"u", "p", "n", "n", "x"})}
			for j := r.Intn(3); j > 0; j-- {
				switch r.Intn(8) {
				case 0:
					p.rules = append(p.rules, sevRule{kind: "?"})
				case 1:
					p.rules = append(p.rules, sevRule{kind: "!"})
				case 2:
					p.rules = append(p.rules, sevRule{kind: "s", labels: map[string]string{}})
				default:
					l := map[string]string{wire.Pick(r, []string{"team", "env"}): wire.Pick(r, []string{"a", "b"})}
					if r.Chance(1, 4) {
						l["env"] = wire.Pick(r, []string{"a", "b"})
					}
					rule := sevRule{kind: "s", labels: l}
					if r.Chance(1, 3) {
						if r.Chance(1, 2) {
							rule.labels = map[string]string{}
						}
						e := sevExpr{key: wire.Pick(r, []string{"team", "env"}), op: wire.Pick(r, []string{"in", "notin", "ex", "nex"})}
						if e.op == "in" || e.op == "notin" {
							e.values = []string{wire.Pick(r, []string{"a", "b"})}
							if r.Chance(1, 3) {
								e.values = []string{"a", "b"}
							}
						}
						rule.exprs = append(rule.exprs, e)
					}
					p.rules = append(p.rules, rule)
				}
			}
			m.sev.policies = append(m.sev.policies, p)
		}
		m.nsLabels = map[string]map[string]string{}
		for _, ns := range nss {
			l := map[string]string{}
			if r.Chance(2, 3) {
				l["team"] = wire.Pick(r, []string{"a", "b"})
			}
			if r.Chance(1, 2) {
				l["env"] = wire.Pick(r, []string{"a", "b"})
			}
			m.nsLabels[ns] = l
		}
	}
	return m
}

// meshLines: the mesh line and the namespace label lines of a case.
func meshLines(m meshSpec) [][]string {
	out := [][]string{m.line()}
	var nss []string
	for ns := range m.nsLabels {
		nss = append(nss, ns)
	}
	sort.Strings(nss)
	for _, ns := range nss {
		out = append(out, []string{"nsl", wire.Enc(ns), encLabels(m.nsLabels[ns], false)})
	}
	return out
}

// genSvcs: 2-12 services over the namespaces, colliding hostnames across (and sometimes within)
// namespaces, Kubernetes and ServiceEntry provenance, distinct (creation time, name) sort keys.
// At most one Kubernetes service per hostname (a Kubernetes hostname names its namespace).
func genSvcs(r *wire.Rng, nss []string, hosts []string, n int, aliases bool, sev bool) []svcSpec {
	var out []svcSpec
	k8sHost := map[string]bool{}
	for i := 0; i < n; i++ {
		s := svcSpec{id: fmt.Sprintf("s%d", i), hostname: wire.Pick(r, hosts), ns: wire.Pick(r, nss)}
		// mostly one Kubernetes service per hostname (a Kubernetes hostname names its namespace), sometimes several
		s.k8s = r.Chance(1, 3) && (!k8sHost[s.hostname] || r.Chance(1, 8))
		if s.k8s {
			k8sHost[s.hostname] = true
		}
		// ties on creation time are broken by the unique name in SortServicesByCreationTime and by the
		// namespace in pickBestVisibleNamespace (betterVisibleService), so equal times are welcome
		s.ctime = r.Intn(6)
		s.name = fmt.Sprintf("n%02d", r.Intn(50)*100+i)
		np := 1 + r.Intn(3)
		if r.Chance(1, 25) {
			np = 0 // a service without ports
		}
		used := map[int]bool{}
		for j := 0; j < np; j++ {
			p := wire.Pick(r, []int{80, 81, 8080, 9090, 8443})
			if used[p] {
				continue
			}
			used[p] = true
			// the port name carries the protocol: p<n> = HTTP, tcp-<n> = TCP (fixed per port number so
			// that services sharing a hostname agree on it)
			if p == 9090 {
				s.ports = append(s.ports, portSpec{p, fmt.Sprintf("tcp-%d", p)})
			} else if p == 8443 {
				s.ports = append(s.ports, portSpec{p, fmt.Sprintf("tls-%d", p)})
			} else {
				s.ports = append(s.ports, portSpec{p, fmt.Sprintf("p%d", p)})
			}
		}
		s.exportTo = genExport(r, nss, s.ns, true)
		s.vis = "p"
		if r.Chance(1, 6) {
			s.vis = wire.Pick(r, []string{"n", "x"})
		}
		if sev && !s.k8s && r.Chance(2, 3) {
			s.vis = "a" // a ServiceEntry whose visibility the mesh policies resolve
		}
		s.res = r.Intn(2)
		if r.Chance(1, 5) {
			s.attr = wire.Pick(r, []string{"l1", "l2"})
		}
		if aliases && r.Chance(1, 5) {
			k := 1 + r.Intn(2)
			for j := 0; j < k; j++ {
				s.aliases = append(s.aliases, [2]string{wire.Pick(r, nss), wire.Pick(r, hosts)})
			}
		}
		out = append(out, s)
	}
	// Kubernetes ExternalName services (Resolution Alias): unique hostnames, pointing at a pool
	// hostname, at another ExternalName service (chain) or at themselves (loop); their exportTo
	// decides which namespaces may see the alias hostname on the concrete service.
	if aliases {
		var extHosts []string
		for i, k := 0, r.Intn(4)-1; i < k; i++ {
			ns := wire.Pick(r, nss)
			s := svcSpec{id: fmt.Sprintf("x%d", i), ns: ns, k8s: true, ctime: r.Intn(6), vis: "p", res: 4}
			s.hostname = fmt.Sprintf("ext%d.%s.svc.cluster.local", i, ns)
			s.name = fmt.Sprintf("x%02d", i)
			s.ports = []portSpec{{80, "p80"}}
			s.exportTo = genExport(r, nss, ns, true)
			switch {
			case len(extHosts) > 0 && r.Chance(1, 4):
				s.externalName = wire.Pick(r, extHosts)
			case r.Chance(1, 12):
				s.externalName = s.hostname
			default:
				s.externalName = wire.Pick(r, hosts)
			}
			extHosts = append(extHosts, s.hostname)
			out = append(out, s)
		}
	}
	return out
}

// ---------------------------------------------------------------- scope stream

var vsHostPool = []string{"svc", "a.com", "b.com", "x.a.com", "*.a.com", "*.com", "*", "svc.ns1.svc.cluster.local", "*.wild.com", "w.wild.com", "*.svc.cluster.local"}

func genDest(r *wire.Rng, hosts []string) destSpec {
	h := wire.Pick(r, hosts)
	if r.Chance(1, 10) {
		h = "nowhere.example.com"
	}
	if r.Chance(1, 10) {
		h = wire.Pick(r, []string{"svc", "db"}) // a short name, resolved in the namespace of the VirtualService
	}
	return destSpec{h, wire.Pick(r, []int{0, 0, 0, 80, 81, 8080, 7777})}
}

func genVS(r *wire.Rng, nss, hosts []string, i int) vsSpec {
	v := vsSpec{name: fmt.Sprintf("v%d", i), ns: wire.Pick(r, nss), ctime: r.Intn(5)}
	for k := 1 + r.Intn(2); k > 0; k-- {
		if r.Chance(1, 2) {
			v.hosts = append(v.hosts, wire.Pick(r, hosts))
		} else {
			v.hosts = append(v.hosts, wire.Pick(r, vsHostPool))
		}
	}
	v.exportTo = genExport(r, nss, v.ns, r.Chance(1, 4))
	switch r.Intn(10) {
	case 0:
		v.gateways = []string{"mesh"}
	case 1:
		v.gateways = []string{"gw1"}
	case 2:
		v.gateways = []string{"gw1", "mesh"}
	case 3:
		v.gateways = []string{"./gw1"}
	case 4:
		v.gateways = []string{wire.Pick(r, nss) + "/gw1"} // a gateway of another namespace
	}
	v.gwSem = r.Chance(1, 6)
	for k := 1 + r.Intn(2); k > 0; k-- {
		h := httpSpec{}
		for j := r.Intn(5) - 2; j > 0; j-- {
			h.srcNs = append(h.srcNs, wire.Pick(r, append([]string{""}, nss...)))
		}
		for j := 1 + r.Intn(3); j > 0; j-- {
			h.dests = append(h.dests, genDest(r, hosts))
		}
		v.http = append(v.http, h)
	}
	for j := r.Intn(4) - 1; j > 0; j-- {
		v.tcp = append(v.tcp, genDest(r, hosts))
	}
	return v
}

var drHostPool = []string{"svc", "db", "a.com", "*.a.com", "*.com", "*", "*.svc.cluster.local", "*.ns1.svc.cluster.local"}

func genDR(r *wire.Rng, nss, hosts []string, i int) drSpec {
	d := drSpec{name: fmt.Sprintf("d%d", i), ns: wire.Pick(r, nss), ctime: r.Intn(5)}
	if r.Chance(2, 3) {
		d.host = wire.Pick(r, hosts)
	} else {
		d.host = wire.Pick(r, drHostPool)
	}
	d.exportTo = genExport(r, nss, d.ns, false)
	if r.Chance(1, 5) {
		d.selector = map[string]string{"app": wire.Pick(r, []string{"a", "b"})}
	}
	// one subset named after the rule, sometimes a name shared with other rules (duplicate subsets
	// are dropped when rules are consolidated)
	d.subsets = []subsetSpec{{name: "s-" + d.name}}
	if r.Chance(1, 4) {
		d.subsets = append(d.subsets, subsetSpec{name: "shared"})
	}
	return d
}

// decorate gives the k-th rule of a case a traffic policy whose values identify the rule: maxConnections
// 1000+k at destination level, 2000+k on one port, 3000+k in its own subset; some rules have no policy, some
// only a load balancer (a gap a backend policy may fill), some are backend-policy rules.
func decorate(r *wire.Rng, d drSpec, k int) drSpec {
	if r.Chance(2, 3) {
		d.subsets[0].pool = 3000 + k
	}
	switch r.Intn(6) {
	case 0: // no trafficPolicy
	case 1: // load balancer only
		d.tp = &tpSpec{lb: wire.Pick(r, []int{2, 4, 5})}
	default:
		d.tp = &tpSpec{pool: 1000 + k}
		if r.Chance(1, 3) {
			d.tp.lb = wire.Pick(r, []int{2, 4, 5})
		}
	}
	if d.tp != nil && r.Chance(1, 3) {
		d.tp.plPort = wire.Pick(r, []int{80, 81, 9090})
		if r.Chance(3, 4) {
			d.tp.plPool = 2000 + k
		}
		if r.Chance(1, 3) {
			d.tp.plLB = wire.Pick(r, []int{2, 4, 5})
		}
	}
	d.backend = r.Chance(1, 6)
	return d
}

// genEgressHost: every host form of the Sidecar API plus illegal ones.
func genEgressHost(r *wire.Rng, nss, hosts []string, exactOnly bool) string {
	ns := wire.Pick(r, nss)
	if r.Chance(1, 3) {
		ns = "."
	}
	h := wire.Pick(r, hosts)
	if exactOnly {
		for isWildcard(h) {
			h = wire.Pick(r, hosts)
		}
		switch r.Intn(8) {
		case 0:
			return "~" + ns + "/" + h
		case 1:
			return "~/" + wire.Pick(r, []string{h, "*.a.com", "*.com"})
		default:
			return ns + "/" + h
		}
	}
	switch r.Intn(20) {
	case 0, 1, 2, 3:
		return ns + "/" + h
	case 4, 5:
		return "*/" + h
	case 6, 7:
		return ns + "/*"
	case 8:
		return "*/*"
	case 9:
		return ns + "/" + wire.Pick(r, []string{"*.a.com", "*.com", "*.svc.cluster.local", "*.wild.com"})
	case 10:
		return "*/" + wire.Pick(r, []string{"*.a.com", "*.com", "*.svc.cluster.local"})
	case 11, 12:
		return "~" + ns + "/" + wire.Pick(r, []string{h, "*.a.com", "*", "*.com"})
	case 13:
		return "~/" + wire.Pick(r, []string{h, "*.a.com", "*.com"})
	case 14:
		return "~*/" + h
	case 15:
		return wire.Pick(r, []string{h, "a/b/c", "", "/", "ns1/", "/a.com", "~", "~/", "./"})
	default:
		return ns + "/" + h
	}
}

func isWildcard(h string) bool { return len(h) > 0 && h[0] == '*' }

func genSidecar(r *wire.Rng, nss, hosts []string, i int, root string) sidecarSpec {
	s := sidecarSpec{name: fmt.Sprintf("sc%d", i), ns: wire.Pick(r, nss), ctime: r.Intn(5)}
	if r.Chance(1, 5) {
		s.ns = root
	}
	if r.Chance(1, 4) {
		s.selector = map[string]string{"app": wire.Pick(r, []string{"a", "b"})}
		if r.Chance(1, 6) {
			s.selector = map[string]string{}
		}
	}
	for k := r.Intn(4); k > 0; k-- {
		l := listenerSpec{}
		switch r.Intn(10) {
		case 0, 1:
			l.port, l.proto = wire.Pick(r, []int{80, 81, 8080}), "HTTP"
		case 2:
			l.port, l.proto = wire.Pick(r, []int{80, 8080}), "HTTP_PROXY"
		case 3:
			l.port, l.proto = 9090, "TCP"
		case 4:
			l.port, l.proto = 8443, "TLS"
		case 5:
			// a unix domain socket listener: no port to match, a bind path instead
			l.port, l.proto, l.bind = 0, "HTTP", "unix:///tmp/egress.sock"
		}
		exact := r.Chance(2, 5)
		for j := 1 + r.Intn(4); j > 0; j-- {
			l.hosts = append(l.hosts, genEgressHost(r, nss, hosts, exact))
		}
		s.egress = append(s.egress, l)
	}
	return s
}

func genScope(seed uint64, ncases int, out string) {
	o := wire.Create(out)
	defer o.Close()
	r := wire.NewRng(seed ^ 0x5c09e)
	for c := 0; c < ncases; c++ {
		nss := nsPool[:2+r.Intn(3)]
		hosts := hostPool[:3+r.Intn(len(hostPool)-2)]
		u, p, e := !r.Chance(1, 5), !r.Chance(1, 4), !r.Chance(1, 6)
		o.Line("case", fmt.Sprint(c), "scope", "U="+wire.B(u), "P="+wire.B(p), "E="+wire.B(e),
			"L="+wire.B(!r.Chance(1, 4)), "C="+wire.B(r.Chance(1, 4)))
		m := genMesh(r, nss)
		for _, l := range meshLines(m) {
			o.Line(l...)
		}
		svcs := genSvcs(r, nss, hosts, 2+r.Intn(11), true, m.sev != nil)
		for _, s := range svcs {
			o.Line(s.line()...)
		}
		var gwBound []vsSpec
		var crossGw []string
		var allVS []vsSpec
		var allDR []drSpec
		var allSC []sidecarSpec
		nVS := r.Intn(5)
		for i, n := 0, nVS; i < n; i++ {
			v := genVS(r, nss, hosts, i)
			// a delegate VirtualService (no hosts, own exportTo) and a delegating route in the root
			if !v.gwSem && r.Chance(1, 4) {
				dg := genVS(r, nss, hosts, i)
				dg.name, dg.hosts, dg.gateways, dg.gwSem, dg.tcp = fmt.Sprintf("dg%d", i), nil, nil, false, nil
				dns := dg.ns
				if dg.ns == v.ns && r.Chance(1, 2) {
					dns = ""
				}
				dl := httpSpec{delegate: &[2]string{dns, dg.name}}
				if r.Chance(1, 2) {
					// a root match: the delegate's matches must fit under it (conflicting routes are dropped)
					for k, n := 0, 1+r.Intn(2); k < n; k++ {
						dl.srcNs = append(dl.srcNs, wire.Pick(r, append([]string{""}, nss...)))
					}
				}
				v.http = append(v.http, dl)
				o.Line(dg.line()...)
				allVS = append(allVS, dg)
			}
			allVS = append(allVS, v)
			for _, g := range v.gateways {
				if g != "mesh" {
					gwBound = append(gwBound, v)
				}
				if i := strings.Index(g, "/"); i > 0 && g[:i] != "." {
					crossGw = append(crossGw, g)
				}
			}
			o.Line(v.line()...)
		}
		for i, n := 0, r.Intn(5); i < n; i++ {
			d := decorate(r, genDR(r, nss, hosts, i), 2*i)
			o.Line(d.line()...)
			allDR = append(allDR, d)
			// a sibling rule for the same host in the same namespace with its own exportTo
			// (consolidation of rules with different export sets)
			if r.Chance(1, 3) {
				sib := genDR(r, nss, hosts, i)
				sib.name, sib.ns, sib.host = d.name+"b", d.ns, d.host
				sib.subsets = []subsetSpec{{name: "s-" + sib.name}}
				if r.Chance(1, 2) {
					sib.selector = nil
				}
				sib = decorate(r, sib, 2*i+1)
				if d.tp != nil && d.tp.plPort != 0 && r.Chance(1, 2) {
					// a backend-policy / user pair that meets on one port-level entry (the backend rule fills the gaps of
					// the user's entry): the two are consolidated although only one of them may be visible to a proxy
					sib.tp = &tpSpec{plPort: d.tp.plPort}
					if d.tp.plPool == 0 {
						sib.tp.plPool = 2000 + 2*i + 1
					} else {
						sib.tp.plLB = wire.Pick(r, []int{2, 4, 5})
					}
					sib.backend = !d.backend
					if sib.backend {
						// the backend rule is the older one and namespace-local: a workloadSelector or exportTo "."
						sib.ctime = d.ctime - 1
						if sib.ctime < 0 {
							sib.ctime = 0
						}
						if r.Chance(1, 2) {
							sib.selector, sib.exportTo = map[string]string{"app": "a"}, nil
						} else {
							sib.selector, sib.exportTo = nil, []string{"."}
						}
					} else {
						sib.ctime = d.ctime + 1
						sib.selector = nil
						sib.exportTo = wire.Pick(r, [][]string{nil, {"*"}, {".", wire.Pick(r, nss)}})
					}
				}
				o.Line(sib.line()...)
				allDR = append(allDR, sib)
			}
		}
		for i, n := 0, r.Intn(4); i < n; i++ {
			sc := genSidecar(r, nss, hosts, i, m.root)
			o.Line(sc.line()...)
			allSC = append(allSC, sc)
		}
		o.Line("build")
		// a gateway asked before any sidecar of its namespace gets DefaultSidecarScopeForGateway,
		// one asked afterwards may get the cached default sidecar scope
		if r.Chance(1, 2) {
			o.Line("gw", wire.Enc(wire.Pick(r, nss)))
		}
		if r.Chance(1, 4) {
			o.Line("gw", wire.Enc(wire.Pick(r, nss)), "w") // a waypoint proxy
		}
		for _, ns := range append(append([]string{}, nss...), "other") {
			lbl := "-"
			if r.Chance(1, 3) {
				lbl = "app=" + wire.Pick(r, []string{"a", "b"})
			}
			o.Line("scope", wire.Enc(ns), lbl)
		}
		if r.Chance(1, 2) {
			o.Line("gw", wire.Enc(wire.Pick(r, nss)))
		}
		// the generated xDS of one sidecar proxy of the mesh (CDS, EDS for every hostname of the mesh)
		// and the CDS of a router
		lbl := "-"
		if r.Chance(1, 3) {
			lbl = "app=" + wire.Pick(r, []string{"a", "b"})
		}
		// the merged VirtualServices and the VirtualService selection of a Router for a named gateway
		o.Line("merged")
		for _, v := range gwBound {
			o.Line("vsgw", wire.Enc(wire.Pick(r, nss)), wire.Enc(v.ns+"/gw1"))
		}
		for _, g := range crossGw {
			o.Line("vsgw", wire.Enc(wire.Pick(r, nss)), wire.Enc(g))
		}
		xns := wire.Pick(r, nss)
		o.Line("xds", wire.Enc(xns), lbl)
		o.Line("lds", wire.Enc(xns), lbl)
		o.Line("rds", wire.Enc(xns), lbl)
		// EDS for the plain cluster and for up to three subset clusters of every hostname of the mesh
		var subs []string
		for _, d := range allDR {
			for _, sn := range d.subsets {
				if len(subs) < 3 && r.Chance(1, 2) && !hasStr(subs, sn.name) {
					subs = append(subs, sn.name)
				}
			}
		}
		o.Line("eds", wire.Enc(xns), lbl, encItems(subs, ","))
		o.Line("xdsgw", wire.Enc(wire.Pick(r, nss)))
		if len(gwBound) > 0 && r.Chance(1, 2) {
			// the same Router with the gateway cluster filter on (GatewayServices), with and without namespace scoping
			o.Line("xdsgwf", wire.Enc(wire.Pick(r, nss)), wire.B(r.Chance(1, 2)))
		}
		// the DestinationRule lookup for a bare hostname (a service object without attributes)
		for k := r.Intn(3); k > 0; k-- {
			h := wire.Pick(r, svcs).hostname
			if len(allDR) > 0 && r.Chance(1, 3) {
				h = wire.Pick(r, allDR).host
			}
			o.Line("drq", wire.Enc(wire.Pick(r, append(append([]string{}, nss...), m.root))), wire.Enc(h))
		}
		// incremental pushes: one object changes, the next PushContext is derived from the current one
		// (updateContext) and must answer like a fresh one
		for k := r.Intn(3); k > 0; k-- {
			switch r.Intn(8) {
			case 0, 1, 2: // a DestinationRule changes, appears or disappears
				switch {
				case len(allDR) > 0 && r.Chance(1, 4):
					d := wire.Pick(r, allDR)
					o.Line("delete", "dr", wire.Enc(d.name), wire.Enc(d.ns))
				case len(allDR) > 0 && r.Chance(2, 3):
					old := wire.Pick(r, allDR)
					d := decorate(r, genDR(r, nss, hosts, 7), 40+k)
					d.name, d.ns = old.name, old.ns
					if r.Chance(1, 2) {
						d.host = old.host
					}
					d.subsets[0].name = "s-" + d.name
					o.Line(append([]string{"update"}, d.line()...)...)
				default:
					d := decorate(r, genDR(r, nss, hosts, 20+k), 50+k)
					o.Line(append([]string{"update"}, d.line()...)...)
					allDR = append(allDR, d)
				}
			case 3, 4: // a Sidecar
				switch {
				case len(allSC) > 0 && r.Chance(1, 4):
					sc := wire.Pick(r, allSC)
					o.Line("delete", "sc", wire.Enc(sc.name), wire.Enc(sc.ns))
				case len(allSC) > 0 && r.Chance(2, 3):
					old := wire.Pick(r, allSC)
					sc := genSidecar(r, nss, hosts, 7, m.root)
					sc.name, sc.ns = old.name, old.ns
					o.Line(append([]string{"update"}, sc.line()...)...)
				default:
					sc := genSidecar(r, nss, hosts, 20+k, m.root)
					o.Line(append([]string{"update"}, sc.line()...)...)
					allSC = append(allSC, sc)
				}
			case 5: // a VirtualService (roots only; delegates stay)
				var roots []vsSpec
				for _, v := range allVS {
					if len(v.hosts) > 0 {
						roots = append(roots, v)
					}
				}
				if len(roots) > 0 && r.Chance(1, 3) {
					v := wire.Pick(r, roots)
					o.Line("delete", "vs", wire.Enc(v.name), wire.Enc(v.ns))
				} else if len(roots) > 0 {
					old := wire.Pick(r, roots)
					v := genVS(r, nss, hosts, 7)
					v.name, v.ns = old.name, old.ns
					o.Line(append([]string{"update"}, v.line()...)...)
				} else {
					v := genVS(r, nss, hosts, 20+k)
					o.Line(append([]string{"update"}, v.line()...)...)
					allVS = append(allVS, v)
				}
			default: // a service changes its exportTo / ports, or a new one appears
				if r.Chance(2, 3) {
					old := wire.Pick(r, svcs)
					n := genSvcs(r, nss, hosts, 1, false, false)[0]
					n.id, n.hostname, n.ns, n.name, n.k8s, n.externalName, n.res = old.id, old.hostname, old.ns, old.name, old.k8s, old.externalName, old.res
					o.Line(append([]string{"update"}, n.line()...)...)
				} else {
					n := genSvcs(r, nss, hosts, 1, false, false)[0]
					n.id, n.name = fmt.Sprintf("u%d", k), fmt.Sprintf("u%02d", k)
					o.Line(append([]string{"update"}, n.line()...)...)
				}
			}
			for _, ns := range nss[:2] {
				o.Line("scope", wire.Enc(ns), "-")
			}
			o.Line("merged")
			o.Line("xds", wire.Enc(xns), lbl)
			o.Line("lds", wire.Enc(xns), lbl)
			o.Line("rds", wire.Enc(xns), lbl)
			o.Line("eds", wire.Enc(xns), lbl, encItems(subs, ","))
		}
	}
}

func hasStr(l []string, x string) bool {
	for _, y := range l {
		if y == x {
			return true
		}
	}
	return false
}
