package main

import (
	"fmt"
	"regexp"
	"strings"

	networking "istio.io/api/networking/v1alpha3"
	typev1beta1 "istio.io/api/type/v1beta1"
	"istio.io/istio/pkg/config"
	"istio.io/istio/pkg/config/schema/gvk"
	"istio.io/istio/pkg/config/validation"
	"istio.io/istio/pkg/config/visibility"
	"verifharness/internal/wire"
)

// Stream `vval`: the admission validation of exportTo lists (pkg/config/validation validateExportTo,
// reached through the public ValidateServiceEntry / ValidateVirtualService / ValidateDestinationRule, and
// pkg/config/visibility Instance.Validate). The visibility theorems assume well-formed export lists
// (`~` never next to another entry); this stream ties the model of the validator the theorems
// validated_none_alone / validated_star_alone / exported_complete_validated are about to the real one.
//
//	case N vval
//	ve <se|vs|dr|drsel> <ns> <entry,entry,...>   -> 1 (accepted) | 0 (rejected)
//	vv <entry>                                   -> 1 | 0   (visibility.Instance.Validate)

func vvalConfig(kind, ns string, exportTo []string) (config.Config, validation.ValidateFunc) {
	meta := config.Meta{Name: "x", Namespace: ns}
	switch kind {
	case "se":
		meta.GroupVersionKind = gvk.ServiceEntry
		return config.Config{Meta: meta, Spec: &networking.ServiceEntry{
			Hosts:      []string{"a.example.com"},
			Ports:      []*networking.ServicePort{{Number: 80, Name: "http", Protocol: "HTTP"}},
			Resolution: networking.ServiceEntry_DNS,
			Location:   networking.ServiceEntry_MESH_EXTERNAL,
			ExportTo:   exportTo,
		}}, validation.ValidateServiceEntry
	case "vs":
		meta.GroupVersionKind = gvk.VirtualService
		return config.Config{Meta: meta, Spec: &networking.VirtualService{
			Hosts: []string{"a.example.com"},
			Http: []*networking.HTTPRoute{{Route: []*networking.HTTPRouteDestination{
				{Destination: &networking.Destination{Host: "a.example.com"}}}}},
			ExportTo: exportTo,
		}}, validation.ValidateVirtualService
	default:
		meta.GroupVersionKind = gvk.DestinationRule
		dr := &networking.DestinationRule{Host: "a.example.com", ExportTo: exportTo}
		if kind == "drsel" {
			dr.WorkloadSelector = &typev1beta1.WorkloadSelector{MatchLabels: map[string]string{"app": "a"}}
		}
		return config.Config{Meta: meta, Spec: dr}, validation.ValidateDestinationRule
	}
}

func realValidate(kind, ns string, exportTo []string) bool {
	cfg, f := vvalConfig(kind, ns, exportTo)
	_, err := f(cfg)
	return err == nil
}

func init() {
	// the carrier objects are valid on their own: a rejection is about the exportTo list only
	for _, k := range []string{"se", "vs", "dr", "drsel"} {
		if !realValidate(k, "ns1", nil) {
			panic("vval: the carrier object of kind " + k + " does not validate")
		}
	}
}

func execVval(in, out string) {
	o := wire.Create(out)
	defer o.Close()
	for _, t := range wire.ReadLines(in) {
		switch {
		case t[0] == "case":
			o.Line("ok")
		case t[0] == "ve" && len(t) == 4:
			o.Line(wire.B(realValidate(t[1], wire.Dec(t[2]), decItems(t[3], ","))))
		case t[0] == "vv" && len(t) == 2:
			o.Line(wire.B(visibility.Instance(wire.Dec(t[1])).Validate() == nil))
		default:
			o.Line("bad-op")
		}
	}
}

var vvalEntries = []string{".", "*", "~", "ns1", "ns2", "ns3", "istio-system", "other", "", "Ns1", "-a", "a-", "a.b", "a_b",
	"9x", "x--y", "x", "0", "é", "ns1 ", strings.Repeat("a", 63), strings.Repeat("a", 64), "a*", "*.", ".."}

func genVval(seed uint64, ncases int, out string) {
	o := wire.Create(out)
	defer o.Close()
	r := wire.NewRng(seed ^ 0x77a1)
	kinds := []string{"se", "vs", "dr", "drsel"}
	nss := append(append([]string{}, nsPool...), "other")
	for c := 0; c < ncases; c++ {
		o.Line("case", fmt.Sprint(c), "vval")
		for k, n := 0, 3+r.Intn(4); k < n; k++ {
			ns := wire.Pick(r, nss)
			var l []string
			pool := vvalEntries
			if r.Chance(2, 3) {
				// mostly lists of plausible entries (the interesting rules are about combinations)
				pool = []string{".", "*", "~", ns, "ns1", "ns2", "other"}
			}
			for i, m := 0, r.Intn(4); i < m; i++ {
				l = append(l, wire.Pick(r, pool))
			}
			o.Line("ve", wire.Pick(r, kinds), wire.Enc(ns), encItems(l, ","))
		}
		o.Line("vv", wire.Enc(wire.Pick(r, vvalEntries)))
	}
}

var dnsLabelDoc = regexp.MustCompile(`^[a-zA-Z0-9]([-a-zA-Z0-9]*[a-zA-Z0-9])?$`)

// exportToDoc: the documented shape of an exportTo list (API reference of ServiceEntry / VirtualService /
// DestinationRule exportTo; RFC 1123 label for namespace names: letters of either case, digits, inner hyphens, at most 63 bytes): "." the own namespace, "*" all
// namespaces, "~" (ServiceEntry only) none; "*" and "~" stand alone; no entry twice ("." counts as the
// own namespace); a DestinationRule with a workload selector only exports to its own namespace.
func exportToDoc(kind, ns string, l []string) bool {
	seen := map[string]bool{}
	for _, e := range l {
		k := e
		if e == "." {
			k = ns
		}
		if seen[k] {
			return false
		}
		seen[k] = true
		switch {
		case e == "*":
		case e == "~":
			if kind != "se" {
				return false
			}
		default:
			if len(k) > 63 || !dnsLabelDoc.MatchString(k) {
				return false
			}
		}
	}
	if (seen["*"] || seen["~"]) && len(l) > 1 {
		return false
	}
	if kind == "drsel" && len(l) > 0 && !(len(seen) == 1 && seen[ns]) {
		return false
	}
	return true
}

func oracleVval(in, out string) {
	o := wire.Create(out)
	defer o.Close()
	fail := ""
	started := false
	flush := func() {
		if !started {
			return
		}
		if fail == "" {
			o.Line("OK")
		} else {
			o.Line(append([]string{"FAIL"}, strings.Fields(fail)...)...)
		}
		fail = ""
	}
	for _, t := range wire.ReadLines(in) {
		switch {
		case t[0] == "case":
			flush()
			started = true
		case t[0] == "ve" && len(t) == 4 && fail == "":
			kind, ns, l := t[1], wire.Dec(t[2]), decItems(t[3], ",")
			got, want := realValidate(kind, ns, l), exportToDoc(kind, ns, l)
			if got && !want {
				fail = "validator-accepts-malformed-exportTo " + kind + " " + wire.Enc(ns) + " " + t[3]
			} else if !got && want {
				fail = "validator-rejects-documented-exportTo " + kind + " " + wire.Enc(ns) + " " + t[3]
			}
			// the assumption of the visibility theorems, stated directly
			if got {
				for _, e := range l {
					if (e == "~" || e == "*") && len(l) > 1 {
						fail = "validated-exportTo-not-well-formed " + kind + " " + t[3]
					}
				}
			}
		}
	}
	flush()
}
