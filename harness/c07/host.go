package main

import (
	"fmt"
	"strings"

	"istio.io/istio/pkg/config/host"
	"verifharness/internal/wire"
)

// ---------------------------------------------------------------- generator

var hostLabels = []string{"a", "b", "c", "com", "foo", "svc", "x-y", "a1"}

// genName produces a hostname from a small alphabet: 0-3 labels, optionally wildcarded in the
// documented way (`*.suffix`), in odd ways (`*suffix`, bare `*`, `**`, inner star), or empty.
func genName(r *wire.Rng) string {
	n := r.Intn(4)
	ls := make([]string, 0, n)
	for i := 0; i < n; i++ {
		ls = append(ls, wire.Pick(r, hostLabels))
	}
	base := strings.Join(ls, ".")
	switch r.Intn(12) {
	case 0, 1, 2:
		if base == "" {
			return "*"
		}
		return "*." + base
	case 3:
		return "*" + base
	case 4:
		return "*"
	case 5:
		if r.Chance(1, 3) {
			return "**." + base
		}
		return "a*" + base
	case 6:
		return "." + base
	default:
		return base
	}
}

// related derives a second name that is likely to be in some relation with n.
func related(r *wire.Rng, n string) string {
	switch r.Intn(8) {
	case 0:
		return n
	case 1: // add a label in front of the concrete part
		return wire.Pick(r, hostLabels) + "." + strings.TrimPrefix(strings.TrimPrefix(n, "*"), ".")
	case 2: // wildcard over the parent
		if i := strings.Index(n, "."); i >= 0 {
			return "*" + n[i:]
		}
		return "*"
	case 3: // drop the wildcard
		return strings.TrimPrefix(strings.TrimPrefix(n, "*"), ".")
	case 4: // wildcard in front
		return "*." + strings.TrimPrefix(strings.TrimPrefix(n, "*"), ".")
	case 5: // deeper wildcard
		return "*." + wire.Pick(r, hostLabels) + "." + strings.TrimPrefix(strings.TrimPrefix(n, "*"), ".")
	case 6:
		return "*" + strings.TrimPrefix(n, "*")
	default:
		return genName(r)
	}
}

func genHost(seed uint64, ncases int, out string) {
	o := wire.Create(out)
	defer o.Close()
	r := wire.NewRng(seed ^ 0xc07a)
	for c := 0; c < ncases; c++ {
		o.Line("case", fmt.Sprint(c), "host")
		k := 1 + r.Intn(6)
		for i := 0; i < k; i++ {
			n := genName(r)
			m := related(r, n)
			if r.Chance(1, 2) {
				n, m = m, n
			}
			o.Line("h", wire.Enc(n), wire.Enc(m))
		}
	}
}

// ---------------------------------------------------------------- real code

func hostLine(n, m string) string {
	a, b := host.Name(n), host.Name(m)
	return strings.Join([]string{
		wire.B(a.IsWildCarded()), wire.B(b.IsWildCarded()),
		wire.B(a.Matches(b)), wire.B(b.Matches(a)),
		wire.B(a.SubsetOf(b)), wire.B(b.SubsetOf(a)),
	}, " ")
}

func safely(f func() string) (s string) {
	defer func() {
		if e := recover(); e != nil {
			debugPanic(e)
			s = "crash"
			if e == "env-timeout" {
				s = "env-timeout"
			}
		}
	}()
	return f()
}

func execHost(in, out string) {
	o := wire.Create(out)
	defer o.Close()
	for _, t := range wire.ReadLines(in) {
		switch {
		case t[0] == "case":
			o.Line("ok")
		case t[0] == "h" && len(t) == 3:
			n, m := wire.Dec(t[1]), wire.Dec(t[2])
			o.Line(safely(func() string { return hostLine(n, m) }))
		default:
			o.Line("bad-op")
		}
		o.Flush()
	}
}

// ---------------------------------------------------------------- oracle
//
// The algebraic laws of the property, evaluated on the real functions, with the denotation
// computed by brute force over a finite universe of concrete names (independent of the Lean model).

var concreteUniverse = func() []string {
	var u []string
	ls := []string{"a", "b", "com", "foo"}
	u = append(u, "")
	for _, x := range ls {
		u = append(u, x, "."+x)
		for _, y := range ls {
			u = append(u, x+"."+y, "."+x+"."+y, x+y)
			for _, z := range ls {
				u = append(u, x+"."+y+"."+z)
			}
		}
	}
	return u
}()

func hostLaws(n, m string) string {
	a, b := host.Name(n), host.Name(m)
	if a.Matches(b) != b.Matches(a) {
		return "matches-symm"
	}
	if a.Matches(b) != (a.SubsetOf(b) || b.SubsetOf(a)) {
		return "matches-iff-subset-or-superset"
	}
	if !a.SubsetOf(a) || !b.SubsetOf(b) {
		return "subset-refl"
	}
	if a.SubsetOf(b) && b.SubsetOf(a) && a != b {
		return "subset-antisymm"
	}
	// denotation by enumeration: n ⊆ m implies every concrete name under n is under m;
	// and if not n ⊆ m there must be a separating concrete name (searched in the universe plus
	// two fresh prefixes of n's own suffix).
	univ := concreteUniverse
	if a.IsWildCarded() {
		univ = append(append([]string{}, univ...), "q"+n[1:], "r"+n[1:])
	} else {
		univ = append(append([]string{}, univ...), n)
	}
	sep := false
	common := false
	for _, h := range univ {
		c := host.Name(h)
		if c.IsWildCarded() {
			continue
		}
		inA, inB := c.SubsetOf(a), c.SubsetOf(b)
		if inA && !inB {
			sep = true
		}
		if inA && inB {
			common = true
		}
	}
	if a.SubsetOf(b) && sep {
		return "subset-denote-sound"
	}
	if !a.SubsetOf(b) && !sep {
		return "subset-denote-complete"
	}
	if common && !a.Matches(b) {
		return "matches-denote-intersect"
	}
	return ""
}

func oracleHost(in, out string) {
	o := wire.Create(out)
	defer o.Close()
	verdict := ""
	started := false
	flush := func() {
		if !started {
			return
		}
		if verdict == "" {
			o.Line("OK")
		} else {
			o.Line("FAIL", verdict)
		}
	}
	for _, t := range wire.ReadLines(in) {
		if t[0] == "case" {
			flush()
			started = true
			verdict = ""
			continue
		}
		if t[0] == "h" && len(t) == 3 && verdict == "" {
			n, m := wire.Dec(t[1]), wire.Dec(t[2])
			if v := safely(func() string { return hostLaws(n, m) }); v != "" {
				verdict = v + " " + wire.Enc(n) + " " + wire.Enc(m)
			}
		}
	}
	flush()
}
