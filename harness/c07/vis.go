package main

import (
	"fmt"
	"sort"
	"strings"

	"istio.io/istio/pilot/pkg/model"
	"istio.io/istio/pkg/config/host"
	"verifharness/internal/wire"
)

// ---------------------------------------------------------------- generator

func genVis(seed uint64, ncases int, out string) {
	o := wire.Create(out)
	defer o.Close()
	r := wire.NewRng(seed ^ 0x715c07)
	for c := 0; c < ncases; c++ {
		nss := nsPool[:2+r.Intn(3)]
		o.Line("case", fmt.Sprint(c), "vis")
		m := genMesh(r, nss)
		for _, l := range meshLines(m) {
			o.Line(l...)
		}
		svcs := genSvcs(r, nss, hostPool[:3+r.Intn(len(hostPool)-2)], 2+r.Intn(11), false, m.sev != nil)
		for _, s := range svcs {
			o.Line(s.line()...)
		}
		o.Line("build")
		q := append(append([]string{}, nss...), "other")
		for _, ns := range q {
			o.Line("exported", wire.Enc(ns))
		}
		for i := 0; i < 6; i++ {
			o.Line("visible", wire.Enc(wire.Pick(r, svcs).id), wire.Enc(wire.Pick(r, q)))
		}
		hs := map[string]bool{}
		for _, s := range svcs {
			if !hs[s.hostname] && r.Chance(1, 2) {
				hs[s.hostname] = true
				o.Line("index", wire.Enc(s.hostname))
			}
		}
	}
}

// ---------------------------------------------------------------- real code

func svcID(s *model.Service) string { return s.Attributes.K8sAttributes.ObjectName }

// realByID finds the service object the PushContext holds for a spec id (the registry hands out
// the same pointers, but look it up through the context so that copies are found as well).
func (w *world) realByID(id string) *model.Service {
	for _, s := range w.env.ServiceDiscovery.Services() {
		if svcID(s) == id {
			return s
		}
	}
	return nil
}

func (w *world) query(t []string) string {
	switch {
	case t[0] == "exported" && len(t) == 2:
		var ids []string
		for _, s := range model.VerifC07ServicesExportedToNamespace(w.ps, wire.Dec(t[1])) {
			ids = append(ids, svcID(s))
		}
		return wire.EncList(ids)
	case t[0] == "visible" && len(t) == 3:
		s := w.realByID(wire.Dec(t[1]))
		if s == nil {
			return "no-such-service"
		}
		return wire.B(w.ps.IsServiceVisible(s, wire.Dec(t[2]))) + " " + wire.EncSet(model.VerifC07ServiceExportTo(w.ps, s))
	case t[0] == "index" && len(t) == 2:
		m := w.ps.ServiceIndex.HostnameAndNamespace[host.Name(wire.Dec(t[1]))]
		var items []string
		for ns, s := range m {
			items = append(items, wire.Enc(ns)+"="+wire.Enc(svcID(s)))
		}
		sort.Strings(items)
		if len(items) == 0 {
			return "-"
		}
		return strings.Join(items, ",")
	}
	return w.queryScope(t)
}

func execWorld(in, out string) {
	o := wire.Create(out)
	defer o.Close()
	var w *world
	defer func() {
		if w != nil {
			w.close()
		}
	}()
	for _, t := range wire.ReadLines(in) {
		switch {
		case t[0] == "case":
			if w != nil {
				w.close()
			}
			w = newWorld(t)
			o.Line("ok")
		case w == nil:
			o.Line("bad-op")
		case t[0] == "build":
			o.Line(safely(func() string { w.build(); return "ok" }))
		case (t[0] == "update" || t[0] == "delete") && w.ps != nil:
			o.Line(safely(func() string { return w.update(t) }))
		case w.apply(t):
			o.Line("ok")
		case w.ps == nil:
			o.Line("not-built")
		default:
			o.Line(safely(func() string { return w.query(t) }))
		}
		o.Flush()
	}
}

// ---------------------------------------------------------------- oracle
//
// The visibility clause of the property, written from the API documentation of exportTo, evaluated
// against the real PushContext: for every service and every namespace
//   IsServiceVisible(svc, ns) == documented(svc, ns)
//   svc in servicesExportedToNamespace(ns)  ==>  documented(svc, ns)
//   documented(svc, ns) and the export set is well formed  ==>  svc in servicesExportedToNamespace(ns)
// (well formed: "~" only alone, which is what validation enforces).

// visOf: the visibility class of a service: given directly, or (class "a") resolved from
// MeshConfig.serviceEntryVisibility as documented: the first policy all of whose matching rules match
// the labels of the service's namespace decides, otherwise the default; UNSPECIFIED reads as PUBLIC;
// a rule without a (usable) namespace selector never matches, an empty selector matches everything.
func (w *world) visOf(s *svcSpec) string {
	if s.vis != "a" {
		return s.vis
	}
	norm := func(c string) string {
		if c == "u" {
			return "p"
		}
		return c
	}
	if w.mesh.sev == nil {
		return "p"
	}
	lbl := w.mesh.nsLabels[s.ns]
	for _, p := range w.mesh.sev.policies {
		all := true
		for _, r := range p.rules {
			if r.kind != "s" {
				all = false
				continue
			}
			for k, v := range r.labels {
				if got, ok := lbl[k]; !ok || got != v {
					all = false
				}
			}
			// matchExpressions as documented for Kubernetes label selectors
			for _, e := range r.exprs {
				got, has := lbl[e.key]
				in := false
				for _, v := range e.values {
					in = in || (has && v == got)
				}
				switch e.op {
				case "in":
					all = all && in
				case "notin":
					all = all && !in
				case "ex":
					all = all && has
				case "nex":
					all = all && !has
				}
			}
		}
		if all {
			return norm(p.vis)
		}
	}
	return norm(w.mesh.sev.dflt)
}

// declaredExport: the exportTo the service declares, or the mesh default, or "*".
func (w *world) declaredExport(s *svcSpec) []string {
	if len(s.exportTo) > 0 {
		return s.exportTo
	}
	if w.mesh.nilSvc {
		return []string{"*"}
	}
	return w.mesh.defSvc
}

// documentedVisible: the API documentation of exportTo and of serviceEntryVisibility, as two independent
// conditions: the declared export list reaches ns ("*", "." for the own namespace, or ns itself; "~"
// reaches nobody), and the visibility cap (when applied to sidecars) allows ns.
func (w *world) documentedVisible(s *svcSpec, ns string) bool {
	exports := false
	for _, e := range w.declaredExport(s) {
		if e == "*" || (e == "." && s.ns == ns) || (e == ns && ns != "." && ns != "~") {
			exports = true
		}
	}
	if !exports {
		return false
	}
	if w.mesh.apply {
		switch w.visOf(s) {
		case "n":
			return s.ns == ns
		case "x":
			return false
		}
	}
	return true
}

// exportWellFormed: "~" does not stand next to a namespace or "." (validation rejects that; the two
// real paths read it differently); a capped service has no such ambiguity.
func (w *world) exportWellFormed(s *svcSpec) bool {
	if w.mesh.apply && w.visOf(s) != "p" {
		return true
	}
	e := dedupSorted(w.declaredExport(s))
	hasNone, hasStar := false, false
	for _, x := range e {
		hasNone = hasNone || x == "~"
		hasStar = hasStar || x == "*"
	}
	return !hasNone || hasStar || len(e) == 1
}

func (w *world) oracleVis(nss []string) string {
	for _, ns := range nss {
		in := map[string]bool{}
		for _, s := range model.VerifC07ServicesExportedToNamespace(w.ps, ns) {
			if in[svcID(s)] {
				return "exported-duplicate " + svcID(s) + " " + ns
			}
			in[svcID(s)] = true
		}
		for i := range w.svcs {
			sp := &w.svcs[i]
			rs := w.realByID(sp.id)
			doc := w.documentedVisible(sp, ns)
			if w.ps.IsServiceVisible(rs, ns) != doc {
				return "is-visible-differs-from-documented " + sp.id + " " + ns
			}
			if in[sp.id] && !doc {
				return "exported-but-not-visible " + sp.id + " " + ns
			}
			if doc && !in[sp.id] && w.exportWellFormed(sp) {
				return "visible-but-not-exported " + sp.id + " " + ns
			}
		}
	}
	return ""
}

// countShapes: how often the generated cases contain the rarer input shapes (evidence counters).
func countShapes(t []string) {
	switch {
	case t[0] == "sc" && len(t) == 6:
		for _, l := range decEgress(t[5]) {
			switch {
			case strings.HasPrefix(l.bind, "unix://"):
				cnt("input-egress-listener-unix-socket")
			case l.port != 0 && (l.proto == "TCP" || l.proto == "TLS"):
				cnt("input-egress-listener-tcp-tls-port")
			case l.port != 0 && l.proto == "HTTP_PROXY":
				cnt("input-egress-listener-http-proxy")
			case l.port != 0:
				cnt("input-egress-listener-http-port")
			}
		}
	case t[0] == "vs" && len(t) == 10:
		if strings.Contains(t[8], "^@") {
			cnt("input-delegating-route-with-root-match")
		} else if strings.Contains(t[8], "@") {
			cnt("input-delegating-route-without-match")
		}
		for _, g := range decItems(t[6], ",") {
			if i := strings.Index(g, "/"); i > 0 && g[:i] != "." {
				cnt("input-cross-namespace-gateway-reference")
			}
		}
		for _, h := range decItems(t[4], ",") {
			if !strings.Contains(h, ".") && h != "*" {
				cnt("input-short-virtualservice-host")
			}
		}
	case t[0] == "svc" && len(t) >= 8 && t[7] == "-":
		cnt("input-service-without-ports")
	case t[0] == "gw" && len(t) == 3:
		cnt("input-waypoint-proxy")
	case t[0] == "mesh" && len(t) >= 6:
		for _, f := range t[2:5] {
			if strings.Contains(f, ",") {
				cnt("input-mesh-default-export-list-of-two")
			}
		}
	}
}

// visPrefix: the visibility clauses are also evaluated inside the scope stream; there they carry a prefix
// (fingerprint scope:vis-<clause>), in the vis stream they stand alone (vis:<clause>).
func visPrefix(stream string) string {
	if stream == "vis" {
		return ""
	}
	return "vis-"
}

func oracleWorld(stream, in, out string) {
	o := wire.Create(out)
	defer o.Close()
	var w *world
	var script [][]string
	started := false
	finish := func() {
		if !started {
			return
		}
		v := safely(func() string {
			defer func() { w.close() }()
			nss := append(append([]string{}, nsPool...), "other")
			var routerNs []string
			// the case is replayed in order: declarations, build, queries, incremental updates, queries ...
			for _, t := range script {
				countShapes(t)
				switch {
				case t[0] == "build":
					w.build()
					if v := w.oracleVis(nss); v != "" {
						return visPrefix(stream) + v
					}
				case t[0] == "update" || t[0] == "delete":
					if w.ps == nil {
						w.build()
					}
					// what delta clients of two namespaces hold before the update
					before := map[string][]string{}
					conn := map[string]*model.Proxy{}
					if stream == "scope" {
						for _, ns := range nsPool[:2] {
							conn[ns] = w.proxyFor(ns, nil)
							before[ns] = w.allClusterNames(conn[ns])
						}
					}
					w.update(t)
					for _, ns := range nsPool[:2] {
						if b, ok := before[ns]; ok {
							if v := w.oracleDeltaCDS(conn[ns], ns, b); v != "" {
								return v
							}
						}
					}
					if v := w.oracleVis(nss); v != "" {
						return visPrefix(stream) + v
					}
				case w.apply(t):
				case t[0] == "mesh" || t[0] == "svc" || t[0] == "vs" || t[0] == "dr" || t[0] == "sc" || t[0] == "nsl":
					// a declaration the reader does not understand (a corpus file in an outdated format)
					return "unreadable-line " + wire.Enc(strings.Join(t, " "))
				case w.ps == nil:
				case stream == "scope":
					if t[0] == "xdsgw" && len(t) == 2 {
						routerNs = append(routerNs, wire.Dec(t[1]))
					}
					if v := w.oracleQuery(t); v != "" {
						return v
					}
				}
			}
			if w.ps == nil {
				w.build()
				if v := w.oracleVis(nss); v != "" {
					return visPrefix(stream) + v
				}
			}
			if stream == "scope" && len(routerNs) > 0 {
				if v := w.oracleRouterFiltered(routerNs); v != "" {
					return v
				}
			}
			return w.deferred
		})
		if v == "" {
			o.Line("OK")
		} else {
			parts := strings.Fields(v)
			o.Line(append([]string{"FAIL"}, parts...)...)
		}
		o.Flush()
	}
	for _, t := range wire.ReadLines(in) {
		if t[0] == "case" {
			finish()
			started = true
			w = newWorld(t)
			script = nil
			continue
		}
		if w != nil {
			script = append(script, t)
		}
	}
	finish()
	// branch counters of this oracle run
	if len(branchCounters) > 0 {
		c := wire.Create(out + ".counters")
		keys := make([]string, 0, len(branchCounters))
		for k := range branchCounters {
			keys = append(keys, k)
		}
		sort.Strings(keys)
		for _, k := range keys {
			c.Line(k, fmt.Sprint(branchCounters[k]))
		}
		c.Close()
	}
}
