package main

import (
	"fmt"
	"sort"
	"strings"

	corev1 "k8s.io/api/core/v1"
	metav1 "k8s.io/apimachinery/pkg/apis/meta/v1"
	"k8s.io/apimachinery/pkg/runtime"

	meshconfig "istio.io/api/mesh/v1alpha1"
	networking "istio.io/api/networking/v1alpha3"
	"istio.io/istio/pilot/pkg/config/memory"
	"istio.io/istio/pilot/pkg/model"
	kubesr "istio.io/istio/pilot/pkg/serviceregistry/kube"
	"istio.io/istio/pilot/pkg/serviceregistry/serviceentry"
	"istio.io/istio/pkg/config"
	"istio.io/istio/pkg/config/mesh"
	"istio.io/istio/pkg/config/mesh/meshwatcher"
	"istio.io/istio/pkg/config/schema/collections"
	"istio.io/istio/pkg/config/schema/gvk"
	"istio.io/istio/pkg/config/visibility"
	"istio.io/istio/pkg/util/sets"
	"istio.io/istio/pkg/kube"
	"istio.io/istio/pkg/kube/krt"
	"istio.io/istio/pkg/kube/multicluster"
	"verifharness/internal/wire"
)

// Stream `sev`: the point where the real ServiceEntry registry attaches the resolved visibility to the
// services of a ServiceEntry (serviceentry/conversion.go: ServiceEntryVisibilityCollection +
// VisibilityFor(namespace labels) written to every converted service). A real serviceentry.Controller is
// run over a memory config store and a fake Kubernetes client holding the Namespace objects.
//
//	case N sev
//	sevcfg <v=...|nil> <applyToSidecars>
//	nsl <ns> <labels>
//	se <name> <ns> <host,host,...>
//	sevq                       -> host|ns|visibility, ... of controller.Services(), sorted

type seSpec struct {
	name, ns string
	hosts    []string
	exportTo []string // ServiceEntry.exportTo as written
}

type sevCase struct {
	sev      *sevSpec
	apply    bool
	nsLabels map[string]map[string]string
	ses      []seSpec
	kconv    [][2]string // (namespace, annotation value) of the Kubernetes conversion questions
}

func (c *sevCase) apply1(t []string) bool {
	switch {
	case t[0] == "sevcfg" && len(t) == 3:
		if t[1] != "nil" {
			c.sev = decSev(strings.TrimPrefix(t[1], "v="))
		}
		c.apply = t[2] == "1"
	case t[0] == "nsl" && len(t) == 3:
		l, _ := decLabels(t[2])
		c.nsLabels[wire.Dec(t[1])] = l
	case t[0] == "se" && len(t) == 4:
		c.ses = append(c.ses, seSpec{wire.Dec(t[1]), wire.Dec(t[2]), decItems(t[3], ","), nil})
	case t[0] == "se" && len(t) == 5:
		c.ses = append(c.ses, seSpec{wire.Dec(t[1]), wire.Dec(t[2]), decItems(t[3], ","), decItems(t[4], ",")})
	default:
		return false
	}
	return true
}

func visName(v model.ServiceVisibility) string {
	switch v {
	case model.ServiceVisibilityNamespace:
		return "n"
	case model.ServiceVisibilityNone:
		return "x"
	}
	return "p"
}

// realServices runs the real ServiceEntry controller and lists its services.
func (c *sevCase) realServices() string {
	m := mesh.DefaultMeshConfig()
	if c.sev != nil {
		m.ServiceEntryVisibility = c.sev.proto(c.apply)
	} else if c.apply {
		m.ServiceEntryVisibility = &meshconfig.ServiceEntryVisibility{ApplyToSidecars: true}
	}
	watcher := meshwatcher.NewTestWatcher(m)
	var objs []runtime.Object
	for ns, l := range c.nsLabels {
		objs = append(objs, &corev1.Namespace{ObjectMeta: metav1.ObjectMeta{Name: ns, Labels: l}})
	}
	stop := make(chan struct{})
	defer close(stop)
	client := kube.NewFakeClient(objs...)
	mc := multicluster.NewController(multicluster.ControllerOptions{
		Client:          client,
		ClusterID:       "c1",
		SystemNamespace: "istio-system",
		MeshConfig:      watcher,
		Debugger:        krt.GlobalDebugHandler,
	})
	if err := mc.Run(stop); err != nil {
		panic(err)
	}
	client.RunAndWait(stop)
	store := memory.NewController(collections.Pilot, true)
	for i, se := range c.ses {
		spec := &networking.ServiceEntry{
			Hosts:      se.hosts,
			Ports:      []*networking.ServicePort{{Number: 80, Name: "http", Protocol: "HTTP"}},
			Resolution: networking.ServiceEntry_DNS,
			Location:   networking.ServiceEntry_MESH_EXTERNAL,
			ExportTo:   se.exportTo,
		}
		if _, err := store.Create(config.Config{
			Meta: config.Meta{GroupVersionKind: gvk.ServiceEntry, Name: se.name, Namespace: se.ns,
				CreationTimestamp: epoch.Add(epochStep(i))},
			Spec: spec,
		}); err != nil {
			panic(err)
		}
	}
	env := model.NewEnvironment()
	ctl := serviceentry.NewController(store, model.NewEndpointIndexUpdater(env.EndpointIndex), mc, watcher,
		serviceentry.WithClusterID("c1"), serviceentry.WithKRTDebugger(krt.GlobalDebugHandler))
	go store.Run(stop)
	go ctl.Run(stop)
	waitSynced(store.HasSynced)
	waitSynced(ctl.HasSynced)
	want := 0
	for _, se := range c.ses {
		want += len(se.hosts)
	}
	var svcs []*model.Service
	waitSynced(func() bool { svcs = ctl.Services(); return len(svcs) >= want })
	var items []string
	for _, s := range svcs {
		items = append(items, wire.Enc(string(s.Hostname))+"|"+wire.Enc(s.Attributes.Namespace)+"|"+visName(s.Attributes.Visibility)+"|"+showExportSet(s.Attributes.ExportTo))
	}
	sort.Strings(items)
	if len(items) == 0 {
		return "-"
	}
	return strings.Join(items, ",")
}

// showExportSet: Attributes.ExportTo as the conversion left it (sorted; "nil" = unset).
func showExportSet(e sets.Set[visibility.Instance]) string {
	if e == nil {
		return "nil"
	}
	var l []string
	for x := range e {
		l = append(l, wire.Enc(string(x)))
	}
	sort.Strings(l)
	if len(l) == 0 {
		return "-"
	}
	return strings.Join(l, "+")
}

// realKubeExport: the exportTo set the real Kubernetes Service conversion reads from the annotation.
func realKubeExport(ns, ann string) string {
	svc := corev1.Service{
		ObjectMeta: metav1.ObjectMeta{Name: "svc", Namespace: ns, Annotations: map[string]string{"networking.istio.io/exportTo": ann}},
		Spec:       corev1.ServiceSpec{ClusterIP: "10.0.0.1", Ports: []corev1.ServicePort{{Name: "http", Port: 80}}},
	}
	return showExportSet(kubesr.ConvertService(svc, nil, "cluster.local", "c1", "cluster.local").Attributes.ExportTo)
}

func execSev(in, out string) {
	o := wire.Create(out)
	defer o.Close()
	var c *sevCase
	for _, t := range wire.ReadLines(in) {
		switch {
		case t[0] == "case":
			c = &sevCase{nsLabels: map[string]map[string]string{}}
			o.Line("ok")
		case c == nil:
			o.Line("bad-op")
		case t[0] == "kconv" && len(t) == 3:
			o.Line(safely(func() string { return realKubeExport(wire.Dec(t[1]), wire.Dec(t[2])) }))
		case t[0] == "sevq":
			cc := c
			o.Line(safely(func() string { return cc.realServices() }))
		case c.apply1(t):
			o.Line("ok")
		default:
			o.Line("bad-op")
		}
		o.Flush()
	}
}

func genSev(seed uint64, ncases int, out string) {
	o := wire.Create(out)
	defer o.Close()
	r := wire.NewRng(seed ^ 0x5e7)
	for c := 0; c < ncases; c++ {
		nss := nsPool[:2+r.Intn(3)]
		o.Line("case", fmt.Sprint(c), "sev")
		m := genMesh(r, nss)
		for m.sev == nil && r.Chance(4, 5) {
			m = genMesh(r, nss)
		}
		cfg := "nil"
		if m.sev != nil {
			cfg = "v=" + encSev(m.sev)
		}
		o.Line("sevcfg", cfg, wire.B(m.apply))
		for _, ns := range nss {
			o.Line("nsl", wire.Enc(ns), encLabels(m.nsLabels[ns], false))
		}
		for i, n := 0, 1+r.Intn(3); i < n; i++ {
			var hosts []string
			for k := 1 + r.Intn(3); k > 0; k-- {
				hosts = append(hosts, fmt.Sprintf("h%d-%d.example.com", i, k))
			}
			var exp []string
			for k := r.Intn(4); k > 0; k-- {
				exp = append(exp, wire.Pick(r, []string{".", "*", "~", "ns1", "ns2", "ns3", "other"}))
			}
			o.Line("se", fmt.Sprintf("se%d", i), wire.Enc(wire.Pick(r, nss)), encItems(hosts, ","), encItems(exp, ","))
		}
		// the Kubernetes Service annotation networking.istio.io/exportTo: comma separated, spaces around items, empty items
		for k := 1 + r.Intn(2); k > 0; k-- {
			var items []string
			for j := r.Intn(4); j > 0; j-- {
				it := wire.Pick(r, []string{".", "*", "~", "ns1", "ns2", "other", ""})
				switch r.Intn(4) {
				case 0:
					it = " " + it
				case 1:
					it = it + " "
				}
				items = append(items, it)
			}
			o.Line("kconv", wire.Enc(wire.Pick(r, nss)), wire.Enc(strings.Join(items, ",")))
		}
		o.Line("sevq")
	}
}

// docExportSet: the set of the written entries (sorted, encoded).
func docExportSet(items []string, unset bool) string {
	if unset {
		return "nil"
	}
	seen := map[string]bool{}
	var l []string
	for _, x := range items {
		if !seen[x] {
			seen[x] = true
			l = append(l, wire.Enc(x))
		}
	}
	sort.Strings(l)
	return strings.Join(l, "+")
}

// oracleSev: every service of a ServiceEntry carries the visibility the documented policy evaluation gives
// for the labels of the ServiceEntry's namespace.
func oracleSev(in, out string) {
	o := wire.Create(out)
	defer o.Close()
	var c *sevCase
	verdict := func() {
		if c == nil {
			return
		}
		cc := c
		v := safely(func() string {
			w := &world{mesh: meshSpec{sev: cc.sev, nsLabels: cc.nsLabels, apply: cc.apply}}
			got := cc.realServices()
			seen := map[string]string{}
			if got != "-" {
				for _, it := range strings.Split(got, ",") {
					f := strings.Split(it, "|")
					seen[wire.Dec(f[0])+"|"+wire.Dec(f[1])] = f[2] + "|" + f[3]
				}
			}
			// annotation networking.istio.io/exportTo: "comma separated list of namespaces" - every item, trimmed
			for _, k := range cc.kconv {
				var items []string
				for _, it := range strings.Split(k[1], ",") {
					items = append(items, strings.TrimSpace(it))
				}
				if g, we := realKubeExport(k[0], k[1]), docExportSet(items, k[1] == ""); g != we {
					return "kube-exportTo-annotation-not-carried-over " + wire.Enc(k[1]) + " got-" + g + " want-" + we
				}
			}
			for _, se := range cc.ses {
				want := w.visOf(&svcSpec{ns: se.ns, vis: "a"})
				for _, h := range se.hosts {
					g, ok := seen[h+"|"+se.ns]
					if !ok {
						return "sev-service-missing " + wire.Enc(h)
					}
					gv, ge, _ := strings.Cut(g, "|")
					if gv != want {
						return "sev-visibility-differs-from-documented " + wire.Enc(h) + " " + se.ns + " got-" + gv + " want-" + want
					}
					// the exportTo field of the ServiceEntry is what the service carries: every entry, nothing else
					if we := docExportSet(se.exportTo, len(se.exportTo) == 0); ge != we {
						return "serviceentry-exportTo-not-carried-over " + wire.Enc(h) + " " + se.ns + " got-" + ge + " want-" + we
					}
				}
			}
			return ""
		})
		if v == "" {
			o.Line("OK")
		} else {
			o.Line(append([]string{"FAIL"}, strings.Fields(v)...)...)
		}
		o.Flush()
	}
	for _, t := range wire.ReadLines(in) {
		if t[0] == "case" {
			verdict()
			c = &sevCase{nsLabels: map[string]map[string]string{}}
			continue
		}
		if c != nil && t[0] == "kconv" && len(t) == 3 {
			c.kconv = append(c.kconv, [2]string{wire.Dec(t[1]), wire.Dec(t[2])})
			continue
		}
		if c != nil {
			c.apply1(t)
		}
	}
	verdict()
}
