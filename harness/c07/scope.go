package main

import (
	"fmt"
	"sort"

	networking "istio.io/api/networking/v1alpha3"
	"strconv"
	"strings"

	"istio.io/istio/pilot/pkg/model"
	"istio.io/istio/pkg/config"
	"istio.io/istio/pkg/config/host"
	"verifharness/internal/wire"
)

// ---------------------------------------------------------------- canonical printing

func showSvc(s *model.Service) string {
	ports := make([]string, 0, len(s.Ports))
	for _, p := range s.Ports {
		ports = append(ports, strconv.Itoa(p.Port))
	}
	al := make([]string, 0, len(s.Attributes.Aliases))
	for _, a := range s.Attributes.Aliases {
		al = append(al, wire.Enc(a.Namespace+"/"+string(a.Hostname)))
	}
	j := func(l []string) string {
		if len(l) == 0 {
			return "-"
		}
		return strings.Join(l, "+")
	}
	return strings.Join([]string{wire.Enc(svcID(s)), wire.Enc(string(s.Hostname)), wire.Enc(s.Attributes.Namespace), j(ports), j(al)}, "|")
}

func showSvcs(l []*model.Service, sorted bool) string {
	if len(l) == 0 {
		return "-"
	}
	items := make([]string, 0, len(l))
	if sorted {
		c := append([]*model.Service(nil), l...)
		sort.SliceStable(c, func(i, j int) bool { return c[i].Hostname < c[j].Hostname })
		l = c
	}
	for _, s := range l {
		items = append(items, showSvc(s))
	}
	return strings.Join(items, ",")
}

func showCfgs(l []*config.Config) string {
	if len(l) == 0 {
		return "-"
	}
	items := make([]string, 0, len(l))
	for _, c := range l {
		items = append(items, wire.Enc(c.Namespace+"/"+c.Name))
	}
	return strings.Join(items, ",")
}

func showDRs(sc *model.SidecarScope) string {
	return showDRMap(model.VerifC07ScopeDestinationRules(sc))
}

func showDRMap(m map[host.Name][]*model.ConsolidatedDestRule) string {
	if len(m) == 0 {
		return "-"
	}
	hosts := make([]string, 0, len(m))
	for h := range m {
		hosts = append(hosts, string(h))
	}
	sort.Strings(hosts)
	items := make([]string, 0, len(hosts))
	for _, h := range hosts {
		var cs []string
		for _, c := range m[hostName(h)] {
			var from []string
			for _, f := range model.VerifC07From(c) {
				from = append(from, wire.Enc(f.Namespace+"/"+f.Name))
			}
			var subs []string
			rule := c.GetRule().Spec.(*networking.DestinationRule)
			for _, sub := range rule.Subsets {
				it := wire.Enc(sub.Name)
				if mc := sub.GetTrafficPolicy().GetConnectionPool().GetTcp().GetMaxConnections(); mc != 0 {
					it += "~" + strconv.Itoa(int(mc))
				}
				subs = append(subs, it)
			}
			sj := "-"
			if len(subs) > 0 {
				sj = strings.Join(subs, "+")
			}
			// the merged top-level traffic policy: pool:lb and the port-level entries port/pool/lb
			sj += "/" + showTP(rule.GetTrafficPolicy())
			cs = append(cs, strings.Join(from, "+")+"/"+sj)
		}
		items = append(items, wire.Enc(h)+">"+strings.Join(cs, "&"))
	}
	return strings.Join(items, ",")
}

func showTP(tp *networking.TrafficPolicy) string {
	if tp == nil {
		return "n"
	}
	out := num(int(tp.GetConnectionPool().GetTcp().GetMaxConnections())) + ":" + num(int(tp.GetLoadBalancer().GetSimple()))
	for _, pl := range tp.PortLevelSettings {
		out += fmt.Sprintf(";%d/%s/%s", pl.GetPort().GetNumber(), num(int(pl.GetConnectionPool().GetTcp().GetMaxConnections())),
			num(int(pl.GetLoadBalancer().GetSimple())))
	}
	return out
}

func showScope(sc *model.SidecarScope) string {
	if sc == nil {
		return "nil-scope"
	}
	var ls []string
	for _, l := range sc.EgressListeners {
		ls = append(ls, showSvcs(l.Services(), false)+"/"+showCfgs(l.VirtualServices()))
	}
	return strings.Join([]string{
		"scope=" + wire.Enc(sc.Namespace+"/"+sc.Name),
		"S=" + showSvcs(sc.Services(), true),
		"L=" + strings.Join(ls, ";"),
		"D=" + showDRs(sc),
		"I=" + showIndex(sc),
	}, " ")
}

// showIndex: SidecarScope.servicesByHostname (what GetService / EDS / the cluster builder look up), in
// key order; a key that differs from the hostname of its service is marked.
func showIndex(sc *model.SidecarScope) string {
	m := sc.ServicesByHostname()
	if len(m) == 0 {
		return "-"
	}
	ks := make([]string, 0, len(m))
	for k := range m {
		ks = append(ks, string(k))
	}
	sort.Strings(ks)
	items := make([]string, 0, len(ks))
	for _, k := range ks {
		v := m[host.Name(k)]
		it := showSvc(v)
		if string(v.Hostname) != k {
			it = "KEY!" + wire.Enc(k) + "!" + it
		}
		items = append(items, it)
	}
	return strings.Join(items, ",")
}

func (w *world) scopeFor(ns string, lbl map[string]string) *model.SidecarScope {
	p := &model.Proxy{Type: model.SidecarProxy, ConfigNamespace: ns, Labels: lbl, Metadata: &model.NodeMetadata{Namespace: ns, Labels: lbl}}
	p.SetSidecarScope(w.ps)
	return p.SidecarScope
}

func (w *world) gatewayScopeFor(ns string) *model.SidecarScope {
	p := &model.Proxy{Type: model.Router, ConfigNamespace: ns, Metadata: &model.NodeMetadata{Namespace: ns}}
	p.SetSidecarScope(w.ps)
	return p.SidecarScope
}

// mergedDests: destination hosts of a merged VirtualService (routes, mirrors, tcp, tls).
func mergedDests(spec *networking.VirtualService) []string {
	set := map[string]bool{}
	for _, h := range spec.Http {
		for _, r := range h.Route {
			if r.Destination != nil {
				set[r.Destination.Host] = true
			}
		}
		if h.Mirror != nil {
			set[h.Mirror.Host] = true
		}
		for _, m := range h.Mirrors {
			if m.Destination != nil {
				set[m.Destination.Host] = true
			}
		}
	}
	for _, t := range spec.Tcp {
		for _, r := range t.Route {
			set[r.Destination.Host] = true
		}
	}
	for _, t := range spec.Tls {
		for _, r := range t.Route {
			set[r.Destination.Host] = true
		}
	}
	var out []string
	for h := range set {
		out = append(out, h)
	}
	sort.Strings(out)
	return out
}

// showMerged: what the real VirtualService controller hands to the PushContext (delegates folded in).
func (w *world) showMerged() string {
	var items []string
	for _, mv := range w.env.VirtualServiceController.MergedVirtualServices() {
		ds := mergedDests(mv.Spec.(*networking.VirtualService))
		j := "-"
		if len(ds) > 0 {
			e := make([]string, len(ds))
			for i, d := range ds {
				e[i] = wire.Enc(d)
			}
			j = strings.Join(e, "+")
		}
		var routes []string
		for _, h := range mv.Spec.(*networking.VirtualService).Http {
			var srcs []string
			for _, m := range h.Match {
				srcs = append(srcs, m.SourceNamespace)
			}
			routes = append(routes, encItems(srcs, "|"))
		}
		rj := "-"
		if len(routes) > 0 {
			rj = strings.Join(routes, ";")
		}
		items = append(items, wire.Enc(mv.Namespace+"/"+mv.Name)+">"+j+">"+rj)
	}
	sort.Strings(items)
	if len(items) == 0 {
		return "-"
	}
	return strings.Join(items, ",")
}

func (w *world) queryScope(t []string) string {
	switch {
	case t[0] == "scope" && len(t) == 3:
		lbl, _ := decLabels(t[2])
		return showScope(w.scopeFor(wire.Dec(t[1]), lbl))
	case t[0] == "drq" && len(t) == 3:
		// PushContext.destinationRule for a service object that only carries a hostname (the rule lookup for a
		// bare cluster hostname): the service namespace comes from the services exported to the proxy namespace
		h := wire.Dec(t[2])
		l := model.VerifC07DestinationRule(w.ps, wire.Dec(t[1]), &model.Service{Hostname: hostName(h)})
		if len(l) == 0 {
			return "-"
		}
		return showDRMap(map[host.Name][]*model.ConsolidatedDestRule{hostName(h): l})
	case t[0] == "gw" && len(t) == 2:
		return showScope(w.gatewayScopeFor(wire.Dec(t[1])))
	case t[0] == "gw" && len(t) == 3:
		p := &model.Proxy{Type: model.Waypoint, ConfigNamespace: wire.Dec(t[1]), Metadata: &model.NodeMetadata{Namespace: wire.Dec(t[1])}}
		p.SetSidecarScope(w.ps)
		return showScope(p.SidecarScope)
	case (t[0] == "xds" || t[0] == "routes" || t[0] == "eds" || t[0] == "lds" || t[0] == "rds") && len(t) >= 3:
		return w.queryXDS(t)
	case t[0] == "xdsgw" && len(t) == 2:
		return w.queryXDS(t)
	case t[0] == "xdsgwf" && len(t) == 3:
		return w.queryXDS(t)
	case t[0] == "vsgw" && len(t) == 3:
		return showCfgs(w.ps.VirtualServicesForGateway(wire.Dec(t[1]), wire.Dec(t[2])))
	case t[0] == "merged" && len(t) == 1:
		return w.showMerged()
	}
	return "bad-op"
}

// ---------------------------------------------------------------- oracle
//
// The property statement evaluated on the real SidecarScope with an oracle written from the API
// documentation (exportTo, Sidecar egress hosts), independent of the Lean model and of the
// functions under test (own wildcard cover test, own host parsing).

// covers: the documented meaning of an egress / VirtualService host pattern.
func covers(pattern, name string) bool {
	if pattern == name {
		return true
	}
	if len(pattern) == 0 || pattern[0] != '*' {
		return false
	}
	suf := pattern[1:]
	if len(name) > 0 && name[0] == '*' {
		// a wildcard name is covered by a shorter-or-equal wildcard pattern with a suffix of its suffix
		return len(name) >= len(pattern) && strings.HasSuffix(name[1:], suf)
	}
	return strings.HasSuffix(name, suf)
}

type egressHost struct {
	excluded bool
	ns, pat  string
}

func parseEgress(cfgNs, h string) (egressHost, bool) {
	parts := strings.Split(h, "/")
	if len(parts) != 2 {
		return egressHost{}, false
	}
	e := egressHost{ns: parts[0], pat: parts[1]}
	if strings.HasPrefix(e.ns, "~") {
		e.excluded = true
		e.ns = e.ns[1:]
		if e.ns == "" {
			e.ns = "*"
		}
	}
	if e.ns == "." {
		e.ns = cfgNs
	}
	return e, true
}

func importsHost(cfgNs string, hosts []string, svcNs, hostname string) bool {
	imp := false
	for _, h := range hosts {
		e, ok := parseEgress(cfgNs, h)
		if !ok || (e.ns != "*" && e.ns != svcNs) || !covers(e.pat, hostname) {
			continue
		}
		if e.excluded {
			return false
		}
		imp = true
	}
	return imp
}

// excludesHost: some ~ entry of the host list (scoped to the service's namespace or to every namespace) covers the host.
func excludesHost(cfgNs string, hosts []string, svcNs, hostname string) bool {
	for _, h := range hosts {
		e, ok := parseEgress(cfgNs, h)
		if ok && e.excluded && (e.ns == "*" || e.ns == svcNs) && covers(e.pat, hostname) {
			return true
		}
	}
	return false
}

func (w *world) vsExportDoc(v *vsSpec) []string {
	e := v.exportTo
	if len(e) == 0 {
		if w.mesh.nilVS {
			e = []string{"*"}
		} else {
			e = w.mesh.defVS
		}
	}
	return e
}

// documented VirtualService visibility: * / . (own namespace) / namespace; ~ (not allowed by
// validation) hides unless * is present.
func (w *world) vsVisibleDoc(v *vsSpec, ns string) bool {
	e := w.vsExportDoc(v)
	star, none, hit := false, false, false
	for _, x := range e {
		switch {
		case x == "*":
			star = true
		case x == "~":
			none = true
		case x == ns, x == "." && v.ns == ns:
			hit = true
		}
	}
	return star || (hit && !none)
}

func (w *world) drVisibleDoc(d *drSpec, ns string) bool {
	if d.selector != nil {
		return d.ns == ns
	}
	// declared exportTo, or meshConfig.defaultDestinationRuleExportTo when the rule declares none
	// ("same syntax as defaultServiceExportTo"; unset or empty: "*")
	e := d.exportTo
	if len(e) == 0 {
		e = w.mesh.defDR
		if w.mesh.nilDR || len(e) == 0 {
			e = []string{"*"}
		}
	}
	for _, x := range e {
		if x == "*" || x == ns || (x == "." && d.ns == ns) {
			return true
		}
	}
	return false
}

// drNotExportedKind names the cause of a DestinationRule d (one of the rules `from` of a consolidated rule)
// reaching a namespace it is not exported to:
//   - legacy-merge-flag-off: the enhanced merge is off AND d was consolidated with other rules at least one of
//     which is exported to ns (the legacy merge ignores exportTo) - the flag alone is not a cause;
//   - mesh-default-namespace-list: d declares no exportTo and the mesh default is a list the pre-b2c085f code read
//     as public (no "." in it) although it does not export to ns;
//   - otherwise the plain clause.
func (w *world) drNotExportedKind(d *drSpec, ns string, from []string) string {
	// the legacy merge keeps the export set of the FIRST rule of `from` for the whole consolidated rule: only a
	// later rule riding on a first rule that is exported to ns is the known class
	if !w.enhanced && len(from) > 1 {
		if o := w.drByKey(from[0]); o != nil && o != d && w.drVisibleDoc(o, ns) {
			return "dr-not-exported:legacy-merge-flag-off"
		}
	}
	if len(d.exportTo) == 0 && d.selector == nil && !w.mesh.nilDR && len(w.mesh.defDR) > 0 {
		dot := false
		for _, x := range w.mesh.defDR {
			dot = dot || x == "."
		}
		if !dot {
			return "dr-not-exported:mesh-default-namespace-list"
		}
	}
	return "dr-not-exported"
}

// policyOwner: the DestinationRule a connection limit was written in (top level, port level or a subset).
func (w *world) policyOwner(v int) *drSpec {
	var owner *drSpec
	for i := range w.drs {
		d := &w.drs[i]
		if d.tp != nil && (d.tp.pool == v || d.tp.plPool == v) {
			owner = d
		}
		for _, sn := range d.subsets {
			if sn.pool == v {
				owner = d
			}
		}
	}
	return owner
}

// fromKeys: the names of the rules merged into the consolidated rules of one hostname of a scope.
func fromKeys(sc *model.SidecarScope, hostname string) []string {
	var out []string
	for _, c := range model.VerifC07ScopeDestinationRules(sc)[hostName(hostname)] {
		for _, f := range model.VerifC07From(c) {
			out = append(out, f.Namespace+"/"+f.Name)
		}
	}
	return out
}

// aliasVisibleDoc: the alias (namespace, hostname) is backed by a service of that key that is
// exported to ns (a real alias is a Kubernetes ExternalName service, whose key is unique).
func (w *world) aliasVisibleDoc(ans, ahost, ns string) bool {
	for i := range w.svcs {
		sp := &w.svcs[i]
		if sp.ns == ans && sp.hostname == ahost && w.documentedVisible(sp, ns) {
			return true
		}
	}
	return false
}

// fqdn: the documented reading of a short name in a VirtualService / DestinationRule of namespace ns.
func fqdn(ns, h string) string {
	if h == "" || h == "*" || strings.Contains(h, ".") {
		return h
	}
	return h + "." + ns + ".svc.cluster.local"
}

// vsHostsDoc: the hosts of a VirtualService with short names resolved (not for gateway-semantics routes).
func vsHostsDoc(v *vsSpec) []string {
	if v.gwSem {
		return v.hosts
	}
	out := make([]string, len(v.hosts))
	for i, h := range v.hosts {
		out[i] = fqdn(v.ns, h)
	}
	return out
}

func resolveDests(v *vsSpec, ds []destSpec) []destSpec {
	if v.gwSem {
		return ds
	}
	out := make([]destSpec, len(ds))
	for i, d := range ds {
		out[i] = destSpec{fqdn(v.ns, d.host), d.port}
	}
	return out
}

func (w *world) vsByKey(key string) *vsSpec {
	for i := range w.vss {
		if w.vss[i].ns+"/"+w.vss[i].name == key {
			return &w.vss[i]
		}
	}
	return nil
}

func (w *world) drByKey(key string) *drSpec {
	for i := range w.drs {
		if w.drs[i].ns+"/"+w.drs[i].name == key {
			return &w.drs[i]
		}
	}
	return nil
}

// vsBoundDoc: the VirtualService names gateway gw (ns/name): "name" and "./name" mean a gateway of the
// VirtualService's own namespace.
func vsBoundDoc(v *vsSpec, gw string) bool {
	for _, g := range v.gateways {
		r := g
		if !v.gwSem && g != "mesh" {
			switch {
			case !strings.Contains(g, "/"):
				r = v.ns + "/" + g
			case strings.HasPrefix(g, "./"):
				r = v.ns + "/" + g[2:]
			}
		}
		if r == gw {
			return true
		}
	}
	return len(v.gateways) == 0 && gw == "mesh"
}

func vsOnMeshDoc(v *vsSpec) bool {
	if len(v.gateways) == 0 {
		return true
	}
	for _, g := range v.gateways {
		if g == "mesh" {
			return true
		}
	}
	return false
}

// vsImportedDoc: the documented import rule of a Sidecar egress host list for a VirtualService:
// one of its hosts matches a non-excluded entry of the VirtualService's namespace or of "*"
// (coverage for gateway-semantics routes, overlap in either direction otherwise) and is not
// covered by a "~" entry of those namespaces.
func vsImportedDoc(cfgNs string, hosts []string, v *vsSpec) bool {
	for _, h := range vsHostsDoc(v) {
		imp, excl := false, false
		for _, eh := range hosts {
			e, ok := parseEgress(cfgNs, eh)
			if !ok || (e.ns != "*" && e.ns != v.ns) {
				continue
			}
			switch {
			case e.excluded:
				if covers(e.pat, h) {
					excl = true
				}
			case covers(e.pat, h) || (!v.gwSem && covers(h, e.pat)):
				imp = true
			}
		}
		if imp && !excl {
			return true
		}
	}
	return false
}

// vsDestHostsFor: destination hosts of the routes that can apply to a proxy of namespace ns
// (a route whose matches all name other source namespaces does not apply).
// delegateDoc: the delegate a route refers to, if it exists and is exported to the root's namespace
// (delegate VirtualService: no hosts; exportTo "*" or the root's namespace, "." = the delegate's own).
func (w *world) delegateDoc(root *vsSpec, ref *[2]string) *vsSpec {
	dns := ref[0]
	if dns == "" {
		dns = root.ns
	}
	for i := range w.vss {
		d := &w.vss[i]
		if len(d.hosts) == 0 && d.ns == dns && d.name == ref[1] {
			for _, e := range w.vsExportDoc(d) {
				if e == "*" || e == root.ns || (e == "." && d.ns == root.ns) {
					return d
				}
			}
			return nil
		}
	}
	return nil
}

// httpRoutesDoc: the http routes of a VirtualService with its exported delegates folded in.
func (w *world) httpRoutesDoc(v *vsSpec) []httpSpec { return w.httpRoutesDocOpt(v, true) }

// httpRoutesDocOpt: with conflicts = false the match of the delegating route is ignored (used to tell a kept
// conflicting delegate route from a delegate that is not exported at all).
func (w *world) httpRoutesDocOpt(v *vsSpec, conflicts bool) []httpSpec {
	var out []httpSpec
	res := func(owner *vsSpec, hs []httpSpec) {
		for _, h := range hs {
			h.dests = resolveDests(owner, h.dests)
			out = append(out, h)
		}
	}
	for _, h := range v.http {
		if h.delegate == nil || v.gwSem {
			res(v, []httpSpec{h})
			continue
		}
		if d := w.delegateDoc(v, h.delegate); d != nil {
			// the delegate's routes apply under the root route's match: with both sides naming source
			// namespaces, a delegate route only keeps the source namespaces the root route admits too
			// (a delegate match the root does not cover voids the whole delegate route)
			var kept []httpSpec
			for _, dr := range d.http {
				if m, ok := mergedSourcesDoc(h.srcNs, dr.srcNs); ok {
					dr.srcNs = m
					kept = append(kept, dr)
				} else if !conflicts {
					kept = append(kept, dr)
				}
			}
			res(d, kept)
		}
	}
	return out
}

// mergedSourcesDoc: the source-namespace matches of a delegate route under a root route (VirtualService
// delegation docs: "the delegate's match must be a subset of the root's, otherwise it is a conflict and
// the route does not take effect"; an empty side means "no restriction from that side").
func mergedSourcesDoc(root, dlg []string) ([]string, bool) {
	if len(root) == 0 {
		return dlg, true
	}
	if len(dlg) == 0 {
		return root, true
	}
	var out []string
	for _, d := range dlg {
		covered := false
		for _, r := range root {
			if r == "" || r == d {
				covered = true
				out = append(out, d)
			}
		}
		if !covered {
			return nil, false
		}
	}
	return out, len(out) > 0
}

func (w *world) vsDestHostsFor(v *vsSpec, ns string) map[string]bool {
	out := map[string]bool{}
	for _, h := range w.httpRoutesDoc(v) {
		applies := len(h.srcNs) == 0
		for _, sn := range h.srcNs {
			if sn == "" || sn == ns {
				applies = true
			}
		}
		if !applies {
			continue
		}
		for _, d := range h.dests {
			out[d.host] = true
		}
	}
	for _, d := range resolveDests(v, v.tcp) {
		out[d.host] = true
	}
	return out
}

func vsDestHosts(v *vsSpec) map[string]bool {
	out := map[string]bool{}
	for _, h := range v.http {
		for _, d := range h.dests {
			out[d.host] = true
		}
	}
	for _, d := range resolveDests(v, v.tcp) {
		out[d.host] = true
	}
	return out
}

// oracleOneScope checks one computed scope against the property.
// expectedSidecar: which Sidecar resource the API documentation says applies to a workload:
// a Sidecar of the workload's namespace whose workloadSelector matches (oldest first), else the
// selector-less Sidecar of that namespace, else the selector-less Sidecar of the root namespace
// (the mesh-wide default), else none. Independent of getSidecarScope / initSidecarScopes.
func (w *world) expectedSidecar(ns string, lbl map[string]string) *sidecarSpec {
	older := func(a, b *sidecarSpec) bool {
		if a.ctime != b.ctime {
			return a.ctime < b.ctime
		}
		if a.name != b.name {
			return a.name < b.name
		}
		return a.ns < b.ns
	}
	var best *sidecarSpec
	pick := func(ok func(s *sidecarSpec) bool) *sidecarSpec {
		best = nil
		for i := range w.scs {
			s := &w.scs[i]
			if ok(s) && (best == nil || older(s, best)) {
				best = s
			}
		}
		return best
	}
	matches := func(sel map[string]string) bool {
		for k, v := range sel {
			if lbl[k] != v {
				return false
			}
		}
		return true
	}
	if s := pick(func(s *sidecarSpec) bool { return s.ns == ns && s.selector != nil && matches(s.selector) }); s != nil {
		return s
	}
	if s := pick(func(s *sidecarSpec) bool { return s.ns == ns && s.selector == nil }); s != nil {
		return s
	}
	return pick(func(s *sidecarSpec) bool { return s.ns == w.mesh.root && s.selector == nil })
}

// checkAppliedSidecar compares the Sidecar the real scope was computed from with the documented choice.
func (w *world) checkAppliedSidecar(sc *model.SidecarScope, ns string, lbl map[string]string) string {
	exp := w.expectedSidecar(ns, lbl)
	switch {
	case exp == nil && sc.Sidecar != nil:
		return "wrong-sidecar-applied expected-none got-" + sc.Name + " " + ns
	case exp != nil && (sc.Sidecar == nil || sc.Name != exp.name):
		return "wrong-sidecar-applied expected-" + exp.ns + "/" + exp.name + " got-" + sc.Name + " " + ns
	}
	return ""
}

type oracleListener struct {
	hosts    []string
	portBind bool
}

// documentedListeners: the egress listeners of the Sidecar that the documentation says applies
// (nil spec or no egress: the implicit */* listener).
func documentedListeners(exp *sidecarSpec) []oracleListener {
	if exp == nil || len(exp.egress) == 0 {
		return []oracleListener{{[]string{"*/*"}, false}}
	}
	var out []oracleListener
	for _, e := range exp.egress {
		out = append(out, oracleListener{e.hosts, e.port != 0 && strings.ToUpper(e.proto) != "HTTP_PROXY"})
	}
	return out
}

// branch counters: how often the generated cases reach the rare paths (computed from the specs and the real
// outputs, written next to the verdict file and copied into the evidence).
var branchCounters = map[string]int{}

func cnt(name string) { branchCounters["branch."+name]++ }

func (w *world) countBranches(sc *model.SidecarScope, ns string, listeners []oracleListener) {
	for _, l := range listeners {
		exact, n, fallback := true, 0, false
		for _, h := range l.hosts {
			e, ok := parseEgress(ns, h)
			if !ok || e.excluded {
				continue
			}
			n++
			if e.ns == "*" || isWildcard(e.pat) {
				exact = false
				continue
			}
			for i := range w.svcs {
				if w.svcs[i].ns == e.ns && w.svcs[i].hostname == e.pat && !w.documentedVisible(&w.svcs[i], ns) {
					fallback = true
				}
			}
		}
		if exact && n > 0 {
			cnt("exact-host-fast-path")
			if fallback {
				cnt("exact-host-hidden-entry-f10")
			}
		}
	}
	// a Kubernetes service of a later egress listener replaced a non-Kubernetes one
	final := map[string]*model.Service{}
	for _, s := range sc.Services() {
		final[string(s.Hostname)] = s
	}
	for _, l := range sc.EgressListeners {
		for _, s := range l.Services() {
			f := final[string(s.Hostname)]
			if f != nil && svcID(f) != svcID(s) && w.byID[svcID(f)] != nil && w.byID[svcID(s)] != nil &&
				w.byID[svcID(f)].k8s && !w.byID[svcID(s)].k8s {
				cnt("kubernetes-replaces-serviceentry")
			}
		}
	}
	// DestinationRule taken from the root namespace (step 4 of destinationRule)
	for h, cs := range model.VerifC07ScopeDestinationRules(sc) {
		svcNs := ""
		if f := final[string(h)]; f != nil {
			svcNs = f.Attributes.Namespace
		}
		for _, c := range cs {
			for _, f := range model.VerifC07From(c) {
				if f.Namespace == w.mesh.root && ns != w.mesh.root && svcNs != w.mesh.root {
					cnt("destinationrule-from-root-namespace")
				}
			}
		}
	}
	// a VirtualService destination resolved among several visible namespaces
	for _, l := range sc.EgressListeners {
		for _, c := range l.VirtualServices() {
			v := w.vsByKey(c.Namespace + "/" + c.Name)
			if v == nil {
				continue
			}
			for h := range w.vsDestHostsFor(v, ns) {
				nss := map[string]bool{}
				for i := range w.svcs {
					if w.svcs[i].hostname == h && w.documentedVisible(&w.svcs[i], ns) {
						nss[w.svcs[i].ns] = true
					}
				}
				if !nss[ns] && len(nss) >= 2 {
					cnt("vs-destination-several-namespaces")
				}
			}
		}
	}
}

func (w *world) oracleOneScope(sc *model.SidecarScope, ns string, gateway bool, exp *sidecarSpec) string {
	listeners := documentedListeners(exp)
	if !gateway {
		w.countBranches(sc, ns, listeners)
	}
	// soundness: every delivered service is exported to ns and imported
	inScope := map[string]bool{}
	byHost := map[string]*model.Service{}
	for _, s := range sc.Services() {
		sp := w.byID[svcID(s)]
		if sp == nil {
			return "scope-service-unknown " + svcID(s)
		}
		inScope[sp.id] = true
		if byHost[sp.hostname] != nil {
			return "scope-duplicate-hostname " + sp.hostname
		}
		byHost[sp.hostname] = s
		if string(s.Hostname) != sp.hostname || s.Attributes.Namespace != sp.ns {
			return "scope-service-identity-changed " + sp.id
		}
		if !w.documentedVisible(sp, ns) {
			return "leak-not-exported " + sp.id + " " + ns
		}
		imported := false
		for _, l := range listeners {
			if importsHost(ns, l.hosts, sp.ns, sp.hostname) {
				imported = true
			}
		}
		hostImported := imported
		var excludedVia *oracleListener
		if !imported && !gateway {
			// destination of a mesh-gateway VirtualService that is exported to ns and imported by a
			// listener's host list - all three judged from the documented rules, not from the real
			// VirtualService selection
			for _, l := range listeners {
				for i := range w.vss {
					v := &w.vss[i]
					if vsOnMeshDoc(v) && w.vsVisibleDoc(v, ns) && len(v.hosts) > 0 && vsImportedDoc(ns, l.hosts, v) && w.vsDestHostsFor(v, ns)[sp.hostname] {
						// "a host is exposed only when it is imported by some entry and not excluded by any entry":
						// a ~ entry of that listener covering the service keeps it out, whoever routes to it
						if excludesHost(ns, l.hosts, sp.ns, sp.hostname) {
							lc := l; excludedVia = &lc
							continue
						}
						imported = true
					}
				}
			}
		}
		if !imported && excludedVia != nil {
			return "leak-excluded-host-through-virtualservice " + sp.id + " " + ns
		}
		if !imported {
			return "leak-not-imported " + sp.id + " " + ns
		}
		if !hostImported && !gateway {
			cnt("service-imported-through-virtualservice-only")
		}
		// every alias hostname carried by the service (a route domain / SNI of that service) stands
		// for an ExternalName service that is exported to ns
		for _, a := range s.Attributes.Aliases {
			if !w.aliasVisibleDoc(a.Namespace, string(a.Hostname), ns) {
				return "alias-not-exported " + wire.Enc(a.Namespace+"/"+string(a.Hostname)) + " " + ns
			}
		}
		// delivered ports are ports of the service (or of a service with the same hostname and
		// namespace it was merged with)
		for _, p := range s.Ports {
			ok := false
			for i := range w.svcs {
				if w.svcs[i].hostname != sp.hostname || w.svcs[i].ns != sp.ns {
					continue
				}
				for _, q := range w.svcs[i].ports {
					if q.num == p.Port {
						ok = true
					}
				}
			}
			if !ok {
				return "scope-port-invented " + sp.id
			}
		}
	}
	// rules: every selected VirtualService / DestinationRule is exported to ns
	for li, l := range sc.EgressListeners {
		for _, c := range l.VirtualServices() {
			v := w.vsByKey(c.Namespace + "/" + c.Name)
			if v == nil {
				return "vs-unknown " + c.Name
			}
			if !w.vsVisibleDoc(v, ns) {
				return "vs-not-exported " + v.ns + "/" + v.name + " " + ns
			}
			if !vsOnMeshDoc(v) {
				return "vs-not-on-mesh-gateway " + v.ns + "/" + v.name + " " + ns
			}
			if !gateway && li < len(listeners) && !vsImportedDoc(ns, listeners[li].hosts, v) {
				return "vs-not-imported " + v.ns + "/" + v.name + " " + ns
			}
		}
		for _, s := range l.Services() {
			sp := w.byID[svcID(s)]
			if sp == nil || !w.documentedVisible(sp, ns) {
				return "listener-leak-not-exported " + svcID(s) + " " + ns
			}
			for _, a := range s.Attributes.Aliases {
				if !w.aliasVisibleDoc(a.Namespace, string(a.Hostname), ns) {
					return "listener-alias-not-exported " + wire.Enc(a.Namespace+"/"+string(a.Hostname)) + " " + ns
				}
			}
		}
	}
	// the documented same-hostname tie-break inside one egress listener: the proxy's own namespace
	// wins, then (unified scoping) the namespace of a Kubernetes service, else any candidate namespace
	if !gateway {
		if len(sc.EgressListeners) != len(listeners) {
			return "listener-count-differs-from-sidecar " + ns
		}
		for li, l := range sc.EgressListeners {
			hosts := listeners[li].hosts
			port := 0
			if listeners[li].portBind {
				port = 1
			}
			// every service of the listener is imported by the listener's own documented host list
			for _, s := range l.Services() {
				if !importsHost(ns, hosts, s.Attributes.Namespace, string(s.Hostname)) {
					return "listener-leak-not-imported " + svcID(s) + " " + ns
				}
			}
			// namespaces holding a Kubernetes candidate of this listener, per hostname
			k8sNs := map[string]map[string]bool{}
			for i := range w.svcs {
				sp := &w.svcs[i]
				if sp.k8s && w.documentedVisible(sp, ns) && w.exportWellFormed(sp) && importsHost(ns, hosts, sp.ns, sp.hostname) {
					if k8sNs[sp.hostname] == nil {
						k8sNs[sp.hostname] = map[string]bool{}
					}
					k8sNs[sp.hostname][sp.ns] = true
				}
			}
			chosen := map[string]string{}
			for _, s := range l.Services() {
				if prev, ok := chosen[string(s.Hostname)]; ok && prev != s.Attributes.Namespace {
					return "listener-two-namespaces-for-hostname " + string(s.Hostname)
				}
				chosen[string(s.Hostname)] = s.Attributes.Namespace
			}
			for i := range w.svcs {
				sp := &w.svcs[i]
				if !w.documentedVisible(sp, ns) || !w.exportWellFormed(sp) || !importsHost(ns, hosts, sp.ns, sp.hostname) {
					continue
				}
				if port != 0 {
					// the property promises delivery (and hence the tie-break) for port-unrestricted hosts
					// only: a port-bound listener on the exact-host path sees one service per (hostname,
					// namespace), which may lack the port while a second one has it
					continue
				}
				got, ok := chosen[sp.hostname]
				if !ok {
					return "listener-missing " + sp.id + " " + ns
				}
				if sp.ns == ns && got != ns {
					return "tiebreak-own-namespace " + sp.id + " " + ns
				}
				if w.unified && sp.k8s && got != sp.ns && got != ns && !k8sNs[sp.hostname][got] {
					return "tiebreak-kubernetes " + sp.id + " " + ns
				}
			}
		}
	}
	for _, cs := range model.VerifC07ScopeDestinationRules(sc) {
		for _, c := range cs {
			for _, f := range model.VerifC07From(c) {
				d := w.drByKey(f.Namespace + "/" + f.Name)
				if d == nil {
					return "dr-unknown " + f.Name
				}
				if !w.drVisibleDoc(d, ns) {
					var from []string
					for _, g := range model.VerifC07From(c) {
						from = append(from, g.Namespace+"/"+g.Name)
					}
					kind := w.drNotExportedKind(d, ns, from)
					v := kind + " " + d.ns + "/" + d.name + " " + ns
					if kind == "dr-not-exported:legacy-merge-flag-off" {
						// a listed known finding: report it only if nothing else is wrong with the case
						if w.deferred == "" {
							w.deferred = v
						}
						continue
					}
					return v
				}
			}
			// provenance of the consolidated traffic policy: every connection limit in it (top level, port level,
			// subsets; the generator gives every place its own number) was written in one of the rules the
			// consolidated rule says it was merged from - a rule outside `from` shapes nothing
			from := map[string]bool{}
			for _, g := range model.VerifC07From(c) {
				from[g.Namespace+"/"+g.Name] = true
			}
			rule := c.GetRule().Spec.(*networking.DestinationRule)
			var limits []int
			if mc := rule.GetTrafficPolicy().GetConnectionPool().GetTcp().GetMaxConnections(); mc != 0 {
				limits = append(limits, int(mc))
			}
			for _, pl := range rule.GetTrafficPolicy().GetPortLevelSettings() {
				if mc := pl.GetConnectionPool().GetTcp().GetMaxConnections(); mc != 0 {
					limits = append(limits, int(mc))
				}
			}
			for _, sub := range rule.GetSubsets() {
				if mc := sub.GetTrafficPolicy().GetConnectionPool().GetTcp().GetMaxConnections(); mc != 0 {
					limits = append(limits, int(mc))
				}
			}
			for _, v := range limits {
				owner := w.policyOwner(v)
				if owner == nil {
					return "dr-policy-of-unknown-rule " + strconv.Itoa(v)
				}
				if !from[owner.ns+"/"+owner.name] {
					if !w.drVisibleDoc(owner, ns) {
						return "dr-not-exported policy-outside-from " + strconv.Itoa(v) + " " + owner.ns + "/" + owner.name + " " + ns
					}
					return "dr-policy-from-rule-outside-from " + strconv.Itoa(v) + " " + owner.ns + "/" + owner.name + " " + ns
				}
			}
		}
	}
	// completeness: a visible service matched by a port-unrestricted egress host is delivered,
	// unless displaced by a visible service with the same hostname
	for i := range w.svcs {
		sp := &w.svcs[i]
		if !w.documentedVisible(sp, ns) || !w.exportWellFormed(sp) {
			continue
		}
		want := false
		for _, l := range listeners {
			if !l.portBind && importsHost(ns, l.hosts, sp.ns, sp.hostname) {
				want = true
			}
		}
		if !want || inScope[sp.id] {
			continue
		}
		win := byHost[sp.hostname]
		if win == nil {
			return "missing-no-winner " + sp.id + " " + ns
		}
		cnt("service-displaced-by-same-hostname-winner")
		wsp := w.byID[svcID(win)]
		if wsp == nil || !w.documentedVisible(wsp, ns) {
			return "missing-winner-not-visible " + sp.id + " " + ns
		}
	}
	return ""
}

// oracleQuery evaluates the property on the real answer to one query of a case, on the PushContext as it
// is at that point of the case (freshly built, or incrementally updated).
func (w *world) oracleQuery(t []string) string {
	{
		switch {
		case t[0] == "scope" && len(t) == 3:
			lbl, _ := decLabels(t[2])
			ns := wire.Dec(t[1])
			sc := w.scopeFor(ns, lbl)
			if v := w.checkAppliedSidecar(sc, ns, lbl); v != "" {
				return v
			}
			if v := w.oracleOneScope(sc, ns, false, w.expectedSidecar(ns, lbl)); v != "" {
				return v
			}
		case t[0] == "gw" && (len(t) == 2 || len(t) == 3):
			ns := wire.Dec(t[1])
			if v := w.oracleOneScope(w.gatewayScopeFor(ns), ns, true, nil); v != "" {
				return v
			}
		case t[0] == "drq" && len(t) == 3:
			// the rule lookup for a bare hostname: whatever it returns is exported to the asking namespace
			ns, h := wire.Dec(t[1]), wire.Dec(t[2])
			cnt("drq-bare-hostname-lookup")
			for _, c := range model.VerifC07DestinationRule(w.ps, ns, &model.Service{Hostname: hostName(h)}) {
				var from []string
				for _, f := range model.VerifC07From(c) {
					from = append(from, f.Namespace+"/"+f.Name)
				}
				for _, k := range from {
					d := w.drByKey(k)
					if d == nil {
						return "dr-unknown " + k
					}
					if !w.drVisibleDoc(d, ns) {
						return w.drNotExportedKind(d, ns, from) + " " + k + " " + ns + " bare-hostname " + wire.Enc(h)
					}
				}
			}
		case t[0] == "xdsgwf" && len(t) == 3:
			cnt("router-cds-gateway-cluster-filter")
			ns := wire.Dec(t[1])
			cl := w.filteredRouterClusters(ns, t[2] == "1")
			if len(cl) > 0 {
				cnt("router-cds-gateway-cluster-filter-nonempty")
			}
			if v := w.oracleRouterClusters(ns, cl); v != "" {
				return "filtered-" + v
			}
		case t[0] == "xdsgw" && len(t) == 2:
			if v := w.oracleRouter(wire.Dec(t[1])); v != "" {
				return v
			}
			if v := w.oracleRouterRoutes(wire.Dec(t[1])); v != "" {
				return v
			}
		case t[0] == "vsgw" && len(t) == 3:
			ns, gw := wire.Dec(t[1]), wire.Dec(t[2])
			for _, c := range w.ps.VirtualServicesForGateway(ns, gw) {
				v := w.vsByKey(c.Namespace + "/" + c.Name)
				if v == nil {
					return "vs-unknown " + c.Name
				}
				if !w.vsVisibleDoc(v, ns) {
					return "vs-for-gateway-not-exported " + v.ns + "/" + v.name + " " + ns
				}
				if !vsBoundDoc(v, gw) {
					return "vs-for-gateway-not-bound " + v.ns + "/" + v.name + " " + wire.Enc(gw)
				}
			}
		case t[0] == "merged" && len(t) == 1:
			for _, mv := range w.env.VirtualServiceController.MergedVirtualServices() {
				v := w.vsByKey(mv.Namespace + "/" + mv.Name)
				if v == nil || len(v.hosts) == 0 {
					return "merged-vs-unknown-or-delegate " + mv.Name
				}
				allowed := map[string]bool{}
				for _, h := range w.httpRoutesDoc(v) {
					for _, d := range h.dests {
						allowed[d.host] = true
					}
				}
				for _, d := range resolveDests(v, v.tcp) {
					allowed[d.host] = true
				}
				loose := map[string]bool{}
				for _, h := range w.httpRoutesDocOpt(v, false) {
					for _, d := range h.dests {
						loose[d.host] = true
					}
				}
				for _, h := range mergedDests(mv.Spec.(*networking.VirtualService)) {
					if !allowed[h] && loose[h] {
						// the delegate is exported, but this route of it does not fit under the root route's match
						return "delegate-route-with-conflicting-match-kept " + v.ns + "/" + v.name + " " + wire.Enc(h)
					}
					if !allowed[h] {
						return "delegate-not-exported " + v.ns + "/" + v.name + " " + wire.Enc(h)
					}
				}
				// the merged match of every route: what the root route and the delegate route both admit
				var want []string
				for _, h := range w.httpRoutesDoc(v) {
					want = append(want, encItems(h.srcNs, "|"))
				}
				var got []string
				for _, h := range mv.Spec.(*networking.VirtualService).Http {
					var srcs []string
					for _, m := range h.Match {
						srcs = append(srcs, m.SourceNamespace)
					}
					got = append(got, encItems(srcs, "|"))
				}
				if !v.gwSem && strings.Join(got, ";") != strings.Join(want, ";") {
					return "merged-route-matches-differ-from-documented " + v.ns + "/" + v.name + " " + wire.Enc(strings.Join(got, ";")) + " " + wire.Enc(strings.Join(want, ";"))
				}
			}
		case t[0] == "xds" && len(t) >= 3:
			lbl, _ := decLabels(t[2])
			if v := w.oracleXDS(wire.Dec(t[1]), lbl); v != "" {
				return v
			}
			if v := w.oracleCachedXDS(lbl, append(append([]string{}, nsPool...), "other")); v != "" {
				return v
			}
		case (t[0] == "eds" || t[0] == "lds" || t[0] == "rds") && (len(t) == 3 || len(t) == 4):
			// compared line by line in the differential; the oracle states its clauses on the same proxy under `xds`
		case (t[0] == "exported" && len(t) == 2) || (t[0] == "visible" && len(t) == 3) || (t[0] == "index" && len(t) == 2):
		default:
			// a line no reader of the case understands (a corpus file in an outdated format) must not pass silently
			return "unreadable-line " + wire.Enc(strings.Join(t, " "))
		}
	}
	return ""
}
