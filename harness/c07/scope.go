package main

func (w *world) oracleScope() string { return "" }
