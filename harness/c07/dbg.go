package main

import (
	"fmt"
	"os"
	"runtime/debug"
)

func init() {
	if os.Getenv("C07_DEBUG") != "" {
		debugPanic = func(e any) { fmt.Fprintln(os.Stderr, e); debug.PrintStack() }
	}
}

var debugPanic = func(e any) {}
