// Harness for C07 (a proxy only ever receives services visible to and imported by its namespace).
//
//	c07 gen    <stream> <seed> <ncases> <ops-out>
//	c07 exec   <stream> <ops-in> <impl-out>
//	c07 oracle <stream> <ops-in> <verdict-out>
//
// Streams:
//
//	host   the real host.Name.Matches / SubsetOf / IsWildCarded on name pairs
//	vis    a real PushContext built from a service list and mesh defaults: IsServiceVisible,
//	       servicesExportedToNamespace, the HostnameAndNamespace index
//	scope  a real PushContext (services, VirtualServices, DestinationRules, Sidecars) and the
//	       SidecarScope computed for proxies: services, per-listener services / VirtualServices,
//	       DestinationRules
//
// The Lean driver (lean/IstioModel/C07/Driver.lean) consumes the same ops file; outputs are
// compared line by line.
package main

import (
	"fmt"
	"os"
	"strconv"
	_ "verifharness/internal/quiet"
)

func main() {
	if len(os.Args) < 5 {
		fmt.Fprintln(os.Stderr, "usage: c07 gen|exec|oracle ...")
		os.Exit(2)
	}
	switch os.Args[1] {
	case "gen":
		seed, _ := strconv.ParseUint(os.Args[3], 10, 64)
		n, _ := strconv.Atoi(os.Args[4])
		switch os.Args[2] {
		case "host":
			genHost(seed, n, os.Args[5])
		case "vis":
			genVis(seed, n, os.Args[5])
		case "scope":
			genScope(seed, n, os.Args[5])
		case "sev":
			genSev(seed, n, os.Args[5])
		case "vval":
			genVval(seed, n, os.Args[5])
		default:
			fmt.Fprintln(os.Stderr, "unknown stream", os.Args[2])
			os.Exit(2)
		}
	case "exec":
		switch os.Args[2] {
		case "host":
			execHost(os.Args[3], os.Args[4])
		case "vis", "scope":
			execWorld(os.Args[3], os.Args[4])
		case "sev":
			execSev(os.Args[3], os.Args[4])
		case "vval":
			execVval(os.Args[3], os.Args[4])
		default:
			os.Exit(2)
		}
	case "oracle":
		switch os.Args[2] {
		case "host":
			oracleHost(os.Args[3], os.Args[4])
		case "vis", "scope":
			oracleWorld(os.Args[2], os.Args[3], os.Args[4])
		case "sev":
			oracleSev(os.Args[3], os.Args[4])
		case "vval":
			oracleVval(os.Args[3], os.Args[4])
		default:
			os.Exit(2)
		}
	default:
		os.Exit(2)
	}
}
