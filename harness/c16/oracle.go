package main

import (
	"fmt"
	"sort"
	"strings"
	"testing"
	"testing/synctest"

	"verifharness/internal/wire"
)

// The oracle evaluates the property statement directly in Go on the real collections,
// independently of the Lean side: contents = transformation of the current inputs (computed with
// a plain Go evaluation of the filters, no krt involved) and a map-based stream checker.

func subset(a, b map[string]string) bool {
	for k, v := range a {
		if w, ok := b[k]; !ok || w != v {
			return false
		}
	}
	return true
}

func atomMatches(a Atom, i, o Obj) bool {
	switch a.Kind {
	case "key":
		return o.ResourceName() == i.Ref
	case "selects":
		return i.LabelsNil || subset(o.Sel, i.Labels)
	case "selectsNE":
		return len(o.Sel) > 0 && subset(o.Sel, i.Labels)
	case "label":
		return subset(i.Sel, o.Labels)
	case "nsIndex":
		return o.NS == i.NS
	case "valIndex":
		return o.Val == i.Val
	case "outIndex":
		want := map[string]string{"v1": "k1", "v2": "k2", "v3": "k3"}[i.Val]
		if want == "" {
			want = "k4"
		}
		for _, k := range o.Outs {
			if k == want {
				return true
			}
		}
		return false
	case "nokeys":
		return false
	case "nilkeys":
		return true
	case "keys":
		return o.ResourceName() == i.Ref || o.ResourceName() == i.NS+"/x"
	case "objName":
		return o.ResourceName() == i.NS+"/y"
	case "generic":
		return genericPred(a.N, i, o)
	}
	return false
}

// oracleValue builds the value of the outputs of input i on its own (it does not share code with the
// transformation function handed to krt).
func oracleValue(t Transform, i Obj, src func(n int) map[string]Obj) (string, bool) {
	val := i.NS + "|" + i.NS + "/" + i.Name + ":" + i.Val + "|"
	for n, f := range t.Fetches {
		var hits []string
		for _, o := range src(n) {
			ok := true
			for _, a := range f {
				if !atomMatches(a, i, o) {
					ok = false
				}
			}
			if ok {
				hits = append(hits, o.NS+"/"+o.Name+"="+o.Val)
			}
		}
		if n == 0 && t.Gate && len(hits) == 0 {
			return "", false
		}
		sort.Strings(hits)
		val += "[" + strings.Join(hits, ",") + "]"
	}
	if t.chainSuffix {
		val += "|c"
	}
	return val, true
}

func goSpec(t Transform, prim map[string]Obj, src func(n int) map[string]Obj) map[string]Out {
	res := map[string]Out{}
	for _, i := range prim {
		val, ok := oracleValue(t, i, src)
		if !ok {
			continue
		}
		keys := []string{i.NS + "/" + i.Name}
		if t.Multi {
			keys = i.Outs
		} else if t.ByVal {
			keys = []string{"val/" + i.Val}
		}
		for _, k := range keys {
			res[k] = Out{Key: k, NS: i.NS, Val: val}
		}
	}
	return res
}

// effSrc: the objects fetch number n sees, by source mode.
func (c *caseRun) effSrc() func(n int) map[string]Obj {
	return func(n int) map[string]Obj {
		switch {
		case c.secmode == "sj":
			m := map[string]Obj{}
			for k, o := range c.sec2M {
				m[k] = o
			}
			for k, o := range c.secM {
				m[k] = o
			}
			return m
		case c.secmode == "s2" && n%2 == 1:
			return c.sec2M
		case c.secmode == "sm" || c.secmode == "sn":
			m := map[string]Obj{}
			for k := range c.secM {
				m[k] = Obj{}
			}
			for k := range c.sec2M {
				m[k] = Obj{}
			}
			for k := range m {
				var ts []Obj
				if o, f := c.secM[k]; f {
					ts = append(ts, o)
				}
				if o, f := c.sec2M[k]; f {
					ts = append(ts, o)
				}
				m[k] = *mergeSortedSpec(ts)
			}
			return m
		case c.secmode == "sp" || c.secmode == "ss":
			m := map[string]Obj{}
			for k, o := range c.d.prim {
				if !(c.single1 && k == singletonInput.ResourceName()) {
					m[k] = o
				}
			}
			return m
		}
		return c.secM
	}
}

func valsOf(m map[string]Out) map[string]string {
	r := map[string]string{}
	for k, o := range m {
		r[k] = o.Val
	}
	return r
}

func diffMaps(real, spec map[string]string, keep func(string) bool) string {
	var d []string
	for k, v := range spec {
		if !keep(k) {
			continue
		}
		if w, ok := real[k]; !ok {
			d = append(d, "missing:"+k)
		} else if w != v {
			d = append(d, "wrong:"+k)
		}
	}
	for k := range real {
		if keep(k) {
			if _, ok := spec[k]; !ok {
				d = append(d, "extra:"+k)
			}
		}
	}
	sort.Strings(d)
	return strings.Join(d, ",")
}

// goMonitor replays a stream on top of base; returns "" or the reason of rejection.
func goMonitor(base map[string]string, evs []string, final map[string]string, keep func(string) bool) string {
	m := map[string]string{}
	for k, v := range base {
		if keep(k) {
			m[k] = v
		}
	}
	for n, e := range evs {
		p := strings.Split(e, "~")
		if p[0] == "X" {
			return fmt.Sprintf("event:%d:malformed", n)
		}
		if !keep(p[1]) {
			continue
		}
		cur, has := m[p[1]]
		switch p[0] {
		case "A":
			if has {
				return fmt.Sprintf("event:%d:duplicate-add", n)
			}
			m[p[1]] = p[2]
		case "U":
			if !has {
				return fmt.Sprintf("event:%d:update-unknown", n)
			}
			if cur != p[2] {
				return fmt.Sprintf("event:%d:old-mismatch", n)
			}
			m[p[1]] = p[3]
		case "D":
			if !has {
				return fmt.Sprintf("event:%d:delete-unknown", n)
			}
			if cur != p[2] {
				return fmt.Sprintf("event:%d:old-mismatch", n)
			}
			delete(m, p[1])
		}
	}
	if d := diffMaps(m, final, keep); d != "" {
		return "replay:" + d
	}
	return ""
}

func oracleCase(t *testing.T, lines [][]string) string {
	verdict := "OK"
	fail := func(clause, detail string) {
		if verdict == "OK" || (strings.HasPrefix(verdict, "FAIL f6:") && !strings.HasPrefix(clause, "f6:")) {
			verdict = "FAIL " + clause + " " + detail
		}
	}
	synctest.Test(t, func(t *testing.T) {
		var c *caseRun
		defer func() {
			if r := recover(); r != nil {
				fail("crash", "panic")
			}
			if c != nil {
				close(c.stop)
			}
			synctest.Wait()
		}()
		head := lines[0]
		if len(head) < 4 || strings.HasPrefix(head[2], "join") || strings.HasPrefix(head[2], "mem") || strings.HasPrefix(head[2], "exact") {
			return // the join streams are checked by the Lean side only
		}
		tr, ok := parseTransform(head[3])
		if !ok {
			return
		}
		c = newCaseRun(tr, contains(head[4:], "f6"))
		c.setFlags(head[4:])
		tr.chainSuffix = c.chain
		tr1 := tr
		tr1.chainSuffix = false
		base := map[string]map[string]string{}
		pbase := map[string]map[string]string{}
		pfrozen := map[string]map[string]string{}
		dbase := map[string]map[string]string{}
		primVals := func() map[string]string {
			m := map[string]string{}
			for k, o := range c.d.prim {
				if c.single1 && k == singletonInput.ResourceName() {
					continue // the constant input of a singleton is not in the primary static collection
				}
				m[k] = o.Token()
			}
			return m
		}
		for n, l := range lines[1:] {
			impl, trace := c.step(l)
			if impl == "crash" {
				fail("crash", fmt.Sprint(n))
				return
			}
			if l[0] == "sub" && len(l) == 3 && c.der != nil {
				if l[2] == "nostate" {
					base[l[1]] = valsOf(goSpec(tr, c.d.prim, c.effSrc()))
				} else {
					base[l[1]] = map[string]string{}
				}
			}
			if l[0] == "dsub" && len(l) == 3 && c.der != nil {
				if l[2] == "nostate" {
					dbase[l[1]] = valsOf(goSpec(tr1, c.d.prim, c.effSrc()))
				} else {
					dbase[l[1]] = map[string]string{}
				}
			}
			if l[0] == "psub" && len(l) == 3 {
				// registered before this line's state change? psub changes nothing: the mirror is current
				if l[2] == "nostate" {
					pbase[l[1]] = primVals()
				} else {
					pbase[l[1]] = map[string]string{}
				}
			}
			if l[0] == "punsub" && len(l) == 2 {
				pfrozen[l[1]] = primVals()
			}
			if l[0] == "pstream" {
				toks := strings.Fields(trace)
				if ps := c.psubs[toks[1]]; ps != nil && ps.unreg {
					// unregistered: it must hold exactly what it held then (the harness counts later events itself)
					if frozen, ok := pfrozen[toks[1]]; ok {
						if r := goMonitor(pbase[toks[1]], toks[2:], frozen, all); r != "" {
							fail("pstream", fmt.Sprintf("op%d:unregistered:%s", n+1, r))
						}
					}
					continue
				}
				if b, ok := pbase[toks[1]]; ok && len(toks) >= 2 {
					if r := goMonitor(b, toks[2:], primVals(), all); r != "" {
						fail("pstream", fmt.Sprintf("op%d:%s", n+1, r))
					}
				}
				continue
			}
			if c.der == nil || c.guard() != "" {
				continue
			}
			inU, notU := c.d.inU, func(k string) bool { return !c.d.inU(k) }
			spec := goSpec(tr, c.d.prim, c.effSrc())
			where := fmt.Sprintf("op%d", n+1)
			switch l[0] {
			case "list", "ulist":
				real := map[string]string{}
				for _, o := range c.top.List() {
					real[o.Key] = o.Val
				}
				if d := diffMaps(real, valsOf(spec), notU); d != "" {
					fail("list", where+":"+d)
				}
				if d := diffMaps(real, valsOf(spec), inU); d != "" {
					fail("f6:list", where+":"+d)
				}
			case "get":
				if len(l) == 2 {
					o := c.top.GetKey(l[1])
					s, has := spec[l[1]]
					if (o == nil) != !has || (o != nil && (o.Val != s.Val || o.Key != l[1])) {
						if c.d.inU(l[1]) {
							fail("f6:get", where)
						} else {
							fail("get", where+":"+l[1])
						}
					}
				}
			case "lookup", "ulookup":
				if len(l) == 2 {
					real := map[string]string{}
					for _, o := range c.derIdx.Lookup(l[1]) {
						real[o.Key] = o.Val
					}
					want := map[string]string{}
					for k, o := range spec {
						if o.NS == l[1] {
							want[k] = o.Val
						}
					}
					if d := diffMaps(real, want, notU); d != "" {
						fail("lookup", where+":"+d)
					}
					if d := diffMaps(real, want, inU); d != "" {
						fail("f6:lookup", where+":"+d)
					}
				}
			case "flookup":
				if len(l) == 2 && c.lateIdx != nil {
					real := map[string]string{}
					for _, o := range c.lateIdx.Lookup(l[1]) {
						real[o.Key] = o.Val
					}
					want := map[string]string{}
					for k, o := range spec {
						if contains(outFetched(o.Val), l[1]) {
							want[k] = o.Val
						}
					}
					if d := diffMaps(real, want, notU); d != "" {
						fail("flookup", where+":"+d)
					}
				}
			case "dstream":
				toks := strings.Fields(trace)
				if len(toks) >= 2 {
					if b, ok := dbase[toks[1]]; ok {
						if r := goMonitor(b, toks[2:], valsOf(goSpec(tr1, c.d.prim, c.effSrc())), notU); r != "" {
							fail("dstream", where+":"+r)
						}
					}
				}
			case "stream", "ustream":
				toks := strings.Fields(trace)
				if len(toks) >= 2 {
					if b, ok := base[toks[1]]; ok {
						if r := goMonitor(b, toks[2:], valsOf(spec), notU); r != "" {
							fail("stream", where+":"+r)
						}
						if r := goMonitor(b, toks[2:], valsOf(spec), inU); r != "" {
							fail("f6:stream", where+":"+r)
						}
					}
				}
			}
		}
	})
	return verdict
}

func oracleOps(t *testing.T, opsPath, outPath string) {
	w := wire.Create(outPath)
	defer w.Close()
	for _, cs := range splitCases(wire.ReadLines(opsPath)) {
		head := cs[0]
		switch {
		case len(head) >= 4 && strings.HasPrefix(head[2], "joinx"):
			w.Line("OK")
		case len(head) >= 3 && strings.HasPrefix(head[2], "misc"):
			w.Line(oracleMiscCase(t, cs))
		case len(head) >= 3 && strings.HasPrefix(head[2], "idxc"):
			w.Line(oracleIdxcCase(t, cs))
		case len(head) >= 3 && strings.HasPrefix(head[2], "inf"):
			w.Line(oracleInfCase(t, cs))
		case len(head) >= 4 && strings.HasPrefix(head[2], "join"):
			w.Line(oracleJoinCase(t, cs))
		case len(head) >= 3 && strings.HasPrefix(head[2], "mem"):
			w.Line(oracleMemCase(t, cs))
		default:
			w.Line(oracleCase(t, cs))
		}
		w.Flush()
	}
}
