package main

import (
	"fmt"
	"strings"
	"testing"
	"testing/synctest"

	corev1 "k8s.io/api/core/v1"
)

// Go-side evaluation of the property on the streams misc, idxc and inf (second line, independent of the
// Lean side): the specification of every collection is recomputed here from mirrors of the inputs that
// are kept from the ops alone, and every subscriber's stream is replayed by goMonitor.

type verdictT struct{ v string }

func (v *verdictT) fail(clause, detail string) {
	if v.v == "OK" {
		v.v = "FAIL " + clause + " " + detail
	}
}

func outMap(outs []Out) (map[string]string, bool) {
	m := map[string]string{}
	dup := false
	for _, o := range outs {
		if _, f := m[o.Key]; f {
			dup = true
		}
		m[o.Key] = o.Val
	}
	return m, dup
}

func copyMap(m map[string]string) map[string]string {
	c := map[string]string{}
	for k, v := range m {
		c[k] = v
	}
	return c
}

// oracleMiscCase: NewStaticCollection(initial values), NewStatic.Set, FetchOne, index.Fetch,
// PartialFetchComparable, UnregisterHandler. Inputs whose result is discarded (DiscardResult) are left to the
// Lean side: once the case has discarded, keys of inputs named `c` are not judged here.
func oracleMiscCase(t *testing.T, lines [][]string) string {
	vd := &verdictT{"OK"}
	synctest.Test(t, func(t *testing.T) {
		var r *miscRun
		defer func() {
			if x := recover(); x != nil {
				vd.fail("crash", "panic")
			}
			if r != nil {
				r.close()
			}
			synctest.Wait()
		}()
		r = newMiscRun().(*miscRun)
		sec, third := map[string]Obj{}, map[string]Obj{}
		ever := false
		base := map[string]map[string]string{}
		xbase := map[string]map[string]string{}
		dead := map[string]bool{}
		spec := func() map[string]string {
			m := map[string]string{}
			for k, i := range r.primM {
				cs, ps := "-", "-"
				if r.cfgVal != nil {
					cs = r.cfgVal.NS + "/" + r.cfgVal.Name + ":" + r.cfgVal.Val
				}
				var hits []Obj
				for _, o := range sec {
					if o.Val == i.Val {
						hits = append(hits, o)
					}
				}
				if o, f := third[i.Ref]; f {
					ps = o.NS + "." + o.Labels["l1"]
				}
				m[k] = i.NS + "|" + i.NS + "/" + i.Name + ":" + i.Val + "|cfg=" + cs + "|" + renderFetch(hits) + "|p=" + ps
			}
			return m
		}
		cfgSpec := func() map[string]string {
			if r.cfgVal == nil {
				return map[string]string{}
			}
			return map[string]string{r.cfgVal.NS + "/" + r.cfgVal.Name: r.cfgVal.Token()}
		}
		for n, l := range lines[1:] {
			where := fmt.Sprintf("op%d", n+1)
			if len(l) == 2 {
				switch l[0] {
				case "s.set":
					if o, ok := parseObj(l[1]); ok {
						sec[o.ResourceName()] = o
					}
				case "s.del":
					delete(sec, l[1])
				case "t.set":
					if o, ok := parseObj(l[1]); ok {
						third[o.ResourceName()] = o
					}
				case "t.del":
					delete(third, l[1])
				}
			}
			if l[0] == "xsub" && len(l) == 3 {
				if l[2] == "nostate" {
					xbase[l[1]] = cfgSpec()
				} else {
					xbase[l[1]] = map[string]string{}
				}
			}
			_, trace := r.step(l)
			if r.discarding() {
				ever = true
			}
			keep := func(k string) bool { return !(ever && strings.HasSuffix(k, "/c")) }
			if l[0] == "sub" && len(l) == 3 && r.der != nil {
				if l[2] == "nostate" {
					base[l[1]] = spec()
				} else {
					base[l[1]] = map[string]string{}
				}
			}
			if l[0] == "unsub" && len(l) == 2 {
				dead[l[1]] = true
			}
			if r.der == nil {
				continue
			}
			switch l[0] {
			case "list":
				real, dup := outMap(r.der.List())
				if d := diffMaps(real, spec(), keep); d != "" || dup {
					vd.fail("list", where+":"+d)
				}
			case "get":
				if len(l) == 2 && keep(l[1]) {
					o := r.der.GetKey(l[1])
					s, has := spec()[l[1]]
					if (o == nil) == has || (o != nil && o.Val != s) {
						vd.fail("get", where+":"+l[1])
					}
				}
			case "stream":
				toks := strings.Fields(trace)
				if b, ok := base[toks[1]]; ok && !dead[toks[1]] {
					if x := goMonitor(b, toks[2:], spec(), keep); x != "" {
						vd.fail("stream", where+":"+x)
					}
				}
			case "xstream":
				toks := strings.Fields(trace)
				keyChange := false
				for _, e := range toks[2:] {
					if strings.HasPrefix(e, "X~update-key-change") { // NewStatic.Set with another key: left to the Lean side
						keyChange = true
					}
				}
				if sb := r.xsubs[toks[1]]; sb != nil && sb.unreg {
					continue
				}
				if b, ok := xbase[toks[1]]; ok && !keyChange {
					if x := goMonitor(b, toks[2:], cfgSpec(), all); x != "" {
						vd.fail("xstream", where+":"+x)
					}
				}
			}
		}
	})
	return vd.v
}

// oracleIdxcCase: index.AsCollection of a multi-key index and the collection grouped by it.
func oracleIdxcCase(t *testing.T, lines [][]string) string {
	vd := &verdictT{"OK"}
	synctest.Test(t, func(t *testing.T) {
		var r *idxcRun
		defer func() {
			if x := recover(); x != nil {
				vd.fail("crash", "panic")
			}
			if r != nil {
				r.close()
			}
			synctest.Wait()
		}()
		r = newIdxcRun().(*idxcRun)
		prim := map[string]Obj{}
		base := map[string]map[string]string{}
		spec := func() map[string]string {
			groups := map[string][]Obj{}
			for _, o := range prim {
				for _, k := range dedup(o.Outs) {
					groups[k] = append(groups[k], o)
				}
			}
			m := map[string]string{}
			for k, g := range groups {
				m[k] = renderFetch(g)
			}
			return m
		}
		for n, l := range lines[1:] {
			where := fmt.Sprintf("op%d", n+1)
			switch {
			case l[0] == "p.set" && len(l) == 2:
				if o, ok := parseObj(l[1]); ok {
					prim[o.ResourceName()] = o
				}
			case l[0] == "p.del" && len(l) == 2:
				delete(prim, l[1])
			case l[0] == "p.reset":
				prim = map[string]Obj{}
				for _, o := range parseObjs(l[1:]) { // a key that occurs twice: the later object
					prim[o.ResourceName()] = o
				}
			}
			_, trace := r.step(l)
			if l[0] == "sub" && len(l) == 3 && r.g != nil {
				if l[2] == "nostate" {
					base[l[1]] = spec()
				} else {
					base[l[1]] = map[string]string{}
				}
			}
			if r.g == nil {
				continue
			}
			switch l[0] {
			case "list":
				real, dup := outMap(r.g.List())
				if d := diffMaps(real, spec(), all); d != "" || dup {
					vd.fail("list", where+":"+d)
				}
				fetched, dup2 := outMap(r.h.List())
				if d := diffMaps(fetched, spec(), all); d != "" || dup2 {
					vd.fail("list", where+":FetchIndexObjects:"+d)
				}
			case "ilist":
				real := map[string]string{}
				for _, io := range r.ic.List() {
					real[io.Key.s] = renderGroup(io.Objects)
				}
				if d := diffMaps(real, spec(), all); d != "" {
					vd.fail("ilist", where+":"+d)
				}
			case "get", "iget":
				if len(l) == 2 {
					s, has := spec()[l[1]]
					got, found := "", false
					if l[0] == "get" {
						if o := r.g.GetKey(l[1]); o != nil {
							got, found = o.Val, true
						}
					} else if io := r.ic.GetKey(l[1]); io != nil {
						got, found = renderGroup(io.Objects), io.Key.s == l[1]
					}
					if found != has || got != s {
						vd.fail(l[0], where+":"+l[1])
					}
				}
			case "stream":
				toks := strings.Fields(trace)
				if b, ok := base[toks[1]]; ok {
					if x := goMonitor(b, toks[2:], spec(), all); x != "" {
						vd.fail("stream", where+":"+x)
					}
				}
			}
		}
	})
	return vd.v
}

// oracleInfCase: an informer-backed collection, its namespace index and a collection derived from it.
func oracleInfCase(t *testing.T, lines [][]string) string {
	vd := &verdictT{"OK"}
	synctest.Test(t, func(t *testing.T) {
		var r *infRun
		defer func() {
			if x := recover(); x != nil {
				vd.fail("crash", "panic")
			}
			if r != nil {
				r.close()
			}
			synctest.Wait()
		}()
		r = newInfRun(lines[0][3:]...).(*infRun)
		only1 := contains(lines[0][3:], "fn")
		all_ := map[string]string{} // what exists in the cluster; cms: what the (possibly filtered) informer holds
		cms := map[string]string{}
		base, ibase := map[string]map[string]string{}, map[string]map[string]string{}
		derSpec := func() map[string]string {
			m := map[string]string{}
			for k, v := range cms {
				m[k] = "d:" + v
				if ns, name, _ := strings.Cut(k, "/"); name == "a" {
					if _, f := cms[ns+"/b"]; f {
						m[k] += "+b"
					}
				}
			}
			return m
		}
		visible := func() {
			cms = map[string]string{}
			for k, v := range all_ {
				if !only1 || strings.HasPrefix(k, "n1/") {
					cms[k] = v
				}
			}
		}
		cmMap := func(l []*corev1.ConfigMap) (map[string]string, bool) {
			m := map[string]string{}
			dup := false
			for _, c := range l {
				k := c.Namespace + "/" + c.Name
				if _, f := m[k]; f {
					dup = true
				}
				m[k] = cmTok(c)
			}
			return m, dup
		}
		for n, l := range lines[1:] {
			where := fmt.Sprintf("op%d", n+1)
			impl, trace := r.step(l)
			switch {
			case l[0] == "k.create" && len(l) == 4:
				_, f := all_[l[1]+"/"+l[2]]
				if (impl == "ok") == f {
					vd.fail("api", where+":create:"+impl)
				}
				if impl == "ok" {
					all_[l[1]+"/"+l[2]] = l[3]
				}
				visible()
			case l[0] == "k.update" && len(l) == 4:
				_, f := all_[l[1]+"/"+l[2]]
				if (impl == "ok") != f {
					vd.fail("api", where+":update:"+impl)
				}
				if impl == "ok" {
					all_[l[1]+"/"+l[2]] = l[3]
				}
				visible()
			case l[0] == "k.delete" && len(l) == 3:
				if impl == "ok" {
					delete(all_, l[1]+"/"+l[2])
				}
				visible()
			case l[0] == "sub" && len(l) == 3:
				if l[2] == "nostate" {
					base[l[1]] = derSpec()
				} else {
					base[l[1]] = map[string]string{}
				}
			case l[0] == "isub" && len(l) == 3:
				// informer.go: "runExistingState is NOT respected" - the existing objects are always delivered
				ibase[l[1]] = map[string]string{}
			case l[0] == "list":
				real, dup := outMap(r.der.List())
				if d := diffMaps(real, derSpec(), all); d != "" || dup {
					vd.fail("list", where+":"+d)
				}
			case l[0] == "ilist":
				real, dup := cmMap(r.cms.List())
				if d := diffMaps(real, cms, all); d != "" || dup {
					vd.fail("ilist", where+":"+d)
				}
			case l[0] == "ilookup" && len(l) == 2:
				real, dup := cmMap(r.nsIdx.Lookup(l[1]))
				want := map[string]string{}
				for k, v := range cms {
					if strings.HasPrefix(k, l[1]+"/") {
						want[k] = v
					}
				}
				if d := diffMaps(real, want, all); d != "" || dup {
					vd.fail("lookup", where+":"+d)
				}
			case l[0] == "get" && len(l) == 2:
				o := r.der.GetKey(l[1])
				s, has := derSpec()[l[1]]
				if (o == nil) == has || (o != nil && o.Val != s) {
					vd.fail("get", where+":"+l[1])
				}
			case l[0] == "stream" || l[0] == "istream":
				toks := strings.Fields(trace)
				bs, final := base, derSpec()
				if l[0] == "istream" {
					bs, final = ibase, copyMap(cms)
				}
				if sb := r.isubs[toks[1]]; l[0] == "istream" && sb != nil && sb.unreg {
					continue
				}
				if b, ok := bs[toks[1]]; ok {
					if x := goMonitor(b, toks[2:], final, all); x != "" {
						vd.fail(l[0], where+":"+x)
					}
				}
			}
		}
	})
	return vd.v
}
