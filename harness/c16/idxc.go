package main

import (
	"fmt"
	"sort"
	"strings"
	"testing/synctest"

	"istio.io/istio/pkg/kube/krt"
	"verifharness/internal/wire"
)

// idxcRun: index.AsCollection() of a multi-key index (the outs of the objects) over a static collection,
// and a derived collection grouped by it (Lean: MiscDriver.lean, stepIdxc).
// tagKey: an index key that is not a string (krt turns it into one through fmt.Stringer; index.AsCollection
// needs WithIndexCollectionFromString to get back).
type tagKey struct{ s string }

func (t tagKey) String() string { return t.s }

type idxcRun struct {
	stop chan struct{}
	prim krt.StaticCollection[Obj]
	ic   krt.IndexCollection[tagKey, Obj]
	g    krt.Collection[Out]
	// the same grouping, from a fixed set of tags through krt.FetchIndexObjects (a FetchOne by key on the index
	// collection): must hold what `g` holds
	h    krt.Collection[Out]
	subs map[string]*subscriber
	// handlers on the index collection itself (only "nothing after UnregisterHandler" is judged)
	icsubs map[string]*subscriber
}

func (r *idxcRun) fetchedGroupsAgree() bool {
	all := func(string) bool { return true }
	return showEntries(r.g.List(), all) == showEntries(r.h.List(), all)
}

func newIdxcRun() runner {
	r := &idxcRun{stop: make(chan struct{}), subs: map[string]*subscriber{}, icsubs: map[string]*subscriber{}}
	r.prim = krt.NewStaticCollection[Obj](nil, nil, krt.WithStop(r.stop), krt.WithName("prim"))
	return r
}

func (r *idxcRun) close() { close(r.stop) }

func renderGroup(objs []Obj) string {
	seen := map[string]bool{}
	var u []Obj
	for _, o := range objs {
		if !seen[o.ResourceName()] {
			seen[o.ResourceName()] = true
			u = append(u, o)
		}
	}
	return renderFetch(u)
}

func (r *idxcRun) start() {
	if r.g != nil {
		return
	}
	idx := krt.NewIndex[tagKey, Obj](r.prim, "tags", func(o Obj) []tagKey {
		ks := make([]tagKey, len(o.Outs))
		for i, k := range o.Outs {
			ks[i] = tagKey{k}
		}
		return ks
	})
	r.ic = idx.AsCollection(krt.WithStop(r.stop), krt.WithName("tags"),
		krt.WithIndexCollectionFromString(func(s string) tagKey { return tagKey{s} }))
	r.g = krt.NewCollection[krt.IndexObject[tagKey, Obj], Out](r.ic, func(ctx krt.HandlerContext, io krt.IndexObject[tagKey, Obj]) *Out {
		return &Out{Key: io.Key.s, Val: renderGroup(io.Objects)}
	}, krt.WithStop(r.stop), krt.WithName("grouped"))
	var tags []Out
	for _, k := range outKeys {
		tags = append(tags, Out{Key: k})
	}
	tagC := krt.NewStaticCollection[Out](nil, tags, krt.WithStop(r.stop), krt.WithName("tagnames"))
	r.h = krt.NewCollection[Out, Out](tagC, func(ctx krt.HandlerContext, t Out) *Out {
		objs := krt.FetchIndexObjects[tagKey, Obj](ctx, r.ic, tagKey{t.Key})
		if len(objs) == 0 {
			return nil
		}
		return &Out{Key: t.Key, Val: renderGroup(objs)}
	}, krt.WithStop(r.stop), krt.WithName("fetched-groups"))
}

func (r *idxcRun) step(toks []string) (string, string) {
	line := strings.Join(toks, " ")
	switch {
	case toks[0] == "p.set" && len(toks) == 2:
		o, ok := parseObj(toks[1])
		if !ok {
			return "bad-op", line
		}
		r.prim.UpdateObject(o)
		return "ok", line
	case toks[0] == "p.del" && len(toks) == 2:
		r.prim.DeleteObject(toks[1])
		return "ok", line
	case toks[0] == "p.reset":
		r.prim.Reset(parseObjs(toks[1:]))
		return "ok", line
	case toks[0] == "start" && len(toks) == 1:
		r.start()
		return "ok", line
	case toks[0] == "sync" && len(toks) == 1:
		synctest.Wait()
		return "ok", line
	case toks[0] == "icsub" && len(toks) == 2:
		if r.g != nil {
			s := &subscriber{}
			r.icsubs[toks[1]] = s
			s.reg = r.ic.RegisterBatch(func(es []krt.Event[krt.IndexObject[tagKey, Obj]]) {
				for range es {
					s.add("e")
				}
			}, true)
		}
		return "ok", line
	case toks[0] == "icunsub" && len(toks) == 2:
		r.icsubs[toks[1]].unregister()
		return "ok", line
	case toks[0] == "sub" && len(toks) == 3:
		if r.g == nil {
			return "ok", line
		}
		s := &subscriber{}
		r.subs[toks[1]] = s
		switch toks[2] {
		case "single":
			r.g.Register(s.record)
		case "batch":
			r.g.RegisterBatch(recOut(s), true)
		default:
			synctest.Wait()
			r.g.RegisterBatch(recOut(s), false)
		}
		return "ok", line
	}
	if r.g == nil {
		return toks[0] + " not-started", line
	}
	synctest.Wait()
	switch {
	case toks[0] == "list" && len(toks) == 1:
		if !r.fetchedGroupsAgree() {
			return "list inconsistent:FetchIndexObjects", line
		}
		return "list " + showEntries(r.g.List(), all), line
	case toks[0] == "ilist" && len(toks) == 1:
		for _, s := range r.icsubs {
			if h := s.health(); h != "" {
				return "ilist " + h, line
			}
		}
		var outs []Out
		for _, io := range r.ic.List() {
			outs = append(outs, Out{Key: io.Key.s, Val: renderGroup(io.Objects)})
		}
		return "ilist " + showEntries(outs, all), line
	case toks[0] == "get" && len(toks) == 2:
		o := r.g.GetKey(toks[1])
		if o == nil {
			return "get none", line
		}
		return "get " + o.Val, line
	case toks[0] == "iget" && len(toks) == 2:
		io := r.ic.GetKey(toks[1])
		if io == nil {
			return "iget none", line
		}
		if io.Key.s != toks[1] {
			return "iget wrong-key", line
		}
		return "iget " + renderGroup(io.Objects), line
	case toks[0] == "stream" && len(toks) == 2:
		s := r.subs[toks[1]]
		if s == nil {
			return "stream unknown-subscriber", line
		}
		return "stream accept", strings.Join(append([]string{"stream", toks[1]}, s.snapshot()...), " ")
	}
	return "bad-op", line
}

func genIdxcCase(r *wire.Rng, n int, w *wire.Out) {
	w.Line("case", fmt.Sprint(n), "idxc")
	cur := map[string]Obj{}
	var subs []string
	set := func() {
		o := genObj(r, pnames)
		cur[o.ResourceName()] = o
		w.Line("p.set", o.Token())
	}
	for i, k := 0, r.Intn(5); i < k; i++ {
		set()
	}
	w.Line("start")
	nic, nicun := 0, 0
	queries := func() {
		w.Line("list")
		w.Line("ilist")
		for _, k := range outKeys {
			if r.Chance(50, 100) {
				w.Line("get", k)
			}
			if r.Chance(50, 100) {
				w.Line("iget", k)
			}
		}
		for _, s := range subs {
			w.Line("stream", s)
		}
	}
	for i, k := 0, 4+r.Intn(30); i < k; i++ {
		switch x := r.Intn(100); {
		case x < 50:
			set()
		case x < 68:
			ks := make([]string, 0, len(cur))
			for k := range cur {
				ks = append(ks, k)
			}
			sort.Strings(ks)
			if len(ks) > 0 {
				k := wire.Pick(r, ks)
				delete(cur, k)
				w.Line("p.del", k)
			}
		case x < 74:
			toks := []string{"p.reset"}
			nc := map[string]Obj{}
			ks := make([]string, 0, len(cur))
			for k := range cur {
				ks = append(ks, k)
			}
			sort.Strings(ks)
			for _, k := range ks {
				if r.Chance(60, 100) {
					o := cur[k]
					if r.Chance(50, 100) {
						o.Outs = genObj(r, pnames).Outs
					}
					nc[k] = o
					toks = append(toks, o.Token())
				}
			}
			cur = nc
			w.Line(withDuplicate(r, toks, false, true)...)
		case x < 82:
			w.Line("sync")
		case x < 92:
			name := fmt.Sprintf("s%d", len(subs)+1)
			subs = append(subs, name)
			w.Line("sub", name, wire.Pick(r, []string{"single", "batch", "batch", "nostate"}))
		case x < 95:
			if nic > nicun && r.Chance(50, 100) {
				nicun++
				w.Line("icunsub", fmt.Sprintf("c%d", nicun))
			} else {
				nic++
				w.Line("icsub", fmt.Sprintf("c%d", nic))
			}
		default:
			queries()
		}
	}
	queries()
}
