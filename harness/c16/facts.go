package main

import (
	"fmt"
	"go/ast"
	"go/parser"
	"go/token"
	"os"
	"path/filepath"
	"sort"
	"strings"
)

// Source-level facts about the krt collections, regenerated from the working tree on every run
// (T-gen): every call of `eventHandlers.Insert` (a subscriber is added, with the snapshot of the
// current contents as its initial events) and of `eventHandlers.Distribute` (a batch of events is
// delivered) in collection.go, static.go, join.go, mergejoin.go, nestedjoinmerge.go happens
//
//   - locked:   while the collection's own lock `<recv>.mu`, taken earlier in the same function, is held,
//   - oneSpan:  and that critical section is the only one the function has opened on the path to the call
//     (no Unlock / RUnlock followed by a second Lock / RLock: the state the events were computed from
//     cannot have changed),
//   - snapshot: for an Insert with initial events: the function reads the collection state
//     (`collectionState.outputs`, `processedState`, `vals`, `outputs`) inside that same critical section
//     and nowhere else before the call ("same-span"; "other-span": also read outside it; "no-read":
//     the snapshot comes from somewhere the extractor cannot see; "nil": no initial events).
//
// This is the atomicity assumption of `late_subscriber_accepted` / `reg_atomic_accepted`
// (Registration.lean): no batch can be applied between the snapshot and the insertion of the handler.
//
//	c16 table regfacts <out.lean>

type regFact struct {
	file, recv, method, callee string
	locked, oneSpan            bool
	snapshot                   string
	wlock                      bool // the critical section was opened with Lock(), not RLock()
}

// lockState: the critical section the walker is in (0: none), how many this path has opened, and whether the
// current one is a write lock.
type lockState struct {
	span, opened int
	write        bool
}

func mergeLock(a, b lockState) lockState {
	if a == b {
		return a
	}
	m := lockState{0, a.opened, false}
	if b.opened > m.opened {
		m.opened = b.opened
	}
	return m
}

// writeSuffixes: the state of a collection that only a writer may touch
var writeSuffixes = []string{".outputs", ".mappings", ".inputs", ".processedState", ".vals"}

func stateTarget(e ast.Expr) string {
	if ix, ok := e.(*ast.IndexExpr); ok {
		e = ix.X
	}
	p := selectorPath(e)
	for _, suf := range writeSuffixes {
		if strings.HasSuffix(p, suf) {
			return p[strings.Index(p, ".")+1:]
		}
	}
	return ""
}

func (w *lockWalker) noteWrite(target string, st lockState) {
	*w.facts = append(*w.facts, regFact{w.file, w.recv, w.method, "write " + target,
		st.span != 0, st.span != 0 && st.opened == 1, "-", st.span != 0 && st.write})
}

type lockWalker struct {
	facts  *[]regFact
	file   string
	recv   string
	method string
	nspan  int   // critical sections numbered so far in this function
	reads  []int // the critical section (0: none) of every read of the collection state so far
}

var stateSuffixes = []string{".outputs", ".processedState", ".vals"}

// selectorPath renders a.b.c for nested selector expressions ("" if not a pure path).
func selectorPath(e ast.Expr) string {
	switch x := e.(type) {
	case *ast.Ident:
		return x.Name
	case *ast.SelectorExpr:
		p := selectorPath(x.X)
		if p == "" {
			return ""
		}
		return p + "." + x.Sel.Name
	}
	return ""
}

// muCall reports a call <x>.mu.<name>() and the name.
func muCall(e ast.Expr) (string, bool) {
	c, ok := e.(*ast.CallExpr)
	if !ok {
		return "", false
	}
	p := selectorPath(c.Fun)
	parts := strings.Split(p, ".")
	if len(parts) == 3 && parts[1] == "mu" {
		return parts[2], true
	}
	return "", false
}

func (w *lockWalker) snapshotOf(c *ast.CallExpr, st lockState) string {
	if len(c.Args) >= 3 {
		if id, ok := c.Args[2].(*ast.Ident); ok && id.Name == "nil" {
			return "nil"
		}
	}
	same, other := false, false
	for _, sp := range w.reads {
		if sp != 0 && sp == st.span {
			same = true
		} else {
			other = true
		}
	}
	switch {
	case other:
		return "other-span"
	case same:
		return "same-span"
	}
	return "no-read"
}

// scanCalls records the Insert / Distribute calls and the reads of the collection state inside an
// expression or simple statement.
func (w *lockWalker) scanCalls(n ast.Node, st lockState) {
	if n == nil {
		return
	}
	ast.Inspect(n, func(x ast.Node) bool {
		switch c := x.(type) {
		case *ast.FuncLit:
			// a closure runs later, on its own: whatever it does is not under this function's lock
			w.block(c.Body.List, lockState{0, st.opened, false})
			return false
		case *ast.AssignStmt:
			for _, l := range c.Lhs {
				if t := stateTarget(l); t != "" {
					w.noteWrite(t, st)
				}
			}
		case *ast.SelectorExpr:
			p := selectorPath(c)
			for _, suf := range stateSuffixes {
				if strings.HasSuffix(p, suf) {
					w.reads = append(w.reads, st.span)
				}
			}
		case *ast.CallExpr:
			if id, ok := c.Fun.(*ast.Ident); ok && id.Name == "delete" && len(c.Args) == 2 {
				if t := stateTarget(c.Args[0]); t != "" {
					w.noteWrite(t, st)
				}
			}
			p := selectorPath(c.Fun)
			isInsert := strings.HasSuffix(p, ".eventHandlers.Insert")
			if isInsert || strings.HasSuffix(p, ".eventHandlers.Distribute") {
				snap := "-"
				if isInsert {
					snap = w.snapshotOf(c, st)
				}
				*w.facts = append(*w.facts, regFact{w.file, w.recv, w.method, p[strings.LastIndex(p, ".")+1:],
					st.span != 0, st.span != 0 && st.opened == 1, snap, st.span != 0 && st.write})
			}
		}
		return true
	})
}

func endsWithReturn(l []ast.Stmt) bool {
	if len(l) == 0 {
		return false
	}
	_, ok := l[len(l)-1].(*ast.ReturnStmt)
	return ok
}

// block walks a statement list with the lock state at its start and returns the state at its end.
func (w *lockWalker) block(l []ast.Stmt, locked lockState) lockState {
	for _, s := range l {
		switch st := s.(type) {
		case *ast.ExprStmt:
			if name, ok := muCall(st.X); ok {
				switch name {
				case "Lock", "RLock":
					w.nspan++
					locked = lockState{w.nspan, locked.opened + 1, name == "Lock"}
				case "Unlock", "RUnlock":
					locked.span = 0
				}
				continue
			}
			w.scanCalls(st, locked)
		case *ast.DeferStmt:
			if _, ok := muCall(st.Call); ok {
				continue // deferred unlock: the lock is held until the function returns
			}
			w.scanCalls(st.Call, lockState{0, locked.opened, false})
		case *ast.GoStmt:
			w.scanCalls(st.Call, lockState{0, locked.opened, false})
		case *ast.IfStmt:
			w.scanCalls(st.Init, locked)
			w.scanCalls(st.Cond, locked)
			nreads := len(w.reads)
			after := w.block(st.Body.List, locked)
			merged := locked
			if !endsWithReturn(st.Body.List) {
				merged = mergeLock(merged, after)
			} else {
				w.reads = w.reads[:nreads] // a branch that returns: its reads are not on the path that goes on
			}
			if st.Else != nil {
				var ea lockState
				var ret bool
				switch e := st.Else.(type) {
				case *ast.BlockStmt:
					ea = w.block(e.List, locked)
					ret = endsWithReturn(e.List)
				default:
					ea = w.block([]ast.Stmt{e}, locked)
				}
				if !ret {
					merged = mergeLock(merged, ea)
				}
			}
			locked = merged
		case *ast.ForStmt:
			locked = mergeLock(locked, w.block(st.Body.List, locked))
		case *ast.RangeStmt:
			w.scanCalls(st.X, locked)
			locked = mergeLock(locked, w.block(st.Body.List, locked))
		case *ast.BlockStmt:
			locked = w.block(st.List, locked)
		case *ast.SwitchStmt:
			for _, c := range st.Body.List {
				locked = mergeLock(locked, w.block(c.(*ast.CaseClause).Body, locked))
			}
		case *ast.TypeSwitchStmt:
			for _, c := range st.Body.List {
				locked = mergeLock(locked, w.block(c.(*ast.CaseClause).Body, locked))
			}
		case *ast.SelectStmt:
			for _, c := range st.Body.List {
				locked = mergeLock(locked, w.block(c.(*ast.CommClause).Body, locked))
			}
		default:
			w.scanCalls(s, locked)
		}
	}
	return locked
}

func recvName(fd *ast.FuncDecl) string {
	if fd.Recv == nil || len(fd.Recv.List) == 0 {
		return ""
	}
	t := fd.Recv.List[0].Type
	if s, ok := t.(*ast.StarExpr); ok {
		t = s.X
	}
	switch x := t.(type) {
	case *ast.Ident:
		return x.Name
	case *ast.IndexExpr:
		if id, ok := x.X.(*ast.Ident); ok {
			return id.Name
		}
	case *ast.IndexListExpr:
		if id, ok := x.X.(*ast.Ident); ok {
			return id.Name
		}
	}
	return ""
}

func regFacts(repo string) []regFact {
	var facts []regFact
	for _, f := range []string{"collection.go", "static.go", "join.go", "mergejoin.go", "nestedjoinmerge.go"} {
		fset := token.NewFileSet()
		file, err := parser.ParseFile(fset, filepath.Join(repo, "pkg/kube/krt", f), nil, 0)
		if err != nil {
			facts = append(facts, regFact{f, "parse-error", "-", "-", false, false, "-", false})
			continue
		}
		for _, d := range file.Decls {
			fd, ok := d.(*ast.FuncDecl)
			if !ok || fd.Body == nil {
				continue
			}
			recv := recvName(fd)
			if recv == "" {
				recv = "func" // no receiver: a constructor or helper
			}
			w := &lockWalker{facts: &facts, file: f, recv: recv, method: fd.Name.Name}
			w.block(fd.Body.List, lockState{})
		}
	}
	sort.Slice(facts, func(a, b int) bool {
		x, y := facts[a], facts[b]
		return x.file+x.recv+x.method+x.callee < y.file+y.recv+y.method+y.callee
	})
	return facts
}

func writeRegFacts(out string) {
	repo := os.Getenv("VERIF_REPO")
	if repo == "" {
		repo = "/repo"
	}
	facts := regFacts(repo)
	var b strings.Builder
	b.WriteString("/- generated by `c16 table regfacts` from " + "pkg/kube/krt of the checked tree; do not edit -/\n")
	b.WriteString("namespace IstioModel.Generated.C16\n\n")
	b.WriteString("/-- (file, receiver.method, callee, called while the collection lock taken in the function is held,\n")
	b.WriteString("    that critical section is the only one opened on the path to the call, where the snapshot is read,\n")
	b.WriteString("    the critical section is a WRITE lock). callee `write <field>`: an assignment to / delete from the state -/\n")
	b.WriteString("def regFacts : List (String × String × String × Bool × Bool × String × Bool) := [\n")
	for i, f := range facts {
		sep := ","
		if i == len(facts)-1 {
			sep = ""
		}
		fmt.Fprintf(&b, "  (%q, %q, %q, %v, %v, %q, %v)%s\n", f.file, f.recv+"."+f.method, f.callee, f.locked, f.oneSpan, f.snapshot, f.wlock, sep)
	}
	b.WriteString("]\n\nend IstioModel.Generated.C16\n")
	if err := os.WriteFile(out, []byte(b.String()), 0o644); err != nil {
		fmt.Fprintln(os.Stderr, err)
		os.Exit(2)
	}
}
