package main

import (
	"sort"
	"strconv"
	"strings"
)

// Obj is the object type of both source collections.  Lean: IstioModel.C16.Obj.
type Obj struct {
	NS, Name string
	Labels   map[string]string
	// LabelsNil: Labels is a nil map (token `nil`); krt.FilterSelects(nil) does not filter at all
	LabelsNil bool
	Sel       map[string]string
	Outs      []string
	Ref       string
	Val       string
}

func (o Obj) ResourceName() string                { return o.NS + "/" + o.Name }
func (o Obj) GetName() string                     { return o.Name }
func (o Obj) GetNamespace() string                { return o.NS }
func (o Obj) GetLabels() map[string]string        { return o.Labels }
func (o Obj) GetLabelSelector() map[string]string { return o.Sel }

// Equals makes krt.Equal independent of nil-vs-empty maps (only used by StaticCollection.Reset).
func (o Obj) Equals(p Obj) bool { return o.Token() == p.Token() }

func pairs(m map[string]string) string {
	ks := make([]string, 0, len(m))
	for k := range m {
		ks = append(ks, k)
	}
	sort.Strings(ks)
	out := make([]string, len(ks))
	for i, k := range ks {
		out[i] = k + "=" + m[k]
	}
	return strings.Join(out, ",")
}

// Token renders `ns;name;labels;sel;outs;ref;val`.
func (o Obj) Token() string {
	lbl := pairs(o.Labels)
	if o.LabelsNil {
		lbl = "nil"
	}
	return strings.Join([]string{o.NS, o.Name, lbl, pairs(o.Sel), strings.Join(o.Outs, ","), o.Ref, o.Val}, ";")
}

func splitNE(s, sep string) []string {
	var out []string
	for _, p := range strings.Split(s, sep) {
		if p != "" {
			out = append(out, p)
		}
	}
	return out
}

func parsePairs(s string) map[string]string {
	m := map[string]string{}
	for _, kv := range splitNE(s, ",") {
		p := strings.SplitN(kv, "=", 2)
		if len(p) == 2 {
			m[p[0]] = p[1]
		} else {
			m[p[0]] = ""
		}
	}
	return m
}

func parseObj(t string) (Obj, bool) {
	f := strings.Split(t, ";")
	if len(f) != 7 {
		return Obj{}, false
	}
	if f[2] == "nil" {
		return Obj{NS: f[0], Name: f[1], LabelsNil: true, Sel: parsePairs(f[3]), Outs: splitNE(f[4], ","), Ref: f[5], Val: f[6]}, true
	}
	return Obj{NS: f[0], Name: f[1], Labels: parsePairs(f[2]), Sel: parsePairs(f[3]), Outs: splitNE(f[4], ","), Ref: f[5], Val: f[6]}, true
}

// Out is the object type of the derived collection.  Compared by krt with reflect.DeepEqual.
type Out struct {
	Key string
	NS  string
	Val string
}

func (o Out) ResourceName() string { return o.Key }

// Atom kinds of a fetch filter.  Lean: FAtom.
type Atom struct {
	Kind string // key selects selectsNE label nsIndex valIndex outIndex keys objName generic
	N    int
}

type Transform struct {
	Multi bool
	// ByVal: one-to-one, output key = "val/" + input.Val (not the input's key: it moves between parents)
	ByVal   bool
	Gate    bool
	Fetches [][]Atom
	// chainSuffix: the observed collection is chained behind the derived one (oracle only)
	chainSuffix bool
}

func (t Transform) Token() string {
	b := func(x bool) string {
		if x {
			return "1"
		}
		return "0"
	}
	var fs []string
	for _, f := range t.Fetches {
		var as []string
		for _, a := range f {
			if a.Kind == "generic" {
				as = append(as, "g"+strconv.Itoa(a.N))
			} else {
				as = append(as, a.Kind)
			}
		}
		fs = append(fs, strings.Join(as, "+"))
	}
	m := b(t.Multi)
	if t.ByVal && !t.Multi {
		m = "2"
	}
	return m + ":" + b(t.Gate) + ":" + strings.Join(fs, ";")
}

func parseTransform(t string) (Transform, bool) {
	p := strings.Split(t, ":")
	if len(p) != 3 {
		return Transform{}, false
	}
	tr := Transform{Multi: p[0] == "1", ByVal: p[0] == "2", Gate: p[1] == "1"}
	for _, f := range splitNE(p[2], ";") {
		var as []Atom
		for _, a := range splitNE(f, "+") {
			switch {
			case a == "key" || a == "selects" || a == "selectsNE" || a == "label" || a == "nsIndex" || a == "valIndex" || a == "outIndex" || a == "nokeys" || a == "nilkeys" || a == "keys" || a == "objName":
				as = append(as, Atom{Kind: a})
			case strings.HasPrefix(a, "g"):
				if n, err := strconv.Atoi(a[1:]); err == nil {
					as = append(as, Atom{Kind: "generic", N: n})
				}
			}
		}
		tr.Fetches = append(tr.Fetches, as)
	}
	return tr, true
}

// claims: the output keys an input can produce, whatever it fetches (Lean: claimsOf = outKeys). For the
// key-preserving one-to-one shape the only claim is the input's own key, which no other input can claim.
func claims(t Transform, o Obj) []string {
	switch {
	case t.Multi:
		return dedup(o.Outs)
	case t.ByVal:
		return []string{"val/" + o.Val}
	}
	return nil
}

var bigVals = []string{"v1", "v2", "v3", "v4", "v5", "v6", "v7"}

// keepClaims restricts the claims of o to the keys ok accepts: a one-to-many input drops the other output
// keys, a one-to-one input keyed by its value takes another value (a value of its own when none is free).
func keepClaims(t Transform, o Obj, ok func(k string) bool) Obj {
	switch {
	case t.Multi:
		var keep []string
		for _, k := range o.Outs {
			if ok(k) {
				keep = append(keep, k)
			}
		}
		o.Outs = keep
	case t.ByVal:
		if !ok("val/" + o.Val) {
			o.Val = "own-" + strings.ReplaceAll(o.ResourceName(), "/", "-") // nobody else uses it
			for _, v := range bigVals {
				if ok("val/" + v) {
					o.Val = v
					break
				}
			}
		}
	}
	return o
}

// outKeyOf: the key looked up in the multi-key index (extractor: o.Outs), chosen by the input's value.
func outKeyOf(i Obj) string {
	switch i.Val {
	case "v1":
		return "k1"
	case "v2":
		return "k2"
	case "v3":
		return "k3"
	}
	return "k4"
}

func genericPred(n int, i, o Obj) bool {
	switch n % 3 {
	case 0:
		return o.Val == i.Val
	case 1:
		return o.Name == i.Name
	default:
		return len(o.Outs) > 0
	}
}

func dedup(l []string) []string {
	// keeps the last occurrence of every element, in order (Lean: dedupS)
	seen := map[string]bool{}
	var rev []string
	for i := len(l) - 1; i >= 0; i-- {
		if !seen[l[i]] {
			seen[l[i]] = true
			rev = append(rev, l[i])
		}
	}
	for i, j := 0, len(rev)-1; i < j; i, j = i+1, j-1 {
		rev[i], rev[j] = rev[j], rev[i]
	}
	return rev
}

func contains(l []string, x string) bool {
	for _, y := range l {
		if y == x {
			return true
		}
	}
	return false
}
