package main

import (
	"context"
	"fmt"
	"sort"
	"strings"
	"testing/synctest"
	"time"

	corev1 "k8s.io/api/core/v1"
	kerrors "k8s.io/apimachinery/pkg/api/errors"
	metav1 "k8s.io/apimachinery/pkg/apis/meta/v1"

	"istio.io/istio/pkg/kube"
	"istio.io/istio/pkg/kube/krt"
	"istio.io/istio/pkg/kube/kubetypes"
	"verifharness/internal/wire"
)

// infRun: an informer-backed collection on the fake kube client (pkg/kube/krt/informer.go): ConfigMaps
// created / updated / deleted through the clientset, krt.NewInformer, its namespace index, subscribers
// on it and on a derived collection.  Lean: MiscDriver.lean, stepInf.
type infRun struct {
	stop   chan struct{}
	client kube.Client
	cms    krt.Collection[*corev1.ConfigMap]
	nsIdx  krt.Index[string, *corev1.ConfigMap]
	der    krt.Collection[Out]
	subs   map[string]*subscriber
	isubs  map[string]*subscriber
}

func (r *infRun) quiesce() {
	// the informer machinery also uses timers: let the (fake) clock advance, then wait for quiescence
	time.Sleep(50 * time.Millisecond)
	synctest.Wait()
}

func newInfRun(flags ...string) runner {
	r := &infRun{stop: make(chan struct{}), subs: map[string]*subscriber{}, isubs: map[string]*subscriber{}}
	r.client = kube.NewFakeClient()
	if contains(flags, "fn") {
		// a filtered informer: only namespace n1 reaches the collection
		r.cms = krt.NewFilteredInformer[*corev1.ConfigMap](r.client, kubetypes.Filter{Namespace: "n1"}, krt.WithStop(r.stop), krt.WithName("configmaps"))
	} else {
		r.cms = krt.NewInformer[*corev1.ConfigMap](r.client, krt.WithStop(r.stop), krt.WithName("configmaps"))
	}
	r.nsIdx = krt.NewNamespaceIndex(r.cms)
	r.der = krt.NewCollection(r.cms, func(ctx krt.HandlerContext, cm *corev1.ConfigMap) *Out {
		val := "d:" + cm.Data["v"]
		if cm.Name == "a" && krt.ResourceExists(ctx, r.cms, cm.Namespace+"/b") {
			val += "+b"
		}
		return &Out{Key: cm.Namespace + "/" + cm.Name, NS: cm.Namespace, Val: val}
	}, krt.WithStop(r.stop), krt.WithName("derived"))
	r.client.RunAndWait(r.stop)
	r.quiesce()
	return r
}

func (r *infRun) close() {
	close(r.stop)
	r.client.Shutdown()
	time.Sleep(time.Second)
}

func cmTok(cm *corev1.ConfigMap) string { return cm.Data["v"] }

func recCM(s *subscriber) func(es []krt.Event[*corev1.ConfigMap]) {
	return func(es []krt.Event[*corev1.ConfigMap]) {
		for _, e := range es {
			s.add(evToken(e, cmTok))
		}
	}
}

func kerr(err error) string {
	switch {
	case err == nil:
		return "ok"
	case kerrors.IsAlreadyExists(err):
		return "exists"
	case kerrors.IsNotFound(err):
		return "notfound"
	}
	return "error"
}

func (r *infRun) step(toks []string) (string, string) {
	line := strings.Join(toks, " ")
	api := func(ns string) interface {
		Create(context.Context, *corev1.ConfigMap, metav1.CreateOptions) (*corev1.ConfigMap, error)
		Update(context.Context, *corev1.ConfigMap, metav1.UpdateOptions) (*corev1.ConfigMap, error)
		Delete(context.Context, string, metav1.DeleteOptions) error
	} {
		return r.client.Kube().CoreV1().ConfigMaps(ns)
	}
	cm := func(ns, name, val string) *corev1.ConfigMap {
		return &corev1.ConfigMap{ObjectMeta: metav1.ObjectMeta{Name: name, Namespace: ns}, Data: map[string]string{"v": val}}
	}
	switch {
	case toks[0] == "k.create" && len(toks) == 4:
		_, err := api(toks[1]).Create(context.Background(), cm(toks[1], toks[2], toks[3]), metav1.CreateOptions{})
		return kerr(err), line
	case toks[0] == "k.update" && len(toks) == 4:
		_, err := api(toks[1]).Update(context.Background(), cm(toks[1], toks[2], toks[3]), metav1.UpdateOptions{})
		return kerr(err), line
	case toks[0] == "k.delete" && len(toks) == 3:
		return kerr(api(toks[1]).Delete(context.Background(), toks[2], metav1.DeleteOptions{})), line
	case toks[0] == "sync" && len(toks) == 1:
		r.quiesce()
		return "ok", line
	case (toks[0] == "sub" || toks[0] == "isub") && len(toks) == 3:
		s := &subscriber{}
		// always at a quiescent point: the first ResourceExists of a transformation registers a dependency on the
		// informer and polls (sleeping, under the collection lock) until that handler has synced; a root goroutine
		// blocked on that lock is not "durably blocked", so the fake clock of the bubble would never move
		r.quiesce()
		if toks[0] == "sub" {
			r.subs[toks[1]] = s
			switch toks[2] {
			case "single":
				s.reg = r.der.Register(s.record)
			case "batch":
				s.reg = r.der.RegisterBatch(recOut(s), true)
			default:
				s.reg = r.der.RegisterBatch(recOut(s), false)
			}
		} else {
			r.isubs[toks[1]] = s
			switch toks[2] {
			case "single":
				s.reg = r.cms.Register(func(e krt.Event[*corev1.ConfigMap]) { recCM(s)([]krt.Event[*corev1.ConfigMap]{e}) })
			case "batch":
				s.reg = r.cms.RegisterBatch(recCM(s), true)
			default:
				s.reg = r.cms.RegisterBatch(recCM(s), false)
			}
		}
		return "ok", line
	case toks[0] == "iunsub" && len(toks) == 2:
		if s := r.isubs[toks[1]]; s != nil && s.reg != nil && !s.unreg {
			r.quiesce()
			s.reg.UnregisterHandler() // on an informer's registration
			r.quiesce()
			s.unreg, s.frozen = true, len(s.snapshot())
		}
		return "ok", line
	}
	r.quiesce()
	showCMs := func(l []*corev1.ConfigMap) string {
		outs := make([]Out, 0, len(l))
		for _, c := range l {
			outs = append(outs, Out{Key: c.Namespace + "/" + c.Name, Val: cmTok(c)})
		}
		return showEntries(outs, all)
	}
	switch {
	case toks[0] == "list" && len(toks) == 1:
		return "list " + showEntries(r.der.List(), all), line
	case toks[0] == "ilist" && len(toks) == 1:
		return "ilist " + showCMs(r.cms.List()), line
	case toks[0] == "get" && len(toks) == 2:
		o := r.der.GetKey(toks[1])
		if o == nil {
			return "get none", line
		}
		return "get " + o.Val, line
	case toks[0] == "ilookup" && len(toks) == 2:
		return "ilookup " + showCMs(r.nsIdx.Lookup(toks[1])), line
	case (toks[0] == "stream" || toks[0] == "istream") && len(toks) == 2:
		m := r.subs
		if toks[0] == "istream" {
			m = r.isubs
		}
		s := m[toks[1]]
		if s == nil {
			return toks[0] + " unknown-subscriber", line
		}
		if h := s.health(); h != "" {
			return toks[0] + " " + h, strings.Join(append([]string{toks[0], toks[1]}, s.snapshot()...), " ")
		}
		return toks[0] + " accept", strings.Join(append([]string{toks[0], toks[1]}, s.snapshot()...), " ")
	}
	return "bad-op", line
}

func genInfCase(r *wire.Rng, n int, w *wire.Out) {
	if r.Chance(30, 100) {
		w.Line("case", fmt.Sprint(n), "inf", "fn") // NewFilteredInformer: namespace n1 only
	} else {
		w.Line("case", fmt.Sprint(n), "inf")
	}
	cur := map[string]bool{}
	var subs, isubs []string
	iunsubbed := 0
	queries := func() {
		w.Line("list")
		w.Line("ilist")
		for _, ns := range nss {
			w.Line("ilookup", ns)
		}
		for _, ns := range nss {
			for _, nm := range pnames {
				if r.Chance(30, 100) {
					w.Line("get", ns+"/"+nm)
				}
			}
		}
		for _, s := range subs {
			w.Line("stream", s)
		}
		for _, s := range isubs {
			w.Line("istream", s)
		}
	}
	for i, k := 0, 4+r.Intn(30); i < k; i++ {
		ns, nm := wire.Pick(r, nss), wire.Pick(r, pnames)
		if len(cur) > 0 && r.Chance(50, 100) {
			ks := make([]string, 0, len(cur))
			for k := range cur {
				ks = append(ks, k)
			}
			sort.Strings(ks)
			p := strings.SplitN(wire.Pick(r, ks), "/", 2)
			ns, nm = p[0], p[1]
		}
		switch x := r.Intn(100); {
		case x < 28:
			w.Line("k.create", ns, nm, wire.Pick(r, vals))
			cur[ns+"/"+nm] = true
		case x < 55:
			w.Line("k.update", ns, nm, wire.Pick(r, vals))
		case x < 70:
			w.Line("k.delete", ns, nm)
			delete(cur, ns+"/"+nm)
		case x < 78:
			w.Line("sync")
		case x < 86:
			name := fmt.Sprintf("s%d", len(subs)+1)
			subs = append(subs, name)
			w.Line("sub", name, wire.Pick(r, []string{"single", "batch", "nostate"}))
		case x < 94:
			name := fmt.Sprintf("i%d", len(isubs)+1)
			isubs = append(isubs, name)
			w.Line("isub", name, wire.Pick(r, []string{"single", "batch", "nostate"}))
		case x < 96 && len(isubs) > iunsubbed:
			w.Line("iunsub", isubs[iunsubbed])
			iunsubbed++
		default:
			queries()
		}
	}
	queries()
}
