package main

import (
	"fmt"
	"sort"
	"strconv"
	"strings"

	"verifharness/internal/wire"
)

// genJoinCase writes one case of the join streams. Stream `join` keeps the barrier discipline (a key
// is changed by one sub-collection at a time between barriers while subscribers exist); `joinr` does not.
func genJoinCase(r *wire.Rng, n int, stream string, w *wire.Out) {
	racy := stream == "joinr" || stream == "joinm" || strings.HasPrefix(stream, "joinn") // joinm/joinn: no per-key discipline needed
	ncols := 2 + r.Intn(2)
	head := []string{"case", fmt.Sprint(n), stream, strconv.Itoa(ncols)}
	if stream == "joinr" || stream == "joinnr" {
		head = append(head, "jr")
	}
	unchecked := false
	if r.Chance(30, 100) {
		head = append(head, "jd")
	}
	if !racy && r.Chance(20, 100) {
		head = append(head, "ju")
		unchecked = true
	}
	// js: one joined collection is a krt.NewStatic singleton holding key n1/s or nothing
	js, si := false, 0
	if (stream == "join" || stream == "joinr") && !unchecked && r.Chance(15, 100) {
		head = append(head, "js")
		js, si = true, n%ncols
	}
	// unchecked joins need disjoint keys: every key belongs to one collection
	owner := func(k string) int {
		h := 0
		for _, c := range k {
			h = h*31 + int(c)
		}
		return h % ncols
	}
	jr := newJoinRunState(ncols, stream == "joinr")
	nested := strings.HasPrefix(stream, "joinn")
	jr.merge = stream == "joinm" || nested
	var lines []string
	emit := func(toks ...string) { lines = append(lines, strings.Join(toks, " ")) }
	emit(head...)
	var subs []string
	unsubbed := 0
	nsub := 0
	mkObj := func() Obj {
		o := Obj{NS: wire.Pick(r, nss), Name: wire.Pick(r, pnames), Labels: genLabels(r, 30), Val: wire.Pick(r, vals)}
		if js && r.Chance(25, 100) { // the singleton's key, also in the other collections
			o.NS, o.Name = "n1", "s"
		}
		return o
	}
	// safe reports whether sub-collection i may change key k now without making it unsafe
	safe := func(k string, i int) bool {
		if racy || !jr.started {
			return true
		}
		l := jr.touched[k]
		return len(l) == 0 || (len(l) == 1 && l[0] == i) || jr.nsubs == 0 && false
	}
	set := func(i int, o Obj) {
		if unchecked {
			i = owner(o.ResourceName())
		}
		if js && i == si {
			o.NS, o.Name = "n1", "s"
		}
		jr.touch(o.ResourceName(), i)
		jr.state[i][o.ResourceName()] = o
		emit("c.set", strconv.Itoa(i), o.Token())
	}
	del := func(i int, k string) {
		if unchecked {
			i = owner(k)
		}
		if js && i == si {
			k = "n1/s"
		}
		if _, f := jr.state[i][k]; f {
			jr.touch(k, i)
			delete(jr.state[i], k)
		}
		emit("c.del", strconv.Itoa(i), k)
	}
	queries := func() {
		jr.barrier()
		emit("list")
		for _, ns := range nss {
			for _, nm := range pnames {
				if r.Chance(40, 100) {
					emit("get", ns+"/"+nm)
				}
			}
		}
		if js {
			emit("get", "n1/s")
		}
		for _, ns := range nss {
			if !js {
				emit("lookup", ns)
			}
		}
		for _, v := range vals {
			if !js {
				emit("vlookup", v)
			}
		}
		for _, s := range subs {
			emit("stream", s)
		}
		if stream == "joinr" || stream == "joinnr" {
			emit("ulist")
			for _, ns := range nss {
				if !js {
					emit("ulookup", ns)
				}
			}
			for _, s := range subs {
				emit("ustream", s)
			}
		}
	}
	addSub := func(kind string) {
		if !racy && kind != "nostate" && len(jr.multi()) > 0 {
			jr.barrier()
			emit("sync")
		}
		if kind == "nostate" {
			jr.barrier()
		}
		jr.addUnsafe(jr.multi())
		jr.nsubs++
		nsub++
		name := fmt.Sprintf("s%d", nsub)
		emit("sub", name, kind)
		subs = append(subs, name)
	}
	for i, k := 0, r.Intn(7); i < k; i++ {
		set(r.Intn(ncols), mkObj())
	}
	if nested {
		for i := 0; i < ncols; i++ {
			if r.Chance(60, 100) {
				emit("o.add", strconv.Itoa(i))
			}
		}
	}
	emit("start")
	jr.startState()
	for i, k := 0, r.Intn(3); i < k; i++ {
		addSub(wire.Pick(r, []string{"single", "batch"}))
	}
	nops := 3 + r.Intn(35)
	for i := 0; i < nops; i++ {
		x := r.Intn(100)
		if nested && r.Chance(15, 100) {
			// the outer collection changes between quiescent points only (see notes: F13)
			if stream == "joinnr" { // F13: the outer collection changes while events are in flight
				emit(wire.Pick(r, []string{"o.add", "o.add", "o.del", "o.touch"}), strconv.Itoa(r.Intn(ncols)))
				continue
			}
			emit("sync")
			emit(wire.Pick(r, []string{"o.add", "o.add", "o.del", "o.touch"}), strconv.Itoa(r.Intn(ncols)))
			emit("sync")
			continue
		}
		switch {
		case x < 45:
			o := mkObj()
			c := r.Intn(ncols)
			if js && c == si {
				o.NS, o.Name = "n1", "s"
			}
			if !safe(o.ResourceName(), c) {
				if r.Chance(50, 100) {
					jr.barrier()
					emit("sync")
				} else {
					continue
				}
			}
			set(c, o)
		case x < 50: // no-op update
			c := r.Intn(ncols)
			ks := make([]string, 0)
			for k := range jr.state[c] {
				ks = append(ks, k)
			}
			sort.Strings(ks)
			if len(ks) > 0 {
				k := wire.Pick(r, ks)
				if safe(k, c) {
					set(c, jr.state[c][k])
				}
			}
		case x < 70:
			c := r.Intn(ncols)
			k := wire.Pick(r, nss) + "/" + wire.Pick(r, pnames)
			if js && (c == si || r.Chance(20, 100)) {
				k = "n1/s"
			}
			if !safe(k, c) {
				if r.Chance(50, 100) {
					jr.barrier()
					emit("sync")
				} else {
					continue
				}
			}
			del(c, k)
		case x < 80:
			jr.barrier()
			emit("sync")
		case x < 86:
			addSub(wire.Pick(r, []string{"single", "batch", "batch", "nostate"}))
		case x < 88:
			if unsubbed < len(subs) {
				jr.barrier()
				emit("junsub", subs[unsubbed])
				unsubbed++
			}
		case x < 92:
			queries()
		default: // the same key changes in two sub-collections back to back
			if racy {
				o := mkObj()
				a := r.Intn(ncols)
				b := (a + 1 + r.Intn(ncols-1)) % ncols
				if r.Chance(50, 100) {
					set(a, o)
				} else {
					del(a, o.ResourceName())
				}
				if r.Chance(50, 100) {
					o.Val = wire.Pick(r, vals)
					set(b, o)
				} else {
					del(b, o.ResourceName())
				}
			}
		}
	}
	queries()
	for _, l := range lines {
		w.Line(l)
	}
}

// newJoinRunState builds only the discipline bookkeeping of a joinRun (no krt objects).
func newJoinRunState(n int, flagged bool) *joinRun {
	r := &joinRun{flagged: flagged, touched: map[string][]int{}, subs: map[string]*subscriber{}}
	for i := 0; i < n; i++ {
		r.state = append(r.state, map[string]Obj{})
	}
	return r
}

func (r *joinRun) startState() {
	r.started = true
	r.unsafeK = nil
	r.touched = map[string][]int{}
	if r.merge {
		return
	}
	for i, m := range r.state {
		for k := range m {
			r.touched[k] = append(r.touched[k], i)
		}
	}
}
