package main

import (
	"fmt"
	"sort"
	"strings"
	"testing/synctest"

	"istio.io/istio/pkg/kube/krt"
	"verifharness/internal/wire"
)

// exactRun: the real derived collection, one source change at a time with a barrier after each; the
// Lean side runs the runtime model (Model.lean) on the same history and must print the same events,
// contents and index lookups at every step.  Lean: ExactDriver.lean.
type exactRun struct {
	c    *caseRun
	sub  *subscriber
	seen int
}

func newExactRun(head []string) runner {
	tr, ok := parseTransform(head[3])
	if !ok {
		return nil
	}
	return &exactRun{c: newCaseRun(tr, false)}
}

func (r *exactRun) close() { r.c.close() }

func all(string) bool { return true }

func (r *exactRun) showStep() string {
	synctest.Wait()
	evs := r.sub.snapshot()
	step := append([]string(nil), evs[r.seen:]...)
	r.seen = len(evs)
	sort.Strings(step)
	s := fmt.Sprintf("e=%d", len(step))
	for _, e := range step {
		s += " " + e
	}
	return s + " | " + showEntries(r.c.top.List(), all)
}

func (r *exactRun) step(toks []string) (string, string) {
	line := strings.Join(toks, " ")
	after := func() string {
		if r.c.der == nil {
			return "ok"
		}
		return r.showStep()
	}
	switch {
	case toks[0] == "p.set" && len(toks) == 2:
		o, ok := parseObj(toks[1])
		if !ok {
			return "bad-op", line
		}
		r.c.prim.UpdateObject(o)
		return after(), line
	case toks[0] == "p.del" && len(toks) == 2:
		r.c.prim.DeleteObject(toks[1])
		return after(), line
	case toks[0] == "s.set" && len(toks) == 2:
		o, ok := parseObj(toks[1])
		if !ok {
			return "bad-op", line
		}
		r.c.sec.UpdateObject(o)
		return after(), line
	case toks[0] == "s.del" && len(toks) == 2:
		r.c.sec.DeleteObject(toks[1])
		return after(), line
	case toks[0] == "start" && len(toks) == 1:
		if r.c.der != nil {
			return "bad-op", line
		}
		r.c.start()
		r.sub = &subscriber{}
		r.c.top.RegisterBatch(func(es []krt.Event[Out]) {
			for _, e := range es {
				r.sub.record(e)
			}
		}, true)
		return r.showStep(), line
	case toks[0] == "lookup" && len(toks) == 2:
		if r.c.der == nil {
			return "lookup not-started", line
		}
		synctest.Wait()
		return "lookup " + showEntries(r.c.derIdx.Lookup(toks[1]), all), line
	}
	return "bad-op", line
}

func genExactCase(r *wire.Rng, n int, w *wire.Out) {
	t := genTransform(r)
	// with fetches several inputs are recomputed in one batch in Go map order: keep current claims
	// unique then; without fetches every batch has one item and any history is deterministic
	// (keys may be claimed by two parents, moved new-parent-first, ...: the model has F6 too)
	free := len(t.Fetches) == 0
	w.Line("case", fmt.Sprint(n), "exact", t.Token())
	prim := map[string]Obj{}
	uniq := func(o Obj) Obj {
		var keep []string
		for _, k := range o.Outs {
			taken := false
			for q, other := range prim {
				if q != o.ResourceName() && contains(other.Outs, k) {
					taken = true
				}
			}
			if !taken {
				keep = append(keep, k)
			}
		}
		o.Outs = keep
		return o
	}
	keys := func(m map[string]Obj) []string {
		ks := make([]string, 0, len(m))
		for k := range m {
			ks = append(ks, k)
		}
		sort.Strings(ks)
		return ks
	}
	sec := map[string]Obj{}
	for i, k := 0, r.Intn(6); i < k; i++ {
		if r.Chance(50, 100) {
			o := uniq(genObj(r, pnames))
			prim[o.ResourceName()] = o
			w.Line("p.set", o.Token())
		} else {
			o := genObj(r, snames)
			sec[o.ResourceName()] = o
			w.Line("s.set", o.Token())
		}
	}
	w.Line("start")
	nops := 4 + r.Intn(36)
	for i := 0; i < nops; i++ {
		switch x := r.Intn(100); {
		case x < 35:
			o := genObj(r, pnames)
			if !free || r.Chance(40, 100) {
				o = uniq(o)
			}
			prim[o.ResourceName()] = o
			w.Line("p.set", o.Token())
		case x < 42:
			if ks := keys(prim); len(ks) > 0 {
				w.Line("p.set", prim[wire.Pick(r, ks)].Token())
			}
		case x < 55:
			k := wire.Pick(r, nss) + "/" + wire.Pick(r, pnames)
			if ks := keys(prim); len(ks) > 0 && r.Chance(70, 100) {
				k = wire.Pick(r, ks)
			}
			delete(prim, k)
			w.Line("p.del", k)
		case x < 80:
			o := genObj(r, snames)
			sec[o.ResourceName()] = o
			w.Line("s.set", o.Token())
		case x < 90:
			k := wire.Pick(r, nss) + "/" + wire.Pick(r, snames)
			if ks := keys(sec); len(ks) > 0 && r.Chance(70, 100) {
				k = wire.Pick(r, ks)
			}
			delete(sec, k)
			w.Line("s.del", k)
		default:
			w.Line("lookup", wire.Pick(r, nss))
		}
	}
	for _, ns := range nss {
		w.Line("lookup", ns)
	}
}
