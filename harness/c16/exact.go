package main

import (
	"fmt"
	"sort"
	"strings"
	"testing/synctest"

	"istio.io/istio/pkg/kube/krt"
	"verifharness/internal/wire"
)

// exactRun: the real derived collection, one source change at a time with a barrier after each; the
// Lean side runs the runtime model (Model.lean) on the same history and must print the same events,
// contents and index lookups at every step.  Lean: ExactDriver.lean.
type exactRun struct {
	// hk: the queue is held although the transformation has key / index atoms: krt's reverse index recomputes a
	// superset of inputs earlier than the model's full scan, so the EVENTS of a held block are not compared
	// (`e=*`), its contents are; every step outside a block stays exact
	loose  bool
	c      *caseRun
	sub    *subscriber
	seen   int
	paused bool
	gate   chan struct{}
}

func newExactRun(head []string) runner {
	tr, ok := parseTransform(head[3])
	if !ok {
		return nil
	}
	return &exactRun{c: newCaseRun(tr, false), loose: contains(head[4:], "hk")}
}

func (r *exactRun) close() {
	if r.paused {
		r.c.gate.Store(nil)
		close(r.gate)
	}
	r.c.close()
}

func all(string) bool { return true }

func (r *exactRun) showStep() string {
	synctest.Wait()
	evs := r.sub.snapshot()
	step := append([]string(nil), evs[r.seen:]...)
	r.seen = len(evs)
	// stable, by key only: the events of one key keep their order
	sort.SliceStable(step, func(a, b int) bool {
		return strings.SplitN(step[a], "~", 3)[1] < strings.SplitN(step[b], "~", 3)[1]
	})
	s := fmt.Sprintf("e=%d", len(step))
	for _, e := range step {
		s += " " + e
	}
	return s + " | " + showEntries(r.c.top.List(), all)
}

func (r *exactRun) step(toks []string) (string, string) {
	line := strings.Join(toks, " ")
	after := func() string {
		if r.c.der == nil {
			return "ok"
		}
		if r.paused {
			synctest.Wait() // the batch of this change is queued before the next change is made
			return "ok"
		}
		return r.showStep()
	}
	switch {
	case toks[0] == "p.set" && len(toks) == 2:
		o, ok := parseObj(toks[1])
		if !ok {
			return "bad-op", line
		}
		r.c.prim.UpdateObject(o)
		return after(), line
	case toks[0] == "p.del" && len(toks) == 2:
		r.c.prim.DeleteObject(toks[1])
		return after(), line
	case toks[0] == "s.set" && len(toks) == 2:
		o, ok := parseObj(toks[1])
		if !ok {
			return "bad-op", line
		}
		r.c.sec.UpdateObject(o)
		return after(), line
	case toks[0] == "s.del" && len(toks) == 2:
		r.c.sec.DeleteObject(toks[1])
		return after(), line
	case toks[0] == "p.reset":
		r.c.prim.Reset(parseObjs(toks[1:]))
		return after(), line
	case toks[0] == "s.reset":
		r.c.sec.Reset(parseObjs(toks[1:]))
		return after(), line
	case toks[0] == "start" && len(toks) == 1:
		if r.c.der != nil {
			return "bad-op", line
		}
		r.c.start()
		r.sub = &subscriber{}
		r.c.top.RegisterBatch(func(es []krt.Event[Out]) {
			for _, e := range es {
				r.sub.record(e)
			}
		}, true)
		return r.showStep(), line
	case toks[0] == "pause" && len(toks) == 2:
		o, ok := parseObj(toks[1])
		if !ok || r.c.der == nil || r.paused || o.Name != "zz" {
			return "bad-op", line
		}
		r.gate = make(chan struct{})
		r.c.gate.Store(&r.gate)
		r.paused = true
		r.c.prim.UpdateObject(o)
		synctest.Wait() // the queue worker now sits at the end of blk's transformation
		return "ok", line
	case toks[0] == "resume" && len(toks) == 1:
		if !r.paused {
			return "bad-op", line
		}
		r.paused = false
		r.c.gate.Store(nil)
		close(r.gate)
		if r.loose {
			synctest.Wait()
			r.seen = len(r.sub.snapshot())
			return "e=* | " + showEntries(r.c.top.List(), all), line
		}
		return r.showStep(), line
	case toks[0] == "lookup" && len(toks) == 2:
		if r.c.der == nil {
			return "lookup not-started", line
		}
		synctest.Wait()
		return "lookup " + showEntries(r.c.derIdx.Lookup(toks[1]), all), line
	case toks[0] == "lateindex" && len(toks) == 1:
		if r.c.der == nil || r.paused || r.c.lateIdx != nil {
			return "bad-op", line
		}
		synctest.Wait()
		// on the populated collection; 0, 1 or several keys per object (Lean: idxBackfill, then idxUpdateG)
		r.c.lateIdx = krt.UnnamedIndex[string, Out](r.c.top, func(o Out) []string { return outFetched(o.Val) })
		return "ok", line
	case toks[0] == "flookup" && len(toks) == 2:
		if r.c.lateIdx == nil {
			return "flookup no-index", line
		}
		synctest.Wait()
		return "flookup " + showEntries(r.c.lateIdx.Lookup(toks[1]), all), line
	}
	return "bad-op", line
}

func genExactCase(r *wire.Rng, n int, w *wire.Out) {
	t := genTransform(r)
	// with fetches several inputs are recomputed in one batch in Go map order: keep current claims
	// unique then; without fetches every batch has one item and any history is deterministic
	// (keys may be claimed by two parents, moved new-parent-first, ...: the model has F6 too)
	free := len(t.Fetches) == 0
	// with key / index atoms the queue is held in a third of the cases only, and those are flagged `hk`
	strict := true
	for _, f := range t.Fetches {
		for _, a := range f {
			switch a.Kind {
			case "key", "keys", "nokeys", "objName", "nsIndex", "valIndex", "outIndex":
				strict = false
			}
		}
	}
	hk := !strict && r.Chance(35, 100)
	if hk {
		w.Line("case", fmt.Sprint(n), "exact", t.Token(), "hk")
	} else {
		w.Line("case", fmt.Sprint(n), "exact", t.Token())
	}
	prim := map[string]Obj{}
	uniq := func(o Obj) Obj {
		return keepClaims(t, o, func(k string) bool {
			for q, other := range prim {
				if q != o.ResourceName() && contains(claims(t, other), k) {
					return false
				}
			}
			return true
		})
	}
	keys := func(m map[string]Obj) []string {
		ks := make([]string, 0, len(m))
		for k := range m {
			ks = append(ks, k)
		}
		sort.Strings(ks)
		return ks
	}
	sec := map[string]Obj{}
	for i, k := 0, r.Intn(6); i < k; i++ {
		if r.Chance(50, 100) {
			o := uniq(genObj(r, pnames))
			prim[o.ResourceName()] = o
			w.Line("p.set", o.Token())
		} else {
			o := genObj(r, snames)
			sec[o.ResourceName()] = o
			w.Line("s.set", o.Token())
		}
	}
	w.Line("start")
	nops := 4 + r.Intn(36)
	late := false
	pausedLeft := 0
	nblk := 0
	// The model has the full scan of changedInputKeys, not its reverse-index pre-filter, which recomputes a
	// superset of inputs. With the queue held an extra recompute reads fetched objects whose own events are
	// still queued and delivers an Update earlier than the model does (same contents, both streams well formed):
	// hold the queue only when krt itself scans (no key / index atom in any fetch).
	canHold := true
	for _, f := range t.Fetches {
		for _, a := range f {
			switch a.Kind {
			case "key", "keys", "nokeys", "objName", "nsIndex", "valIndex", "outIndex":
				canHold = false
			}
		}
	}
	// while the queue is held and the transformation fetches, a batch of the fetched collection recomputes
	// several inputs in Go map order: keep the barrier discipline inside the block (a key has one claimant
	// from the pause on), otherwise the real outcome depends on that order (the schedule dependent form of F6)
	held := map[string]string{}
	disc := func(o Obj) Obj {
		if free || pausedLeft == 0 {
			return o
		}
		o = keepClaims(t, o, func(k string) bool {
			q, f := held[k]
			return !f || q == o.ResourceName()
		})
		for _, k := range claims(t, o) {
			held[k] = o.ResourceName()
		}
		return o
	}
	for i := 0; i < nops; i++ {
		// hold the queue for the next few changes: schedule [env, ..., env, proc, ..., proc]
		if pausedLeft == 0 && (canHold || hk) && r.Chance(8, 100) {
			nblk++
			blk := Obj{NS: "n1", Name: "zz", Val: fmt.Sprintf("b%d", nblk), Ref: "n1/x"}
			prim[blk.ResourceName()] = blk
			w.Line("pause", blk.Token())
			pausedLeft = 2 + r.Intn(5)
			held = map[string]string{}
			for p, o := range prim {
				for _, k := range claims(t, o) {
					held[k] = p
				}
			}
		} else if pausedLeft > 0 {
			pausedLeft--
			if pausedLeft == 0 {
				w.Line("resume")
			}
		}
		x := r.Intn(100)
		if pausedLeft > 0 && x >= 90 {
			x = r.Intn(90) // no Reset / lookup while the queue is held
		}
		switch {
		case x < 35:
			o := genObj(r, pnames)
			if !free || r.Chance(40, 100) {
				o = uniq(o)
			}
			o = disc(o)
			prim[o.ResourceName()] = o
			w.Line("p.set", o.Token())
		case x < 42:
			if ks := keys(prim); len(ks) > 0 {
				w.Line("p.set", prim[wire.Pick(r, ks)].Token())
			}
		case x < 55:
			k := wire.Pick(r, nss) + "/" + wire.Pick(r, pnames)
			if ks := keys(prim); len(ks) > 0 && r.Chance(70, 100) {
				k = wire.Pick(r, ks)
			}
			delete(prim, k)
			w.Line("p.del", k)
		case x < 80:
			o := genObj(r, snames)
			sec[o.ResourceName()] = o
			w.Line("s.set", o.Token())
		case x < 90:
			k := wire.Pick(r, nss) + "/" + wire.Pick(r, snames)
			if ks := keys(sec); len(ks) > 0 && r.Chance(70, 100) {
				k = wire.Pick(r, ks)
			}
			delete(sec, k)
			w.Line("s.del", k)
		case x < 94 && !free:
			// Reset: one atomic batch with several events; claims stay unique (objects dropped, payloads changed)
			if r.Chance(50, 100) {
				toks := []string{"p.reset"}
				np := map[string]Obj{}
				for _, k := range keys(prim) {
					if r.Chance(70, 100) {
						o := prim[k]
						if r.Chance(50, 100) {
							if !t.ByVal { // keyed by the value: the claim stays
								o.Val = wire.Pick(r, vals)
							}
							o.Labels = genLabels(r, 60)
						}
						np[k] = o
						toks = append(toks, o.Token())
					}
				}
				if r.Chance(40, 100) {
					// claims of the dropped objects stay taken: no key changes parent inside the batch (with
					// fetches the reverse-index pre-filter of changedInputKeys, which the model does not have,
					// would make a stale F6 mapping visible through an extra recompute)
					o := uniq(genObj(r, pnames))
					if _, f := np[o.ResourceName()]; !f {
						np[o.ResourceName()] = o
						toks = append(toks, o.Token())
					}
				}
				prim = np
				w.Line(withDuplicate(r, toks, t.ByVal, false)...)
			} else {
				toks := []string{"s.reset"}
				ns := map[string]Obj{}
				for _, k := range keys(sec) {
					if r.Chance(65, 100) {
						o := sec[k]
						if r.Chance(50, 100) {
							o.Labels = genLabels(r, 60)
							o.Val = wire.Pick(r, vals)
						}
						ns[k] = o
						toks = append(toks, o.Token())
					}
				}
				if r.Chance(50, 100) {
					o := genObj(r, snames)
					if _, f := ns[o.ResourceName()]; !f {
						ns[o.ResourceName()] = o
						toks = append(toks, o.Token())
					}
				}
				sec = ns
				w.Line(withDuplicate(r, toks, false, false)...)
			}
		default:
			switch {
			case !late && r.Chance(35, 100):
				late = true
				w.Line("lateindex")
			case late && r.Chance(60, 100):
				w.Line("flookup", wire.Pick(r, nss)+"/"+wire.Pick(r, snames))
			default:
				w.Line("lookup", wire.Pick(r, nss))
			}
		}
	}
	if pausedLeft > 0 {
		w.Line("resume")
	}
	for _, ns := range nss {
		w.Line("lookup", ns)
	}
	if late {
		for _, ns := range nss {
			for _, nm := range snames {
				w.Line("flookup", ns+"/"+nm)
			}
		}
	}
}
