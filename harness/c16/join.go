package main

import (
	"sort"
	"strconv"
	"strings"
	"testing/synctest"
	"time"

	"istio.io/istio/pkg/kube/krt"
)

// joinRun: krt.JoinCollection over 2-3 static collections of Obj, a namespace index on the join,
// subscribers on the join.  Lean: JoinSpec.lean / JoinDriver.lean.
type joinRun struct {
	nested   bool // stream joinn: krt.NestedJoinWithMergeCollection over a static collection of collections
	outer    krt.StaticCollection[krt.Collection[Obj]]
	member   []bool
	quiet    bool // nested: nothing happened since the last barrier
	needSync bool // nested: an outer change waits for its barrier
	undisc   bool // nested: the rule "the outer collection changes at quiescent points only" was broken
	// flagged nested cases (F13): the keys the race can have touched (Lean: tainted / pending / involved / flight / window)
	tainted   []string
	pending   []int
	involved  []int
	flight    []string
	window    bool
	merge     bool // stream joinm: krt.JoinWithMergeCollection
	derived   bool // jd: the joined collections are derived copies of the static ones
	unchecked bool // ju: krt.WithJoinUnchecked (the generator keeps the keys disjoint)
	flagged   bool
	js        bool // one joined collection is a krt.NewStatic singleton (its GetKey ignores the key it is given)
	si        int  // ... this one; it holds key n1/s or nothing
	single    krt.StaticSingleton[Obj]
	started   bool
	stop      chan struct{}
	cols      []krt.StaticCollection[Obj]
	state     []map[string]Obj
	j         krt.Collection[Obj]
	idx       krt.Index[string, Obj]
	inner     []krt.Collection[Obj]
	vidx      krt.Index[string, Obj] // by the +-separated parts of Val: the bucket changes when the object changes
	touched   map[string][]int
	unsafeK   []string
	nsubs     int
	subs      map[string]*subscriber
	// collections built on top of the join (created with the first subscriber, in cases that keep the discipline):
	// a derived singleton that fetches everything from the join, a collection whose primary input is the join and
	// which fetches from that singleton, and a collection whose primary input is the singleton
	all   krt.Singleton[Out]
	overJ krt.Collection[Out]
	overS krt.Collection[Out]
}

func (r *joinRun) makeOver() {
	if r.flagged || r.unchecked || r.all != nil {
		return
	}
	r.all = krt.NewSingleton[Out](func(ctx krt.HandlerContext) *Out {
		return &Out{Key: "all", Val: renderFetch(krt.Fetch(ctx, r.j))}
	}, krt.WithStop(r.stop), krt.WithName("all"))
	r.overJ = krt.NewCollection[Obj, Out](r.j, func(ctx krt.HandlerContext, o Obj) *Out {
		n := "-"
		if a := krt.FetchOne(ctx, r.all.AsCollection()); a != nil {
			n = a.Val
		}
		return &Out{Key: o.ResourceName(), NS: o.NS, Val: o.Val + "|" + n}
	}, krt.WithStop(r.stop), krt.WithName("overJ"))
	r.overS = krt.NewCollection[Out, Out](r.all.AsCollection(), func(ctx krt.HandlerContext, o Out) *Out {
		return &Out{Key: "copy", Val: o.Val}
	}, krt.WithStop(r.stop), krt.WithName("overS"))
	if r.merge {
		for i := 0; i < 4; i++ { // see start(): sleep-and-poll loops need the fake clock to move
			time.Sleep(200 * time.Millisecond)
			synctest.Wait()
		}
	}
}

// overCheck: at quiescence the collections built on top of the join equal their function of the join's contents.
func (r *joinRun) overCheck() string {
	if r.all == nil {
		return ""
	}
	cur := r.j.List()
	want := renderFetch(cur)
	a := r.all.Get()
	if a == nil || a.Val != want {
		return "inconsistent:singleton-fetching-the-join"
	}
	cp := r.overS.List()
	if len(cp) != 1 || cp[0].Val != want {
		return "inconsistent:collection-over-the-singleton"
	}
	got := map[string]string{}
	for _, o := range r.overJ.List() {
		got[o.Key] = o.Val
	}
	if len(got) != len(cur) {
		return "inconsistent:collection-over-the-join:size"
	}
	for _, o := range cur {
		if got[o.ResourceName()] != o.Val+"|"+want {
			return "inconsistent:collection-over-the-join:" + o.ResourceName()
		}
	}
	return ""
}

func newJoinRun(head []string) runner {
	n, err := strconv.Atoi(head[3])
	if err != nil || n < 0 {
		n = 2
	}
	r := &joinRun{nested: strings.HasPrefix(head[2], "joinn"), merge: strings.HasPrefix(head[2], "joinm") || strings.HasPrefix(head[2], "joinn"), flagged: contains(head[4:], "jr"), derived: contains(head[4:], "jd"), unchecked: contains(head[4:], "ju"), stop: make(chan struct{}), touched: map[string][]int{},
		subs: map[string]*subscriber{}}
	for i := 0; i < n; i++ {
		r.cols = append(r.cols, krt.NewStaticCollection[Obj](nil, nil, krt.WithStop(r.stop), krt.WithName("c"+strconv.Itoa(i))))
		r.state = append(r.state, map[string]Obj{})
		r.member = append(r.member, false)
	}
	if contains(head[4:], "js") && n > 0 && !r.merge {
		cn, _ := strconv.Atoi(head[1])
		r.js, r.si = true, cn%n
		r.single = krt.NewStatic[Obj](nil, true, krt.WithStop(r.stop), krt.WithName("single"))
	}
	return r
}

func (r *joinRun) close() { close(r.stop) }

func hasInt(l []int, x int) bool {
	for _, y := range l {
		if y == x {
			return true
		}
	}
	return false
}

func (r *joinRun) addUnsafe(ks []string) {
	for _, k := range ks {
		if !contains(r.unsafeK, k) {
			r.unsafeK = append(r.unsafeK, k)
		}
	}
}

func (r *joinRun) multi() []string {
	var ks []string
	for k, l := range r.touched {
		if len(l) >= 2 {
			ks = append(ks, k)
		}
	}
	return ks
}

// mergeSorted is the order independent merge function of the joinn stream (Lean: nmergeOne).
func mergeSorted(ts []Obj) *Obj {
	if len(ts) == 0 {
		return nil
	}
	// never nil for a non-empty input: nestedjoinmerge.handleCollectionUpdate relies on that (istio's merge
	// functions return nil for an empty input only)
	vals := make([]string, len(ts))
	for i, t := range ts {
		vals[i] = t.Val
	}
	sort.Strings(vals)
	return &Obj{NS: ts[0].NS, Name: ts[0].Name, Val: strings.Join(vals, "+")}
}

// mergeObjs is the merge function of the joinm stream (Lean: mergeOne).
func mergeObjs(ts []Obj) *Obj {
	if len(ts) == 0 || ts[0].Val == "v3" {
		return nil
	}
	vals := make([]string, len(ts))
	for i, t := range ts {
		vals[i] = t.Val
	}
	return &Obj{NS: ts[0].NS, Name: ts[0].Name, Val: strings.Join(vals, "+")}
}

func (r *joinRun) touch(k string, i int) {
	if !r.started || r.merge {
		return
	}
	l := r.touched[k]
	if hasInt(l, i) {
		return
	}
	r.touched[k] = append(l, i)
	if len(l)+1 >= 2 && r.nsubs > 0 {
		r.addUnsafe([]string{k})
	}
}

func (r *joinRun) barrier() {
	r.touched = map[string][]int{}
	r.quiet, r.needSync = true, false
	r.pending, r.flight, r.window = nil, nil, false
}

func (r *joinRun) taint(ks ...string) {
	for _, k := range ks {
		if !contains(r.tainted, k) {
			r.tainted = append(r.tainted, k)
		}
	}
}

func (r *joinRun) keysOfCol(i int) []string {
	ks := make([]string, 0, len(r.state[i]))
	for k := range r.state[i] {
		ks = append(ks, k)
	}
	return ks
}

// raced: an outer change meets events in flight (Lean: raced).
func (r *joinRun) raced() {
	for _, i := range r.pending {
		if !hasInt(r.involved, i) {
			r.involved = append(r.involved, i)
		}
		r.taint(r.keysOfCol(i)...)
	}
	r.window = true
	r.taint(r.flight...)
}

// innerOp: an operation on joined collection i that changes key k (k == "": a registration).
func (r *joinRun) innerOp(k string, i int) {
	if r.nested && r.started {
		racy := r.needSync
		r.undisc = r.undisc || r.needSync
		r.quiet = false
		if k != "" {
			r.flight = append(r.flight, k)
		}
		if racy {
			r.raced()
		}
		if k != "" && (r.window || hasInt(r.involved, i)) {
			r.taint(k)
		}
	}
}

// outerOp: a change of the outer collection that concerns collection i.
func (r *joinRun) outerOp(i int) {
	if r.nested && r.started {
		bad := !r.quiet || r.needSync
		r.undisc = r.undisc || bad
		r.quiet, r.needSync = false, true
		if !hasInt(r.pending, i) {
			r.pending = append(r.pending, i)
		}
		if bad {
			r.raced()
		}
		if hasInt(r.involved, i) {
			r.taint(r.keysOfCol(i)...)
		}
	}
}

func (r *joinRun) inU(k string) bool {
	if !r.flagged {
		return false
	}
	if r.nested {
		return contains(r.tainted, k) || k == "" || k == "/" // "/": the key of a zero-valued object
	}
	return contains(r.unsafeK, k)
}

func (r *joinRun) guard() string {
	switch {
	case !r.started:
		return "not-started"
	case !r.flagged && (len(r.unsafeK) > 0 || r.undisc):
		return "undisciplined"
	}
	return ""
}

func (r *joinRun) start() {
	if r.started {
		return
	}
	cs := make([]krt.Collection[Obj], len(r.cols))
	for i, c := range r.cols {
		cs[i] = c
		if r.js && i == r.si {
			cs[i] = r.single.AsCollection()
			continue
		}
		if r.derived {
			cs[i] = krt.NewCollection[Obj, Obj](c, func(ctx krt.HandlerContext, o Obj) *Obj { return &o },
				krt.WithStop(r.stop), krt.WithName("d"+strconv.Itoa(i)))
		}
	}
	opts := []krt.CollectionOption{krt.WithStop(r.stop), krt.WithName("join")}
	if r.unchecked {
		opts = append(opts, krt.WithJoinUnchecked())
	}
	if r.nested {
		var members []krt.Collection[Obj]
		for i, c := range cs {
			if r.member[i] {
				members = append(members, c)
			}
		}
		r.inner = cs
		r.outer = krt.NewStaticCollection[krt.Collection[Obj]](nil, members, krt.WithStop(r.stop), krt.WithName("outer"))
		r.j = krt.NestedJoinWithMergeCollection[Obj](r.outer, mergeSorted, opts...)
	} else if r.merge {
		r.j = krt.JoinWithMergeCollection(cs, mergeObjs, opts...)
	} else {
		r.j = krt.JoinCollection(cs, opts...)
	}
	if r.merge {
		// mergejoin waits for its registrations with kube.WaitForCacheSync, a sleep-and-poll loop: inside the
		// bubble time only advances while the root goroutine sleeps too
		for i := 0; i < 4; i++ {
			time.Sleep(200 * time.Millisecond)
			synctest.Wait()
		}
	}
	if !r.js { // a static singleton has no index (krt: panic("TODO"))
		r.idx = krt.NewIndex[string, Obj](r.j, "ns", func(o Obj) []string { return []string{o.NS} })
		r.vidx = krt.NewIndex[string, Obj](r.j, "val", func(o Obj) []string { return strings.Split(o.Val, "+") })
	}
	r.startState()
}

func showObjs(objs []Obj, keep func(k string) bool) string {
	outs := make([]Out, 0, len(objs))
	for _, o := range objs {
		outs = append(outs, Out{Key: o.ResourceName(), Val: o.Token()})
	}
	return showEntries(outs, keep)
}

func (r *joinRun) step(toks []string) (string, string) {
	line := strings.Join(toks, " ")
	answer := func(u bool, body func() string) string {
		if g := r.guard(); g != "" {
			return g
		}
		if u && !r.flagged {
			return "not-flagged"
		}
		return body()
	}
	rec := func(s *subscriber) func(es []krt.Event[Obj]) {
		return func(es []krt.Event[Obj]) {
			for _, e := range es {
				s.add(evToken(e, func(o Obj) string { return o.Token() }))
			}
		}
	}
	switch {
	case toks[0] == "c.set" && len(toks) == 3:
		i, err := strconv.Atoi(toks[1])
		o, ok := parseObj(toks[2])
		if err != nil || !ok || i < 0 || i >= len(r.cols) {
			return "bad-op", line
		}
		r.innerOp(o.ResourceName(), i)
		r.touch(o.ResourceName(), i)
		r.state[i][o.ResourceName()] = o
		if r.js && i == r.si {
			if o.ResourceName() != "n1/s" {
				return "bad-op", line
			}
			r.single.Set(&o)
			return "ok", line
		}
		r.cols[i].UpdateObject(o)
		return "ok", line
	case toks[0] == "c.del" && len(toks) == 3:
		i, err := strconv.Atoi(toks[1])
		if err != nil || i < 0 || i >= len(r.cols) {
			return "bad-op", line
		}
		if _, f := r.state[i][toks[2]]; f {
			r.innerOp(toks[2], i)
			r.touch(toks[2], i)
			delete(r.state[i], toks[2])
			if r.js && i == r.si {
				r.single.Set(nil)
				return "ok", line
			}
			r.cols[i].DeleteObject(toks[2])
		}
		return "ok", line
	case (toks[0] == "o.add" || toks[0] == "o.del" || toks[0] == "o.touch") && len(toks) == 2:
		i, err := strconv.Atoi(toks[1])
		if err != nil || i < 0 || i >= len(r.cols) {
			return "bad-op", line
		}
		if toks[0] != "o.touch" || r.member[i] {
			r.outerOp(i)
		}
		switch toks[0] {
		case "o.add":
			r.member[i] = true
			if r.started && r.nested {
				r.outer.UpdateObject(r.inner[i])
			}
		case "o.del":
			r.member[i] = false
			if r.started && r.nested {
				r.outer.DeleteObject(krt.GetKey(r.inner[i]))
			}
		default:
			if r.started && r.nested && r.member[i] {
				r.outer.UpdateObject(r.inner[i]) // an Update event with the same collection
			}
		}
		return "ok", line
	case toks[0] == "start" && len(toks) == 1:
		r.start()
		return "ok", line
	case toks[0] == "sync" && len(toks) == 1:
		synctest.Wait()
		r.barrier()
		return "ok", line
	case toks[0] == "sub" && len(toks) == 3:
		if !r.started {
			return "ok", line
		}
		if toks[2] == "nostate" {
			synctest.Wait()
			r.barrier()
		} else {
			r.innerOp("", 0)
		}
		r.addUnsafe(r.multi())
		r.nsubs++
		s := &subscriber{}
		r.subs[toks[1]] = s
		switch toks[2] {
		case "single":
			s.reg = r.j.Register(func(e krt.Event[Obj]) { rec(s)([]krt.Event[Obj]{e}) })
		case "batch":
			s.reg = r.j.RegisterBatch(rec(s), true)
		default:
			s.reg = r.j.RegisterBatch(rec(s), false)
		}
		r.makeOver()
		return "ok", line
	case toks[0] == "junsub" && len(toks) == 2:
		if !r.started {
			return "ok", line
		}
		synctest.Wait()
		r.barrier()
		r.subs[toks[1]].unregister() // UnregisterHandler on a join / merge join / nested join registration
		return "ok", line
	}
	if r.started {
		synctest.Wait()
	}
	r.barrier()
	notU := func(k string) bool { return !r.inU(k) }
	switch {
	case toks[0] == "list" && len(toks) == 1:
		return "list " + answer(false, func() string {
			if bad := r.overCheck(); bad != "" {
				return bad
			}
			return showObjs(r.j.List(), notU)
		}), line
	case toks[0] == "ulist" && len(toks) == 1:
		return "ulist " + answer(true, func() string { return showObjs(r.j.List(), r.inU) }), line
	case toks[0] == "get" && len(toks) == 2:
		return "get " + answer(false, func() string {
			if r.inU(toks[1]) {
				return "masked"
			}
			o := r.j.GetKey(toks[1])
			if o == nil {
				return "none"
			}
			if o.ResourceName() != toks[1] {
				return "wrong-key:" + o.ResourceName()
			}
			return o.Token()
		}), line
	case (toks[0] == "lookup" || toks[0] == "vlookup" || toks[0] == "ulookup") && r.js:
		return "bad-op", line
	case toks[0] == "lookup" && len(toks) == 2:
		return "lookup " + answer(false, func() string { return showObjs(r.idx.Lookup(toks[1]), notU) }), line
	case toks[0] == "vlookup" && len(toks) == 2:
		return "vlookup " + answer(false, func() string { return showObjs(r.vidx.Lookup(toks[1]), notU) }), line
	case toks[0] == "ulookup" && len(toks) == 2:
		return "ulookup " + answer(true, func() string { return showObjs(r.idx.Lookup(toks[1]), r.inU) }), line
	case (toks[0] == "stream" || toks[0] == "ustream") && len(toks) == 2:
		u := toks[0] == "ustream"
		s := r.subs[toks[1]]
		var evs []string
		if s != nil {
			evs = s.snapshot()
		}
		impl := toks[0] + " " + answer(u, func() string {
			if s == nil {
				return "unknown-subscriber"
			}
			if h := s.health(); h != "" {
				return h
			}
			return "accept"
		})
		return impl, strings.Join(append([]string{toks[0], toks[1]}, evs...), " ")
	}
	return "bad-op", line
}
