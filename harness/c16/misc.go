package main

import (
	"fmt"
	"sort"
	"strings"
	"testing/synctest"

	"istio.io/istio/pkg/kube/krt"
	"verifharness/internal/wire"
)

// miscRun: shapes of the krt API the other streams do not reach (Lean: MiscDriver.lean, stepMisc):
// NewStaticCollection(initial vals), krt.NewStatic + Set (nil, key change), FetchOne, index.Fetch,
// PartialFetchComparable (SuppressChange), DiscardResult, UnregisterHandler.
type miscRun struct {
	stop    chan struct{}
	initial []Obj
	primM   map[string]Obj
	prim    krt.StaticCollection[Obj]
	sec     krt.StaticCollection[Obj]
	third   krt.StaticCollection[Obj] // read through PartialFetchComparable only
	secVal  krt.Index[string, Obj]
	cfg     krt.StaticSingleton[Obj]
	cfgVal  *Obj
	der     krt.Collection[Out]
	subs    map[string]*subscriber
	regs    map[string]krt.HandlerRegistration
	frozen  map[string]int
	xsubs   map[string]*subscriber
	// DiscardResult bookkeeping (mirrors MiscDriver.lean): quiet = nothing changed since the last barrier;
	// retained = the results the discarding inputs must keep (nil: unknown)
	quiet    bool
	retained map[string]bool
	retKnown bool
	syncBad  string
}

func newMiscRun() runner {
	r := &miscRun{stop: make(chan struct{}), primM: map[string]Obj{}, subs: map[string]*subscriber{},
		regs: map[string]krt.HandlerRegistration{}, frozen: map[string]int{}, xsubs: map[string]*subscriber{}}
	r.sec = krt.NewStaticCollection[Obj](nil, nil, krt.WithStop(r.stop), krt.WithName("sec"))
	r.third = krt.NewStaticCollection[Obj](nil, nil, krt.WithStop(r.stop), krt.WithName("third"))
	// startSynced = false: the singleton reports unsynced until MarkSynced (the sync tracker of a static singleton)
	r.cfg = krt.NewStatic[Obj](nil, false, krt.WithStop(r.stop), krt.WithName("cfg"))
	if r.cfg.AsCollection().HasSynced() {
		r.syncBad = "synced-before-MarkSynced"
	}
	r.cfg.MarkSynced()
	if !r.cfg.AsCollection().HasSynced() {
		r.syncBad = "unsynced-after-MarkSynced"
	}
	return r
}

func (r *miscRun) close() { close(r.stop) }

func (r *miscRun) start() {
	if r.der != nil {
		return
	}
	// everything set before `start` is passed as the initial values of the static collection
	vals := make([]Obj, 0, len(r.primM))
	for _, o := range r.primM {
		vals = append(vals, o)
	}
	r.prim = krt.NewStaticCollection[Obj](nil, vals, krt.WithStop(r.stop), krt.WithName("prim"))
	r.secVal = krt.NewIndex[string, Obj](r.sec, "val", func(o Obj) []string { return []string{o.Val} })
	cfgCol := r.cfg.AsCollection()
	r.der = krt.NewCollection[Obj, Out](r.prim, func(ctx krt.HandlerContext, i Obj) *Out {
		c := krt.FetchOne(ctx, cfgCol)
		a := r.secVal.Fetch(ctx, i.Val)
		part := func(o Obj) string { return o.NS + "." + o.Labels["l1"] }
		var p []string
		if i.Name == "a" {
			p = krt.PartialFetchComparable(ctx, r.third, part, krt.FilterKey(i.Ref))
		} else { // the same through PartialFetch with an equality function of its own
			p = krt.PartialFetch(ctx, r.third, part, func(x, y string) bool { return len(x) == len(y) && x == y }, krt.FilterKey(i.Ref))
		}
		cs, ps := "-", "-"
		if c != nil {
			cs = c.ResourceName() + ":" + c.Val
			if c.Val == "v3" && i.Name == "c" {
				ctx.DiscardResult()
			}
		}
		if len(p) > 0 {
			ps = p[0]
		}
		return &Out{Key: i.ResourceName(), NS: i.NS, Val: i.NS + "|" + i.ResourceName() + ":" + i.Val + "|cfg=" + cs + "|" + renderFetch(a) + "|p=" + ps}
	}, krt.WithStop(r.stop), krt.WithName("derived"))
}

func (r *miscRun) discarding() bool { return r.cfgVal != nil && r.cfgVal.Val == "v3" }

func (r *miscRun) masked(k string) bool { return r.discarding() && strings.HasSuffix(k, "/c") }

// unknown: a discarding input whose kept result is not known (created while discarding, or discarding began
// with changes in flight); known kept results are printed and compared
func (r *miscRun) unknown(k string) bool {
	return r.masked(k) && !(r.retKnown && r.retained[k])
}

func (r *miscRun) step(toks []string) (string, string) {
	line := strings.Join(toks, " ")
	switch toks[0] {
	case "p.set", "p.del", "s.set", "s.del", "t.set", "t.del", "x.set", "start", "sub":
		defer func() { r.quiet = false }()
	case "sync", "unsub", "xunsub", "list", "get", "stream", "xstream":
		defer func() { r.quiet = true }()
	}
	switch {
	case toks[0] == "p.set" && len(toks) == 2:
		o, ok := parseObj(toks[1])
		if !ok {
			return "bad-op", line
		}
		r.primM[o.ResourceName()] = o
		if r.der != nil {
			r.prim.UpdateObject(o)
		}
		return "ok", line
	case toks[0] == "p.del" && len(toks) == 2:
		delete(r.primM, toks[1])
		delete(r.retained, toks[1])
		if r.der != nil {
			r.prim.DeleteObject(toks[1])
		}
		return "ok", line
	case toks[0] == "s.set" && len(toks) == 2:
		o, ok := parseObj(toks[1])
		if !ok {
			return "bad-op", line
		}
		r.sec.UpdateObject(o)
		return "ok", line
	case toks[0] == "s.del" && len(toks) == 2:
		r.sec.DeleteObject(toks[1])
		return "ok", line
	case toks[0] == "t.set" && len(toks) == 2:
		o, ok := parseObj(toks[1])
		if !ok {
			return "bad-op", line
		}
		r.third.UpdateObject(o)
		return "ok", line
	case toks[0] == "t.del" && len(toks) == 2:
		r.third.DeleteObject(toks[1])
		return "ok", line
	case toks[0] == "x.set" && len(toks) == 2:
		var nv *Obj
		if toks[1] != "nil" {
			o, ok := parseObj(toks[1])
			if !ok {
				return "bad-op", line
			}
			nv = &o
		}
		was := r.discarding()
		r.cfgVal = nv
		now := r.discarding()
		switch {
		case now && !was:
			r.retKnown = r.quiet && r.der != nil
			r.retained = map[string]bool{}
			for k := range r.primM {
				r.retained[k] = true
			}
		case !now:
			r.retKnown, r.retained = false, nil
		}
		r.cfg.Set(nv)
		return "ok", line
	case toks[0] == "xsub" && len(toks) == 3:
		s := &subscriber{}
		r.xsubs[toks[1]] = s
		col := r.cfg.AsCollection()
		switch toks[2] {
		case "single":
			s.reg = col.Register(func(e krt.Event[Obj]) { recObj(s)([]krt.Event[Obj]{e}) })
		case "batch":
			s.reg = col.RegisterBatch(recObj(s), true)
		default:
			s.reg = col.RegisterBatch(recObj(s), false)
		}
		return "ok", line
	case toks[0] == "xunsub" && len(toks) == 2:
		r.xsubs[toks[1]].unregister() // UnregisterHandler on a NewStatic singleton's registration
		return "ok", line
	case toks[0] == "xstream" && len(toks) == 2:
		synctest.Wait()
		s := r.xsubs[toks[1]]
		if s == nil {
			return "xstream unknown-subscriber", line
		}
		if h := s.health(); h != "" && h != "registration-not-synced" {
			return "xstream " + h, strings.Join(append([]string{"xstream", toks[1]}, s.snapshot()...), " ")
		}
		return "xstream accept", strings.Join(append([]string{"xstream", toks[1]}, s.snapshot()...), " ")
	case toks[0] == "start" && len(toks) == 1:
		r.start()
		if r.syncBad != "" {
			return r.syncBad, line
		}
		return "ok", line
	case toks[0] == "sync" && len(toks) == 1:
		synctest.Wait()
		return "ok", line
	case toks[0] == "sub" && len(toks) == 3:
		if r.der == nil {
			return "ok", line
		}
		s := &subscriber{}
		r.subs[toks[1]] = s
		switch toks[2] {
		case "single":
			r.regs[toks[1]] = r.der.Register(s.record)
		case "batch":
			r.regs[toks[1]] = r.der.RegisterBatch(recOut(s), true)
		default:
			synctest.Wait()
			r.regs[toks[1]] = r.der.RegisterBatch(recOut(s), false)
		}
		return "ok", line
	case toks[0] == "unsub" && len(toks) == 2:
		if r.der == nil {
			return "ok", line
		}
		synctest.Wait()
		if reg := r.regs[toks[1]]; reg != nil {
			reg.UnregisterHandler()
			synctest.Wait()
			r.frozen[toks[1]] = len(r.subs[toks[1]].snapshot())
		}
		return "ok", line
	}
	if r.der == nil {
		return toks[0] + " not-started", line
	}
	synctest.Wait()
	switch {
	case toks[0] == "list" && len(toks) == 1:
		if got := r.cfg.Get(); (got == nil) != (r.cfgVal == nil) || (got != nil && got.Token() != r.cfgVal.Token()) {
			return "list inconsistent:Singleton.Get", line
		}
		return "list " + showEntries(r.der.List(), func(k string) bool { return !r.unknown(k) }), line
	case toks[0] == "get" && len(toks) == 2:
		if r.unknown(toks[1]) {
			return "get masked", line
		}
		o := r.der.GetKey(toks[1])
		if o == nil {
			return "get none", line
		}
		return "get " + o.Val, line
	case toks[0] == "stream" && len(toks) == 2:
		s := r.subs[toks[1]]
		if s == nil {
			return "stream unknown-subscriber", line
		}
		evs := s.snapshot()
		if n, f := r.frozen[toks[1]]; f && n != len(evs) {
			return fmt.Sprintf("stream events-after-unregister:%d", len(evs)-n), strings.Join(append([]string{"stream", toks[1]}, evs...), " ")
		}
		return "stream accept", strings.Join(append([]string{"stream", toks[1]}, evs...), " ")
	}
	return "bad-op", line
}

func genMiscCase(r *wire.Rng, n int, w *wire.Out) {
	w.Line("case", fmt.Sprint(n), "misc")
	prim := map[string]bool{}
	var subs []string
	unsubbed := map[string]bool{}
	xunsubbed := 0
	nsub := 0
	cfgObj := func() string {
		if r.Chance(20, 100) {
			return "nil"
		}
		return Obj{NS: "n1", Name: wire.Pick(r, []string{"m", "m", "m2"}), Val: wire.Pick(r, vals)}.Token()
	}
	pobj := func() Obj {
		o := genObj(r, pnames)
		o.Outs = nil
		return o
	}
	for i, k := 0, r.Intn(6); i < k; i++ {
		switch x := r.Intn(100); {
		case x < 50:
			o := pobj()
			prim[o.ResourceName()] = true
			w.Line("p.set", o.Token())
		case x < 75:
			w.Line("s.set", genObj(r, snames).Token())
		case x < 88:
			w.Line("t.set", genObj(r, snames).Token())
		default:
			w.Line("x.set", cfgObj())
		}
	}
	w.Line("start")
	var xsubs []string
	queries := func() {
		w.Line("list")
		for _, ns := range nss {
			for _, nm := range pnames {
				if r.Chance(40, 100) {
					w.Line("get", ns+"/"+nm)
				}
			}
		}
		for _, s := range subs {
			w.Line("stream", s)
		}
		for _, s := range xsubs {
			w.Line("xstream", s)
		}
	}
	for i, k := 0, 4+r.Intn(36); i < k; i++ {
		if r.Chance(12, 100) { // the third collection, read through PartialFetch only
			if r.Chance(70, 100) {
				w.Line("t.set", genObj(r, snames).Token())
			} else {
				w.Line("t.del", wire.Pick(r, nss)+"/"+wire.Pick(r, snames))
			}
			continue
		}
		if len(xsubs) < 2 && r.Chance(4, 100) {
			name := fmt.Sprintf("x%d", len(xsubs)+1)
			xsubs = append(xsubs, name)
			w.Line("xsub", name, wire.Pick(r, []string{"single", "batch", "nostate"}))
			continue
		}
		if len(xsubs) > xunsubbed && r.Chance(3, 100) {
			w.Line("xunsub", xsubs[xunsubbed])
			xunsubbed++
			continue
		}
		switch x := r.Intn(100); {
		case x < 22:
			o := pobj()
			prim[o.ResourceName()] = true
			w.Line("p.set", o.Token())
		case x < 30:
			w.Line("p.del", wire.Pick(r, nss)+"/"+wire.Pick(r, pnames))
		case x < 55:
			w.Line("s.set", genObj(r, snames).Token())
		case x < 63:
			w.Line("s.del", wire.Pick(r, nss)+"/"+wire.Pick(r, snames))
		case x < 78:
			if r.Chance(70, 100) {
				w.Line("sync") // mostly at a quiescent point: the results kept under DiscardResult are then known
			}
			w.Line("x.set", cfgObj())
		case x < 84:
			w.Line("sync")
		case x < 91:
			nsub++
			name := fmt.Sprintf("s%d", nsub)
			w.Line("sub", name, wire.Pick(r, []string{"single", "batch", "batch", "nostate"}))
			subs = append(subs, name)
		case x < 95:
			var live []string
			for _, s := range subs {
				if !unsubbed[s] {
					live = append(live, s)
				}
			}
			sort.Strings(live)
			if len(live) > 0 {
				s := wire.Pick(r, live)
				unsubbed[s] = true
				w.Line("unsub", s)
			}
		default:
			queries()
		}
	}
	queries()
}
