package main

import (
	"fmt"
	"sort"
	"strings"
	"testing"
	"testing/synctest"
)

// Go-side evaluation of the property for the join streams and the memory store (independent of Lean).

func (r *joinRun) goSpec() map[string]Obj {
	res := map[string]Obj{}
	if r.merge {
		keys := map[string]bool{}
		for i, m := range r.state {
			if r.nested && !r.member[i] {
				continue
			}
			for k := range m {
				keys[k] = true
			}
		}
		for k := range keys {
			var found []Obj
			for i, m := range r.state {
				if r.nested && !r.member[i] {
					continue
				}
				if o, f := m[k]; f {
					found = append(found, o)
				}
			}
			if r.nested {
				if mo := mergeSortedSpec(found); mo != nil {
					res[k] = *mo
				}
				continue
			}
			if found[0].Val == "v3" {
				continue
			}
			var vals []string
			for _, o := range found {
				vals = append(vals, o.Val)
			}
			res[k] = Obj{NS: found[0].NS, Name: found[0].Name, Val: strings.Join(vals, "+")}
		}
		return res
	}
	for _, m := range r.state {
		for k, o := range m {
			if _, f := res[k]; !f {
				res[k] = o
			}
		}
	}
	return res
}

func mergeSortedSpec(found []Obj) *Obj {
	var vals []string
	for _, o := range found {
		vals = append(vals, o.Val)
	}
	sort.Strings(vals)
	return &Obj{NS: found[0].NS, Name: found[0].Name, Val: strings.Join(vals, "+")}
}

func tokensOf(m map[string]Obj, ns string) map[string]string {
	r := map[string]string{}
	for k, o := range m {
		if ns == "" || o.NS == ns {
			r[k] = o.Token()
		}
	}
	return r
}

func oracleJoinCase(t *testing.T, lines [][]string) string {
	verdict := "OK"
	fail := func(clause, detail string) {
		if verdict == "OK" || (strings.HasPrefix(verdict, "FAIL f6:") && !strings.HasPrefix(clause, "f6:")) {
			verdict = "FAIL " + clause + " " + detail
		}
	}
	synctest.Test(t, func(t *testing.T) {
		var r *joinRun
		defer func() {
			if x := recover(); x != nil {
				fail("crash", "panic")
			}
			if r != nil {
				r.close()
			}
			synctest.Wait()
		}()
		r = newJoinRun(lines[0]).(*joinRun)
		base := map[string]map[string]string{}
		for n, l := range lines[1:] {
			impl, trace := r.step(l)
			if impl == "crash" {
				fail("crash", fmt.Sprint(n))
				return
			}
			if l[0] == "sub" && len(l) == 3 && r.started {
				if l[2] == "nostate" {
					base[l[1]] = tokensOf(r.goSpec(), "")
				} else {
					base[l[1]] = map[string]string{}
				}
			}
			if !r.started || r.guard() != "" {
				continue
			}
			notU := func(k string) bool { return !r.inU(k) }
			where := fmt.Sprintf("op%d", n+1)
			spec := r.goSpec()
			switch l[0] {
			case "list", "ulist":
				real := map[string]string{}
				for _, o := range r.j.List() {
					real[o.ResourceName()] = o.Token()
				}
				if d := diffMaps(real, tokensOf(spec, ""), notU); d != "" {
					fail("list", where+":"+d)
				}
			case "get":
				if len(l) == 2 && !r.inU(l[1]) {
					o := r.j.GetKey(l[1])
					s, has := spec[l[1]]
					if (o == nil) == has || (o != nil && o.Token() != s.Token()) {
						fail("get", where+":"+l[1])
					}
				}
			case "lookup", "ulookup":
				if len(l) == 2 {
					real := map[string]string{}
					dup := false
					for _, o := range r.idx.Lookup(l[1]) {
						if _, f := real[o.ResourceName()]; f {
							dup = true
						}
						real[o.ResourceName()] = o.Token()
					}
					if d := diffMaps(real, tokensOf(spec, l[1]), notU); d != "" || dup {
						fail("lookup", where+":"+d)
					}
				}
			case "vlookup":
				if len(l) == 2 {
					real := map[string]string{}
					for _, o := range r.vidx.Lookup(l[1]) {
						real[o.ResourceName()] = o.Token()
					}
					want := map[string]string{}
					for k, o := range spec {
						if contains(strings.Split(o.Val, "+"), l[1]) {
							want[k] = o.Token()
						}
					}
					if d := diffMaps(real, want, notU); d != "" {
						fail("lookup", where+":v:"+d)
					}
				}
			case "stream", "ustream":
				toks := strings.Fields(trace)
				if sb := r.subs[toks[1]]; sb != nil && sb.unreg {
					continue // unregistered: the harness itself counts events that arrive later; contents are the Lean side's
				}
				if b, ok := base[toks[1]]; ok {
					if x := goMonitor(b, toks[2:], tokensOf(spec, ""), notU); x != "" {
						if r.flagged && r.nested && strings.Contains(x, "malformed") { // an event that names no key: known class
							fail("f6:stream", where+":"+x)
						} else {
							fail("stream", where+":"+x)
						}
					}
					if x := goMonitor(b, toks[2:], tokensOf(spec, ""), r.inU); x != "" {
						fail("f6:stream", where+":"+x)
					}
				}
			}
		}
	})
	return verdict
}

func okey(ns, name string) string {
	if ns == "-" {
		return name
	}
	return ns + "/" + name
}

func oracleMemCase(t *testing.T, lines [][]string) string {
	verdict := "OK"
	fail := func(clause, detail string) {
		if verdict == "OK" {
			verdict = "FAIL " + clause + " " + detail
		}
	}
	type mobj struct{ ns, val, rv string }
	synctest.Test(t, func(t *testing.T) {
		var r runner
		defer func() {
			if x := recover(); x != nil {
				fail("crash", "panic")
			}
			if r != nil {
				r.close()
			}
			synctest.Wait()
		}()
		r = newMemRun(lines[0][3:]...)
		cur := map[string]mobj{}
		base := map[string]map[string]string{}
		contents := func(ns string) map[string]string {
			m := map[string]string{}
			for k, o := range cur {
				if ns == "*" || o.ns == ns {
					m[k] = o.val + "@" + o.rv
				}
			}
			return m
		}
		show := func(m map[string]string) string {
			var es []string
			for k, v := range m {
				es = append(es, k+"~"+v)
			}
			sort.Strings(es)
			return strings.TrimSpace(fmt.Sprintf("n=%d %s", len(es), strings.Join(es, " ")))
		}
		for n, l := range lines[1:] {
			impl, trace := r.step(l)
			where := fmt.Sprintf("op%d", n+1)
			want := ""
			switch {
			case l[0] == "m.create" && len(l) == 5:
				k := okey(l[1], l[2])
				if _, f := cur[k]; f {
					want = "exists"
				} else {
					cur[k] = mobj{l[1], l[3], l[4]}
					want = "ok:" + l[4]
				}
			case (l[0] == "m.update" || l[0] == "m.status") && len(l) == 6:
				k := okey(l[1], l[2])
				o, f := cur[k]
				switch {
				case !f:
					want = "notfound"
				case l[4] != "-" && l[4] != o.rv:
					want = "conflict"
				default:
					cur[k] = mobj{l[1], l[3], l[5]}
					want = "ok:" + l[5]
				}
			case l[0] == "m.delete" && len(l) == 3:
				k := okey(l[1], l[2])
				if _, f := cur[k]; f {
					delete(cur, k)
					want = "ok"
				} else {
					want = "notfound"
				}
			case l[0] == "m.get" && len(l) == 3:
				if o, f := cur[okey(l[1], l[2])]; f {
					want = "m.get " + o.val + "@" + o.rv
				} else {
					want = "m.get none"
				}
			case l[0] == "m.list" && len(l) == 2:
				want = "m.list " + show(contents(l[1]))
			case l[0] == "m.handler" && len(l) == 2:
				base[l[1]] = contents("*")
				continue
			case l[0] == "stream" && len(l) == 2:
				toks := strings.Fields(trace)
				if b, ok := base[toks[1]]; ok {
					if x := goMonitor(b, toks[2:], contents("*"), all); x != "" {
						fail("stream", where+":"+x)
					}
				}
				continue
			default:
				continue
			}
			if impl != want {
				fail(strings.TrimPrefix(l[0], "m."), where+":"+impl+"!="+want)
			}
		}
	})
	return verdict
}
