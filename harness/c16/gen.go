package main

import (
	"fmt"
	"sort"
	"strings"

	"verifharness/internal/wire"
)

var (
	nss      = []string{"n1", "n2"}
	pnames   = []string{"a", "b", "c"}
	snames   = []string{"x", "y", "z"}
	lkeys    = []string{"l1", "l2"}
	lvals    = []string{"1", "2"}
	outKeys  = []string{"k1", "k2", "k3", "k4"}
	vals     = []string{"v1", "v2", "v3"}
	atomPool = []Atom{{Kind: "key"}, {Kind: "selects"}, {Kind: "selectsNE"}, {Kind: "label"}, {Kind: "nsIndex"}, {Kind: "valIndex"}, {Kind: "outIndex"}, {Kind: "nokeys"}, {Kind: "nilkeys"}, {Kind: "keys"}, {Kind: "objName"},
		{Kind: "generic", N: 0}, {Kind: "generic", N: 1}, {Kind: "generic", N: 2}}
)

func genTransform(r *wire.Rng) Transform {
	t := Transform{Multi: r.Chance(55, 100), Gate: r.Chance(35, 100)}
	if !t.Multi && r.Chance(35, 100) {
		t.ByVal = true
	}
	nf := 1
	switch x := r.Intn(100); {
	case x < 15:
		nf = 0
	case x < 60:
		nf = 1
	case x < 90:
		nf = 2
	default:
		nf = 3
	}
	// krt allows one of key / index per fetch (key+index panics, a second index replaces the first)
	pre := func(k string) bool {
		return k == "key" || k == "nsIndex" || k == "valIndex" || k == "outIndex" || k == "keys" || k == "nokeys" || k == "nilkeys" || k == "objName"
	}
	for i := 0; i < nf; i++ {
		f := []Atom{wire.Pick(r, atomPool)}
		want := 1
		switch x := r.Intn(100); {
		case x < 60:
		case x < 88:
			want = 2
		default:
			want = 3
		}
		for tries := 0; len(f) < want && tries < 8; tries++ {
			b := wire.Pick(r, atomPool)
			bad := false
			for _, a := range f {
				if a.Kind == b.Kind || (pre(a.Kind) && pre(b.Kind)) {
					bad = true
				}
			}
			if !bad {
				f = append(f, b)
			}
		}
		t.Fetches = append(t.Fetches, f)
	}
	return t
}

func genLabels(r *wire.Rng, dens int) map[string]string {
	m := map[string]string{}
	for _, k := range lkeys {
		if r.Chance(dens, 100) {
			m[k] = wire.Pick(r, lvals)
		}
	}
	return m
}

func genObj(r *wire.Rng, names []string) Obj {
	o := Obj{NS: wire.Pick(r, nss), Name: wire.Pick(r, names), Labels: genLabels(r, 60), Sel: genLabels(r, 35),
		Ref: wire.Pick(r, nss) + "/" + wire.Pick(r, snames), Val: wire.Pick(r, vals)}
	for _, k := range outKeys {
		if r.Chance(35, 100) {
			o.Outs = append(o.Outs, k)
		}
	}
	if len(o.Outs) > 0 && r.Chance(10, 100) {
		o.Outs = append(o.Outs, o.Outs[0]) // duplicate key inside one input (GroupUnique)
	}
	if r.Chance(6, 100) {
		o.Labels, o.LabelsNil = nil, true // a nil label map (FilterSelects(nil) matches everything)
	}
	return o
}

// genCase writes one case.  It tracks the same barrier discipline as the executors (disc): in the
// general stream an output key only changes parent across a barrier; in the f6 stream it moves
// without one (new parent first, old parent first, atomically through Reset, or via delete).
type caseGen struct {
	r         *wire.Rng
	t         Transform
	f6        bool
	d         *disc
	sec       map[string]Obj
	sec2      map[string]Obj
	punsubbed []string
	secmode   string
	chain     bool
	touched   map[string]int // sj: which of sec (1) / sec2 (2) changed the key since the last barrier
	lines     []string
	subs      []string
	psubs     []string
	dsubs     []string
	late      bool
	single1   bool
	nsub      int
	started   bool
}

// touch keeps the join discipline of mode sj: a fetched key is changed by one of sec / sec2 between barriers.
func (g *caseGen) touch(k string, side int) {
	if g.secmode != "sj" || !g.started {
		return
	}
	if t, f := g.touched[k]; f && t != side {
		g.sync()
	}
	g.touched[k] = side
}

func (g *caseGen) sdel(k string) {
	g.touch(k, 1)
	delete(g.sec, k)
	g.emit("s.del", k)
}

func (g *caseGen) tset(o Obj) {
	g.touch(o.ResourceName(), 2)
	g.sec2[o.ResourceName()] = o
	g.emit("t.set", o.Token())
}

func (g *caseGen) emit(toks ...string) {
	g.d.noteOp(toks[0])
	g.lines = append(g.lines, strings.Join(toks, " "))
}

func (g *caseGen) primKeys() []string {
	ks := make([]string, 0, len(g.d.prim))
	for k := range g.d.prim {
		ks = append(ks, k)
	}
	sort.Strings(ks)
	return ks
}

func (g *caseGen) secKeys() []string {
	ks := make([]string, 0, len(g.sec))
	for k := range g.sec {
		ks = append(ks, k)
	}
	sort.Strings(ks)
	return ks
}

// claimConflict: would input p claiming k be an unsafe move (or a second current claimant)?
func (g *caseGen) claimConflict(p, k string) bool {
	if g.started && g.d.claimedByOther(p, k) {
		return true
	}
	for q, other := range g.d.prim { // never two current claimants (also before start)
		if q != p && contains(claims(g.t, other), k) {
			return true
		}
	}
	return false
}

// safeOuts makes the claims of o safe: unsafe output keys are dropped (one-to-many); for the one-to-one
// shape keyed by the value another value is chosen.
func (g *caseGen) safeOuts(o Obj) Obj {
	p := o.ResourceName()
	return keepClaims(g.t, o, func(k string) bool { return !g.claimConflict(p, k) })
}

func (g *caseGen) pset(o Obj) {
	if g.single1 { // a singleton has no input collection: change the fetched collection instead
		g.sset(genObj(g.r, snames))
		return
	}
	g.d.primSet(o)
	if g.r.Chance(10, 100) {
		g.emit("p.cset", o.Token())
	} else {
		g.emit("p.set", o.Token())
	}
}

func (g *caseGen) pdel(k string) {
	if g.single1 {
		return
	}
	g.d.primDel(k)
	g.emit("p.del", k)
}

func (g *caseGen) sset(o Obj) {
	g.touch(o.ResourceName(), 1)
	g.sec[o.ResourceName()] = o
	if g.r.Chance(10, 100) {
		g.emit("s.cset", o.Token())
	} else {
		g.emit("s.set", o.Token())
	}
}

func (g *caseGen) sync() {
	g.d.barrier()
	g.touched = map[string]int{}
	g.emit("sync")
}

func (g *caseGen) queries() {
	g.d.barrier()
	g.touched = map[string]int{}
	g.emit("list")
	var keys []string
	if g.t.Multi {
		keys = outKeys
	} else if g.t.ByVal {
		for _, v := range bigVals {
			keys = append(keys, "val/"+v)
		}
	} else {
		for _, ns := range nss {
			for _, n := range pnames {
				keys = append(keys, ns+"/"+n)
			}
		}
	}
	for _, k := range keys {
		if g.r.Chance(50, 100) {
			g.emit("get", k)
		}
	}
	for _, ns := range nss {
		g.emit("lookup", ns)
	}
	for _, s := range g.subs {
		g.emit("stream", s)
	}
	for _, s := range g.psubs {
		g.emit("pstream", s)
	}
	for _, s := range g.dsubs {
		g.emit("dstream", s)
	}
	if g.late {
		for _, ns := range nss {
			for _, n := range snames {
				if g.r.Chance(50, 100) {
					g.emit("flookup", ns+"/"+n)
				}
			}
		}
	}
	if g.f6 {
		g.emit("ulist")
		for _, ns := range nss {
			g.emit("ulookup", ns)
		}
		for _, s := range g.subs {
			g.emit("ustream", s)
		}
	}
}

func (g *caseGen) addSub(kind string) {
	g.nsub++
	name := fmt.Sprintf("s%d", g.nsub)
	// on the observed collection, on the primary static collection, or on the first-level derived collection
	switch x := g.r.Intn(100); {
	case x < 20 || !g.started:
		g.emit("psub", name, kind)
		g.psubs = append(g.psubs, name)
		return
	case x < 40 && g.started:
		if kind == "nostate" {
			g.d.barrier()
			g.touched = map[string]int{}
		}
		g.emit("dsub", name, kind)
		g.dsubs = append(g.dsubs, name)
		return
	}
	if kind == "nostate" {
		g.d.barrier()
		g.touched = map[string]int{}
	}
	g.emit("sub", name, kind)
	g.subs = append(g.subs, name)
}

// owner returns the current parent of key k (multi only).
func (g *caseGen) owner(k string) (string, bool) {
	for _, p := range g.primKeys() {
		if contains(claims(g.t, g.d.prim[p]), k) {
			return p, true
		}
	}
	return "", false
}

func without(l []string, x string) []string {
	var out []string
	for _, y := range l {
		if y != x {
			out = append(out, y)
		}
	}
	return out
}

// withDuplicate: the same key twice in one Reset (krt/files.NewFileCollection does not deduplicate what it
// read): an earlier occurrence with another payload and the same claims, which the later one replaces.
func withDuplicate(r *wire.Rng, toks []string, keepVal, newOuts bool) []string {
	if len(toks) < 2 || !r.Chance(25, 100) {
		return toks
	}
	j := 1 + r.Intn(len(toks)-1)
	o, ok := parseObj(toks[j])
	if !ok {
		return toks
	}
	if r.Chance(75, 100) { // otherwise the very same object twice
		o.Labels = genLabels(r, 60)
		if !keepVal {
			o.Val = wire.Pick(r, vals)
		}
		if newOuts { // other index keys (idxc): the entries of the replaced occurrence must go away
			o.Outs = genObj(r, pnames).Outs
		}
	}
	i := 1 + r.Intn(j)
	out := append([]string{}, toks[:i]...)
	out = append(out, o.Token())
	return append(out, toks[i:]...)
}

// moveKey moves one output key from its parent to another input.
func (g *caseGen) moveKey() {
	if !(g.t.Multi || g.t.ByVal) || len(g.d.prim) == 0 {
		return
	}
	k := wire.Pick(g.r, outKeys)
	if g.t.ByVal { // a key some input holds now
		k = claims(g.t, g.d.prim[wire.Pick(g.r, g.primKeys())])[0]
	}
	oldP, ok := g.owner(k)
	if !ok {
		return
	}
	old := g.d.prim[oldP]
	// the new parent: an existing other input or a fresh one
	var np Obj
	cands := without(g.primKeys(), oldP)
	if len(cands) > 0 && g.r.Chance(70, 100) {
		np = g.d.prim[wire.Pick(g.r, cands)]
	} else {
		np = g.safeOuts(genObj(g.r, pnames))
		if np.ResourceName() == oldP {
			return
		}
		if cur, f := g.d.prim[np.ResourceName()]; f {
			np = cur
		}
	}
	oldNew := old
	if g.t.ByVal {
		np.Val = strings.TrimPrefix(k, "val/")
		oldNew.Val = "rel-" + strings.ReplaceAll(oldP, "/", "-") // the old parent moves to a value of its own
	} else {
		np.Outs = append(append([]string{}, np.Outs...), k)
		oldNew.Outs = without(old.Outs, k)
	}
	if !g.f6 {
		// disciplined: old parent drops the key, barrier, new parent takes it
		if g.r.Chance(30, 100) {
			g.pdel(oldP)
		} else {
			g.pset(oldNew)
		}
		g.sync()
		g.pset(np)
		return
	}
	switch g.r.Intn(6) {
	case 5: // two claimants of one key across a quiescent point, then the old one lets go
		g.pset(np)
		g.sync()
		if g.r.Chance(50, 100) {
			g.queries()
		}
		g.pset(oldNew)
	case 0: // new parent first (the deterministic witness of F6)
		g.pset(np)
		g.pset(oldNew)
	case 1: // old parent first, no barrier
		g.pset(oldNew)
		g.pset(np)
	case 2: // atomic, through Reset
		var objs []Obj
		for _, p := range g.primKeys() {
			switch p {
			case oldP:
				objs = append(objs, oldNew)
			case np.ResourceName():
			default:
				objs = append(objs, g.d.prim[p])
			}
		}
		if g.r.Chance(50, 100) {
			objs = append([]Obj{np}, objs...)
		} else {
			objs = append(objs, np)
		}
		g.d.primReset(objs)
		toks := []string{"p.reset"}
		for _, o := range objs {
			toks = append(toks, o.Token())
		}
		g.emit(toks...)
	case 3: // new parent first, then the old parent is deleted
		g.pset(np)
		g.pdel(oldP)
	default: // old parent deleted, new parent takes the key at once
		g.pdel(oldP)
		g.pset(np)
	}
}

func (g *caseGen) op() {
	r := g.r
	x := r.Intn(100)
	switch {
	case x < 28: // add / change an input
		g.pset(g.safeOuts(genObj(r, pnames)))
	case x < 33: // no-op update of an input
		if ks := g.primKeys(); len(ks) > 0 {
			g.pset(g.d.prim[wire.Pick(r, ks)])
		}
	case x < 42:
		if ks := g.primKeys(); len(ks) > 0 {
			g.pdel(wire.Pick(r, ks))
		} else {
			g.pdel("n1/a")
		}
	case x < 64: // add / change a fetched object
		g.sset(genObj(r, snames))
	case x < 67:
		if ks := g.secKeys(); len(ks) > 0 {
			g.sset(g.sec[wire.Pick(r, ks)])
		}
	case x < 74:
		if r.Chance(12, 100) { // DeleteObjects on one namespace
			ns := wire.Pick(r, nss)
			if r.Chance(50, 100) && !g.single1 {
				for _, p := range g.primKeys() {
					if g.d.prim[p].NS == ns {
						g.d.primDel(p)
					}
				}
				g.emit("p.delwhere", ns)
			} else {
				for _, k := range g.secKeys() {
					if g.sec[k].NS == ns {
						g.touch(k, 1)
						delete(g.sec, k)
					}
				}
				g.emit("s.delwhere", ns)
			}
		} else if ks := g.secKeys(); len(ks) > 0 {
			g.sdel(wire.Pick(r, ks))
		} else {
			g.sdel("n1/x")
		}
	case x < 79: // rapid flip A B A of one object
		if r.Chance(50, 100) {
			a := g.safeOuts(genObj(r, pnames))
			b := a
			b.Val = wire.Pick(r, vals)
			b.Labels = genLabels(r, 60)
			b.Sel = genLabels(r, 35)
			g.pset(a)
			if r.Chance(30, 100) {
				g.pdel(a.ResourceName())
			} else {
				g.pset(b)
			}
			g.pset(a)
		} else {
			a := genObj(r, snames)
			b := a
			b.Val = wire.Pick(r, vals)
			b.Labels = genLabels(r, 60)
			b.Sel = genLabels(r, 35)
			g.sset(a)
			if r.Chance(30, 100) {
				g.sdel(a.ResourceName())
			} else {
				g.sset(b)
			}
			g.sset(a)
		}
	case x < 86:
		g.sync()
	case x < 89: // Reset of the inputs: drops some, changes payloads, claims stay where they are
		if g.single1 {
			break
		}
		var objs []Obj
		toks := []string{"p.reset"}
		for _, p := range g.primKeys() {
			if r.Chance(70, 100) {
				o := g.d.prim[p]
				if r.Chance(50, 100) {
					if g.t.ByVal { // keyed by the value: the claim stays
						o.Labels = genLabels(r, 60)
					} else {
						o.Val = wire.Pick(r, vals)
					}
				}
				objs = append(objs, o)
				toks = append(toks, o.Token())
			}
		}
		g.d.primReset(objs)
		g.emit(withDuplicate(r, toks, g.t.ByVal, false)...)
	case x < 92 && (g.secmode == "sj" || g.secmode == "sm" || g.secmode == "sn"): // changes of the second joined collection instead of a Reset
		if ks := g.sec2Keys(); len(ks) > 0 && r.Chance(35, 100) {
			k := wire.Pick(r, ks)
			g.touch(k, 2)
			delete(g.sec2, k)
			g.emit("t.del", k)
		} else {
			g.tset(genObj(r, snames))
		}
	case x < 92: // Reset of the fetched collection
		toks := []string{"s.reset"}
		ns := map[string]Obj{}
		for _, k := range g.secKeys() {
			if r.Chance(60, 100) {
				o := g.sec[k]
				if r.Chance(50, 100) {
					o.Labels = genLabels(r, 60)
				}
				ns[k] = o
				toks = append(toks, o.Token())
			}
		}
		if r.Chance(50, 100) {
			o := genObj(r, snames)
			if _, f := ns[o.ResourceName()]; !f {
				ns[o.ResourceName()] = o
				toks = append(toks, o.Token())
			}
		}
		g.sec = ns
		g.emit(withDuplicate(r, toks, false, false)...)
	case x < 95:
		g.addSub(wire.Pick(r, []string{"single", "batch", "batch", "nostate"}))
	case x < 97:
		if !g.late && r.Chance(40, 100) {
			g.late = true
			g.emit("lateindex")
		} else {
			g.queries()
		}
	default:
		g.moveKey()
	}
	if (g.secmode == "s2" || g.secmode == "sj" || g.secmode == "sm" || g.secmode == "sn") && r.Chance(25, 100) {
		if ks := g.sec2Keys(); len(ks) > 0 && r.Chance(30, 100) {
			k := wire.Pick(r, ks)
			g.touch(k, 2)
			delete(g.sec2, k)
			g.emit("t.del", k)
		} else {
			g.tset(genObj(r, snames))
		}
	}
}

func (g *caseGen) sec2Keys() []string {
	ks := make([]string, 0, len(g.sec2))
	for k := range g.sec2 {
		ks = append(ks, k)
	}
	sort.Strings(ks)
	return ks
}

func genCase(r *wire.Rng, n int, stream string, w *wire.Out) {
	g := &caseGen{r: r, t: genTransform(r), f6: stream == "krtf6", sec: map[string]Obj{}, sec2: map[string]Obj{},
		touched: map[string]int{}}
	if g.f6 && !g.t.Multi && !g.t.ByVal { // keys must be able to move between parents
		g.t.Multi = r.Chance(70, 100)
		g.t.ByVal = !g.t.Multi
	}
	g.d = newDisc(g.t, g.f6)
	head := []string{"case", fmt.Sprint(n), stream, g.t.Token()}
	if g.f6 {
		head = append(head, "f6")
	}
	if r.Chance(25, 100) {
		head = append(head, "chain")
		g.chain = true
	}
	switch x := r.Intn(100); {
	case x < 11:
		g.secmode = "sd"
	case x < 23:
		g.secmode = "sj"
	case x < 34:
		g.secmode = "s2"
	case x < 40:
		g.secmode = "sm"
	case x < 46:
		g.secmode = "sn"
	case x < 52:
		g.secmode = "sp"
	case x < 58:
		g.secmode = "ss"
	}
	if g.secmode != "" {
		head = append(head, g.secmode)
	}
	g.d.primIsSec = g.secmode == "sp" || g.secmode == "ss"
	single1 := !g.f6 && !g.d.primIsSec && r.Chance(8, 100)
	if single1 {
		g.t.ByVal = false // Multi: krt.NewManyFromNothing, else krt.NewSingleton
		head[3] = g.t.Token()
		head = append(head, "single1")
		g.single1 = true
		g.d = newDisc(g.t, false)
		g.d.prim[singletonInput.ResourceName()] = singletonInput
	}
	g.emit(head...)
	// initial state present before the derived collection exists
	for i, k := 0, r.Intn(6); i < k; i++ {
		switch x := r.Intn(100); {
		case x < 45:
			g.pset(g.safeOuts(genObj(r, pnames)))
		case x < 80 || g.secmode == "" || g.secmode == "sd" || g.secmode == "sp" || g.secmode == "ss":
			g.sset(genObj(r, snames))
		default:
			g.tset(genObj(r, snames))
		}
	}
	if r.Chance(15, 100) {
		g.addSub("batch") // may be a subscriber of the primary collection registered before the derived one exists
	}
	g.emit("start")
	g.started = true
	g.d.started = true
	g.d.barrier()
	for i, k := 0, r.Intn(3); i < k; i++ {
		g.addSub(wire.Pick(r, []string{"single", "batch"}))
	}
	nops := 3 + r.Intn(38)
	burstAt := -1
	if !g.t.ByVal && !g.single1 && r.Chance(2, 100) {
		burstAt = r.Intn(nops)
	}
	for i := 0; i < nops; i++ {
		if i == burstAt {
			// more than 1024 batches for a handler that cannot take them (the ring buffer of its queue grows)
			g.nsub++
			name := fmt.Sprintf("s%d", g.nsub)
			g.emit("sub", name, "gated")
			g.subs = append(g.subs, name)
			o := g.safeOuts(genObj(r, pnames))
			n := 1030 + r.Intn(120)
			o.Val = "b" + fmt.Sprint((n-1)%2)
			g.d.primSet(o)
			g.emit("burst", o.Token(), fmt.Sprint(n))
			continue
		}
		if len(g.psubs) > len(g.punsubbed) && r.Chance(2, 100) {
			for _, s := range g.psubs {
				if !contains(g.punsubbed, s) {
					g.punsubbed = append(g.punsubbed, s)
					g.d.barrier()
					g.touched = map[string]int{}
					g.emit("punsub", s)
					break
				}
			}
			continue
		}
		if g.f6 && r.Chance(15, 100) {
			g.moveKey()
			continue
		}
		g.op()
	}
	if r.Chance(3, 100) {
		g.emit("p.set", "garbage")
	}
	g.queries()
	for _, l := range g.lines {
		w.Line(l)
	}
}

func gen(stream string, seed uint64, n int, out string) {
	w := wire.Create(out)
	defer w.Close()
	root := wire.NewRng(seed*1000003 + uint64(len(stream)))
	for i := 0; i < n; i++ {
		if strings.HasPrefix(stream, "misc") {
			genMiscCase(root.Fork(), i, w)
		} else if strings.HasPrefix(stream, "inf") {
			genInfCase(root.Fork(), i, w)
		} else if strings.HasPrefix(stream, "idxc") {
			genIdxcCase(root.Fork(), i, w)
		} else if strings.HasPrefix(stream, "joinx") {
			genJoinxCase(root.Fork(), i, w)
		} else if strings.HasPrefix(stream, "exact") {
			genExactCase(root.Fork(), i, w)
		} else if strings.HasPrefix(stream, "mem") {
			genMemCase(root.Fork(), i, w)
		} else if strings.HasPrefix(stream, "join") {
			genJoinCase(root.Fork(), i, stream, w)
		} else {
			genCase(root.Fork(), i, stream, w)
		}
	}
}
