// Harness for C16: builds REAL krt collections (static inputs, NewCollection / NewManyCollection
// with a transformation function that interprets the data-described Transform, krt.Fetch with
// the krt.Filter* options, krt.NewIndex), applies a history, and records what the property
// speaks about: List / GetKey / Index.Lookup at quiescent points and every subscriber's stream.
//
//	c16 gen    <stream> <seed> <ncases> <ops-out>
//	c16 exec   <stream> <ops-in> <impl-out>        also writes <impl-out>.trace (ops + recorded streams)
//	c16 oracle <stream> <ops-in> <verdict-out>
//
// Streams: krt (disciplined histories), krtf6 (keys move between parents without a barrier).
// Quiescence is exact: every case runs inside a testing/synctest bubble and synctest.Wait()
// returns when all goroutines of the bubble (krt queues and handler pumps) are durably blocked.
package main

import (
	"fmt"
	"os"
	"runtime"
	"strconv"
	"testing"

	_ "verifharness/internal/quiet"
)

// contention: C16_BUSY=<n> starts n goroutines outside the synctest bubbles that keep the scheduler busy
// (spinning and yielding), so that a replayed racy case meets other interleavings of the krt goroutines than
// an idle machine gives it (GOMAXPROCS is varied by the caller).
func contention() {
	n, _ := strconv.Atoi(os.Getenv("C16_BUSY"))
	for i := 0; i < n; i++ {
		go func(i int) {
			x := uint64(i) + 1
			for {
				for k := 0; k < 2000+137*i; k++ {
					x = x*6364136223846793005 + 1442695040888963407
				}
				if x%3 == 0 {
					runtime.Gosched()
				}
			}
		}(i)
	}
}

func inTest(f func(t *testing.T)) {
	contention()
	os.Args = os.Args[:1]
	testing.Init()
	testing.Main(func(pat, str string) (bool, error) { return true, nil },
		[]testing.InternalTest{{Name: "c16", F: f}}, nil, nil)
}

func main() {
	if len(os.Args) < 2 {
		fmt.Fprintln(os.Stderr, "usage: c16 gen|exec|oracle ...")
		os.Exit(2)
	}
	args := append([]string(nil), os.Args...)
	switch args[1] {
	case "gen":
		seed, _ := strconv.ParseUint(args[3], 10, 64)
		n, _ := strconv.Atoi(args[4])
		gen(args[2], seed, n, args[5])
	case "exec":
		inTest(func(t *testing.T) { execOps(t, args[3], args[4]) })
	case "table":
		if len(args) == 4 && args[2] == "regfacts" {
			writeRegFacts(args[3])
		} else {
			os.Exit(2)
		}
	case "oracle":
		inTest(func(t *testing.T) { oracleOps(t, args[3], args[4]) })
	default:
		os.Exit(2)
	}
}
