package main

import (
	"fmt"
	"strconv"
	"strings"
	"testing/synctest"

	"istio.io/istio/pkg/kube/krt"
	"verifharness/internal/wire"
)

// joinxRun: the real checked JoinCollection over static collections, one change at a time with a barrier
// after each; the Lean side runs JoinModel.lean (refreshEvents on live contents) and must print the
// same events and the same List() at every step.  Lean: stepJX in ExactDriver.lean.
type joinxRun struct {
	r    *joinRun
	sub  *subscriber
	seen int
}

func newJoinxRun(head []string) runner {
	return &joinxRun{r: newJoinRun(head).(*joinRun)}
}

func (x *joinxRun) close() { x.r.close() }

func (x *joinxRun) show() string {
	synctest.Wait()
	evs := x.sub.snapshot()
	step := evs[x.seen:]
	x.seen = len(evs)
	s := fmt.Sprintf("e=%d", len(step))
	for _, e := range step {
		s += " " + e
	}
	return s + " | " + showObjs(x.r.j.List(), all)
}

func (x *joinxRun) step(toks []string) (string, string) {
	line := strings.Join(toks, " ")
	switch {
	case toks[0] == "start" && len(toks) == 1:
		x.r.start()
		x.sub = &subscriber{}
		x.r.j.RegisterBatch(func(es []krt.Event[Obj]) {
			for _, e := range es {
				x.sub.add(evToken(e, func(o Obj) string { return o.Token() }))
			}
		}, true)
		synctest.Wait()
		return "ok", line
	case toks[0] == "c.set" && len(toks) == 3:
		i, err := strconv.Atoi(toks[1])
		o, ok := parseObj(toks[2])
		if err != nil || !ok || i < 0 || i >= len(x.r.cols) || !x.r.started {
			return "bad-op", line
		}
		x.r.cols[i].UpdateObject(o)
		return x.show(), line
	case toks[0] == "c.del" && len(toks) == 3:
		i, err := strconv.Atoi(toks[1])
		if err != nil || i < 0 || i >= len(x.r.cols) || !x.r.started {
			return "bad-op", line
		}
		x.r.cols[i].DeleteObject(toks[2])
		return x.show(), line
	}
	return "bad-op", line
}

func genJoinxCase(r *wire.Rng, n int, w *wire.Out) {
	ncols := 2 + r.Intn(2)
	w.Line("case", fmt.Sprint(n), "joinx", strconv.Itoa(ncols))
	w.Line("start")
	for i, k := 0, 5+r.Intn(40); i < k; i++ {
		c := strconv.Itoa(r.Intn(ncols))
		if r.Chance(65, 100) {
			o := Obj{NS: wire.Pick(r, nss), Name: wire.Pick(r, pnames), Labels: genLabels(r, 30), Val: wire.Pick(r, vals)}
			w.Line("c.set", c, o.Token())
		} else {
			w.Line("c.del", c, wire.Pick(r, nss)+"/"+wire.Pick(r, pnames))
		}
	}
}
