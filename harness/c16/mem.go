package main

import (
	"fmt"
	"sort"
	"strings"
	"testing/synctest"
	"time"

	networking "istio.io/api/networking/v1alpha3"
	"istio.io/istio/pilot/pkg/config/memory"
	"istio.io/istio/pilot/pkg/model"
	"istio.io/istio/pkg/config"
	"istio.io/istio/pkg/config/schema/collections"
	"istio.io/istio/pkg/config/schema/gvk"
	"verifharness/internal/wire"
)

// memRun drives the real in-memory config store (pilot/pkg/config/memory): Create / Update / Delete /
// Get / List and event handlers.  Lean: MemDriver.lean.
type memRun struct {
	kind    config.GroupVersionKind // ServiceEntry, or VirtualService for cases flagged `vs`
	ctl     *memory.Controller
	stop    chan struct{}
	subs    map[string]*subscriber
	running bool
}

func newMemRun(flags ...string) runner {
	r := &memRun{kind: gvk.ServiceEntry, ctl: memory.NewController(collections.Pilot, true), stop: make(chan struct{}), subs: map[string]*subscriber{}}
	if contains(flags, "vs") {
		r.kind = gvk.VirtualService
	}
	if contains(flags, "lr") {
		// late run: the store is written to (and handlers are registered) before Run marks its static collections
		// synced - "marked as synced on run to allow clients to store data before the store is marked as synced"
		return r
	}
	r.running = true
	go r.ctl.Run(r.stop)
	return r
}

func (r *memRun) close() {
	if !r.running { // only Run closes the store's own stop channel
		r.running = true
		go r.ctl.Run(r.stop)
	}
	close(r.stop)
}

func memNS(ns string) string {
	if ns == "-" {
		return "" // cluster-scoped
	}
	return ns
}

func (r *memRun) cfg(ns, name, val, rv string) config.Config {
	c := memCfg(ns, name, val, rv)
	if r.kind == gvk.VirtualService {
		c.GroupVersionKind = gvk.VirtualService
		c.Spec = &networking.VirtualService{Hosts: []string{val + ".example.com"}}
	}
	return c
}

func memCfg(ns, name, val, rv string) config.Config {
	ns = memNS(ns)
	return config.Config{
		Meta: config.Meta{
			GroupVersionKind:  gvk.ServiceEntry,
			Name:              name,
			Namespace:         ns,
			Labels:            map[string]string{"val": val},
			ResourceVersion:   rv,
			CreationTimestamp: time.Unix(1000, 0),
		},
		Spec: &networking.ServiceEntry{Hosts: []string{val + ".example.com"}},
	}
}

func memTok(c config.Config) string { return c.Labels["val"] + "@" + c.ResourceVersion }

func memKey(c config.Config) string {
	if c.Namespace == "" {
		return c.Name
	}
	return c.Namespace + "/" + c.Name
}

func memErr(err error) string {
	switch {
	case err == nil:
		return "ok"
	case strings.Contains(err.Error(), "not found"):
		return "notfound"
	case strings.Contains(err.Error(), "already exists"):
		return "exists"
	case strings.Contains(err.Error(), "conflicting resource version"):
		return "conflict"
	}
	return "error"
}

func (r *memRun) step(toks []string) (string, string) {
	line := strings.Join(toks, " ")
	switch {
	case toks[0] == "m.create" && len(toks) == 5:
		rv, err := r.ctl.Create(r.cfg(toks[1], toks[2], toks[3], toks[4]))
		if err != nil {
			return memErr(err), line
		}
		return "ok:" + rv, line
	case (toks[0] == "m.update" || toks[0] == "m.status") && len(toks) == 6:
		rv := toks[4]
		if rv == "-" {
			rv = ""
		}
		c := r.cfg(toks[1], toks[2], toks[3], rv)
		c.Annotations = map[string]string{memory.ResourceVersion: toks[5]}
		var nrv string
		var err error
		if toks[0] == "m.status" {
			nrv, err = r.ctl.UpdateStatus(c)
		} else {
			nrv, err = r.ctl.Update(c)
		}
		if err != nil {
			return memErr(err), line
		}
		return "ok:" + nrv, line
	case toks[0] == "m.run" && len(toks) == 1:
		if !r.running {
			if r.ctl.HasSynced() {
				return "synced-before-run", line
			}
			r.running = true
			go r.ctl.Run(r.stop)
			synctest.Wait()
			if !r.ctl.HasSynced() {
				return "not-synced-after-run", line
			}
		}
		return "ok", line
	case toks[0] == "m.delete" && len(toks) == 3:
		return memErr(r.ctl.Delete(r.kind, toks[2], memNS(toks[1]), nil)), line
	case toks[0] == "m.get" && len(toks) == 3:
		c := r.ctl.Get(r.kind, toks[2], memNS(toks[1]))
		if c == nil {
			return "m.get none", line
		}
		want := toks[1] + "/" + toks[2]
		if toks[1] == "-" {
			want = toks[2]
		}
		if memKey(*c) != want {
			return "m.get wrong-key", line
		}
		return "m.get " + memTok(*c), line
	case toks[0] == "m.list" && len(toks) == 2:
		ns := toks[1]
		if ns == "*" {
			ns = model.NamespaceAll
		}
		var es []string
		for _, c := range r.ctl.List(r.kind, ns) {
			es = append(es, memKey(c)+"~"+memTok(c))
		}
		sort.Strings(es)
		s := fmt.Sprintf("n=%d", len(es))
		for _, e := range es {
			s += " " + e
		}
		return "m.list " + s, line
	case toks[0] == "m.handler" && len(toks) == 2:
		synctest.Wait()
		s := &subscriber{}
		r.subs[toks[1]] = s
		r.ctl.RegisterEventHandler(r.kind, func(old, cur config.Config, ev model.Event) {
			switch ev {
			case model.EventAdd:
				s.add("A~" + memKey(cur) + "~" + memTok(cur))
			case model.EventUpdate:
				if memKey(old) != memKey(cur) {
					s.add("X~update-key-change")
				} else {
					s.add("U~" + memKey(cur) + "~" + memTok(old) + "~" + memTok(cur))
				}
			case model.EventDelete:
				s.add("D~" + memKey(cur) + "~" + memTok(cur))
			default:
				s.add("X~unknown-type")
			}
		})
		return "ok", line
	case toks[0] == "stream" && len(toks) == 2:
		synctest.Wait()
		s := r.subs[toks[1]]
		if s == nil {
			return "stream unknown-subscriber", line
		}
		return "stream accept", strings.Join(append([]string{"stream", toks[1]}, s.snapshot()...), " ")
	}
	return "bad-op", line
}

func genMemCase(r *wire.Rng, n int, w *wire.Out) {
	head := []string{"case", fmt.Sprint(n), "mem"}
	if r.Chance(40, 100) {
		head = append(head, "vs") // a second kind: VirtualService
	}
	runAt := -1
	if r.Chance(30, 100) {
		head = append(head, "lr") // the store runs (is marked synced) only after some operations
	}
	w.Line(head...)
	type obj struct{ rv string }
	cur := map[string]obj{}
	var subs []string
	nrv := 0
	newRV := func() string { nrv++; return fmt.Sprintf("r%d", nrv) }
	names := []string{"a", "b", "c"}
	nops := 4 + r.Intn(40)
	if contains(head, "lr") {
		runAt = r.Intn(nops + 1) // nops: never, the final queries find an unsynced store
	}
	for i := 0; i < nops; i++ {
		if i == runAt {
			w.Line("m.run")
		}
		ns, name := wire.Pick(r, []string{"n1", "n2", "n1", "n2", "-"}), wire.Pick(r, names)
		if len(cur) > 0 && r.Chance(60, 100) { // prefer an existing object
			ks := make([]string, 0, len(cur))
			for k := range cur {
				ks = append(ks, k)
			}
			sort.Strings(ks)
			p := strings.SplitN(wire.Pick(r, ks), "/", 2)
			if len(p) == 2 {
				ns, name = p[0], p[1]
			} else {
				ns, name = "-", p[0]
			}
		}
		k := ns + "/" + name
		if ns == "-" {
			k = name
		}
		switch x := r.Intn(100); {
		case x < 25:
			if _, f := cur[k]; f && r.Chance(70, 100) { // mostly create something new
				ns, name = wire.Pick(r, nss), wire.Pick(r, names)
				k = ns + "/" + name
			}
			rv := newRV()
			w.Line("m.create", ns, name, wire.Pick(r, vals), rv)
			if _, f := cur[k]; !f {
				cur[k] = obj{rv}
			}
		case x < 55:
			rv := "-"
			if o, f := cur[k]; f && r.Chance(50, 100) {
				rv = o.rv
			} else if r.Chance(30, 100) {
				rv = "stale"
			}
			nr := newRV()
			w.Line(wire.Pick(r, []string{"m.update", "m.update", "m.status"}), ns, name, wire.Pick(r, vals), rv, nr)
			if o, f := cur[k]; f && (rv == "-" || rv == o.rv) {
				cur[k] = obj{nr}
			}
		case x < 70:
			w.Line("m.delete", ns, name)
			delete(cur, k)
		case x < 80:
			w.Line("m.get", ns, name)
		case x < 88:
			w.Line("m.list", wire.Pick(r, []string{"n1", "n2", "*"}))
		case x < 94:
			if len(subs) < 3 {
				s := fmt.Sprintf("h%d", len(subs)+1)
				subs = append(subs, s)
				w.Line("m.handler", s)
			}
		default:
			for _, s := range subs {
				w.Line("stream", s)
			}
		}
	}
	w.Line("m.list", "*")
	w.Line("m.list", "n1")
	w.Line("m.list", "n2")
	for _, s := range subs {
		w.Line("stream", s)
	}
}
