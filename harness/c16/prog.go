package main

import (
	"fmt"
	"sort"
	"strconv"
	"strings"
	"sync"
	"sync/atomic"
	"testing"
	"testing/synctest"
	"time"

	"k8s.io/apimachinery/pkg/types"

	"istio.io/istio/pkg/kube/controllers"
	"istio.io/istio/pkg/kube/krt"
	"verifharness/internal/wire"
)

// ---------------------------------------------------------------- barrier discipline (mirrors Driver.lean)

type disc struct {
	T       Transform
	flagged bool
	started bool
	prim    map[string]Obj
	order   []string // insertion order is irrelevant; kept for determinism of iteration
	claimed map[string][]string
	unsafeK []string
	// a fetched collection changed since the last barrier and the transformation fetches (Lean: secDirty)
	secDirty bool
	// the fetched collection is (derived from) the primary collection itself: modes sp / ss
	primIsSec bool
}

// noteOp: bookkeeping by the name of the op (Lean: the first line of stepD).
func (d *disc) noteOp(op string) {
	if d.started && len(d.T.Fetches) > 0 && (strings.HasPrefix(op, "s.") || strings.HasPrefix(op, "t.") ||
		(d.primIsSec && strings.HasPrefix(op, "p."))) {
		d.secDirty = true
	}
}

func (d *disc) currentByOther(p, k string) bool {
	for q, o := range d.prim {
		if q != p && contains(d.claimsOf(o), k) {
			return true
		}
	}
	return false
}

func newDisc(t Transform, flagged bool) *disc {
	return &disc{T: t, flagged: flagged, prim: map[string]Obj{}, claimed: map[string][]string{}}
}

func (d *disc) claimsOf(o Obj) []string { return claims(d.T, o) }

func (d *disc) claimedByOther(p, k string) bool {
	for q, ks := range d.claimed {
		if q != p && contains(ks, k) {
			return true
		}
	}
	return false
}

func (d *disc) noteSet(o Obj) {
	if !d.started {
		return
	}
	p := o.ResourceName()
	cl := d.claimsOf(o)
	for _, k := range cl {
		bad := d.claimedByOther(p, k)
		if d.flagged { // the known class exactly: the new parent can be applied before the old one released the key
			bad = bad && (d.secDirty || d.currentByOther(p, k))
		}
		if bad && !contains(d.unsafeK, k) {
			d.unsafeK = append(d.unsafeK, k)
		}
	}
	d.claimed[p] = dedup(append(append([]string{}, d.claimed[p]...), cl...))
}

func (d *disc) barrier() {
	d.secDirty = false
	d.claimed = map[string][]string{}
	for p, o := range d.prim {
		d.claimed[p] = d.claimsOf(o)
	}
}

func (d *disc) primSet(o Obj) {
	d.noteSet(o)
	d.prim[o.ResourceName()] = o
}

func (d *disc) primDel(k string) { delete(d.prim, k) }

func (d *disc) primReset(objs []Obj) {
	for _, o := range objs {
		d.noteSet(o)
	}
	d.prim = map[string]Obj{}
	for _, o := range objs {
		d.prim[o.ResourceName()] = o
	}
}

func (d *disc) uniqueClaims() bool {
	owner := map[string]string{}
	for p, o := range d.prim {
		for _, k := range d.claimsOf(o) {
			if q, f := owner[k]; f && q != p {
				return false
			}
			owner[k] = p
		}
	}
	return true
}

func (d *disc) inU(k string) bool {
	return d.flagged && (contains(d.unsafeK, k) || k == "")
}

// guard mirrors Driver.lean `guard`.
func (d *disc) guard() string {
	switch {
	case !d.started:
		return "not-started"
	case !d.flagged && len(d.unsafeK) > 0:
		return "undisciplined"
	case !d.uniqueClaims():
		return "ambiguous"
	}
	return ""
}

// ---------------------------------------------------------------- the real krt program

type subscriber struct {
	mu  sync.Mutex
	evs []string
	// the registration (sync tracker: HasSynced must hold at quiescence; UnregisterHandler), and how many events
	// had arrived when it was unregistered (-1: still registered)
	reg    krt.HandlerRegistration
	frozen int
	unreg  bool
}

// unregister removes the handler at a quiescent point and remembers how much it had received.
func (s *subscriber) unregister() {
	if s == nil || s.reg == nil || s.unreg {
		return
	}
	synctest.Wait()
	s.reg.UnregisterHandler()
	synctest.Wait()
	s.unreg = true
	s.frozen = len(s.snapshot())
}

// health: what the harness itself can say about a subscriber at a quiescent point ("" = fine).
func (s *subscriber) health() string {
	if s == nil {
		return ""
	}
	if s.unreg {
		if n := len(s.snapshot()); n != s.frozen {
			return fmt.Sprintf("events-after-unregister:%d", n-s.frozen)
		}
		return ""
	}
	if s.reg != nil && !s.reg.HasSynced() {
		return "registration-not-synced"
	}
	return ""
}

// evToken renders one delivered event: `A~key~val`, `U~key~old~new`, `D~key~old`; `X~...` for an
// event whose shape is wrong (Lean rejects it as malformed).
func evToken[T any](e krt.Event[T], val func(T) string) string {
	switch e.Event {
	case controllers.EventAdd:
		if e.New == nil || e.Old != nil {
			return "X~add-shape"
		}
		return "A~" + krt.GetKey(*e.New) + "~" + val(*e.New)
	case controllers.EventUpdate:
		if e.New == nil || e.Old == nil {
			return "X~update-shape"
		}
		if krt.GetKey(*e.New) != krt.GetKey(*e.Old) {
			if k := krt.GetKey(*e.Old); k == "" || k == "/" {
				// a zero-valued Old: an Update of New's key whose Old is not what the subscriber holds
				return "U~" + krt.GetKey(*e.New) + "~?zero-valued-old?~" + val(*e.New)
			}
			return "X~update-key-change"
		}
		return "U~" + krt.GetKey(*e.New) + "~" + val(*e.Old) + "~" + val(*e.New)
	case controllers.EventDelete:
		if e.Old == nil || e.New != nil {
			return "X~delete-shape"
		}
		return "D~" + krt.GetKey(*e.Old) + "~" + val(*e.Old)
	}
	return "X~unknown-type"
}

func (s *subscriber) add(tok string) {
	s.mu.Lock()
	s.evs = append(s.evs, tok)
	s.mu.Unlock()
}

func (s *subscriber) record(e krt.Event[Out]) {
	s.add(evToken(e, func(o Out) string { return o.Val }))
}

func (s *subscriber) snapshot() []string {
	s.mu.Lock()
	defer s.mu.Unlock()
	return append([]string(nil), s.evs...)
}

// fetchSrc is a collection the transformation fetches from, with its two indexes.
type fetchSrc struct {
	col krt.Collection[Obj]
	ns  krt.Index[string, Obj]
	val krt.Index[string, Obj]
	out krt.Index[string, Obj] // several keys per object
}

func newFetchSrc(c krt.Collection[Obj]) *fetchSrc {
	return &fetchSrc{col: c, ns: krt.NewNamespaceIndex[Obj](c),
		val: krt.NewIndex[string, Obj](c, "val", func(o Obj) []string { return []string{o.Val} }),
		out: krt.NewIndex[string, Obj](c, "outs", func(o Obj) []string { return o.Outs })}
}

type caseRun struct {
	T       Transform
	d       *disc
	stop    chan struct{}
	prim    krt.StaticCollection[Obj]
	sec     krt.StaticCollection[Obj]
	sec2    krt.StaticCollection[Obj]
	secmode string // "" static sec; sd: derived copy of sec; sj: JoinCollection[sec, sec2]; s2: odd fetches use sec2
	srcA    *fetchSrc
	srcB    *fetchSrc
	secM    map[string]Obj // mirrors of sec / sec2 (oracle, discipline)
	sec2M   map[string]Obj
	touched map[string][]int
	unsafeJ bool
	der     krt.Collection[Out]
	chain   bool
	single1 bool                // krt.NewSingleton: the transformation of the constant input singletonInput
	top     krt.Collection[Out] // the observed collection: der, or a collection chained behind it
	derIdx  krt.Index[string, Out]
	lateIdx krt.Index[string, Out]
	lateUn  krt.Index[string, Out]        // the same extractor through krt.UnnamedIndex
	gate    atomic.Pointer[chan struct{}] // exact stream: holds the queue worker inside the transformation of input `zz`
	subGate atomic.Pointer[chan struct{}] // while set, the handlers of `gated` subscribers do not return
	subs    map[string]*subscriber
	psubs   map[string]*subscriber
	dsubs   map[string]*subscriber
}

func nonNil(m map[string]string) map[string]string {
	if m == nil {
		return map[string]string{}
	}
	return m
}

// fetchOpts builds the krt fetch options of one FetchSpec for input i.
func (c *caseRun) fetchOpts(i Obj, f []Atom, src *fetchSrc) []krt.FetchOption {
	var opts []krt.FetchOption
	for _, a := range f {
		switch a.Kind {
		case "key":
			opts = append(opts, krt.FilterKey(i.Ref))
		case "selects":
			if i.LabelsNil {
				opts = append(opts, krt.FilterSelects(nil)) // a nil map: the filter is off
			} else {
				opts = append(opts, krt.FilterSelects(nonNil(i.Labels)))
			}
		case "selectsNE":
			opts = append(opts, krt.FilterSelectsNonEmpty(i.Labels))
		case "label":
			opts = append(opts, krt.FilterLabel(i.Sel))
		case "nsIndex":
			opts = append(opts, krt.FilterIndex(src.ns, i.NS))
		case "valIndex":
			opts = append(opts, krt.FilterIndex(src.val, i.Val))
		case "outIndex":
			opts = append(opts, krt.FilterIndex(src.out, outKeyOf(i)))
		case "nokeys":
			opts = append(opts, krt.FilterKeys([]string{}...)) // an empty, non-nil set of keys: matches nothing
		case "nilkeys":
			opts = append(opts, krt.FilterKeys()) // no arguments = a nil set = no key filter at all (krt's reading)
		case "keys":
			opts = append(opts, krt.FilterKeys(i.Ref, i.NS+"/x"))
		case "objName":
			opts = append(opts, krt.FilterObjectName(types.NamespacedName{Namespace: i.NS, Name: "y"}))
		case "generic":
			n := a.N
			opts = append(opts, krt.FilterGeneric(func(x any) bool { return genericPred(n, i, x.(Obj)) }))
		}
	}
	return opts
}

func renderFetch(l []Obj) string {
	s := make([]string, len(l))
	for j, o := range l {
		s[j] = o.ResourceName() + "=" + o.Val
	}
	sort.Strings(s)
	return "[" + strings.Join(s, ",") + "]"
}

// outputs interprets the Transform for input i with the given fetch function; it is the body of
// the transformation function handed to krt (fetch = krt.Fetch on the real secondary collection).
func outputs(t Transform, i Obj, fetch func(n int, f []Atom) []Obj) []Out {
	var sb strings.Builder
	sb.WriteString(i.NS + "|" + i.ResourceName() + ":" + i.Val + "|")
	for n, f := range t.Fetches {
		res := fetch(n, f)
		if n == 0 && t.Gate && len(res) == 0 {
			return nil
		}
		sb.WriteString(renderFetch(res))
	}
	val := sb.String()
	if !t.Multi {
		key := i.ResourceName()
		if t.ByVal {
			key = "val/" + i.Val
		}
		return []Out{{Key: key, NS: i.NS, Val: val}}
	}
	var outs []Out
	for _, k := range i.Outs {
		outs = append(outs, Out{Key: k, NS: i.NS, Val: val})
	}
	return outs
}

func newCaseRun(t Transform, flagged bool) *caseRun {
	c := &caseRun{T: t, d: newDisc(t, flagged), stop: make(chan struct{}), subs: map[string]*subscriber{},
		psubs: map[string]*subscriber{}, dsubs: map[string]*subscriber{}, secM: map[string]Obj{}, sec2M: map[string]Obj{},
		touched: map[string][]int{}}
	c.prim = krt.NewStaticCollection[Obj](nil, nil, krt.WithStop(c.stop), krt.WithName("prim"))
	c.sec = krt.NewStaticCollection[Obj](nil, nil, krt.WithStop(c.stop), krt.WithName("sec"))
	c.sec2 = krt.NewStaticCollection[Obj](nil, nil, krt.WithStop(c.stop), krt.WithName("sec2"))
	return c
}

// fetchFn is the fetch function handed to outputs(): krt.Fetch on the source of fetch number n.
// hold blocks the collection's queue worker at the end of the transformation of the blocker input
// while a gate is installed (the results were computed before blocking).
func (c *caseRun) hold(i Obj) {
	if i.Name == "zz" {
		if g := c.gate.Load(); g != nil {
			<-*g
		}
	}
}

func (c *caseRun) fetchFn(ctx krt.HandlerContext, i Obj) func(n int, f []Atom) []Obj {
	return func(n int, f []Atom) []Obj {
		src := c.srcA
		if c.secmode == "s2" && n%2 == 1 {
			src = c.srcB
		}
		return krt.Fetch(ctx, src.col, c.fetchOpts(i, f, src)...)
	}
}

// reindex: istio asks for an index by name again and again (NewNamespaceIndex on the same collection in several
// places); the first handle, which the harness keeps for its lookups and fetches, must stay maintained.
func (c *caseRun) reindex() {
	if c.der == nil {
		return
	}
	_ = krt.NewIndex[string, Out](c.top, "ns", func(o Out) []string { return []string{o.NS} })
	for _, src := range []*fetchSrc{c.srcA, c.srcB} {
		if src != nil {
			_ = newFetchSrc(src.col)
		}
	}
	if c.lateIdx != nil {
		_ = krt.NewIndex[string, Out](c.top, "fetched", func(o Out) []string { return outFetched(o.Val) })
	}
}

func sameEntries(a, b []Out) bool {
	all := func(string) bool { return true }
	return showEntries(a, all) == showEntries(b, all)
}

func (c *caseRun) start() {
	if c.der != nil {
		return
	}
	t := c.T
	// the fetched collections and their indexes are created here, on already populated collections
	switch c.secmode {
	case "sd":
		// WithObjectAugmentation: the filters of a fetch see what the function returns (here: the object itself)
		c.srcA = newFetchSrc(krt.NewCollection[Obj, Obj](c.sec, func(ctx krt.HandlerContext, o Obj) *Obj { return &o },
			krt.WithStop(c.stop), krt.WithName("secD"), krt.WithObjectAugmentation(func(o any) any { return o })))
	case "sj":
		c.srcA = newFetchSrc(krt.JoinCollection([]krt.Collection[Obj]{c.sec, c.sec2}, krt.WithStop(c.stop), krt.WithName("secJ")))
	case "s2":
		c.srcA = newFetchSrc(c.sec)
		c.srcB = newFetchSrc(c.sec2)
	case "sm", "sn":
		// a NewCollection that fetches a merge join / a nested merge join of sec and sec2 (order independent merge)
		var mj krt.Collection[Obj]
		if c.secmode == "sm" {
			mj = krt.JoinWithMergeCollection([]krt.Collection[Obj]{c.sec, c.sec2}, mergeSorted, krt.WithStop(c.stop), krt.WithName("secM"))
		} else {
			outer := krt.NewStaticCollection[krt.Collection[Obj]](nil, []krt.Collection[Obj]{c.sec, c.sec2}, krt.WithStop(c.stop), krt.WithName("secOuter"))
			mj = krt.NestedJoinWithMergeCollection[Obj](outer, mergeSorted, krt.WithStop(c.stop), krt.WithName("secN"))
		}
		for i := 0; i < 4; i++ { // the merge joins wait for their registrations in a sleep-and-poll loop: move the fake clock
			time.Sleep(200 * time.Millisecond)
			synctest.Wait()
		}
		c.srcA = newFetchSrc(mj)
	case "sp":
		// a diamond: the fetched collection is derived from the transformation's own primary collection
		c.srcA = newFetchSrc(krt.NewCollection[Obj, Obj](c.prim, func(ctx krt.HandlerContext, o Obj) *Obj { return &o },
			krt.WithStop(c.stop), krt.WithName("primCopy")))
	case "ss":
		c.srcA = newFetchSrc(c.prim) // the transformation fetches from its own primary collection
	default:
		c.srcA = newFetchSrc(c.sec)
	}
	if c.single1 && t.Multi {
		c.der = krt.NewManyFromNothing[Out](func(ctx krt.HandlerContext) []Out {
			return outputs(t, singletonInput, c.fetchFn(ctx, singletonInput))
		}, krt.WithStop(c.stop), krt.WithName("fromNothing"))
	} else if c.single1 {
		c.der = krt.NewSingleton[Out](func(ctx krt.HandlerContext) *Out {
			o := outputs(t, singletonInput, c.fetchFn(ctx, singletonInput))
			if len(o) == 0 {
				return nil
			}
			return &o[0]
		}, krt.WithStop(c.stop), krt.WithName("singleton")).AsCollection()
	} else if t.Multi {
		c.der = krt.NewManyCollection[Obj, Out](c.prim, func(ctx krt.HandlerContext, i Obj) []Out {
			defer c.hold(i)
			return outputs(t, i, c.fetchFn(ctx, i))
		}, krt.WithStop(c.stop), krt.WithName("derived"))
	} else {
		c.der = krt.NewCollection[Obj, Out](c.prim, func(ctx krt.HandlerContext, i Obj) *Out {
			defer c.hold(i)
			o := outputs(t, i, c.fetchFn(ctx, i))
			if len(o) == 0 {
				return nil
			}
			return &o[0]
		}, krt.WithStop(c.stop), krt.WithName("derived"))
	}
	c.top = c.der
	if c.chain {
		c.top = krt.NewCollection[Out, Out](c.der, func(ctx krt.HandlerContext, o Out) *Out {
			return &Out{Key: o.Key, NS: o.NS, Val: o.Val + "|c"}
		}, krt.WithStop(c.stop), krt.WithName("chained"))
	}
	c.derIdx = krt.NewIndex[string, Out](c.top, "ns", func(o Out) []string { return []string{o.NS} })
	c.d.started = true
	c.d.unsafeK = nil
	c.unsafeJ = false
	c.barrier()
}

func (c *caseRun) barrier() {
	c.d.barrier()
	c.touched = map[string][]int{}
}

func (c *caseRun) touchS(k string, i int) {
	if !c.d.started || c.secmode != "sj" {
		return
	}
	l := c.touched[k]
	if hasInt(l, i) {
		return
	}
	if len(l) > 0 {
		c.unsafeJ = true
	}
	c.touched[k] = append(l, i)
}

// outFetched: keys of the fetched objects rendered in an output value (Lean: outFetched).
func outFetched(v string) []string {
	var ks []string
	segs := strings.Split(v, "[")
	for _, seg := range segs[1:] {
		body := strings.SplitN(seg, "]", 2)[0]
		for _, e := range strings.Split(body, ",") {
			if e != "" {
				ks = append(ks, strings.SplitN(e, "=", 2)[0])
			}
		}
	}
	return ks
}

func (c *caseRun) guard() string {
	switch {
	case !c.d.started:
		return "not-started"
	case (!c.d.flagged && len(c.d.unsafeK) > 0) || c.unsafeJ:
		return "undisciplined"
	case !c.d.uniqueClaims():
		return "ambiguous"
	}
	return ""
}

func recObj(s *subscriber) func(es []krt.Event[Obj]) {
	return func(es []krt.Event[Obj]) {
		for _, e := range es {
			s.add(evToken(e, func(o Obj) string { return o.Token() }))
		}
	}
}

func recOut(s *subscriber) func(es []krt.Event[Out]) {
	return func(es []krt.Event[Out]) {
		for _, e := range es {
			s.record(e)
		}
	}
}

func showEntries(outs []Out, keep func(k string) bool) string {
	var es []string
	for _, o := range outs {
		if keep(o.Key) {
			es = append(es, o.Key+"~"+o.Val)
		}
	}
	sort.Strings(es)
	s := fmt.Sprintf("n=%d", len(es))
	for _, e := range es {
		s += " " + e
	}
	return s
}

func parseObjs(toks []string) []Obj {
	var out []Obj
	for _, t := range toks {
		if o, ok := parseObj(t); ok {
			out = append(out, o)
		}
	}
	return out
}

func filterToks(evs []string, keep func(k string) bool) []string {
	var out []string
	for _, e := range evs {
		p := strings.Split(e, "~")
		if len(p) >= 2 && p[0] != "X" && !keep(p[1]) {
			continue
		}
		out = append(out, e)
	}
	return out
}

// step executes one op line on the real collections; returns (impl line, trace line).
func (c *caseRun) step(toks []string) (string, string) {
	line := strings.Join(toks, " ")
	c.d.noteOp(toks[0])
	answer := func(u bool, body func() string) string {
		if g := c.guard(); g != "" {
			return g
		}
		if u && !c.d.flagged {
			return "not-flagged"
		}
		return body()
	}
	switch {
	case toks[0] == "p.set" && len(toks) == 2:
		o, ok := parseObj(toks[1])
		if !ok {
			return "bad-op", line
		}
		c.d.primSet(o)
		c.prim.UpdateObject(o)
		return "ok", line
	case toks[0] == "p.cset" && len(toks) == 2:
		o, ok := parseObj(toks[1])
		if !ok {
			return "bad-op", line
		}
		c.d.primSet(o)
		c.prim.ConditionalUpdateObject(o)
		return "ok", line
	case toks[0] == "p.del" && len(toks) == 2:
		c.d.primDel(toks[1])
		c.prim.DeleteObject(toks[1])
		return "ok", line
	case toks[0] == "p.delwhere" && len(toks) == 2:
		for k, o := range c.d.prim {
			if o.NS == toks[1] {
				delete(c.d.prim, k)
			}
		}
		c.prim.DeleteObjects(func(o Obj) bool { return o.NS == toks[1] })
		return "ok", line
	case toks[0] == "p.reset":
		objs := parseObjs(toks[1:])
		c.d.primReset(objs)
		c.prim.Reset(objs)
		return "ok", line
	case toks[0] == "s.set" && len(toks) == 2:
		o, ok := parseObj(toks[1])
		if !ok {
			return "bad-op", line
		}
		c.touchS(o.ResourceName(), 0)
		c.secM[o.ResourceName()] = o
		c.sec.UpdateObject(o)
		return "ok", line
	case toks[0] == "s.cset" && len(toks) == 2:
		o, ok := parseObj(toks[1])
		if !ok {
			return "bad-op", line
		}
		c.touchS(o.ResourceName(), 0)
		c.secM[o.ResourceName()] = o
		c.sec.ConditionalUpdateObject(o)
		return "ok", line
	case toks[0] == "s.del" && len(toks) == 2:
		c.touchS(toks[1], 0)
		delete(c.secM, toks[1])
		c.sec.DeleteObject(toks[1])
		return "ok", line
	case toks[0] == "s.delwhere" && len(toks) == 2:
		for k, o := range c.secM {
			if o.NS == toks[1] {
				c.touchS(k, 0)
				delete(c.secM, k)
			}
		}
		c.sec.DeleteObjects(func(o Obj) bool { return o.NS == toks[1] })
		return "ok", line
	case toks[0] == "s.reset":
		objs := parseObjs(toks[1:])
		for k := range c.secM {
			c.touchS(k, 0)
		}
		c.secM = map[string]Obj{}
		for _, o := range objs {
			c.touchS(o.ResourceName(), 0)
			c.secM[o.ResourceName()] = o
		}
		c.sec.Reset(objs)
		return "ok", line
	case toks[0] == "t.set" && len(toks) == 2:
		o, ok := parseObj(toks[1])
		if !ok {
			return "bad-op", line
		}
		c.touchS(o.ResourceName(), 1)
		c.sec2M[o.ResourceName()] = o
		c.sec2.UpdateObject(o)
		return "ok", line
	case toks[0] == "t.del" && len(toks) == 2:
		c.touchS(toks[1], 1)
		delete(c.sec2M, toks[1])
		c.sec2.DeleteObject(toks[1])
		return "ok", line
	case toks[0] == "lateindex" && len(toks) == 1:
		if c.der != nil && c.lateIdx == nil {
			// created on an already populated collection; the extractor returns 0, 1 or several keys
			c.lateIdx = krt.NewIndex[string, Out](c.top, "fetched", func(o Out) []string { return outFetched(o.Val) })
			c.lateUn = krt.UnnamedIndex[string, Out](c.top, func(o Out) []string { return outFetched(o.Val) })
		}
		return "ok", line
	case toks[0] == "psub" && len(toks) == 3:
		s := &subscriber{}
		c.psubs[toks[1]] = s
		switch toks[2] {
		case "single":
			s.reg = c.prim.Register(func(e krt.Event[Obj]) { recObj(s)([]krt.Event[Obj]{e}) })
		case "batch":
			s.reg = c.prim.RegisterBatch(recObj(s), true)
		default:
			s.reg = c.prim.RegisterBatch(recObj(s), false)
		}
		return "ok", line
	case toks[0] == "punsub" && len(toks) == 2:
		c.barrier()
		c.psubs[toks[1]].unregister() // UnregisterHandler on a static collection's registration
		return "ok", line
	case toks[0] == "burst" && len(toks) == 3:
		o, ok := parseObj(toks[1])
		n, err := strconv.Atoi(toks[2])
		if !ok || err != nil || c.der == nil || c.T.ByVal {
			return "bad-op", line
		}
		// more batches than one ring buffer segment of a handler's queue holds (1024), while gated handlers cannot
		// take any of them
		gate := make(chan struct{})
		c.subGate.Store(&gate)
		for j := 0; j < n; j++ {
			o.Val = "b" + strconv.Itoa(j%2)
			c.d.primSet(o)
			c.prim.UpdateObject(o)
		}
		synctest.Wait()
		c.subGate.Store(nil)
		close(gate)
		return "ok", line
	case toks[0] == "dsub" && len(toks) == 3:
		if c.der == nil {
			return "ok", line
		}
		s := &subscriber{}
		c.dsubs[toks[1]] = s
		switch toks[2] {
		case "single":
			s.reg = c.der.Register(s.record)
		case "batch":
			s.reg = c.der.RegisterBatch(recOut(s), true)
		default:
			synctest.Wait()
			c.barrier()
			s.reg = c.der.RegisterBatch(recOut(s), false)
		}
		return "ok", line
	case toks[0] == "start" && len(toks) == 1:
		c.start()
		return "ok", line
	case toks[0] == "sync" && len(toks) == 1:
		synctest.Wait()
		c.barrier()
		return "ok", line
	case toks[0] == "sub" && len(toks) == 3:
		if c.der == nil {
			return "ok", line
		}
		s := &subscriber{}
		c.subs[toks[1]] = s
		switch toks[2] {
		case "single":
			s.reg = c.top.Register(s.record)
		case "batch":
			s.reg = c.top.RegisterBatch(func(es []krt.Event[Out]) {
				for _, e := range es {
					s.record(e)
				}
			}, true)
		case "gated": // as batch; its handler blocks while a burst is under way
			s.reg = c.top.RegisterBatch(func(es []krt.Event[Out]) {
				if g := c.subGate.Load(); g != nil {
					<-*g
				}
				for _, e := range es {
					s.record(e)
				}
			}, true)
		default: // nostate
			synctest.Wait()
			c.barrier()
			s.reg = c.top.RegisterBatch(func(es []krt.Event[Out]) {
				for _, e := range es {
					s.record(e)
				}
			}, false)
		}
		return "ok", line
	}
	// queries: all imply a barrier
	if c.der != nil || toks[0] == "pstream" {
		synctest.Wait()
	}
	c.barrier()
	streamOf := func(name string, subs map[string]*subscriber, u, guarded bool) (string, string) {
		s := subs[toks[1]]
		var evs []string
		if s != nil {
			evs = s.snapshot()
		}
		body := func() string {
			if s == nil {
				return "unknown-subscriber"
			}
			if h := s.health(); h != "" {
				return h
			}
			return "accept"
		}
		impl := name + " "
		if guarded {
			impl += answer(u, body)
		} else {
			impl += body()
		}
		return impl, strings.Join(append([]string{name, toks[1]}, evs...), " ")
	}
	switch {
	case toks[0] == "flookup" && len(toks) == 2:
		return "flookup " + answer(false, func() string {
			if c.lateIdx == nil {
				return "no-index"
			}
			c.reindex()
			res := c.lateIdx.Lookup(toks[1])
			if !sameEntries(res, c.lateUn.Lookup(toks[1])) {
				return "inconsistent:UnnamedIndex"
			}
			return showEntries(res, func(k string) bool { return !c.d.inU(k) })
		}), line
	case toks[0] == "pstream" && len(toks) == 2:
		return streamOf("pstream", c.psubs, false, false)
	case toks[0] == "dstream" && len(toks) == 2:
		return streamOf("dstream", c.dsubs, false, true)
	case toks[0] == "list" && len(toks) == 1:
		return "list " + answer(false, func() string {
			return showEntries(c.top.List(), func(k string) bool { return !c.d.inU(k) })
		}), line
	case toks[0] == "ulist" && len(toks) == 1:
		return "ulist " + answer(true, func() string { return showEntries(c.top.List(), c.d.inU) }), line
	case toks[0] == "get" && len(toks) == 2:
		return "get " + answer(false, func() string {
			if c.d.inU(toks[1]) {
				return "masked"
			}
			o := c.top.GetKey(toks[1])
			// the one-time list without a context must say the same
			fl := krt.FetchOrList[Out](nil, c.top, krt.FilterKey(toks[1]))
			if (o == nil) != (len(fl) == 0) || len(fl) > 1 || (o != nil && (fl[0].Key != o.Key || fl[0].Val != o.Val)) {
				return "inconsistent:FetchOrList"
			}
			if o == nil {
				return "none"
			}
			if o.Key != toks[1] {
				return "wrong-key:" + o.Key
			}
			return o.Val
		}), line
	case toks[0] == "lookup" && len(toks) == 2:
		return "lookup " + answer(false, func() string {
			c.reindex()
			res := c.derIdx.Lookup(toks[1])
			if !sameEntries(res, krt.FetchOrList[Out](nil, c.top, krt.FilterIndex(c.derIdx, toks[1]))) {
				return "inconsistent:FetchOrList"
			}
			return showEntries(res, func(k string) bool { return !c.d.inU(k) })
		}), line
	case toks[0] == "ulookup" && len(toks) == 2:
		return "ulookup " + answer(true, func() string { return showEntries(c.derIdx.Lookup(toks[1]), c.d.inU) }), line
	case (toks[0] == "stream" || toks[0] == "ustream") && len(toks) == 2:
		u := toks[0] == "ustream"
		s := c.subs[toks[1]]
		var evs []string
		if s != nil {
			evs = s.snapshot()
		}
		impl := toks[0] + " " + answer(u, func() string {
			if s == nil {
				return "unknown-subscriber"
			}
			return "accept"
		})
		return impl, strings.Join(append([]string{toks[0], toks[1]}, evs...), " ")
	}
	return "bad-op", line
}

// runCase executes one case inside a synctest bubble: synctest.Wait() returns exactly when every
// goroutine of the bubble (krt queues, handler pumps) is durably blocked, i.e. at quiescence.
func runCase(t *testing.T, lines [][]string, impl, trace *wire.Out) {
	done := 0
	emit := func(a, b string) {
		impl.Line(a)
		trace.Line(b)
		done++
	}
	synctest.Test(t, func(t *testing.T) {
		var c runner
		defer func() {
			if r := recover(); r != nil {
				for done < len(lines) {
					emit("crash", strings.Join(lines[done], " "))
				}
			}
			if c != nil {
				c.close()
			}
			synctest.Wait()
		}()
		head := lines[0]
		c = newRunner(head)
		if c == nil {
			for done < len(lines) {
				emit("bad-op", strings.Join(lines[done], " "))
			}
			return
		}
		emit("ok", strings.Join(head, " "))
		for _, l := range lines[1:] {
			a, b := c.step(l)
			emit(a, b)
		}
	})
	impl.Flush()
	trace.Flush()
}

// runner executes the ops of one case on real krt collections.
type runner interface {
	step(toks []string) (string, string)
	close()
}

func (c *caseRun) close() { close(c.stop) }

// singletonInput is the constant input of the singleton cases (Lean: singletonInput).
var singletonInput = Obj{NS: "n1", Name: "s", Labels: map[string]string{"l1": "1"}, Sel: map[string]string{"l1": "1"}, Outs: []string{"k1", "k3"}, Ref: "n1/x", Val: "v1"}

func (c *caseRun) setFlags(flags []string) {
	c.chain = contains(flags, "chain")
	if contains(flags, "single1") {
		c.single1 = true
		c.d.prim[singletonInput.ResourceName()] = singletonInput
	}
	for _, m := range []string{"sd", "sj", "s2", "sm", "sn", "sp", "ss"} {
		if contains(flags, m) && c.secmode == "" {
			c.secmode = m
		}
	}
	c.d.primIsSec = c.secmode == "sp" || c.secmode == "ss"
}

// newRunner builds the program named by the case header (nil: malformed header).
func newRunner(head []string) runner {
	if len(head) >= 3 && head[0] == "case" && strings.HasPrefix(head[2], "mem") {
		return newMemRun(head[3:]...)
	}
	if len(head) >= 3 && head[0] == "case" && strings.HasPrefix(head[2], "misc") {
		return newMiscRun()
	}
	if len(head) >= 3 && head[0] == "case" && strings.HasPrefix(head[2], "inf") {
		return newInfRun(head[3:]...)
	}
	if len(head) >= 3 && head[0] == "case" && strings.HasPrefix(head[2], "idxc") {
		return newIdxcRun()
	}
	if len(head) < 4 || head[0] != "case" {
		return nil
	}
	if strings.HasPrefix(head[2], "joinx") {
		return newJoinxRun(head)
	}
	if strings.HasPrefix(head[2], "join") {
		return newJoinRun(head)
	}
	if strings.HasPrefix(head[2], "exact") {
		return newExactRun(head)
	}
	tr, ok := parseTransform(head[3])
	if !ok {
		return nil
	}
	c := newCaseRun(tr, contains(head[4:], "f6"))
	c.setFlags(head[4:])
	return c
}

func splitCases(lines [][]string) [][][]string {
	var cases [][][]string
	for _, l := range lines {
		if l[0] == "case" || len(cases) == 0 {
			cases = append(cases, nil)
		}
		cases[len(cases)-1] = append(cases[len(cases)-1], l)
	}
	return cases
}

func execOps(t *testing.T, opsPath, implPath string) {
	impl := wire.Create(implPath)
	trace := wire.Create(implPath + ".trace")
	defer impl.Close()
	defer trace.Close()
	for _, cs := range splitCases(wire.ReadLines(opsPath)) {
		runCase(t, cs, impl, trace)
	}
}
