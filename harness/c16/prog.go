package main

import (
	"fmt"
	"sort"
	"strings"
	"sync"
	"testing"
	"testing/synctest"

	"istio.io/istio/pkg/kube/controllers"
	"istio.io/istio/pkg/kube/krt"
	"verifharness/internal/wire"
)

// ---------------------------------------------------------------- barrier discipline (mirrors Driver.lean)

type disc struct {
	T       Transform
	flagged bool
	started bool
	prim    map[string]Obj
	order   []string // insertion order is irrelevant; kept for determinism of iteration
	claimed map[string][]string
	unsafeK []string
}

func newDisc(t Transform, flagged bool) *disc {
	return &disc{T: t, flagged: flagged, prim: map[string]Obj{}, claimed: map[string][]string{}}
}

func (d *disc) claimsOf(o Obj) []string {
	if d.T.Multi {
		return dedup(o.Outs)
	}
	return nil
}

func (d *disc) claimedByOther(p, k string) bool {
	for q, ks := range d.claimed {
		if q != p && contains(ks, k) {
			return true
		}
	}
	return false
}

func (d *disc) noteSet(o Obj) {
	if !d.started {
		return
	}
	p := o.ResourceName()
	cl := d.claimsOf(o)
	for _, k := range cl {
		if d.claimedByOther(p, k) && !contains(d.unsafeK, k) {
			d.unsafeK = append(d.unsafeK, k)
		}
	}
	d.claimed[p] = dedup(append(append([]string{}, d.claimed[p]...), cl...))
}

func (d *disc) barrier() {
	d.claimed = map[string][]string{}
	for p, o := range d.prim {
		d.claimed[p] = d.claimsOf(o)
	}
}

func (d *disc) primSet(o Obj) {
	d.noteSet(o)
	d.prim[o.ResourceName()] = o
}

func (d *disc) primDel(k string) { delete(d.prim, k) }

func (d *disc) primReset(objs []Obj) {
	for _, o := range objs {
		d.noteSet(o)
	}
	d.prim = map[string]Obj{}
	for _, o := range objs {
		d.prim[o.ResourceName()] = o
	}
}

func (d *disc) uniqueClaims() bool {
	owner := map[string]string{}
	for p, o := range d.prim {
		for _, k := range d.claimsOf(o) {
			if q, f := owner[k]; f && q != p {
				return false
			}
			owner[k] = p
		}
	}
	return true
}

func (d *disc) inU(k string) bool {
	return d.flagged && (contains(d.unsafeK, k) || k == "")
}

// guard mirrors Driver.lean `guard`.
func (d *disc) guard() string {
	switch {
	case !d.started:
		return "not-started"
	case !d.flagged && len(d.unsafeK) > 0:
		return "undisciplined"
	case !d.uniqueClaims():
		return "ambiguous"
	}
	return ""
}

// ---------------------------------------------------------------- the real krt program

type subscriber struct {
	mu  sync.Mutex
	evs []string
}

// evToken renders one delivered event: `A~key~val`, `U~key~old~new`, `D~key~old`; `X~...` for an
// event whose shape is wrong (Lean rejects it as malformed).
func evToken[T any](e krt.Event[T], val func(T) string) string {
	switch e.Event {
	case controllers.EventAdd:
		if e.New == nil || e.Old != nil {
			return "X~add-shape"
		}
		return "A~" + krt.GetKey(*e.New) + "~" + val(*e.New)
	case controllers.EventUpdate:
		if e.New == nil || e.Old == nil {
			return "X~update-shape"
		}
		if krt.GetKey(*e.New) != krt.GetKey(*e.Old) {
			return "X~update-key-change"
		}
		return "U~" + krt.GetKey(*e.New) + "~" + val(*e.Old) + "~" + val(*e.New)
	case controllers.EventDelete:
		if e.Old == nil || e.New != nil {
			return "X~delete-shape"
		}
		return "D~" + krt.GetKey(*e.Old) + "~" + val(*e.Old)
	}
	return "X~unknown-type"
}

func (s *subscriber) add(tok string) {
	s.mu.Lock()
	s.evs = append(s.evs, tok)
	s.mu.Unlock()
}

func (s *subscriber) record(e krt.Event[Out]) {
	s.add(evToken(e, func(o Out) string { return o.Val }))
}

func (s *subscriber) snapshot() []string {
	s.mu.Lock()
	defer s.mu.Unlock()
	return append([]string(nil), s.evs...)
}

type caseRun struct {
	T      Transform
	d      *disc
	stop   chan struct{}
	prim   krt.StaticCollection[Obj]
	sec    krt.StaticCollection[Obj]
	secNs  krt.Index[string, Obj]
	secVal krt.Index[string, Obj]
	der    krt.Collection[Out]
	chain  bool
	top    krt.Collection[Out] // the observed collection: der, or a collection chained behind it
	derIdx krt.Index[string, Out]
	subs   map[string]*subscriber
}

func nonNil(m map[string]string) map[string]string {
	if m == nil {
		return map[string]string{}
	}
	return m
}

// fetchOpts builds the krt fetch options of one FetchSpec for input i.
func (c *caseRun) fetchOpts(i Obj, f []Atom) []krt.FetchOption {
	var opts []krt.FetchOption
	for _, a := range f {
		switch a.Kind {
		case "key":
			opts = append(opts, krt.FilterKey(i.Ref))
		case "selects":
			opts = append(opts, krt.FilterSelects(nonNil(i.Labels)))
		case "selectsNE":
			opts = append(opts, krt.FilterSelectsNonEmpty(i.Labels))
		case "label":
			opts = append(opts, krt.FilterLabel(i.Sel))
		case "nsIndex":
			opts = append(opts, krt.FilterIndex(c.secNs, i.NS))
		case "valIndex":
			opts = append(opts, krt.FilterIndex(c.secVal, i.Val))
		case "generic":
			n := a.N
			opts = append(opts, krt.FilterGeneric(func(x any) bool { return genericPred(n, i, x.(Obj)) }))
		}
	}
	return opts
}

func renderFetch(l []Obj) string {
	s := make([]string, len(l))
	for j, o := range l {
		s[j] = o.ResourceName() + "=" + o.Val
	}
	sort.Strings(s)
	return "[" + strings.Join(s, ",") + "]"
}

// outputs interprets the Transform for input i with the given fetch function; it is the body of
// the transformation function handed to krt (fetch = krt.Fetch on the real secondary collection).
func outputs(t Transform, i Obj, fetch func(f []Atom) []Obj) []Out {
	var sb strings.Builder
	sb.WriteString(i.NS + "|" + i.ResourceName() + ":" + i.Val + "|")
	for n, f := range t.Fetches {
		res := fetch(f)
		if n == 0 && t.Gate && len(res) == 0 {
			return nil
		}
		sb.WriteString(renderFetch(res))
	}
	val := sb.String()
	if !t.Multi {
		return []Out{{Key: i.ResourceName(), NS: i.NS, Val: val}}
	}
	var outs []Out
	for _, k := range i.Outs {
		outs = append(outs, Out{Key: k, NS: i.NS, Val: val})
	}
	return outs
}

func newCaseRun(t Transform, flagged bool) *caseRun {
	c := &caseRun{T: t, d: newDisc(t, flagged), stop: make(chan struct{}), subs: map[string]*subscriber{}}
	c.prim = krt.NewStaticCollection[Obj](nil, nil, krt.WithStop(c.stop), krt.WithName("prim"))
	c.sec = krt.NewStaticCollection[Obj](nil, nil, krt.WithStop(c.stop), krt.WithName("sec"))
	c.secNs = krt.NewNamespaceIndex[Obj](c.sec)
	c.secVal = krt.NewIndex[string, Obj](c.sec, "val", func(o Obj) []string { return []string{o.Val} })
	return c
}

func (c *caseRun) start() {
	if c.der != nil {
		return
	}
	t := c.T
	if t.Multi {
		c.der = krt.NewManyCollection[Obj, Out](c.prim, func(ctx krt.HandlerContext, i Obj) []Out {
			return outputs(t, i, func(f []Atom) []Obj { return krt.Fetch(ctx, c.sec, c.fetchOpts(i, f)...) })
		}, krt.WithStop(c.stop), krt.WithName("derived"))
	} else {
		c.der = krt.NewCollection[Obj, Out](c.prim, func(ctx krt.HandlerContext, i Obj) *Out {
			o := outputs(t, i, func(f []Atom) []Obj { return krt.Fetch(ctx, c.sec, c.fetchOpts(i, f)...) })
			if len(o) == 0 {
				return nil
			}
			return &o[0]
		}, krt.WithStop(c.stop), krt.WithName("derived"))
	}
	c.top = c.der
	if c.chain {
		c.top = krt.NewCollection[Out, Out](c.der, func(ctx krt.HandlerContext, o Out) *Out {
			return &Out{Key: o.Key, NS: o.NS, Val: o.Val + "|c"}
		}, krt.WithStop(c.stop), krt.WithName("chained"))
	}
	c.derIdx = krt.NewIndex[string, Out](c.top, "ns", func(o Out) []string { return []string{o.NS} })
	c.d.started = true
	c.d.unsafeK = nil
	c.d.barrier()
}

func showEntries(outs []Out, keep func(k string) bool) string {
	var es []string
	for _, o := range outs {
		if keep(o.Key) {
			es = append(es, o.Key+"~"+o.Val)
		}
	}
	sort.Strings(es)
	s := fmt.Sprintf("n=%d", len(es))
	for _, e := range es {
		s += " " + e
	}
	return s
}

func parseObjs(toks []string) []Obj {
	var out []Obj
	for _, t := range toks {
		if o, ok := parseObj(t); ok {
			out = append(out, o)
		}
	}
	return out
}

func filterToks(evs []string, keep func(k string) bool) []string {
	var out []string
	for _, e := range evs {
		p := strings.Split(e, "~")
		if len(p) >= 2 && p[0] != "X" && !keep(p[1]) {
			continue
		}
		out = append(out, e)
	}
	return out
}

// step executes one op line on the real collections; returns (impl line, trace line).
func (c *caseRun) step(toks []string) (string, string) {
	line := strings.Join(toks, " ")
	answer := func(u bool, body func() string) string {
		if g := c.d.guard(); g != "" {
			return g
		}
		if u && !c.d.flagged {
			return "not-flagged"
		}
		return body()
	}
	switch {
	case toks[0] == "p.set" && len(toks) == 2:
		o, ok := parseObj(toks[1])
		if !ok {
			return "bad-op", line
		}
		c.d.primSet(o)
		c.prim.UpdateObject(o)
		return "ok", line
	case toks[0] == "p.del" && len(toks) == 2:
		c.d.primDel(toks[1])
		c.prim.DeleteObject(toks[1])
		return "ok", line
	case toks[0] == "p.reset":
		objs := parseObjs(toks[1:])
		c.d.primReset(objs)
		c.prim.Reset(objs)
		return "ok", line
	case toks[0] == "s.set" && len(toks) == 2:
		o, ok := parseObj(toks[1])
		if !ok {
			return "bad-op", line
		}
		c.sec.UpdateObject(o)
		return "ok", line
	case toks[0] == "s.del" && len(toks) == 2:
		c.sec.DeleteObject(toks[1])
		return "ok", line
	case toks[0] == "s.reset":
		c.sec.Reset(parseObjs(toks[1:]))
		return "ok", line
	case toks[0] == "start" && len(toks) == 1:
		c.start()
		return "ok", line
	case toks[0] == "sync" && len(toks) == 1:
		synctest.Wait()
		c.d.barrier()
		return "ok", line
	case toks[0] == "sub" && len(toks) == 3:
		if c.der == nil {
			return "ok", line
		}
		s := &subscriber{}
		c.subs[toks[1]] = s
		switch toks[2] {
		case "single":
			c.top.Register(s.record)
		case "batch":
			c.top.RegisterBatch(func(es []krt.Event[Out]) {
				for _, e := range es {
					s.record(e)
				}
			}, true)
		default: // nostate
			synctest.Wait()
			c.d.barrier()
			c.top.RegisterBatch(func(es []krt.Event[Out]) {
				for _, e := range es {
					s.record(e)
				}
			}, false)
		}
		return "ok", line
	}
	// queries: all imply a barrier
	if c.der != nil {
		synctest.Wait()
	}
	c.d.barrier()
	switch {
	case toks[0] == "list" && len(toks) == 1:
		return "list " + answer(false, func() string {
			return showEntries(c.top.List(), func(k string) bool { return !c.d.inU(k) })
		}), line
	case toks[0] == "ulist" && len(toks) == 1:
		return "ulist " + answer(true, func() string { return showEntries(c.top.List(), c.d.inU) }), line
	case toks[0] == "get" && len(toks) == 2:
		return "get " + answer(false, func() string {
			if c.d.inU(toks[1]) {
				return "masked"
			}
			o := c.top.GetKey(toks[1])
			if o == nil {
				return "none"
			}
			if o.Key != toks[1] {
				return "wrong-key:" + o.Key
			}
			return o.Val
		}), line
	case toks[0] == "lookup" && len(toks) == 2:
		return "lookup " + answer(false, func() string {
			return showEntries(c.derIdx.Lookup(toks[1]), func(k string) bool { return !c.d.inU(k) })
		}), line
	case toks[0] == "ulookup" && len(toks) == 2:
		return "ulookup " + answer(true, func() string { return showEntries(c.derIdx.Lookup(toks[1]), c.d.inU) }), line
	case (toks[0] == "stream" || toks[0] == "ustream") && len(toks) == 2:
		u := toks[0] == "ustream"
		s := c.subs[toks[1]]
		var evs []string
		if s != nil {
			evs = s.snapshot()
		}
		impl := toks[0] + " " + answer(u, func() string {
			if s == nil {
				return "unknown-subscriber"
			}
			return "accept"
		})
		return impl, strings.Join(append([]string{toks[0], toks[1]}, evs...), " ")
	}
	return "bad-op", line
}

// runCase executes one case inside a synctest bubble: synctest.Wait() returns exactly when every
// goroutine of the bubble (krt queues, handler pumps) is durably blocked, i.e. at quiescence.
func runCase(t *testing.T, lines [][]string, impl, trace *wire.Out) {
	done := 0
	emit := func(a, b string) {
		impl.Line(a)
		trace.Line(b)
		done++
	}
	synctest.Test(t, func(t *testing.T) {
		var c runner
		defer func() {
			if r := recover(); r != nil {
				for done < len(lines) {
					emit("crash", strings.Join(lines[done], " "))
				}
			}
			if c != nil {
				c.close()
			}
			synctest.Wait()
		}()
		head := lines[0]
		c = newRunner(head)
		if c == nil {
			for done < len(lines) {
				emit("bad-op", strings.Join(lines[done], " "))
			}
			return
		}
		emit("ok", strings.Join(head, " "))
		for _, l := range lines[1:] {
			a, b := c.step(l)
			emit(a, b)
		}
	})
	impl.Flush()
	trace.Flush()
}

// runner executes the ops of one case on real krt collections.
type runner interface {
	step(toks []string) (string, string)
	close()
}

func (c *caseRun) close() { close(c.stop) }

// newRunner builds the program named by the case header (nil: malformed header).
func newRunner(head []string) runner {
	if len(head) >= 3 && head[0] == "case" && strings.HasPrefix(head[2], "mem") {
		return newMemRun()
	}
	if len(head) < 4 || head[0] != "case" {
		return nil
	}
	if strings.HasPrefix(head[2], "join") {
		return newJoinRun(head)
	}
	if strings.HasPrefix(head[2], "exact") {
		return newExactRun(head)
	}
	tr, ok := parseTransform(head[3])
	if !ok {
		return nil
	}
	c := newCaseRun(tr, contains(head[4:], "f6"))
	c.chain = contains(head[4:], "chain")
	return c
}

func splitCases(lines [][]string) [][][]string {
	var cases [][][]string
	for _, l := range lines {
		if l[0] == "case" || len(cases) == 0 {
			cases = append(cases, nil)
		}
		cases[len(cases)-1] = append(cases[len(cases)-1], l)
	}
	return cases
}

func execOps(t *testing.T, opsPath, implPath string) {
	impl := wire.Create(implPath)
	trace := wire.Create(implPath + ".trace")
	defer impl.Close()
	defer trace.Close()
	for _, cs := range splitCases(wire.ReadLines(opsPath)) {
		runCase(t, cs, impl, trace)
	}
}
