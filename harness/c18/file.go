package main

import (
	"bytes"
	"crypto/ecdsa"
	"crypto/elliptic"
	"crypto/rand"
	"crypto/x509"
	"crypto/x509/pkix"
	"encoding/pem"
	"fmt"
	"math/big"
	"os"
	"path/filepath"
	"strconv"
	"strings"
	"sync"
	"sync/atomic"
	"time"

	"istio.io/istio/pkg/file"
	"istio.io/istio/pkg/security"
	nacache "istio.io/istio/security/pkg/nodeagent/cache"
	"verifharness/internal/wire"
)

// Stream `file`: file-mounted certificates (generateFileSecret, generateKeyCertFromExistingFiles,
// generateRootCertFromExistingFile incl. its SetRoot, addFileWatcher, handleFileWatch / handleFileEvent):
// the client is created with CertChainFilePath / KeyFilePath / RootCertFilePath pointing into a temp
// directory; the harness owns the files.
//
//	case <n> file
//	fgen <w|r>     GenerateSecret(default | ROOTCA): must answer from the files, never call the CA
//	fwrite <w|r>   replace the key+cert pair (new version) | the root file (next root letter), atomically, and
//	               wait (condition, 20 s) for the file watcher's callback for that resource
//	bundle <X>     UpdateConfigTrustBundle (merged into the ROOTCA answer)
//
// The generator always puts an fgen of the resource between two writes of it (the watch is registered by
// GenerateSecret and dropped when the watched inode is replaced).

type fileSUT struct {
	*sut
	kube       bool // kubelet-style volume: files are symlinks through ..data, an update swaps ..data atomically
	link       bool // each file is a plain symlink to a versioned target; an update re-points the symlink atomically
	gen        int  // kube: number of the current ..ts<gen> directory
	dir        string
	wv         int         // version of the key/cert pair on disk
	rootLetter byte        // root on disk
	versions   [][2][]byte // key, cert PEM per version
}

func (f *fileSUT) paths() (cert, key, root string) {
	return filepath.Join(f.dir, "cert-chain.pem"), filepath.Join(f.dir, "key.pem"), filepath.Join(f.dir, "root-cert.pem")
}

func (f *fileSUT) newPair() (keyPEM, certPEM []byte) {
	k, err := ecdsa.GenerateKey(elliptic.P256(), rand.Reader)
	must(err)
	signer := rootByName('A')
	tmpl := &x509.Certificate{
		SerialNumber: big.NewInt(int64(5000 + len(f.versions))),
		Subject:      pkix.Name{Organization: []string{"verif-file"}},
		NotBefore:    time.Now().Add(-time.Minute),
		NotAfter:     time.Now().Add(time.Hour),
		KeyUsage:     x509.KeyUsageDigitalSignature,
		ExtKeyUsage:  []x509.ExtKeyUsage{x509.ExtKeyUsageServerAuth, x509.ExtKeyUsageClientAuth},
	}
	der, err := x509.CreateCertificate(rand.Reader, tmpl, signer.cert, &k.PublicKey, signer.key)
	must(err)
	kd, err := x509.MarshalECPrivateKey(k)
	must(err)
	keyPEM = pem.EncodeToMemory(&pem.Block{Type: "EC PRIVATE KEY", Bytes: kd})
	certPEM = pem.EncodeToMemory(&pem.Block{Type: "CERTIFICATE", Bytes: der})
	f.versions = append(f.versions, [2][]byte{keyPEM, certPEM})
	return
}

// publish (kube): write a complete new ..ts<n> directory and swap the ..data symlink onto it, as kubelet's
// AtomicWriter does (the last step is a rename of ..data_tmp over ..data: MOVED_TO on ..data).
func (f *fileSUT) publish(key, cert []byte) {
	f.gen++
	ts := filepath.Join(f.dir, fmt.Sprintf("..ts%d", f.gen))
	must(os.Mkdir(ts, 0o755))
	must(os.WriteFile(filepath.Join(ts, "key.pem"), key, 0o644))
	must(os.WriteFile(filepath.Join(ts, "cert-chain.pem"), cert, 0o644))
	must(os.WriteFile(filepath.Join(ts, "root-cert.pem"), []byte(rootByName(f.rootLetter).pem), 0o644))
	tmp := filepath.Join(f.dir, "..data_tmp")
	_ = os.Remove(tmp)
	must(os.Symlink(fmt.Sprintf("..ts%d", f.gen), tmp))
	must(os.Rename(tmp, filepath.Join(f.dir, "..data")))
	if f.gen > 1 {
		_ = os.RemoveAll(filepath.Join(f.dir, fmt.Sprintf("..ts%d", f.gen-1)))
	}
}

// repoint (link): write a new target file and rename a fresh symlink over the old one.
func (f *fileSUT) repoint(name string, content []byte) {
	f.gen++
	target := fmt.Sprintf("real.%s.%d", name, f.gen)
	must(os.WriteFile(filepath.Join(f.dir, target), content, 0o644))
	tmp := filepath.Join(f.dir, name+".lnk")
	_ = os.Remove(tmp)
	must(os.Symlink(target, tmp))
	must(os.Rename(tmp, filepath.Join(f.dir, name)))
}

func newFileSUT(variant string) *fileSUT {
	kube := variant == "kube"
	initRoots()
	dir, err := os.MkdirTemp("", "c18file")
	must(err)
	f := &fileSUT{dir: dir, rootLetter: 'A', kube: kube, link: variant == "link"}
	cert, key, root := f.paths()
	k, c := f.newPair()
	if kube {
		f.publish(k, c)
		for _, n := range []string{"key.pem", "cert-chain.pem", "root-cert.pem"} {
			must(os.Symlink(filepath.Join("..data", n), filepath.Join(dir, n)))
		}
	} else if f.link {
		f.repoint("key.pem", k)
		f.repoint("cert-chain.pem", c)
		f.repoint("root-cert.pem", []byte(rootByName('A').pem))
	} else {
		must(os.WriteFile(key, k, 0o644))
		must(os.WriteFile(cert, c, 0o644))
		must(os.WriteFile(root, []byte(rootByName('A').pem), 0o644))
	}
	ca := &fakeCA{}
	// ratio / jitter are irrelevant for file-mounted certificates (nothing is scheduled): vary them
	f.sut = newSUTOpts([]float64{0.5, 0.25, 1, 0}[len(dir)%4], []float64{0, 0.5}[len(dir)%2], ca, ca, sutOpts{files: [3]string{cert, key, root}})
	return f
}

func (f *fileSUT) close() {
	f.sut.close()
	os.RemoveAll(f.dir)
}

func (f *fileSUT) state() string {
	return fmt.Sprintf("croot=%s cfg=%s wl=%s ca=%d", lettersOrDash(nacache.VerifCachedRoot(f.sc)),
		lettersOrDash(nacache.VerifConfigTrustBundle(f.sc)), map[bool]string{true: "-", false: "cached"}[nacache.VerifCachedWorkload(f.sc) == nil],
		f.ca.calls())
}

// pairVersion: which written version a returned key/cert is ("?" unknown, "x" key and cert of different versions).
func (f *fileSUT) pairVersion(key, cert []byte) string {
	kv, cv := -1, -1
	for i, v := range f.versions {
		if bytes.Equal(v[0], key) {
			kv = i
		}
		if bytes.Equal(v[1], cert) {
			cv = i
		}
	}
	switch {
	case kv < 0 || cv < 0:
		return "?"
	case kv != cv:
		return "x"
	}
	return strconv.Itoa(kv)
}

func (f *fileSUT) op(t []string) string {
	cert, key, root := f.paths()
	switch t[0] {
	case "fgen":
		if len(t) != 2 {
			return "bad-op"
		}
		name, ok := resName(t[1])
		switch t[1] {
		case "fc": // file-cert:<cert>~<key> (DestinationRule / Gateway file references)
			name, ok = security.SdsCertificateConfig{CertificatePath: cert, PrivateKeyPath: key}.GetResourceName(), true
		case "fr": // file-root:<root>
			name, ok = security.SdsCertificateConfig{CaCertificatePath: root}.GetRootResourceName(), true
		}
		if !ok {
			return "bad-op"
		}
		it, err := f.sc.GenerateSecret(name)
		ev := f.takeEvents()
		if err != nil || it == nil {
			return "err ev=" + ev + " | " + f.state()
		}
		if t[1] == "fr" {
			// a file-root: resource is the file as it is: no configured anchors merged, certRoot untouched
			return "ok fileroot=" + rootLetters(it.RootCert) + " ev=" + ev + " | " + f.state()
		}
		if t[1] == "w" || t[1] == "fc" {
			return "ok pair=" + f.pairVersion(it.PrivateKey, it.CertificateChain) + " ev=" + ev + " | " + f.state()
		}
		return "ok root=" + rootLetters(it.RootCert) + " ev=" + ev + " | " + f.state()
	case "fwrite":
		if len(t) != 2 || (t[1] != "w" && t[1] != "r") {
			return "bad-op"
		}
		want := byte('W')
		if t[1] == "w" {
			k, c := f.newPair()
			f.wv = len(f.versions) - 1
			switch {
			case f.kube:
				f.publish(k, c)
			case f.link:
				f.repoint("cert-chain.pem", c)
				f.repoint("key.pem", k)
			default:
				must(file.AtomicWrite(cert, c, 0o644))
				must(file.AtomicWrite(key, k, 0o644))
			}
		} else {
			want = 'R'
			f.rootLetter = 'A' + (f.rootLetter-'A'+1)%nRoots
			switch {
			case f.kube:
				v := f.versions[f.wv]
				f.publish(v[0], v[1])
			case f.link:
				f.repoint("root-cert.pem", []byte(rootByName(f.rootLetter).pem))
			default:
				must(file.AtomicWrite(root, []byte(rootByName(f.rootLetter).pem), 0o644))
			}
		}
		// the watcher's callback: at least one for the written resource (how many inotify events one atomic
		// replace produces is not the property), none for the other
		got := ""
		deadline := time.Now().Add(20 * time.Second)
		for time.Now().Before(deadline) {
			got += strings.ReplaceAll(f.takeEvents(), "-", "")
			if strings.ContainsAny(got, string([]byte{want, want + 32})) {
				break
			}
			time.Sleep(2 * time.Millisecond)
		}
		// the rest of the burst (one replacement produces several inotify events, a kubelet publish announces every
		// watched resource): wait until no callback arrived for 200 ms.  A sleep that overshoots says the machine is
		// overloaded - then the watcher goroutine is held up as well, and the quiet period starts again.
		for quiet, t0 := 0, time.Now(); quiet < 5 && time.Since(t0) < 10*time.Second; {
			s0 := time.Now()
			time.Sleep(40 * time.Millisecond)
			more := strings.ReplaceAll(f.takeEvents(), "-", "")
			got += more
			if more != "" || time.Since(s0) > 80*time.Millisecond {
				quiet = 0
			} else {
				quiet++
			}
		}
		hit, other := false, false
		for i := 0; i < len(got); i++ {
			switch {
			case got[i] == want || got[i] == want+32:
				hit = true
			case got[i] == '?':
				// the same file watched under its file-cert: / file-root: name: announced to that resource as well
			default:
				other = true
			}
		}
		if f.kube {
			// a publish replaces the whole volume: every watched resource may be announced
			return fmt.Sprintf("cb=%s other=* | %s", wire.B(hit), f.state())
		}
		return fmt.Sprintf("cb=%s other=%s | %s", wire.B(hit), wire.B(other), f.state())
	case "fstress":
		return f.stress(t)
	case "fflicker":
		return f.flicker(t)
	case "bundle":
		if len(t) != 2 {
			return "bad-op"
		}
		var b []byte
		if t[1] != "-" {
			b = []byte(strings.Join(bundlePEMs(t[1]), ""))
		}
		f.updateBundle(b)
		return "ev=" + f.takeEvents() + " | " + f.state()
	}
	return "bad-op"
}

// stress: `fstress <ms>` - file events CONCURRENT with GenerateSecret: readers request default / ROOTCA in a loop while a
// writer replaces the pair (cert first, then key, as an external agent does), sometimes leaving a truncated
// certificate on disk for a few milliseconds (the validate-and-retry path).  Every answer must be a key and a
// certificate of the SAME written version; at the end the answer is the last version; the CA is never asked.
func (f *fileSUT) stress(t []string) string {
	if len(t) != 2 || f.link {
		return "bad-op"
	}
	ms, err := strconv.Atoi(t[1])
	if err != nil || ms < 1 || ms > 60000 {
		return "bad-op"
	}
	cert, key, _ := f.paths()
	stop := make(chan struct{})
	var wg sync.WaitGroup
	var mu sync.Mutex
	violation := ""
	fail := func(v string) {
		mu.Lock()
		if violation == "" {
			violation = v
		}
		mu.Unlock()
	}
	var vmu sync.Mutex // f.versions is appended by the writer
	var fallbacks int64
	for g := 0; g < 6; g++ {
		g := g
		wg.Add(1)
		go func() {
			defer wg.Done()
			defer func() {
				if e := recover(); e != nil {
					fail(fmt.Sprintf("panic %v", e))
				}
			}()
			for k := 0; ; k++ {
				select {
				case <-stop:
					return
				default:
				}
				if (g+k)%3 == 0 {
					if it, err := f.sc.GenerateSecret(security.RootCertReqResourceName); err != nil || nonCARoot(it.RootCert) {
						fail("root-answer " + fmt.Sprint(err))
					}
					continue
				}
				it, err := f.sc.GenerateSecret(security.WorkloadKeyCertResourceName)
				if err != nil {
					fail("gen-error " + err.Error())
					return
				}
				vmu.Lock()
				v := f.pairVersion(it.PrivateKey, it.CertificateChain)
				vmu.Unlock()
				if v == "?" && f.kube && f.ca.calls() > 0 {
					// A kubelet publish removes the previous ..ts directory right after the ..data swap: a request that
					// resolved ..data just before finds no file, and the agent falls back to the CA for that request
					// (keyCertificateExist, by design).  Counted; the pair must still belong together.
					if leaf := leafOf(it.CertificateChain); leaf == nil || !bytes.Equal(leaf.RawSubjectPublicKeyInfo, pubOfKey(it.PrivateKey)) {
						fail("pair-mismatch the CA fallback served a key and a certificate that do not belong together")
					}
					atomic.AddInt64(&fallbacks, 1)
					continue
				}
				if v == "x" || v == "?" {
					fail("pair-mismatch served key and certificate of different file versions " + v)
				}
			}
		}()
	}
	// configured anchors change concurrently with the file events
	wg.Add(1)
	go func() {
		defer wg.Done()
		for k := 0; ; k++ {
			select {
			case <-stop:
				return
			default:
			}
			_ = f.sc.UpdateConfigTrustBundle([]byte(strings.Join(bundlePEMs([]string{"C", "D", "CD"}[k%3]), "")))
			time.Sleep(2 * time.Millisecond)
		}
	}()
	writes := 0
	deadline := time.Now().Add(time.Duration(ms) * time.Millisecond)
	for k := 0; time.Now().Before(deadline); k++ {
		vmu.Lock()
		kp, cp := f.newPair()
		f.wv = len(f.versions) - 1
		vmu.Unlock()
		writes++
		if f.kube {
			f.publish(kp, cp) // a whole new ..ts directory, ..data swapped
			time.Sleep(4 * time.Millisecond)
			continue
		}
		if k%3 == 2 {
			// a writer caught in the middle: a truncated certificate is on disk for a few milliseconds (never an
			// empty file: an empty or missing file makes the agent fall back to the CA, by design)
			must(file.AtomicWrite(cert, cp[:len(cp)/2], 0o644))
			time.Sleep(3 * time.Millisecond)
			must(file.AtomicWrite(cert, cp, 0o644))
		} else {
			must(file.AtomicWrite(cert, cp, 0o644))
		}
		time.Sleep(time.Duration(200+300*(k%3)) * time.Microsecond)
		must(file.AtomicWrite(key, kp, 0o644))
		time.Sleep(4 * time.Millisecond)
	}
	close(stop)
	wg.Wait()
	f.takeEvents()
	if violation != "" {
		return "violated fstress-" + violation
	}
	it, err := f.sc.GenerateSecret(security.WorkloadKeyCertResourceName)
	if err != nil || f.pairVersion(it.PrivateKey, it.CertificateChain) != strconv.Itoa(f.wv) {
		return "violated fstress-stale final answer is not the last version"
	}
	f.takeEvents()
	if f.ca.calls() != 0 && !f.kube {
		return "violated fstress-called-ca" // regular files are replaced by rename: they never vanish
	}
	statf("fstress versions-written=%d kube=%v ca-fallbacks=%d ca-calls=%d", writes, f.kube, atomic.LoadInt64(&fallbacks), f.ca.calls())
	return "ok fstress"
}

func caseVariant(t []string) string {
	if len(t) == 4 && t[0] == "case" {
		return t[3]
	}
	return ""
}

// flicker: `fflicker` - the root file vanishes and reappears many times while GenerateSecret(ROOTCA) runs (adding the
// watcher can then fail: the file is gone when inotify is asked); afterwards the file is stable, one more
// GenerateSecret registers the watch, and a replacement of the file must be announced.  Last op of its case (what was
// served meanwhile - the file or, while it was missing, the CA - is not deterministic).
func (f *fileSUT) flicker(t []string) string {
	if len(t) != 1 || f.kube || f.link {
		return "bad-op"
	}
	_, _, root := f.paths()
	var stop int32
	done := make(chan struct{})
	go func() {
		defer close(done)
		for atomic.LoadInt32(&stop) == 0 {
			_ = os.Remove(root)
			_ = os.WriteFile(root, []byte(rootByName(f.rootLetter).pem), 0o644)
		}
	}()
	f.ca.next = caOutcome{kind: "ok", ttl: time.Hour, signer: 'A', bundle: "-"}
	for i := 0; i < 300; i++ {
		_, _ = f.sc.GenerateSecret(security.RootCertReqResourceName)
	}
	atomic.StoreInt32(&stop, 1)
	<-done
	time.Sleep(300 * time.Millisecond) // pending retries of addFileWatcher
	f.takeEvents()
	if _, err := f.sc.GenerateSecret(security.RootCertReqResourceName); err != nil {
		return "err"
	}
	f.rootLetter = 'A' + (f.rootLetter-'A'+1)%nRoots
	must(file.AtomicWrite(root, []byte(rootByName(f.rootLetter).pem), 0o644))
	got := ""
	deadline := time.Now().Add(20 * time.Second)
	for time.Now().Before(deadline) && !strings.ContainsAny(got, "Rr") {
		got += f.takeEvents()
		time.Sleep(2 * time.Millisecond)
	}
	return "cb=" + wire.B(strings.ContainsAny(got, "Rr"))
}

func genFile(seed uint64, n int, path string) {
	out := wire.Create(path)
	defer out.Close()
	root := wire.NewRng(seed*0x9e3779b9 + 7117)
	for i := 0; i < n; i++ {
		r := root.Fork()
		if i == 0 {
			// file replacement concurrent with GenerateSecret (incl. half-written certificates)
			out.Line("case", "0", "file")
			out.Line("fgen", "w")
			out.Line("fstress", "500") // last op of its case: how many versions were written is not deterministic
			continue
		}
		if i == 1 {
			out.Line("case", "1", "file", "kube")
			out.Line("fgen", "w")
			out.Line("fstress", "400") // the same on a kubelet volume (whole-directory publishes)
			continue
		}
		if i == 2 {
			out.Line("case", "2", "file")
			out.Line("fgen", "r")
			out.Line("fflicker") // the root file vanishes and reappears while it is being requested and watched
			continue
		}
		if x := r.Intn(6); x == 0 {
			out.Line("case", strconv.Itoa(i), "file", "link") // plain symlinks, re-pointed on update
		} else if x < 3 {
			out.Line("case", strconv.Itoa(i), "file", "kube") // kubelet-style ..data symlink volume
		} else {
			out.Line("case", strconv.Itoa(i), "file")
		}
		armedW, armedR := false, false // a GenerateSecret registered the watch since the last write
		cfg := "-"
		nops := 3 + r.Intn(8)
		for k := 0; k < nops; k++ {
			switch x := r.Intn(10); {
			case x < 3:
				out.Line("fgen", "w")
				armedW = true
			case x < 5:
				out.Line("fgen", "r")
				armedR = true
			case x < 7 && armedW:
				out.Line("fwrite", "w")
				armedW = false
			case x < 9 && armedR:
				out.Line("fwrite", "r")
				armedR = false
			case x >= 8 && r.Chance(1, 2):
				out.Line("fgen", wire.Pick(r, []string{"fc", "fr"})) // the same files under their file-cert: / file-root: names
			case x == 9:
				b := randLetters(r, 0, 2)
				if b != cfg {
					cfg = b
					out.Line("bundle", b)
				}
			default:
				if r.Chance(1, 2) {
					out.Line("fgen", "w")
					armedW = true
				} else {
					out.Line("fgen", "r")
					armedR = true
				}
			}
		}
		if r.Chance(1, 2) {
			out.Line("fgen", wire.Pick(r, []string{"fc", "fr"}))
		}
	}
}

func forEachFileCase(in string, f func(lines [][]string) []string) [][]string {
	cases := splitCases(wire.ReadLines(in))
	res := make([][]string, len(cases))
	sem := make(chan struct{}, 8)
	var wg sync.WaitGroup
	for i, c := range cases {
		wg.Add(1)
		go func(i int, c [][]string) {
			defer wg.Done()
			sem <- struct{}{}
			defer func() { <-sem }()
			res[i] = f(c)
		}(i, c)
	}
	wg.Wait()
	return res
}

func execFile(in, outp string) {
	out := wire.Create(outp)
	defer out.Close()
	for _, lines := range forEachFileCase(in, func(lines [][]string) (outl []string) {
		var f *fileSUT
		defer func() {
			if f != nil {
				f.close()
			}
		}()
		for _, t := range lines {
			func() {
				defer func() {
					if e := recover(); e != nil {
						outl = append(outl, "crash")
					}
				}()
				if f == nil {
					f = newFileSUT(caseVariant(t))
				}
				if t[0] == "case" {
					outl = append(outl, "ok")
					return
				}
				outl = append(outl, f.op(t))
			}()
		}
		return outl
	}) {
		for _, l := range lines {
			out.Line(l)
		}
	}
}

// oracleFile: a file-mounted identity is served from the files: the answer is the pair currently on disk (key
// and cert of the same written version), ROOTCA is the root on disk merged with the configured anchors, the CA is
// never asked, nothing is cached or scheduled, and a replaced file is announced to the subscribers of that
// resource (and only them).
func oracleFile(in, outp string) {
	out := wire.Create(outp)
	defer out.Close()
	for _, v := range forEachFileCase(in, func(lines [][]string) []string {
		var f *fileSUT
		defer func() {
			if f != nil {
				f.close()
			}
		}()
		verdict := ""
		armed := map[string]bool{} // a GenerateSecret of the resource registered the watch since its last replacement
		fail := func(clause string, t []string, extra string) {
			if verdict == "" {
				verdict = clause + " " + wire.Enc(join(t)) + " " + wire.Enc(extra)
			}
		}
		for _, t := range lines {
			if verdict != "" {
				break
			}
			func() {
				defer func() {
					if e := recover(); e != nil {
						fail("crash", t, fmt.Sprint(e))
					}
				}()
				if f == nil {
					f = newFileSUT(caseVariant(t))
				}
				if t[0] == "case" {
					return
				}
				r := f.op(t)
				if t[0] == "fgen" && len(t) == 2 {
					armed[t[1]] = true
				}
				if t[0] == "fflicker" {
					// while the root file is missing the agent asks the CA (by design): only the announcement is judged
					if r != "cb=1" {
						fail("file-change-unannounced", t, r+" (the file is not watched after a failed watcher registration)")
					}
					return
				}
				if t[0] == "fstress" && f.kube {
					// a kubelet publish lets the files vanish for an instant: the CA fallback may have answered (and
					// cached) in between - only the op's own verdict is judged (last op of its case)
					if strings.HasPrefix(r, "violated ") {
						fl := strings.Fields(r)
						fail(fl[1], t, strings.Join(fl[2:], " "))
					}
					return
				}
				if f.ca.calls() != 0 {
					fail("file-called-ca", t, r)
				}
				if nacache.VerifCachedWorkload(f.sc) != nil || f.q.len() != 0 {
					fail("file-cached", t, r)
				}
				switch {
				case t[0] == "fgen" && len(t) == 2 && t[1] == "w":
					if !strings.HasPrefix(r, fmt.Sprintf("ok pair=%d ", f.wv)) {
						fail("file-stale-pair", t, r)
					}
					cert, key, _ := f.paths()
					kb, _ := os.ReadFile(key)
					cb, _ := os.ReadFile(cert)
					if l := leafOf(cb); l == nil || !bytes.Equal(l.RawSubjectPublicKeyInfo, pubOfKey(kb)) {
						fail("pair-mismatch", t, "files")
					}
				case t[0] == "fgen" && len(t) == 2 && t[1] == "r":
					want := string(f.rootLetter) + strings.ReplaceAll(lettersOrDash(nacache.VerifConfigTrustBundle(f.sc)), "-", "")
					got := strings.TrimPrefix(strings.Fields(r)[1], "root=")
					if !strings.HasPrefix(r, "ok ") || !containsAll(got, want) || strings.Trim(got, want) != "" {
						fail("root-missing", t, r)
					}
				case t[0] == "fstress":
					if strings.HasPrefix(r, "violated ") {
						fl := strings.Fields(r)
						fail(fl[1], t, strings.Join(fl[2:], " "))
					}
				case t[0] == "fwrite" && len(t) == 2:
					if armed[t[1]] && !strings.HasPrefix(r, "cb=1 other=0") && !strings.HasPrefix(r, "cb=1 other=*") {
						fail("file-change-unannounced", t, r)
					}
					armed[t[1]] = false
				}
			}()
		}
		if verdict == "" {
			return []string{"OK"}
		}
		return []string{"FAIL " + verdict}
	}) {
		for _, l := range v {
			out.Line(l)
		}
	}
}
