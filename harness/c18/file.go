package main

import (
	"bytes"
	"crypto/ecdsa"
	"crypto/elliptic"
	"crypto/rand"
	"crypto/x509"
	"crypto/x509/pkix"
	"encoding/pem"
	"fmt"
	"math/big"
	"os"
	"path/filepath"
	"strconv"
	"strings"
	"sync"
	"time"

	"istio.io/istio/pkg/file"
	nacache "istio.io/istio/security/pkg/nodeagent/cache"
	"verifharness/internal/wire"
)

// Stream `file`: file-mounted certificates (generateFileSecret, generateKeyCertFromExistingFiles,
// generateRootCertFromExistingFile incl. its SetRoot, addFileWatcher, handleFileWatch / handleFileEvent):
// the client is created with CertChainFilePath / KeyFilePath / RootCertFilePath pointing into a temp
// directory; the harness owns the files.
//
//	case <n> file
//	fgen <w|r>     GenerateSecret(default | ROOTCA): must answer from the files, never call the CA
//	fwrite <w|r>   replace the key+cert pair (new version) | the root file (next root letter), atomically, and
//	               wait (condition, 20 s) for the file watcher's callback for that resource
//	bundle <X>     UpdateConfigTrustBundle (merged into the ROOTCA answer)
//
// The generator always puts an fgen of the resource between two writes of it (the watch is registered by
// GenerateSecret and dropped when the watched inode is replaced).

type fileSUT struct {
	*sut
	dir        string
	wv         int         // version of the key/cert pair on disk
	rootLetter byte        // root on disk
	versions   [][2][]byte // key, cert PEM per version
}

func (f *fileSUT) paths() (cert, key, root string) {
	return filepath.Join(f.dir, "cert-chain.pem"), filepath.Join(f.dir, "key.pem"), filepath.Join(f.dir, "root-cert.pem")
}

func (f *fileSUT) newPair() (keyPEM, certPEM []byte) {
	k, err := ecdsa.GenerateKey(elliptic.P256(), rand.Reader)
	must(err)
	signer := rootByName('A')
	tmpl := &x509.Certificate{
		SerialNumber: big.NewInt(int64(5000 + len(f.versions))),
		Subject:      pkix.Name{Organization: []string{"verif-file"}},
		NotBefore:    time.Now().Add(-time.Minute),
		NotAfter:     time.Now().Add(time.Hour),
		KeyUsage:     x509.KeyUsageDigitalSignature,
		ExtKeyUsage:  []x509.ExtKeyUsage{x509.ExtKeyUsageServerAuth, x509.ExtKeyUsageClientAuth},
	}
	der, err := x509.CreateCertificate(rand.Reader, tmpl, signer.cert, &k.PublicKey, signer.key)
	must(err)
	kd, err := x509.MarshalECPrivateKey(k)
	must(err)
	keyPEM = pem.EncodeToMemory(&pem.Block{Type: "EC PRIVATE KEY", Bytes: kd})
	certPEM = pem.EncodeToMemory(&pem.Block{Type: "CERTIFICATE", Bytes: der})
	f.versions = append(f.versions, [2][]byte{keyPEM, certPEM})
	return
}

var fileCreate sync.Mutex

func newFileSUT() *fileSUT {
	initRoots()
	dir, err := os.MkdirTemp("", "c18file")
	must(err)
	f := &fileSUT{dir: dir, rootLetter: 'A'}
	cert, key, root := f.paths()
	k, c := f.newPair()
	must(os.WriteFile(key, k, 0o644))
	must(os.WriteFile(cert, c, 0o644))
	must(os.WriteFile(root, []byte(rootByName('A').pem), 0o644))
	fileCreate.Lock()
	filePaths = [3]string{cert, key, root}
	ca := &fakeCA{}
	f.sut = newSUTWith(0.5, 0, ca, ca)
	filePaths = [3]string{}
	fileCreate.Unlock()
	return f
}

func (f *fileSUT) close() {
	f.sut.close()
	os.RemoveAll(f.dir)
}

func (f *fileSUT) state() string {
	return fmt.Sprintf("croot=%s cfg=%s wl=%s ca=%d", lettersOrDash(nacache.VerifCachedRoot(f.sc)),
		lettersOrDash(nacache.VerifConfigTrustBundle(f.sc)), map[bool]string{true: "-", false: "cached"}[nacache.VerifCachedWorkload(f.sc) == nil],
		f.ca.calls())
}

// pairVersion: which written version a returned key/cert is ("?" unknown, "x" key and cert of different versions).
func (f *fileSUT) pairVersion(key, cert []byte) string {
	kv, cv := -1, -1
	for i, v := range f.versions {
		if bytes.Equal(v[0], key) {
			kv = i
		}
		if bytes.Equal(v[1], cert) {
			cv = i
		}
	}
	switch {
	case kv < 0 || cv < 0:
		return "?"
	case kv != cv:
		return "x"
	}
	return strconv.Itoa(kv)
}

func (f *fileSUT) op(t []string) string {
	cert, key, root := f.paths()
	switch t[0] {
	case "fgen":
		if len(t) != 2 {
			return "bad-op"
		}
		name, ok := resName(t[1])
		if !ok {
			return "bad-op"
		}
		it, err := f.sc.GenerateSecret(name)
		ev := f.takeEvents()
		if err != nil || it == nil {
			return "err ev=" + ev + " | " + f.state()
		}
		if t[1] == "w" {
			return "ok pair=" + f.pairVersion(it.PrivateKey, it.CertificateChain) + " ev=" + ev + " | " + f.state()
		}
		return "ok root=" + rootLetters(it.RootCert) + " ev=" + ev + " | " + f.state()
	case "fwrite":
		if len(t) != 2 || (t[1] != "w" && t[1] != "r") {
			return "bad-op"
		}
		want := byte('W')
		if t[1] == "w" {
			k, c := f.newPair()
			f.wv = len(f.versions) - 1
			must(file.AtomicWrite(cert, c, 0o644))
			must(file.AtomicWrite(key, k, 0o644))
		} else {
			want = 'R'
			f.rootLetter = 'A' + (f.rootLetter-'A'+1)%nRoots
			must(file.AtomicWrite(root, []byte(rootByName(f.rootLetter).pem), 0o644))
		}
		// the watcher's callback: at least one for the written resource (how many inotify events one atomic
		// replace produces is not the property), none for the other
		got := ""
		deadline := time.Now().Add(20 * time.Second)
		for time.Now().Before(deadline) {
			got += strings.ReplaceAll(f.takeEvents(), "-", "")
			if strings.ContainsAny(got, string([]byte{want, want + 32})) {
				break
			}
			time.Sleep(2 * time.Millisecond)
		}
		time.Sleep(60 * time.Millisecond)
		got += strings.ReplaceAll(f.takeEvents(), "-", "")
		hit, other := false, false
		for i := 0; i < len(got); i++ {
			if got[i] == want || got[i] == want+32 {
				hit = true
			} else {
				other = true
			}
		}
		return fmt.Sprintf("cb=%s other=%s | %s", wire.B(hit), wire.B(other), f.state())
	case "bundle":
		if len(t) != 2 {
			return "bad-op"
		}
		var b []byte
		if t[1] != "-" {
			b = []byte(strings.Join(bundlePEMs(t[1]), ""))
		}
		f.updateBundle(b)
		return "ev=" + f.takeEvents() + " | " + f.state()
	}
	return "bad-op"
}

func genFile(seed uint64, n int, path string) {
	out := wire.Create(path)
	defer out.Close()
	root := wire.NewRng(seed*0x9e3779b9 + 7117)
	for i := 0; i < n; i++ {
		r := root.Fork()
		out.Line("case", strconv.Itoa(i), "file")
		armedW, armedR := false, false // a GenerateSecret registered the watch since the last write
		cfg := "-"
		nops := 3 + r.Intn(8)
		for k := 0; k < nops; k++ {
			switch x := r.Intn(10); {
			case x < 3:
				out.Line("fgen", "w")
				armedW = true
			case x < 5:
				out.Line("fgen", "r")
				armedR = true
			case x < 7 && armedW:
				out.Line("fwrite", "w")
				armedW = false
			case x < 9 && armedR:
				out.Line("fwrite", "r")
				armedR = false
			case x == 9:
				b := randLetters(r, 0, 2)
				if b != cfg {
					cfg = b
					out.Line("bundle", b)
				}
			default:
				if r.Chance(1, 2) {
					out.Line("fgen", "w")
					armedW = true
				} else {
					out.Line("fgen", "r")
					armedR = true
				}
			}
		}
	}
}

func forEachFileCase(in string, f func(lines [][]string) []string) [][]string {
	cases := splitCases(wire.ReadLines(in))
	res := make([][]string, len(cases))
	sem := make(chan struct{}, 8)
	var wg sync.WaitGroup
	for i, c := range cases {
		wg.Add(1)
		go func(i int, c [][]string) {
			defer wg.Done()
			sem <- struct{}{}
			defer func() { <-sem }()
			res[i] = f(c)
		}(i, c)
	}
	wg.Wait()
	return res
}

func execFile(in, outp string) {
	out := wire.Create(outp)
	defer out.Close()
	for _, lines := range forEachFileCase(in, func(lines [][]string) (outl []string) {
		var f *fileSUT
		defer func() {
			if f != nil {
				f.close()
			}
		}()
		for _, t := range lines {
			func() {
				defer func() {
					if e := recover(); e != nil {
						outl = append(outl, "crash")
					}
				}()
				if f == nil {
					f = newFileSUT()
				}
				if t[0] == "case" {
					outl = append(outl, "ok")
					return
				}
				outl = append(outl, f.op(t))
			}()
		}
		return outl
	}) {
		for _, l := range lines {
			out.Line(l)
		}
	}
}

// oracleFile: a file-mounted identity is served from the files: the answer is the pair currently on disk (key
// and cert of the same written version), ROOTCA is the root on disk merged with the configured anchors, the CA is
// never asked, nothing is cached or scheduled, and a replaced file is announced to the subscribers of that
// resource (and only them).
func oracleFile(in, outp string) {
	out := wire.Create(outp)
	defer out.Close()
	for _, v := range forEachFileCase(in, func(lines [][]string) []string {
		var f *fileSUT
		defer func() {
			if f != nil {
				f.close()
			}
		}()
		verdict := ""
		armed := map[string]bool{} // a GenerateSecret of the resource registered the watch since its last replacement
		fail := func(clause string, t []string, extra string) {
			if verdict == "" {
				verdict = clause + " " + wire.Enc(join(t)) + " " + wire.Enc(extra)
			}
		}
		for _, t := range lines {
			if verdict != "" {
				break
			}
			func() {
				defer func() {
					if e := recover(); e != nil {
						fail("crash", t, fmt.Sprint(e))
					}
				}()
				if f == nil {
					f = newFileSUT()
				}
				if t[0] == "case" {
					return
				}
				r := f.op(t)
				if t[0] == "fgen" && len(t) == 2 {
					armed[t[1]] = true
				}
				if f.ca.calls() != 0 {
					fail("file-called-ca", t, r)
				}
				if nacache.VerifCachedWorkload(f.sc) != nil || f.q.len() != 0 {
					fail("file-cached", t, r)
				}
				switch {
				case t[0] == "fgen" && len(t) == 2 && t[1] == "w":
					if !strings.HasPrefix(r, fmt.Sprintf("ok pair=%d ", f.wv)) {
						fail("file-stale-pair", t, r)
					}
					cert, key, _ := f.paths()
					kb, _ := os.ReadFile(key)
					cb, _ := os.ReadFile(cert)
					if l := leafOf(cb); l == nil || !bytes.Equal(l.RawSubjectPublicKeyInfo, pubOfKey(kb)) {
						fail("pair-mismatch", t, "files")
					}
				case t[0] == "fgen" && len(t) == 2 && t[1] == "r":
					want := string(f.rootLetter) + strings.ReplaceAll(lettersOrDash(nacache.VerifConfigTrustBundle(f.sc)), "-", "")
					got := strings.TrimPrefix(strings.Fields(r)[1], "root=")
					if !strings.HasPrefix(r, "ok ") || !containsAll(got, want) || strings.Trim(got, want) != "" {
						fail("root-missing", t, r)
					}
				case t[0] == "fwrite" && len(t) == 2:
					if armed[t[1]] && !strings.HasPrefix(r, "cb=1 other=0") {
						fail("file-change-unannounced", t, r)
					}
					armed[t[1]] = false
				}
			}()
		}
		if verdict == "" {
			return []string{"OK"}
		}
		return []string{"FAIL " + verdict}
	}) {
		for _, l := range v {
			out.Line(l)
		}
	}
}
