package main

import (
	"bytes"
	"fmt"
	"os"
	"path/filepath"
	"strconv"
	"strings"
	"sync"
	"time"

	"istio.io/istio/pkg/security"
	nacache "istio.io/istio/security/pkg/nodeagent/cache"
)

// Op `outdir <N> <ms>` (stream conc): security.Options.OutputKeyCertToDir set, i.e. the deferred writer of
// GenerateSecret (nodeagent/util.OutputKeyCertToDir under outputMutex) runs on every answer.  N goroutines
// request default / ROOTCA while rotation tasks clear the cache, for <ms> ms.  While writers race, key.pem
// and cert-chain.pem may disagree for a moment (the code says so); what must hold:
//
//	outdir-pair     at quiescence key.pem and cert-chain.pem on disk are a matching pair (outputMutex: no permanent
//	                mismatch), and nothing panicked
//	outdir-stale    after one more GenerateSecret(default) / (ROOTCA) the three files are byte-identical to what was
//	                returned (the files are what a non-SDS consumer is served)
func runOutdir(t []string) string {
	if len(t) != 3 {
		return "bad-op"
	}
	n, e1 := strconv.Atoi(t[1])
	ms, e2 := strconv.Atoi(t[2])
	if e1 != nil || e2 != nil || n < 1 || n > 128 || ms < 1 || ms > 60000 {
		return "bad-op"
	}
	dir, err := os.MkdirTemp("", "c18out")
	must(err)
	defer os.RemoveAll(dir)
	s := newSUTOutputDir(dir)
	defer s.close()
	s.ca.script = func(i int) caOutcome {
		if i%7 == 3 {
			return caOutcome{kind: "signerr", signer: 'A', bundle: "-"} // a failing CA: nothing may be written for it
		}
		return caOutcome{kind: "ok", ttl: time.Hour, signer: byte('A' + (i/2)%2), bundle: "-"}
	}
	var mu sync.Mutex
	violation := ""
	fail := func(v string) {
		mu.Lock()
		if violation == "" {
			violation = v
		}
		mu.Unlock()
	}
	read := func(name string) []byte {
		b, _ := os.ReadFile(filepath.Join(dir, name))
		return b
	}
	// many short bursts, each followed by a quiescent look at the files: a permanent key/cert mismatch arises when a
	// caller that still holds the previous pair and the caller that fetched the new one write at the same time
	rounds := ms / 10
	if rounds < 1 {
		rounds = 1
	}
	next := 0
	for round := 0; round < rounds && violation == ""; round++ {
		stop := make(chan struct{})
		var wg sync.WaitGroup
		guard := func(f func()) {
			wg.Add(1)
			go func() {
				defer wg.Done()
				defer func() {
					if e := recover(); e != nil {
						fail(fmt.Sprintf("panic %v", e))
					}
				}()
				f()
			}()
		}
		for g := 0; g < n; g++ {
			g := g
			guard(func() {
				for k := 0; ; k++ {
					select {
					case <-stop:
						return
					default:
					}
					name := security.WorkloadKeyCertResourceName
					if (g+k)%4 == 0 {
						name = security.RootCertReqResourceName
					}
					_, _ = s.sc.GenerateSecret(name) // every 7th CA call fails: the caller gets the error
				}
			})
		}
		guard(func() {
			for {
				select {
				case <-stop:
					return
				default:
				}
				s.q.mu.Lock()
				var e *qEntry
				if next < len(s.q.entries) {
					e = s.q.entries[next]
					e.fired = true
					next++
				}
				s.q.mu.Unlock()
				if e != nil {
					_ = e.task()
				}
				time.Sleep(300 * time.Microsecond)
			}
		})
		// configured anchors change between bursts: root-cert.pem is the merged bundle
		s.updateBundle([]byte(strings.Join(bundlePEMs([]string{"C", "CD", "D"}[round%3]), "")))
		time.Sleep(8 * time.Millisecond)
		close(stop)
		wg.Wait()
		key, chain := read("key.pem"), read("cert-chain.pem")
		if leaf := leafOf(chain); leaf == nil || !bytes.Equal(leaf.RawSubjectPublicKeyInfo, pubOfKey(key)) {
			return fmt.Sprintf("violated outdir-pair files on disk do not belong together (round %d)", round)
		}
	}
	if violation != "" {
		return "violated outdir-" + violation
	}
	s.ca.script = func(int) caOutcome { return caOutcome{kind: "ok", ttl: time.Hour, signer: 'A', bundle: "-"} }
	it, err := s.sc.GenerateSecret(security.WorkloadKeyCertResourceName)
	if err != nil {
		return "violated outdir-gen-error"
	}
	if !bytes.Equal(read("key.pem"), it.PrivateKey) || !bytes.Equal(read("cert-chain.pem"), it.CertificateChain) {
		return "violated outdir-stale key/cert files differ from the answer"
	}
	rt, err := s.sc.GenerateSecret(security.RootCertReqResourceName)
	if err != nil {
		return "violated outdir-gen-error"
	}
	if !bytes.Equal(read("root-cert.pem"), rt.RootCert) || nonCARoot(read("root-cert.pem")) ||
		!containsAll(rootLetters(rt.RootCert), lettersOrDash(nacache.VerifConfigTrustBundle(s.sc))) {
		return "violated outdir-stale root file differs from the answer"
	}
	// The root file BETWEEN requests: a `default` request that misses the cache rewrites root-cert.pem as well, with the
	// CA's root as it came.  Judged: it holds the CA's current root and only CA certificates, and key / cert are the
	// answer.  Observed and counted, not judged (the statement speaks of the CA's roots): the configured anchors are
	// only merged in by the next ROOTCA request.
	s.q.mu.Lock()
	pend := append([]*qEntry(nil), s.q.entries[next:]...)
	for _, e := range pend {
		e.fired = true
	}
	s.q.mu.Unlock()
	for _, e := range pend {
		_ = e.task()
	}
	before := s.ca.calls()
	it, err = s.sc.GenerateSecret(security.WorkloadKeyCertResourceName)
	if err != nil || s.ca.calls() != before+1 {
		return "violated outdir-gen-error after the rotation"
	}
	root := read("root-cert.pem")
	if !containsAll(rootLetters(root), "A") || nonCARoot(root) ||
		!bytes.Equal(read("key.pem"), it.PrivateKey) || !bytes.Equal(read("cert-chain.pem"), it.CertificateChain) {
		return "violated outdir-stale files after a default miss: root file " + rootLetters(root)
	}
	lostAnchors := 0
	if !containsAll(rootLetters(root), lettersOrDash(nacache.VerifConfigTrustBundle(s.sc))) {
		lostAnchors = 1
	}
	statf("outdir goroutines=%d rounds=%d ca-calls=%d tasks=%d root-file-without-anchors-after-default-miss=%d", n, rounds,
		s.ca.calls(), s.q.len(), lostAnchors)
	return "ok files"
}
