package main

import (
	"math"
	"math/big"
	"strconv"
	"time"

	"istio.io/istio/pkg/security"
	nacache "istio.io/istio/security/pkg/nodeagent/cache"
	"verifharness/internal/wire"
)

// Stream `rotate`.
//
//	rot <cOff> <eOff> <rNum> <rDen> <JNum> <JDen> <mono>
//
// created = base+cOff ns, expire = base+eOff ns (base = time.Now() at execution), ratio and jitter
// bound are the float64 values rNum/rDen and JNum/JDen (exact: the denominators are powers of two).
// mono=1 keeps the monotonic clock reading in the time.Time values, mono=0 strips it (as in a
// time parsed from a certificate).
//
// exec answers `obs (<d> <w0> <w1>)*`: the delay returned by the real rotateTime for obsPerLine
// calls, each with the window [w0,w1] (ns after base) in which the call (and therefore its
// time.Now()) happened.  rand and the clock are not controllable, so these lines are not compared
// textually: the check joins them to the op (`rotobs ...`) and the Lean model decides whether every
// observation lies in the interval of admissible delays.

const obsPerLine = 3

var rotLifetimes = []int64{
	0, 1, 2, 3, 7, 100, 1000, 1e6, 1e9, 60e9, 3600e9, 86400e9, 90 * 86400e9, 365 * 86400e9, 3650 * 86400e9,
	1 << 52, 1<<53 + 1, 1<<60 + 12345,
}

var rotRatios = []float64{0, 0.5, 1, 0.25, 0.75, 0.01, 0.99, 0.3, 1.0 / 3.0, 0.1, 0.9}
var rotJitters = []float64{0, 0, 0.01, 0.5, 1, 0.1, 0.25}

func unitFloat(r *wire.Rng) float64 { return float64(r.Next()>>11) / (1 << 53) }

func randMag(r *wire.Rng) int64 {
	k := r.Intn(62)
	if k == 0 {
		return 0
	}
	return int64(r.Next() % (uint64(1) << uint(k)))
}

func ratTokens(f float64) (string, string) {
	q := new(big.Rat).SetFloat64(f)
	return q.Num().String(), q.Denom().String()
}

func genRotate(seed uint64, n int, path string) {
	out := wire.Create(path)
	defer out.Close()
	root := wire.NewRng(seed*0x9e3779b9 + 18)
	for i := 0; i < n; i++ {
		r := root.Fork()
		out.Line("case", strconv.Itoa(i), "rotate")
		lines := 1 + r.Intn(2)
		for l := 0; l < lines; l++ {
			var life int64
			switch x := r.Intn(10); {
			case x < 6:
				life = wire.Pick(r, rotLifetimes)
			case x < 9:
				life = randMag(r)
			default:
				life = -randMag(r) / 4
			}
			var cOff int64
			switch x := r.Intn(10); {
			case x < 4:
				cOff = 0
			case x < 6:
				if life > 0 {
					cOff = -int64(r.Next() % uint64(life+1))
				}
			case x < 8:
				cOff = -randMag(r) / 2
			default:
				cOff = randMag(r) / 2
			}
			eOff := cOff + life
			var ratio float64
			switch x := r.Intn(20); {
			case x < 10:
				ratio = wire.Pick(r, rotRatios)
			case x < 17:
				ratio = unitFloat(r)
			case x < 19:
				ratio = unitFloat(r)*2 - 0.5
			default:
				ratio = math.Nextafter(wire.Pick(r, rotRatios), 2)
			}
			var jit float64
			switch x := r.Intn(20); {
			case x < 10:
				jit = wire.Pick(r, rotJitters)
			case x < 14:
				jit = unitFloat(r)
			case x < 16:
				jit = math.Abs(ratio)
			case x < 17:
				jit = math.Abs(math.Nextafter(ratio, 2))
			case x < 18:
				jit = math.Abs(math.Nextafter(ratio, -2))
			case x < 19:
				jit = unitFloat(r) / 64
			default:
				jit = 1 + unitFloat(r)
			}
			rn, rd := ratTokens(ratio)
			jn, jd := ratTokens(jit)
			out.Line("rot", strconv.FormatInt(cOff, 10), strconv.FormatInt(eOff, 10), rn, rd, jn, jd, wire.B(r.Chance(1, 2)))
		}
	}
}

type rotOp struct {
	cOff, eOff int64
	ratio, jit float64
	rq, jq     *big.Rat
	mono       bool
	ok         bool
}

func parseRot(t []string) rotOp {
	var o rotOp
	if len(t) != 8 || t[0] != "rot" {
		return o
	}
	var e1, e2 error
	o.cOff, e1 = strconv.ParseInt(t[1], 10, 64)
	o.eOff, e2 = strconv.ParseInt(t[2], 10, 64)
	rq, ok1 := new(big.Rat).SetString(t[3] + "/" + t[4])
	jq, ok2 := new(big.Rat).SetString(t[5] + "/" + t[6])
	if e1 != nil || e2 != nil || !ok1 || !ok2 {
		return o
	}
	o.rq, o.jq = rq, jq
	o.ratio, _ = rq.Float64()
	o.jit, _ = jq.Float64()
	o.mono = t[7] == "1"
	o.ok = true
	return o
}

type rotObs struct{ d, w0, w1 int64 }

// observe calls the real rotateTime k times on one certificate.
func (o rotOp) observe(k int) []rotObs {
	base := time.Now()
	if !o.mono {
		base = base.Round(0)
	}
	since := func(t time.Time) int64 {
		if !o.mono {
			t = t.Round(0)
		}
		return int64(t.Sub(base))
	}
	item := security.SecretItem{CreatedTime: base.Add(time.Duration(o.cOff)), ExpireTime: base.Add(time.Duration(o.eOff))}
	res := make([]rotObs, 0, k)
	for i := 0; i < k; i++ {
		n0 := time.Now()
		d := nacache.VerifRotateTime(item, o.ratio, o.jit)
		n1 := time.Now()
		res = append(res, rotObs{int64(d), since(n0), since(n1)})
	}
	return res
}

func execRotate(in, outp string) {
	out := wire.Create(outp)
	defer out.Close()
	for _, t := range wire.ReadLines(in) {
		func() {
			defer func() {
				if recover() != nil {
					out.Line("crash")
				}
				out.Flush()
			}()
			if t[0] == "case" {
				out.Line("ok")
				return
			}
			o := parseRot(t)
			if !o.ok {
				out.Line("bad-op")
				return
			}
			toks := []string{"obs"}
			for _, ob := range o.observe(obsPerLine) {
				toks = append(toks, strconv.FormatInt(ob.d, 10), strconv.FormatInt(ob.w0, 10), strconv.FormatInt(ob.w1, 10))
			}
			out.Line(toks...)
		}()
	}
}

// oracleRotate states the rotation clauses of the property directly on the values returned by the
// real function (many draws of the random jitter per input), without the Lean model:
//
//	negative    the delay is negative
//	late        lifetime >= 0, now <= expire, but now + delay > expire
//	late-after-expiry  lifetime >= 0, now >= expire, but a positive delay is scheduled
//	not-strict  ratio - jitter > 0 with a margin (ratio-jitter)*lifetime of at least 2 ns (+ float
//	            slack), a positive delay is scheduled, and now + delay >= expire
func oracleRotate(in, outp string) {
	out := wire.Create(outp)
	defer out.Close()
	verdict := ""
	started := false
	flush := func() {
		if started {
			if verdict == "" {
				out.Line("OK")
			} else {
				out.Line("FAIL", verdict)
			}
		}
		verdict = ""
	}
	for _, t := range wire.ReadLines(in) {
		if t[0] == "case" {
			flush()
			started = true
			continue
		}
		o := parseRot(t)
		if !o.ok || verdict != "" {
			continue
		}
		life := o.eOff - o.cOff
		// exact margin min(1, r-J) * life
		m := new(big.Rat).Sub(o.rq, o.jq)
		if m.Cmp(big.NewRat(1, 1)) > 0 {
			m = big.NewRat(1, 1)
		}
		margin := new(big.Rat).Mul(m, new(big.Rat).SetInt64(life))
		slack := new(big.Rat).SetFrac64(life, 1<<50)
		slack.Add(slack, big.NewRat(2, 1))
		strict := life >= 0 && o.jq.Sign() >= 0 && margin.Cmp(slack) >= 0
		wide := new(big.Rat).Add(slack, new(big.Rat).SetInt64(int64(time.Second)))
		strictWide := strict && margin.Cmp(wide) >= 0
		func() {
			defer func() {
				if recover() != nil {
					verdict = "crash " + wire.Enc(join(t))
				}
			}()
			for _, ob := range o.observe(60) {
				switch {
				case ob.d < 0:
					verdict = "negative d=" + strconv.FormatInt(ob.d, 10) + " " + wire.Enc(join(t))
				case life >= 0 && ob.w0 <= o.eOff && ob.w0+ob.d > o.eOff:
					verdict = "late d=" + strconv.FormatInt(ob.d, 10) + ",now=" + strconv.FormatInt(ob.w0, 10) + " " + wire.Enc(join(t))
				case life >= 0 && ob.w0 >= o.eOff && ob.d > 0:
					verdict = "late-after-expiry d=" + strconv.FormatInt(ob.d, 10) + ",now=" + strconv.FormatInt(ob.w0, 10) + " " + wire.Enc(join(t))
				case strictWide && ob.d > 0 && ob.w1-ob.w0 < int64(500*time.Millisecond) && ob.w1+ob.d >= o.eOff:
					// margin of at least 1 s and the call took < 0.5 s: now + delay <= w1 + delay must be before expire
					verdict = "not-strict d=" + strconv.FormatInt(ob.d, 10) + ",now<=" + strconv.FormatInt(ob.w1, 10) + " " + wire.Enc(join(t))
				case strict && ob.d > 0 && ob.w0+ob.d >= o.eOff:
					verdict = "not-strict d=" + strconv.FormatInt(ob.d, 10) + ",now=" + strconv.FormatInt(ob.w0, 10) + " " + wire.Enc(join(t))
				}
				if verdict != "" {
					return
				}
			}
		}()
	}
	flush()
}

func join(t []string) string {
	s := ""
	for i, x := range t {
		if i > 0 {
			s += " "
		}
		s += x
	}
	return s
}
