package main

import (
	"fmt"
	"strconv"
	"strings"
	"sync"
	"sync/atomic"
	"time"

	"istio.io/istio/pkg/queue"
	"istio.io/istio/pkg/security"
	nacache "istio.io/istio/security/pkg/nodeagent/cache"
	"verifharness/internal/wire"
)

// Stream `timer` (thorough tier): the rotation callbacks run on the REAL pkg/queue delayed queue
// with real, short certificate lifetimes.
//
//	rt <ttlSec> <rNum> <rDen> <stale>
//	qs <iterations> <spinMicros>
//
// qs: stress of the real queue as the node agent configures it (DelayQueueBuffer(0)): start Run, spin,
// PushDelayed(f, 0), wait up to 2 s; prints the number of tasks that never ran (must be 0: before the
// fix of pushInternal a task pushed while Run was about to park stayed on the heap).
//
// stale=0: request a certificate, wait until its rotation fires, request again.
// stale=1: request, change the trust bundle (cache cleared, first task becomes stale), request again,
// wait until both tasks have run, request again.
// Output: all callbacks in order, CA calls, cached key id, and whether any task ran before its time.
// Only lower bounds on waiting are used (a slow machine makes the run longer, never different).

// fwdQueue records what registerSecret schedules and forwards it to a real delayed queue.
type fwdQueue struct {
	inner queue.Delayed
	mu    sync.Mutex
	due   []time.Time // at + delay of every pushed task
	ran   []time.Time // start time of every task (same index), zero until it ran
	exp   []time.Time // expiry of the certificate the task was scheduled for (set by the harness)
}

func (q *fwdQueue) Push(t queue.Task) { q.PushDelayed(t, 0) }
func (q *fwdQueue) PushDelayed(t queue.Task, d time.Duration) {
	q.mu.Lock()
	idx := len(q.due)
	q.due = append(q.due, time.Now().Add(d))
	q.ran = append(q.ran, time.Time{})
	q.mu.Unlock()
	q.inner.PushDelayed(func() error {
		started := time.Now()
		err := t()
		q.mu.Lock()
		q.ran[idx] = started
		q.mu.Unlock()
		return err
	}, d)
}
func (q *fwdQueue) Run(stop <-chan struct{}) { q.inner.Run(stop) }
func (q *fwdQueue) Closed() <-chan struct{}  { return q.inner.Closed() }

func (q *fwdQueue) allRan(n int) bool {
	q.mu.Lock()
	defer q.mu.Unlock()
	if len(q.ran) < n {
		return false
	}
	for _, t := range q.ran[:n] {
		if t.IsZero() {
			return false
		}
	}
	return true
}

// setExpiry notes the expiry of the certificate behind the most recently pushed task.
func (q *fwdQueue) setExpiry(t time.Time) {
	q.mu.Lock()
	defer q.mu.Unlock()
	for len(q.exp) < len(q.due) {
		q.exp = append(q.exp, t)
	}
}

// late: a task started after the certificate it was to renew had expired.
func (q *fwdQueue) late() bool {
	q.mu.Lock()
	defer q.mu.Unlock()
	for i, t := range q.ran {
		if !t.IsZero() && i < len(q.exp) && t.After(q.exp[i]) {
			return true
		}
	}
	return false
}

func (q *fwdQueue) dueAfterExpiry() bool {
	q.mu.Lock()
	defer q.mu.Unlock()
	for i, d := range q.due {
		if i < len(q.exp) && d.After(q.exp[i]) {
			return true
		}
	}
	return false
}

func (q *fwdQueue) ranCount() int {
	q.mu.Lock()
	defer q.mu.Unlock()
	n := 0
	for _, t := range q.ran {
		if !t.IsZero() {
			n++
		}
	}
	return n
}

func (q *fwdQueue) early() bool {
	q.mu.Lock()
	defer q.mu.Unlock()
	for i, t := range q.ran {
		if !t.IsZero() && t.Before(q.due[i]) {
			return true
		}
	}
	return false
}

// every (ratio, ttl) gives a first delay of more than one second (NotAfter is truncated to seconds, so
// the lifetime is in (ttl-1, ttl]): the sequential prefix of a case is over long before any task is due.
// ... and a grace period (time between the due instant and expiry) of more than one second.
var timerShapes = []struct {
	ratio float64
	ttl   int
}{{0.5, 4}, {0.5, 3}, {0.75, 5}, {0.5, 6}}

// timerJitter: the shape with ttl 6 runs with a jitter bound of 0.1: the drawn jitter reaches the real queue
// (lifetime in (5,6] s, ratio in [0.4, 0.6]: delay in (2, 3.6] s, grace > 2 s)
// timerThree: `rt3 <shortTTL>` - three certificates on the real queue, the LAST with the shortest lifetime: certificate
// (ttl 9 s), bundle update, certificate (9 s), bundle update, certificate (<shortTTL> s), ratio 1/2.  The third task is
// due first (1-1.5 s) while Run already waits for the first (4-4.5 s): Run must re-arm.  It must run before the expiry
// of its certificate (2-3 s); the two older tasks are stale no-ops.
func timerThree(t []string) (string, bool) {
	short, err := strconv.Atoi(t[1])
	if err != nil || short < 3 || short > 5 {
		return "bad-op", true
	}
	s := newSUT(0.5, 0, false)
	defer s.close()
	fq := &fwdQueue{inner: queue.NewDelayed(queue.DelayQueueBuffer(0))}
	stop := make(chan struct{})
	defer close(stop)
	go fq.Run(stop)
	nacache.VerifSetQueue(s.sc, fq)
	var evs []string
	collect := func() { evs = append(evs, strings.ReplaceAll(s.takeEvents(), "-", "")) }
	fail := ""
	gen := func(ttl int) {
		s.ca.next = caOutcome{kind: "ok", ttl: time.Duration(ttl) * time.Second, signer: 'A', bundle: "-"}
		if _, err := s.sc.GenerateSecret(security.WorkloadKeyCertResourceName); err != nil && fail == "" {
			fail = "gen-error"
		}
		if w := nacache.VerifCachedWorkload(s.sc); w != nil {
			fq.setExpiry(leafNotAfter(w))
		}
		collect()
	}
	gen(9)
	s.updateBundle([]byte(strings.Join(bundlePEMs("B"), "")))
	collect()
	gen(9)
	s.updateBundle([]byte(strings.Join(bundlePEMs("C"), "")))
	collect()
	gen(short)
	if fq.ranCount() != 0 {
		return "inconclusive", false
	}
	if fq.dueAfterExpiry() {
		return "scheduled-after-expiry", true
	}
	deadline := time.Now().Add(30 * time.Second)
	for !fq.allRan(3) {
		if time.Now().After(deadline) {
			if fail == "" {
				fail = "timeout"
			}
			break
		}
		time.Sleep(5 * time.Millisecond)
	}
	time.Sleep(50 * time.Millisecond)
	collect()
	gen(9)
	if fail != "" {
		return fail, true
	}
	return fmt.Sprintf("ev=%s calls=%d early=%s late=%s", strings.Join(evs, ""), s.ca.calls(), wire.B(fq.early()), wire.B(fq.late())), !fq.late()
}

func timerJitter(ttl int) float64 {
	if ttl == 6 {
		return 0.1
	}
	return 0
}

func genTimer(seed uint64, n int, path string) {
	out := wire.Create(path)
	defer out.Close()
	root := wire.NewRng(seed*0x9e3779b9 + 18181818)
	for i := 0; i < n; i++ {
		r := root.Fork()
		out.Line("case", strconv.Itoa(i), "timer")
		if i == 2 {
			out.Line("rt3", "3") // three pending tasks, the last one due first
			continue
		}
		if i == 3 || i == 4 {
			// one fresh and one stale scenario in every run, whatever the seed
			sh := wire.Pick(r, timerShapes)
			rn, rd := ratTokens(sh.ratio)
			out.Line("rt", strconv.Itoa(sh.ttl), rn, rd, wire.B(i == 4))
			continue
		}
		if i == 1 {
			// the client's own queue, delay 0: the order store-then-push under a real race
			out.Line("rz", map[bool]string{true: "1500", false: "40000"}[n <= 100])
			continue
		}
		if i == 0 {
			iters := 60000
			if n > 100 {
				iters = 2000000
			}
			out.Line("qs", strconv.Itoa(iters), "30")
			continue
		}
		sh := wire.Pick(r, timerShapes)
		rn, rd := ratTokens(sh.ratio)
		out.Line("rt", strconv.Itoa(sh.ttl), rn, rd, wire.B(r.Chance(1, 2)))
	}
}

// queueStress returns how many of n tasks pushed with delay 0 never ran within 2 s.
func queueStress(n, spinUs int) int64 {
	var lost int64
	var wg sync.WaitGroup
	sem := make(chan struct{}, 8)
	for i := 0; i < n; i++ {
		wg.Add(1)
		sem <- struct{}{}
		go func(i int) {
			defer wg.Done()
			defer func() { <-sem }()
			q := queue.NewDelayed(queue.DelayQueueBuffer(0)) // as NewSecretManagerClient does
			stop := make(chan struct{})
			defer close(stop)
			go q.Run(stop)
			t0 := time.Now()
			for time.Since(t0) < time.Duration(spinUs+i%7)*time.Microsecond {
			}
			done := make(chan struct{})
			q.PushDelayed(func() error { close(done); return nil }, 0)
			select {
			case <-done:
			case <-time.After(2 * time.Second):
				atomic.AddInt64(&lost, 1)
			}
		}(i)
	}
	wg.Wait()
	return lost
}

// queueBurst is the second shape: one task due in 100 ms followed by a burst of zero-delay pushes while Run
// is busy handing tasks to the worker.  Some of the burst goes through pushInternal's fallback branch
// while Run is already waiting for the 100 ms head: Run is woken, must put that head back on the heap
// and look again.  Returns (delayed tasks that never ran within 5 s, burst tasks that never ran, delayed
// tasks that ran before their time).
func queueBurst(reps, burst int) (lostDelayed, lostBurst, early int64) {
	var wg sync.WaitGroup
	sem := make(chan struct{}, 8)
	for i := 0; i < reps; i++ {
		wg.Add(1)
		sem <- struct{}{}
		go func(i int) {
			defer wg.Done()
			defer func() { <-sem }()
			q := queue.NewDelayed(queue.DelayQueueBuffer(0))
			stop := make(chan struct{})
			defer close(stop)
			go q.Run(stop)
			time.Sleep(time.Duration(200+37*(i%5)) * time.Microsecond) // let Run park
			delayedDone := make(chan time.Time, 1)
			due := time.Now().Add(100 * time.Millisecond)
			q.PushDelayed(func() error { delayedDone <- time.Now(); return nil }, 100*time.Millisecond)
			var ran int64
			for k := 0; k < burst; k++ {
				q.PushDelayed(func() error { atomic.AddInt64(&ran, 1); return nil }, 0)
			}
			select {
			case at := <-delayedDone:
				if at.Before(due) {
					atomic.AddInt64(&early, 1)
				}
			case <-time.After(5 * time.Second):
				atomic.AddInt64(&lostDelayed, 1)
			}
			deadline := time.Now().Add(5 * time.Second)
			for atomic.LoadInt64(&ran) < int64(burst) && time.Now().Before(deadline) {
				time.Sleep(time.Millisecond)
			}
			if r := atomic.LoadInt64(&ran); r < int64(burst) {
				atomic.AddInt64(&lostBurst, int64(burst)-r)
			}
		}(i)
	}
	wg.Wait()
	return lostDelayed, lostBurst, early
}

// runRZ: `rz <count>` - ratio 1 (grace = whole lifetime, delay 0) on the client's OWN delayed queue, the one
// NewSecretManagerClient creates and starts: every certificate's rotation task is due at once and races
// registerSecret.  For each of <count> certificates: GenerateSecret, then wait for the `default` callback;
// the task must find its certificate cached (SetWorkload(&item) precedes PushDelayed), clear it and call
// back.  A task that ran before the store is a no-op: no callback within 2 s = one lost rotation.
func runRZ(t []string) string {
	if len(t) != 2 {
		return "bad-op"
	}
	n, err := strconv.Atoi(t[1])
	if err != nil || n < 0 || n > 1000000 {
		return "bad-op"
	}
	s := newSUTOwnQueue(1, 0)
	defer s.close()
	s.ca.next = caOutcome{kind: "ok", ttl: time.Hour, signer: 'A', bundle: "-"}
	cb := make(chan struct{}, 16)
	s.sc.RegisterSecretHandler(func(name string) {
		if name == security.WorkloadKeyCertResourceName {
			cb <- struct{}{}
		}
	})
	lost := 0
	for k := 0; k < n; k++ {
		if _, err := s.sc.GenerateSecret(security.WorkloadKeyCertResourceName); err != nil {
			return "gen-error"
		}
		select {
		case <-cb:
			if nacache.VerifCachedWorkload(s.sc) != nil {
				return "cached-after-rotation"
			}
		case <-time.After(2 * time.Second):
			lost++
			// never renewed: empty the cache by hand to go on
			_ = s.sc.UpdateConfigTrustBundle([]byte(strings.Join(bundlePEMs([]string{"B", "C"}[lost%2]), "")))
			<-cb
		}
	}
	statf("rz rotations=%d lost=%d", n, lost)
	return fmt.Sprintf("lost-rotations=%d", lost)
}

// queuePairs: third shape - a zero-delay task handed to the parked Run, followed back to back by a second one while
// Run is busy with the first: the second takes pushInternal's fallback branch (heap push, then wake).  If Run is woken
// before the task is on the heap it finds nothing and parks again.  Returns how many tasks never ran within 2 s.
func queuePairs(n int) int64 {
	var lost int64
	var wg sync.WaitGroup
	sem := make(chan struct{}, 8)
	for i := 0; i < n; i++ {
		wg.Add(1)
		sem <- struct{}{}
		go func(i int) {
			defer wg.Done()
			defer func() { <-sem }()
			q := queue.NewDelayed(queue.DelayQueueBuffer(0))
			stop := make(chan struct{})
			defer close(stop)
			go q.Run(stop)
			t0 := time.Now()
			for time.Since(t0) < time.Duration(40+i%9)*time.Microsecond { // let Run park
			}
			var ran int64
			done := make(chan struct{}, 5)
			f := func() error { atomic.AddInt64(&ran, 1); done <- struct{}{}; return nil }
			want := 2 + (1 - i%2)
			if i%4 >= 2 {
				// two more pushers at the same moment: fallback pushes that contend for the heap's mutex
				// with each other and with Run (a pusher that signals before it holds the mutex loses its task here)
				want += 2
				for k := 0; k < 2; k++ {
					go q.PushDelayed(f, 0)
				}
			}
			q.PushDelayed(f, 0)
			q.PushDelayed(f, 0)
			if i%2 == 0 {
				q.PushDelayed(f, 0)
			}
			deadline := time.After(2 * time.Second)
			for k := 0; k < want; k++ {
				select {
				case <-done:
				case <-deadline:
					atomic.AddInt64(&lost, int64(want)-atomic.LoadInt64(&ran))
					return
				}
			}
		}(i)
	}
	wg.Wait()
	return lost
}

// queueFarNear: fourth shape - two tasks far away (1.2 s, 1.3 s), then one near (50 ms), pushed while Run waits for the
// first: Run must re-arm for the earliest task.  The near task must run first and well before the far ones are due.
// Returns (near tasks that ran after a far one or later than 1 s, tasks that never ran within 5 s).
func queueFarNear(reps int) (misordered, lost int64) {
	var wg sync.WaitGroup
	for i := 0; i < reps; i++ {
		wg.Add(1)
		go func(i int) {
			defer wg.Done()
			q := queue.NewDelayed(queue.DelayQueueBuffer(0))
			stop := make(chan struct{})
			defer close(stop)
			go q.Run(stop)
			time.Sleep(time.Duration(300+50*(i%4)) * time.Microsecond)
			var mu sync.Mutex
			var order []int
			done := make(chan struct{}, 3)
			task := func(id int) func() error {
				return func() error { mu.Lock(); order = append(order, id); mu.Unlock(); done <- struct{}{}; return nil }
			}
			start := time.Now()
			q.PushDelayed(task(1), 1200*time.Millisecond)
			q.PushDelayed(task(2), 1300*time.Millisecond)
			time.Sleep(time.Duration(1+i%3) * time.Millisecond)
			q.PushDelayed(task(0), 50*time.Millisecond)
			nearAt := time.Duration(0)
			for k := 0; k < 3; k++ {
				select {
				case <-done:
					mu.Lock()
					if order[len(order)-1] == 0 {
						nearAt = time.Since(start)
					}
					mu.Unlock()
				case <-time.After(5 * time.Second):
					atomic.AddInt64(&lost, 1)
					return
				}
			}
			mu.Lock()
			defer mu.Unlock()
			if order[0] != 0 || nearAt > time.Second {
				atomic.AddInt64(&misordered, 1)
			}
		}(i)
	}
	wg.Wait()
	return misordered, lost
}

// queueRetry: the worker's retry path - a task that fails twice and then succeeds runs three times; a task that
// always fails runs 1 + maxTaskRetry = 4 times and is dropped.  Returns the number of repetitions that saw other counts.
func queueRetry(reps int) int64 {
	var bad int64
	var wg sync.WaitGroup
	for i := 0; i < reps; i++ {
		wg.Add(1)
		go func() {
			defer wg.Done()
			q := queue.NewDelayed(queue.DelayQueueBuffer(0))
			stop := make(chan struct{})
			defer close(stop)
			go q.Run(stop)
			time.Sleep(300 * time.Microsecond)
			var a, b int64
			q.PushDelayed(func() error {
				if atomic.AddInt64(&a, 1) < 3 {
					return fmt.Errorf("not yet")
				}
				return nil
			}, 0)
			q.PushDelayed(func() error { atomic.AddInt64(&b, 1); return fmt.Errorf("never") }, time.Millisecond)
			deadline := time.Now().Add(3 * time.Second)
			for (atomic.LoadInt64(&a) < 3 || atomic.LoadInt64(&b) < 4) && time.Now().Before(deadline) {
				time.Sleep(time.Millisecond)
			}
			time.Sleep(30 * time.Millisecond)
			if atomic.LoadInt64(&a) != 3 || atomic.LoadInt64(&b) != 4 {
				atomic.AddInt64(&bad, 1)
			}
		}()
	}
	wg.Wait()
	return bad
}

const qsClean = "lost=0 burst:lost-delayed=0,lost=0,early=0 pairs:lost=0 far-near:misordered=0,lost=0 retry:bad=0"

func runQS(t []string) string {
	if len(t) != 3 {
		return "bad-op"
	}
	n, e1 := strconv.Atoi(t[1])
	spin, e2 := strconv.Atoi(t[2])
	if e1 != nil || e2 != nil || n < 0 || n > 100000000 {
		return "bad-op"
	}
	reps := n / 4000
	ld, lb, early := queueBurst(reps, 20)
	mis, fl := queueFarNear(12)
	statf("qs singles=%d pairs=%d burst-reps=%d far-near-reps=12 retry-reps=8", n, n, reps)
	return fmt.Sprintf("lost=%d burst:lost-delayed=%d,lost=%d,early=%d pairs:lost=%d far-near:misordered=%d,lost=%d retry:bad=%d",
		queueStress(n, spin), ld, lb, early, queuePairs(n), mis, fl, queueRetry(8))
}

// runTimerCase plays one scenario. The result is a function of the scenario only, provided the
// sequential prefix finishes before the first task is due (> 1 s, see timerShapes); if the machine
// stalled for longer than that the attempt is discarded and repeated.
// runTimerCase: an attempt is inconclusive when the machine stalled during the sequential prefix, or when a task ran
// after the expiry of its certificate (grace > 1 s).  A single late attempt may be a stall of the machine; lateness in
// two attempts is reported (a queue that serves the wrong head is late most of the time, not always).
func runTimerCase(t []string) string {
	r, lateRuns, lateLine := "bad-op", 0, ""
	for attempt := 0; attempt < 6; attempt++ {
		var conclusive bool
		r, conclusive = timerAttempt(t)
		if conclusive {
			break
		}
		if strings.Contains(r, "late=1") {
			lateRuns++
			lateLine = r
			if lateRuns >= 2 {
				return lateLine
			}
		}
	}
	return r
}

func timerAttempt(t []string) (string, bool) {
	if len(t) == 2 && t[0] == "rt3" {
		return timerThree(t)
	}
	if len(t) != 5 {
		return "bad-op", true
	}
	ttl, err := strconv.Atoi(t[1])
	ratio, ok := fracToken(t[2], t[3])
	if err != nil || !ok {
		return "bad-op", true
	}
	stale := t[4] == "1"
	s := newSUT(ratio, timerJitter(ttl), false)
	defer s.close()
	fq := &fwdQueue{inner: queue.NewDelayed(queue.DelayQueueBuffer(0))}
	stop := make(chan struct{})
	defer close(stop)
	go fq.Run(stop)
	nacache.VerifSetQueue(s.sc, fq)
	s.ca.next = caOutcome{kind: "ok", ttl: time.Duration(ttl) * time.Second, signer: 'A', bundle: "-"}
	var evs []string
	collect := func() { evs = append(evs, strings.ReplaceAll(s.takeEvents(), "-", "")) }
	wait := func(n int) bool {
		deadline := time.Now().Add(30 * time.Second)
		for !fq.allRan(n) {
			if time.Now().After(deadline) {
				return false
			}
			time.Sleep(5 * time.Millisecond)
		}
		return true
	}
	fail := ""
	gen := func() {
		if _, err := s.sc.GenerateSecret(security.WorkloadKeyCertResourceName); err != nil && fail == "" {
			fail = "gen-error"
		}
		if w := nacache.VerifCachedWorkload(s.sc); w != nil {
			fq.setExpiry(leafNotAfter(w)) // the leaf's NotAfter, not the client's bookkeeping
		}
		collect()
	}
	gen()
	n := 1
	if stale {
		s.updateBundle([]byte(strings.Join(bundlePEMs("B"), "")))
		collect()
		gen()
		n = 2
	}
	if fq.ranCount() != 0 {
		return "inconclusive", false // a task ran during the sequential prefix: the machine stalled > 1 s
	}
	if fq.dueAfterExpiry() {
		// the renewal is scheduled for after the NotAfter of the leaf it renews: that is a verdict about
		// registerSecret / rotateTime / the client's idea of the expiry, not about the queue; do not wait
		return "scheduled-after-expiry", true
	}
	if !wait(n) && fail == "" {
		fail = "timeout"
	}
	time.Sleep(50 * time.Millisecond) // let a spurious extra callback show up
	collect()
	gen()
	if fail != "" {
		return fail, true
	}
	wl := "-"
	if w := nacache.VerifCachedWorkload(s.sc); w != nil {
		wl = idTok(true, certID(w.CertificateChain))
	}
	// a task that ran after the expiry of its certificate (grace period > 1 s) is reported only if it
	// happens in every attempt: a single stall of the machine is not a verdict about the queue
	return fmt.Sprintf("ev=%s calls=%d wl=%s early=%s late=%s", strings.Join(evs, ""), s.ca.calls(), wl,
		wire.B(fq.early()), wire.B(fq.late())), !fq.late()
}

func execTimer(in, outp string) {
	out := wire.Create(outp)
	defer out.Close()
	lines := wire.ReadLines(in)
	res := make([]string, len(lines))
	sem := make(chan struct{}, 8)
	var wg sync.WaitGroup
	for i, t := range lines {
		if t[0] == "qs" {
			res[i] = runQS(t) // alone, before the timer cases start
			continue
		}
		if t[0] == "rz" {
			res[i] = runRZ(t)
			continue
		}
		if t[0] != "rt" && t[0] != "rt3" {
			res[i] = "ok"
			if t[0] != "case" {
				res[i] = "bad-op"
			}
			continue
		}
		_ = i
		wg.Add(1)
		go func(i int, t []string) {
			defer wg.Done()
			sem <- struct{}{}
			defer func() { <-sem }()
			defer func() {
				if recover() != nil {
					res[i] = "crash"
				}
			}()
			res[i] = runTimerCase(t)
		}(i, t)
	}
	wg.Wait()
	for _, r := range res {
		out.Line(r)
	}
}

// oracleTimer: every scheduled rotation runs, none before its time, the cache is refilled with a
// new certificate afterwards (exactly one CA call per rotation / clear).
func oracleTimer(in, outp string) {
	out := wire.Create(outp)
	defer out.Close()
	var lines [][]string
	for _, t := range wire.ReadLines(in) {
		if t[0] == "qs" || t[0] == "rt" || t[0] == "rz" || t[0] == "rt3" {
			lines = append(lines, t)
		}
	}
	res := make([]string, len(lines))
	sem := make(chan struct{}, 8)
	var wg sync.WaitGroup
	for i, t := range lines {
		if t[0] == "rz" {
			res[i] = "OK"
			if r := runRZ(t); r != "lost-rotations=0" {
				res[i] = "FAIL rotation-lost-task-before-store " + wire.Enc(join(t)) + " " + wire.Enc(r)
			}
			continue
		}
		if t[0] == "qs" { // alone, before the timer cases start; the exec pass already ran it at full size
			res[i] = "OK"
			if n, err := strconv.Atoi(t[1]); err == nil && len(t) == 3 {
				t = []string{"qs", strconv.Itoa(n / 4), t[2]}
			}
			if r := runQS(t); r != qsClean {
				res[i] = "FAIL queue-task-stranded " + wire.Enc(join(t)) + " " + wire.Enc(r)
			}
			continue
		}
		wg.Add(1)
		go func(i int, t []string) {
			defer wg.Done()
			sem <- struct{}{}
			defer func() { <-sem }()
			defer func() {
				if e := recover(); e != nil {
					res[i] = "FAIL crash " + wire.Enc(join(t))
				}
			}()
			res[i] = timerVerdict(t)
		}(i, t)
	}
	wg.Wait()
	for _, r := range res {
		out.Line(r)
	}
}

func timerVerdict(t []string) string {
	r := runTimerCase(t)
	want := 2
	if len(t) == 5 && t[4] == "1" {
		want = 3
	}
	if t[0] == "rt3" {
		want = 4
	}
	switch {
	case r == "scheduled-after-expiry":
		return "FAIL rotation-scheduled-after-expiry " + wire.Enc(join(t))
	case r == "timeout":
		return "FAIL rotation-never-fired " + wire.Enc(join(t))
	case strings.Contains(r, "early=1"):
		return "FAIL rotation-early " + wire.Enc(join(t)) + " " + wire.Enc(r)
	case strings.Contains(r, "late=1"):
		return "FAIL rotation-after-expiry " + wire.Enc(join(t)) + " " + wire.Enc(r)
	case !strings.Contains(r, fmt.Sprintf("calls=%d ", want)):
		return "FAIL rotation-ca-calls " + wire.Enc(join(t)) + " " + wire.Enc(r)
	}
	return "OK"
}
