package main

import (
	"fmt"
	"strconv"
	"strings"
	"sync"
	"time"

	"istio.io/istio/pkg/queue"
	"istio.io/istio/pkg/security"
	nacache "istio.io/istio/security/pkg/nodeagent/cache"
	"verifharness/internal/wire"
)

// Stream `timer` (thorough tier): the rotation callbacks run on the REAL pkg/queue delayed queue
// with real, short certificate lifetimes.
//
//	rt <ttlSec> <rNum> <rDen> <stale>
//
// stale=0: request a certificate, wait until its rotation fires, request again.
// stale=1: request, change the trust bundle (cache cleared, first task becomes stale), request again,
// wait until both tasks have run, request again.
// Output: all callbacks in order, CA calls, cached key id, and whether any task ran before its time.
// Only lower bounds on waiting are used (a slow machine makes the run longer, never different).

// fwdQueue records what registerSecret schedules and forwards it to a real delayed queue.
type fwdQueue struct {
	inner queue.Delayed
	mu    sync.Mutex
	due   []time.Time // at + delay of every pushed task
	ran   []time.Time // completion time of every task (same index), zero until it ran
}

func (q *fwdQueue) Push(t queue.Task) { q.PushDelayed(t, 0) }
func (q *fwdQueue) PushDelayed(t queue.Task, d time.Duration) {
	q.mu.Lock()
	idx := len(q.due)
	q.due = append(q.due, time.Now().Add(d))
	q.ran = append(q.ran, time.Time{})
	q.mu.Unlock()
	q.inner.PushDelayed(func() error {
		err := t()
		q.mu.Lock()
		q.ran[idx] = time.Now()
		q.mu.Unlock()
		return err
	}, d)
}
func (q *fwdQueue) Run(stop <-chan struct{}) { q.inner.Run(stop) }
func (q *fwdQueue) Closed() <-chan struct{}   { return q.inner.Closed() }

func (q *fwdQueue) allRan(n int) bool {
	q.mu.Lock()
	defer q.mu.Unlock()
	if len(q.ran) < n {
		return false
	}
	for _, t := range q.ran[:n] {
		if t.IsZero() {
			return false
		}
	}
	return true
}

func (q *fwdQueue) early() bool {
	q.mu.Lock()
	defer q.mu.Unlock()
	for i, t := range q.ran {
		if !t.IsZero() && t.Before(q.due[i]) {
			return true
		}
	}
	return false
}

func genTimer(seed uint64, n int, path string) {
	out := wire.Create(path)
	defer out.Close()
	root := wire.NewRng(seed*0x9e3779b9 + 18181818)
	for i := 0; i < n; i++ {
		r := root.Fork()
		out.Line("case", strconv.Itoa(i), "timer")
		rn, rd := ratTokens(wire.Pick(r, []float64{0.5, 0.75, 1}))
		out.Line("rt", strconv.Itoa(1+r.Intn(2)), rn, rd, wire.B(r.Chance(1, 2)))
	}
}

func runTimerCase(t []string) string {
	if len(t) != 5 {
		return "bad-op"
	}
	ttl, err := strconv.Atoi(t[1])
	ratio, ok := fracToken(t[2], t[3])
	if err != nil || !ok {
		return "bad-op"
	}
	stale := t[4] == "1"
	s := newSUT(ratio, 0, false)
	defer s.close()
	fq := &fwdQueue{inner: queue.NewDelayed(queue.DelayQueueBuffer(0))}
	stop := make(chan struct{})
	defer close(stop)
	go fq.Run(stop)
	nacache.VerifSetQueue(s.sc, fq)
	s.ca.next = caOutcome{kind: "ok", ttl: time.Duration(ttl) * time.Second, signer: 'A', bundle: "-"}
	var evs []string
	collect := func() { evs = append(evs, strings.ReplaceAll(s.takeEvents(), "-", "")) }
	wait := func(n int) bool {
		deadline := time.Now().Add(30 * time.Second)
		for !fq.allRan(n) {
			if time.Now().After(deadline) {
				return false
			}
			time.Sleep(5 * time.Millisecond)
		}
		return true
	}
	fail := ""
	gen := func() {
		if _, err := s.sc.GenerateSecret(security.WorkloadKeyCertResourceName); err != nil {
			fail = "gen-error"
		}
		collect()
	}
	gen()
	if stale {
		_ = s.sc.UpdateConfigTrustBundle([]byte(strings.Join(bundlePEMs("B"), "")))
		collect()
		gen()
		if !wait(2) {
			fail = "timeout"
		}
	} else if !wait(1) {
		fail = "timeout"
	}
	time.Sleep(50 * time.Millisecond) // let a spurious extra callback show up
	collect()
	gen()
	if fail != "" {
		return fail
	}
	wl := "-"
	if w := nacache.VerifCachedWorkload(s.sc); w != nil {
		wl = idTok(true, certID(w.CertificateChain))
	}
	return fmt.Sprintf("ev=%s calls=%d wl=%s early=%s", strings.Join(evs, ""), s.ca.calls(), wl, wire.B(fq.early()))
}

func execTimer(in, outp string) {
	out := wire.Create(outp)
	defer out.Close()
	lines := wire.ReadLines(in)
	res := make([]string, len(lines))
	sem := make(chan struct{}, 8)
	var wg sync.WaitGroup
	for i, t := range lines {
		if t[0] != "rt" {
			res[i] = "ok"
			if t[0] != "case" {
				res[i] = "bad-op"
			}
			continue
		}
		wg.Add(1)
		go func(i int, t []string) {
			defer wg.Done()
			sem <- struct{}{}
			defer func() { <-sem }()
			defer func() {
				if recover() != nil {
					res[i] = "crash"
				}
			}()
			res[i] = runTimerCase(t)
		}(i, t)
	}
	wg.Wait()
	for _, r := range res {
		out.Line(r)
	}
}

// oracleTimer: every scheduled rotation runs, none before its time, the cache is refilled with a
// new certificate afterwards (exactly one CA call per rotation / clear).
func oracleTimer(in, outp string) {
	out := wire.Create(outp)
	defer out.Close()
	for _, t := range wire.ReadLines(in) {
		if t[0] != "rt" {
			continue
		}
		r := runTimerCase(t)
		want := 2
		if len(t) == 5 && t[4] == "1" {
			want = 3
		}
		switch {
		case r == "timeout":
			out.Line("FAIL", "rotation-never-fired", wire.Enc(join(t)))
		case strings.Contains(r, "early=1"):
			out.Line("FAIL", "rotation-early", wire.Enc(join(t)), wire.Enc(r))
		case !strings.Contains(r, fmt.Sprintf("calls=%d ", want)):
			out.Line("FAIL", "rotation-ca-calls", wire.Enc(join(t)), wire.Enc(r))
		default:
			out.Line("OK")
		}
	}
}
