package main

import (
	"context"
	"fmt"
	"net"
	"os"
	"sort"
	"strconv"
	"strings"
	"sync"
	"time"

	core "github.com/envoyproxy/go-control-plane/envoy/config/core/v3"
	tlsv3 "github.com/envoyproxy/go-control-plane/envoy/extensions/transport_sockets/tls/v3"
	discovery "github.com/envoyproxy/go-control-plane/envoy/service/discovery/v3"
	sdsapi "github.com/envoyproxy/go-control-plane/envoy/service/secret/v3"
	"google.golang.org/grpc"
	"google.golang.org/grpc/credentials/insecure"

	"istio.io/istio/pkg/security"
	nacache "istio.io/istio/security/pkg/nodeagent/cache"
	"istio.io/istio/security/pkg/nodeagent/sds"
	"verifharness/internal/wire"
)

// Stream `sds`: the real sds.Server (security/pkg/nodeagent/sds) on its unix socket in front of the
// real SecretManagerClient (scripted signing CA, recording queue); the secret handler is wired to
// Server.OnSecretUpdate as istio-agent does.  Clients are plain gRPC SDS streams.
//
//	case <n> sds
//	sub <c> <w|r|wr>  client c opens a stream and subscribes to default | ROOTCA | both on ONE stream
//	unsub <c>         client c sends a request with empty resource_names (xDS unsubscribe), stream stays open
//	drop <c>          client c closes its stream
//	rotate            run the rotation task of the cached certificate (none if the cache is empty)
//	firestale         run the oldest task not run yet that is not the cached certificate's
//	bundle <letters>  UpdateConfigTrustBundle
//	cafail <k>        the next k CA calls fail
//	caroot <X>        from now on the CA signs with root X (a changed root must reach the ROOTCA subscribers)
//
// After every op the harness waits (condition, 20 s deadline) until every live subscriber of every
// resource announced during the op has received a new response (or lost its stream: a failed re-request
// ends the stream), repeats that for callbacks caused by the re-requests, settles 100 ms, and prints for
// every client the number of responses and the last content per resource, plus the CA call count: "a
// rotation / root change reaches every current subscriber, and only them".

const sdsSecretType = "type.googleapis.com/envoy.extensions.transport_sockets.tls.v3.Secret"

type sdsClient struct {
	id                     int
	res                    string // subset of "wr" currently subscribed ("" after unsub)
	cancel                 context.CancelFunc
	conn                   *grpc.ClientConn
	stream                 sdsapi.SecretDiscoveryService_StreamSecretsClient
	sendMu                 sync.Mutex // a gRPC stream allows one sender at a time (ACKs come from the receiver goroutine)
	mu                     sync.Mutex
	n                      int    // responses received
	lastW                  string // last `default` content
	lastR                  string // last `ROOTCA` content
	state                  string // live | gone (closed by the client) | closed (ended by the server)
	lastVersion, lastNonce string
}

func (c *sdsClient) names() []string {
	var out []string
	if strings.Contains(c.res, "w") {
		out = append(out, security.WorkloadKeyCertResourceName)
	}
	if strings.Contains(c.res, "r") {
		out = append(out, security.RootCertReqResourceName)
	}
	return out
}

type sdsSUT struct {
	*sut
	srv     *sds.Server
	dir     string
	socket  string
	clients map[int]*sdsClient
	failN   int  // CA calls that still have to fail
	signer  byte // current CA root
}

// the SDS socket path is relative to the working directory: servers are created one at a time (chdir,
// listen - NewServer binds the socket synchronously), clients dial the absolute path
var sdsCreate sync.Mutex

func newSdsSUT(dir string) *sdsSUT {
	must(os.MkdirAll(dir, 0o755))
	// ratio / jitter do not matter here (rotation tasks are run by the script): vary them
	base := newSUT([]float64{0.5, 0.25, 0.75, 1}[len(dir)%4], []float64{0, 0.3}[len(dir)%2], false)
	s := &sdsSUT{sut: base, clients: map[int]*sdsClient{}, dir: dir, signer: 'A'}
	var scriptMu sync.Mutex
	base.ca.script = func(int) caOutcome {
		scriptMu.Lock()
		defer scriptMu.Unlock()
		if s.failN > 0 {
			s.failN--
			return caOutcome{kind: "signerr", signer: 'A', bundle: "-"}
		}
		return caOutcome{kind: "ok", ttl: time.Hour, signer: s.signer, bundle: "-"}
	}
	sdsCreate.Lock()
	must(os.Chdir(dir))
	s.srv = sds.NewServer(&security.Options{}, base.sc, nil)
	s.socket = dir + "/" + security.GetIstioSDSServerSocketPath()
	sdsCreate.Unlock()
	// istio-agent: secretCache.RegisterSecretHandler(sdsServer.OnSecretUpdate); keep the recording too
	base.sc.RegisterSecretHandler(func(name string) {
		base.record(name)
		s.srv.OnSecretUpdate(name)
	})
	// NewServer warms the cache in the background (default, then ROOTCA).  The scenario starts from "one
	// certificate cached, root recorded": give the warm-up a moment and otherwise do it here, so that the
	// stream does not depend on that (property-unrelated) optimisation being there.
	deadline := time.Now().Add(300 * time.Millisecond)
	for nacache.VerifCachedWorkload(base.sc) == nil && time.Now().Before(deadline) {
		time.Sleep(2 * time.Millisecond)
	}
	_, err := base.sc.GenerateSecret(security.WorkloadKeyCertResourceName)
	must(err)
	_, err = base.sc.GenerateSecret(security.RootCertReqResourceName)
	must(err)
	time.Sleep(20 * time.Millisecond)
	base.takeEvents()
	return s
}

func (s *sdsSUT) close() {
	for _, c := range s.clients {
		if c.state == "live" {
			c.cancel()
			c.conn.Close()
		}
	}
	// closing the unix listener unlinks its (relative) path: do it from this case's directory
	sdsCreate.Lock()
	_ = os.Chdir(s.dir)
	s.srv.Stop()
	sdsCreate.Unlock()
	s.sut.close()
}

func (s *sdsSUT) describe(sec *tlsv3.Secret) (string, string) {
	if c := sec.GetTlsCertificate(); c != nil {
		return "w", fmt.Sprintf("key=%s,cert=%s", idTok(true, s.keyID(c.GetPrivateKey().GetInlineBytes())),
			idTok(true, certID(c.GetCertificateChain().GetInlineBytes())))
	}
	if v := sec.GetValidationContext(); v != nil {
		return "r", "root=" + lettersOrDash(v.GetTrustedCa().GetInlineBytes())
	}
	return "?", "other"
}

func (s *sdsSUT) subscribe(id int, res string) error {
	if res != "w" && res != "r" && res != "wr" {
		return fmt.Errorf("bad resource")
	}
	conn, err := grpc.NewClient("passthrough:///"+s.socket, grpc.WithTransportCredentials(insecure.NewCredentials()),
		grpc.WithContextDialer(func(ctx context.Context, _ string) (net.Conn, error) {
			var d net.Dialer
			return d.DialContext(ctx, "unix", s.socket)
		}))
	if err != nil {
		return err
	}
	ctx, cancel := context.WithCancel(context.Background())
	stream, err := sdsapi.NewSecretDiscoveryServiceClient(conn).StreamSecrets(ctx)
	if err != nil {
		cancel()
		return err
	}
	c := &sdsClient{id: id, res: res, cancel: cancel, conn: conn, stream: stream, state: "live"}
	s.clients[id] = c
	node := &core.Node{Id: fmt.Sprintf("sidecar~10.0.0.%d~c%d.verif~verif.svc.cluster.local", id+1, id)}
	c.sendMu.Lock()
	err = stream.Send(&discovery.DiscoveryRequest{TypeUrl: sdsSecretType, ResourceNames: c.names(), Node: node})
	c.sendMu.Unlock()
	if err != nil {
		return err
	}
	go func() {
		for {
			resp, err := stream.Recv()
			if err != nil {
				c.mu.Lock()
				if c.state == "live" {
					c.state = "closed" // the server ended the stream
				}
				c.mu.Unlock()
				return
			}
			// conformant client: ACK with the names it is subscribed to, before anything else is sent
			c.sendMu.Lock()
			c.mu.Lock()
			names := c.names()
			c.lastVersion, c.lastNonce = resp.VersionInfo, resp.Nonce
			c.mu.Unlock()
			if len(names) > 0 {
				_ = stream.Send(&discovery.DiscoveryRequest{TypeUrl: sdsSecretType, ResourceNames: names,
					VersionInfo: resp.VersionInfo, ResponseNonce: resp.Nonce})
			}
			c.sendMu.Unlock()
			c.mu.Lock()
			for _, r := range resp.Resources {
				var sec tlsv3.Secret
				if r.UnmarshalTo(&sec) == nil {
					switch kind, desc := s.describe(&sec); kind {
					case "w":
						c.lastW = desc
					case "r":
						c.lastR = desc
					}
				}
			}
			c.n++
			c.mu.Unlock()
		}
	}()
	return nil
}

type sdsSnap struct {
	n     int
	state string
}

func (s *sdsSUT) snap() map[int]sdsSnap {
	m := map[int]sdsSnap{}
	for id, c := range s.clients {
		c.mu.Lock()
		m[id] = sdsSnap{c.n, c.state}
		c.mu.Unlock()
	}
	return m
}

func (c *sdsClient) wants(announced string) bool {
	return (strings.Contains(c.res, "w") && strings.ContainsAny(announced, "Ww")) ||
		(strings.Contains(c.res, "r") && strings.Contains(announced, "R"))
}

// settle waits until the callbacks of an op - and the callbacks caused by the re-requests they trigger -
// have reached their subscribers: every client that was live at the start of the op must have received
// one response per announced event it is subscribed to (plus the initial answer for a new client), or
// have lost its stream.  Condition based (20 s deadline), then 100 ms for anything unexpected to show up.
// Returns all callbacks in order.
func (s *sdsSUT) settle(before map[int]sdsSnap, newID int) string {
	return s.settleOwed(before, newID, nil)
}

// settleOwed: `owed` = responses owed to clients for a request of their own (resubscription).
func (s *sdsSUT) settleOwed(before map[int]sdsSnap, newID int, owed map[int]int) string {
	all := ""
	deadline := time.Now().Add(20 * time.Second)
	quiet := 0
	for quiet < 2 && time.Now().Before(deadline) {
		if ev := s.takeEvents(); ev != "-" {
			all += ev
			quiet = 0
		}
		done := true
		now := s.snap()
		for id, c := range s.clients {
			want := owed[id]
			if id == newID {
				want = 1
			} else if before[id].state != "live" {
				continue
			}
			c.mu.Lock()
			res := c.res
			c.mu.Unlock()
			for _, e := range all {
				if (strings.Contains(res, "w") && (e == 'W' || e == 'w')) || (strings.Contains(res, "r") && e == 'R') {
					want++
				}
			}
			if now[id].state == "live" && now[id].n < before[id].n+want {
				done = false
			}
		}
		if done {
			quiet++
			time.Sleep(15 * time.Millisecond)
		} else {
			quiet = 0
			time.Sleep(2 * time.Millisecond)
		}
	}
	time.Sleep(100 * time.Millisecond)
	if ev := s.takeEvents(); ev != "-" {
		all += ev
	}
	if all == "" {
		return "-"
	}
	return all
}

func (s *sdsSUT) show(ev string) string {
	ids := make([]int, 0, len(s.clients))
	for id := range s.clients {
		ids = append(ids, id)
	}
	sort.Ints(ids)
	parts := []string{"ev=" + ev}
	for _, id := range ids {
		c := s.clients[id]
		c.mu.Lock()
		res := c.res
		if res == "" {
			res = "-"
		}
		last := c.lastW
		if c.lastR != "" {
			if last != "" {
				last += "|"
			}
			last += c.lastR
		}
		if last == "" {
			last = "-"
		}
		parts = append(parts, fmt.Sprintf("c%d:%s:%s:n=%d:%s", id, res, c.state, c.n, last))
		c.mu.Unlock()
	}
	wl := "-"
	if w := nacache.VerifCachedWorkload(s.sc); w != nil {
		wl = idTok(true, certID(w.CertificateChain))
	}
	parts = append(parts, fmt.Sprintf("wl=%s ca=%d", wl, s.ca.calls()))
	return strings.Join(parts, " ")
}

func (s *sdsSUT) op(t []string) string {
	before := s.snap()
	newID := -1
	switch t[0] {
	case "sub":
		if len(t) != 3 {
			return "bad-op"
		}
		id, err := strconv.Atoi(t[1])
		if err != nil || s.clients[id] != nil {
			return "bad-op"
		}
		if err := s.subscribe(id, t[2]); err != nil {
			return "sub-error"
		}
		newID = id // the first answer is owed to this client whatever was announced (or the stream ends: failing CA)
	case "unsub":
		if len(t) != 2 {
			return "bad-op"
		}
		id, err := strconv.Atoi(t[1])
		c := s.clients[id]
		if err != nil || c == nil || c.state != "live" || c.res == "" {
			return "bad-op"
		}
		c.sendMu.Lock()
		c.mu.Lock()
		c.res = ""
		c.mu.Unlock()
		_ = c.stream.Send(&discovery.DiscoveryRequest{TypeUrl: sdsSecretType, ResourceNames: nil})
		c.sendMu.Unlock()
		time.Sleep(30 * time.Millisecond) // let the server process it (requests have priority over pushes)
	case "resub":
		// the client changes its resource set on the live stream (ACK-shaped request with other names)
		if len(t) != 3 || (t[2] != "w" && t[2] != "r" && t[2] != "wr") {
			return "bad-op"
		}
		id, err := strconv.Atoi(t[1])
		c := s.clients[id]
		if err != nil || c == nil || c.state != "live" {
			return "bad-op"
		}
		c.sendMu.Lock()
		c.mu.Lock()
		old := c.res
		c.res = t[2]
		names, ver, nonce := c.names(), c.lastVersion, c.lastNonce
		c.mu.Unlock()
		_ = c.stream.Send(&discovery.DiscoveryRequest{TypeUrl: sdsSecretType, ResourceNames: names, VersionInfo: ver, ResponseNonce: nonce})
		c.sendMu.Unlock()
		added := false
		for _, l := range t[2] {
			if !strings.ContainsRune(old, l) {
				added = true
			}
		}
		owed := map[int]int{}
		if old == "" || added {
			owed[id] = 1 // after an unsubscribe everything is sent; otherwise only what was added; nothing for a removal
		}
		time.Sleep(30 * time.Millisecond)
		return s.show(s.settleOwed(before, newID, owed))
	case "bundlen":
		// UpdateConfigTrustBundle without a default subscriber, followed by the harness's own GenerateSecret(default):
		// whether a pushed ROOTCA subscriber re-requests before or after the cache is emptied is a race of the real
		// system; with this follow-up both orders end in the same state (generated only while the CA root is unchanged)
		if len(t) != 2 {
			return "bad-op"
		}
		var b []byte
		if t[1] != "-" {
			b = []byte(strings.Join(bundlePEMs(t[1]), ""))
		}
		s.updateBundle(b)
		ev := s.settle(before, newID)
		_, _ = s.sc.GenerateSecret(security.WorkloadKeyCertResourceName)
		ev2 := s.settle(s.snap(), -1)
		if ev2 != "-" {
			ev += ev2
		}
		return s.show(ev)
	case "drop":
		if len(t) != 2 {
			return "bad-op"
		}
		id, err := strconv.Atoi(t[1])
		c := s.clients[id]
		if err != nil || c == nil || c.state != "live" {
			return "bad-op"
		}
		c.mu.Lock()
		c.state = "gone"
		c.mu.Unlock()
		c.cancel()
		c.conn.Close()
		time.Sleep(20 * time.Millisecond)
	case "rotate", "firestale":
		if len(t) != 1 {
			return "bad-op"
		}
		cur := -1
		if w := nacache.VerifCachedWorkload(s.sc); w != nil {
			cur = s.q.len() - 1 // every successful CA call stores and schedules: the cached certificate's task is the last one
		}
		k := cur
		if t[0] == "firestale" {
			k = -1
			for i, e := range s.q.entries {
				if !e.fired && i != cur {
					k = i
					break
				}
			}
		}
		if k >= 0 && !s.q.entries[k].fired {
			s.q.entries[k].fired = true
			_ = s.q.entries[k].task()
		}
	case "bundle":
		if len(t) != 2 {
			return "bad-op"
		}
		var b []byte
		if t[1] != "-" {
			b = []byte(strings.Join(bundlePEMs(t[1]), ""))
		}
		s.updateBundle(b)
	case "cafail":
		if len(t) != 2 {
			return "bad-op"
		}
		k, err := strconv.Atoi(t[1])
		if err != nil || k < 0 || k > 100 {
			return "bad-op"
		}
		s.failN = k
	case "caroot":
		if len(t) != 2 || len(t[1]) != 1 || t[1][0] < 'A' || t[1][0] >= 'A'+nRoots {
			return "bad-op"
		}
		s.signer = t[1][0]
	default:
		return "bad-op"
	}
	t0 := time.Now()
	r := s.show(s.settle(before, newID))
	if d := time.Since(t0); d > 2*time.Second && os.Getenv("C18_SDS_SLOW") != "" {
		fmt.Fprintf(os.Stderr, "slow op %v: %s -> %s\n", d, join(t), r)
	}
	return r
}

func genSds(seed uint64, n int, path string) {
	out := wire.Create(path)
	defer out.Close()
	root := wire.NewRng(seed*0x9e3779b9 + 5055)
	for i := 0; i < n; i++ {
		r := root.Fork()
		out.Line("case", strconv.Itoa(i), "sds")
		next := 0
		live := map[int]string{} // live clients and what they are subscribed to
		nW := func() int {
			k := 0
			for _, v := range live {
				if strings.Contains(v, "w") {
					k++
				}
			}
			return k
		}
		pick := func(pred func(string) bool) int {
			var ids []int
			for id, v := range live {
				if pred(v) {
					ids = append(ids, id)
				}
			}
			if len(ids) == 0 {
				return -1
			}
			sort.Ints(ids)
			return ids[r.Intn(len(ids))]
		}
		cfg := "-"
		failing := false
		rootDirty := false // the CA's root was changed since the last CA call that certainly happened
		nops := 3 + r.Intn(9)
		for k := 0; k < nops; k++ {
			switch x := r.Intn(24); {
			case x < 7 && nW() == 0 && next < 5 && r.Chance(1, 2):
				// an INITIAL request while the CA is failing: the rotation empties the cache (no default subscriber
				// refills it), the CA's next call fails, the new stream's first request fails and the stream ends
				out.Line("rotate")
				out.Line("cafail", "1")
				out.Line("sub", strconv.Itoa(next), wire.Pick(r, []string{"w", "wr", "r"}))
				next++ // the cache is empty here, so the request reaches the CA, fails, and the server ends the stream
				k += 2
			case x < 7 && next < 5:
				res := wire.Pick(r, []string{"w", "w", "r", "r", "wr"})
				out.Line("sub", strconv.Itoa(next), res)
				if failing {
					failing = false // the initial request consumed the failure (if the cache was empty) ...
					// ... or not: either way stop tracking, no further failure-dependent op is generated
				}
				live[next] = res
				next++
			case x < 8:
				if id := pick(func(v string) bool { return v != "" }); id >= 0 {
					out.Line("unsub", strconv.Itoa(id))
					live[id] = ""
				}
			case x < 10:
				// change the resource set on a live stream / re-subscribe after an unsubscribe
				if id := pick(func(string) bool { return true }); id >= 0 && !failing {
					res := wire.Pick(r, []string{"w", "r", "wr"})
					out.Line("resub", strconv.Itoa(id), res)
					live[id] = res
				}
			case x < 11:
				if id := pick(func(string) bool { return true }); id >= 0 {
					out.Line("drop", strconv.Itoa(id))
					delete(live, id)
				}
			case x < 14:
				out.Line("rotate")
			case x < 16:
				out.Line("firestale")
			case x < 18:
				// whether a ROOTCA subscriber re-requests before or after the cache is emptied is a race of
				// the real system; with a live default subscriber the outcome is the same either way
				if nW() == 0 {
					if rootDirty || failing {
						out.Line("rotate")
						break
					}
					b := randLetters(r, 1, 2)
					if b == cfg {
						b = "-"
					}
					cfg = b
					out.Line("bundlen", b)
					break
				}
				b := randLetters(r, 1, 2)
				if b == cfg {
					b = "-"
				}
				cfg = b
				out.Line("bundle", b)
			case x < 20:
				out.Line("caroot", string(rune('A'+r.Intn(nRoots))))
				rootDirty = true
			default:
				// a failing re-request ends the subscriber's stream; which of several concurrent re-requests
				// meets the failure is a race, so: exactly one default subscriber
				if nW() == 1 && !failing {
					out.Line("cafail", "1")
					out.Line("rotate")
					k++
					// that subscriber's stream is ended by the server
					id := pick(func(v string) bool { return strings.Contains(v, "w") })
					delete(live, id)
				} else {
					out.Line("rotate")
				}
			}
		}
	}
}

// splitCases groups the lines of an ops file by case (lines before the first header form a case too).
func splitCases(lines [][]string) [][][]string {
	var cases [][][]string
	for _, t := range lines {
		if t[0] == "case" || len(cases) == 0 {
			cases = append(cases, nil)
		}
		cases[len(cases)-1] = append(cases[len(cases)-1], t)
	}
	return cases
}

// forEachSdsCase runs f on every case, 8 at a time, and returns the results in order.
func forEachSdsCase(in string, f func(lines [][]string, dir string) []string) [][]string {
	cwd, _ := os.Getwd()
	tmp, err := os.MkdirTemp("", "c18sds")
	must(err)
	defer os.RemoveAll(tmp)
	defer os.Chdir(cwd)
	cases := splitCases(wire.ReadLines(in))
	res := make([][]string, len(cases))
	sem := make(chan struct{}, 8)
	var wg sync.WaitGroup
	for i, c := range cases {
		wg.Add(1)
		go func(i int, c [][]string) {
			defer wg.Done()
			sem <- struct{}{}
			defer func() { <-sem }()
			res[i] = f(c, fmt.Sprintf("%s/c%d", tmp, i))
		}(i, c)
	}
	wg.Wait()
	return res
}

func execSds(in, outp string) {
	out := wire.Create(outp)
	defer out.Close()
	for _, lines := range forEachSdsCase(in, execSdsCase) {
		for _, l := range lines {
			out.Line(l)
		}
	}
}

func execSdsCase(lines [][]string, dir string) (outl []string) {
	var s *sdsSUT
	defer func() {
		if s != nil {
			s.close()
		}
	}()
	for _, t := range lines {
		func() {
			defer func() {
				if e := recover(); e != nil {
					outl = append(outl, "crash")
				}
			}()
			if s == nil {
				s = newSdsSUT(dir)
			}
			if t[0] == "case" {
				outl = append(outl, "ok")
				return
			}
			outl = append(outl, s.op(t))
		}()
	}
	return outl
}

// oracleSds: "push to current subscribers": after an op that announced a resource, every live
// subscriber of it holds the certificate that is cached now (default) / a bundle containing the CA
// root and every configured anchor (ROOTCA), subscribers of the other resource and closed streams
// received nothing, and the CA was asked at most once per op.
func oracleSds(in, outp string) {
	out := wire.Create(outp)
	defer out.Close()
	for _, v := range forEachSdsCase(in, oracleSdsCase) {
		for _, l := range v {
			out.Line(l)
		}
	}
}

func oracleSdsCase(lines [][]string, dir string) []string {
	var s *sdsSUT
	defer func() {
		if s != nil {
			s.close()
		}
	}()
	verdict := ""
	lastRoots := "A" // the warm-up response
	fail := func(clause string, t []string, extra string) {
		if verdict == "" {
			verdict = clause + " " + wire.Enc(join(t)) + " " + wire.Enc(extra)
		}
	}
	for _, t := range lines {
		if verdict != "" {
			break
		}
		if s == nil {
			func() {
				defer func() {
					if e := recover(); e != nil {
						fail("crash", t, fmt.Sprint(e))
					}
				}()
				s = newSdsSUT(dir)
			}()
		}
		if t[0] == "case" || s == nil {
			continue
		}
		func() {
			defer func() {
				if e := recover(); e != nil {
					fail("crash", t, fmt.Sprint(e))
				}
			}()
			before := s.snap()
			calls0 := s.ca.calls()
			fail0 := s.failN
			line := s.op(t)
			if strings.HasSuffix(line, "-error") || line == "bad-op" {
				return
			}
			ev := strings.ReplaceAll(strings.TrimPrefix(strings.Fields(line)[0], "ev="), "+", "")
			if strings.Contains(ev, "w") {
				fail("notify-before-clear", t, ev)
			}
			failed := 0
			if t[0] != "cafail" && fail0 > s.failN {
				failed = fail0 - s.failN
			}
			dc := s.ca.calls() - calls0
			if dc > 1+failed {
				fail("single-flight-calls", t, fmt.Sprint(dc))
			}
			cur, curRoots := "none", ""
			if w := nacache.VerifCachedWorkload(s.sc); w != nil {
				cur = fmt.Sprintf("key=%s,cert=%s", idTok(true, s.keyID(w.PrivateKey)), idTok(true, certID(w.CertificateChain)))
				if id := certID(w.CertificateChain); id >= 0 && id < len(s.ca.recs) {
					curRoots = s.ca.recs[id].roots
				}
			}
			// a CA response with a root different from the previous response's must be announced
			if dc > 0 {
				for _, rec := range s.ca.recs[calls0:] {
					if rec.out.kind != "ok" {
						continue
					}
					if lastRoots != "" && rec.roots != lastRoots && !strings.Contains(ev, "R") {
						fail("root-unannounced", t, lastRoots+"->"+rec.roots)
					}
					lastRoots = rec.roots
				}
			}
			cfg := lettersOrDash(nacache.VerifConfigTrustBundle(s.sc))
			now := s.snap()
			for id, c := range s.clients {
				c.mu.Lock()
				lastW, lastR, res := c.lastW, c.lastR, c.res
				c.mu.Unlock()
				isNew := (t[0] == "sub" || t[0] == "resub") && strconv.Itoa(id) == t[1] // answers to its own request
				wasLive := before[id].state == "live" || isNew
				pushed := now[id].n > before[id].n
				wantW := strings.Contains(res, "w") && (strings.ContainsAny(ev, "Ww") || isNew)
				wantR := strings.Contains(res, "r") && (strings.Contains(ev, "R") || isNew)
				switch {
				case !wasLive && pushed:
					fail("push-to-closed-stream", t, fmt.Sprint(id))
				case wasLive && now[id].state == "closed" && failed == 0:
					fail("stream-ended-by-server", t, fmt.Sprintf("c%d:%s", id, res))
				case t[0] == "resub" && isNew:
					// what a changed resource set is answered with is compared with the model, not judged here
				case wasLive && now[id].state == "live" && (wantW || wantR) && !pushed:
					fail("subscriber-not-pushed", t, fmt.Sprintf("c%d:%s", id, res))
				case wasLive && !(wantW || wantR) && pushed && !(t[0] == "drop" && strconv.Itoa(id) == t[1]):
					fail("unrequested-push", t, fmt.Sprintf("c%d:%s", id, res)) // e.g. after an xDS unsubscribe
				}
				if wasLive && now[id].state == "live" && pushed && cur != "none" && !(t[0] == "resub" && isNew) {
					if wantW && lastW != cur {
						fail("subscriber-stale-cert", t, fmt.Sprintf("c%d has %s, cached %s", id, lastW, cur))
					}
					if wantR {
						got := strings.TrimPrefix(lastR, "root=")
						want := curRoots
						if cfg != "-" {
							want += cfg
						}
						if !containsAll(got, want) {
							fail("root-missing", t, got+" lacks "+want)
						}
					}
				}
			}
		}()
	}
	if verdict == "" {
		return []string{"OK"}
	}
	return []string{"FAIL " + verdict}
}
