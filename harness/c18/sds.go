package main

import (
	"context"
	"fmt"
	"net"
	"os"
	"sort"
	"strconv"
	"strings"
	"sync"
	"time"

	core "github.com/envoyproxy/go-control-plane/envoy/config/core/v3"
	tlsv3 "github.com/envoyproxy/go-control-plane/envoy/extensions/transport_sockets/tls/v3"
	discovery "github.com/envoyproxy/go-control-plane/envoy/service/discovery/v3"
	sdsapi "github.com/envoyproxy/go-control-plane/envoy/service/secret/v3"
	"google.golang.org/grpc"
	"google.golang.org/grpc/credentials/insecure"

	"istio.io/istio/pkg/security"
	nacache "istio.io/istio/security/pkg/nodeagent/cache"
	"istio.io/istio/security/pkg/nodeagent/sds"
	"verifharness/internal/wire"
)

// Stream `sds`: the real sds.Server (security/pkg/nodeagent/sds) on its unix socket in front of the
// real SecretManagerClient (scripted CA that always signs with root A, recording queue); the secret
// handler is wired to Server.OnSecretUpdate as istio-agent does.  Clients are plain gRPC SDS streams.
//
//	case <n> sds
//	sub <c> <w|r>     client c opens a stream and subscribes to default | ROOTCA, waits for the answer
//	drop <c>          client c closes its stream
//	rotate            run the rotation task of the cached certificate (none if the cache is empty)
//	firestale         run the oldest task not run yet that is not the cached certificate's
//	bundle <letters>  UpdateConfigTrustBundle
//
// After every op the harness waits (condition, 60 s deadline) until every live subscriber of every
// resource announced during the op has received a new response, settles 100 ms, and prints for every
// client the number of responses and the content of the last one, plus the CA call count: "a rotation /
// root change reaches every current subscriber, and only them".

const sdsSecretType = "type.googleapis.com/envoy.extensions.transport_sockets.tls.v3.Secret"

type sdsClient struct {
	id     int
	res    string // w | r
	cancel context.CancelFunc
	conn   *grpc.ClientConn
	mu     sync.Mutex
	n      int    // responses received
	last   string // content of the last response
	live   bool
}

type sdsSUT struct {
	*sut
	srv     *sds.Server
	dir     string
	socket  string
	clients map[int]*sdsClient
}

func (s *sdsSUT) describe(sec *tlsv3.Secret) string {
	if c := sec.GetTlsCertificate(); c != nil {
		return fmt.Sprintf("key=%s,cert=%s", idTok(true, s.keyID(c.GetPrivateKey().GetInlineBytes())),
			idTok(true, certID(c.GetCertificateChain().GetInlineBytes())))
	}
	if v := sec.GetValidationContext(); v != nil {
		return "root=" + lettersOrDash(v.GetTrustedCa().GetInlineBytes())
	}
	return "other"
}

// the SDS socket path is relative to the working directory: servers are created one at a time (chdir,
// listen - NewServer binds the socket synchronously), clients dial the absolute path
var sdsCreate sync.Mutex

func newSdsSUT(dir string) *sdsSUT {
	must(os.MkdirAll(dir, 0o755))
	base := newSUT(0.5, 0, false)
	base.ca.next = caOutcome{kind: "ok", ttl: time.Hour, signer: 'A', bundle: "-"}
	s := &sdsSUT{sut: base, clients: map[int]*sdsClient{}, dir: dir}
	sdsCreate.Lock()
	must(os.Chdir(dir))
	s.srv = sds.NewServer(&security.Options{}, base.sc, nil)
	s.socket = dir + "/" + security.GetIstioSDSServerSocketPath()
	sdsCreate.Unlock()
	// istio-agent: secretCache.RegisterSecretHandler(sdsServer.OnSecretUpdate); keep the recording too
	base.sc.RegisterSecretHandler(func(name string) {
		base.record(name)
		s.srv.OnSecretUpdate(name)
	})
	// NewServer warms the cache in the background (default, then ROOTCA): wait until that is over
	deadline := time.Now().Add(60 * time.Second)
	for nacache.VerifCachedWorkload(base.sc) == nil || nacache.VerifCachedRoot(base.sc) == nil {
		if time.Now().After(deadline) {
			panic("sds warm-up did not finish")
		}
		time.Sleep(2 * time.Millisecond)
	}
	time.Sleep(20 * time.Millisecond)
	base.takeEvents()
	return s
}

func (s *sdsSUT) close() {
	for _, c := range s.clients {
		if c.live {
			c.cancel()
			c.conn.Close()
		}
	}
	// closing the unix listener unlinks its (relative) path: do it from this case's directory
	sdsCreate.Lock()
	_ = os.Chdir(s.dir)
	s.srv.Stop()
	sdsCreate.Unlock()
	s.sut.close()
}

func (s *sdsSUT) subscribe(id int, res string) error {
	name, ok := resName(res)
	if !ok {
		return fmt.Errorf("bad resource")
	}
	var conn *grpc.ClientConn
	var err error
	deadline := time.Now().Add(30 * time.Second)
	for {
		conn, err = grpc.NewClient("passthrough:///"+s.socket, grpc.WithTransportCredentials(insecure.NewCredentials()),
			grpc.WithContextDialer(func(ctx context.Context, _ string) (net.Conn, error) {
				var d net.Dialer
				return d.DialContext(ctx, "unix", s.socket)
			}))
		if err == nil {
			break
		}
		if time.Now().After(deadline) {
			return err
		}
		time.Sleep(10 * time.Millisecond)
	}
	ctx, cancel := context.WithCancel(context.Background())
	var stream sdsapi.SecretDiscoveryService_StreamSecretsClient
	for {
		stream, err = sdsapi.NewSecretDiscoveryServiceClient(conn).StreamSecrets(ctx)
		if err == nil {
			break
		}
		if time.Now().After(deadline) {
			cancel()
			return err
		}
		time.Sleep(10 * time.Millisecond)
	}
	c := &sdsClient{id: id, res: res, cancel: cancel, conn: conn, live: true}
	s.clients[id] = c
	node := &core.Node{Id: fmt.Sprintf("sidecar~10.0.0.%d~c%d.verif~verif.svc.cluster.local", id+1, id)}
	if err := stream.Send(&discovery.DiscoveryRequest{TypeUrl: sdsSecretType, ResourceNames: []string{name}, Node: node}); err != nil {
		return err
	}
	go func() {
		for {
			resp, err := stream.Recv()
			if err != nil {
				return
			}
			desc := "empty"
			for _, r := range resp.Resources {
				var sec tlsv3.Secret
				if r.UnmarshalTo(&sec) == nil {
					desc = s.describe(&sec)
				}
			}
			c.mu.Lock()
			c.n++
			c.last = desc
			c.mu.Unlock()
			// conformant client: ACK
			_ = stream.Send(&discovery.DiscoveryRequest{TypeUrl: sdsSecretType, ResourceNames: []string{name},
				VersionInfo: resp.VersionInfo, ResponseNonce: resp.Nonce})
		}
	}()
	return nil
}

func (s *sdsSUT) counts() map[int]int {
	m := map[int]int{}
	for id, c := range s.clients {
		c.mu.Lock()
		m[id] = c.n
		c.mu.Unlock()
	}
	return m
}

// await waits until every live subscriber of an announced resource got a response newer than `before`.
func (s *sdsSUT) await(before map[int]int, announced string) {
	deadline := time.Now().Add(20 * time.Second)
	for {
		ok := true
		now := s.counts()
		for id, c := range s.clients {
			want := (c.res == "w" && strings.ContainsAny(announced, "Ww")) || (c.res == "r" && strings.Contains(announced, "R"))
			if c.live && want && now[id] <= before[id] {
				ok = false
			}
		}
		if ok || time.Now().After(deadline) {
			break
		}
		time.Sleep(2 * time.Millisecond)
	}
	time.Sleep(100 * time.Millisecond)
}

func (s *sdsSUT) show(ev string) string {
	ids := make([]int, 0, len(s.clients))
	for id := range s.clients {
		ids = append(ids, id)
	}
	sort.Ints(ids)
	parts := []string{"ev=" + ev}
	for _, id := range ids {
		c := s.clients[id]
		c.mu.Lock()
		st := "live"
		if !c.live {
			st = "gone"
		}
		parts = append(parts, fmt.Sprintf("c%d:%s:%s:n=%d:%s", id, c.res, st, c.n, c.last))
		c.mu.Unlock()
	}
	wl := "-"
	if w := nacache.VerifCachedWorkload(s.sc); w != nil {
		wl = idTok(true, certID(w.CertificateChain))
	}
	parts = append(parts, fmt.Sprintf("wl=%s ca=%d", wl, s.ca.calls()))
	return strings.Join(parts, " ")
}

func (s *sdsSUT) op(t []string) string {
	before := s.counts()
	switch t[0] {
	case "sub":
		if len(t) != 3 {
			return "bad-op"
		}
		id, err := strconv.Atoi(t[1])
		if err != nil || s.clients[id] != nil {
			return "bad-op"
		}
		if err := s.subscribe(id, t[2]); err != nil {
			return "sub-error"
		}
		before[id] = 0
		// the first answer is owed to this client whatever was announced
		deadline := time.Now().Add(60 * time.Second)
		for s.counts()[id] == 0 && time.Now().Before(deadline) {
			time.Sleep(2 * time.Millisecond)
		}
	case "drop":
		if len(t) != 2 {
			return "bad-op"
		}
		id, err := strconv.Atoi(t[1])
		c := s.clients[id]
		if err != nil || c == nil || !c.live {
			return "bad-op"
		}
		c.live = false
		c.cancel()
		c.conn.Close()
		time.Sleep(20 * time.Millisecond)
	case "rotate", "firestale":
		if len(t) != 1 {
			return "bad-op"
		}
		cur := -1
		if w := nacache.VerifCachedWorkload(s.sc); w != nil {
			cur = s.q.len() - 1 // every CA call stores and schedules: the cached certificate's task is the last one
		}
		k := cur
		if t[0] == "firestale" {
			k = -1
			for i, e := range s.q.entries {
				if !e.fired && i != cur {
					k = i
					break
				}
			}
		}
		if k >= 0 && !s.q.entries[k].fired {
			s.q.entries[k].fired = true
			_ = s.q.entries[k].task()
		}
	case "bundle":
		if len(t) != 2 {
			return "bad-op"
		}
		var b []byte
		if t[1] != "-" {
			b = []byte(strings.Join(bundlePEMs(t[1]), ""))
		}
		_ = s.sc.UpdateConfigTrustBundle(b)
	default:
		return "bad-op"
	}
	ev := s.takeEvents()
	s.await(before, ev)
	ev2 := s.takeEvents() // callbacks caused by the re-requests (none expected: the CA root never changes here)
	if ev2 != "-" {
		ev += "+" + ev2
	}
	return s.show(ev)
}

func genSds(seed uint64, n int, path string) {
	out := wire.Create(path)
	defer out.Close()
	root := wire.NewRng(seed*0x9e3779b9 + 5055)
	for i := 0; i < n; i++ {
		r := root.Fork()
		out.Line("case", strconv.Itoa(i), "sds")
		next := 0
		var liveW, liveR []int
		cfg := "-"
		nops := 3 + r.Intn(8)
		for k := 0; k < nops; k++ {
			switch x := r.Intn(10); {
			case x < 4 && next < 5:
				res := "w"
				if r.Chance(2, 5) {
					res = "r"
				}
				out.Line("sub", strconv.Itoa(next), res)
				if res == "w" {
					liveW = append(liveW, next)
				} else {
					liveR = append(liveR, next)
				}
				next++
			case x < 5 && len(liveW)+len(liveR) > 0:
				if len(liveW) > 0 && (len(liveR) == 0 || r.Chance(1, 2)) {
					j := r.Intn(len(liveW))
					out.Line("drop", strconv.Itoa(liveW[j]))
					liveW = append(liveW[:j], liveW[j+1:]...)
				} else {
					j := r.Intn(len(liveR))
					out.Line("drop", strconv.Itoa(liveR[j]))
					liveR = append(liveR[:j], liveR[j+1:]...)
				}
			case x < 8:
				out.Line("rotate")
			case x < 9:
				out.Line("firestale")
			default:
				// whether a ROOTCA subscriber re-requests before or after the cache is emptied is a race of
				// the real system; with a live default subscriber the outcome is the same either way
				if len(liveW) == 0 {
					out.Line("rotate")
					break
				}
				b := randLetters(r, 1, 2)
				if b == cfg {
					b = "-"
				}
				cfg = b
				out.Line("bundle", b)
			}
		}
	}
}

// splitCases groups the lines of an ops file by case (lines before the first header form a case too).
func splitCases(lines [][]string) [][][]string {
	var cases [][][]string
	for _, t := range lines {
		if t[0] == "case" || len(cases) == 0 {
			cases = append(cases, nil)
		}
		cases[len(cases)-1] = append(cases[len(cases)-1], t)
	}
	return cases
}

// forEachSdsCase runs f on every case, 8 at a time, and returns the results in order.
func forEachSdsCase(in string, f func(lines [][]string, dir string) []string) [][]string {
	cwd, _ := os.Getwd()
	tmp, err := os.MkdirTemp("", "c18sds")
	must(err)
	defer os.RemoveAll(tmp)
	defer os.Chdir(cwd)
	cases := splitCases(wire.ReadLines(in))
	res := make([][]string, len(cases))
	sem := make(chan struct{}, 8)
	var wg sync.WaitGroup
	for i, c := range cases {
		wg.Add(1)
		go func(i int, c [][]string) {
			defer wg.Done()
			sem <- struct{}{}
			defer func() { <-sem }()
			res[i] = f(c, fmt.Sprintf("%s/c%d", tmp, i))
		}(i, c)
	}
	wg.Wait()
	return res
}

func execSds(in, outp string) {
	out := wire.Create(outp)
	defer out.Close()
	for _, lines := range forEachSdsCase(in, execSdsCase) {
		for _, l := range lines {
			out.Line(l)
		}
	}
}

func execSdsCase(lines [][]string, dir string) (outl []string) {
	var s *sdsSUT
	defer func() {
		if s != nil {
			s.close()
		}
	}()
	for _, t := range lines {
		func() {
			defer func() {
				if e := recover(); e != nil {
					outl = append(outl, "crash")
				}
			}()
			if s == nil {
				s = newSdsSUT(dir)
			}
			if t[0] == "case" {
				outl = append(outl, "ok")
				return
			}
			outl = append(outl, s.op(t))
		}()
	}
	return outl
}

// oracleSds: "push to current subscribers": after an op that announced a resource, every live
// subscriber of it holds the certificate that is cached now (default) / a bundle containing the CA
// root and every configured anchor (ROOTCA), subscribers of the other resource and closed streams
// received nothing, and the CA was asked at most once per op.
func oracleSds(in, outp string) {
	out := wire.Create(outp)
	defer out.Close()
	for _, v := range forEachSdsCase(in, oracleSdsCase) {
		for _, l := range v {
			out.Line(l)
		}
	}
}

func oracleSdsCase(lines [][]string, dir string) []string {
	var s *sdsSUT
	defer func() {
		if s != nil {
			s.close()
		}
	}()
	verdict := ""
	fail := func(clause string, t []string, extra string) {
		if verdict == "" {
			verdict = clause + " " + wire.Enc(join(t)) + " " + wire.Enc(extra)
		}
	}
	for _, t := range lines {
		if verdict != "" {
			break
		}
		if s == nil {
			func() {
				defer func() {
					if e := recover(); e != nil {
						fail("crash", t, fmt.Sprint(e))
					}
				}()
				s = newSdsSUT(dir)
			}()
		}
		if t[0] == "case" || s == nil {
			continue
		}
		func() {
			defer func() {
				if e := recover(); e != nil {
					fail("crash", t, fmt.Sprint(e))
				}
			}()
			before := s.counts()
			calls0 := s.ca.calls()
			line := s.op(t)
			if strings.HasSuffix(line, "-error") || line == "bad-op" {
				return
			}
			ev := strings.TrimPrefix(strings.Fields(line)[0], "ev=")
			if strings.Contains(ev, "w") {
				fail("notify-before-clear", t, ev)
			}
			if s.ca.calls()-calls0 > 1 {
				fail("single-flight-calls", t, fmt.Sprint(s.ca.calls()-calls0))
			}
			cur := "none"
			if w := nacache.VerifCachedWorkload(s.sc); w != nil {
				cur = fmt.Sprintf("key=%s,cert=%s", idTok(true, s.keyID(w.PrivateKey)), idTok(true, certID(w.CertificateChain)))
			}
			cfg := lettersOrDash(nacache.VerifConfigTrustBundle(s.sc))
			now := s.counts()
			for id, c := range s.clients {
				c.mu.Lock()
				last := c.last
				c.mu.Unlock()
				isNew := t[0] == "sub" && strconv.Itoa(id) == t[1]
				announced := (c.res == "w" && strings.ContainsAny(ev, "Ww")) || (c.res == "r" && strings.Contains(ev, "R"))
				switch {
				case !c.live && now[id] != before[id] && !(t[0] == "drop" && strconv.Itoa(id) == t[1]):
					fail("push-to-closed-stream", t, fmt.Sprint(id))
				case c.live && (announced || isNew) && now[id] <= before[id]:
					fail("subscriber-not-pushed", t, fmt.Sprintf("c%d:%s", id, c.res))
				case c.live && !announced && !isNew && now[id] != before[id]:
					fail("unrequested-push", t, fmt.Sprintf("c%d:%s", id, c.res))
				}
				if c.live && (announced || isNew) && now[id] > before[id] {
					if c.res == "w" && last != cur {
						fail("subscriber-stale-cert", t, fmt.Sprintf("c%d has %s, cached %s", id, last, cur))
					}
					if c.res == "r" {
						got := strings.TrimPrefix(last, "root=")
						want := "A"
						if cfg != "-" {
							want += cfg
						}
						if !containsAll(got, want) {
							fail("root-missing", t, got+" lacks "+want)
						}
					}
				}
			}
		}()
	}
	if verdict == "" {
		return []string{"OK"}
	}
	return []string{"FAIL " + verdict}
}
