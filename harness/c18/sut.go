package main

import (
	"bytes"
	"crypto"
	"crypto/ecdsa"
	"crypto/elliptic"
	"crypto/rand"
	"crypto/x509"
	"crypto/x509/pkix"
	"encoding/pem"
	"errors"
	"fmt"
	"math/big"
	"os"
	"sort"
	"strings"
	"sync"
	"time"

	"istio.io/istio/pkg/queue"
	"istio.io/istio/pkg/security"
	nacache "istio.io/istio/security/pkg/nodeagent/cache"
	pkiutil "istio.io/istio/security/pkg/pki/util"
)

// ------------------------------------------------------------------ root CAs of the fake CA

type rootCA struct {
	name string
	cert *x509.Certificate
	key  *ecdsa.PrivateKey
	pem  string // ends with "\n"
}

const nRoots = 5

// roots[i] is named 'A'+i; the names are assigned in the lexicographic order of the PEM texts, so that
// "sorted by PEM string" (what mergeConfigTrustBundle produces) is "sorted by name".
var roots []*rootCA

var rootsOnce sync.Once

func initRoots() { rootsOnce.Do(makeRoots) }

func makeRoots() {
	var rs []*rootCA
	for i := 0; i < nRoots; i++ {
		k, err := ecdsa.GenerateKey(elliptic.P256(), rand.Reader)
		must(err)
		tmpl := &x509.Certificate{
			SerialNumber:          big.NewInt(int64(1000 + i)),
			Subject:               pkix.Name{Organization: []string{"verif"}, CommonName: fmt.Sprintf("root-%d", i)},
			NotBefore:             time.Now().Add(-time.Hour),
			NotAfter:              time.Now().Add(20 * 365 * 24 * time.Hour),
			IsCA:                  true,
			BasicConstraintsValid: true,
			KeyUsage:              x509.KeyUsageCertSign | x509.KeyUsageDigitalSignature,
		}
		der, err := x509.CreateCertificate(rand.Reader, tmpl, tmpl, &k.PublicKey, k)
		must(err)
		c, err := x509.ParseCertificate(der)
		must(err)
		rs = append(rs, &rootCA{cert: c, key: k, pem: string(pem.EncodeToMemory(&pem.Block{Type: "CERTIFICATE", Bytes: der}))})
	}
	sort.Slice(rs, func(i, j int) bool { return rs[i].pem < rs[j].pem })
	for i, r := range rs {
		r.name = string(rune('A' + i))
	}
	roots = rs
}

func must(err error) {
	if err != nil {
		panic(err)
	}
}

func rootByName(c byte) *rootCA {
	i := int(c) - 'A'
	if i < 0 || i >= len(roots) {
		return roots[0]
	}
	return roots[i]
}

// bundlePEMs maps a string of root letters ("-" = none) to PEM texts.
func bundlePEMs(letters string) []string {
	if letters == "-" {
		return nil
	}
	var out []string
	for i := 0; i < len(letters); i++ {
		out = append(out, rootByName(letters[i]).pem)
	}
	return out
}

// rootLetters canonicalises root-certificate bytes: the names of the PEM blocks in byte order
// ("?" for an unknown certificate), "-" for no block, "none" for nil.
func rootLetters(b []byte) string {
	if b == nil {
		return "none"
	}
	s := ""
	rest := b
	for {
		var blk *pem.Block
		blk, rest = pem.Decode(rest)
		if blk == nil {
			break
		}
		name := "?"
		for _, r := range roots {
			if bytes.Equal(r.cert.Raw, blk.Bytes) {
				name = r.name
			}
		}
		s += name
	}
	if s == "" {
		return "-"
	}
	return s
}

func lettersOrDash(b []byte) string {
	if l := rootLetters(b); l != "none" {
		return l
	}
	return "-"
}

// ------------------------------------------------------------------ scripted fake CA (security.Client)

type caOutcome struct {
	kind   string // ok signerr bundleerr garbage emptychain
	ttl    time.Duration
	signer byte
	bundle string
}

type caRecord struct {
	pub   []byte // DER public key of the CSR
	out   caOutcome
	roots string // root letters this response carries (bundle, or the signer when the bundle is empty)
}

type fakeCA struct {
	mu     sync.Mutex
	recs   []caRecord
	next   caOutcome                // outcome of the next call (sequential scripts)
	script func(call int) caOutcome // overrides next when set (concurrent runs)
	delay  time.Duration            // slow CA
	last   caOutcome
}

func (c *fakeCA) calls() int {
	c.mu.Lock()
	defer c.mu.Unlock()
	return len(c.recs)
}

func (c *fakeCA) Close() {}

func (c *fakeCA) CSRSign(csrPEM []byte, _ int64) ([]string, error) {
	c.mu.Lock()
	idx := len(c.recs)
	out := c.next
	if c.script != nil {
		out = c.script(idx)
	}
	c.last = out
	rec := caRecord{out: out}
	csr, perr := pkiutil.ParsePemEncodedCSR(csrPEM)
	if perr == nil {
		rec.pub, _ = x509.MarshalPKIXPublicKey(csr.PublicKey)
	}
	if out.kind == "ok" {
		rec.roots = out.bundle
		if out.bundle == "-" {
			rec.roots = string(out.signer)
		}
	}
	c.recs = append(c.recs, rec)
	c.mu.Unlock()
	if c.delay > 0 {
		time.Sleep(c.delay)
	}
	switch out.kind {
	case "signerr":
		return nil, errors.New("scripted CSRSign error")
	case "garbage":
		return []string{"this is not a certificate\n"}, nil
	case "emptychain":
		return []string{}, nil
	}
	if perr != nil {
		return nil, perr
	}
	signer := rootByName(out.signer)
	now := time.Now()
	notAfter := now.Add(out.ttl)
	notBefore := now.Add(-time.Minute)
	if notAfter.Before(notBefore) {
		notBefore = notAfter.Add(-time.Minute)
	}
	tmpl := &x509.Certificate{
		SerialNumber: big.NewInt(int64(idx + 1)),
		Subject:      pkix.Name{Organization: []string{"verif-workload"}},
		NotBefore:    notBefore,
		NotAfter:     notAfter,
		KeyUsage:     x509.KeyUsageDigitalSignature | x509.KeyUsageKeyEncipherment,
		ExtKeyUsage:  []x509.ExtKeyUsage{x509.ExtKeyUsageServerAuth, x509.ExtKeyUsageClientAuth},
	}
	der, err := x509.CreateCertificate(rand.Reader, tmpl, signer.cert, csr.PublicKey, signer.key)
	if err != nil {
		return nil, err
	}
	leaf := string(pem.EncodeToMemory(&pem.Block{Type: "CERTIFICATE", Bytes: der}))
	if idx%2 == 1 {
		leaf = strings.TrimSuffix(leaf, "\n") // concatCerts must put the newline back between chain elements
	}
	return []string{leaf, signer.pem}, nil
}

func (c *fakeCA) GetRootCertBundle() ([]string, error) {
	c.mu.Lock()
	out := c.last
	c.mu.Unlock()
	if out.kind == "bundleerr" {
		return nil, errors.New("scripted GetRootCertBundle error")
	}
	b := bundlePEMs(out.bundle)
	c.mu.Lock()
	odd := len(c.recs)%2 == 0
	c.mu.Unlock()
	if odd {
		for i := 0; i+1 < len(b); i++ {
			b[i] = strings.TrimSuffix(b[i], "\n") // same for all but the last bundle element
		}
	}
	return b, nil
}

// ------------------------------------------------------------------ recording delayed queue

type qEntry struct {
	task  queue.Task
	delay time.Duration
	at    time.Time // when PushDelayed was called
	fired bool
	done  bool // the task has returned
	cert  int  // serial-1 of the workload cert cached when the entry was pushed (bookkeeping for the oracle)
	// the workload cache was non-empty when PushDelayed was called (registerSecret stores first)
	cachedAtPush bool
}

// fakeQueue implements queue.Delayed: it records the tasks registerSecret pushes (the closures are
// the real ones) and lets the harness run them at chosen instants.
type fakeQueue struct {
	mu      sync.Mutex
	entries []*qEntry
	sc      *nacache.SecretManagerClient // to look at the cache at push time
	// syncRun, when set, is asked at every push whether the task shall be run synchronously inside
	// PushDelayed (what a zero-delay task on a fast queue amounts to): the order SetWorkload(&item)
	// then PushDelayed is part of the property - a task that runs before the store is a no-op and
	// the certificate is never renewed
	syncRun func(idx int) bool
	// slowPush, when set, makes PushDelayed take that long: it widens the window between SetWorkload(&item)
	// and what GenerateSecret does after registerSecret (SetRoot, the ROOTCA callback)
	slowPush func(idx int) time.Duration
}

func (q *fakeQueue) Push(t queue.Task) { q.PushDelayed(t, 0) }
func (q *fakeQueue) PushDelayed(t queue.Task, d time.Duration) {
	e := &qEntry{task: t, delay: d, at: time.Now(), cert: -1}
	if q.sc != nil {
		e.cachedAtPush = nacache.VerifCachedWorkload(q.sc) != nil
	}
	q.mu.Lock()
	idx := len(q.entries)
	q.entries = append(q.entries, e)
	run := q.syncRun != nil && q.syncRun(idx)
	if run {
		e.fired = true
	}
	var nap time.Duration
	if q.slowPush != nil {
		nap = q.slowPush(idx)
	}
	q.mu.Unlock()
	if nap > 0 {
		time.Sleep(nap)
	}
	if run {
		_ = t()
		q.mu.Lock()
		e.done = true
		q.mu.Unlock()
	}
}
func (q *fakeQueue) Run(stop <-chan struct{}) { <-stop }
func (q *fakeQueue) Closed() <-chan struct{} {
	c := make(chan struct{})
	close(c)
	return c
}
func (q *fakeQueue) len() int {
	q.mu.Lock()
	defer q.mu.Unlock()
	return len(q.entries)
}

// ------------------------------------------------------------------ system under test

type sut struct {
	sc  *nacache.SecretManagerClient
	ca  *fakeCA
	q   *fakeQueue
	emu sync.Mutex
	ev  []byte     // 'R' / 'W' / 'w' callbacks in order
	cit *citServer // stream citadel: the in-process CA service behind the real CitadelClient
	// UpdateConfigTrustBundle in progress: the bundle it announces (read by the handler under emu)
	expectCfg     []byte
	expectCfgSet  bool
	ratio, jitter float64
	tmpDir        string // removed on close
}

// bucketable: the nearest-quarter bucket of the scheduled delay does not depend on the jitter draw.
func (s *sut) bucketable() bool {
	return s.jitter <= 1.0/16 && s.ratio*4 == float64(int(s.ratio*4))
}

func newSUT(ratio, jitter float64, realQueue bool) *sut {
	initRoots()
	ca := &fakeCA{}
	s := newSUTWith(ratio, jitter, ca, ca)
	if realQueue {
		panic("real queue is installed by the timer stream itself")
	}
	return s
}

// newSUTWith builds the real SecretManagerClient on the given CA client; `ca` is the signing fake CA
// behind it (directly, or behind the in-process gRPC service of the citadel stream).
// sutOpts: everything beyond ratio / jitter that a stream may set on the client under test.
type sutOpts struct {
	ownQueue  bool      // keep the delayed queue NewSecretManagerClient created and started itself
	outputDir string    // security.Options.OutputKeyCertToDir
	files     [3]string // file-mounted cert chain, key, root (CertChainFilePath, KeyFilePath, RootCertFilePath)
	caRoot    string    // security.Options.CARootPath (FileRootSystemCACert)
	keyType   string    // "" = ECDSA P-256 (fast), "rsa" = RSA 2048, "pkcs8" = ECDSA in PKCS#8
	nilCA     bool      // caClient == nil
}

// newVariantSUT: the variants of the `cache` stream (8th token of the case header).
func newVariantSUT(ratio, jitter float64, variant string) *sut {
	initRoots()
	ca := &fakeCA{}
	o := sutOpts{}
	tmp := ""
	switch variant {
	case "outdir":
		// OUTPUT_CERTS is the directory of the well-known certificate paths: GenerateSecret writes key.pem,
		// cert-chain.pem and root-cert.pem there and must never serve them back as "file mounted" certificates
		var err error
		tmp, err = os.MkdirTemp("", "c18oc")
		must(err)
		o.outputDir = tmp
		o.files = [3]string{tmp + "/cert-chain.pem", tmp + "/key.pem", tmp + "/root-cert.pem"}
	case "rsa", "pkcs8":
		o.keyType = variant
	case "nilca":
		o.nilCA = true
	}
	s := newSUTOpts(ratio, jitter, ca, ca, o)
	s.tmpDir = tmp
	return s
}

func newSUTOwnQueue(ratio, jitter float64) *sut {
	initRoots()
	ca := &fakeCA{}
	return newSUTOpts(ratio, jitter, ca, ca, sutOpts{ownQueue: true})
}

func newSUTOutputDir(dir string) *sut {
	initRoots()
	ca := &fakeCA{}
	return newSUTOpts(0.5, 0, ca, ca, sutOpts{outputDir: dir})
}

func newSUTWith(ratio, jitter float64, ca *fakeCA, client security.Client) *sut {
	return newSUTOpts(ratio, jitter, ca, client, sutOpts{})
}

func newSUTOpts(ratio, jitter float64, ca *fakeCA, client security.Client, o sutOpts) *sut {
	s := &sut{ca: ca, q: &fakeQueue{}, ratio: ratio, jitter: jitter}
	opts := &security.Options{
		ECCSigAlg:                            string(pkiutil.EcdsaSigAlg),
		TrustDomain:                          "cluster.local",
		WorkloadNamespace:                    "verif",
		ServiceAccount:                       "sa",
		SecretTTL:                            24 * time.Hour,
		SecretRotationGracePeriodRatio:       ratio,
		SecretRotationGracePeriodRatioJitter: jitter,
		OutputKeyCertToDir:                   o.outputDir,
		CertChainFilePath:                    o.files[0],
		KeyFilePath:                          o.files[1],
		RootCertFilePath:                     o.files[2],
		CARootPath:                           o.caRoot,
	}
	switch o.keyType {
	case "rsa":
		opts.ECCSigAlg = ""
		opts.WorkloadRSAKeySize = 2048
	case "pkcs8":
		opts.Pkcs8Keys = true
	}
	if o.nilCA {
		client = nil
	}
	sc, err := nacache.NewSecretManagerClient(client, opts)
	must(err)
	s.q.sc = sc
	if !o.ownQueue {
		nacache.VerifSetQueue(sc, s.q)
	}
	s.sc = sc
	sc.RegisterSecretHandler(s.record)
	return s
}

// record is the recording secret handler.
func (s *sut) record(name string) {
	sc := s.sc
	{
		s.emu.Lock()
		defer s.emu.Unlock()
		switch name {
		case security.RootCertReqResourceName:
			// the order "store the new value, then announce ROOTCA" is part of the property: a subscriber
			// that re-requests ROOTCA from this callback must get the new anchors.  'R' = the announced value
			// is in place at callback time, 'r' = it is not (yet).
			if s.rootAnnouncedInPlace() {
				s.ev = append(s.ev, 'R')
			} else {
				s.ev = append(s.ev, 'r')
			}
		case security.WorkloadKeyCertResourceName:
			// the order "empty the cache, then notify" is part of the property: a subscriber that
			// re-requests from this callback must not find the old certificate. 'W' = cache empty
			// at callback time, 'w' = a certificate is still cached.
			if nacache.VerifCachedWorkload(sc) == nil {
				s.ev = append(s.ev, 'W')
			} else {
				s.ev = append(s.ev, 'w')
			}
		default:
			s.ev = append(s.ev, '?')
		}
	}
}

// rootAnnouncedInPlace: during UpdateConfigTrustBundle (expectCfg set by the harness) configTrustBundle must
// already be the bundle being set; otherwise (GenerateSecret found a new CA root) cache.certRoot must already
// be the root of the latest CA response.  Sequential streams only (expectations are the harness's own inputs).
func (s *sut) rootAnnouncedInPlace() bool {
	if s.expectCfgSet {
		return bytes.Equal(nacache.VerifConfigTrustBundle(s.sc), s.expectCfg)
	}
	s.ca.mu.Lock()
	roots := ""
	for i := len(s.ca.recs) - 1; i >= 0; i-- {
		if s.ca.recs[i].out.kind == "ok" {
			roots = s.ca.recs[i].roots
			break
		}
	}
	s.ca.mu.Unlock()
	if roots == "" {
		return true
	}
	return lettersOrDash(nacache.VerifCachedRoot(s.sc)) == roots
}

// updateBundle calls UpdateConfigTrustBundle telling the recording handler what is being announced.
func (s *sut) updateBundle(b []byte) {
	s.emu.Lock()
	s.expectCfg, s.expectCfgSet = b, true
	s.emu.Unlock()
	_ = s.sc.UpdateConfigTrustBundle(b)
	s.emu.Lock()
	s.expectCfgSet = false
	s.emu.Unlock()
}

func (s *sut) close() {
	if s.tmpDir != "" {
		defer os.RemoveAll(s.tmpDir)
	}
	s.sc.Close()
	if s.cit != nil {
		s.cit.srv.Stop()
	}
}

func (s *sut) takeEvents() string {
	s.emu.Lock()
	defer s.emu.Unlock()
	e := string(s.ev)
	s.ev = nil
	if e == "" {
		return "-"
	}
	return e
}

// certID returns serial-1 of the first certificate of a chain (-1 when there is none).
func certID(chain []byte) int {
	blk, _ := pem.Decode(chain)
	if blk == nil {
		return -1
	}
	c, err := x509.ParseCertificate(blk.Bytes)
	if err != nil {
		return -1
	}
	return int(c.SerialNumber.Int64()) - 1
}

// leafNotAfter is the expiry of the certificate that is actually served (zero time if unparsable).
func leafNotAfter(it *security.SecretItem) time.Time {
	if c := leafOf(it.CertificateChain); c != nil {
		return c.NotAfter
	}
	return time.Time{}
}

func leafOf(chain []byte) *x509.Certificate {
	blk, _ := pem.Decode(chain)
	if blk == nil {
		return nil
	}
	c, _ := x509.ParseCertificate(blk.Bytes)
	return c
}

func pubOfKey(keyPEM []byte) []byte {
	k, err := pkiutil.ParsePemEncodedKey(keyPEM)
	if err != nil {
		return nil
	}
	signer, ok := k.(crypto.Signer)
	if !ok {
		return nil
	}
	der, _ := x509.MarshalPKIXPublicKey(signer.Public())
	return der
}

// keyID maps a private key to the index of the CA call whose CSR carried its public key.
func (s *sut) keyID(keyPEM []byte) int {
	pub := pubOfKey(keyPEM)
	if pub == nil {
		return -1
	}
	s.ca.mu.Lock()
	defer s.ca.mu.Unlock()
	for i, r := range s.ca.recs {
		if bytes.Equal(r.pub, pub) {
			return i
		}
	}
	return -1
}

func idTok(present bool, id int) string {
	if !present {
		return "-"
	}
	if id < 0 {
		return "?"
	}
	return fmt.Sprint(id)
}

func (s *sut) showRet(it *security.SecretItem, err error) string {
	if err != nil || it == nil {
		return "err key=- cert=- root=none"
	}
	return fmt.Sprintf("ok key=%s cert=%s root=%s", idTok(it.PrivateKey != nil, s.keyID(it.PrivateKey)),
		idTok(it.CertificateChain != nil, certID(it.CertificateChain)), rootLetters(it.RootCert))
}

func (s *sut) showState() string {
	wl := "-"
	if w := nacache.VerifCachedWorkload(s.sc); w != nil {
		wl = idTok(true, certID(w.CertificateChain))
	}
	return fmt.Sprintf("wl=%s croot=%s cfg=%s q=%d ca=%d", wl, lettersOrDash(nacache.VerifCachedRoot(s.sc)),
		lettersOrDash(nacache.VerifConfigTrustBundle(s.sc)), s.q.len(), s.ca.calls())
}

// bucket: nearest quarter of delay/lifetime (same definition as in Driver.lean).
func bucket(d, life int64) int64 {
	if life <= 0 {
		if d == 0 {
			return 0
		}
		return 9
	}
	x := new(big.Int).Mul(big.NewInt(8), big.NewInt(d))
	x.Add(x, big.NewInt(life))
	x.Div(x, new(big.Int).Mul(big.NewInt(2), big.NewInt(life))) // Euclidean, operands are non-negative here
	return x.Int64()
}

func parseOutcome(t []string) (caOutcome, bool) {
	if len(t) == 0 {
		return caOutcome{}, false
	}
	switch t[0] {
	case "ok":
		if len(t) != 4 || len(t[2]) != 1 {
			return caOutcome{}, false
		}
		var sec int64
		if _, err := fmt.Sscan(t[1], &sec); err != nil {
			return caOutcome{}, false
		}
		return caOutcome{kind: "ok", ttl: time.Duration(sec) * time.Second, signer: t[2][0], bundle: t[3]}, true
	case "signerr", "bundleerr", "garbage", "emptychain":
		if len(t) != 1 {
			return caOutcome{}, false
		}
		return caOutcome{kind: t[0], signer: 'A', bundle: "-"}, true
	}
	return caOutcome{}, false
}

func resName(t string) (string, bool) {
	switch t {
	case "w":
		return security.WorkloadKeyCertResourceName, true
	case "r":
		return security.RootCertReqResourceName, true
	}
	return "", false
}

func sortedLetters(s string) string {
	b := []byte(s)
	sort.Slice(b, func(i, j int) bool { return b[i] < b[j] })
	out := b[:0]
	for i, c := range b {
		if i == 0 || c != b[i-1] {
			out = append(out, c)
		}
	}
	return string(out)
}

func containsAll(have, want string) bool {
	for i := 0; i < len(want); i++ {
		if !strings.ContainsRune(have, rune(want[i])) {
			return false
		}
	}
	return true
}
