package main

import (
	"bytes"
	"fmt"
	"math/big"
	"strconv"
	"strings"
	"time"

	"istio.io/istio/pkg/security"
	nacache "istio.io/istio/security/pkg/nodeagent/cache"
	"verifharness/internal/wire"
)

// Stream `cache`: sequential op scripts on a real SecretManagerClient (fake CA, recording queue,
// recording secret handler).
//
//	case <n> cache <rNum> <rDen> <JNum> <JDen>
//	gen <w|r> ok <ttlSec> <signer> <bundle> | gen <w|r> signerr|bundleerr|garbage|emptychain
//	bundle <letters|->
//	fire <k>

// quarters with a jitter bound <= 1/16 have a deterministic delay bucket (compared with the model); the other
// combinations cover the rest of [0,1]^2, there only the oracle judges the scheduled delay
var cacheRatios = []float64{0, 0.25, 0.5, 0.75, 1, 0.25, 0.5, 0.75, 0.1, 0.9, 1.0 / 3.0, 0.6}
var cacheJitters = []float64{0, 0, 0.01, 1.0 / 16, 0, 0.01, 0.3, 0.5, 1}

// positive TTLs are at least an hour: the delay bucket is robust against stalls of minutes
var cacheTTLs = []int64{3600, 3600, 7200, 86400, 86400, 7776000, 0, -60, -3600}

func randLetters(r *wire.Rng, min, max int) string {
	n := min + r.Intn(max-min+1)
	if n == 0 {
		return "-"
	}
	b := make([]byte, n)
	for i := range b {
		b[i] = byte('A' + r.Intn(nRoots))
	}
	return string(b)
}

func genCache(seed uint64, n int, path string) {
	out := wire.Create(path)
	defer out.Close()
	root := wire.NewRng(seed*0x9e3779b9 + 1818)
	for i := 0; i < n; i++ {
		r := root.Fork()
		rn, rd := ratTokens(wire.Pick(r, cacheRatios))
		jn, jd := ratTokens(wire.Pick(r, cacheJitters))
		// variants of the client: OUTPUT_CERTS = the directory of the well-known cert paths (the agent must NOT read
		// its own output back: "would never rotate"), RSA keys, PKCS#8 keys, no CA client at all
		variant := ""
		switch x := r.Intn(120); {
		case x < 12:
			variant = "outdir"
		case x < 14:
			variant = "rsa"
		case x < 18:
			variant = "pkcs8"
		case x < 19:
			variant = "nilca"
		}
		if variant == "" {
			out.Line("case", strconv.Itoa(i), "cache", rn, rd, jn, jd)
		} else {
			out.Line("case", strconv.Itoa(i), "cache", rn, rd, jn, jd, variant)
		}
		signer := byte('A' + r.Intn(nRoots))
		bundle := "-"
		cfg := "-"
		// rough simulation of the cache, only to aim the `fire` ops: entry index of the cached
		// certificate (-1: cache empty) and the entries not fired yet
		cached := -1
		var unfired []int
		entries := 0
		nops := 1 + r.Intn(30)
		if variant == "rsa" {
			nops = 1 + r.Intn(8) // RSA key generation is slow
		}
		for k := 0; k < nops; k++ {
			switch x := r.Intn(100); {
			case x < 55:
				res := "w"
				if r.Chance(1, 3) {
					res = "r"
				}
				if r.Chance(1, 5) {
					out.Line("gen", res, wire.Pick(r, []string{"signerr", "bundleerr", "garbage", "emptychain"}))
					break
				}
				if r.Chance(1, 4) { // the CA's root configuration changes
					switch r.Intn(4) {
					case 0:
						signer = byte('A' + r.Intn(nRoots))
					case 1:
						bundle = "-"
					case 2:
						bundle = randLetters(r, 1, 3)
					default:
						signer = byte('A' + r.Intn(nRoots))
						bundle = strings.ReplaceAll(string(signer)+randLetters(r, 0, 2), "-", "")
					}
				}
				out.Line("gen", res, "ok", strconv.FormatInt(wire.Pick(r, cacheTTLs), 10), string(signer), bundle)
				if cached < 0 {
					cached = entries
					unfired = append(unfired, entries)
					entries++
				}
			case x < 68:
				next := cfg
				switch r.Intn(4) {
				case 0:
					// same bundle again: must be a no-op
				case 1:
					next = "-"
				default:
					next = randLetters(r, 1, 3)
				}
				if next != cfg {
					cached = -1
				}
				cfg = next
				out.Line("bundle", cfg)
			default:
				k := entries // out of range
				switch y := r.Intn(20); {
				case y < 9 && cached >= 0:
					k = cached
				case y < 17 && len(unfired) > 0:
					k = wire.Pick(r, unfired)
				case y < 19:
					k = r.Intn(entries + 1)
				}
				if k == cached {
					cached = -1
				}
				for i, u := range unfired {
					if u == k {
						unfired = append(unfired[:i], unfired[i+1:]...)
						break
					}
				}
				out.Line("fire", strconv.Itoa(k))
			}
		}
	}
}

func fracToken(n, d string) (float64, bool) {
	q, ok := new(big.Rat).SetString(n + "/" + d)
	if !ok {
		return 0, false
	}
	f, _ := q.Float64()
	return f, true
}

func execCache(in, outp string) {
	out := wire.Create(outp)
	defer out.Close()
	var s *sut
	defer func() {
		if s != nil {
			s.close()
		}
	}()
	for _, t := range wire.ReadLines(in) {
		func() {
			defer func() {
				if e := recover(); e != nil {
					out.Line("crash")
				}
				out.Flush()
			}()
			if t[0] == "case" {
				if s != nil {
					s.close()
					s = nil
				}
				if (len(t) == 3 || len(t) == 7 || len(t) == 8) && t[2] == "citadel" {
					r, j := 0.5, 0.0
					if len(t) >= 7 {
						r, _ = fracToken(t[3], t[4])
						j, _ = fracToken(t[5], t[6])
					}
					s = newCitadelSUT(r, j, len(t) == 8 && t[7] == "tls")
				}
				if (len(t) == 7 || len(t) == 8) && t[2] == "cache" {
					r, ok1 := fracToken(t[3], t[4])
					j, ok2 := fracToken(t[5], t[6])
					if !ok1 || !ok2 {
						out.Line("bad-op")
						return
					}
					variant := ""
					if len(t) == 8 {
						variant = t[7]
					}
					s = newVariantSUT(r, j, variant)
				}
				out.Line("ok")
				return
			}
			if t[0] == "conc" {
				out.Line(execConc(t))
				return
			}
			if t[0] == "stress" {
				out.Line(runStress(t))
				return
			}
			if t[0] == "outdir" {
				out.Line(runOutdir(t))
				return
			}
			if s == nil {
				s = newSUT(0.5, 0, false)
			}
			if t[0] == "rootfile" {
				out.Line(s.rootFile(t))
				return
			}
			if t[0] == "cgen" {
				g, ok := s.cgenAsGen(t)
				if !ok {
					out.Line("bad-op")
					return
				}
				t = g
			}
			switch t[0] {
			case "gen":
				if len(t) < 3 {
					out.Line("bad-op")
					return
				}
				res, ok1 := resName(t[1])
				oc, ok2 := parseOutcome(t[2:])
				if !ok1 || !ok2 {
					out.Line("bad-op")
					return
				}
				s.ca.next = oc
				q0 := s.q.len()
				it, err := s.sc.GenerateSecret(res)
				nb, push := "-", "-"
				if s.q.len() > q0 {
					e := s.q.entries[s.q.len()-1]
					if w := nacache.VerifCachedWorkload(s.sc); w == nil {
						nb = "?"
					} else if !s.bucketable() {
						nb = "*" // the jitter range spans several buckets: only the oracle judges the delay
					} else {
						// lifetime judged by the LEAF's NotAfter, not by the client's own bookkeeping
						nb = fmt.Sprint(bucket(int64(e.delay), int64(leafNotAfter(w).Sub(w.CreatedTime))))
					}
					push = "p" // PushDelayed was called with the cache still empty
					if e.cachedAtPush {
						push = "P"
					}
				}
				out.Line(s.showRet(it, err), "ev="+s.takeEvents(), "nb="+nb, "push="+push, "|", s.showState())
			case "bundle":
				if len(t) != 2 {
					out.Line("bad-op")
					return
				}
				before := nacache.VerifConfigTrustBundle(s.sc)
				var b []byte
				if t[1] != "-" {
					b = []byte(strings.Join(bundlePEMs(t[1]), ""))
				}
				s.updateBundle(b)
				changed := !bytes.Equal(before, nacache.VerifConfigTrustBundle(s.sc))
				out.Line("changed="+wire.B(changed), "ev="+s.takeEvents(), "|", s.showState())
			case "fire":
				if len(t) != 2 {
					out.Line("bad-op")
					return
				}
				k, err := strconv.Atoi(t[1])
				if err != nil || k < 0 {
					out.Line("bad-op")
					return
				}
				if k >= s.q.len() || s.q.entries[k].fired {
					out.Line("none", "ev="+s.takeEvents(), "|", s.showState())
					return
				}
				e := s.q.entries[k]
				e.fired = true
				had := nacache.VerifCachedWorkload(s.sc) != nil
				_ = e.task()
				verdict := "noop"
				if had && nacache.VerifCachedWorkload(s.sc) == nil {
					verdict = "clear"
				}
				out.Line(verdict, "ev="+s.takeEvents(), "|", s.showState())
			default:
				out.Line("bad-op")
			}
		}()
	}
}

// oracleCache evaluates the property's clauses on the real SecretManagerClient while it executes
// the script, without the Lean model:
//
//	pair-mismatch       a returned private key does not match the leaf certificate returned with it
//	no-pair             a successful workload answer lacks the key or the chain
//	hit-called-ca       the CA was called although a workload certificate was cached
//	miss-calls          a request with an empty cache made a number of CA calls other than 1
//	sticky-failure      the cache is empty, the CA answers correctly, and the request still fails
//	error-cached        a failed signing attempt left something in the cache or in the queue
//	root-missing        a ROOTCA answer lacks a root of the CA response behind the cached certificate, or a configured anchor
//	root-not-ca         a served / cached / recorded trust root is not a CA certificate (e.g. the workload's own leaf)
//	merge-unsorted      a ROOTCA answer is not sorted / de-duplicated
//	renewal-count       a newly cached certificate did not schedule exactly one rotation (or one was scheduled without a new certificate)
//	expiry-not-from-leaf, created-out-of-window   the client's ExpireTime is not the leaf's NotAfter / its CreatedTime is
//	                    not inside the call
//	negative-delay, late-schedule, not-strict   scheduled delay vs time to expiry OF THE LEAF (NotAfter)
//	push-before-store   registerSecret called PushDelayed while the cache was still empty (a task that runs at once is
//	                    a no-op and the certificate is never renewed)
//	announce-before-store  a `ROOTCA` callback was delivered before configTrustBundle / certRoot held the announced value
//	                    (a subscriber re-requesting ROOTCA from the callback would merge the old anchors)
//	notify-before-clear a `default` callback was delivered while a certificate was still cached (a subscriber
//	                    re-requesting from the callback would get the old certificate and nobody would renew it)
//	rotation-missed     the rotation task of the cached certificate did not clear the cache and notify `default`
//	stale-timer-cleared a rotation task of an older certificate changed the cache or notified
//	root-unannounced    a workload request obtained a CA response whose root differs from the recorded one without OnSecretUpdate(ROOTCA)
//	rootca-miss-unannounced  the same through a ROOTCA request (recorded separately, see notes/C18.md)
//	bundle-unannounced  UpdateConfigTrustBundle with a different bundle did not notify ROOTCA+default and clear the cache
//	bundle-noop         UpdateConfigTrustBundle with the same bundle had an effect
func oracleCache(in, outp string) {
	out := wire.Create(outp)
	defer out.Close()
	var s *sut
	defer func() {
		if s != nil {
			s.close()
		}
	}()
	verdict := ""
	started := false
	var ratio, jitter float64
	lastCARoots := "" // roots of the last successful CA response
	nilCA := false    // variant: no CA client (every request that needs the CA must fail, nothing else happens)
	flush := func() {
		if started {
			if verdict == "" {
				out.Line("OK")
			} else {
				out.Line("FAIL", verdict)
			}
		}
		verdict = ""
	}
	fail := func(clause string, t []string, extra string) {
		if verdict == "" {
			verdict = clause + " " + wire.Enc(join(t)) + " " + wire.Enc(extra)
		}
	}
	for _, t := range wire.ReadLines(in) {
		if t[0] == "case" {
			flush()
			started = true
			if s != nil {
				s.close()
				s = nil
			}
			ratio, jitter = 0.5, 0
			if len(t) >= 7 {
				ratio, _ = fracToken(t[3], t[4])
				jitter, _ = fracToken(t[5], t[6])
			}
			if len(t) >= 3 && t[2] == "citadel" {
				s = newCitadelSUT(ratio, jitter, len(t) == 8 && t[7] == "tls")
			}
			nilCA = false
			if len(t) == 8 && t[2] == "cache" {
				s = newVariantSUT(ratio, jitter, t[7])
				nilCA = t[7] == "nilca"
			}
			lastCARoots = ""
			continue
		}
		if verdict != "" {
			continue
		}
		if t[0] == "conc" {
			if v := oracleConc(t); v != "" {
				fail(v, t, "")
			}
			continue
		}
		if t[0] == "stress" {
			if v := oracleStress(t); v != "" {
				fail(v, t, "")
			}
			continue
		}
		if t[0] == "outdir" {
			if r := runOutdir(t); strings.HasPrefix(r, "violated ") {
				f := strings.Fields(r)
				fail(f[1]+" "+strings.Join(f[2:], ","), t, "")
			}
			continue
		}
		if s == nil {
			s = newSUT(ratio, jitter, false)
		}
		func() {
			defer func() {
				if e := recover(); e != nil {
					fail("crash", t, fmt.Sprint(e))
				}
			}()
			if t[0] == "rootfile" {
				s.rootFile(t)
				return
			}
			orig := t
			if t[0] == "cgen" {
				g, ok := s.cgenAsGen(t)
				if !ok {
					return
				}
				t = g
				defer func() {
					if verdict != "" && !strings.Contains(verdict, "cgen") {
						verdict += " " + wire.Enc(join(orig))
					}
				}()
			}
			switch t[0] {
			case "gen":
				if len(t) < 3 {
					return
				}
				res, ok1 := resName(t[1])
				oc, ok2 := parseOutcome(t[2:])
				if !ok1 || !ok2 {
					return
				}
				s.ca.next = oc
				before := nacache.VerifCachedWorkload(s.sc)
				rootBefore := nacache.VerifCachedRoot(s.sc)
				calls0, q0 := s.ca.calls(), s.q.len()
				now0 := time.Now()
				it, err := s.sc.GenerateSecret(res)
				ev := s.takeEvents()
				after := nacache.VerifCachedWorkload(s.sc)
				dc := s.ca.calls() - calls0
				if nilCA {
					if err == nil || dc != 0 || after != nil || s.q.len() != q0 || ev != "-" {
						fail("nil-ca-client", t, fmt.Sprint(err))
					}
					return
				}
				if err == nil && oc.kind != "ok" && dc > 0 && (orig[0] != "cgen" || orig[2] == "error") {
					// the CA call returned an error and the request succeeded.  (A malformed answer of the gRPC CA that
					// the Citadel client lets through - leaf-only / empty chain - is named by what is wrong with the
					// served result further down: root-not-ca, pair-mismatch, ...)
					fail("ca-error-ignored", t, oc.kind)
				}
				if err != nil && (before != nil || oc.kind == "ok") {
					fail("sticky-failure", t, err.Error()) // a healthy CA / a cached certificate, and the request still fails
				}
				if before != nil && dc != 0 {
					fail("hit-called-ca", t, fmt.Sprint(dc))
				}
				if before == nil && dc != 1 {
					fail("miss-calls", t, fmt.Sprint(dc))
				}
				if err != nil {
					if before != nil || oc.kind == "ok" {
						fail("sticky-failure", t, err.Error())
					}
					if before == nil && (after != nil || s.q.len() != q0) {
						fail("error-cached", t, "")
					}
					return
				}
				if it == nil {
					fail("no-pair", t, "nil item")
					return
				}
				if nonCARoot(it.RootCert) || (after != nil && nonCARoot(after.RootCert)) || nonCARoot(nacache.VerifCachedRoot(s.sc)) {
					fail("root-not-ca", t, rootLetters(it.RootCert))
				}
				if res == security.WorkloadKeyCertResourceName && (it.PrivateKey == nil || it.CertificateChain == nil) {
					fail("no-pair", t, "")
				}
				if it.PrivateKey != nil && it.CertificateChain != nil {
					leaf := leafOf(it.CertificateChain)
					pub := pubOfKey(it.PrivateKey)
					var lp []byte
					if leaf != nil {
						lp = leaf.RawSubjectPublicKeyInfo
					}
					if leaf == nil || pub == nil || !bytes.Equal(lp, pub) {
						fail("pair-mismatch", t, "")
					}
				}
				if res == security.RootCertReqResourceName {
					got := rootLetters(it.RootCert)
					want := lettersOrDash(nacache.VerifConfigTrustBundle(s.sc))
					if want == "-" {
						want = ""
					}
					if after != nil {
						if id := certID(after.CertificateChain); id >= 0 && id < len(s.ca.recs) {
							want += s.ca.recs[id].roots
						}
					}
					if !containsAll(got, want) {
						fail("root-missing", t, got+" lacks "+want)
					}
					if got != "none" && got != "-" && got != sortedLetters(got) {
						fail("merge-unsorted", t, got)
					}
				}
				// renewal scheduling
				fresh := after != nil && (before == nil || !bytes.Equal(before.CertificateChain, after.CertificateChain))
				dq := s.q.len() - q0
				if (fresh && dq != 1) || (!fresh && dq != 0) {
					fail("renewal-count", t, fmt.Sprint(dq))
				}
				if strings.Contains(ev, "r") {
					fail("announce-before-store", t, ev)
				}
				if fresh && dq == 1 {
					e := s.q.entries[s.q.len()-1]
					e.cert = certID(after.CertificateChain)
					if !e.cachedAtPush {
						fail("push-before-store", t, "")
					}
					d := e.delay
					now1 := time.Now()
					// "no later than its expiry" is about the certificate that is served: the expiry is the
					// leaf's NotAfter, and the client's own ExpireTime / CreatedTime must agree with reality
					notAfter := leafNotAfter(after)
					if !after.ExpireTime.Equal(notAfter) {
						fail("expiry-not-from-leaf", t, fmt.Sprintf("ExpireTime %v leaf NotAfter %v", after.ExpireTime.Sub(now0), notAfter.Sub(now0)))
					}
					if after.CreatedTime.Before(now0) || after.CreatedTime.After(now1) {
						fail("created-out-of-window", t, fmt.Sprint(after.CreatedTime.Sub(now0)))
					}
					life := notAfter.Sub(after.CreatedTime)
					if d < 0 {
						fail("negative-delay", t, d.String())
					}
					if !notAfter.Before(now0) && now0.Add(d).After(notAfter) {
						fail("late-schedule", t, fmt.Sprintf("delay %v, leaf expires in %v", d, notAfter.Sub(now0)))
					}
					if life > 0 && ratio-jitter > 0 && (ratio-jitter)*float64(life) >= float64(time.Second) && d > 0 &&
						now1.Sub(now0) < 500*time.Millisecond && !now1.Add(d).Before(notAfter) {
						fail("not-strict", t, fmt.Sprintf("delay %v, leaf expires in %v", d, notAfter.Sub(now0)))
					}
				}
				// root change announcement
				if dc == 1 {
					rec := s.ca.recs[len(s.ca.recs)-1]
					if res == security.WorkloadKeyCertResourceName {
						if !bytes.Equal(rootBefore, []byte(strings.Join(bundlePEMs(rec.roots), ""))) && !strings.Contains(ev, "R") {
							fail("root-unannounced", t, ev)
						}
					} else if lastCARoots != "" && rec.roots != lastCARoots && !strings.Contains(ev, "R") {
						fail("rootca-miss-unannounced", t, lastCARoots+"->"+rec.roots)
					}
					lastCARoots = rec.roots
				}
			case "bundle":
				if len(t) != 2 {
					return
				}
				beforeCfg := nacache.VerifConfigTrustBundle(s.sc)
				before := nacache.VerifCachedWorkload(s.sc)
				var b []byte
				if t[1] != "-" {
					b = []byte(strings.Join(bundlePEMs(t[1]), ""))
				}
				s.updateBundle(b)
				ev := s.takeEvents()
				after := nacache.VerifCachedWorkload(s.sc)
				if strings.Contains(ev, "w") {
					fail("notify-before-clear", t, ev)
				}
				if strings.Contains(ev, "r") {
					fail("announce-before-store", t, ev)
				}
				if !bytes.Equal(beforeCfg, b) {
					if ev != "RW" || after != nil || !bytes.Equal(nacache.VerifConfigTrustBundle(s.sc), b) {
						fail("bundle-unannounced", t, ev)
					}
				} else if ev != "-" || after != before {
					fail("bundle-noop", t, ev)
				}
			case "fire":
				if len(t) != 2 {
					return
				}
				k, err := strconv.Atoi(t[1])
				if err != nil || k < 0 || k >= s.q.len() || s.q.entries[k].fired {
					return
				}
				e := s.q.entries[k]
				e.fired = true
				before := nacache.VerifCachedWorkload(s.sc)
				own := before != nil && certID(before.CertificateChain) == e.cert
				_ = e.task()
				ev := s.takeEvents()
				after := nacache.VerifCachedWorkload(s.sc)
				if strings.Contains(ev, "w") {
					fail("notify-before-clear", t, ev)
				}
				if own && (after != nil || ev != "W") {
					fail("rotation-missed", t, ev)
				}
				if !own && (after != before || ev != "-") {
					fail("stale-timer-cleared", t, ev)
				}
			}
		}()
	}
	flush()
}
