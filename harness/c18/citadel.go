package main

import (
	"context"
	"crypto/x509"
	"encoding/pem"
	"net"
	"strconv"
	"sync"
	"time"

	"google.golang.org/grpc"
	"google.golang.org/grpc/codes"
	"google.golang.org/grpc/status"
	pb "istio.io/api/security/v1alpha1"

	"istio.io/istio/pkg/security"
	"istio.io/istio/security/pkg/nodeagent/caclient/providers/citadel"
	"verifharness/internal/wire"
)

// Stream `citadel`: the REAL CitadelClient (security/pkg/nodeagent/caclient/providers/citadel) talks
// gRPC to an in-process IstioCertificateService and feeds the real SecretManagerClient.
//
//	case <n> citadel
//	cgen <w|r> <kind>      GenerateSecret; if the CA is reached it answers according to kind:
//	    normal    chain [leaf, root A]
//	    three     chain [leaf, root A, root B]     (the trust root is the LAST element)
//	    leafonly  chain [leaf]                      (must be rejected: there is no root in it)
//	    empty     chain []
//	    error     gRPC status InvalidArgument       (not retried by the CA retry interceptor)
//	bundle / fire as in stream `cache`.
//
// The model sees normal/three as a successful CA response whose root is the last chain element and
// the other three as CA errors.

type citServer struct {
	pb.UnimplementedIstioCertificateServiceServer
	mu   sync.Mutex
	kind string
	ca   *fakeCA
	srv  *grpc.Server
	addr string
}

func (c *citServer) setKind(k string) {
	c.mu.Lock()
	c.kind = k
	c.mu.Unlock()
}

func (c *citServer) CreateCertificate(_ context.Context, in *pb.IstioCertificateRequest) (*pb.IstioCertificateResponse, error) {
	c.mu.Lock()
	kind := c.kind
	c.mu.Unlock()
	ok := caOutcome{kind: "ok", ttl: time.Hour, signer: 'A', bundle: "-"}
	switch kind {
	case "error", "empty":
		c.ca.mu.Lock()
		c.ca.next = caOutcome{kind: "signerr", signer: 'A', bundle: "-"}
		c.ca.mu.Unlock()
		_, _ = c.ca.CSRSign([]byte(in.Csr), in.ValidityDuration) // recorded as one CA call
		if kind == "error" {
			return nil, status.Error(codes.InvalidArgument, "scripted CA error")
		}
		return &pb.IstioCertificateResponse{CertChain: []string{}}, nil
	}
	c.ca.mu.Lock()
	c.ca.next = ok
	c.ca.mu.Unlock()
	chain, err := c.ca.CSRSign([]byte(in.Csr), in.ValidityDuration)
	if err != nil {
		return nil, status.Error(codes.InvalidArgument, err.Error())
	}
	switch kind {
	case "leafonly":
		chain = chain[:1]
	case "three":
		chain = append(chain, rootByName('B').pem)
		c.ca.mu.Lock()
		c.ca.recs[len(c.ca.recs)-1].roots = "B"
		c.ca.mu.Unlock()
	}
	return &pb.IstioCertificateResponse{CertChain: chain}, nil
}

func newCitadelSUT(ratio, jitter float64) *sut {
	initRoots()
	ca := &fakeCA{}
	lis, err := net.Listen("tcp", "127.0.0.1:0")
	must(err)
	cs := &citServer{kind: "normal", ca: ca, srv: grpc.NewServer(), addr: lis.Addr().String()}
	pb.RegisterIstioCertificateServiceServer(cs.srv, cs)
	go func() { _ = cs.srv.Serve(lis) }()
	cli, err := citadel.NewCitadelClient(&security.Options{CAEndpoint: cs.addr, ClusterID: "Kubernetes"}, nil)
	must(err)
	s := newSUTWith(ratio, jitter, ca, cli)
	s.cit = cs
	return s
}

// cgenAsGen configures the in-process CA for the next call and returns the equivalent `gen` tokens
// (what the scripted CA outcome means for the expectations of the oracle).
func (s *sut) cgenAsGen(t []string) ([]string, bool) {
	if s.cit == nil || len(t) != 3 {
		return nil, false
	}
	switch t[2] {
	case "normal", "three":
		s.cit.setKind(t[2])
		return []string{"gen", t[1], "ok", "3600", "A", "-"}, true
	case "leafonly", "empty", "error":
		s.cit.setKind(t[2])
		return []string{"gen", t[1], "signerr"}, true
	}
	return nil, false
}

func genCitadel(seed uint64, n int, path string) {
	out := wire.Create(path)
	defer out.Close()
	root := wire.NewRng(seed*0x9e3779b9 + 1818181818)
	kinds := []string{"normal", "normal", "normal", "three", "leafonly", "leafonly", "empty", "error"}
	for i := 0; i < n; i++ {
		r := root.Fork()
		// ratio / jitter as in the cache stream (the delay bucket is printed where it is deterministic)
		rn, rd := ratTokens(wire.Pick(r, cacheRatios))
		jn, jd := ratTokens(wire.Pick(r, cacheJitters))
		out.Line("case", strconv.Itoa(i), "citadel", rn, rd, jn, jd)
		entries := 0
		cached := false
		nops := 2 + r.Intn(10)
		for k := 0; k < nops; k++ {
			switch x := r.Intn(10); {
			case x < 7:
				res := "w"
				if r.Chance(1, 2) {
					res = "r"
				}
				kind := wire.Pick(r, kinds)
				out.Line("cgen", res, kind)
				if !cached && (kind == "normal" || kind == "three") {
					cached = true
					entries++
				}
			case x < 8:
				out.Line("bundle", randLetters(r, 0, 2))
				cached = false
			default:
				k := 0
				if entries > 0 {
					k = entries - 1
				}
				out.Line("fire", strconv.Itoa(k))
				cached = false
			}
		}
	}
}

// nonCARoot reports a certificate in root bytes that is not a CA certificate (e.g. a workload leaf).
func nonCARoot(b []byte) bool {
	rest := b
	for {
		var blk *pem.Block
		blk, rest = pem.Decode(rest)
		if blk == nil {
			return false
		}
		c, err := x509.ParseCertificate(blk.Bytes)
		if err != nil || !c.IsCA {
			return true
		}
	}
}
