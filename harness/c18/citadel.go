package main

import (
	"context"
	"crypto/ecdsa"
	"crypto/elliptic"
	"crypto/rand"
	"crypto/tls"
	"crypto/x509"
	"crypto/x509/pkix"
	"encoding/pem"
	"math/big"
	"net"
	"os"
	"strconv"
	"sync"
	"time"

	"google.golang.org/grpc"
	"google.golang.org/grpc/codes"
	"google.golang.org/grpc/credentials"
	"google.golang.org/grpc/status"
	pb "istio.io/api/security/v1alpha1"

	"istio.io/istio/pkg/security"
	"istio.io/istio/security/pkg/nodeagent/caclient/providers/citadel"
	"verifharness/internal/wire"
)

// Stream `citadel`: the REAL CitadelClient (security/pkg/nodeagent/caclient/providers/citadel) talks
// gRPC to an in-process IstioCertificateService and feeds the real SecretManagerClient.
//
//	case <n> citadel
//	cgen <w|r> <kind>      GenerateSecret; if the CA is reached it answers according to kind:
//	    normal    chain [leaf, root A]
//	    three     chain [leaf, root A, root B]     (the trust root is the LAST element)
//	    leafonly  chain [leaf]                      (must be rejected: there is no root in it)
//	    empty     chain []
//	    error     gRPC status InvalidArgument       (not retried by the CA retry interceptor)
//	    retry     gRPC status Unavailable once, then a normal answer to the re-sent request (CARetryInterceptor)
//	bundle / fire as in stream `cache`.
//
// The model sees normal/three as a successful CA response whose root is the last chain element and
// the other three as CA errors.

type citServer struct {
	pb.UnimplementedIstioCertificateServiceServer
	mu   sync.Mutex
	kind string
	ca   *fakeCA
	srv  *grpc.Server
	addr string
}

func (c *citServer) setKind(k string) {
	c.mu.Lock()
	c.kind = k
	c.mu.Unlock()
}

func (c *citServer) CreateCertificate(_ context.Context, in *pb.IstioCertificateRequest) (*pb.IstioCertificateResponse, error) {
	c.mu.Lock()
	kind := c.kind
	c.mu.Unlock()
	ok := caOutcome{kind: "ok", ttl: time.Hour, signer: 'A', bundle: "-"}
	if kind == "retry" {
		// a retried gRPC code on the first attempt: the CA retry interceptor re-sends, the agent sees one good answer
		c.mu.Lock()
		c.kind = "normal"
		c.mu.Unlock()
		return nil, status.Error(codes.Unavailable, "scripted transient CA error")
	}
	switch kind {
	case "error", "empty":
		c.ca.mu.Lock()
		c.ca.next = caOutcome{kind: "signerr", signer: 'A', bundle: "-"}
		c.ca.mu.Unlock()
		_, _ = c.ca.CSRSign([]byte(in.Csr), in.ValidityDuration) // recorded as one CA call
		if kind == "error" {
			return nil, status.Error(codes.InvalidArgument, "scripted CA error")
		}
		return &pb.IstioCertificateResponse{CertChain: []string{}}, nil
	}
	c.ca.mu.Lock()
	c.ca.next = ok
	c.ca.mu.Unlock()
	chain, err := c.ca.CSRSign([]byte(in.Csr), in.ValidityDuration)
	if err != nil {
		return nil, status.Error(codes.InvalidArgument, err.Error())
	}
	switch kind {
	case "leafonly":
		chain = chain[:1]
	case "three":
		chain = append(chain, rootByName('B').pem)
		c.ca.mu.Lock()
		c.ca.recs[len(c.ca.recs)-1].roots = "B"
		c.ca.mu.Unlock()
	}
	return &pb.IstioCertificateResponse{CertChain: chain}, nil
}

const citadelSAN = "istiod.verif.svc"

// tlsMaterial: a TLS root and a server certificate for citadelSAN signed by it (the transport of the TLS variant).
func tlsMaterial() (rootPEM []byte, server tls.Certificate) {
	rk, err := ecdsa.GenerateKey(elliptic.P256(), rand.Reader)
	must(err)
	rt := &x509.Certificate{
		SerialNumber: big.NewInt(9000), Subject: pkix.Name{CommonName: "verif-tls-root"},
		NotBefore: time.Now().Add(-time.Hour), NotAfter: time.Now().Add(24 * time.Hour),
		IsCA: true, BasicConstraintsValid: true, KeyUsage: x509.KeyUsageCertSign | x509.KeyUsageDigitalSignature,
	}
	rder, err := x509.CreateCertificate(rand.Reader, rt, rt, &rk.PublicKey, rk)
	must(err)
	rc, err := x509.ParseCertificate(rder)
	must(err)
	sk, err := ecdsa.GenerateKey(elliptic.P256(), rand.Reader)
	must(err)
	st := &x509.Certificate{
		SerialNumber: big.NewInt(9001), Subject: pkix.Name{CommonName: citadelSAN}, DNSNames: []string{citadelSAN},
		NotBefore: time.Now().Add(-time.Hour), NotAfter: time.Now().Add(24 * time.Hour),
		KeyUsage: x509.KeyUsageDigitalSignature, ExtKeyUsage: []x509.ExtKeyUsage{x509.ExtKeyUsageServerAuth},
	}
	sder, err := x509.CreateCertificate(rand.Reader, st, rc, &sk.PublicKey, rk)
	must(err)
	return pem.EncodeToMemory(&pem.Block{Type: "CERTIFICATE", Bytes: rder}), tls.Certificate{Certificate: [][]byte{sder}, PrivateKey: sk}
}

// newCitadelSUT: with useTLS the client is given TLSOptions{RootCert: <file>} (as istio-agent does) and the in-process
// CA serves TLS: buildConnection then reads the root file on every (re)connect.
func newCitadelSUT(ratio, jitter float64, useTLS bool) *sut {
	initRoots()
	ca := &fakeCA{}
	lis, err := net.Listen("tcp", "127.0.0.1:0")
	must(err)
	var sopts []grpc.ServerOption
	var tlsOpts *citadel.TLSOptions
	tmp := ""
	if useTLS {
		rootPEM, cert := tlsMaterial()
		tmp, err = os.MkdirTemp("", "c18tls")
		must(err)
		must(os.WriteFile(tmp+"/ca-root.pem", rootPEM, 0o644))
		sopts = append(sopts, grpc.Creds(credentials.NewTLS(&tls.Config{Certificates: []tls.Certificate{cert}, MinVersion: tls.VersionTLS12})))
		tlsOpts = &citadel.TLSOptions{RootCert: tmp + "/ca-root.pem"}
	}
	cs := &citServer{kind: "normal", ca: ca, srv: grpc.NewServer(sopts...), addr: lis.Addr().String()}
	pb.RegisterIstioCertificateServiceServer(cs.srv, cs)
	go func() { _ = cs.srv.Serve(lis) }()
	cli, err := citadel.NewCitadelClient(&security.Options{CAEndpoint: cs.addr, CAEndpointSAN: citadelSAN, ClusterID: "Kubernetes"}, tlsOpts)
	must(err)
	s := newSUTWith(ratio, jitter, ca, cli)
	s.cit = cs
	s.tmpDir = tmp
	return s
}

// rootFile: `rootfile hide|restore` (TLS variant) - the CA root file the client dials with becomes unreadable /
// readable again (a volume being republished, a rotation in progress).  Nothing is observable by itself.
func (s *sut) rootFile(t []string) string {
	if s.cit == nil || s.tmpDir == "" || len(t) != 2 {
		return "bad-op"
	}
	switch t[1] {
	case "hide":
		_ = os.Rename(s.tmpDir+"/ca-root.pem", s.tmpDir+"/ca-root.pem.away")
	case "restore":
		_ = os.Rename(s.tmpDir+"/ca-root.pem.away", s.tmpDir+"/ca-root.pem")
	default:
		return "bad-op"
	}
	return "ok"
}

// cgenAsGen configures the in-process CA for the next call and returns the equivalent `gen` tokens
// (what the scripted CA outcome means for the expectations of the oracle).
func (s *sut) cgenAsGen(t []string) ([]string, bool) {
	if s.cit == nil || len(t) != 3 {
		return nil, false
	}
	switch t[2] {
	case "normal", "three", "retry":
		s.cit.setKind(t[2])
		return []string{"gen", t[1], "ok", "3600", "A", "-"}, true
	case "leafonly", "empty", "error":
		s.cit.setKind(t[2])
		return []string{"gen", t[1], "signerr"}, true
	}
	return nil, false
}

func genCitadel(seed uint64, n int, path string) {
	out := wire.Create(path)
	defer out.Close()
	root := wire.NewRng(seed*0x9e3779b9 + 1818181818)
	kinds := []string{"normal", "normal", "normal", "three", "leafonly", "leafonly", "empty", "error", "normal", "normal", "three", "leafonly", "empty", "error", "normal", "retry"}
	for i := 0; i < n; i++ {
		r := root.Fork()
		// ratio / jitter as in the cache stream (the delay bucket is printed where it is deterministic)
		rn, rd := ratTokens(wire.Pick(r, cacheRatios))
		jn, jd := ratTokens(wire.Pick(r, cacheJitters))
		useTLS := r.Chance(1, 3)
		if useTLS {
			out.Line("case", strconv.Itoa(i), "citadel", rn, rd, jn, jd, "tls")
		} else {
			out.Line("case", strconv.Itoa(i), "citadel", rn, rd, jn, jd)
		}
		entries := 0
		cached := false
		nops := 2 + r.Intn(10)
		for k := 0; k < nops; k++ {
			if useTLS && r.Chance(1, 5) {
				// the root file is unreadable exactly while one request fails and the client reconnects; afterwards
				// everything is healthy again: the failure must not be sticky
				out.Line("rootfile", "hide")
				res := wire.Pick(r, []string{"w", "r"})
				out.Line("cgen", res, "error")
				out.Line("rootfile", "restore")
				out.Line("cgen", wire.Pick(r, []string{"w", "r"}), "normal")
				if !cached {
					cached = true
					entries++
				}
				continue
			}
			switch x := r.Intn(10); {
			case x < 7:
				res := "w"
				if r.Chance(1, 2) {
					res = "r"
				}
				kind := wire.Pick(r, kinds)
				out.Line("cgen", res, kind)
				if !cached && (kind == "normal" || kind == "three" || kind == "retry") {
					cached = true
					entries++
				}
			case x < 8:
				out.Line("bundle", randLetters(r, 0, 2))
				cached = false
			default:
				k := 0
				if entries > 0 {
					k = entries - 1
				}
				out.Line("fire", strconv.Itoa(k))
				cached = false
			}
		}
	}
}

// nonCARoot reports a certificate in root bytes that is not a CA certificate (e.g. a workload leaf).
func nonCARoot(b []byte) bool {
	rest := b
	for {
		var blk *pem.Block
		blk, rest = pem.Decode(rest)
		if blk == nil {
			return false
		}
		c, err := x509.ParseCertificate(blk.Bytes)
		if err != nil || !c.IsCA {
			return true
		}
	}
}
