package main

import (
	"bytes"
	"fmt"
	"os"
	"strconv"
	"strings"
	"sync"
	"sync/atomic"
	"time"

	"istio.io/istio/pkg/security"
	nacache "istio.io/istio/security/pkg/nodeagent/cache"
)

// Op `stress <N> <millis> <seed>` (stream conc): the schedules the property quantifies over, on the
// real client, without hooks: N goroutines call GenerateSecret (default and ROOTCA alternately) in a
// loop WHILE a goroutine runs the rotation tasks registerSecret pushed (the real closures, each once)
// and another one calls UpdateConfigTrustBundle with alternating bundles, for <millis> ms; the CA always
// signs (a few calls are slow).  Nothing about the interleaving is controlled; what must hold for
// EVERY interleaving is checked (these are the observables of the Lean invariants):
//
//	panic           no goroutine panics
//	pair-mismatch   every returned private key matches the leaf returned with it (pair_consistent)
//	root-not-ca     every returned / cached root is a CA certificate, ROOTCA answers are non-empty
//	single-flight   successful CA calls <= cache clears + 1 (single_flight_calls: one per epoch)
//	queue-stores    at the end: queue length = successful CA calls (every response is stored and
//	                scheduled exactly once: register_never_skips, one_entry_per_store)
//	no-pending-task at the end: the cached certificate's own task has not been run
//	                (cached_cert_has_rotation_scheduled: the renewal of what is served is pending)
//	stale-cleared   at the end, after running every task that is left: the cache is empty iff the cached
//	                certificate's task was among them (a final sequential sanity step)
//
// Output `ok calls>0 clears>0` or `violated <clause> ...`; the model side prints the same constant
// line: the theorems say these observables hold on every schedule.
func runStress(t []string) string {
	if len(t) != 4 {
		return "bad-op"
	}
	n, e1 := strconv.Atoi(t[1])
	ms, e2 := strconv.Atoi(t[2])
	if e1 != nil || e2 != nil || n < 1 || n > 256 || ms < 1 || ms > 60000 {
		return "bad-op"
	}
	s := newSUT(0.5, 0, false)
	defer s.close()
	s.ca.delay = 200 * time.Microsecond
	s.ca.script = func(i int) caOutcome {
		return caOutcome{kind: "ok", ttl: time.Hour, signer: byte('A' + i%2), bundle: "-"}
	}
	var violation atomic.Value
	fail := func(v string) { violation.CompareAndSwap(nil, v) }
	stop := make(chan struct{})
	var wg sync.WaitGroup
	guard := func(name string, f func()) {
		wg.Add(1)
		go func() {
			defer wg.Done()
			defer func() {
				if e := recover(); e != nil {
					fail(fmt.Sprintf("panic %s:%v", name, e))
				}
			}()
			f()
		}()
	}
	var clears int64 // SetWorkload(nil) executions = `default` callbacks
	s.sc.RegisterSecretHandler(func(name string) {
		if name == security.WorkloadKeyCertResourceName {
			atomic.AddInt64(&clears, 1)
		}
	})
	for g := 0; g < n; g++ {
		g := g
		guard("gen", func() {
			for k := 0; ; k++ {
				select {
				case <-stop:
					return
				default:
				}
				name := security.WorkloadKeyCertResourceName
				if (g+k)%3 == 0 {
					name = security.RootCertReqResourceName
				}
				it, err := s.sc.GenerateSecret(name)
				if err != nil || it == nil {
					fail("gen-error " + fmt.Sprint(err))
					return
				}
				if it.PrivateKey != nil && it.CertificateChain != nil {
					leaf := leafOf(it.CertificateChain)
					if leaf == nil || !bytes.Equal(leaf.RawSubjectPublicKeyInfo, pubOfKey(it.PrivateKey)) {
						fail("pair-mismatch")
					}
				}
				if name == security.WorkloadKeyCertResourceName && (it.PrivateKey == nil || it.CertificateChain == nil) {
					fail("no-pair")
				}
				if name == security.RootCertReqResourceName && (len(it.RootCert) == 0 || rootLetters(it.RootCert) == "-") {
					fail("root-empty")
				}
				if nonCARoot(it.RootCert) {
					fail("root-not-ca")
				}
			}
		})
	}
	guard("fire", func() {
		next := 0
		for {
			select {
			case <-stop:
				return
			default:
			}
			s.q.mu.Lock()
			var e *qEntry
			if next < len(s.q.entries) {
				e = s.q.entries[next]
				e.fired = true
				next++
			}
			s.q.mu.Unlock()
			if e != nil {
				_ = e.task()
			}
			time.Sleep(time.Duration(100+(next%5)*150) * time.Microsecond)
		}
	})
	guard("bundle", func() {
		for k := 0; ; k++ {
			select {
			case <-stop:
				return
			default:
			}
			b := []byte(strings.Join(bundlePEMs([]string{"C", "D", "CD"}[k%3]), ""))
			_ = s.sc.UpdateConfigTrustBundle(b)
			time.Sleep(time.Duration(150+(k%4)*200) * time.Microsecond)
		}
	})
	time.Sleep(time.Duration(ms) * time.Millisecond)
	close(stop)
	wg.Wait()
	if v := violation.Load(); v != nil {
		return "violated " + v.(string)
	}
	// quiescent end state
	calls := s.ca.calls()
	cl := int(atomic.LoadInt64(&clears))
	if calls > cl+1 {
		return fmt.Sprintf("violated single-flight calls=%d clears=%d", calls, cl)
	}
	if s.q.len() != calls {
		return fmt.Sprintf("violated queue-stores q=%d calls=%d", s.q.len(), calls)
	}
	cur := -1
	if w := nacache.VerifCachedWorkload(s.sc); w != nil {
		cur = certID(w.CertificateChain) // every CA call succeeds: the k-th call's certificate owns the k-th task
		if cur < 0 || cur >= s.q.len() || s.q.entries[cur].fired {
			return fmt.Sprintf("violated no-pending-task cached=%d q=%d", cur, s.q.len())
		}
		if nonCARoot(w.RootCert) {
			return "violated root-not-ca cached"
		}
	}
	ranOwn := false
	for i, e := range s.q.entries {
		if !e.fired {
			e.fired = true
			_ = e.task()
			ranOwn = ranOwn || i == cur
		}
	}
	if (nacache.VerifCachedWorkload(s.sc) == nil) != (cur < 0 || ranOwn) {
		return "violated stale-cleared"
	}
	if calls == 0 || cl == 0 {
		return fmt.Sprintf("inert calls=%d clears=%d", calls, cl)
	}
	if os.Getenv("C18_STRESS_STATS") != "" {
		fmt.Fprintf(os.Stderr, "stress: calls=%d clears=%d q=%d\n", calls, cl, s.q.len())
	}
	return "ok calls>0 clears>0"
}

func oracleStress(t []string) string {
	r := runStress(t)
	if strings.HasPrefix(r, "violated ") {
		f := strings.Fields(r)
		return "stress-" + f[1] + " " + strings.Join(f[2:], ",")
	}
	return ""
}
