package main

import (
	"bytes"
	"fmt"
	"os"
	"strconv"
	"strings"
	"sync"
	"sync/atomic"
	"time"

	"istio.io/istio/pkg/security"
	nacache "istio.io/istio/security/pkg/nodeagent/cache"
)

// Op `stress <N> <millis> <seed>` (stream conc): the schedules the property quantifies over, on the
// real client, without hooks: N goroutines call GenerateSecret (default and ROOTCA alternately) in a
// loop WHILE a goroutine runs the rotation tasks registerSecret pushed (the real closures, each once)
// and another one calls UpdateConfigTrustBundle with alternating bundles, for <millis> ms; the CA always
// signs (a few calls are slow).  Nothing about the interleaving is controlled; what must hold for
// EVERY interleaving is checked (these are the observables of the Lean invariants):
//
// Variants by seed: odd seeds let every 5th CA call fail (failing CA concurrent with timers and bundle
// updates); every 4th pushed task is run synchronously INSIDE PushDelayed (a zero-delay task on a fast
// queue); the CA alternates between two roots, so roots change under concurrency.
//
//	panic           no goroutine panics
//	pair-mismatch   every returned private key matches the leaf returned with it (pair_consistent)
//	root-not-ca     every returned / cached root is a CA certificate, ROOTCA answers are non-empty
//	finished-task-still-cached  a monitor samples (tasks that have returned, then the cache): a certificate whose
//	                own task has already returned is never cached (the task either cleared it or found it
//	                gone for good) - fails when a task runs before its certificate is stored
//	root-announce-count  `ROOTCA` callbacks = root changes in the sequence of successful CA responses + bundle
//	                updates (the comparison runs under generateMutex in CA-call order: exact)
//	rootca-content  every ROOTCA answer consists of CA roots the CA ever used plus anchors ever configured, and
//	                contains at least one CA root; the final answer contains the cached certificate's root and
//	                the configured anchors
//	single-flight-weak   successful CA calls <= `default` callbacks + 1.  Slack (a bundle update on an empty cache
//	                also calls back): a sanity bound only - what discriminates a second signing request without a
//	                clear in between is queue-stores (registerSecret skips the second store and pushes nothing)
//	queue-stores    at the end: queue length = successful CA calls (every response is stored and
//	                scheduled exactly once: register_never_skips, one_entry_per_store)
//	no-pending-task at the end: the cached certificate's own task has not been run
//	                (cached_cert_has_rotation_scheduled: the renewal of what is served is pending)
//	stale-cleared   at the end, after running every task that is left: the cache is empty iff the cached
//	                certificate's task was among them (a final sequential sanity step)
//
// Output `ok calls>0 clears>0` or `violated <clause> ...`; the model side prints the same constant
// line: the theorems say these observables hold on every schedule.
func runStress(t []string) string {
	if len(t) != 4 {
		return "bad-op"
	}
	n, e1 := strconv.Atoi(t[1])
	ms, e2 := strconv.Atoi(t[2])
	if e1 != nil || e2 != nil || n < 1 || n > 256 || ms < 1 || ms > 60000 {
		return "bad-op"
	}
	seed, _ := strconv.Atoi(t[3])
	// ratio and jitter bound vary with the seed: delays differ (0 .. whole lifetime), the observables do not
	s := newSUT([]float64{0.5, 0.75, 0.25, 1, 0}[seed%5], []float64{0, 0.5, 0.1}[seed%3], false)
	defer s.close()
	failing := seed%2 == 1
	s.ca.delay = 200 * time.Microsecond
	s.ca.script = func(i int) caOutcome {
		if failing && i%5 == 2 {
			return caOutcome{kind: "signerr", signer: 'A', bundle: "-"}
		}
		// roots alternate with every call; every 6th response publishes a bundle (GetRootCertBundle non-empty),
		// every 11th certificate is already expired when issued (TTL < 0)
		oc := caOutcome{kind: "ok", ttl: time.Hour, signer: byte('A' + i%2), bundle: "-"}
		if i%6 == 4 {
			oc.bundle = string([]byte{oc.signer, 'A' + byte((i+1)%2)})
		}
		if i%11 == 7 {
			oc.ttl = -time.Hour
		}
		return oc
	}
	twoUpdaters := seed%4 == 2 // two concurrent UpdateConfigTrustBundle callers (then bundle changes cannot be counted from outside)
	var syncRuns, slowPushes, rootAnswers, failedGens int64
	s.q.syncRun = func(idx int) bool {
		if idx%4 == 1 {
			atomic.AddInt64(&syncRuns, 1)
			return true
		}
		return false
	}
	// the first push and every 8th are slow: requests overlap the window between SetWorkload(&item) and SetRoot
	s.q.slowPush = func(idx int) time.Duration {
		if idx%8 == 0 {
			atomic.AddInt64(&slowPushes, 1)
			return 2 * time.Millisecond
		}
		return 0
	}
	var violation atomic.Value
	fail := func(v string) { violation.CompareAndSwap(nil, v) }
	stop := make(chan struct{})
	var wg sync.WaitGroup
	guard := func(name string, f func()) {
		wg.Add(1)
		go func() {
			defer wg.Done()
			defer func() {
				if e := recover(); e != nil {
					fail(fmt.Sprintf("panic %s:%v", name, e))
				}
			}()
			f()
		}()
	}
	var clears, rootEvents, rootNotInPlace int64 // `default` callbacks, `ROOTCA` callbacks, of those: announced value not stored
	var bundleMu sync.Mutex
	var bundleNow []byte // the bundle the (single) updater is storing, nil outside UpdateConfigTrustBundle
	inBundle := false
	s.sc.RegisterSecretHandler(func(name string) {
		switch name {
		case security.WorkloadKeyCertResourceName:
			atomic.AddInt64(&clears, 1)
		case security.RootCertReqResourceName:
			atomic.AddInt64(&rootEvents, 1)
			// R / r under concurrency: a GenerateSecret callback is made under generateMutex, so certRoot must be the
			// root of the latest successful CA response; a bundle callback comes from the only updater, so
			// configTrustBundle must be the bundle it is storing.  Which of the two this callback is cannot be told:
			// it is in place if either holds.
			bundleMu.Lock()
			okBundle := inBundle && bytes.Equal(nacache.VerifConfigTrustBundle(s.sc), bundleNow)
			bundleMu.Unlock()
			if !twoUpdaters && !okBundle && !s.rootAnnouncedInPlace() {
				atomic.AddInt64(&rootNotInPlace, 1)
			}
		}
	})
	var bundleChanges int64
	for g := 0; g < n; g++ {
		g := g
		guard("gen", func() {
			for k := 0; ; k++ {
				select {
				case <-stop:
					return
				default:
				}
				name := security.WorkloadKeyCertResourceName
				if (g+k)%3 == 0 {
					name = security.RootCertReqResourceName
				}
				low := 0
				if name == security.RootCertReqResourceName {
					low = s.lowCandidate()
				}
				it, err := s.sc.GenerateSecret(name)
				if err != nil && failing {
					atomic.AddInt64(&failedGens, 1)
					continue // a failed signing attempt is reported to the caller, the next call tries again
				}
				if err != nil || it == nil {
					fail("gen-error " + fmt.Sprint(err))
					return
				}
				if it.PrivateKey != nil && it.CertificateChain != nil {
					leaf := leafOf(it.CertificateChain)
					if leaf == nil || !bytes.Equal(leaf.RawSubjectPublicKeyInfo, pubOfKey(it.PrivateKey)) {
						fail("pair-mismatch")
					}
				}
				if name == security.WorkloadKeyCertResourceName && (it.PrivateKey == nil || it.CertificateChain == nil) {
					fail("no-pair")
				}
				if name == security.RootCertReqResourceName {
					atomic.AddInt64(&rootAnswers, 1)
					l := rootLetters(it.RootCert)
					if len(it.RootCert) == 0 || l == "-" || strings.Trim(l, "ABCD") != "" {
						fail("rootca-content " + l)
					}
					// the answer must contain the roots of a certificate that was cached during the call: the one
					// cached just before it, or one issued since (older ones can never be cached again)
					if !s.containsRootsOfSome(l, low) {
						fail(fmt.Sprintf("rootca-stale-root answer=%s first-candidate=%d", l, low))
					}
				}
				if nonCARoot(it.RootCert) {
					fail("root-not-ca")
				}
			}
		})
	}
	guard("fire", func() {
		next := 0
		for {
			select {
			case <-stop:
				return
			default:
			}
			s.q.mu.Lock()
			var e *qEntry
			for next < len(s.q.entries) && e == nil {
				if !s.q.entries[next].fired { // not one of those run inside PushDelayed
					e = s.q.entries[next]
					e.fired = true
				}
				next++
			}
			s.q.mu.Unlock()
			if e != nil {
				_ = e.task()
				s.q.mu.Lock()
				e.done = true
				s.q.mu.Unlock()
			}
			time.Sleep(time.Duration(100+(next%5)*150) * time.Microsecond)
		}
	})
	if twoUpdaters {
		guard("bundle2", func() {
			for k := 0; ; k++ {
				select {
				case <-stop:
					return
				default:
				}
				name := []string{"D", "-", "C", "C"}[k%4]
				var b []byte
				if name != "-" {
					b = []byte(strings.Join(bundlePEMs(name), ""))
				}
				_ = s.sc.UpdateConfigTrustBundle(b)
				time.Sleep(time.Duration(170+(k%3)*130) * time.Microsecond)
			}
		})
	}
	guard("bundle", func() {
		prevBundle := "-"
		for k := 0; ; k++ {
			select {
			case <-stop:
				return
			default:
			}
			// repeats ("skip for same trust bundle") and empty bundles included; single updater: it changes iff it
			// differs from the previous one
			name := []string{"C", "C", "-", "D", "CD", "CD", "-", "-", "D"}[k%9]
			var b []byte
			if name != "-" {
				b = []byte(strings.Join(bundlePEMs(name), ""))
			}
			if name != prevBundle {
				atomic.AddInt64(&bundleChanges, 1)
			}
			prevBundle = name
			bundleMu.Lock()
			bundleNow, inBundle = b, true
			bundleMu.Unlock()
			_ = s.sc.UpdateConfigTrustBundle(b)
			bundleMu.Lock()
			inBundle = false
			bundleMu.Unlock()
			time.Sleep(time.Duration(150+(k%4)*200) * time.Microsecond)
		}
	})
	guard("monitor", func() {
		for {
			select {
			case <-stop:
				return
			default:
			}
			// first the tasks that have returned, then the cache: a certificate cached NOW whose task had
			// ALREADY returned was never going to be renewed
			s.q.mu.Lock()
			done := make([]bool, len(s.q.entries))
			for i, e := range s.q.entries {
				done[i] = e.done
			}
			s.q.mu.Unlock()
			if w := nacache.VerifCachedWorkload(s.sc); w != nil {
				// the k-th successful CA response owns the k-th task
				if k := s.okIndex(certID(w.CertificateChain)); k >= 0 && k < len(done) && done[k] {
					fail(fmt.Sprintf("finished-task-still-cached task=%d", k))
					return
				}
			}
			time.Sleep(20 * time.Microsecond)
		}
	})
	time.Sleep(time.Duration(ms) * time.Millisecond)
	close(stop)
	wg.Wait()
	if v := violation.Load(); v != nil {
		return "violated " + v.(string)
	}
	// quiescent end state
	calls := 0 // successful CA calls
	wantR := int(atomic.LoadInt64(&bundleChanges))
	prevRoots := ""
	s.ca.mu.Lock()
	for _, r := range s.ca.recs {
		if r.out.kind == "ok" {
			calls++
			if r.roots != prevRoots {
				wantR++
			}
			prevRoots = r.roots
		}
	}
	s.ca.mu.Unlock()
	cl := int(atomic.LoadInt64(&clears))
	if calls > cl+1 {
		return fmt.Sprintf("violated single-flight-weak calls=%d clears=%d", calls, cl)
	}
	if got := int(atomic.LoadInt64(&rootEvents)); got != wantR && !twoUpdaters {
		return fmt.Sprintf("violated root-announce-count got=%d want=%d", got, wantR)
	}
	if n := atomic.LoadInt64(&rootNotInPlace); n != 0 {
		return fmt.Sprintf("violated announce-before-store callbacks=%d", n)
	}
	if s.q.len() != calls {
		return fmt.Sprintf("violated queue-stores q=%d calls=%d", s.q.len(), calls)
	}
	cur := -1
	if w := nacache.VerifCachedWorkload(s.sc); w != nil {
		cur = s.okIndex(certID(w.CertificateChain)) // the k-th successful call's certificate owns the k-th task
		if cur < 0 || cur >= s.q.len() || s.q.entries[cur].fired {
			return fmt.Sprintf("violated no-pending-task cached=%d q=%d", cur, s.q.len())
		}
		if nonCARoot(w.RootCert) {
			return "violated root-not-ca cached"
		}
	}
	ranOwn := false
	for i, e := range s.q.entries {
		if !e.fired {
			e.fired = true
			_ = e.task()
			ranOwn = ranOwn || i == cur
		}
	}
	if (nacache.VerifCachedWorkload(s.sc) == nil) != (cur < 0 || ranOwn) {
		return "violated stale-cleared"
	}
	// final ROOTCA answer: root of the cached certificate's response + configured anchors
	s.ca.script = func(int) caOutcome { return caOutcome{kind: "ok", ttl: time.Hour, signer: 'A', bundle: "-"} }
	if it, err := s.sc.GenerateSecret(security.RootCertReqResourceName); err != nil {
		return "violated gen-error final"
	} else if w := nacache.VerifCachedWorkload(s.sc); w != nil {
		got := rootLetters(it.RootCert)
		want := lettersOrDash(w.RootCert) + lettersOrDash(nacache.VerifConfigTrustBundle(s.sc))
		if !containsAll(got, strings.ReplaceAll(want, "-", "")) {
			return "violated rootca-content final " + got + " lacks " + want
		}
	}
	if calls == 0 || cl == 0 {
		return fmt.Sprintf("inert calls=%d clears=%d", calls, cl)
	}
	statf("stress goroutines=%d ms=%d ca-ok=%d ca-failed=%d clears=%d tasks-inside-push=%d slow-pushes=%d rootca-answers=%d failed-requests=%d root-callbacks=%d updaters=%d",
		n, ms, calls, s.ca.calls()-calls-1, cl, atomic.LoadInt64(&syncRuns), atomic.LoadInt64(&slowPushes), atomic.LoadInt64(&rootAnswers),
		atomic.LoadInt64(&failedGens), atomic.LoadInt64(&rootEvents), map[bool]int{false: 1, true: 2}[twoUpdaters])
	if os.Getenv("C18_STRESS_STATS") != "" {
		fmt.Fprintf(os.Stderr, "stress: calls=%d clears=%d q=%d\n", calls, cl, s.q.len())
	}
	return "ok calls>0 clears>0"
}

// lowCandidate: rank (among the successful CA responses) of the oldest certificate that can still be cached during a
// call that starts now: the one cached now, else the latest issued (it may be in flight between CA and store).
func (s *sut) lowCandidate() int {
	if w := nacache.VerifCachedWorkload(s.sc); w != nil {
		if k := s.okIndex(certID(w.CertificateChain)); k >= 0 {
			return k
		}
	}
	s.ca.mu.Lock()
	defer s.ca.mu.Unlock()
	k := -1
	for _, r := range s.ca.recs {
		if r.out.kind == "ok" {
			k++
		}
	}
	if k < 0 {
		return 0
	}
	return k
}

// containsRootsOfSome: the answer contains all roots of at least one successful response of rank >= low.
func (s *sut) containsRootsOfSome(answer string, low int) bool {
	s.ca.mu.Lock()
	defer s.ca.mu.Unlock()
	k := -1
	for _, r := range s.ca.recs {
		if r.out.kind != "ok" {
			continue
		}
		k++
		if k >= low && containsAll(answer, r.roots) {
			return true
		}
	}
	return false
}

// okIndex maps a CA call index (certificate serial - 1) to its rank among the successful calls.
func (s *sut) okIndex(call int) int {
	s.ca.mu.Lock()
	defer s.ca.mu.Unlock()
	if call < 0 || call >= len(s.ca.recs) || s.ca.recs[call].out.kind != "ok" {
		return -1
	}
	k := 0
	for i := 0; i < call; i++ {
		if s.ca.recs[i].out.kind == "ok" {
			k++
		}
	}
	return k
}

func oracleStress(t []string) string {
	r := runStress(t)
	if strings.HasPrefix(r, "violated ") {
		f := strings.Fields(r)
		return "stress-" + f[1] + " " + strings.Join(f[2:], ",")
	}
	return ""
}
