// Harness for C18: drives the real security/pkg/nodeagent/cache code (rotateTime through the verif
// hook, a real SecretManagerClient with a scripted fake CA), one operation per line.
//
//	c18 gen    <stream> <seed> <ncases> <ops-out>
//	c18 exec   <stream> <ops-in> <impl-out>
//	c18 oracle <stream> <ops-in> <verdict-out>
//
// Streams: rotate (rotation arithmetic), cache (sequential op scripts on SecretManagerClient),
// conc (N concurrent GenerateSecret calls against a slow fake CA), timer (real delayed queue).
// The Lean driver (lean/IstioModel/C18/Driver.lean) consumes the same ops.
package main

import (
	"fmt"
	"os"
	"path/filepath"
	"strconv"
	"sync"
	"time"

	_ "verifharness/internal/quiet"
)

// statsPath: side file of an exec run (<impl-out>.stats): what the uncontrolled concurrent ops actually exercised
// (CA calls, clears, tasks run inside PushDelayed, ...); read by the check for the evidence counters, never compared.
var (
	statsPath string
	statsMu   sync.Mutex
)

func statf(format string, a ...any) {
	if statsPath == "" {
		return
	}
	statsMu.Lock()
	defer statsMu.Unlock()
	f, err := os.OpenFile(statsPath, os.O_APPEND|os.O_CREATE|os.O_WRONLY, 0o644)
	if err != nil {
		return
	}
	defer f.Close()
	fmt.Fprintf(f, format+"\n", a...)
}

// cleanStaleTemp removes temp directories that an interrupted earlier run of this harness left behind (nothing under
// /tmp is needed between runs).
func cleanStaleTemp() {
	for _, pat := range []string{"c18sds*", "c18sdso*", "c18file*", "c18out*", "c18oc*", "c18tls*"} {
		m, _ := filepath.Glob(filepath.Join(os.TempDir(), pat))
		for _, d := range m {
			if fi, err := os.Stat(d); err == nil && time.Since(fi.ModTime()) > 20*time.Minute {
				_ = os.RemoveAll(d)
			}
		}
	}
}

func main() {
	if len(os.Args) < 5 {
		fmt.Fprintln(os.Stderr, "usage: c18 gen|exec|oracle <stream> ...")
		os.Exit(2)
	}
	stream := os.Args[2]
	cleanStaleTemp()
	if os.Args[1] == "exec" && len(os.Args) >= 5 {
		statsPath = os.Args[4] + ".stats"
		_ = os.Remove(statsPath)
	}
	switch os.Args[1] {
	case "gen":
		seed, _ := strconv.ParseUint(os.Args[3], 10, 64)
		n, _ := strconv.Atoi(os.Args[4])
		switch stream {
		case "rotate":
			genRotate(seed, n, os.Args[5])
		case "cache":
			genCache(seed, n, os.Args[5])
		case "conc":
			genConc(seed, n, os.Args[5])
		case "timer":
			genTimer(seed, n, os.Args[5])
		case "citadel":
			genCitadel(seed, n, os.Args[5])
		case "sds":
			genSds(seed, n, os.Args[5])
		case "file":
			genFile(seed, n, os.Args[5])
		default:
			os.Exit(2)
		}
	case "exec":
		switch stream {
		case "rotate":
			execRotate(os.Args[3], os.Args[4])
		case "cache", "conc", "citadel":
			execCache(os.Args[3], os.Args[4])
		case "timer":
			execTimer(os.Args[3], os.Args[4])
		case "sds":
			execSds(os.Args[3], os.Args[4])
		case "file":
			execFile(os.Args[3], os.Args[4])
		default:
			os.Exit(2)
		}
	case "oracle":
		switch stream {
		case "rotate":
			oracleRotate(os.Args[3], os.Args[4])
		case "cache", "conc", "citadel":
			oracleCache(os.Args[3], os.Args[4])
		case "timer":
			oracleTimer(os.Args[3], os.Args[4])
		case "sds":
			oracleSds(os.Args[3], os.Args[4])
		case "file":
			oracleFile(os.Args[3], os.Args[4])
		default:
			os.Exit(2)
		}
	default:
		os.Exit(2)
	}
}
