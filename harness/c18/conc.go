package main

import (
	"bytes"
	"fmt"
	"os"
	"sort"
	"strconv"
	"strings"
	"sync"
	"time"

	"istio.io/istio/pkg/security"
	nacache "istio.io/istio/security/pkg/nodeagent/cache"
	"verifharness/internal/wire"
)

// Stream `conc`: `conc <N> <kErr> <seed> <kinds>` - N goroutines call GenerateSecret at once (kinds:
// one letter w/r per goroutine) against a slow fake CA whose first kErr calls fail.  The observable
// (CA calls, failed callers, distinct keys, distinct certs) does not depend on the schedule (theorem
// single_flight), so it is compared with one interleaving of the model.

func genConc(seed uint64, n int, path string) {
	out := wire.Create(path)
	defer out.Close()
	root := wire.NewRng(seed*0x9e3779b9 + 181818)
	for i := 0; i < n; i++ {
		r := root.Fork()
		out.Line("case", strconv.Itoa(i), "conc")
		if i == 2 {
			// OutputKeyCertToDir: the deferred file writer of GenerateSecret under concurrency
			out.Line("outdir", "8", "500")
			continue
		}
		if i < 2 {
			// the central schedules of the quantifier: GenerateSecret || rotation tasks || bundle updates
			out.Line("stress", []string{"16", "8"}[i], []string{"1000", "700"}[i], strconv.FormatUint(r.Next()>>40, 10))
			continue
		}
		N := 2 + r.Intn(11)
		if r.Chance(1, 8) {
			N = 1
		}
		kErr := 0
		if r.Chance(1, 3) {
			kErr = 1 + r.Intn(3)
		}
		kinds := make([]byte, N)
		for k := range kinds {
			kinds[k] = 'w'
			if r.Chance(1, 4) {
				kinds[k] = 'r'
			}
		}
		out.Line("conc", strconv.Itoa(N), strconv.Itoa(kErr), strconv.FormatUint(r.Next()>>20, 10), string(kinds))
	}
}

type concResult struct {
	q                    int    // tasks pushed to the delayed queue
	ev, wl               string // callbacks (in order), cached certificate id
	calls, errs, okCalls int
	keys, certs          []int
	mismatch             bool
}

func caDelay() time.Duration {
	if os.Getenv("VERIF_TIER") == "thorough" {
		return 8 * time.Millisecond
	}
	return 3 * time.Millisecond
}

func runConc(t []string) (concResult, bool) {
	var res concResult
	if len(t) != 5 {
		return res, false
	}
	N, e1 := strconv.Atoi(t[1])
	kErr, e2 := strconv.Atoi(t[2])
	if e1 != nil || e2 != nil || N < 0 || N > 256 || len(t[4]) < N {
		return res, false
	}
	s := newSUT(0.5, 0, false)
	defer s.close()
	s.ca.delay = caDelay()
	s.ca.script = func(i int) caOutcome {
		if i < kErr {
			return caOutcome{kind: "signerr", signer: 'A', bundle: "-"}
		}
		return caOutcome{kind: "ok", ttl: time.Hour, signer: 'A', bundle: "-"}
	}
	items := make([]*security.SecretItem, N)
	errs := make([]error, N)
	ready := make(chan struct{})
	var wg sync.WaitGroup
	for g := 0; g < N; g++ {
		name := security.WorkloadKeyCertResourceName
		if t[4][g] == 'r' {
			name = security.RootCertReqResourceName
		}
		wg.Add(1)
		go func(g int, name string) {
			defer wg.Done()
			defer func() {
				if e := recover(); e != nil {
					errs[g] = fmt.Errorf("panic: %v", e)
				}
			}()
			<-ready
			items[g], errs[g] = s.sc.GenerateSecret(name)
		}(g, name)
	}
	close(ready)
	wg.Wait()
	res.calls = s.ca.calls()
	res.q = s.q.len()
	res.ev = s.takeEvents()
	res.wl = "-"
	if w := nacache.VerifCachedWorkload(s.sc); w != nil {
		res.wl = idTok(true, certID(w.CertificateChain))
	}
	for _, r := range s.ca.recs {
		if r.out.kind == "ok" {
			res.okCalls++
		}
	}
	ks, cs := map[int]bool{}, map[int]bool{}
	for g := 0; g < N; g++ {
		if errs[g] != nil || items[g] == nil {
			res.errs++
			continue
		}
		it := items[g]
		if it.PrivateKey != nil {
			ks[s.keyID(it.PrivateKey)] = true
		}
		if it.CertificateChain != nil {
			cs[certID(it.CertificateChain)] = true
		}
		if it.PrivateKey != nil && it.CertificateChain != nil {
			leaf := leafOf(it.CertificateChain)
			if leaf == nil || !bytes.Equal(leaf.RawSubjectPublicKeyInfo, pubOfKey(it.PrivateKey)) {
				res.mismatch = true
			}
		}
	}
	for k := range ks {
		res.keys = append(res.keys, k)
	}
	for c := range cs {
		res.certs = append(res.certs, c)
	}
	sort.Ints(res.keys)
	sort.Ints(res.certs)
	return res, true
}

func intsTok(l []int) string {
	if len(l) == 0 {
		return "-"
	}
	p := make([]string, len(l))
	for i, x := range l {
		p[i] = strconv.Itoa(x)
	}
	return strings.Join(p, ",")
}

func execConc(t []string) string {
	r, ok := runConc(t)
	if !ok {
		return "bad-op"
	}
	// all of it is schedule independent (single_flight_*, one store and one task per successful response)
	return fmt.Sprintf("calls=%d errs=%d keys=%s certs=%s q=%d ev=%s wl=%s", r.calls, r.errs, intsTok(r.keys), intsTok(r.certs),
		r.q, r.ev, r.wl)
}

// oracleConc states single-flight on the real run: at most one successful signing request, every
// successful caller holds the same, matching pair.
func oracleConc(t []string) string {
	r, ok := runConc(t)
	if !ok {
		return ""
	}
	switch {
	case r.okCalls > 1:
		return fmt.Sprintf("single-flight-calls ok-calls=%d", r.okCalls)
	case len(r.keys) > 1 || len(r.certs) > 1:
		return "single-flight-pairs keys=" + intsTok(r.keys) + ",certs=" + intsTok(r.certs)
	case r.mismatch:
		return "pair-mismatch"
	case r.q != r.okCalls:
		return fmt.Sprintf("renewal-count q=%d,ok-calls=%d", r.q, r.okCalls)
	}
	return ""
}
