package main

// Stream `rebuild`: the partial rebuild of the PushContext (model.PushContext.updateContext, with
// everything it keeps from the previous context: indexes AND memoized results) against a
// from-scratch build (createNewContext) - the hypothesis `RebuildOK` of ProtocolV2.lean, observed
// on the real code.
//
// One real FakeDiscoveryServer per case walks through a long history of changes drawn from the
// whole config grammar (Istio config, Kubernetes services / pods / endpoint slices, Gateway API).
// After every step, once the server is quiescent, the harness takes
//
//	ps1 = the server's global PushContext: produced by the REAL debounce -> Push -> initPushContext
//	      -> updateContext chain from the previous context and the real merged request, and
//	ps2 = model.NewPushContext().InitContext(env, nil, nil): built from scratch on the same
//	      environment,
//
// and generates CDS / EDS / LDS / RDS / NDS for fresh proxies (two sidecars, a router) with the real
// generators under both; every difference is a history dependence of the server state.  The
// generation under ps1 also plays the role of the connected proxies of a real istiod: it fills
// whatever the context memoizes, and the next step's partial rebuild inherits it.
//
//	case <n> rebuild <debounce-ms> <base world>
//	step create|update|delete <id> <variant>

import (
	"fmt"
	"sort"
	"strconv"
	"strings"
	"time"

	envoycore "github.com/envoyproxy/go-control-plane/envoy/config/core/v3"
	listener "github.com/envoyproxy/go-control-plane/envoy/config/listener/v3"
	discovery "github.com/envoyproxy/go-control-plane/envoy/service/discovery/v3"

	"istio.io/istio/pilot/pkg/model"
	"istio.io/istio/pilot/pkg/networking/core"
	"istio.io/istio/pilot/pkg/util/protoconv"
	"istio.io/istio/pilot/pkg/xds"
	v3 "istio.io/istio/pilot/pkg/xds/v3"
	"istio.io/istio/pilot/test/xdstest"
	"istio.io/istio/pkg/util/sets"
	"verifharness/internal/wire"
)

func rebuildProxy(d proxyDef) *model.Proxy {
	p := narrowProxy(d.Name)
	if d.Locality != "" {
		l := strings.Split(d.Locality, "/")
		p.Locality = &envoycore.Locality{Region: l[0], Zone: l[1]}
	}
	p.XdsNode = &envoycore.Node{Id: d.NodeID}
	p.IstioVersion = model.ParseIstioVersion(d.Meta.IstioVersion)
	p.WatchedResources = map[string]*model.WatchedResource{}
	return p
}

// generateAll: everything the real generators produce for the fixed proxies under push context ps
//
// cached = true: through a config generator and an EDS generator that share the SERVER's xDS cache
// (the one the connected clients' pushes fill and the server's ConfigUpdate / Push clear), with
// a request start time so that the cache accepts writes; cached = false: no cache at all.
func generateAll(st *site, ps *model.PushContext, cached bool) map[string]string {
	out := map[string]string{}
	env := st.s.Discovery.Env
	var cg core.ConfigGenerator = st.s.ConfigGen
	var edsCache model.XdsCache = model.DisabledCache{}
	start := time.Time{}
	if cached {
		cg, edsCache, start = core.NewConfigGenerator(st.s.Discovery.Cache), st.s.Discovery.Cache, time.Now()
	}
	put := func(proxy, typ string, rs []*discovery.Resource) {
		for _, r := range rs {
			n, t := canon(r.Resource)
			if n == "-" || n == "?" {
				n = r.Name
			}
			out[proxy+"/"+typ+"/"+n] = t
		}
	}
	for _, d := range proxyDefs {
		p := rebuildProxy(d)
		p.SetSidecarScope(ps)
		p.SetServiceTargets(env.ServiceDiscovery)
		p.SetGatewaysForProxy(ps)
		p.DiscoverIPMode()
		p.LastPushContext = ps
		req := &model.PushRequest{Push: ps, Forced: true, Reason: model.NewReasonStats(model.ConfigUpdate), Start: start}
		clusters, _ := cg.BuildClusters(p, req)
		put(d.Name, "CDS", clusters)
		ls := cg.BuildListeners(p, ps)
		var lrs []*discovery.Resource
		for _, l := range ls {
			lrs = append(lrs, &discovery.Resource{Name: l.Name, Resource: protoconv.MessageToAny(l)})
		}
		put(d.Name, "LDS", lrs)
		routeNames := xdstest.ExtractRoutesFromListeners(ls)
		if len(routeNames) > 0 {
			routes, _ := cg.BuildHTTPRoutes(p, req, routeNames)
			put(d.Name, "RDS", routes)
		}
		var edsNames []string
		for _, c := range clusters {
			edsNames = append(edsNames, c.Name)
		}
		eg := &xds.EdsGenerator{Cache: edsCache, EndpointIndex: env.EndpointIndex}
		eds, _, _ := eg.Generate(p, &model.WatchedResource{TypeUrl: v3.EndpointType, ResourceNames: sets.New(edsNames...)}, req)
		put(d.Name, "EDS", eds)
		if nt := cg.BuildNameTable(p, ps); nt != nil && d.Name != "router" {
			put(d.Name, "NDS", []*discovery.Resource{{Name: "nametable", Resource: protoconv.MessageToAny(nt)}})
		}
	}
	return out
}

var _ = listener.Listener{}

func runRebuildCase(c caseDef) caseResult {
	st := newSite(c.Base, c.Debounce, false)
	defer st.close()
	w := c.Base.clone()
	// connected clients: their pushes fill the server's xDS cache as in a real istiod
	st.clients = st.connectAll()
	none := []*clientSet{st.clients}
	if !st.quiesce(none, calmTime, settleTime) {
		return caseResult{Verdict: "FAIL no-quiescence initial"}
	}
	env := st.s.Discovery.Env
	// recorded finding 7 (see converge.go): its trigger is followed through the walk; the differences it explains are
	// set aside and reported at the end of the walk (as that finding) unless something else fails first
	dnsZeroed := dnsZeroTracker{}
	var known []string
	knownAfter := 0
	// recorded finding 8 (see converge.go): active from a step that creates / deletes the Service exported to nobody
	// while a provider backed by it is in use, until the Service changes again
	nobody := &nobodyTracker{}
	compare := func(after int) *caseResult {
		attempt := func() []string {
			ps1 := env.PushContext()
			ps2 := model.NewPushContext()
			ps2.InitContext(env, nil, nil)
			a, b := generateAll(st, ps1, false), generateAll(st, ps2, false)
			diff := func(a, b map[string]string, tag string) []string {
				var bad []string
				for k, v := range a {
					if bv, ok := b[k]; !ok {
						bad = append(bad, k+":extra"+tag)
					} else if bv != v {
						if f := strings.SplitN(k, "/", 3); nobody.stale && usesKsvcProvider(w) && len(f) == 3 && f[1] == "LDS" &&
							stripMentions(v, nobodyProviderHost) == stripMentions(bv, nobodyProviderHost) {
							if len(known) < 6 {
								known, knownAfter = append(known, k+":"+kindProviderNobody), after
							}
							continue
						}
						bad = append(bad, k+":stale"+tag+" "+firstDifference(v, bv))
					}
				}
				for k := range b {
					if _, ok := a[k]; !ok {
						bad = append(bad, k+":missing"+tag)
					}
				}
				sort.Strings(bad)
				return bad
			}
			// differences explained by recorded finding 7 are set aside
			setAside := func(bad []string) []string {
				var rest []string
				for _, x := range bad {
					k := strings.SplitN(x, " ", 2)[0] // proxy/type/name:kind
					f := strings.SplitN(k, "/", 3)
					if i := strings.LastIndex(k, ":"); len(f) == 3 && i > 0 && dnsZeroed.matches(f[1], f[2][:strings.LastIndex(f[2], ":")], k[i+1:]) {
						if len(known) < 6 {
							known, knownAfter = append(known, k[:i]+":"+kindDNSLastWorkload), after
						}
						continue
					}
					rest = append(rest, x)
				}
				return rest
			}
			bad := setAside(diff(a, b, ""))
			if len(bad) == 0 {
				// the same once more through the server's xDS cache (read AND written here, and by the connected clients'
				// pushes): an entry that an earlier step left behind and no Clear removed shows as a difference
				bad = setAside(diff(generateAll(st, ps1, true), b, "-cached"))
			}
			return bad
		}
		bad := attempt()
		// a difference must persist in a quiescent server
		deadline := time.Now().Add(patience)
		for len(bad) > 0 && time.Now().Before(deadline) {
			time.Sleep(100 * time.Millisecond)
			if !st.quiesce(none, calmTime, settleTime) {
				return &caseResult{Verdict: fmt.Sprintf("FAIL no-quiescence step=%d", after)}
			}
			bad = attempt()
		}
		if len(bad) == 0 {
			return nil
		}
		var toks, detail []string
		for i, x := range bad {
			f := strings.SplitN(x, " ", 2)
			if i < 6 {
				toks = append(toks, wire.Enc(f[0]))
			}
			if i < 3 {
				detail = append(detail, x)
			}
		}
		clause := "rebuild-ne-build"
		if strings.Contains(strings.SplitN(bad[0], " ", 2)[0], "-cached") {
			clause = "cached-ne-build"
		}
		return &caseResult{Verdict: fmt.Sprintf("FAIL %s %s after-step=%d n=%d world=%s", clause, strings.Join(toks, ","), after, len(bad), w.tok()),
			Detail: detail}
	}
	if r := compare(0); r != nil {
		return *r
	}
	for i, s := range c.Steps {
		if s.Burst > 0 {
			continue
		}
		if err := st.apply(s.Op, s.ID, s.Variant, w); err != nil {
			return caseResult{Verdict: fmt.Sprintf("FAIL apply-error step=%d %s", i+1, wire.Enc(err.Error()))}
		}
		dnsZeroed.step(s, w)
		nobody.step(s, w)
		if s.Op == "delete" {
			delete(w, s.ID)
		} else {
			w[s.ID] = s.Variant
		}
		if !st.quiesce(none, calmTime, settleTime) {
			return caseResult{Verdict: fmt.Sprintf("FAIL no-quiescence step=%d", i+1)}
		}
		if r := compare(i + 1); r != nil {
			return *r
		}
	}
	if len(known) > 0 {
		var toks []string
		for _, k := range known {
			toks = append(toks, wire.Enc(k))
		}
		return caseResult{Verdict: fmt.Sprintf("FAIL rebuild-ne-build %s after-step=%d n=%d world=%s", strings.Join(toks, ","), knownAfter, len(known), w.tok())}
	}
	return caseResult{Verdict: fmt.Sprintf("OK steps=%d", len(c.Steps))}
}

func genRebuild(seed uint64, n int, out string) {
	r := wire.NewRng(seed*15485863 + 11)
	o := wire.Create(out)
	defer o.Close()
	type obj struct {
		id string
		n  int
	}
	var objs []obj
	for _, d := range universe {
		objs = append(objs, obj{d.ID, len(d.Variants)})
	}
	for _, d := range kubeUniverse {
		objs = append(objs, obj{d.ID, len(d.Variants)})
	}
	for _, d := range gwapiUniverse {
		objs = append(objs, obj{d.ID, len(d.Variants)})
	}
	for _, x := range pseudoObjs {
		objs = append(objs, obj{x.id, x.n})
	}
	// n = total number of steps, spread over walks of at most 60 steps (a replay stays short)
	walk := 0
	for left := n; left > 0; walk++ {
		cr := r.Fork()
		steps := 60
		if left < steps {
			steps = left
		}
		left -= steps
		w := world{}
		for _, x := range objs {
			if cr.Chance(1, 2) {
				w[x.id] = cr.Intn(x.n)
			}
		}
		o.Line("case", strconv.Itoa(walk), "rebuild", "10", w.tok())
		for i := 0; i < steps; i++ {
			x := wire.Pick(cr, objs)
			if v, ok := w[x.id]; ok {
				if cr.Chance(1, 3) || x.n == 1 {
					o.Line("step", "delete", x.id, "0")
					delete(w, x.id)
				} else {
					nv := (v + 1 + cr.Intn(x.n-1)) % x.n
					o.Line("step", "update", x.id, strconv.Itoa(nv))
					w[x.id] = nv
				}
			} else {
				nv := cr.Intn(x.n)
				o.Line("step", "create", x.id, strconv.Itoa(nv))
				w[x.id] = nv
			}
		}
	}
}

func oracleRebuild(in, out string) {
	cases := parseCases(wire.ReadLines(in))
	o := wire.Create(out)
	defer o.Close()
	for _, c := range cases {
		res := func() (res caseResult) {
			defer func() {
				if r := recover(); r != nil {
					res = caseResult{Verdict: "FAIL harness-panic " + wire.Enc(fmt.Sprint(r))}
				}
			}()
			return runRebuildCase(c)
		}()
		line := res.Verdict
		for _, d := range res.Detail {
			line += " || " + strings.ReplaceAll(d, "\n", " ")
		}
		o.Line(line)
		o.Flush()
	}
}
