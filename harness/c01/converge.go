package main

// Stream `converge`: frame-hypothesis validation on the REAL generators - the statement of C01
// itself. A FakeDiscoveryServer (pilot/test/xds) is started on a base mesh drawn from the config
// grammar; long-lived ADS clients (an in-process Envoy-like SotW client per proxy) connect; a
// history of create/update/delete changes is applied through the real config store; after each
// step the harness waits for quiescence (debouncer committed, push queue empty, nothing in flight,
// clients idle) and compares, per xDS type, what every long-lived client holds with
//
//	fresh : what a freshly connected client of the same proxy gets from the same server, and (at the
//	        end of the history)
//	cold  : what a client gets from a second server cold-started on the final config.
//
//	case <n> converge <debounce-ms> <base world>
//	step create|update|delete <id> <variant>      apply and wait for quiescence, then compare with fresh clients
//	burst <k>                                     the next k steps are applied back to back (no wait in between)
//
// Verdict per case: OK | FAIL <clause> <proxy>/<type>/<resource> after-step=<i> ...

import (
	"context"
	"crypto/sha1"
	"encoding/hex"
	"encoding/json"
	"fmt"
	"io"
	"net"
	"os"
	"regexp"
	"sort"
	"strconv"
	"strings"
	"sync"
	"sync/atomic"
	"time"

	cluster "github.com/envoyproxy/go-control-plane/envoy/config/cluster/v3"
	envoycore "github.com/envoyproxy/go-control-plane/envoy/config/core/v3"
	endpoint "github.com/envoyproxy/go-control-plane/envoy/config/endpoint/v3"
	listener "github.com/envoyproxy/go-control-plane/envoy/config/listener/v3"
	route "github.com/envoyproxy/go-control-plane/envoy/config/route/v3"
	envoytls "github.com/envoyproxy/go-control-plane/envoy/extensions/transport_sockets/tls/v3"
	discovery "github.com/envoyproxy/go-control-plane/envoy/service/discovery/v3"
	"google.golang.org/grpc/credentials"
	"google.golang.org/grpc/metadata"
	"google.golang.org/grpc/peer"
	"google.golang.org/protobuf/encoding/protojson"
	"google.golang.org/protobuf/proto"
	"google.golang.org/protobuf/types/known/anypb"

	"istio.io/istio/pilot/pkg/config/kube/crd"
	"istio.io/istio/pilot/pkg/model"
	"istio.io/istio/pilot/pkg/xds"
	xdsfake "istio.io/istio/pilot/test/xds"
	"istio.io/istio/pilot/test/xdstest"
	"istio.io/istio/pkg/config"
	"istio.io/istio/pkg/config/schema/kind"
	"istio.io/istio/pkg/security"
	"verifharness/internal/quiet"
	"verifharness/internal/wire"
)

// ---------------------------------------------------------------- the proxies

type proxyDef struct {
	Name     string
	Locality string // region/zone
	NodeID   string
	Meta     *model.NodeMetadata
	Types    []string // subscribed xDS types (short names)
}

var proxyDefs = []proxyDef{
	{
		Name: "sidecar-a", Locality: "region1/zone1",
		NodeID: "sidecar~10.20.0.1~app-a.ns1~ns1.svc.cluster.local",
		Meta: &model.NodeMetadata{Namespace: "ns1", Labels: map[string]string{"app": "a", "version": "v1"}, ClusterID: "Kubernetes",
			IstioVersion: "1.32.0", ServiceAccount: "a"},
		Types: []string{"CDS", "EDS", "LDS", "RDS", "NDS", "ECDS"},
	},
	{
		Name: "sidecar-b", Locality: "region1/zone1",
		NodeID: "sidecar~10.21.0.1~app-b.ns2~ns2.svc.cluster.local",
		// sidecar-b is on network net1: endpoints of another network reach it through that network's gateway
		Meta: &model.NodeMetadata{Namespace: "ns2", Labels: map[string]string{"app": "b"}, ClusterID: "Kubernetes",
			IstioVersion: "1.32.0", ServiceAccount: "b", Network: "net1"},
		Types: []string{"CDS", "EDS", "LDS", "RDS", "NDS"},
	},
	{
		Name: "router", Locality: "region2/zone1",
		NodeID: "router~10.2.0.1~gw.istio-system~istio-system.svc.cluster.local",
		Meta: &model.NodeMetadata{Namespace: "istio-system", Labels: map[string]string{"istio": "ingressgateway"}, ClusterID: "Kubernetes",
			IstioVersion: "1.32.0", ServiceAccount: "gw"},
		Types: []string{"CDS", "EDS", "LDS", "RDS", "ECDS", "SDS"},
	},
}

// ---------------------------------------------------------------- the in-process Envoy-like client

// client implements xds.DiscoveryStream (the server side of an ADS stream) directly: the server's
// Send runs the client's response handling synchronously, so that "the server finished pushing"
// implies "the client has applied it".
type client struct {
	delay   time.Duration // see Send
	def     proxyDef
	ctx     context.Context
	cancel  context.CancelFunc
	reqs    chan *discovery.DiscoveryRequest
	mu      sync.Mutex
	held    map[string]map[string]string // type -> resource name -> hash
	text    map[string]map[string]string // type -> resource name -> canonical JSON (for reports)
	subs    map[string][]string          // EDS / RDS subscriptions
	nonce   map[string]string
	version map[string]string
	resps   map[string]int
	last    atomic.Int64 // unix nanos of the last send/recv activity
	queued  atomic.Int64 // requests handed to the server minus requests it has read
	done    chan struct{}
	nodeSet bool
	errs    []string
}

func newClient(def proxyDef) *client {
	// a TLS peer whose certificate identity is the proxy's own service account (ctxAuthenticator): the server sets
	// Proxy.VerifiedIdentity, which the SDS generator requires
	base := peer.NewContext(context.Background(), &peer.Peer{Addr: &net.TCPAddr{IP: net.IPv4(127, 0, 0, 1), Port: 15012},
		AuthInfo: credentials.TLSInfo{}})
	if def.Meta != nil && def.Meta.ServiceAccount != "" {
		base = context.WithValue(base, identityKey{}, "spiffe://cluster.local/ns/"+def.Meta.Namespace+"/sa/"+def.Meta.ServiceAccount)
	}
	ctx, cancel := context.WithCancel(base)
	c := &client{def: def, ctx: ctx, cancel: cancel, reqs: make(chan *discovery.DiscoveryRequest, 4096),
		held: map[string]map[string]string{}, text: map[string]map[string]string{}, subs: map[string][]string{},
		nonce: map[string]string{}, version: map[string]string{}, resps: map[string]int{}, done: make(chan struct{})}
	c.touch()
	return c
}

func (c *client) touch() { c.last.Store(time.Now().UnixNano()) }

func (c *client) SetHeader(metadata.MD) error  { return nil }
func (c *client) SendHeader(metadata.MD) error { return nil }
func (c *client) SetTrailer(metadata.MD)       {}
func (c *client) Context() context.Context     { return c.ctx }
func (c *client) SendMsg(any) error            { return nil }
func (c *client) RecvMsg(any) error            { return nil }

func (c *client) Recv() (*discovery.DiscoveryRequest, error) {
	select {
	case r := <-c.reqs:
		c.queued.Add(-1)
		c.touch()
		return r, nil
	case <-c.ctx.Done():
		return nil, io.EOF
	}
}

func (c *client) request(typ string, names []string) {
	l := longType(typ)
	r := &discovery.DiscoveryRequest{TypeUrl: l, ResourceNames: names, ResponseNonce: c.nonce[typ], VersionInfo: c.version[typ]}
	if !c.nodeSet {
		r.Node = &envoycore.Node{Id: c.def.NodeID, Metadata: c.def.Meta.ToStruct()}
		if c.def.Locality != "" {
			l := strings.Split(c.def.Locality, "/")
			r.Node.Locality = &envoycore.Locality{Region: l[0], Zone: l[1]}
		}
		c.nodeSet = true
	}
	c.queued.Add(1)
	c.touch()
	c.reqs <- r
}

func canon(a *anypb.Any) (name string, text string) {
	m, err := a.UnmarshalNew()
	if err != nil {
		return "?", "unmarshal-error:" + err.Error()
	}
	switch x := m.(type) {
	case *cluster.Cluster:
		name = x.Name
	case *listener.Listener:
		name = x.Name
	case *endpoint.ClusterLoadAssignment:
		name = x.ClusterName
	case *route.RouteConfiguration:
		name = x.Name
	case *envoycore.TypedExtensionConfig: // ECDS
		name = x.Name
	case *envoytls.Secret: // SDS
		name = x.Name
	default:
		name = "-"
	}
	if cla, ok := m.(*endpoint.ClusterLoadAssignment); ok {
		// EDS is compared as a MULTISET per locality group: the order of the groups and of the endpoints inside a group
		// is C17's subject, not history dependence of the content
		cla = proto.Clone(cla).(*endpoint.ClusterLoadAssignment)
		for _, g := range cla.Endpoints {
			sort.SliceStable(g.LbEndpoints, func(i, j int) bool { return lbKey(g.LbEndpoints[i]) < lbKey(g.LbEndpoints[j]) })
		}
		sort.SliceStable(cla.Endpoints, func(i, j int) bool { return groupKey(cla.Endpoints[i]) < groupKey(cla.Endpoints[j]) })
		m = cla
	}
	b, err := protojson.MarshalOptions{Multiline: false}.Marshal(m)
	if err != nil {
		// a nested Any of an unregistered type: fall back to deterministic binary
		bb, _ := proto.MarshalOptions{Deterministic: true}.Marshal(m)
		return name, "bin:" + hex.EncodeToString(bb)
	}
	// protojson deliberately randomises whitespace; strip it outside strings
	text = stripSpace(string(b))
	if _, ok := m.(*envoycore.TypedExtensionConfig); ok {
		// the store's resource version of the WasmPlugin (a wall-clock time in the in-memory store): not configuration
		text = wasmResourceVersion.ReplaceAllString(text, `"ISTIO_META_WASM_PLUGIN_RESOURCE_VERSION":"-"`)
	}
	return name, text
}

var wasmResourceVersion = regexp.MustCompile(`"ISTIO_META_WASM_PLUGIN_RESOURCE_VERSION":"[^"]*"`)

func lbKey(e *endpoint.LbEndpoint) string {
	b, _ := proto.MarshalOptions{Deterministic: true}.Marshal(e)
	return string(b)
}

func groupKey(g *endpoint.LocalityLbEndpoints) string {
	l := g.GetLocality()
	k := fmt.Sprintf("%s/%s/%s|%d|", l.GetRegion(), l.GetZone(), l.GetSubZone(), g.GetPriority())
	for _, e := range g.LbEndpoints {
		k += lbKey(e) + ";"
	}
	return k
}

func stripSpace(s string) string {
	var b strings.Builder
	in, esc := false, false
	for i := 0; i < len(s); i++ {
		ch := s[i]
		if in {
			b.WriteByte(ch)
			if esc {
				esc = false
			} else if ch == '\\' {
				esc = true
			} else if ch == '"' {
				in = false
			}
			continue
		}
		if ch == ' ' || ch == '\n' || ch == '\t' {
			continue
		}
		if ch == '"' {
			in = true
		}
		b.WriteByte(ch)
	}
	return b.String()
}

func hashOf(s string) string { h := sha1.Sum([]byte(s)); return hex.EncodeToString(h[:8]) }

// Send is called by the server: apply the response like Envoy does (SotW), ACK, and follow up with
// the EDS / RDS subscriptions implied by the new clusters / listeners.
func (c *client) Send(resp *discovery.DiscoveryResponse) error {
	if c.delay > 0 {
		// a slow receiver: the push of this connection stays IN FLIGHT, later requests merge in the push queue
		c.touch()
		time.Sleep(c.delay)
	}
	c.mu.Lock()
	defer c.mu.Unlock()
	c.touch()
	typ := shortType(resp.TypeUrl)
	c.resps[typ]++
	c.nonce[typ] = resp.Nonce
	c.version[typ] = resp.VersionInfo
	names := map[string]string{}
	texts := map[string]string{}
	for _, r := range resp.Resources {
		n, t := canon(r)
		names[n] = hashOf(t)
		texts[n] = t
	}
	switch typ {
	case "CDS", "LDS", "NDS", "PCDS":
		// state of the world for a wildcard subscription: the response is the whole set
		c.held[typ], c.text[typ] = names, texts
	default:
		// EDS / RDS: named subscriptions; a response updates the resources it carries
		if c.held[typ] == nil {
			c.held[typ], c.text[typ] = map[string]string{}, map[string]string{}
		}
		// (like Envoy, resources nobody watches any more are ignored)
		want := map[string]bool{}
		for _, n := range c.subs[typ] {
			want[n] = true
		}
		for n, h := range names {
			if want[n] {
				c.held[typ][n] = h
				c.text[typ][n] = texts[n]
			}
		}
	}
	// ACK
	switch typ {
	case "CDS", "LDS", "NDS", "PCDS":
		c.request(typ, nil)
	default:
		c.request(typ, c.subs[typ])
	}
	// follow-up subscriptions
	switch typ {
	case "CDS":
		var cs []*cluster.Cluster
		for _, r := range resp.Resources {
			if x := xdstest.SilentlyUnmarshalAny[cluster.Cluster](r); x != nil {
				cs = append(cs, x)
			}
		}
		c.resubscribe("EDS", xdstest.ExtractEdsClusterNames(cs))
	case "LDS":
		var ls []*listener.Listener
		for _, r := range resp.Resources {
			if x := xdstest.SilentlyUnmarshalAny[listener.Listener](r); x != nil {
				ls = append(ls, x)
			}
		}
		c.resubscribe("RDS", xdstest.ExtractRoutesFromListeners(ls))
		// extension configurations the listeners refer to (WasmPlugin filters): ECDS, a named subscription
		var ecds []string
		for _, t := range texts {
			for _, m := range ecdsRef.FindAllStringSubmatch(t, -1) {
				ecds = append(ecds, m[1])
			}
		}
		c.resubscribe("ECDS", ecds)
		// credentials the listeners fetch by SDS from istiod (kubernetes://<secret>)
		var sds []string
		for _, t := range texts {
			for _, m := range sdsRef.FindAllStringSubmatch(t, -1) {
				sds = append(sds, m[1])
			}
		}
		c.resubscribe("SDS", sds)
	}
	return nil
}

var sdsRef = regexp.MustCompile(`"name":"(kubernetes://[^"]+)"`)

// a filter whose configuration comes by ECDS: {"name":"<resource>","configDiscovery":{...}}
var ecdsRef = regexp.MustCompile(`"name":"([^"]+)","configDiscovery"`)

// resubscribe: when the set of names changed, drop what is no longer wanted and send a new request.
func (c *client) resubscribe(typ string, names []string) {
	names = dedup(sorted(names))
	if !c.subscribed(typ) {
		return
	}
	if strings.Join(names, ",") == strings.Join(c.subs[typ], ",") && c.resps[typ] > 0 {
		return
	}
	if len(names) == 0 && len(c.subs[typ]) == 0 {
		return
	}
	c.subs[typ] = names
	want := map[string]bool{}
	for _, n := range names {
		want[n] = true
	}
	for n := range c.held[typ] {
		if !want[n] {
			delete(c.held[typ], n)
			delete(c.text[typ], n)
		}
	}
	c.request(typ, names)
}

func (c *client) subscribed(typ string) bool {
	for _, t := range c.def.Types {
		if t == typ {
			return true
		}
	}
	return false
}

func sorted(xs []string) []string {
	o := append([]string(nil), xs...)
	sort.Strings(o)
	return o
}

func (c *client) start(s *xdsfake.FakeDiscoveryServer) {
	go func() {
		defer close(c.done)
		defer func() {
			if r := recover(); r != nil {
				c.mu.Lock()
				c.errs = append(c.errs, fmt.Sprint("panic: ", r))
				c.mu.Unlock()
			}
		}()
		if err := s.Discovery.Stream(c); err != nil {
			c.mu.Lock()
			c.errs = append(c.errs, err.Error())
			c.mu.Unlock()
		}
	}()
	c.mu.Lock()
	for _, t := range []string{"CDS", "LDS", "NDS", "PCDS"} {
		if c.subscribed(t) {
			c.request(t, nil)
		}
	}
	c.mu.Unlock()
}

func (c *client) stop() {
	c.cancel()
	select {
	case <-c.done:
	case <-time.After(2 * time.Second):
	}
}

// synced: the initial exchange is complete (CDS and LDS answered, EDS / RDS answered when subscribed).
func (c *client) synced() bool {
	c.mu.Lock()
	defer c.mu.Unlock()
	for _, t := range []string{"CDS", "LDS"} {
		if c.subscribed(t) && c.resps[t] == 0 {
			return false
		}
	}
	for _, t := range []string{"EDS", "RDS"} {
		if c.subscribed(t) && len(c.subs[t]) > 0 && c.resps[t] == 0 {
			return false
		}
	}
	return true
}

// snapshot copies what the client holds: type -> name -> hash.
func (c *client) snapshot() (map[string]map[string]string, map[string]map[string]string) {
	c.mu.Lock()
	defer c.mu.Unlock()
	h, t := map[string]map[string]string{}, map[string]map[string]string{}
	for typ, m := range c.held {
		h[typ], t[typ] = map[string]string{}, map[string]string{}
		for n, v := range m {
			h[typ][n] = v
			t[typ][n] = c.text[typ][n]
		}
	}
	return h, t
}

// ---------------------------------------------------------------- one server with its clients

type site struct {
	f       *failer
	s       *xdsfake.FakeDiscoveryServer
	ambient bool
	clients *clientSet
}

// clientSet: the SotW clients (sidecars, router, in ambient cases the waypoint) and, in ambient
// cases, the ztunnel-like delta client.
type clientSet struct {
	sotw  []*client
	delta *deltaClient
}

func (cs *clientSet) stop() {
	if cs == nil {
		return
	}
	for _, c := range cs.sotw {
		c.stop()
	}
	if cs.delta != nil {
		cs.delta.stop()
	}
}

// views: everything comparable, in a fixed order
func (cs *clientSet) views() []*client {
	out := append([]*client{}, cs.sotw...)
	if cs.delta != nil {
		out = append(out, cs.delta.snapshotAs())
	}
	return out
}

func newSite(w world, debounce time.Duration, ambient bool) *site {
	f := &failer{}
	cfgs := w.configs()
	objs := append(kubeObjects(w), gwapiObjects(w)...)
	if ambient {
		infra, _, err := crd.ParseInputs(ambientInfraConfig)
		if err != nil {
			panic(err)
		}
		cfgs = append(cfgs, infra...)
		objs = append(objs, ambientKubeObjects(w)...)
	}
	objs = append(objs, secretObjects(w)...)
	objs = append(objs, ingressObjects(w)...)
	s := xdsfake.NewFakeDiscoveryServer(f, xdsfake.FakeOptions{Configs: cfgs, KubernetesObjects: objs,
		MeshConfig: meshFor(w), DebounceTime: debounce, DisableSecretAuthorization: true})
	s.Discovery.Authenticators = []security.Authenticator{ctxAuthenticator{}}
	quiet.Silence()
	return &site{f: f, s: s, ambient: ambient}
}

func (st *site) connectAll() *clientSet { return st.connectAllSlow(0) }

// connectAllSlow: clients whose Send takes `delay` (long-lived clients of histories with the `slow=` flag)
func (st *site) connectAllSlow(delay time.Duration) *clientSet {
	cs := &clientSet{}
	defs := proxyDefs
	if st.ambient {
		defs = append(append([]proxyDef{}, proxyDefs...), waypointProxy)
	}
	for _, d := range defs {
		c := newClient(d)
		c.delay = delay
		c.start(st.s)
		cs.sotw = append(cs.sotw, c)
	}
	if st.ambient {
		cs.delta = newDeltaClient()
		cs.delta.start(st.s)
	}
	return cs
}

func (st *site) close() {
	st.clients.stop()
	st.f.done()
}

// idle: nothing is pending anywhere between a config change and the clients.
func (st *site) idle(sets []*clientSet) bool {
	d := st.s.Discovery
	if d.InboundUpdates.Load() != d.CommittedUpdates.Load() {
		return false
	}
	if xds.VerifC01PushChannelLen(d) != 0 {
		return false
	}
	if p, q := xds.VerifC01QueueCounts(d); p != 0 || q != 0 {
		return false
	}
	for _, cs := range sets {
		for _, c := range cs.sotw {
			if c.queued.Load() != 0 {
				return false
			}
		}
		if cs.delta != nil && cs.delta.queued.Load() != 0 {
			return false
		}
	}
	return true
}

// quiesce waits until the site has been idle, with no client activity, for `calm`; it gives up
// after `limit` (returns false).
func (st *site) quiesce(sets []*clientSet, calm, limit time.Duration) bool {
	if st.ambient {
		calm *= 2 // the ambient index is a longer chain of asynchronous collections
	}
	deadline := time.Now().Add(limit)
	var since time.Time
	for time.Now().Before(deadline) {
		now := time.Now()
		ok := st.idle(sets)
		if ok {
			for _, cs := range sets {
				for _, c := range cs.sotw {
					if !c.synced() {
						ok = false
					}
					if now.UnixNano()-c.last.Load() < int64(calm) {
						ok = false
					}
				}
				if cs.delta != nil && (!cs.delta.synced() || now.UnixNano()-cs.delta.last.Load() < int64(calm)) {
					ok = false
				}
			}
		}
		if ok {
			if since.IsZero() {
				since = now
			}
			if now.Sub(since) >= calm {
				return true
			}
		} else {
			since = time.Time{}
		}
		time.Sleep(2 * time.Millisecond)
	}
	return false
}

func (st *site) apply(op string, id string, variant int, cur world) error {
	if isMesh(id) {
		return st.applyMesh(op, variant, cur)
	}
	if isSecret(id) {
		return st.applySecret(op, variant)
	}
	if isIngress(id) {
		return st.applyIngress(op, variant)
	}
	if isKube(id) {
		return applyKube(st.s.KubeClient(), op, id, variant, cur)
	}
	if isGwapi(id) {
		return applyGwapi(st.s.KubeClient(), op, id, variant)
	}
	if st.ambient {
		if err := mirrorApply(st.s.KubeClient(), op, id, variant); err != nil {
			return err
		}
	}
	store := st.s.Store()
	switch op {
	case "create":
		_, err := store.Create(render(id, variant))
		return err
	case "update":
		c := render(id, variant)
		if old := store.Get(c.GroupVersionKind, c.Name, c.Namespace); old != nil {
			c.ResourceVersion = old.ResourceVersion
		}
		_, err := store.Update(c)
		return err
	case "delete":
		c := render(id, 0)
		return store.Delete(c.GroupVersionKind, c.Name, c.Namespace, nil)
	}
	return fmt.Errorf("unknown op %s", op)
}

// ---------------------------------------------------------------- comparison

type diffEntry struct {
	Proxy, Type, Name, Kind string // Kind: stale | missing | extra
	Held, Want              string
}

func (d diffEntry) key() string { return d.Proxy + "/" + d.Type + "/" + d.Name }

// soft: a difference of a classified kind (a recorded finding); the history goes on after it
func (d diffEntry) soft() bool {
	return d.Kind == "stale-san" || d.Kind == "stale-mx" || d.Kind == "stale-provider-unimported" ||
		d.Kind == "stale-sidecar-switches-service" || d.Kind == kindDNSLastWorkload || d.Kind == kindProviderNobody || d.Kind == kindStoreAhead || d.Kind == kindOwnLocality
}

// Recorded finding 7: when the LAST workload selected by a DNS ServiceEntry with a workloadSelector goes away only an
// incremental endpoint push goes out; a long-lived istiod keeps generating the STRICT_DNS cluster with the removed
// workload's address, a cold-started one generates no cluster. Recognised by trigger: the cluster (CDS, and the EDS a
// generator is asked for under that name) of a host of dnsSelectorHosts exists only on the long-lived side, against a
// COLD reference, after the registry shard of that host went from some endpoints to none and before the host regained
// an endpoint or its ServiceEntry changed (either is a full push that must clean up).
const kindDNSLastWorkload = "stale-dns-last-workload"

// dnsSelectorHosts: host -> the DNS-resolution ServiceEntry with a workloadSelector that defines it
var dnsSelectorHosts = map[string]string{"d.example.com": "se-d"}

// dnsZeroTracker follows the trigger of finding 7 through a history.
type dnsZeroTracker map[string]bool

// step must be called BEFORE world w is updated with step s; it returns the hosts whose trigger state was reset.
func (z dnsZeroTracker) step(s step, w world) (reset []string) {
	after := w.clone()
	if s.Op == "delete" {
		delete(after, s.ID)
	} else {
		after[s.ID] = s.Variant
	}
	for h, se := range dnsSelectorHosts {
		switch {
		case s.ID == se || shardEndpoints(after, h) > 0:
			if z[h] {
				reset = append(reset, h)
			}
			delete(z, h)
		case shardEndpoints(w, h) > 0 && shardEndpoints(after, h) == 0:
			z[h] = true
		}
	}
	return reset
}

func (z dnsZeroTracker) matches(typ, name, kind string) bool {
	// extra-cached (rebuild stream): the server's xDS cache still holds the cluster - nothing invalidated it either
	return (kind == "extra" || kind == "extra-cached") && (typ == "CDS" || typ == "EDS") && hostIn(z, name)
}

func (d diffEntry) tok() string {
	return fmt.Sprintf("%s/%s/%s:%s", d.Proxy, d.Type, wire.Enc(d.Name), d.Kind)
}

// compare what the long-lived clients hold with what the reference clients hold, on the types
// both subscribe to. Extra resources held for a named subscription that the reference never
// asked for cannot occur (subscriptions are derived the same way from CDS/LDS).
func compare(longSet, refSet *clientSet, cold, ambient bool) []diffEntry {
	long, ref := longSet.views(), refSet.views()
	var out []diffEntry
	for i, c := range long {
		h, ht := c.snapshot()
		r, rt := ref[i].snapshot()
		for _, typ := range c.def.Types {
			names := map[string]bool{}
			for n := range h[typ] {
				names[n] = true
			}
			for n := range r[typ] {
				names[n] = true
			}
			var ns []string
			for n := range names {
				ns = append(ns, n)
			}
			sort.Strings(ns)
			for _, n := range ns {
				hv, hok := h[typ][n]
				rv, rok := r[typ][n]
				switch {
				case hok && rok && hv != rv:
					out = append(out, diffEntry{c.def.Name, typ, n, classify(ht[typ][n], rt[typ][n], cold, ambient), ht[typ][n], rt[typ][n]})
				case hok && !rok:
					if typ == "SDS" {
						// a Secret that no longer exists: istiod answers the named subscription without the resource and a
						// SotW client keeps what it has (Envoy does) - the protocol cannot withdraw a named resource, so this
						// is not istiod's history dependence
						continue
					}
					out = append(out, diffEntry{c.def.Name, typ, n, "extra", ht[typ][n], ""})
				case !hok && rok:
					out = append(out, diffEntry{c.def.Name, typ, n, "missing", "", rt[typ][n]})
				}
			}
		}
	}
	return out
}

var sanList = regexp.MustCompile(`"matchSubjectAltNames":\[[^\]]*\],?`)

var sanExact = regexp.MustCompile(`"exact":"(spiffe://[^"]*)"`)

func sanSet(text string) map[string]bool {
	out := map[string]bool{}
	for _, l := range sanList.FindAllString(text, -1) {
		for _, m := range sanExact.FindAllStringSubmatch(l, -1) {
			out[m[1]] = true
		}
	}
	return out
}

// stripField removes the field a classified kind is about (for the comparisons that follow a
// recorded finding on the same resource: only that field is ignored, not the resource).
func stripField(kind, text string) string {
	switch kind {
	case "stale-san":
		return sanList.ReplaceAllString(text, "")
	case "stale-mx":
		return mxFlag.ReplaceAllString(text, "")
	case kindProviderNobody:
		return stripMentions(text, nobodyProviderHost)
	case kindOwnLocality:
		return localityRelative.ReplaceAllString(text, "")
	}
	return text
}

// Recorded finding 10: a proxy's workload labels - and with them its LOCALITY - are computed when it connects and on a
// ProxyUpdate only (computeProxyState: recomputeLabels). When the locality of the ServiceEntry endpoint that IS the
// connected proxy (se-a's endpoint 10.20.0.1 = sidecar-a) is edited, no ProxyUpdate is sent (pushPodProxyUpdates is for
// pods, pushWorkloadUpdates for WorkloadEntries): the long-lived proxy keeps its old locality, a proxy connecting later
// gets the new one, and every locality-relative part of EDS (priorities, locality weights) differs. Recognised by cause:
// the locality class of sidecar-a's own endpoint in the current world differs from the class at the time a compared
// client set connected, the difference is EDS of sidecar-a only, and the texts agree once priorities and load-balancing
// weights are removed.
const kindOwnLocality = "stale-own-endpoint-locality"

var localityRelative = regexp.MustCompile(`,?"(priority|loadBalancingWeight)":\d+`)

// ownLocalityClass: the locality sidecar-a derives from the world (se-a variant 5 puts its endpoint in region2; every
// other state - absent, no locality on the endpoint - leaves the node's own region1/zone1)
func ownLocalityClass(w world) string {
	if v, ok := w["se-a"]; ok && v == 5 {
		return "region2/zone1"
	}
	return "region1/zone1"
}

// groupsOnly: the sorted localities of the groups of a canonical ClusterLoadAssignment text
func groupsOnly(text string) string {
	var v struct {
		ClusterName string `json:"clusterName"`
		Endpoints   []struct {
			Locality map[string]string `json:"locality"`
		} `json:"endpoints"`
	}
	if err := json.Unmarshal([]byte(text), &v); err != nil {
		return text
	}
	var ls []string
	for _, g := range v.Endpoints {
		ls = append(ls, g.Locality["region"]+"/"+g.Locality["zone"])
	}
	sort.Strings(ls)
	return v.ClusterName + "|" + strings.Join(dedup(ls), ",")
}

func relabelOwnLocality(connClasses map[string]bool, w world, d []diffEntry) {
	if len(d) == 0 {
		return
	}
	cur, stale := ownLocalityClass(w), false
	for c := range connClasses {
		if c != cur {
			stale = true
		}
	}
	if !stale {
		return
	}
	// a distribute rule for a.example.com (dr-a 5, dr-root 0) also EMPTIES the groups it gives no share: then only the set
	// of locality groups is compared
	distribute := false
	if v, ok := w["dr-a"]; ok && v == 5 {
		distribute = true
	}
	if v, ok := w["dr-root"]; ok && v == 0 {
		distribute = true
	}
	same := func(a, b string) bool {
		if localityRelative.ReplaceAllString(a, "") == localityRelative.ReplaceAllString(b, "") {
			return true
		}
		return distribute && groupsOnly(a) == groupsOnly(b)
	}
	for _, x := range d {
		if x.Proxy != "sidecar-a" || x.Type != "EDS" || x.Kind != "stale" || !same(x.Held, x.Want) {
			return
		}
	}
	for i := range d {
		d[i].Kind = kindOwnLocality
	}
}

// Recorded finding 8: creating or deleting a Kubernetes Service that is exported to NOBODY (exportTo "~") requests no
// push (serviceNeedsPush), so the long-lived istiod's PushContext service index is not rebuilt; an extension provider
// backed by that service (resolved by a global lookup, which a from-scratch build satisfies) is then resolved differently
// by the long-lived and by a cold-started istiod - for every proxy, also for one that connects later. Recognised by cause:
// AMONG the objects changed since the last comparison there is the Service k-svc going absent -> exported-to-nobody or
// exported-to-nobody -> absent, an object of the world uses the provider backed by it (Telemetry tel-root 3 / tel-ns2 1:
// tcp-als), the reference is a COLD server, and the differences are LDS only and only inside the provider-derived
// config (the texts agree once every innermost typed config that mentions the service's hostname is taken out).
const kindProviderNobody = "stale-provider-service-exported-to-nobody"

const nobodyProviderHost = "ksvc.ns1.svc.cluster.local"

func exportedToNobody(w world) bool {
	v, ok := w["k-svc"]
	if !ok {
		return false
	}
	d := kubeIndex["k-svc"]
	return v < len(d.SvcAnnotations) && d.SvcAnnotations[v]["networking.istio.io/exportTo"] == "~"
}

func usesKsvcProvider(w world) bool {
	if v, ok := w["tel-root"]; ok && v == 3 {
		return true
	}
	v, ok := w["tel-ns2"]
	return ok && v == 1
}

// nobodyTrigger: between the two worlds the Service appeared or disappeared while exported to nobody
func nobodyTrigger(before, after world) bool {
	_, b := before["k-svc"]
	_, a := after["k-svc"]
	return (!b && exportedToNobody(after)) || (exportedToNobody(before) && !a)
}

// nobodyTracker: the stale service index of finding 8 PERSISTS until a services rebuild: set by a step that takes k-svc
// absent <-> exported-to-nobody, cleared by a later step that certainly rebuilds the service index and pushes (create /
// update / delete of a ServiceEntry, create / delete of another Kubernetes Service, a visible change of k-svc itself,
// MeshConfig or network-gateway changes: Forced pushes). Pod-only updates do not clear it.
type nobodyTracker struct{ stale bool }

// step must be called BEFORE world w is updated with step s
func (t *nobodyTracker) step(s step, w world) {
	after := w.clone()
	if s.Op == "delete" {
		delete(after, s.ID)
	} else {
		after[s.ID] = s.Variant
	}
	switch {
	case s.ID == "k-svc":
		t.stale = nobodyTrigger(w, after) || (t.stale && exportedToNobody(w) && exportedToNobody(after))
	case strings.HasPrefix(s.ID, "se-") || strings.HasPrefix(s.ID, "am-se") || isMesh(s.ID) || s.ID == "k-nwgw":
		t.stale = false
	case kubeIndex[s.ID] != nil && !kubeIndex[s.ID].PodOnly && !kubeIndex[s.ID].SliceOnly && !kubeIndex[s.ID].Permanent && s.Op != "update":
		t.stale = false
	}
}

func relabelProviderNobody(nobodyStale bool, before, w world, trigger []string, clause string, d []diffEntry) {
	// at this or an EARLIER step the Service went absent <-> exported-to-nobody and no services rebuild happened since
	// (nobodyStale), a provider-backed object uses the provider NOW; whichever clause shows it (a cold server differs at
	// once; a fresh client of the same server differs once the index healed and the long-lived proxy was not re-pushed)
	_ = clause
	_ = trigger
	if len(d) == 0 || !(nobodyStale || nobodyTrigger(before, w)) || !usesKsvcProvider(w) {
		return
	}
	for _, x := range d {
		if x.Type != "LDS" || x.Kind != "stale" || stripMentions(x.Held, nobodyProviderHost) != stripMentions(x.Want, nobodyProviderHost) {
			if os.Getenv("VERIF_C01_DEBUG") != "" {
				fmt.Fprintln(os.Stderr, "provider-nobody: not confined to provider config:", x.tok(),
					firstDifference(stripMentions(x.Held, nobodyProviderHost), stripMentions(x.Want, nobodyProviderHost)))
			}
			return
		}
	}
	for i := range d {
		d[i].Kind = kindProviderNobody
	}
}

// stripMentions removes from a canonical JSON text every INNERMOST array element that is an object with a typed config
// and mentions host (children are processed first, so an enclosing filter that only mentioned the host through such an
// element stays).
func stripMentions(text, host string) string {
	var v any
	if err := json.Unmarshal([]byte(text), &v); err != nil {
		return text
	}
	var walk func(x any) any
	walk = func(x any) any {
		switch t := x.(type) {
		case map[string]any:
			for k, c := range t {
				n := walk(c)
				if arr, ok := n.([]any); ok && len(arr) == 0 {
					if orig, ok := c.([]any); ok && len(orig) > 0 {
						delete(t, k) // the list only held such elements: as if the field were absent
						continue
					}
				}
				t[k] = n
			}
			return t
		case []any:
			out := make([]any, 0, len(t))
			for _, c := range t {
				c = walk(c)
				if m, ok := c.(map[string]any); ok {
					if _, typed := m["typedConfig"]; typed {
						if b, err := json.Marshal(m); err == nil && strings.Contains(string(b), host) {
							continue
						}
					}
				}
				out = append(out, c)
			}
			return out
		}
		return x
	}
	b, err := json.Marshal(walk(v))
	if err != nil {
		return text
	}
	return string(b)
}

// classify names the kind of difference between a held and a wanted resource. Two kinds are
// recorded findings (notes/C01.md), each under the conditions that make it THAT finding and not
// a regression that merely touches the same field:
//
//	stale-san  the two differ only in the subject alternative names accepted from the upstream, the
//	           reference is a COLD-started server, and the long-lived side holds a strict SUPERSET
//	           (finding 3 only ever retains service accounts of endpoints that are gone; a missing
//	           SAN, or any SAN difference against a fresh client of the same server, is `stale`)
//	stale-mx   ambient histories only: the two differ only in the disable_mx / external cluster
//	           metadata derived from "all instances support HBONE" (finding 4)
//
// everything else is `stale`.
func classify(held, want string, cold, ambient bool) string {
	if sanList.ReplaceAllString(held, "") == sanList.ReplaceAllString(want, "") {
		h, w := sanSet(held), sanSet(want)
		superset := len(h) > len(w)
		for x := range w {
			if !h[x] {
				superset = false
			}
		}
		if cold && superset {
			return "stale-san"
		}
		return "stale"
	}
	if ambient && mxFlag.ReplaceAllString(held, "") == mxFlag.ReplaceAllString(want, "") {
		return "stale-mx"
	}
	return "stale"
}

var mxFlag = regexp.MustCompile(`"(disable_mx|external)":true,?`)

// firstDifference renders where two canonical JSON texts start to differ (for the replay file).
func firstDifference(a, b string) string {
	i := 0
	for i < len(a) && i < len(b) && a[i] == b[i] {
		i++
	}
	lo := i - 120
	if lo < 0 {
		lo = 0
	}
	cut := func(s string) string {
		hi := i + 160
		if hi > len(s) {
			hi = len(s)
		}
		if lo > len(s) {
			return ""
		}
		return s[lo:hi]
	}
	return fmt.Sprintf("held=...%s... want=...%s...", cut(a), cut(b))
}

// ---------------------------------------------------------------- running one case

type step struct {
	Op      string
	ID      string
	Variant int
	Burst   int // >0: marker "the next Burst steps are applied back to back"
	// markers between the steps of a burst (they are not steps): Gap = sleep that long, then go on WITHOUT waiting for
	// quiescence (longer than the debounce time: the next change arrives while the push is in flight); Connect = a
	// further set of long-lived clients connects right now (while a push is pending)
	Gap     time.Duration
	Connect bool
	// Hold: from now on every ConfigUpdate call of the server (an event handler of the config store or of a registry
	// delivering its event) is PARKED at its entry: the stores and registries move on, the debouncer does not hear of it
	// - "the store is ahead of event delivery". Release: the parked calls go on, in their order. (Hook verifGateReq of
	// pilot/pkg/xds/zz_verif_e2e.go.) A hold ends at the latest with its burst.
	Hold    bool
	Release bool
}

func (s step) marker() bool { return s.Burst > 0 || s.Gap > 0 || s.Connect || s.Hold || s.Release }

// holdGate parks ConfigUpdate callers (see step.Hold)
type holdGate struct {
	release chan struct{}
	parked  atomic.Int64
	mu      sync.Mutex
	keys    []model.ConfigKey // the ConfigsUpdated of the parked calls
}

func installHold() *holdGate {
	g := &holdGate{release: make(chan struct{})}
	xds.VerifE2ESetReqGate(func(point string, req *model.PushRequest) {
		if point == "configupdate" {
			g.parked.Add(1)
			if req != nil {
				g.mu.Lock()
				for k := range req.ConfigsUpdated {
					g.keys = append(g.keys, k)
				}
				g.mu.Unlock()
			}
			<-g.release
		}
	})
	return g
}

func (g *holdGate) open() {
	xds.VerifE2ESetReqGate(nil)
	close(g.release)
}

func (g *holdGate) parkedKeys() []model.ConfigKey {
	g.mu.Lock()
	defer g.mu.Unlock()
	return append([]model.ConfigKey(nil), g.keys...)
}

// Recorded finding 9 (store ahead of event delivery), the harness half of its recognition: a stale resource is explained
// by the hold window only if it belongs to a SERVICE object that was DELETED under the hold (its own event parked, so a
// push for an earlier event already saw the registry without it) and a parked ConfigUpdate call really named that
// object's key. checks/C01.py adds the causal half (fails again; converges without the markers).
const kindStoreAhead = "stale-store-ahead"

// serviceObjects: service-defining objects of the grammar -> (namespace, hosts); the ServiceEntry key of a service is
// (hostname, namespace)
var serviceObjects = map[string]struct {
	ns    string
	hosts []string
}{
	"se-a": {"ns1", []string{"a.example.com"}}, "se-b": {"ns2", []string{"b.example.com", "b-alt.example.com"}},
	"se-dup1": {"ns1", []string{"dup.example.com"}}, "se-dup2": {"ns2", []string{"dup.example.com"}},
	"se-otel": {"istio-system", []string{"otel.example.com"}}, "se-authz": {"ns2", []string{"authz.example.com"}},
	"se-c": {"ns1", []string{"c.example.com"}}, "se-d": {"ns1", []string{"d.example.com"}},
}

func relabelStoreAhead(heldDeletes []string, parked []model.ConfigKey, d []diffEntry) {
	if len(d) == 0 || len(heldDeletes) == 0 {
		return
	}
	explained := func(name string) bool {
		for _, id := range heldDeletes {
			o, ok := serviceObjects[id]
			if !ok {
				continue
			}
			for _, h := range o.hosts {
				if !hostIn(map[string]bool{h: true}, name) {
					continue
				}
				for _, k := range parked {
					if k.Kind == kind.ServiceEntry && k.Name == h && k.Namespace == o.ns {
						return true
					}
				}
			}
		}
		return false
	}
	for _, x := range d {
		if x.Kind != "stale" || !explained(x.Name) {
			return
		}
	}
	for i := range d {
		d[i].Kind = kindStoreAhead
	}
}

type caseDef struct {
	Header   []string
	Debounce time.Duration
	Base     world
	Ambient  bool
	ColdEach bool          // compare with a cold-started server after every step, not only at the end
	Order    int           // kubeOrder of the history
	Age      int           // ageSalt of the history (creation timestamp order of the config objects)
	Slow     time.Duration // Send delay of the long-lived clients
	Steps    []step
}

func parseCases(lines [][]string) []caseDef {
	var out []caseDef
	for _, f := range lines {
		switch f[0] {
		case "case":
			c := caseDef{Header: f, Base: world{}}
			if len(f) >= 5 {
				c.Debounce = time.Duration(atoi(f[3])) * time.Millisecond
				c.Base = parseWorld(f[4])
			}
			for _, fl := range f[min(5, len(f)):] {
				switch fl {
				case "ambient":
					c.Ambient = true
				case "coldeach":
					c.ColdEach = true
				default:
					if kv := strings.SplitN(fl, "=", 2); len(kv) == 2 {
						switch kv[0] {
						case "order":
							c.Order = atoi(kv[1])
						case "age":
							c.Age = atoi(kv[1])
						case "slow":
							c.Slow = time.Duration(atoi(kv[1])) * time.Millisecond
						}
					}
				}
			}
			out = append(out, c)
		case "step":
			if len(out) > 0 && len(f) >= 4 {
				out[len(out)-1].Steps = append(out[len(out)-1].Steps, step{Op: f[1], ID: f[2], Variant: atoi(f[3])})
			}
		case "burst":
			if len(out) > 0 && len(f) >= 2 {
				out[len(out)-1].Steps = append(out[len(out)-1].Steps, step{Burst: atoi(f[1])})
			}
		case "gap":
			if len(out) > 0 && len(f) >= 2 {
				out[len(out)-1].Steps = append(out[len(out)-1].Steps, step{Gap: time.Duration(atoi(f[1])) * time.Millisecond})
			}
		case "connect":
			if len(out) > 0 {
				out[len(out)-1].Steps = append(out[len(out)-1].Steps, step{Connect: true})
			}
		case "hold":
			if len(out) > 0 {
				out[len(out)-1].Steps = append(out[len(out)-1].Steps, step{Hold: true})
			}
		case "release":
			if len(out) > 0 {
				out[len(out)-1].Steps = append(out[len(out)-1].Steps, step{Release: true})
			}
		}
	}
	return out
}

const (
	calmTime   = 25 * time.Millisecond
	patience   = 4 * time.Second  // how long a difference may persist before it is a verdict
	settleTime = 15 * time.Second // hard limit for reaching quiescence at all
)

// settleAndCompare waits for quiescence and compares the long-lived clients with reference clients
// produced by mkRef; a difference must persist (re-compared against fresh references after waiting
// `patience` in a fully quiescent system) to be reported.
func settleAndCompare(st *site, refSite *site, longs []*clientSet, ignore map[string]string) ([]diffEntry, string) {
	attempt := func() ([]diffEntry, string) {
		if !st.quiesce(longs, calmTime, settleTime) {
			return nil, "no-quiescence"
		}
		ref := refSite.connectAll()
		defer ref.stop()
		if refSite != st {
			if !refSite.quiesce([]*clientSet{ref}, calmTime, settleTime) {
				return nil, "no-quiescence-ref"
			}
		} else if !st.quiesce(append(append([]*clientSet{}, longs...), ref), calmTime, settleTime) {
			return nil, "no-quiescence-ref"
		}
		var all []diffEntry
		for _, long := range longs {
			all = append(all, compare(long, ref, refSite != st, st.ambient)...)
		}
		var out []diffEntry
		for _, x := range all {
			if k, ok := ignore[x.key()]; ok {
				// a finding of kind k was recorded on this resource earlier in the history: only the
				// field it is about is ignored from then on
				if k == kindDNSLastWorkload && x.Kind == "extra" {
					continue // finding 7 is about the existence of the resource (the entry is dropped when the trigger resets)
				}
				if x.Kind != "missing" && x.Kind != "extra" && stripField(k, x.Held) == stripField(k, x.Want) {
					continue
				}
				if x.soft() {
					x.Kind = "stale"
				}
			}
			out = append(out, x)
		}
		return out, ""
	}
	d, e := attempt()
	if e != "" || len(d) == 0 {
		return d, e
	}
	// a difference: give the system ample time, then look again with new reference clients
	deadline := time.Now().Add(patience)
	for time.Now().Before(deadline) {
		time.Sleep(100 * time.Millisecond)
		d, e = attempt()
		if e != "" || len(d) == 0 {
			return d, e
		}
	}
	return d, e
}

type caseResult struct {
	Verdict string
	Detail  []string
}

func runCase(c caseDef) caseResult {
	if c.Ambient && !ambientEnabled() {
		return caseResult{Verdict: "FAIL harness-misconfigured ambient-case-needs-PILOT_ENABLE_AMBIENT=true"}
	}
	kubeOrder, ageSalt = c.Order, c.Age
	st := newSite(c.Base, c.Debounce, c.Ambient)
	defer st.close()
	long := st.connectAllSlow(c.Slow)
	st.clients = long
	longs := []*clientSet{long}
	var gate *holdGate
	compared := false
	connClasses := map[string]bool{ownLocalityClass(c.Base): true} // see relabelOwnLocality
	var heldDeletes []string                                       // service objects deleted under a hold window since the last comparison
	var parkedKeys []model.ConfigKey                               // keys of the ConfigUpdate calls parked in those windows
	defer func() {
		if gate != nil {
			gate.open()
		}
	}()
	defer func() {
		for _, l := range longs {
			if l != st.clients {
				l.stop()
			}
		}
	}()
	w := c.Base.clone()
	report := func(clause string, after int, d []diffEntry) caseResult {
		var toks []string
		var detail []string
		for i, x := range d {
			if i < 6 {
				toks = append(toks, x.tok())
			}
			if i < 3 {
				detail = append(detail, x.tok()+" "+firstDifference(x.Held, x.Want))
			}
		}
		return caseResult{Verdict: fmt.Sprintf("FAIL %s %s after-step=%d n=%d world=%s", clause, strings.Join(toks, ","), after, len(d), w.tok()),
			Detail: detail}
	}
	// differences of a classified kind (recorded findings) do not end the history: they are remembered, ignored from
	// then on, and reported at the end unless something else fails
	ignore := map[string]string{}
	var softVerdict *caseResult
	var trigger []string // objects changed since the last comparison
	wPrev := w.clone()   // the world at the last comparison
	// the triggers of findings 3 and 4, history wide: hosts whose service lost ALL endpoints of a shard
	// at some step (finding 3), hosts whose endpoint membership changed at some step (finding 4)
	zeroed, touched := map[string]bool{}, map[string]bool{}
	dnsZeroed := dnsZeroTracker{}
	nobody := &nobodyTracker{}
	nobodySeen := false // the tracker was set at some step since the last comparison
	burst := 0
	pushes, skips := 0, 0
	respCount := func() map[string]int {
		m := map[string]int{}
		for _, cl := range long.sotw {
			cl.mu.Lock()
			for t, n := range cl.resps {
				m[cl.def.Name+"/"+t] = n
			}
			cl.mu.Unlock()
		}
		if long.delta != nil {
			long.delta.mu.Lock()
			for t, n := range long.delta.resps {
				m["ztunnel/"+t] = n
			}
			long.delta.mu.Unlock()
		}
		return m
	}
	before := respCount()
	check := func(ref *site, clause string, after int) *caseResult {
		d, e := settleAndCompare(st, ref, longs, ignore)
		for i := range d {
			switch d[i].Kind {
			case "stale-san":
				if !hostIn(zeroed, d[i].Name) {
					d[i].Kind = "stale"
				}
			case "stale-mx":
				if !hostIn(touched, d[i].Name) {
					d[i].Kind = "stale"
				}
			case "extra":
				if clause == "stale-vs-cold-start" && dnsZeroed.matches(d[i].Type, d[i].Name, d[i].Kind) {
					d[i].Kind = kindDNSLastWorkload
				}
			}
		}
		relabelProviderUnimported(wPrev, w, trigger, d)
		relabelSidecarSwitchesService(w, trigger, d)
		relabelProviderNobody(nobody.stale || nobodySeen, wPrev, w, trigger, clause, d)
		relabelStoreAhead(heldDeletes, parkedKeys, d)
		relabelOwnLocality(connClasses, w, d)
		if e != "" {
			return &caseResult{Verdict: fmt.Sprintf("FAIL %s step=%d", e, after)}
		}
		if len(d) == 0 {
			return nil
		}
		hard := false
		for _, x := range d {
			if !x.soft() {
				hard = true
			}
		}
		r := report(clause, after, d)
		if hard {
			return &r
		}
		if softVerdict == nil {
			softVerdict = &r
		}
		for _, x := range d {
			if x.Kind == "stale-provider-unimported" || x.Kind == "stale-sidecar-switches-service" || x.Kind == kindStoreAhead {
				// recorded findings 5 / 6: there is no field to strip. The finding is remembered and the long-lived clients
				// RECONNECT (what an operator's restart of the proxies does), so that the rest of the history still counts.
				for _, l := range longs {
					l.stop()
				}
				long = st.connectAllSlow(c.Slow)
				st.clients = long
				longs = []*clientSet{long}
				connClasses = map[string]bool{ownLocalityClass(w): true}
				if !st.quiesce(longs, calmTime, settleTime) {
					return &caseResult{Verdict: fmt.Sprintf("FAIL no-quiescence-after-reconnect step=%d", after)}
				}
				before = respCount()
				return nil
			}
		}
		for _, x := range d {
			ignore[x.key()] = x.Kind
		}
		return nil
	}
	// the long-lived clients must be in sync before the history starts
	if r := check(st, "initial-sync", 0); r != nil {
		return *r
	}
	for i, s := range c.Steps {
		if s.Burst > 0 {
			burst = s.Burst
			continue
		}
		if s.Gap > 0 {
			time.Sleep(s.Gap)
			continue
		}
		if s.Connect {
			longs = append(longs, st.connectAllSlow(c.Slow))
			connClasses[ownLocalityClass(w)] = true
			continue
		}
		if s.Hold {
			if gate == nil {
				gate = installHold()
			}
			continue
		}
		if s.Release {
			if gate != nil {
				parkedKeys = append(parkedKeys, gate.parkedKeys()...)
				gate.open()
				gate = nil
			}
			continue
		}
		if compared {
			trigger, wPrev, compared = nil, w.clone(), false
			nobodySeen = nobody.stale
			heldDeletes, parkedKeys = nil, nil
		}
		if gate != nil && s.Op == "delete" {
			heldDeletes = append(heldDeletes, s.ID)
		}
		if gate != nil && (isMesh(s.ID) || isSecret(s.ID)) {
			// these objects' push is requested by the harness itself (see applyMesh / applySecret): not under a hold
			gate.open()
			gate = nil
		}
		if err := st.apply(s.Op, s.ID, s.Variant, w); err != nil {
			return caseResult{Verdict: fmt.Sprintf("FAIL apply-error step=%d %s", i+1, wire.Enc(err.Error()))}
		}
		nobody.step(s, w)
		if nobody.stale {
			nobodySeen = true
		}
		for _, h := range dnsZeroed.step(s, w) {
			for k, v := range ignore {
				if v == kindDNSLastWorkload && hostIn(map[string]bool{h: true}, k) {
					delete(ignore, k)
				}
			}
		}
		dropIgnored := func(kind, h string) {
			for k, v := range ignore {
				if v == kind && hostIn(map[string]bool{h: true}, k) {
					delete(ignore, k)
				}
			}
		}
		for _, h := range endpointHosts(s.ID, w) {
			touched[h] = true
			if losesLastEndpoint(s, w, h) {
				zeroed[h] = true
			} else if zeroed[h] && regainsEndpoint(s, w, h) {
				// finding 3 heals once the shard has endpoints again: a SAN superset after that is another defect
				delete(zeroed, h)
				dropIgnored("stale-san", h)
			}
		}
		if s.ID == "am-se" {
			// finding 4 heals with a full push for the service itself
			delete(touched, "app.com")
			dropIgnored("stale-mx", "app.com")
		}
		if s.Op == "delete" {
			delete(w, s.ID)
		} else {
			w[s.ID] = s.Variant
		}
		trigger = append(trigger, s.ID)
		if burst > 1 {
			burst--
			continue
		}
		burst = 0
		if gate != nil {
			time.Sleep(5 * time.Millisecond) // let the handlers of the last writes reach the gate
			parkedKeys = append(parkedKeys, gate.parkedKeys()...)
			gate.open()
			gate = nil
		}
		if r := check(st, "stale-vs-fresh-client", i+1); r != nil {
			return *r
		}
		if c.ColdEach && i+1 < len(c.Steps) {
			cold := newSite(w, 0, c.Ambient)
			r := check(cold, "stale-vs-cold-start", i+1)
			cold.close()
			if r != nil {
				return *r
			}
		}
		compared = true // trigger / wPrev are reset when the next step begins: the final cold comparison still sees them
		after := respCount()
		for _, cl := range long.views() {
			for _, t := range cl.def.Types {
				if after[cl.def.Name+"/"+t] > before[cl.def.Name+"/"+t] {
					pushes++
				} else {
					skips++
				}
			}
		}
		before = after
	}
	// second server, cold-started on the final state
	cold := newSite(w, 0, c.Ambient)
	defer cold.close()
	if r := check(cold, "stale-vs-cold-start", len(c.Steps)); r != nil {
		return *r
	}
	if os.Getenv("VERIF_C01_DEBUG") != "" {
		for _, cl := range long.views() {
			h, _ := cl.snapshot()
			var parts []string
			for _, t := range cl.def.Types {
				parts = append(parts, fmt.Sprintf("%s=%d", t, len(h[t])))
			}
			fmt.Fprintln(os.Stderr, "held", cl.def.Name, strings.Join(parts, " "))
		}
	}
	if softVerdict != nil {
		return *softVerdict
	}
	return caseResult{Verdict: fmt.Sprintf("OK steps=%d pushed=%d skipped=%d", len(c.Steps), pushes, skips)}
}

func hostIn(hosts map[string]bool, clusterName string) bool {
	for h := range hosts {
		// outbound|port|subset|host, and the SNI-DNAT form outbound_.port_.subset_.host of AUTO_PASSTHROUGH gateways
		if strings.HasSuffix(clusterName, "|"+h) || strings.HasSuffix(clusterName, "_."+h) {
			return true
		}
	}
	return false
}

// endpointHosts: the service hosts whose ENDPOINTS object id contributes (workload entries, pods)
func endpointHosts(id string, w world) []string {
	switch id {
	case "we-1", "k-wepod":
		return []string{"c.example.com", "d.example.com"}
	case "we-k":
		return []string{"ksvc.ns1.svc.cluster.local"}
	case "k-slice2":
		return []string{"ksvc.ns1.svc.cluster.local", "hsvc.ns1.svc.cluster.local"}
	case "am-we":
		return []string{"app.com"}
	}
	if d := kubeIndex[id]; d != nil {
		return []string{d.Name + "." + d.Ns + ".svc.cluster.local"}
	}
	return nil
}

// shardEndpoints: how many endpoints (ready or not: a listed endpoint that is not ready is still an
// element of the shard) the registry shard of service host h holds in world w. One shard per
// (registry, host): the pods of a Kubernetes Service and the WorkloadEntries it selects share the
// Kubernetes shard; the WorkloadEntries and pods a ServiceEntry selects share the ServiceEntry shard.
func shardEndpoints(w world, h string) int {
	n := 0
	weSelected := func() int { // workloads labelled app=we in ns1
		k := 0
		if v, ok := w["we-1"]; ok && v != 2 { // variant 2: labels no longer selected
			k++
		}
		if _, ok := w["k-wepod"]; ok {
			k++
		}
		return k
	}
	switch h {
	case "c.example.com":
		if _, ok := w["se-c"]; ok {
			n = weSelected()
		}
	case "d.example.com":
		if _, ok := w["se-d"]; ok {
			n = weSelected()
		}
	case "app.com":
		if _, ok := w["am-se"]; ok {
			if v, ok := w["am-we"]; ok && v != 2 {
				n = 1
			}
		}
	default:
		for _, d := range kubeUniverse {
			if d.PodOnly || d.SliceOnly || d.Name+"."+d.Ns+".svc.cluster.local" != h {
				continue
			}
			if v, ok := w[d.ID]; ok {
				n = len(d.Variants[v])
				if _, ok := w["we-k"]; ok && d.ID == "k-svc" {
					n++
				}
				// the second slice belongs to ksvc (variants 0, 2) or to hsvc (variant 1)
				if sv, ok := w["k-slice2"]; ok && kubeIndex["k-slice2"].SliceService[sv] == d.Name {
					n++
				}
			}
		}
	}
	return n
}

// regainsEndpoint: after step s the registry shard of host h holds endpoints again
func regainsEndpoint(s step, w world, h string) bool {
	after := w.clone()
	if s.Op == "delete" {
		delete(after, s.ID)
	} else {
		after[s.ID] = s.Variant
	}
	return shardEndpoints(after, h) > 0
}

// losesLastEndpoint: the trigger of finding 3 - with this step the registry shard of host h goes from
// some endpoints to none (the last pod / selected workload goes away while the service stays).
func losesLastEndpoint(s step, w world, h string) bool {
	after := w.clone()
	if s.Op == "delete" {
		delete(after, s.ID)
	} else {
		after[s.ID] = s.Variant
	}
	return shardEndpoints(w, h) > 0 && shardEndpoints(after, h) == 0
}

// providerServiceNs: the objects of the grammar that back a MeshConfig extension provider of
// convergeMesh, with the namespace they live in.
var providerServiceNs = map[string]string{"se-otel": "istio-system", "se-authz": "ns2", "k-svc": "ns1"}

// sidecarAImports: the namespaces whose services the Sidecar resource applying to proxy
// sidecar-a (ns1, app=a) imports wholesale in world w; nil = no Sidecar resource, everything.
func sidecarAImports(w world) map[string]bool {
	if v, ok := w["sc-wl"]; ok {
		if v == 0 {
			return map[string]bool{} // only ns2/b.example.com
		}
		return map[string]bool{"ns1": true}
	}
	if v, ok := w["sc-ns1"]; ok {
		switch v {
		case 0:
			return map[string]bool{"ns1": true, "istio-system": true}
		case 1:
			return nil
		case 2:
			return map[string]bool{"ns2": true}
		default:
			return map[string]bool{"ns2": true} // ./a.example.com only, ns2/*
		}
	}
	return nil
}

// providerUnseenBy: the proxies for which the service behind provider object id is OUTSIDE the per-proxy
// dependency set in world w: sidecar-a when the Sidecar resource applying to it does not import the
// service's namespace; every proxy of another namespace when the service is exported to its own
// namespace only (the exportTo annotation of variant 6 of k-svc). nil: the object is absent.
func providerUnseenBy(w world, id string) map[string]bool {
	v, ok := w[id]
	if !ok {
		return nil
	}
	out := map[string]bool{}
	ns := providerServiceNs[id]
	if imports := sidecarAImports(w); imports != nil && !imports[ns] {
		out["sidecar-a"] = true
	}
	if id == "k-svc" && v == 6 {
		// exported to ns1 only: outside the scope of every proxy of another namespace (sidecar-b in ns2, the router in
		// istio-system - a router's default scope holds the services VISIBLE to its namespace, and its per-proxy filter
		// consults that scope for ServiceEntry keys like a sidecar's)
		out["sidecar-b"], out["router"] = true, true
	}
	return out
}

// relabelProviderUnimported: recorded finding 6. EVERY object changed since the last comparison backs an
// extension provider, and the only differences are LDS of sidecars for which that service is outside
// the per-proxy dependency set (before or after the change).
func relabelProviderUnimported(before, w world, trigger []string, d []diffEntry) {
	if len(d) == 0 || len(trigger) == 0 {
		return
	}
	var unseen map[string]bool
	for i, id := range trigger {
		if _, ok := providerServiceNs[id]; !ok {
			return
		}
		u := map[string]bool{}
		for _, ww := range []world{before, w} {
			for p := range providerUnseenBy(ww, id) {
				u[p] = true
			}
		}
		if i == 0 {
			unseen = u
		} else {
			for p := range unseen {
				if !u[p] {
					delete(unseen, p)
				}
			}
		}
	}
	for _, x := range d {
		if !unseen[x.Proxy] || x.Type != "LDS" || x.Kind != "stale" {
			return
		}
	}
	for i := range d {
		d[i].Kind = "stale-provider-unimported"
	}
}

// edsIrrelevant: objects of kinds that endpoint generation does not read (`Spec.affectsEds` is false for them:
// authorization / request authentication policies, EnvoyFilter, Telemetry, WasmPlugin, ProxyConfig, Gateway, Gateway API).
func edsIrrelevant(id string) bool {
	for _, p := range []string{"ap-", "ra-", "ef-", "tel-", "wasm-", "pc-", "kg-", "am-ap"} {
		if strings.HasPrefix(id, p) {
			return true
		}
	}
	return id == "gw"
}

// relabelSidecarSwitchesService: recorded finding 5. Both ServiceEntries of the duplicated host exist, the objects
// changed since the last comparison include a Sidecar or a VirtualService and EVERY other one is of a kind endpoint
// generation does not read, and the only differences are EDS of that host.
func relabelSidecarSwitchesService(w world, trigger []string, d []diffEntry) {
	_, a := w["se-dup1"]
	_, b := w["se-dup2"]
	if !a || !b || len(d) == 0 || len(trigger) == 0 {
		return
	}
	own := false
	for _, id := range trigger {
		switch {
		case strings.HasPrefix(id, "sc-") || strings.HasPrefix(id, "vs-"):
			own = true
		case edsIrrelevant(id):
			// merged into the same push, but of a kind endpoint generation does not read: cannot explain an EDS difference
		default:
			return
		}
	}
	if !own {
		return
	}
	for _, x := range d {
		if x.Type != "EDS" || x.Kind != "stale" || !strings.HasSuffix(x.Name, "|dup.example.com") {
			return
		}
	}
	for i := range d {
		d[i].Kind = "stale-sidecar-switches-service"
	}
}

// ---------------------------------------------------------------- gen / oracle

func genConverge(seed uint64, n int, out string) { genConvergeMode(seed, n, out, false) }

// genConvergeAmbient: histories over the classic grammar plus the ambient objects (waypoint
// attachment, ambient workloads, waypoint / ztunnel policies), run with a waypoint proxy and a
// ztunnel-like delta client in addition to the sidecars and the router.
// genConvergeLocality: histories over the objects that decide EDS content by locality (ServiceEntries with endpoint
// localities, DestinationRules with localityLbSetting / outlier detection in the service's and in the root namespace,
// kube services with pods on nodes of two regions, Sidecars, PeerAuthentication), mostly in bursts.
func genConvergeLocality(seed uint64, n int, out string) {
	localityOnly = true
	defer func() { localityOnly = false }()
	genConvergeMode(seed*17+3, n, out, false)
}

var localityOnly bool

var localityObjs = map[string]bool{"se-a": true, "se-b": true, "se-c": true, "we-1": true, "dr-a": true, "dr-b": true, "dr-root": true,
	"vs-a": true, "sc-ns1": true, "sc-wl": true, "pa-ns1": true, "pa-mesh": true, "k-svc": true, "k-hsvc": true}

func genConvergeAmbient(seed uint64, n int, out string) { genConvergeMode(seed*31+5, n, out, true) }

func genConvergeMode(seed uint64, n int, out string, ambient bool) {
	r := wire.NewRng(seed*104729 + 7)
	o := wire.Create(out)
	defer o.Close()
	for c := 0; c < n; c++ {
		cr := r.Fork()
		w := world{}
		for _, d := range universe {
			if cr.Chance(3, 5) {
				w[d.ID] = cr.Intn(len(d.Variants))
			}
		}
		// services almost always exist: most other objects refer to them
		for _, id := range []string{"se-a", "se-b"} {
			if _, ok := w[id]; !ok && cr.Chance(4, 5) {
				w[id] = cr.Intn(len(universeIndex[id].Variants))
			}
		}
		for _, d := range kubeUniverse {
			if cr.Chance(1, 2) {
				w[d.ID] = cr.Intn(len(d.Variants))
			}
		}
		for _, d := range gwapiUniverse {
			if cr.Chance(1, 3) {
				w[d.ID] = cr.Intn(len(d.Variants))
			}
		}
		if ambient {
			for _, d := range ambientUniverse {
				if cr.Chance(3, 4) {
					w[d.ID] = cr.Intn(len(d.Variants))
				}
			}
		}
		for _, x := range pseudoObjs {
			if cr.Chance(1, 5) {
				w[x.id] = cr.Intn(x.n)
			}
		}
		if localityOnly {
			for id := range w {
				if !localityObjs[id] {
					delete(w, id)
				}
			}
			for _, id := range []string{"se-a", "dr-a"} {
				if _, ok := w[id]; !ok {
					w[id] = cr.Intn(len(universeIndex[id].Variants))
				}
			}
		}
		// the debouncer is never off: with 0 ms istiod pushes in the same instant an event arrives and
		// races with its own derived indexes (see notes/C01.md, "unreproduced differences")
		deb := 10
		switch cr.Intn(6) {
		case 0, 1:
			deb = 25
		case 2:
			deb = 100
		}
		flags := []string{}
		if ambient {
			flags = append(flags, "ambient")
		}
		if cr.Chance(1, 2) {
			flags = append(flags, "order="+strconv.Itoa(1+cr.Intn(3)))
		}
		if cr.Chance(1, 2) {
			flags = append(flags, "age="+strconv.Itoa(1+cr.Intn(9)))
		}
		if cr.Chance(1, 3) {
			// slow receivers: pushes stay in flight, later requests merge in the push queue
			flags = append(flags, "slow="+strconv.Itoa(5+10*cr.Intn(3)))
		}
		o.Line(append([]string{"case", strconv.Itoa(c), "converge", strconv.Itoa(deb), w.tok()}, flags...)...)
		cur := w.clone()
		steps := 2 + cr.Intn(6)
		inBurst, holding := 0, false
		for i := 0; i < steps; i++ {
			if inBurst > 0 {
				inBurst--
				// between the steps of a burst: nothing (one debounce window), a gap longer than the debounce time (the next
				// change arrives while the push is in flight), or a further client set connecting right now
				switch cr.Intn(5) {
				case 0:
					o.Line("gap", strconv.Itoa(deb*(1+cr.Intn(3))+cr.Intn(deb)))
				case 1:
					o.Line("gap", strconv.Itoa(1+cr.Intn(deb)))
				case 2:
					if cr.Chance(1, 2) {
						o.Line("connect")
					}
				case 3:
					// the events of the following changes are held back while the push of the earlier ones runs
					if !holding {
						o.Line("gap", strconv.Itoa(1+cr.Intn(deb)))
						o.Line("hold")
						holding = true
					} else {
						o.Line("gap", strconv.Itoa(deb*2+cr.Intn(deb)))
						o.Line("release")
						holding = false
					}
				}
			} else if (cr.Chance(1, 3) || (localityOnly && cr.Chance(1, 2))) && i+1 < steps {
				n := 2 + cr.Intn(4) // bursts of 2..5
				if n > steps-i {
					n = steps - i
				}
				o.Line("burst", strconv.Itoa(n))
				inBurst = n - 1
				holding = false
			}
			id, nvar := "", 0
			if ambient && cr.Chance(1, 2) {
				d := wire.Pick(cr, ambientUniverse)
				id, nvar = d.ID, len(d.Variants)
			} else if cr.Chance(1, 12) {
				d := wire.Pick(cr, gwapiUniverse)
				id, nvar = d.ID, len(d.Variants)
			} else if cr.Chance(1, 10) {
				x := wire.Pick(cr, pseudoObjs)
				id, nvar = x.id, x.n
			} else if cr.Chance(1, 5) {
				d := wire.Pick(cr, kubeUniverse)
				id, nvar = d.ID, len(d.Variants)
			} else {
				d := wire.Pick(cr, universe)
				id, nvar = d.ID, len(d.Variants)
			}
			if localityOnly {
				var ids []string
				for x := range localityObjs {
					ids = append(ids, x)
				}
				sort.Strings(ids)
				id = wire.Pick(cr, ids)
				if cr.Chance(1, 2) {
					id = wire.Pick(cr, []string{"se-a", "dr-a", "dr-root"})
				}
				if d := universeIndex[id]; d != nil {
					nvar = len(d.Variants)
				} else {
					nvar = len(kubeIndex[id].Variants)
				}
			}
			if v, ok := cur[id]; ok {
				if cr.Chance(1, 3) || nvar == 1 {
					o.Line("step", "delete", id, "0")
					delete(cur, id)
				} else {
					nv := (v + 1 + cr.Intn(nvar-1)) % nvar
					o.Line("step", "update", id, strconv.Itoa(nv))
					cur[id] = nv
				}
			} else {
				nv := cr.Intn(nvar)
				o.Line("step", "create", id, strconv.Itoa(nv))
				cur[id] = nv
			}
		}
	}
}

// sweepPreferred: the variant an object takes in sweep base 0 (default 0). Chosen so that base 0 already
// has the variants whose generated output depends on OTHER objects (providers backed by services,
// external authorization, Gateway API routes with several backends).
var sweepPreferred = map[string]int{"tel-root": 2, "ap-ns1": 2, "kg-route": 1, "dr-a": 3}

// genConvergeSweep writes single-change histories over rich base meshes: for every object of the
// grammar create / delete / update between its variants while everything else stays put.
// Base k puts every other object at variant (preferred + k) mod n, so that over the bases every
// variant of every object is the context of every change ("an input of an index changes while the
// index's own kinds do not"). Base 0 has no Sidecar resources and sweeps all ordered pairs of
// variants; bases 1, 2 have the Sidecar resources and sweep create / delete of every variant and the
// cyclic updates. which < 0: all bases. Used when a tie breaks (targeted search for a failing input)
// and in the thorough tier.
func genConvergeSweep(which int, out string) {
	o := wire.Create(out)
	defer o.Close()
	type obj struct {
		id string
		n  int
	}
	var objs []obj
	for _, d := range universe {
		objs = append(objs, obj{d.ID, len(d.Variants)})
	}
	for _, d := range kubeUniverse {
		objs = append(objs, obj{d.ID, len(d.Variants)})
	}
	for _, d := range gwapiUniverse {
		objs = append(objs, obj{d.ID, len(d.Variants)})
	}
	for _, x := range pseudoObjs {
		objs = append(objs, obj{x.id, x.n})
	}
	n := 0
	for k := 0; k < 3; k++ {
		if which >= 0 && which != k {
			continue
		}
		withSidecars := k > 0
		isSidecar := func(id string) bool { return id == "sc-ns1" || id == "sc-wl" }
		base := world{}
		for _, x := range objs {
			if !withSidecars && (isSidecar(x.id) || isMesh(x.id)) {
				continue // base 0: no Sidecar resources, the plain MeshConfig
			}
			base[x.id] = (sweepPreferred[x.id] + k) % x.n
		}
		emit := func(w world, st ...string) {
			o.Line("case", strconv.Itoa(n), "converge", "10", w.tok())
			o.Line(append([]string{"step"}, st...)...)
			n++
		}
		for _, x := range objs {
			if !withSidecars && isSidecar(x.id) {
				w := base.clone()
				for v := 0; v < x.n; v++ {
					emit(w, "create", x.id, strconv.Itoa(v))
				}
				continue
			}
			for v := 0; v < x.n; v++ {
				w := base.clone()
				w[x.id] = v
				emit(w, "delete", x.id, "0")
				for v2 := 0; v2 < x.n; v2++ {
					if v2 == v || (k > 0 && v2 != (v+1)%x.n) {
						continue
					}
					emit(w, "update", x.id, strconv.Itoa(v2))
				}
			}
			w := base.clone()
			delete(w, x.id)
			for v := 0; v < x.n; v++ {
				emit(w, "create", x.id, strconv.Itoa(v))
			}
		}
	}
}

func oracleConverge(in, out string) {
	cases := parseCases(wire.ReadLines(in))
	o := wire.Create(out)
	defer o.Close()
	for _, c := range cases {
		res := func() (res caseResult) {
			defer func() {
				if r := recover(); r != nil {
					res = caseResult{Verdict: "FAIL harness-panic " + wire.Enc(fmt.Sprint(r))}
				}
			}()
			return runCase(c)
		}()
		line := res.Verdict
		for _, d := range res.Detail {
			line += " || " + strings.ReplaceAll(d, "\n", " ")
		}
		o.Line(line)
		o.Flush()
	}
}

var _ = config.Config{}
