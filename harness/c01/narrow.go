package main

// Stream `edsnarrow`: the narrowing of a partial EDS push (pilot/pkg/xds/eds.go buildEndpoints:
// canSendPartialFullPushes, affectedService, clusterAffectedByChangedAuthn,
// clusterAffectedByChangedDrs) - "which of the watched clusters are regenerated" - on the REAL
// EdsGenerator.Generate, against the Lean model (Narrow.lean).
//
// A scenario is two worlds of the config grammar (before / after a change of 1-3 objects) and a
// proxy; both are built with the real config generation test bed (core.NewConfigGenTest); the proxy
// carries the real SidecarScope of the new world and, as PrevSidecarScope, the real one of the old
// world.  `gen` observes on these REAL objects - without going through eds.go - the facts the
// narrowing depends on (for every watched cluster: the service its host resolves to and the
// DestinationRules the current and the previous consolidated rule are built from) and writes them
// into the op line for the Lean driver; `exec` rebuilds the scenario and prints which clusters
// the real generator put into its response.
//
//	case <n> edsnarrow <proxy> <prev:0|1> <old world> <new world>
//	narrow <forced> <keys> <facts>       facts: host:svcNs|-:cur:prev (',' separated; rule lists ';' separated name.ns)
//
// Oracle (the property itself, no model): a cluster that exists before and after the change and is
// NOT regenerated must have the same ClusterLoadAssignment under the new state as under the old.

import (
	"fmt"
	"sort"
	"strconv"
	"strings"

	envoycore "github.com/envoyproxy/go-control-plane/envoy/config/core/v3"
	discovery "github.com/envoyproxy/go-control-plane/envoy/service/discovery/v3"

	"istio.io/istio/pilot/pkg/model"
	"istio.io/istio/pilot/pkg/networking/core"
	"istio.io/istio/pilot/pkg/xds"
	v3 "istio.io/istio/pilot/pkg/xds/v3"
	"istio.io/istio/pilot/test/xdstest"
	"istio.io/istio/pkg/config"
	"istio.io/istio/pkg/config/host"
	"istio.io/istio/pkg/config/schema/gvk"
	"istio.io/istio/pkg/config/schema/kind"
	"istio.io/istio/pkg/util/sets"
	"verifharness/internal/wire"
)

// the objects this stream draws worlds from: services with endpoints, DestinationRules,
// PeerAuthentications, Sidecars (the duplicated host of finding "sidecar switches service" is left
// out: it is recorded, and this stream is about the narrowing)
var narrowObjects = []string{"se-a", "se-b", "se-c", "we-1", "se-otel", "dr-a", "dr-b", "pa-mesh", "pa-ns1", "pa-ns2", "pa-wl", "sc-ns1", "sc-wl", "vs-a"}

var narrowHosts = []string{"", "a.example.com", "b.example.com", "b-alt.example.com", "c.example.com", "otel.example.com"}

func hostID(h string) int {
	for i, x := range narrowHosts {
		if x == h && i > 0 {
			return i
		}
	}
	return 99
}

func nsID(ns string) int {
	switch ns {
	case rootNamespace:
		return 0
	case "ns1":
		return 1
	case "ns2":
		return 2
	}
	return 9
}

// names of config objects, interned: DestinationRules and PeerAuthentications of the grammar
var narrowNames = []string{"", "dr-a", "dr-b", "default", "for-a"}

func nameID(n string) int {
	for i, x := range narrowNames {
		if x == n && i > 0 {
			return i
		}
	}
	return 98
}

// keysOfChange: the config keys istiod is told about when object id changes (old/new variant, -1 = absent)
func keysOfChange(id string, oldV, newV int) []model.ConfigKey {
	var out []model.ConfigKey
	add := func(v int) {
		if v < 0 {
			return
		}
		c := render(id, v)
		k := gvk.MustToKind(c.GroupVersionKind)
		switch k {
		case kind.ServiceEntry:
			for _, h := range seHosts(c) {
				out = append(out, model.ConfigKey{Kind: kind.ServiceEntry, Name: h, Namespace: c.Namespace})
			}
		case kind.WorkloadEntry:
			// a workload entry change reaches EDS as an endpoint update of the selecting services
			out = append(out, model.ConfigKey{Kind: kind.Endpoints, Name: "c.example.com", Namespace: "ns1"})
		default:
			out = append(out, model.ConfigKey{Kind: k, Name: c.Name, Namespace: c.Namespace})
		}
	}
	add(oldV)
	add(newV)
	return out
}

func seHosts(c config.Config) []string {
	type hosted interface{ GetHosts() []string }
	if h, ok := c.Spec.(hosted); ok {
		return h.GetHosts()
	}
	return nil
}

type narrowScenario struct {
	proxy    *model.Proxy
	oldProxy *model.Proxy
	newCG    *core.ConfigGenTest
	oldCG    *core.ConfigGenTest
	names    []string // watched clusters: the EDS clusters of the old and of the new world
	both     map[string]bool
}

type narrowEnv struct {
	f     *failer
	cache map[string]*core.ConfigGenTest
}

func newNarrowEnv() *narrowEnv {
	return &narrowEnv{f: &failer{}, cache: map[string]*core.ConfigGenTest{}}
}
func (e *narrowEnv) close() { e.f.done() }

func (e *narrowEnv) cg(w world) *core.ConfigGenTest {
	k := w.tok()
	if c, ok := e.cache[k]; ok {
		return c
	}
	c := core.NewConfigGenTest(e.f, core.TestOptions{Configs: w.configs(), MeshConfig: convergeMesh})
	e.cache[k] = c
	return c
}

func narrowProxy(name string) *model.Proxy {
	for _, d := range proxyDefs {
		if d.Name == name {
			typ := model.SidecarProxy
			if strings.HasPrefix(d.NodeID, "router") {
				typ = model.Router
			}
			parts := strings.Split(d.NodeID, "~")
			m := *d.Meta
			var loc *envoycore.Locality
			if d.Locality != "" {
				l := strings.Split(d.Locality, "/")
				loc = &envoycore.Locality{Region: l[0], Zone: l[1]}
			}
			return &model.Proxy{Locality: loc, Type: typ, IPAddresses: []string{parts[1]}, ID: parts[2], ConfigNamespace: d.Meta.Namespace,
				Metadata: &m, Labels: d.Meta.Labels, DNSDomain: parts[3]}
		}
	}
	panic("unknown proxy " + name)
}

func (e *narrowEnv) scenario(proxy string, prev bool, oldW, newW world) *narrowScenario {
	sc := &narrowScenario{oldCG: e.cg(oldW), newCG: e.cg(newW), both: map[string]bool{}}
	sc.oldProxy = sc.oldCG.SetupProxy(narrowProxy(proxy))
	sc.proxy = sc.newCG.SetupProxy(narrowProxy(proxy))
	if prev {
		sc.proxy.PrevSidecarScope = sc.oldProxy.SidecarScope
	} else {
		sc.proxy.PrevSidecarScope = nil
	}
	oldNames := sets.New(xdstest.ExtractEdsClusterNames(sc.oldCG.Clusters(sc.oldProxy))...)
	newNames := sets.New(xdstest.ExtractEdsClusterNames(sc.newCG.Clusters(sc.proxy))...)
	for n := range oldNames {
		if newNames.Contains(n) {
			sc.both[n] = true
		}
	}
	sc.names = sets.SortedList(oldNames.Union(newNames))
	return sc
}

func edsGen(cg *core.ConfigGenTest) *xds.EdsGenerator {
	return &xds.EdsGenerator{Cache: model.DisabledCache{}, EndpointIndex: cg.Env().EndpointIndex}
}

// regenerated: the clusters the real generator puts into its response for this request
func (sc *narrowScenario) regenerated(keys []model.ConfigKey, forced bool) map[string]*discovery.Resource {
	req := &model.PushRequest{ConfigsUpdated: sets.New(keys...), Push: sc.newCG.PushContext(), Forced: forced,
		Reason: model.NewReasonStats(model.ConfigUpdate)}
	w := &model.WatchedResource{TypeUrl: v3.EndpointType, ResourceNames: sets.New(sc.names...)}
	res, _, _ := edsGen(sc.newCG).Generate(sc.proxy, w, req)
	out := map[string]*discovery.Resource{}
	for _, r := range res {
		out[r.Name] = r
	}
	return out
}

// facts observed on the real scopes (not through eds.go)
func (sc *narrowScenario) facts() string {
	var out []string
	push := sc.newCG.PushContext()
	for _, n := range sc.names {
		_, _, hostname, _ := model.ParseSubsetKey(n)
		svc := push.ServiceForHostname(sc.proxy, hostname)
		svcTok := "-"
		var cur, prev []string
		if svc != nil {
			svcTok = strconv.Itoa(nsID(svc.Attributes.Namespace))
			for _, f := range sc.proxy.SidecarScope.DestinationRule(model.TrafficDirectionOutbound, sc.proxy, svc.Hostname).GetFrom() {
				cur = append(cur, fmt.Sprintf("%d.%d", nameID(f.Name), nsID(f.Namespace)))
			}
		}
		if sc.proxy.PrevSidecarScope != nil {
			for _, f := range sc.proxy.PrevSidecarScope.DestinationRule(model.TrafficDirectionOutbound, sc.proxy, host.Name(hostname)).GetFrom() {
				prev = append(prev, fmt.Sprintf("%d.%d", nameID(f.Name), nsID(f.Namespace)))
			}
		}
		out = append(out, fmt.Sprintf("%d:%s:%s:%s", hostID(string(hostname)), svcTok, semi(cur), semi(prev)))
	}
	return join(out)
}

func narrowKeyTok(k model.ConfigKey) string {
	n := nameID(k.Name)
	if k.Kind == kind.ServiceEntry || k.Kind == kind.Endpoints {
		n = hostID(k.Name)
	}
	return fmt.Sprintf("%s/%d/%d", k.Kind.String(), n, nsID(k.Namespace))
}

func narrowKeyBack(t string) model.ConfigKey {
	f := strings.Split(t, "/")
	k := kind.FromString(f[0])
	n, ns := atoi(f[1]), atoi(f[2])
	name := ""
	if k == kind.ServiceEntry || k == kind.Endpoints {
		if n < len(narrowHosts) {
			name = narrowHosts[n]
		} else {
			name = "unknown.example.com"
		}
	} else if n < len(narrowNames) {
		name = narrowNames[n]
	} else {
		name = "other"
	}
	return model.ConfigKey{Kind: k, Name: name, Namespace: nsName2(ns)}
}

func nsName2(id int) string {
	switch id {
	case 0:
		return rootNamespace
	case 1:
		return "ns1"
	case 2:
		return "ns2"
	}
	return "ns9"
}

func genNarrow(seed uint64, n int, out string) {
	r := wire.NewRng(seed*6151 + 3)
	o := wire.Create(out)
	defer o.Close()
	e := newNarrowEnv()
	defer e.close()
	for c := 0; c < n; c++ {
		cr := r.Fork()
		oldW := world{}
		for _, id := range narrowObjects {
			if cr.Chance(2, 3) {
				oldW[id] = cr.Intn(len(universeIndex[id].Variants))
			}
		}
		if _, ok := oldW["se-a"]; !ok {
			oldW["se-a"] = 0
		}
		newW := oldW.clone()
		var keys []model.ConfigKey
		for i := 1 + cr.Intn(2); i > 0; i-- {
			id := wire.Pick(cr, narrowObjects)
			if cr.Chance(1, 2) {
				id = wire.Pick(cr, []string{"dr-a", "dr-a", "dr-b", "pa-ns1", "pa-wl", "pa-mesh", "se-c", "we-1"})
			}
			nv := len(universeIndex[id].Variants)
			ov, had := newW[id]
			if !had {
				ov = -1
			}
			v := -1
			if !had || (nv > 1 && cr.Chance(2, 3)) {
				v = cr.Intn(nv)
				if v == ov {
					v = (v + 1) % nv
				}
			}
			if v == ov {
				continue
			}
			keys = append(keys, keysOfChange(id, ov, v)...)
			if v < 0 {
				delete(newW, id)
			} else {
				newW[id] = v
			}
		}
		proxy := wire.Pick(cr, []string{"sidecar-a", "sidecar-b", "sidecar-b", "router"})
		prev := !cr.Chance(1, 6)
		sc := e.scenario(proxy, prev, oldW, newW)
		o.Line("case", strconv.Itoa(c), "edsnarrow", proxy, wire.B(prev), oldW.tok(), newW.tok())
		reqs := [][]model.ConfigKey{keys}
		// the same scenario with fewer / other keys: what the generator does when it is told less or more
		if len(keys) > 1 {
			reqs = append(reqs, keys[:1])
		}
		if cr.Chance(1, 3) {
			reqs = append(reqs, append(append([]model.ConfigKey{}, keys...), model.ConfigKey{Kind: kind.Secret, Name: "s", Namespace: "ns1"}))
		}
		if cr.Chance(1, 3) {
			reqs = append(reqs, []model.ConfigKey{{Kind: kind.Endpoints, Name: "a.example.com", Namespace: "ns1"}})
		}
		facts := sc.facts()
		for i, ks := range reqs {
			var toks []string
			seen := map[string]bool{}
			for _, k := range ks {
				t := narrowKeyTok(k)
				if !seen[t] {
					seen[t] = true
					toks = append(toks, t)
				}
			}
			o.Line("narrow", wire.B(i == 0 && cr.Chance(1, 12)), join(toks), facts)
		}
	}
}

func parseNarrowCase(f []string, e *narrowEnv) *narrowScenario {
	return e.scenario(f[3], f[4] == "1", parseWorld(f[5]), parseWorld(f[6]))
}

func execNarrow(in, out string) {
	lines := wire.ReadLines(in)
	o := wire.Create(out)
	defer o.Close()
	e := newNarrowEnv()
	defer e.close()
	var sc *narrowScenario
	for _, f := range lines {
		func() {
			defer func() {
				if r := recover(); r != nil {
					o.Line("crash")
				}
				o.Flush()
			}()
			switch f[0] {
			case "case":
				sc = parseNarrowCase(f, e)
				o.Line("ok")
			case "narrow":
				var keys []model.ConfigKey
				for _, t := range parseList(f[2], ",") {
					keys = append(keys, narrowKeyBack(t))
				}
				v := agree(func() string {
					got := sc.regenerated(keys, f[1] == "1")
					var b strings.Builder
					for _, n := range sc.names {
						if got[n] != nil {
							b.WriteByte('1')
						} else {
							b.WriteByte('0')
						}
					}
					if b.Len() == 0 {
						return "-"
					}
					return b.String()
				})
				o.Line(v)
			default:
				o.Line("bad-op")
			}
		}()
	}
}

// oracleNarrow: skipping a cluster is sound only if its endpoints did not change.
func oracleNarrow(in, out string) {
	lines := wire.ReadLines(in)
	o := wire.Create(out)
	defer o.Close()
	e := newNarrowEnv()
	defer e.close()
	var sc *narrowScenario
	verdict, first := "", true
	flush := func() {
		if !first {
			if verdict == "" {
				verdict = "OK"
			}
			o.Line(verdict)
		}
		first, verdict = false, ""
	}
	claText := func(cg *core.ConfigGenTest, p *model.Proxy, names []string) map[string]string {
		req := &model.PushRequest{Push: cg.PushContext(), Forced: true, Reason: model.NewReasonStats(model.ConfigUpdate)}
		w := &model.WatchedResource{TypeUrl: v3.EndpointType, ResourceNames: sets.New(names...)}
		res, _, _ := edsGen(cg).Generate(p, w, req)
		m := map[string]string{}
		for _, r := range res {
			_, t := canon(r.Resource)
			m[r.Name] = t
		}
		return m
	}
	for _, f := range lines {
		func() {
			defer func() {
				if r := recover(); r != nil && verdict == "" {
					verdict = "FAIL crash " + wire.Enc(fmt.Sprint(r))
				}
			}()
			switch f[0] {
			case "case":
				flush()
				sc = parseNarrowCase(f, e)
				if f[4] != "1" {
					// no previous scope: the state of a proxy before its first push, which holds nothing
					// that could be stale; such scenarios are for the model correspondence only
					judged[sc] = &struct{}{}
				}
			case "narrow":
				var keys []model.ConfigKey
				for _, t := range parseList(f[2], ",") {
					keys = append(keys, narrowKeyBack(t))
				}
				// only the request that tells the truth about the change is judged (the first of a case)
				if verdict != "" || judged[sc] != nil {
					return
				}
				got := sc.regenerated(keys, f[1] == "1")
				oldCLA := claText(sc.oldCG, sc.oldProxy, sc.names)
				newCLA := claText(sc.newCG, sc.proxy, sc.names)
				var bad []string
				for _, n := range sc.names {
					if sc.both[n] && got[n] == nil && oldCLA[n] != newCLA[n] {
						bad = append(bad, wire.Enc(n))
					}
				}
				sort.Strings(bad)
				if len(bad) > 0 && judged[sc] == nil {
					verdict = "FAIL narrow-unsound " + strings.Join(bad, ",")
				}
				judged[sc] = &struct{}{}
			}
		}()
	}
	first = false
	flush()
}

var judged = map[*narrowScenario]*struct{}{}
