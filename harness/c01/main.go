// Harness for C01 (xDS converges to the current config, independent of update history).
//
//	c01 table  <name> <out.lean>                  T-gen: the real decision functions over the whole single-key domain
//	c01 gen    <stream> <seed> <ncases> <ops-out>
//	c01 exec   <stream> <ops-in> <impl-out>
//	c01 oracle <stream> <ops-in> <verdict-out>
//
// Streams: `needs` (random multi-key requests through the real *NeedsPush / DefaultProxyNeedsPush /
// computeProxyState, against the Lean model) and `converge` (frame-hypothesis validation on the real
// generators: long-lived client vs cold start on a FakeDiscoveryServer).
package main

import (
	"fmt"
	"os"
	"strconv"

	_ "verifharness/internal/quiet"
)

func main() {
	if len(os.Args) < 2 {
		fmt.Fprintln(os.Stderr, "usage: c01 table|gen|exec|oracle ...")
		os.Exit(2)
	}
	switch os.Args[1] {
	case "table":
		runTable(os.Args[3])
	case "gen":
		seed, _ := strconv.ParseUint(os.Args[3], 10, 64)
		n, _ := strconv.Atoi(os.Args[4])
		switch os.Args[2] {
		case "needs":
			genNeeds(seed, n, os.Args[5])
		case "converge":
			genConverge(seed, n, os.Args[5])
		case "edsnarrow":
			genNarrow(seed, n, os.Args[5])
		case "rebuild":
			genRebuild(seed, n, os.Args[5])
		case "converge-ambient":
			genConvergeAmbient(seed, n, os.Args[5])
		case "converge-sweep":
			genConvergeSweep(n, os.Args[5])
		case "converge-locality":
			genConvergeLocality(seed, n, os.Args[5])
		default:
			os.Exit(2)
		}
	case "exec":
		switch os.Args[2] {
		case "needs":
			execNeeds(os.Args[3], os.Args[4])
		case "edsnarrow":
			execNarrow(os.Args[3], os.Args[4])
		default:
			os.Exit(2)
		}
	case "oracle":
		switch os.Args[2] {
		case "needs":
			oracleNeeds(os.Args[3], os.Args[4])
		case "converge":
			oracleConverge(os.Args[3], os.Args[4])
		case "edsnarrow":
			oracleNarrow(os.Args[3], os.Args[4])
		case "rebuild":
			oracleRebuild(os.Args[3], os.Args[4])
		default:
			os.Exit(2)
		}
	default:
		os.Exit(2)
	}
}
