package main

// Kubernetes part of the `converge` grammar: composite objects (a Service with its Pods and its
// EndpointSlice), applied through the fake kube client of the FakeDiscoveryServer, so that the
// real kube service registry (service / endpointslice / pod controllers) produces the push
// requests - including the headless-endpoint marker of endpointslice.go.

import (
	"context"
	"fmt"
	"reflect"
	"strings"

	corev1 "k8s.io/api/core/v1"
	discoveryv1 "k8s.io/api/discovery/v1"
	kerrors "k8s.io/apimachinery/pkg/api/errors"
	metav1 "k8s.io/apimachinery/pkg/apis/meta/v1"
	"k8s.io/apimachinery/pkg/runtime"
	"k8s.io/apimachinery/pkg/util/intstr"
	gatewayv1 "sigs.k8s.io/gateway-api/apis/v1"

	kubelib "istio.io/istio/pkg/kube"
)

type podDef struct {
	Name, IP, SA string
	NotReady     bool              // the endpoint is listed in the slice with ready=false
	Labels       map[string]string // extra / overriding pod labels of this variant
}

func pd(name, ip, sa string) podDef { return podDef{Name: name, IP: ip, SA: sa} }

type kubeSvcDef struct {
	ID        string
	Name      string
	Ns        string
	Headless  bool
	ClusterIP string
	PortName  string
	Port      int32
	App       string
	Variants  [][]podDef
	// SvcAnnotations, when set, gives the annotations of the Service per variant
	SvcAnnotations []map[string]string
	// PodOnly: pods without a Service / EndpointSlice (selected by ServiceEntry workload selectors)
	PodOnly bool
	// SvcPortName, when set, gives the name of the service port (and of the slice port) per variant ("" = PortName):
	// the name decides the protocol (http -> HTTP, tcp -> TCP)
	SvcPortName []string
	// SliceOnly: no Service of its own - an additional EndpointSlice (plus its pods) labelled for the Service named in
	// SliceService[variant] with port SlicePort[variant] / name SlicePortName[variant]: a second slice of a Service, and a
	// slice that is RELABELLED from one Service to another
	SliceOnly     bool
	SliceService  []string
	SlicePort     []int32
	SlicePortName []string
	// SvcLabels: labels of the Service; LBIP: when set, the Service is of type LoadBalancer with this ingress IP per variant
	SvcLabels map[string]string
	LBIP      []string
	// SharedPods: the pods named in Variants exist independently of this object (it only lists them in its slice)
	SharedPods bool
	// Permanent: the pod exists in every world (it is the pod of a connected proxy, which does not outlive its pod);
	// absent = variant 0, delete = back to variant 0, create / update = the pod is updated in place
	Permanent bool
	// TargetPort, when set, gives the service's target port per variant (0: the service port)
	TargetPort []int32
	PodLabels  map[string]string
}

var kubeUniverse = []kubeSvcDef{
	{
		ID: "k-hsvc", Name: "hsvc", Ns: "ns1", Headless: true, PortName: "tcp", Port: 9090, App: "h",
		Variants: [][]podDef{
			{pd("h1", "10.40.0.1", "sa-h1")},
			{pd("h1", "10.40.0.1", "sa-h1"), pd("h2", "10.40.0.2", "sa-h2")},
			{pd("h2", "10.40.0.2", "sa-h2")},
			{pd("h1", "10.40.0.1", "sa-h1"), pd("h3", "10.40.0.3", "sa-h1")},
			{pd("h1", "10.40.0.1", "sa-h1"), {Name: "h3", IP: "10.40.0.3", SA: "sa-h1", NotReady: true}},
		},
	},
	{
		ID: "k-svc", Name: "ksvc", Ns: "ns1", ClusterIP: "10.50.0.1", PortName: "http", Port: 80, App: "k",
		Variants: [][]podDef{
			{pd("k1", "10.41.0.1", "sa-k1")},
			{pd("k1", "10.41.0.1", "sa-k1"), pd("k2", "10.41.0.2", "sa-k2")},
			{pd("k2", "10.41.0.2", "sa-k2")},
			{},
			// 4, 5: readiness - an endpoint that is listed but not ready; all endpoints not ready
			{pd("k1", "10.41.0.1", "sa-k1"), {Name: "k3", IP: "10.41.0.3", SA: "sa-k1", NotReady: true}},
			{{Name: "k1", IP: "10.41.0.1", SA: "sa-k1", NotReady: true}},
			// 6: like 0, exported to its own namespace only (annotation on the Service)
			{pd("k1", "10.41.0.1", "sa-k1")},
			// 7: pods sharing one service account
			{pd("k1", "10.41.0.1", "sa-k1"), pd("k3", "10.41.0.3", "sa-k1")},
			// 8, 9, 10: exported to NOBODY (exportTo "~"), with one pod, no pod, two pods: endpoint changes while nobody may
			// be pushed must still reach the endpoint index
			{pd("k1", "10.41.0.1", "sa-k1")},
			{},
			{pd("k1", "10.41.0.1", "sa-k1"), pd("k2", "10.41.0.2", "sa-k2")},
			// 11: like 0 with the port named tcp (the Service spec itself changes: protocol)
			{pd("k1", "10.41.0.1", "sa-k1")},
		},
		SvcAnnotations: []map[string]string{nil, nil, nil, nil, nil, nil, {"networking.istio.io/exportTo": "."}, nil,
			{"networking.istio.io/exportTo": "~"}, {"networking.istio.io/exportTo": "~"}, {"networking.istio.io/exportTo": "~"}, nil},
		SvcPortName: []string{"", "", "", "", "", "", "", "", "", "", "", "tcp"},
	},
	{
		ID: "k-hhttp", Name: "hhttp", Ns: "ns2", Headless: true, PortName: "http", Port: 8080, App: "hh",
		Variants: [][]podDef{
			{pd("hh1", "10.42.0.1", "sa-hh")},
			{pd("hh1", "10.42.0.1", "sa-hh"), pd("hh2", "10.42.0.2", "sa-hh")},
		},
	},
}

func init() {
	// the Service in front of the router: the listeners of a gateway bind to the TARGET port of the
	// service that selects it, so the router's merged gateways depend on services as well
	kubeUniverse = append(kubeUniverse, kubeSvcDef{
		ID: "k-gwsvc", Name: "istio-ingressgateway", Ns: "istio-system", ClusterIP: "10.50.0.9", PortName: "http", Port: 80, App: "gw",
		PodLabels: map[string]string{"istio": "ingressgateway"}, SharedPods: true,
		Variants:   [][]podDef{{pd("gw", "10.2.0.1", "gw")}, {pd("gw", "10.2.0.1", "gw")}, {pd("gw", "10.2.0.1", "gw")}},
		TargetPort: []int32{8080, 9080, 80},
	})
	// the router's own pod: 1 = relabelled (ProxyUpdate), Gateways selecting istio=ingressgateway stop applying
	kubeUniverse = append(kubeUniverse, kubeSvcDef{
		ID: "k-gwpod", Name: "gw", Ns: "istio-system", App: "gw", PodOnly: true, Permanent: true,
		PodLabels: map[string]string{"istio": "ingressgateway"},
		Variants: [][]podDef{{pd("gw", "10.2.0.1", "gw")},
			{{Name: "gw", IP: "10.2.0.1", SA: "gw", Labels: map[string]string{"istio": "other"}}}},
	})
	// a pod selected by ServiceEntry workload selectors (app=we): cross-registry selection
	kubeUniverse = append(kubeUniverse, kubeSvcDef{
		ID: "k-wepod", Name: "wepod", Ns: "ns1", App: "we", PodOnly: true,
		Variants: [][]podDef{{pd("wepod", "10.30.0.9", "we-sa")}, {pd("wepod", "10.30.0.9", "we-sa3")}},
	})
	// the gateway of network net2 (label topology.istio.io/network): endpoints on net2 are reached through its address
	kubeUniverse = append(kubeUniverse, kubeSvcDef{
		ID: "k-nwgw", Name: "nwgw", Ns: "istio-system", ClusterIP: "10.50.0.8", PortName: "tls", Port: 15443, App: "nwgw",
		Variants: [][]podDef{{}, {}}, SvcLabels: map[string]string{"topology.istio.io/network": "net2"}, LBIP: []string{"1.2.3.4", "1.2.3.5"},
	})
	// a SECOND EndpointSlice: 0 = of ksvc (port http/80), 1 = the same slice relabelled to hsvc (port tcp/9090),
	// 2 = of ksvc with its endpoint not ready
	kubeUniverse = append(kubeUniverse, kubeSvcDef{
		ID: "k-slice2", Name: "extra", Ns: "ns1", App: "k", SliceOnly: true,
		Variants: [][]podDef{{pd("k9", "10.41.0.9", "sa-k9")}, {pd("k9", "10.41.0.9", "sa-k9")},
			{{Name: "k9", IP: "10.41.0.9", SA: "sa-k9", NotReady: true}}},
		SliceService: []string{"ksvc", "hsvc", "ksvc"}, SlicePort: []int32{80, 9090, 80}, SlicePortName: []string{"http", "tcp", "http"},
	})
	for i := range kubeUniverse {
		kubeIndex[kubeUniverse[i].ID] = &kubeUniverse[i]
	}
}

var kubeIndex = func() map[string]*kubeSvcDef {
	m := map[string]*kubeSvcDef{}
	for i := range kubeUniverse {
		m[kubeUniverse[i].ID] = &kubeUniverse[i]
	}
	return m
}()

func isKube(id string) bool { return kubeIndex[id] != nil }

func (d *kubeSvcDef) targetPort(variant int) int32 {
	if variant >= 0 && variant < len(d.TargetPort) && d.TargetPort[variant] != 0 {
		return d.TargetPort[variant]
	}
	return d.Port
}

func (d *kubeSvcDef) portName(variant int) string {
	if variant >= 0 && variant < len(d.SvcPortName) && d.SvcPortName[variant] != "" {
		return d.SvcPortName[variant]
	}
	return d.PortName
}

func (d *kubeSvcDef) service(variant int) *corev1.Service {
	var ann map[string]string
	if variant >= 0 && variant < len(d.SvcAnnotations) {
		ann = d.SvcAnnotations[variant]
	}
	s := &corev1.Service{
		ObjectMeta: metav1.ObjectMeta{Name: d.Name, Namespace: d.Ns, Annotations: ann, CreationTimestamp: metav1.NewTime(baseTime)},
		Spec: corev1.ServiceSpec{
			Selector: map[string]string{"app": d.App},
			Ports:    []corev1.ServicePort{{Name: d.portName(variant), Port: d.Port, TargetPort: intstr.FromInt32(d.targetPort(variant)), Protocol: corev1.ProtocolTCP}},
		},
	}
	if d.Headless {
		s.Spec.ClusterIP = corev1.ClusterIPNone
	} else {
		s.Spec.ClusterIP = d.ClusterIP
	}
	s.Labels = d.SvcLabels
	if variant >= 0 && variant < len(d.LBIP) {
		s.Spec.Type = corev1.ServiceTypeLoadBalancer
		s.Status.LoadBalancer.Ingress = []corev1.LoadBalancerIngress{{IP: d.LBIP[variant]}}
	}
	return s
}

func (d *kubeSvcDef) pod(p podDef) *corev1.Pod {
	labels := map[string]string{"app": d.App, "security.istio.io/tlsMode": "istio"}
	for k, v := range d.PodLabels {
		labels[k] = v
	}
	for k, v := range p.Labels {
		labels[k] = v
	}
	return &corev1.Pod{
		ObjectMeta: metav1.ObjectMeta{Name: p.Name, Namespace: d.Ns, Labels: labels,
			CreationTimestamp: metav1.NewTime(baseTime)},
		Spec: corev1.PodSpec{ServiceAccountName: p.SA, NodeName: nodeOf(p.Name), Containers: []corev1.Container{{Name: "app", Image: "app"}}},
		Status: corev1.PodStatus{
			Conditions: []corev1.PodCondition{{Type: corev1.PodReady, Status: corev1.ConditionTrue, LastTransitionTime: metav1.NewTime(baseTime)}},
			PodIP:      p.IP, HostIP: "10.0.0.1", PodIPs: []corev1.PodIP{{IP: p.IP}}, Phase: corev1.PodRunning,
		},
	}
}

func (d *kubeSvcDef) slice(pods []podDef, variant int) *discoveryv1.EndpointSlice {
	tp := d.targetPort(variant)
	svcName, pn := d.Name, d.portName(variant)
	if d.SliceOnly {
		svcName, pn, tp = d.SliceService[variant], d.SlicePortName[variant], d.SlicePort[variant]
	}
	es := &discoveryv1.EndpointSlice{
		ObjectMeta: metav1.ObjectMeta{Name: d.Name + "-1", Namespace: d.Ns, Labels: map[string]string{discoveryv1.LabelServiceName: svcName},
			CreationTimestamp: metav1.NewTime(baseTime)},
		AddressType: discoveryv1.AddressTypeIPv4,
		Ports:       []discoveryv1.EndpointPort{{Name: &pn, Port: &tp}},
	}
	for _, p := range pods {
		// a pod that is not ready (and not shutting down): all three conditions set, as current API servers do
		ready, terminating := !p.NotReady, false
		es.Endpoints = append(es.Endpoints, discoveryv1.Endpoint{
			Addresses:  []string{p.IP},
			Conditions: discoveryv1.EndpointConditions{Ready: &ready, Serving: &ready, Terminating: &terminating},
			TargetRef:  &corev1.ObjectReference{Kind: "Pod", Name: p.Name, Namespace: d.Ns},
		})
	}
	return es
}

// nodeOf: pods whose name ends in 2 run on node2 (region2), the others on node1 (region1): kube endpoints get localities
func nodeOf(pod string) string {
	if strings.HasSuffix(pod, "2") {
		return "node2"
	}
	return "node1"
}

func nodeObjects() []runtime.Object {
	mk := func(name, region, zone string) *corev1.Node {
		return &corev1.Node{ObjectMeta: metav1.ObjectMeta{Name: name, CreationTimestamp: metav1.NewTime(baseTime),
			Labels: map[string]string{"topology.kubernetes.io/region": region, "topology.kubernetes.io/zone": zone}}}
	}
	return []runtime.Object{mk("node1", "region1", "zone1"), mk("node2", "region2", "zone1")}
}

// kubeObjects renders the initial objects of a world.
func kubeObjects(w world) []runtime.Object {
	out := nodeObjects()
	for _, d := range kubeUniverse {
		v, ok := w[d.ID]
		d := d
		if d.Permanent {
			out = append(out, d.pod(d.Variants[v][0])) // absent: v = 0
			continue
		}
		if !ok {
			continue
		}
		if !d.PodOnly && !d.SliceOnly {
			out = append(out, d.service(v))
		}
		if !d.SharedPods {
			for _, p := range d.Variants[v] {
				out = append(out, d.pod(p))
			}
		}
		if !d.PodOnly {
			out = append(out, d.slice(d.Variants[v], v))
		}
	}
	return out
}

// applyKube performs create / update / delete of a composite object through the kube client:
// pods first, then the endpoint slice (the order a kubelet and the endpointslice controller
// produce), the service first on create and last on delete.
func applyKube(c kubelib.Client, op, id string, variant int, cur world) error {
	d := kubeIndex[id]
	ctx := context.Background()
	k := c.Kube()
	old, had := cur[id]
	if d.Permanent {
		nv := variant
		if op == "delete" {
			nv = 0
		}
		if fmt.Sprint(d.Variants[old][0].Labels) == fmt.Sprint(d.Variants[nv][0].Labels) { // absent: old = 0
			return nil
		}
		_, err := k.CoreV1().Pods(d.Ns).Update(ctx, d.pod(d.Variants[nv][0]), metav1.UpdateOptions{})
		return err
	}
	var oldPods []podDef
	if had && !d.SharedPods {
		oldPods = d.Variants[old]
	}
	hasSvc, hasSlice := !d.PodOnly && !d.SliceOnly, !d.PodOnly
	in := func(ps []podDef, n string) bool {
		for _, p := range ps {
			if p.Name == n {
				return true
			}
		}
		return false
	}
	notFoundOK := func(err error) error {
		if kerrors.IsNotFound(err) {
			return nil
		}
		return err
	}
	// the three parts of a composite object; the ORDER in which their events reach istiod is chosen per history
	// (kubeOrder): a kubelet / endpointslice controller / user produce them independently
	var svcAct, podAct, sliceAct, podDel func() error
	switch op {
	case "create":
		svcAct = func() error {
			_, err := k.CoreV1().Services(d.Ns).Create(ctx, d.service(variant), metav1.CreateOptions{})
			return err
		}
		podAct = func() error {
			for _, p := range d.Variants[variant] {
				if d.SharedPods {
					break
				}
				if _, err := k.CoreV1().Pods(d.Ns).Create(ctx, d.pod(p), metav1.CreateOptions{}); err != nil {
					return err
				}
			}
			return nil
		}
		sliceAct = func() error {
			_, err := k.DiscoveryV1().EndpointSlices(d.Ns).Create(ctx, d.slice(d.Variants[variant], variant), metav1.CreateOptions{})
			return err
		}
	case "update":
		newPods := d.Variants[variant]
		svcAct = func() error {
			if had && !reflect.DeepEqual(d.service(old), d.service(variant)) {
				_, err := k.CoreV1().Services(d.Ns).Update(ctx, d.service(variant), metav1.UpdateOptions{})
				return err
			}
			return nil
		}
		podAct = func() error {
			for _, p := range newPods {
				if d.SharedPods {
					break
				}
				if !in(oldPods, p.Name) {
					if _, err := k.CoreV1().Pods(d.Ns).Create(ctx, d.pod(p), metav1.CreateOptions{}); err != nil {
						return err
					}
					continue
				}
				// the pod stays: its labels or service account may have changed
				for _, o := range oldPods {
					if o.Name == p.Name && (o.SA != p.SA || fmt.Sprint(o.Labels) != fmt.Sprint(p.Labels)) {
						if _, err := k.CoreV1().Pods(d.Ns).Update(ctx, d.pod(p), metav1.UpdateOptions{}); err != nil {
							return err
						}
					}
				}
			}
			return nil
		}
		sliceAct = func() error {
			_, err := k.DiscoveryV1().EndpointSlices(d.Ns).Update(ctx, d.slice(newPods, variant), metav1.UpdateOptions{})
			return err
		}
		podDel = func() error {
			for _, p := range oldPods {
				if !in(newPods, p.Name) {
					if err := notFoundOK(k.CoreV1().Pods(d.Ns).Delete(ctx, p.Name, metav1.DeleteOptions{})); err != nil {
						return err
					}
				}
			}
			return nil
		}
	case "delete":
		svcAct = func() error { return k.CoreV1().Services(d.Ns).Delete(ctx, d.Name, metav1.DeleteOptions{}) }
		podAct = func() error {
			for _, p := range oldPods {
				if err := notFoundOK(k.CoreV1().Pods(d.Ns).Delete(ctx, p.Name, metav1.DeleteOptions{})); err != nil {
					return err
				}
			}
			return nil
		}
		sliceAct = func() error {
			return notFoundOK(k.DiscoveryV1().EndpointSlices(d.Ns).Delete(ctx, d.Name+"-1", metav1.DeleteOptions{}))
		}
	default:
		return fmt.Errorf("unknown op %s", op)
	}
	if !hasSvc {
		svcAct = nil
	}
	if !hasSlice {
		sliceAct = nil
	}
	// order 0 is the usual one (create: Service, pods, slice; update: pods, Service, slice, removed pods; delete: slice,
	// pods, Service); 1..3 permute the parts
	orders := map[string][4][]func() error{
		"create": {{svcAct, podAct, sliceAct}, {podAct, sliceAct, svcAct}, {sliceAct, svcAct, podAct}, {sliceAct, podAct, svcAct}},
		"update": {{podAct, svcAct, sliceAct, podDel}, {sliceAct, podAct, svcAct, podDel}, {svcAct, sliceAct, podAct, podDel}, {podAct, podDel, sliceAct, svcAct}},
		"delete": {{sliceAct, podAct, svcAct}, {svcAct, sliceAct, podAct}, {podAct, sliceAct, svcAct}, {svcAct, podAct, sliceAct}},
	}
	for _, act := range orders[op][kubeOrder%4] {
		if act == nil {
			continue
		}
		if err := act(); err != nil {
			return err
		}
	}
	return nil
}

// kubeOrder: the order in which the parts of a composite kube object are written in the current history (case flag
// `order=<n>`); the cold-started server gets all objects at once.
var kubeOrder int

// ---------------------------------------------------------------- Gateway API

// Always present: the GatewayClass of istio's gateway controller.
const gatewayClassYAML = `apiVersion: gateway.networking.k8s.io/v1
kind: GatewayClass
metadata:
  name: istio
spec:
  controllerName: istio.io/gateway-controller
`

// Gateway API objects (ids `kg-*`): a Gateway bound to the router's Service and an HTTPRoute whose
// backends are Kubernetes services of the grammar; what the gateway controller generates from them
// (PushContext.initKubernetesGateways) depends on the services that exist.
var gwapiUniverse = []objDef{
	{ID: "kg-gw", Variants: []string{
		`apiVersion: gateway.networking.k8s.io/v1
kind: Gateway
metadata:
  name: kgw
  namespace: istio-system
spec:
  addresses:
  - {value: istio-ingressgateway, type: Hostname}
  gatewayClassName: istio
  listeners:
  - name: default
    hostname: "*.kgw.example"
    port: 80
    protocol: HTTP
    allowedRoutes:
      namespaces: {from: All}
`,
		`apiVersion: gateway.networking.k8s.io/v1
kind: Gateway
metadata:
  name: kgw
  namespace: istio-system
spec:
  addresses:
  - {value: istio-ingressgateway, type: Hostname}
  gatewayClassName: istio
  listeners:
  - name: default
    hostname: "*.kgw.example"
    port: 80
    protocol: HTTP
    allowedRoutes:
      namespaces: {from: All}
  - name: second
    hostname: "second.example"
    port: 80
    protocol: HTTP
    allowedRoutes:
      namespaces: {from: All}
`,
	}},
	{ID: "kg-route", Variants: []string{
		`apiVersion: gateway.networking.k8s.io/v1
kind: HTTPRoute
metadata:
  name: kroute
  namespace: ns1
spec:
  parentRefs:
  - {name: kgw, namespace: istio-system}
  hostnames: ["first.kgw.example"]
  rules:
  - backendRefs:
    - {name: ksvc, port: 80}
`,
		`apiVersion: gateway.networking.k8s.io/v1
kind: HTTPRoute
metadata:
  name: kroute
  namespace: ns1
spec:
  parentRefs:
  - {name: kgw, namespace: istio-system}
  hostnames: ["first.kgw.example", "second.example"]
  rules:
  - matches:
    - path: {type: PathPrefix, value: /h}
    backendRefs:
    - {name: hsvc, port: 9090}
  - backendRefs:
    - {name: ksvc, port: 80, weight: 3}
    - {name: hsvc, port: 9090, weight: 1}
`,
	}},
}

var gwapiIndex = func() map[string]*objDef {
	m := map[string]*objDef{}
	for i := range gwapiUniverse {
		m[gwapiUniverse[i].ID] = &gwapiUniverse[i]
	}
	return m
}()

func isGwapi(id string) bool { return gwapiIndex[id] != nil }

func gwapiObjects(w world) []runtime.Object {
	out := decodeObjects(gatewayClassYAML)
	for _, d := range gwapiUniverse {
		if v, ok := w[d.ID]; ok {
			out = append(out, decodeObjects(d.Variants[v])...)
		}
	}
	return out
}

func applyGwapi(c kubelib.Client, op, id string, variant int) error {
	ctx := context.Background()
	v := variant
	if op == "delete" {
		v = 0
	}
	for _, o := range decodeObjects(gwapiIndex[id].Variants[v]) {
		var err error
		switch x := o.(type) {
		case *gatewayv1.Gateway:
			api := c.GatewayAPI().GatewayV1().Gateways(x.Namespace)
			switch op {
			case "create":
				_, err = api.Create(ctx, x, metav1.CreateOptions{})
			case "update":
				_, err = api.Update(ctx, x, metav1.UpdateOptions{})
			default:
				err = api.Delete(ctx, x.Name, metav1.DeleteOptions{})
			}
		case *gatewayv1.HTTPRoute:
			api := c.GatewayAPI().GatewayV1().HTTPRoutes(x.Namespace)
			switch op {
			case "create":
				_, err = api.Create(ctx, x, metav1.CreateOptions{})
			case "update":
				_, err = api.Update(ctx, x, metav1.UpdateOptions{})
			default:
				err = api.Delete(ctx, x.Name, metav1.DeleteOptions{})
			}
		default:
			err = fmt.Errorf("gateway api: cannot apply %T", o)
		}
		if err != nil {
			return err
		}
	}
	return nil
}
