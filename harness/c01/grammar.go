package main

// Config grammar of the `converge` stream: a fixed universe of objects (one per id) over every
// config kind of the property's quantifier, each with a few spec variants. A world is a map
// id -> variant; a change creates, updates (other variant) or deletes one object.

import (
	"fmt"
	"sort"
	"strings"
	"time"

	"istio.io/istio/pilot/pkg/config/kube/crd"
	"istio.io/istio/pkg/config"
)

type objDef struct {
	ID       string
	Variants []string // YAML
}

const jwks = `{\"keys\":[{\"e\":\"AQAB\",\"kid\":\"DHFbpoIUqrY8t2zpA2qXfCmr5VO5ZEr4RzHU_-envvQ\",\"kty\":\"RSA\",\"n\":\"xAE7eB6qugXyCAG3yhh7pkDkT65pHymX-P7KfIupjf59vsdo91bSP9C8H07pSAGQO1MV_xFj9VswgsCg4R6otmg5PV2He95lZdHtOcU5DXIg_pbhLdKXbi66GlVeK6ABZOUW3WYtnNHD-91gVuoeJT_DwtGGcp4ignkgXfkiEm4sw-4sfb4qdt5oLbyVpmW6x9cfa7vs2WTfURiCrBoUqgBo_-4WTiULmmHSGZHOjzwa8WtrtOQGsAFjIbno85jp6MnGGGZPYZbDAa_b3y5u-YpW7ypZrvD8BgtKVjgtQgZhLAGezMt0ua3DRrWnKqTZ0BJ_EyxOGuHJrLsn00fnMQ\"}]}`

func meta(kindName, api, name, ns string) string {
	return fmt.Sprintf("apiVersion: %s\nkind: %s\nmetadata:\n  name: %s\n  namespace: %s\n", api, kindName, name, ns)
}

const (
	netAPI = "networking.istio.io/v1"
	secAPI = "security.istio.io/v1"
)

var universe = []objDef{
	{ID: "se-a", Variants: []string{
		meta("ServiceEntry", netAPI, "se-a", "ns1") + `spec:
  hosts: [a.example.com]
  addresses: [10.10.0.1]
  ports:
  - {number: 80, name: http, protocol: HTTP}
  resolution: STATIC
  location: MESH_INTERNAL
  endpoints:
  - {address: 10.20.0.1, locality: region1/zone1, labels: {app: a, version: v1, security.istio.io/tlsMode: istio}}
  - {address: 10.20.0.2, locality: region2/zone1, labels: {app: a, version: v2, security.istio.io/tlsMode: istio}}
`,
		meta("ServiceEntry", netAPI, "se-a", "ns1") + `spec:
  hosts: [a.example.com]
  addresses: [10.10.0.1]
  ports:
  - {number: 80, name: http, protocol: HTTP}
  - {number: 9000, name: tcp, protocol: TCP}
  resolution: STATIC
  location: MESH_INTERNAL
  endpoints:
  - {address: 10.20.0.1, locality: region1/zone1, labels: {app: a, version: v1, security.istio.io/tlsMode: istio}}
  - {address: 10.20.0.2, locality: region2/zone1, labels: {app: a, version: v2, security.istio.io/tlsMode: istio}}
`,
		meta("ServiceEntry", netAPI, "se-a", "ns1") + `spec:
  hosts: [a.example.com]
  addresses: [10.10.0.1]
  ports:
  - {number: 80, name: http, protocol: HTTP}
  resolution: STATIC
  location: MESH_INTERNAL
  endpoints:
  - {address: 10.20.0.1, locality: region1/zone1, labels: {app: a, version: v1, security.istio.io/tlsMode: istio}}
  - {address: 10.20.0.3, locality: region3/zone1, labels: {app: a, version: v2}, serviceAccount: sa-new}
`,
		meta("ServiceEntry", netAPI, "se-a", "ns1") + `spec:
  hosts: [a.example.com]
  addresses: [10.10.0.1]
  exportTo: ["."]
  ports:
  - {number: 80, name: http, protocol: HTTP}
  resolution: STATIC
  location: MESH_INTERNAL
  endpoints:
  - {address: 10.20.0.1, locality: region1/zone1, labels: {app: a, version: v1, security.istio.io/tlsMode: istio}}
`,
		// 4: targetPort and per-endpoint port overrides
		meta("ServiceEntry", netAPI, "se-a", "ns1") + `spec:
  hosts: [a.example.com]
  addresses: [10.10.0.1]
  ports:
  - {number: 80, name: http, protocol: HTTP, targetPort: 8080}
  resolution: STATIC
  location: MESH_INTERNAL
  endpoints:
  - {address: 10.20.0.1, locality: region1/zone1, labels: {app: a, version: v1, security.istio.io/tlsMode: istio}}
  - {address: 10.20.0.2, locality: region2/zone1, labels: {app: a, version: v2, security.istio.io/tlsMode: istio}, ports: {http: 8081}}
`,
		// 5: the endpoints MOVED: everything in region2 / region3
		meta("ServiceEntry", netAPI, "se-a", "ns1") + `spec:
  hosts: [a.example.com]
  addresses: [10.10.0.1]
  ports:
  - {number: 80, name: http, protocol: HTTP}
  resolution: STATIC
  location: MESH_INTERNAL
  endpoints:
  - {address: 10.20.0.1, locality: region2/zone1, labels: {app: a, version: v1, security.istio.io/tlsMode: istio}}
  - {address: 10.20.0.2, locality: region3/zone1, labels: {app: a, version: v2, security.istio.io/tlsMode: istio}}
`,
		// 6: no localities at all, three endpoints
		meta("ServiceEntry", netAPI, "se-a", "ns1") + `spec:
  hosts: [a.example.com]
  addresses: [10.10.0.1]
  ports:
  - {number: 80, name: http, protocol: HTTP}
  resolution: STATIC
  location: MESH_INTERNAL
  endpoints:
  - {address: 10.20.0.1, labels: {app: a, version: v1, security.istio.io/tlsMode: istio}}
  - {address: 10.20.0.2, labels: {app: a, version: v2, security.istio.io/tlsMode: istio}}
  - {address: 10.20.0.4, locality: region1/zone2, labels: {app: a, version: v2, security.istio.io/tlsMode: istio}}
`,
	}},
	{ID: "se-b", Variants: []string{
		meta("ServiceEntry", netAPI, "se-b", "ns2") + `spec:
  hosts: [b.example.com]
  ports:
  - {number: 8080, name: http, protocol: HTTP}
  resolution: DNS
  location: MESH_EXTERNAL
  endpoints:
  - {address: b1.backend.example}
`,
		meta("ServiceEntry", netAPI, "se-b", "ns2") + `spec:
  hosts: [b.example.com]
  ports:
  - {number: 8080, name: http, protocol: HTTP}
  resolution: DNS
  location: MESH_EXTERNAL
  endpoints:
  - {address: b2.backend.example}
`,
		meta("ServiceEntry", netAPI, "se-b", "ns2") + `spec:
  hosts: [b.example.com, b-alt.example.com]
  ports:
  - {number: 8080, name: http, protocol: HTTP}
  - {number: 443, name: tls, protocol: TLS}
  resolution: DNS
  location: MESH_EXTERNAL
  endpoints:
  - {address: b1.backend.example}
`,
	}},
	// the same hostname in two namespaces: which service a proxy resolves it to depends on its Sidecar
	{ID: "se-dup1", Variants: []string{
		meta("ServiceEntry", netAPI, "se-dup", "ns1") + `spec:
  hosts: [dup.example.com]
  addresses: [10.10.0.6]
  ports:
  - {number: 80, name: http, protocol: HTTP}
  resolution: STATIC
  location: MESH_INTERNAL
  endpoints:
  - {address: 10.26.0.1}
`,
	}},
	{ID: "se-dup2", Variants: []string{
		meta("ServiceEntry", netAPI, "se-dup", "ns2") + `spec:
  hosts: [dup.example.com]
  addresses: [10.10.0.7]
  ports:
  - {number: 80, name: http, protocol: HTTP}
  resolution: STATIC
  location: MESH_INTERNAL
  endpoints:
  - {address: 10.26.0.2}
  - {address: 10.26.0.3}
`,
	}},
	{ID: "se-otel", Variants: []string{
		meta("ServiceEntry", netAPI, "se-otel", "istio-system") + `spec:
  hosts: [otel.example.com]
  addresses: [10.10.0.9]
  ports:
  - {number: 4317, name: grpc-otel, protocol: GRPC}
  - {number: 9411, name: http-zipkin, protocol: HTTP}
  - {number: 8081, name: grpc-als, protocol: GRPC}
  resolution: STATIC
  location: MESH_INTERNAL
  endpoints:
  - {address: 10.25.0.1}
`,
		meta("ServiceEntry", netAPI, "se-otel", "istio-system") + `spec:
  hosts: [otel.example.com]
  addresses: [10.10.0.9]
  ports:
  - {number: 4317, name: grpc-otel, protocol: GRPC}
  resolution: STATIC
  location: MESH_INTERNAL
  endpoints:
  - {address: 10.25.0.1}
`,
	}},
	{ID: "se-authz", Variants: []string{
		meta("ServiceEntry", netAPI, "se-authz", "ns2") + `spec:
  hosts: [authz.example.com]
  addresses: [10.10.0.8]
  ports:
  - {number: 9000, name: grpc, protocol: GRPC}
  resolution: STATIC
  location: MESH_INTERNAL
  endpoints:
  - {address: 10.25.0.2}
`,
	}},
	{ID: "se-c", Variants: []string{
		meta("ServiceEntry", netAPI, "se-c", "ns1") + `spec:
  hosts: [c.example.com]
  addresses: [10.10.0.3]
  ports:
  - {number: 9001, name: tcp, protocol: TCP}
  resolution: STATIC
  location: MESH_INTERNAL
  workloadSelector:
    labels: {app: we}
`,
		meta("ServiceEntry", netAPI, "se-c", "ns1") + `spec:
  hosts: [c.example.com]
  addresses: [10.10.0.3]
  ports:
  - {number: 9001, name: tcp, protocol: TCP}
  - {number: 9002, name: http-alt, protocol: HTTP}
  resolution: STATIC
  location: MESH_INTERNAL
  workloadSelector:
    labels: {app: we}
`,
	}},
	// a workload entry selected by the KUBERNETES service ksvc (cross-registry selection)
	{ID: "we-k", Variants: []string{
		meta("WorkloadEntry", netAPI, "we-k", "ns1") + `spec:
  address: 10.41.0.9
  labels: {app: k}
  serviceAccount: sa-k1
`,
		meta("WorkloadEntry", netAPI, "we-k", "ns1") + `spec:
  address: 10.41.0.9
  labels: {app: k}
  serviceAccount: sa-wek
`,
	}},
	// DNS resolution with a workload selector
	{ID: "se-d", Variants: []string{
		meta("ServiceEntry", netAPI, "se-d", "ns1") + `spec:
  hosts: [d.example.com]
  ports:
  - {number: 9003, name: tcp, protocol: TCP}
  resolution: DNS
  location: MESH_INTERNAL
  workloadSelector:
    labels: {app: we}
`,
		meta("ServiceEntry", netAPI, "se-d", "ns1") + `spec:
  hosts: [d.example.com]
  ports:
  - {number: 9003, name: tcp, protocol: TCP}
  - {number: 9004, name: http, protocol: HTTP}
  resolution: DNS
  location: MESH_INTERNAL
  workloadSelector:
    labels: {app: we}
`,
	}},
	{ID: "we-1", Variants: []string{
		meta("WorkloadEntry", netAPI, "we-1", "ns1") + `spec:
  address: 10.30.0.1
  labels: {app: we}
  serviceAccount: we-sa
`,
		meta("WorkloadEntry", netAPI, "we-1", "ns1") + `spec:
  address: 10.30.0.2
  labels: {app: we}
  serviceAccount: we-sa
`,
		meta("WorkloadEntry", netAPI, "we-1", "ns1") + `spec:
  address: 10.30.0.1
  labels: {app: other}
  serviceAccount: we-sa2
`,
		// 3: on ANOTHER NETWORK: reachable for a proxy of network net1 only through a network gateway (object k-nwgw)
		meta("WorkloadEntry", netAPI, "we-1", "ns1") + `spec:
  address: 10.30.0.4
  labels: {app: we}
  network: net2
  serviceAccount: we-sa
`,
	}},
	{ID: "vs-a", Variants: []string{
		meta("VirtualService", netAPI, "vs-a", "ns1") + `spec:
  hosts: [a.example.com]
  http:
  - timeout: 5s
    route:
    - destination: {host: a.example.com, subset: v1}
`,
		meta("VirtualService", netAPI, "vs-a", "ns1") + `spec:
  hosts: [a.example.com]
  http:
  - retries: {attempts: 3}
    route:
    - destination: {host: a.example.com, subset: v1}
      weight: 80
    - destination: {host: b.example.com}
      weight: 20
`,
		meta("VirtualService", netAPI, "vs-a", "ns1") + `spec:
  hosts: [a.example.com]
  exportTo: ["."]
  http:
  - match:
    - uri: {prefix: /api}
    route:
    - destination: {host: b.example.com}
  - route:
    - destination: {host: a.example.com}
`,
	}},
	{ID: "vs-gw", Variants: []string{
		meta("VirtualService", netAPI, "vs-gw", "ns1") + `spec:
  hosts: [gw.example.com]
  gateways: [istio-system/gw]
  http:
  - route:
    - destination: {host: a.example.com}
`,
		meta("VirtualService", netAPI, "vs-gw", "ns1") + `spec:
  hosts: [gw.example.com]
  gateways: [istio-system/gw]
  http:
  - match:
    - uri: {prefix: /b}
    route:
    - destination: {host: b.example.com}
  - route:
    - destination: {host: a.example.com, subset: v2}
`,
		// 2: a root VirtualService that DELEGATES (object vs-del)
		meta("VirtualService", netAPI, "vs-gw", "ns1") + `spec:
  hosts: [gw.example.com]
  gateways: [istio-system/gw]
  http:
  - match:
    - uri: {prefix: /d}
    delegate: {name: vs-del, namespace: ns1}
  - route:
    - destination: {host: a.example.com}
`,
	}},
	{ID: "vs-tls", Variants: []string{
		meta("VirtualService", netAPI, "vs-tls", "ns1") + `spec:
  hosts: [tls.example.com]
  gateways: [istio-system/gw]
  tls:
  - match:
    - {port: 443, sniHosts: [tls.example.com]}
    route:
    - destination: {host: b.example.com, port: {number: 443}}
`,
	}},
	{ID: "dr-a", Variants: []string{
		meta("DestinationRule", netAPI, "dr-a", "ns1") + `spec:
  host: a.example.com
  subsets:
  - {name: v1, labels: {version: v1}}
  - {name: v2, labels: {version: v2}}
`,
		meta("DestinationRule", netAPI, "dr-a", "ns1") + `spec:
  host: a.example.com
  trafficPolicy:
    loadBalancer:
      consistentHash: {httpHeaderName: x-user}
  subsets:
  - {name: v1, labels: {version: v1}}
  - {name: v2, labels: {version: v2}}
`,
		meta("DestinationRule", netAPI, "dr-a", "ns1") + `spec:
  host: a.example.com
  trafficPolicy:
    tls: {mode: ISTIO_MUTUAL}
    connectionPool:
      tcp: {maxConnections: 7}
  subsets:
  - {name: v1, labels: {version: v1}}
`,
		// 3: locality failover (enabled by outlier detection): priorities in EDS; no subsets, so the set of
		// clusters (and with it the EDS subscription) does not change when the rule comes or goes
		meta("DestinationRule", netAPI, "dr-a", "ns1") + `spec:
  host: a.example.com
  trafficPolicy:
    outlierDetection: {consecutive5xxErrors: 3, interval: 1s, baseEjectionTime: 3m}
`,
		// 4: the same, visible in its own namespace only
		meta("DestinationRule", netAPI, "dr-a", "ns1") + `spec:
  host: a.example.com
  exportTo: ["."]
  trafficPolicy:
    outlierDetection: {consecutive5xxErrors: 3, interval: 1s, baseEjectionTime: 3m}
`,
		// locality weighted distribution: load balancing weights in EDS
		meta("DestinationRule", netAPI, "dr-a", "ns1") + `spec:
  host: a.example.com
  trafficPolicy:
    outlierDetection: {consecutive5xxErrors: 5, interval: 1s, baseEjectionTime: 1m}
    loadBalancer:
      localityLbSetting:
        enabled: true
        distribute:
        - from: region1/zone1/*
          to: {"region1/zone1/*": 70, "region2/zone1/*": 30}
`,
		// re-hosted: the rule now governs another service
		meta("DestinationRule", netAPI, "dr-a", "ns1") + `spec:
  host: c.example.com
  trafficPolicy:
    outlierDetection: {consecutive5xxErrors: 3, interval: 1s, baseEjectionTime: 3m}
`,
		// the same subset names selecting other endpoints: only EDS changes
		meta("DestinationRule", netAPI, "dr-a", "ns1") + `spec:
  host: a.example.com
  subsets:
  - {name: v1, labels: {version: v2}}
  - {name: v2, labels: {version: v1}}
`,
		// 8: locality failover with subsets
		meta("DestinationRule", netAPI, "dr-a", "ns1") + `spec:
  host: a.example.com
  trafficPolicy:
    outlierDetection: {consecutive5xxErrors: 3, interval: 1s, baseEjectionTime: 3m}
  subsets:
  - {name: v1, labels: {version: v1}}
  - {name: v2, labels: {version: v2}}
`,
		// 9: explicit failover region1 -> region3
		meta("DestinationRule", netAPI, "dr-a", "ns1") + `spec:
  host: a.example.com
  trafficPolicy:
    outlierDetection: {consecutive5xxErrors: 3, interval: 1s, baseEjectionTime: 3m}
    loadBalancer:
      localityLbSetting:
        enabled: true
        failover:
        - {from: region1, to: region3}
        - {from: region2, to: region1}
`,
		// 10: failoverPriority by labels
		meta("DestinationRule", netAPI, "dr-a", "ns1") + `spec:
  host: a.example.com
  trafficPolicy:
    outlierDetection: {consecutive5xxErrors: 3, interval: 1s, baseEjectionTime: 3m}
    loadBalancer:
      localityLbSetting:
        enabled: true
        failoverPriority: ["version", "topology.kubernetes.io/region"]
`,
		// 11: the distribute setting of variant 5 WITHOUT outlier detection, locality LB switched off
		meta("DestinationRule", netAPI, "dr-a", "ns1") + `spec:
  host: a.example.com
  trafficPolicy:
    loadBalancer:
      localityLbSetting:
        enabled: false
        distribute:
        - from: region1/zone1/*
          to: {"region1/zone1/*": 70, "region2/zone1/*": 30}
`,
	}},
	// a second rule for the same host in the ROOT namespace (applies where dr-a is not visible / absent)
	{ID: "dr-root", Variants: []string{
		meta("DestinationRule", netAPI, "dr-root", "istio-system") + `spec:
  host: a.example.com
  trafficPolicy:
    outlierDetection: {consecutive5xxErrors: 3, interval: 1s, baseEjectionTime: 3m}
    loadBalancer:
      localityLbSetting:
        enabled: true
        distribute:
        - from: region1/zone1/*
          to: {"region1/zone1/*": 20, "region2/zone1/*": 80}
`,
		meta("DestinationRule", netAPI, "dr-root", "istio-system") + `spec:
  host: a.example.com
  trafficPolicy:
    outlierDetection: {consecutive5xxErrors: 3, interval: 1s, baseEjectionTime: 3m}
`,
		meta("DestinationRule", netAPI, "dr-root", "istio-system") + `spec:
  host: b.example.com
  trafficPolicy:
    outlierDetection: {consecutive5xxErrors: 3, interval: 1s, baseEjectionTime: 3m}
    loadBalancer:
      localityLbSetting:
        enabled: true
        failover:
        - {from: region1, to: region2}
`,
	}},
	{ID: "dr-b", Variants: []string{
		meta("DestinationRule", netAPI, "dr-b", "ns2") + `spec:
  host: b.example.com
  trafficPolicy:
    connectionPool:
      http: {http1MaxPendingRequests: 11}
`,
		meta("DestinationRule", netAPI, "dr-b", "ns2") + `spec:
  host: b.example.com
  exportTo: ["."]
  trafficPolicy:
    outlierDetection: {consecutive5xxErrors: 3}
`,
		meta("DestinationRule", netAPI, "dr-b", "ns2") + `spec:
  host: b.example.com
  trafficPolicy:
    tls: {mode: SIMPLE, sni: b.example.com}
`,
	}},
	{ID: "sc-ns1", Variants: []string{
		meta("Sidecar", netAPI, "default", "ns1") + `spec:
  egress:
  - hosts: ["./*", "istio-system/*"]
`,
		meta("Sidecar", netAPI, "default", "ns1") + `spec:
  egress:
  - hosts: ["*/*"]
`,
		meta("Sidecar", netAPI, "default", "ns1") + `spec:
  egress:
  - hosts: ["ns2/*"]
`,
		meta("Sidecar", netAPI, "default", "ns1") + `spec:
  outboundTrafficPolicy: {mode: REGISTRY_ONLY}
  egress:
  - hosts: ["./a.example.com", "ns2/*"]
`,
	}},
	{ID: "sc-wl", Variants: []string{
		meta("Sidecar", netAPI, "for-a", "ns1") + `spec:
  workloadSelector:
    labels: {app: a}
  egress:
  - hosts: ["ns2/b.example.com"]
`,
		meta("Sidecar", netAPI, "for-a", "ns1") + `spec:
  workloadSelector:
    labels: {app: a}
  ingress:
  - port: {number: 80, protocol: HTTP, name: http}
    defaultEndpoint: 127.0.0.1:8080
  egress:
  - hosts: ["./*"]
`,
	}},
	{ID: "gw", Variants: []string{
		meta("Gateway", netAPI, "gw", "istio-system") + `spec:
  selector: {istio: ingressgateway}
  servers:
  - port: {number: 80, name: http, protocol: HTTP}
    hosts: ["gw.example.com"]
`,
		meta("Gateway", netAPI, "gw", "istio-system") + `spec:
  selector: {istio: ingressgateway}
  servers:
  - port: {number: 80, name: http, protocol: HTTP}
    hosts: ["gw.example.com"]
  - port: {number: 443, name: tls, protocol: TLS}
    hosts: ["tls.example.com"]
    tls: {mode: PASSTHROUGH}
`,
		meta("Gateway", netAPI, "gw", "istio-system") + `spec:
  selector: {istio: ingressgateway}
  servers:
  - port: {number: 8081, name: http2, protocol: HTTP}
    hosts: ["*.example.com"]
  - port: {number: 15443, name: tls-auto, protocol: TLS}
    hosts: ["*.local"]
    tls: {mode: AUTO_PASSTHROUGH}
`,
		// 3: TLS termination with a credential the router fetches by SDS (Secret gw-cred, object k-secret)
		meta("Gateway", netAPI, "gw", "istio-system") + `spec:
  selector: {istio: ingressgateway}
  servers:
  - port: {number: 80, name: http, protocol: HTTP}
    hosts: ["gw.example.com"]
  - port: {number: 443, name: https, protocol: HTTPS}
    hosts: ["gw.example.com"]
    tls: {mode: SIMPLE, credentialName: gw-cred}
`,
	}},
	{ID: "pa-mesh", Variants: []string{
		meta("PeerAuthentication", secAPI, "default", "istio-system") + `spec:
  mtls: {mode: STRICT}
`,
		meta("PeerAuthentication", secAPI, "default", "istio-system") + `spec:
  mtls: {mode: PERMISSIVE}
`,
	}},
	{ID: "pa-ns1", Variants: []string{
		meta("PeerAuthentication", secAPI, "default", "ns1") + `spec:
  mtls: {mode: STRICT}
`,
		meta("PeerAuthentication", secAPI, "default", "ns1") + `spec:
  mtls: {mode: DISABLE}
`,
	}},
	{ID: "pa-wl", Variants: []string{
		meta("PeerAuthentication", secAPI, "for-a", "ns1") + `spec:
  selector:
    matchLabels: {app: a}
  mtls: {mode: PERMISSIVE}
  portLevelMtls:
    80: {mode: DISABLE}
`,
		meta("PeerAuthentication", secAPI, "for-a", "ns1") + `spec:
  selector:
    matchLabels: {app: a}
  mtls: {mode: STRICT}
`,
	}},
	{ID: "pa-ns2", Variants: []string{
		meta("PeerAuthentication", secAPI, "default", "ns2") + `spec:
  mtls: {mode: STRICT}
`,
		meta("PeerAuthentication", secAPI, "default", "ns2") + `spec:
  mtls: {mode: DISABLE}
`,
	}},
	{ID: "ra-ns1", Variants: []string{
		meta("RequestAuthentication", secAPI, "jwt", "ns1") + `spec:
  selector:
    matchLabels: {app: a}
  jwtRules:
  - issuer: issuer-one
    jwks: "` + jwks + `"
`,
		meta("RequestAuthentication", secAPI, "jwt", "ns1") + `spec:
  jwtRules:
  - issuer: issuer-two
    jwks: "` + jwks + `"
    forwardOriginalToken: true
`,
	}},
	{ID: "ra-root", Variants: []string{
		meta("RequestAuthentication", secAPI, "jwt-root", "istio-system") + `spec:
  jwtRules:
  - issuer: issuer-root
    jwks: "` + jwks + `"
`,
	}},
	{ID: "ap-ns1", Variants: []string{
		meta("AuthorizationPolicy", secAPI, "allow", "ns1") + `spec:
  selector:
    matchLabels: {app: a}
  action: ALLOW
  rules:
  - from:
    - source: {principals: ["cluster.local/ns/ns2/sa/b"]}
`,
		meta("AuthorizationPolicy", secAPI, "allow", "ns1") + `spec:
  action: DENY
  rules:
  - to:
    - operation: {paths: ["/admin*"]}
`,
		// external authorization: the filter refers to the cluster of the provider's service
		meta("AuthorizationPolicy", secAPI, "allow", "ns1") + `spec:
  action: CUSTOM
  provider: {name: ext-authz}
  rules:
  - to:
    - operation: {paths: ["/checked*"]}
`,
	}},
	{ID: "ap-root", Variants: []string{
		meta("AuthorizationPolicy", secAPI, "root-deny", "istio-system") + `spec:
  action: DENY
  rules:
  - from:
    - source: {namespaces: ["bad"]}
`,
		meta("AuthorizationPolicy", secAPI, "root-deny", "istio-system") + `spec:
  action: DENY
  rules:
  - from:
    - source: {namespaces: ["bad", "worse"]}
`,
	}},
	{ID: "ap-ns2", Variants: []string{
		meta("AuthorizationPolicy", secAPI, "allow", "ns2") + `spec:
  action: ALLOW
  rules:
  - to:
    - operation: {methods: ["GET"]}
`,
	}},
	{ID: "ef-ns1", Variants: []string{
		meta("EnvoyFilter", "networking.istio.io/v1alpha3", "ef", "ns1") + `spec:
  configPatches:
  - applyTo: CLUSTER
    match: {context: SIDECAR_OUTBOUND}
    patch:
      operation: ADD
      value:
        name: ef-added-cluster
        type: STATIC
        connect_timeout: 1s
        load_assignment:
          cluster_name: ef-added-cluster
          endpoints:
          - lb_endpoints:
            - endpoint:
                address:
                  socket_address: {address: 10.99.0.1, port_value: 80}
`,
		meta("EnvoyFilter", "networking.istio.io/v1alpha3", "ef", "ns1") + `spec:
  configPatches:
  - applyTo: HTTP_FILTER
    match:
      context: SIDECAR_OUTBOUND
      listener:
        filterChain:
          filter:
            name: envoy.filters.network.http_connection_manager
            subFilter: {name: envoy.filters.http.router}
    patch:
      operation: INSERT_BEFORE
      value:
        name: envoy.lua
        typed_config:
          "@type": type.googleapis.com/envoy.extensions.filters.http.lua.v3.Lua
          inlineCode: "function envoy_on_request(h) end"
`,
		meta("EnvoyFilter", "networking.istio.io/v1alpha3", "ef", "ns1") + `spec:
  configPatches:
  - applyTo: VIRTUAL_HOST
    match: {context: SIDECAR_OUTBOUND}
    patch:
      operation: MERGE
      value:
        request_headers_to_add:
        - header: {key: x-ef, value: "1"}
`,
	}},
	{ID: "ef-root", Variants: []string{
		meta("EnvoyFilter", "networking.istio.io/v1alpha3", "ef-root", "istio-system") + `spec:
  configPatches:
  - applyTo: CLUSTER
    match: {context: ANY}
    patch:
      operation: MERGE
      value:
        connect_timeout: 3s
`,
		meta("EnvoyFilter", "networking.istio.io/v1alpha3", "ef-root", "istio-system") + `spec:
  configPatches:
  - applyTo: LISTENER
    match: {context: GATEWAY}
    patch:
      operation: MERGE
      value:
        per_connection_buffer_limit_bytes: 4096
`,
	}},
	{ID: "tel-root", Variants: []string{
		meta("Telemetry", "telemetry.istio.io/v1", "mesh-default", "istio-system") + `spec:
  accessLogging:
  - providers:
    - name: envoy
`,
		meta("Telemetry", "telemetry.istio.io/v1", "mesh-default", "istio-system") + `spec:
  accessLogging:
  - providers:
    - name: envoy
    filter:
      expression: "response.code >= 400"
`,
		// providers backed by mesh services (convergeMesh): the generated filters depend on the service index
		meta("Telemetry", "telemetry.istio.io/v1", "mesh-default", "istio-system") + `spec:
  accessLogging:
  - providers:
    - name: otel-als
`,
		meta("Telemetry", "telemetry.istio.io/v1", "mesh-default", "istio-system") + `spec:
  accessLogging:
  - providers:
    - name: http-als
    - name: tcp-als
  tracing:
  - providers:
    - name: zipkin
    randomSamplingPercentage: 50
`,
	}},
	{ID: "tel-ns2", Variants: []string{
		meta("Telemetry", "telemetry.istio.io/v1", "ns-default", "ns2") + `spec:
  tracing:
  - providers:
    - name: otel-trace
    randomSamplingPercentage: 25
`,
		meta("Telemetry", "telemetry.istio.io/v1", "ns-default", "ns2") + `spec:
  accessLogging:
  - providers:
    - name: otel-als
    - name: tcp-als
`,
	}},
	{ID: "tel-ns1", Variants: []string{
		meta("Telemetry", "telemetry.istio.io/v1", "ns-default", "ns1") + `spec:
  metrics:
  - providers:
    - name: prometheus
    overrides:
    - match: {metric: REQUEST_COUNT}
      disabled: true
`,
		meta("Telemetry", "telemetry.istio.io/v1", "ns-default", "ns1") + `spec:
  accessLogging:
  - providers:
    - name: envoy
    disabled: true
`,
	}},
	{ID: "wasm-ns1", Variants: []string{
		meta("WasmPlugin", "extensions.istio.io/v1alpha1", "wasm", "ns1") + `spec:
  selector:
    matchLabels: {app: a}
  url: file:///opt/filters/one.wasm
  phase: AUTHN
`,
		meta("WasmPlugin", "extensions.istio.io/v1alpha1", "wasm", "ns1") + `spec:
  selector:
    matchLabels: {app: a}
  url: file:///opt/filters/two.wasm
  phase: STATS
  pluginConfig: {key: value}
`,
	}},
	{ID: "pc-ns1", Variants: []string{
		meta("ProxyConfig", "networking.istio.io/v1beta1", "pc", "ns1") + `spec:
  concurrency: 3
`,
		meta("ProxyConfig", "networking.istio.io/v1beta1", "pc", "ns1") + `spec:
  environmentVariables: {SOME_VAR: "1"}
`,
	}},
	// the delegate of vs-gw variant 2 (no hosts, no gateways)
	{ID: "vs-del", Variants: []string{
		meta("VirtualService", netAPI, "vs-del", "ns1") + `spec:
  http:
  - route:
    - destination: {host: b.example.com}
`,
		meta("VirtualService", netAPI, "vs-del", "ns1") + `spec:
  http:
  - match:
    - uri: {prefix: /d/x}
    rewrite: {uri: /x}
    route:
    - destination: {host: a.example.com, subset: v1}
  - route:
    - destination: {host: b.example.com}
`,
	}},
	// the WorkloadEntry BEHIND proxy sidecar-a (same address): its labels become the proxy's labels; 1 = relabelled
	// (pushWorkloadUpdates -> ProxyUpdate; Sidecar / policy selectors on app=a stop matching)
	{ID: "we-a", Variants: []string{
		meta("WorkloadEntry", netAPI, "we-a", "ns1") + `spec:
  address: 10.20.0.1
  labels: {app: a, version: v1}
  serviceAccount: a
`,
		meta("WorkloadEntry", netAPI, "we-a", "ns1") + `spec:
  address: 10.20.0.1
  labels: {app: a2, version: v1}
  serviceAccount: a
`,
	}},
	{ID: "wg-a", Variants: []string{
		meta("WorkloadGroup", netAPI, "wg-a", "ns1") + `spec:
  metadata:
    labels: {app: we}
  template:
    serviceAccount: we-sa
`,
		meta("WorkloadGroup", netAPI, "wg-a", "ns1") + `spec:
  metadata:
    labels: {app: we, extra: "1"}
  template:
    serviceAccount: we-sa
    network: net2
`,
	}},
}

var universeIndex = func() map[string]*objDef {
	m := map[string]*objDef{}
	for i := range universe {
		m[universe[i].ID] = &universe[i]
	}
	return m
}()

var baseTime = time.Date(2024, 1, 1, 0, 0, 0, 0, time.UTC)

// render parses variant v of object id into a config.Config with a fixed creation timestamp
// (so that a cold-started server orders configs exactly like the long-lived one).
func render(id string, v int) config.Config {
	d := universeIndex[id]
	if d == nil || v < 0 || v >= len(d.Variants) {
		panic("grammar: unknown object/variant " + id)
	}
	cfgs, _, err := crd.ParseInputs(d.Variants[v])
	if err != nil || len(cfgs) != 1 {
		panic(fmt.Sprintf("grammar: %s/%d does not parse: %v", id, v, err))
	}
	c := cfgs[0]
	c.CreationTimestamp = baseTime.Add(time.Duration(ageRank(id)) * time.Minute)
	return c
}

// ageSalt permutes the age order of the config objects in the current history (case flag `age=<n>`): which of two
// conflicting objects is the older one (and wins) varies; the cold-started server renders the same timestamps.
var ageSalt int

func ageRank(id string) int {
	i := objIndex(id)
	if ageSalt == 0 {
		return i
	}
	return (i + 1) * (2*ageSalt + 1) % 211 // 211 is prime and larger than the number of objects
}

// objIndex: a fixed rank per object of the grammar (creation timestamps are derived from it)
func objIndex(id string) int {
	for i := range universe {
		if universe[i].ID == id {
			return i
		}
	}
	for i := range ambientUniverse {
		if ambientUniverse[i].ID == id {
			return len(universe) + i
		}
	}
	return 0
}

// world: id -> variant (absent = object does not exist)
type world map[string]int

func (w world) clone() world {
	o := world{}
	for k, v := range w {
		o[k] = v
	}
	return o
}

func (w world) tok() string {
	var xs []string
	for k, v := range w {
		xs = append(xs, fmt.Sprintf("%s=%d", k, v))
	}
	sort.Strings(xs)
	if len(xs) == 0 {
		return "-"
	}
	return strings.Join(xs, ",")
}

func parseWorld(t string) world {
	w := world{}
	if t == "-" {
		return w
	}
	for _, kv := range strings.Split(t, ",") {
		p := strings.SplitN(kv, "=", 2)
		w[p[0]] = atoi(p[1])
	}
	return w
}

func (w world) configs() []config.Config {
	var ids []string
	for k := range w {
		ids = append(ids, k)
	}
	sort.Strings(ids)
	var out []config.Config
	for _, id := range ids {
		if isKube(id) || isGwapi(id) || isMesh(id) || isSecret(id) || isIngress(id) {
			continue
		}
		out = append(out, render(id, w[id]))
	}
	return out
}
