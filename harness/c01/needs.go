package main

// Stream `needs`: random multi-key push requests through the REAL decision functions
// (DefaultProxyNeedsPush, cds/eds/lds/rds/nds/ecds/sds/pcdsNeedsPush, canSendPartialFullPushes,
// waypointNeedsPush, computeProxyState directly and through pushConnection,
// watchedResourcesByOrder), each called several times because Go's map iteration order is random.
//
//	case <n> needs
//	proxy <ty> <cfgNs> <metaNs> <ew> <watchAddr> <selfDisc> <local> <prevLocal> <targets> <prevTargets> <scope> <prevScope> <mg> <prevMg> <network> <addrs>
//	req <forced> <reasons> <keys> <wrefs>
//	nilreq
//	order <watched types>
//	wreq <addresses updated> <forced> <reasons> <keys>
//	conn <watched types> <services of the push context> <fresh scope> <forced> <reasons> <keys> <wrefs>
//	merge <forced1> <reasons1> <keys1> <wrefs1> <forced2> <reasons2> <keys2> <wrefs2>
//
// Tokens: key = Kind/name/ns ; scope = nil | ns:deps:services (';' separated) ; mg = nil | ap:hosts:names ;
// wref = h/ns/host | a/net/addr ; local = - | name/ns ; lists ',' separated, '-' when empty.

import (
	"fmt"
	"sort"
	"strconv"
	"strings"

	"istio.io/istio/pilot/pkg/model"
	"istio.io/istio/pilot/pkg/xds"
	xdsfake "istio.io/istio/pilot/test/xds"
	"istio.io/istio/pkg/config/host"
	"istio.io/istio/pkg/config/schema/kind"
	"istio.io/istio/pkg/util/sets"
	"verifharness/internal/wire"
)

const needsReps = 5

var reasonPool = []string{"endpoint", "headlessendpoint", "config", "service", "proxy", "global", "unknown", "proxyrequest", "secret"}

// kinds that matter to some decision, drawn more often than the rest
var hotKinds = []kind.Kind{
	kind.ServiceEntry, kind.ServiceEntry, kind.ServiceEntry, kind.Endpoints, kind.DestinationRule, kind.VirtualService,
	kind.Gateway, kind.Sidecar, kind.PeerAuthentication, kind.PeerAuthentication, kind.Address, kind.EnvoyFilter,
	kind.AuthorizationPolicy, kind.RequestAuthentication, kind.Secret, kind.ConfigMap, kind.DNSName,
	kind.TrafficExtension, kind.WasmPlugin, kind.Telemetry, kind.ProxyConfig, kind.WorkloadEntry, kind.Ingress,
	kind.MeshConfig, kind.HTTPRoute, kind.KubernetesGateway,
}

// ---------------------------------------------------------------- generation

func genKey(r *wire.Rng, kinds []kind.Kind) mKey {
	var k kind.Kind
	if r.Chance(5, 6) {
		k = wire.Pick(r, hotKinds)
	} else {
		k = wire.Pick(r, kinds)
	}
	return mKey{Kind: k, Name: 5 + r.Intn(4), Ns: r.Intn(3)}
}

func genScope(r *wire.Rng, kinds []kind.Kind) mScope {
	if r.Chance(1, 6) {
		return mScope{Nil: true}
	}
	s := mScope{Ns: 1 + r.Intn(2)}
	for i := r.Intn(5); i > 0; i-- {
		s.Deps = append(s.Deps, genKey(r, kinds))
	}
	for _, h := range []int{5, 6, 7, 8} {
		if r.Chance(1, 2) {
			s.Services = append(s.Services, h)
		}
	}
	return s
}

func genMG(r *wire.Rng) mMG {
	if r.Chance(1, 5) {
		return mMG{Nil: true}
	}
	g := mMG{AP: r.Chance(1, 3)}
	for i := r.Intn(3); i > 0; i-- {
		g.Hosts = append(g.Hosts, 5+r.Intn(3))
	}
	for i := r.Intn(4); i > 0; i-- {
		g.Names = append(g.Names, 1+r.Intn(3))
	}
	return g
}

func genProxy(r *wire.Rng, kinds []kind.Kind) mProxy {
	types := []model.NodeType{model.SidecarProxy, model.SidecarProxy, model.SidecarProxy, model.Router, model.Router,
		model.Waypoint, model.Waypoint, model.Ztunnel, model.Agentgateway}
	p := mProxy{Type: wire.Pick(r, types), CfgNs: 1 + r.Intn(2), Local: [2]int{-1, 0}, PrevLocal: [2]int{-1, 0}}
	p.MetaNs = p.CfgNs
	if r.Chance(1, 8) {
		p.MetaNs = 1 + r.Intn(2)
	}
	p.EW = r.Chance(1, 3)
	p.WatchAddr = r.Chance(1, 3)
	p.SelfDisc = r.Chance(1, 3)
	if r.Chance(1, 2) {
		p.Local = [2]int{5 + r.Intn(4), r.Intn(3)}
	}
	if r.Chance(1, 3) {
		p.PrevLocal = [2]int{5 + r.Intn(4), r.Intn(3)}
	}
	for i := r.Intn(3); i > 0; i-- {
		p.Targets = append(p.Targets, [2]int{5 + r.Intn(4), r.Intn(3)})
	}
	for i := r.Intn(3); i > 0 && r.Chance(1, 2); i-- {
		p.PrevTargets = append(p.PrevTargets, [2]int{5 + r.Intn(4), r.Intn(3)})
	}
	p.Scope = genScope(r, kinds)
	p.PrevScope = genScope(r, kinds)
	if r.Chance(1, 3) {
		p.PrevScope = mScope{Nil: true}
	}
	if r.Chance(1, 4) {
		// a scope that did not change
		p.PrevScope = p.Scope
	}
	p.MG = genMG(r)
	p.PrevMG = genMG(r)
	if r.Chance(1, 3) {
		p.PrevMG = p.MG
	}
	p.Network = r.Intn(2)
	if len(p.Targets) > 0 {
		for i := r.Intn(3); i > 0; i-- {
			p.Addrs = append(p.Addrs, 1+r.Intn(4))
		}
	}
	return p
}

func genReq(r *wire.Rng, kinds []kind.Kind, p mProxy) mReq {
	q := mReq{Forced: r.Chance(1, 10)}
	n := 1 + r.Intn(6)
	if r.Chance(1, 15) {
		n = 0
	}
	mode := r.Intn(6)
	for i := 0; i < n; i++ {
		k := genKey(r, kinds)
		switch mode {
		case 0: // only ServiceEntry keys (the headless-marker shape)
			k.Kind = kind.ServiceEntry
		case 1: // only Endpoints
			k.Kind = kind.Endpoints
		case 2: // ServiceEntry plus kinds every type skips
			if i > 0 {
				k.Kind = wire.Pick(r, []kind.Kind{kind.ServiceEntry, kind.Endpoints, kind.WorkloadGroup, kind.ProxyConfig, kind.Secret})
			} else {
				k.Kind = kind.ServiceEntry
			}
		}
		if r.Chance(1, 5) && len(p.Scope.Deps) > 0 {
			k = wire.Pick(r, p.Scope.Deps)
		}
		if r.Chance(1, 8) && len(p.PrevScope.Deps) > 0 {
			k = wire.Pick(r, p.PrevScope.Deps)
		}
		if r.Chance(1, 8) && len(p.Targets) > 0 {
			t := wire.Pick(r, p.Targets)
			k = mKey{Kind: kind.ServiceEntry, Name: t[0], Ns: t[1]}
		}
		if r.Chance(1, 8) && len(p.PrevTargets) > 0 {
			t := wire.Pick(r, p.PrevTargets)
			k = mKey{Kind: kind.ServiceEntry, Name: t[0], Ns: t[1]}
		}
		dup := false
		for _, o := range q.Keys {
			if o == k {
				dup = true
			}
		}
		if !dup {
			q.Keys = append(q.Keys, k)
		}
	}
	switch r.Intn(7) {
	case 6:
		// no reason at all (a caller of ConfigUpdate that gives none)
	case 0:
		q.Reasons = []string{"headlessendpoint"}
	case 1:
		q.Reasons = []string{"headlessendpoint", "service"}
	case 2:
		q.Reasons = []string{"headlessendpoint", wire.Pick(r, reasonPool)}
	default:
		for i := 1 + r.Intn(3); i > 0; i-- {
			q.Reasons = append(q.Reasons, wire.Pick(r, reasonPool))
		}
	}
	for i := r.Intn(3); i > 0; i-- {
		if r.Chance(2, 3) {
			w := mWRef{Ns: 1 + r.Intn(2), Host: 5 + r.Intn(4)}
			if r.Chance(1, 2) && len(p.Targets) > 0 {
				w = mWRef{Ns: p.CfgNs, Host: wire.Pick(r, p.Targets)[0]}
			}
			q.WRefs = append(q.WRefs, w)
		} else {
			q.WRefs = append(q.WRefs, mWRef{Host: -1, Net: r.Intn(2), Addr: 1 + r.Intn(4)})
		}
	}
	return q
}

func (s mScope) tok() string {
	if s.Nil {
		return "nil"
	}
	var deps, svcs []string
	for _, d := range s.Deps {
		deps = append(deps, d.tok())
	}
	for _, h := range s.Services {
		svcs = append(svcs, strconv.Itoa(h))
	}
	return fmt.Sprintf("%d:%s:%s", s.Ns, semi(deps), semi(svcs))
}

func (g mMG) tok() string {
	if g.Nil {
		return "nil"
	}
	return fmt.Sprintf("%s:%s:%s", wire.B(g.AP), semi(ints(g.Hosts)), semi(ints(g.Names)))
}

func ints(xs []int) []string {
	out := make([]string, len(xs))
	for i, x := range xs {
		out[i] = strconv.Itoa(x)
	}
	return out
}

func semi(xs []string) string {
	if len(xs) == 0 {
		return "-"
	}
	return strings.Join(xs, ";")
}

func localTok(x [2]int) string {
	if x[0] < 0 {
		return "-"
	}
	return fmt.Sprintf("%d/%d", x[0], x[1])
}

func (p mProxy) line() []string {
	var targets, prevTargets []string
	for _, t := range p.Targets {
		targets = append(targets, fmt.Sprintf("%d/%d", t[0], t[1]))
	}
	for _, t := range p.PrevTargets {
		prevTargets = append(prevTargets, fmt.Sprintf("%d/%d", t[0], t[1]))
	}
	return []string{"proxy", string(p.Type), strconv.Itoa(p.CfgNs), strconv.Itoa(p.MetaNs), wire.B(p.EW), wire.B(p.WatchAddr),
		wire.B(p.SelfDisc), localTok(p.Local), localTok(p.PrevLocal), join(targets), join(prevTargets), p.Scope.tok(), p.PrevScope.tok(),
		p.MG.tok(), p.PrevMG.tok(), strconv.Itoa(p.Network), join(ints(p.Addrs))}
}

func (q mReq) toks() []string {
	var keys, wrefs []string
	for _, k := range q.Keys {
		keys = append(keys, k.tok())
	}
	for _, w := range q.WRefs {
		if w.Host >= 0 {
			wrefs = append(wrefs, fmt.Sprintf("h/%d/%d", w.Ns, w.Host))
		} else {
			wrefs = append(wrefs, fmt.Sprintf("a/%d/%d", w.Net, w.Addr))
		}
	}
	return []string{wire.B(q.Forced), join(q.Reasons), join(keys), join(wrefs)}
}

// the types a recording generator exists for (operation `conn`)
var connTypes = []string{"CDS", "EDS", "LDS", "RDS", "SDS", "NDS", "ECDS", "PCDS"}

// freshScope observes, on the REAL objects, the sidecar scope that computeProxyState would compute
// for this proxy from the push context over `svcs`: which keys of the request it depends on and
// which services it contains (the model gets exactly these facts).
func (e *needsEnv) freshScope(mp mProxy, q mReq, svcs []int) mScope {
	px := e.scopes.realProxy(mp)
	old := px.SidecarScope
	px.SetSidecarScope(e.scopes.push(svcs))
	sc := px.SidecarScope
	if sc == nil {
		return mScope{Nil: true}
	}
	if sc == old {
		return mp.Scope
	}
	out := mScope{Ns: mp.CfgNs}
	seen := map[mKey]bool{}
	for _, k := range q.Keys {
		// DependsOnConfig answers for cluster-scoped and unknown kinds without looking at the dependency set;
		// only for the kinds it looks up does membership matter
		if !seen[k] && sidecarScopedKind(k.Kind) && sc.DependsOnConfig(k.real(), rootNamespace) {
			seen[k] = true
			out.Deps = append(out.Deps, k)
		}
	}
	for _, h := range []int{5, 6, 7, 8} {
		if sc.GetService(host.Name(objName(h))) != nil {
			out.Services = append(out.Services, h)
		}
	}
	return out
}

func sidecarScopedKind(k kind.Kind) bool {
	switch k {
	case kind.Endpoints, kind.ServiceEntry, kind.VirtualService, kind.DestinationRule, kind.Sidecar, kind.PeerAuthentication:
		return true
	}
	return false
}

func genNeeds(seed uint64, n int, out string) {
	r := wire.NewRng(seed*7919 + 101)
	kinds := allKinds()
	ge := newNeedsEnv()
	defer ge.close()
	o := wire.Create(out)
	defer o.Close()
	allTypes := []string{"CDS", "EDS", "LDS", "RDS", "SDS", "WDS", "WL", "WAUTH", "NDS", "ECDS", "PCDS"}
	for c := 0; c < n; c++ {
		cr := r.Fork()
		o.Line("case", strconv.Itoa(c), "needs")
		p := genProxy(cr, kinds)
		o.Line(p.line()...)
		for i := 2 + cr.Intn(4); i > 0; i-- {
			switch {
			case cr.Chance(1, 12):
				o.Line("nilreq")
			case cr.Chance(1, 12):
				o.Line("order", join(wire.Subset(cr, allTypes, 1, 2)))
			case cr.Chance(1, 10):
				q := genReq(cr, kinds, p)
				if cr.Chance(1, 3) {
					q.Reasons = []string{"proxyrequest"}
				}
				if cr.Chance(1, 4) {
					q.Keys = append(q.Keys, mKey{Kind: kind.AuthorizationPolicy, Name: 5, Ns: 1})
				}
				t := q.toks()
				o.Line("wreq", wire.B(cr.Chance(1, 3)), t[0], t[1], t[2])
			case cr.Chance(1, 4):
				q := genReq(cr, kinds, p)
				var svcs []int
				for _, h := range []int{5, 6, 7, 8} {
					if cr.Chance(1, 2) {
						svcs = append(svcs, h)
					}
				}
				watched := wire.Subset(cr, connTypes, 2, 3)
				fresh := ge.freshScope(p, q, svcs)
				o.Line(append([]string{"conn", join(watched), join(ints(svcs)), fresh.tok()}, q.toks()...)...)
			case cr.Chance(1, 4):
				a, b := genReq(cr, kinds, p), genReq(cr, kinds, p)
				o.Line(append(append([]string{"merge"}, a.toks()...), b.toks()...)...)
			default:
				o.Line(append([]string{"req"}, genReq(cr, kinds, p).toks()...)...)
			}
		}
	}
}

// ---------------------------------------------------------------- parsing

func atoi(s string) int { n, _ := strconv.Atoi(s); return n }

func parseKey(t string) mKey {
	f := strings.Split(t, "/")
	return mKey{Kind: kind.FromString(f[0]), Name: atoi(f[1]), Ns: atoi(f[2])}
}

func parseList(t string, sep string) []string {
	if t == "-" {
		return nil
	}
	return strings.Split(t, sep)
}

func parseScope(t string) mScope {
	if t == "nil" {
		return mScope{Nil: true}
	}
	f := strings.Split(t, ":")
	s := mScope{Ns: atoi(f[0])}
	for _, d := range parseList(f[1], ";") {
		s.Deps = append(s.Deps, parseKey(d))
	}
	for _, h := range parseList(f[2], ";") {
		s.Services = append(s.Services, atoi(h))
	}
	return s
}

func parseMG(t string) mMG {
	if t == "nil" {
		return mMG{Nil: true}
	}
	f := strings.Split(t, ":")
	g := mMG{AP: f[0] == "1"}
	for _, h := range parseList(f[1], ";") {
		g.Hosts = append(g.Hosts, atoi(h))
	}
	for _, h := range parseList(f[2], ";") {
		g.Names = append(g.Names, atoi(h))
	}
	return g
}

func parseLocal(t string) [2]int {
	if t == "-" {
		return [2]int{-1, 0}
	}
	f := strings.Split(t, "/")
	return [2]int{atoi(f[0]), atoi(f[1])}
}

func parseProxy(f []string) mProxy {
	p := mProxy{Type: model.NodeType(f[1]), CfgNs: atoi(f[2]), MetaNs: atoi(f[3]), EW: f[4] == "1", WatchAddr: f[5] == "1",
		SelfDisc: f[6] == "1", Local: parseLocal(f[7]), PrevLocal: parseLocal(f[8])}
	for _, t := range parseList(f[9], ",") {
		x := strings.Split(t, "/")
		p.Targets = append(p.Targets, [2]int{atoi(x[0]), atoi(x[1])})
	}
	for _, t := range parseList(f[10], ",") {
		x := strings.Split(t, "/")
		p.PrevTargets = append(p.PrevTargets, [2]int{atoi(x[0]), atoi(x[1])})
	}
	p.Scope, p.PrevScope = parseScope(f[11]), parseScope(f[12])
	p.MG, p.PrevMG = parseMG(f[13]), parseMG(f[14])
	p.Network = atoi(f[15])
	for _, a := range parseList(f[16], ",") {
		p.Addrs = append(p.Addrs, atoi(a))
	}
	return p
}

func parseReq(f []string) mReq {
	q := mReq{Forced: f[0] == "1", Reasons: parseList(f[1], ",")}
	for _, k := range parseList(f[2], ",") {
		q.Keys = append(q.Keys, parseKey(k))
	}
	for _, w := range parseList(f[3], ",") {
		x := strings.Split(w, "/")
		if x[0] == "h" {
			q.WRefs = append(q.WRefs, mWRef{Ns: atoi(x[1]), Host: atoi(x[2])})
		} else {
			q.WRefs = append(q.WRefs, mWRef{Host: -1, Net: atoi(x[1]), Addr: atoi(x[2])})
		}
	}
	return q
}

// ---------------------------------------------------------------- execution on the real code

type needsEnv struct {
	scopes *scopeEnv
	push   *model.PushContext
	f      *failer
	s      *xdsfake.FakeDiscoveryServer
}

func newNeedsEnv() *needsEnv {
	e := &needsEnv{scopes: newScopeEnv(), push: barePush(), f: &failer{}}
	e.s = xdsfake.NewFakeDiscoveryServer(e.f, xdsfake.FakeOptions{MeshConfig: theMesh})
	return e
}

func (e *needsEnv) close() { e.scopes.close(); e.f.done() }

// agree calls f several times and returns the common answer, or "nondet".
func agree(f func() string) string {
	v := f()
	for i := 1; i < needsReps; i++ {
		if w := f(); w != v {
			return "nondet(" + v + "|" + w + ")"
		}
	}
	return v
}

// decisions evaluates every decision function on (proxy, request); keys of returned requests are
// mapped back to the abstract keys.
func (e *needsEnv) decisions(mp mProxy, q mReq) []string {
	px := e.scopes.realProxy(mp)
	mk := func() *model.PushRequest { return realReq(q, e.push) }
	var out []string
	add := func(name string, f func() string) { out = append(out, name+"="+agree(f)) }
	add("proxy", func() string {
		r, b := xds.DefaultProxyNeedsPush(px, mk())
		return wire.B(b) + ":" + join(keysBack(q.Keys, r.ConfigsUpdated))
	})
	add("wp", func() string { return wire.B(xds.VerifC01WaypointNeedsPush(mk(), px)) })
	add("cds", func() string {
		r, b := xds.VerifC01CdsNeedsPush(mk(), px)
		return wire.B(b) + ":" + join(keysBack(q.Keys, r.ConfigsUpdated))
	})
	add("eds", func() string { return wire.B(xds.VerifC01EdsNeedsPush(mk(), px)) })
	add("partial", func() string { return wire.B(xds.VerifC01CanSendPartialFullPushes(mk())) })
	add("lds", func() string { return wire.B(xds.VerifC01LdsNeedsPush(px, mk())) })
	add("rds", func() string { return wire.B(xds.VerifC01RdsNeedsPush(mk(), px)) })
	add("nds", func() string { return wire.B(xds.VerifC01NdsNeedsPush(mk(), px)) })
	add("ecds", func() string { return wire.B(xds.VerifC01EcdsNeedsPush(mk(), px)) })
	add("sds", func() string { r := mk(); return wire.B(xds.VerifC01SdsNeedsPush(r.Forced, r.ConfigsUpdated)) })
	add("pcds", func() string { return wire.B(xds.VerifC01PcdsNeedsPush(mk())) })
	// the composition performed by pushConnection/pushXds: per-proxy filter, then every generator
	// decides on the filtered request
	add("full", func() string {
		r, b := xds.DefaultProxyNeedsPush(px, mk())
		if !b {
			return "skip"
		}
		_, c := xds.VerifC01CdsNeedsPush(r, px)
		return wire.B(c) + wire.B(xds.VerifC01EdsNeedsPush(r, px)) + wire.B(xds.VerifC01LdsNeedsPush(px, r)) +
			wire.B(xds.VerifC01RdsNeedsPush(r, px)) + wire.B(xds.VerifC01NdsNeedsPush(r, px)) +
			wire.B(xds.VerifC01EcdsNeedsPush(r, px)) + wire.B(xds.VerifC01SdsNeedsPush(r.Forced, r.ConfigsUpdated))
	})
	out = append(out, "state="+agree(func() string { return e.refresh(mp, q, false, false) }))
	out = append(out, "pstate="+agree(func() string { return e.refresh(mp, q, true, false) }))
	return out
}

// refresh observes, through sentinels, which parts of the proxy state the real
// computeProxyState (direct or through pushConnection) recomputes.
func (e *needsEnv) refresh(mp mProxy, q mReq, viaPush bool, nilReq bool) string {
	px := e.scopes.realProxy(mProxy{
		Type: mp.Type, CfgNs: mp.CfgNs, MetaNs: mp.MetaNs, EW: mp.EW,
		Local: [2]int{-1, 0}, PrevLocal: [2]int{-1, 0},
		Scope: mScope{Ns: 1}, PrevScope: mScope{Nil: true},
		MG: mMG{AP: true}, PrevMG: mMG{Nil: true},
	})
	px.Labels = map[string]string{"verif-sentinel": "1"}
	for k, v := range px.Metadata.Labels {
		px.Labels[k] = v
	}
	px.LocalService = model.LocalServiceInfo{Name: "verif-sentinel"}
	sentinelScope := px.SidecarScope
	gp := e.s.Discovery.Env.PushContext()
	px.LastPushContext = gp
	var req *model.PushRequest
	if !nilReq {
		req = realReq(q, gp)
	}
	if viaPush {
		if err := xds.VerifC01PushConnection(e.s.Discovery, px, req); err != nil {
			return "error"
		}
	} else {
		xds.VerifC01ComputeProxyState(e.s.Discovery, px, req)
	}
	_, still := px.Labels["verif-sentinel"]
	return wire.B(!still) + wire.B(px.PrevLocalService.Name == "verif-sentinel") + wire.B(px.PrevSidecarScope == sentinelScope) +
		wire.B(px.PrevMergedGateway != nil && px.PrevMergedGateway.ContainsAutoPassthroughGateways)
}

// recorder is registered as THE generator of one xDS type on the harness server: the real
// pushConnection / pushXds reach it through the real findGenerator. It records that it was called and
// with which request, takes the decision with the real *NeedsPush of its type, and returns no
// resources (the bare connection has no stream to send on).
type recorder struct {
	typ string
	log *connLog
}

type connLog struct {
	called []string
	sent   []string
	keys   []sets.Set[model.ConfigKey]
}

func (r recorder) Generate(proxy *model.Proxy, w *model.WatchedResource, req *model.PushRequest) (model.Resources, model.XdsLogDetails, error) {
	r.log.called = append(r.log.called, r.typ)
	r.log.keys = append(r.log.keys, req.ConfigsUpdated)
	var ok bool
	switch r.typ {
	case "CDS":
		_, ok = xds.VerifC01CdsNeedsPush(req, proxy)
	case "EDS":
		ok = xds.VerifC01EdsNeedsPush(req, proxy)
	case "LDS":
		ok = xds.VerifC01LdsNeedsPush(proxy, req)
	case "RDS":
		ok = xds.VerifC01RdsNeedsPush(req, proxy)
	case "NDS":
		ok = xds.VerifC01NdsNeedsPush(req, proxy)
	case "ECDS":
		ok = xds.VerifC01EcdsNeedsPush(req, proxy)
	case "SDS":
		ok = xds.VerifC01SdsNeedsPush(req.Forced, req.ConfigsUpdated)
	case "PCDS":
		ok = xds.VerifC01PcdsNeedsPush(req)
	}
	if ok {
		r.log.sent = append(r.log.sent, r.typ)
	}
	return nil, model.DefaultXdsLogDetails, nil
}

// workloadDecisions: the real ambient generators (WDS, WorkloadAuthorization); nil resources = skip.
func (e *needsEnv) workloadDecisions(mp mProxy, q mReq, addrs bool) string {
	px := e.scopes.realProxy(mp)
	req := realReq(q, e.push)
	if addrs {
		req.AddressesUpdated = sets.New("/10.0.0.1")
	}
	d := e.s.Discovery
	w := &model.WatchedResource{TypeUrl: longType("WDS"), Wildcard: true}
	r1, _, _ := xds.WorkloadGenerator{Server: d}.Generate(px, w, req)
	w2 := &model.WatchedResource{TypeUrl: longType("WAUTH"), Wildcard: true, ResourceNames: sets.New[string]()}
	r2, _, _ := xds.WorkloadRBACGenerator{Server: d}.Generate(px, w2, req)
	return "wds=" + wire.B(r1 != nil) + " wauth=" + wire.B(r2 != nil)
}

// connection runs the REAL pushConnection (state refresh, per-proxy filter, one pushXds per watched
// type in push order) for a proxy watching `watched`, with recording generators.
func (e *needsEnv) connection(mp mProxy, watched []string, svcs []int, q mReq) string {
	d := e.s.Discovery
	log := &connLog{}
	saved := d.Generators
	d.Generators = map[string]model.XdsResourceGenerator{}
	for _, t := range connTypes {
		d.Generators[longType(t)] = recorder{typ: t, log: log}
	}
	defer func() { d.Generators = saved }()
	px := e.scopes.realProxy(mp)
	for _, t := range watched {
		l := longType(t)
		px.WatchedResources[l] = &model.WatchedResource{TypeUrl: l}
	}
	req := realReq(q, e.scopes.push(svcs))
	if err := xds.VerifC01PushConnection(d, px, req); err != nil {
		return "error"
	}
	split := func(xs []string) string {
		var known, other []string
		for _, t := range xs {
			if xds.KnownOrderedTypeUrls.Contains(longType(t)) {
				if len(other) > 0 {
					return "known-after-unknown"
				}
				known = append(known, t)
			} else {
				other = append(other, t)
			}
		}
		sort.Strings(other)
		return join(known) + "+" + join(other)
	}
	keys := "-"
	if len(log.keys) > 0 {
		keys = join(keysBack(q.Keys, log.keys[0]))
		for _, k := range log.keys[1:] {
			if join(keysBack(q.Keys, k)) != keys {
				return "generators-saw-different-requests"
			}
		}
	}
	return "called=" + split(log.called) + " sent=" + split(log.sent) + " keys=" + keys
}

func (e *needsEnv) nilDecisions(mp mProxy) []string {
	px := e.scopes.realProxy(mp)
	var out []string
	add := func(name string, f func() string) { out = append(out, name+"="+agree(f)) }
	add("cds", func() string { _, b := xds.VerifC01CdsNeedsPush(nil, px); return wire.B(b) })
	add("eds", func() string { return wire.B(xds.VerifC01EdsNeedsPush(nil, px)) })
	add("lds", func() string { return wire.B(xds.VerifC01LdsNeedsPush(px, nil)) })
	add("rds", func() string { return wire.B(xds.VerifC01RdsNeedsPush(nil, px)) })
	add("nds", func() string { return wire.B(xds.VerifC01NdsNeedsPush(nil, px)) })
	add("ecds", func() string { return wire.B(xds.VerifC01EcdsNeedsPush(nil, px)) })
	add("pcds", func() string { return wire.B(xds.VerifC01PcdsNeedsPush(nil)) })
	out = append(out, "state="+agree(func() string { return e.refresh(mp, mReq{}, false, true) }))
	return out
}

// mergeReq merges two abstract requests with the REAL PushRequest.Merge and maps the result back.
func mergeReal(a, b mReq, push *model.PushContext) (*model.PushRequest, mReq) {
	ra, rb := realReq(a, push), realReq(b, push)
	m := ra.CopyMerge(rb)
	// the debouncer uses the mutating Merge (discovery.go), the push queue CopyMerge: both must give the same request
	m2 := realReq(a, push).Merge(realReq(b, push))
	if m2.Forced != m.Forced || !m2.ConfigsUpdated.Equals(m.ConfigsUpdated) || !m2.WaypointsUpdated.Equals(m.WaypointsUpdated) ||
		len(m2.Reason) != len(m.Reason) {
		panic("Merge and CopyMerge disagree")
	}
	var out mReq
	out.Forced = m.Forced
	seen := map[mKey]bool{}
	for _, k := range append(append([]mKey{}, a.Keys...), b.Keys...) {
		if !seen[k] && m.ConfigsUpdated.Contains(k.real()) {
			seen[k] = true
			out.Keys = append(out.Keys, k)
		}
	}
	for _, x := range reasonPool {
		if m.Reason.Has(model.TriggerReason(x)) {
			out.Reasons = append(out.Reasons, x)
		}
	}
	seenW := map[mWRef]bool{}
	for _, w := range append(append([]mWRef{}, a.WRefs...), b.WRefs...) {
		if !seenW[w] && m.WaypointsUpdated.Contains(w.real()) {
			seenW[w] = true
			out.WRefs = append(out.WRefs, w)
		}
	}
	return m, out
}

func orderLine(mp mProxy, types []string) string {
	px := (&scopeEnv{}).bareProxy(mp)
	for _, t := range types {
		l := longType(t)
		px.WatchedResources[l] = &model.WatchedResource{TypeUrl: l}
	}
	return agree(func() string {
		got := xds.VerifC01WatchedResourcesByOrder(px)
		var known, other []string
		for _, t := range got {
			if xds.KnownOrderedTypeUrls.Contains(t) {
				if len(other) > 0 {
					return "known-after-unknown"
				}
				known = append(known, shortType(t))
			} else {
				other = append(other, shortType(t))
			}
		}
		sort.Strings(other)
		return join(known) + " " + join(other)
	})
}

// bareProxy: a proxy with only the type and an empty watch table.
func (e *scopeEnv) bareProxy(mp mProxy) *model.Proxy {
	return &model.Proxy{Type: mp.Type, ID: "proxy.ns", Metadata: &model.NodeMetadata{}, WatchedResources: map[string]*model.WatchedResource{}}
}

func execNeeds(in, out string) {
	lines := wire.ReadLines(in)
	o := wire.Create(out)
	defer o.Close()
	e := newNeedsEnv()
	defer e.close()
	var mp mProxy
	for _, f := range lines {
		func() {
			defer func() {
				if r := recover(); r != nil {
					o.Line("crash")
				}
				o.Flush()
			}()
			switch f[0] {
			case "case":
				mp = mProxy{Type: model.SidecarProxy, CfgNs: 1, MetaNs: 1, Local: [2]int{-1, 0}, PrevLocal: [2]int{-1, 0},
					Scope: mScope{Nil: true}, PrevScope: mScope{Nil: true}, MG: mMG{Nil: true}, PrevMG: mMG{Nil: true}}
				o.Line("ok")
			case "proxy":
				mp = parseProxy(f)
				o.Line("ok")
			case "req":
				o.Line(e.decisions(mp, parseReq(f[1:]))...)
			case "nilreq":
				o.Line(e.nilDecisions(mp)...)
			case "order":
				o.Line(orderLine(mp, parseList(f[1], ",")))
			case "wreq":
				q := parseReq([]string{f[2], f[3], f[4], "-"})
				o.Line(agree(func() string { return e.workloadDecisions(mp, q, f[1] == "1") }))
			case "conn":
				var svcs []int
				for _, x := range parseList(f[2], ",") {
					svcs = append(svcs, atoi(x))
				}
				o.Line(agree(func() string { return e.connection(mp, parseList(f[1], ","), svcs, parseReq(f[4:8])) }))
			case "merge":
				a, b := parseReq(f[1:5]), parseReq(f[5:9])
				_, m := mergeReal(a, b, e.push)
				o.Line(append([]string{"merged=" + strings.Join(m.toksSorted(), "|")}, e.decisions(mp, m)...)...)
			default:
				o.Line("bad-op")
			}
		}()
	}
}

// toksSorted renders a merged request canonically (sets sorted).
func (q mReq) toksSorted() []string {
	t := q.toks()
	for i := 1; i < 4; i++ {
		xs := parseList(t[i], ",")
		sort.Strings(xs)
		xs = dedup(xs)
		t[i] = join(xs)
	}
	return t
}

func dedup(xs []string) []string {
	var out []string
	for i, x := range xs {
		if i == 0 || x != xs[i-1] {
			out = append(out, x)
		}
	}
	return out
}

// ---------------------------------------------------------------- oracle (property level)

// The part of C01 that lives at this level, evaluated on the real functions only:
//
//	det          every decision is independent of Go's map iteration order (repeated calls agree)
//	mono-keys    a request never skips a type that one of its keys alone (same reasons) needs
//	mono-merge   merging two requests (real CopyMerge, as the debouncer and the push queue do) never
//	             skips a type that one of the two needed: otherwise the batching of a history decides
//	             whether a proxy is updated
//	forced       a Forced request is never skipped
func oracleNeeds(in, out string) {
	lines := wire.ReadLines(in)
	o := wire.Create(out)
	defer o.Close()
	e := newNeedsEnv()
	defer e.close()
	var mp mProxy
	verdict := ""
	first := true
	flush := func() {
		if !first {
			if verdict == "" {
				verdict = "OK"
			}
			o.Line(verdict)
		}
		first = false
		verdict = ""
	}
	fail := func(clause string, detail string) {
		if verdict == "" {
			verdict = "FAIL " + clause + " " + detail
		}
	}
	types := []string{"cds", "eds", "lds", "rds", "nds", "ecds", "sds", "proxy"}
	dec := func(mp mProxy, q mReq) map[string]bool {
		px := e.scopes.realProxy(mp)
		res := map[string]bool{}
		for i := 0; i < needsReps; i++ {
			r := realReq(q, e.push)
			cur := map[string]bool{}
			_, cur["cds"] = xds.VerifC01CdsNeedsPush(r, px)
			cur["eds"] = xds.VerifC01EdsNeedsPush(r, px)
			cur["lds"] = xds.VerifC01LdsNeedsPush(px, r)
			cur["rds"] = xds.VerifC01RdsNeedsPush(r, px)
			cur["nds"] = xds.VerifC01NdsNeedsPush(r, px)
			cur["ecds"] = xds.VerifC01EcdsNeedsPush(r, px)
			cur["sds"] = xds.VerifC01SdsNeedsPush(r.Forced, r.ConfigsUpdated)
			_, cur["proxy"] = xds.DefaultProxyNeedsPush(px, r)
			if i == 0 {
				res = cur
				continue
			}
			for _, t := range types {
				if cur[t] != res[t] {
					fail("det", t)
				}
			}
		}
		return res
	}
	check := func(q mReq) {
		whole := dec(mp, q)
		if q.Forced && mp.Type != model.Ztunnel {
			for _, t := range types {
				if !whole[t] {
					fail("forced", t)
				}
			}
		}
		for _, k := range q.Keys {
			one := q
			one.Keys = []mKey{k}
			part := dec(mp, one)
			for _, t := range types {
				if part[t] && !whole[t] {
					fail("mono-keys", t+":"+k.tok())
				}
			}
		}
	}
	for _, f := range lines {
		func() {
			defer func() {
				if r := recover(); r != nil {
					fail("crash", fmt.Sprint(r))
				}
			}()
			switch f[0] {
			case "case":
				flush()
				mp = mProxy{Type: model.SidecarProxy, CfgNs: 1, MetaNs: 1, Local: [2]int{-1, 0}, PrevLocal: [2]int{-1, 0},
					Scope: mScope{Nil: true}, PrevScope: mScope{Nil: true}, MG: mMG{Nil: true}, PrevMG: mMG{Nil: true}}
			case "proxy":
				mp = parseProxy(f)
			case "req":
				check(parseReq(f[1:]))
			case "merge":
				a, b := parseReq(f[1:5]), parseReq(f[5:9])
				_, m := mergeReal(a, b, e.push)
				da, db, dm := dec(mp, a), dec(mp, b), dec(mp, m)
				// (hypothesis of pushDecision_mono_merge: both requests carry a reason - a request WITHOUT one merged with a
				// headless-endpoint-only request is headless-endpoint-only, see notes/C01.md "assumed")
				for _, t := range types {
					if (da[t] || db[t]) && !dm[t] && len(a.Reasons) > 0 && len(b.Reasons) > 0 {
						fail("mono-merge", t)
					}
				}
				check(m)
			}
		}()
	}
	first = false
	flush()
}
