package main

import (
	"time"

	"google.golang.org/protobuf/proto"
	"google.golang.org/protobuf/types/known/durationpb"
	"google.golang.org/protobuf/types/known/wrapperspb"

	meshconfig "istio.io/api/mesh/v1alpha1"
	"istio.io/istio/pilot/pkg/model"
	"istio.io/istio/pkg/config/mesh/meshwatcher"
)

// The MeshConfig as an object of the grammar: `mesh` absent = convergeMesh; `create/update mesh v`
// switches to variant v, `delete mesh` back to convergeMesh. A change is delivered the way
// bootstrap.initMeshHandlers does it: the watcher gets the new MeshConfig and a Forced push with
// reason GlobalUpdate is requested. The variants only touch fields read by the PushContext and the
// generators (the fake server gives its registries watchers of their own, which a cold-started
// server would initialise with the final MeshConfig).
const meshID = "mesh"

var meshVariants = []func(m *meshconfig.MeshConfig){
	func(m *meshconfig.MeshConfig) {
		m.OutboundTrafficPolicy = &meshconfig.MeshConfig_OutboundTrafficPolicy{Mode: meshconfig.MeshConfig_OutboundTrafficPolicy_REGISTRY_ONLY}
	},
	func(m *meshconfig.MeshConfig) { m.AccessLogFile = "/dev/stdout" },
	func(m *meshconfig.MeshConfig) { m.EnableAutoMtls = wrapperspb.Bool(false) },
	// 3: read by EVERY generated cluster - and clusters are served from the xDS cache, whose key does not contain it: only
	// the ClearAll of a Forced push keeps the cache honest
	func(m *meshconfig.MeshConfig) { m.ConnectTimeout = durationpb.New(3 * time.Second) },
}

func isMesh(id string) bool { return id == meshID }

func meshFor(w world) *meshconfig.MeshConfig {
	v, ok := w[meshID]
	if !ok {
		return convergeMesh
	}
	m := proto.Clone(convergeMesh).(*meshconfig.MeshConfig)
	meshVariants[v%len(meshVariants)](m)
	return m
}

func (st *site) applyMesh(op string, variant int, cur world) error {
	nw := cur.clone()
	if op == "delete" {
		delete(nw, meshID)
	} else {
		nw[meshID] = variant
	}
	st.s.Env().Watcher.(meshwatcher.TestWatcher).Set(meshFor(nw))
	st.s.Discovery.ConfigUpdate(&model.PushRequest{Forced: true, Reason: model.NewReasonStats(model.GlobalUpdate)})
	return nil
}

// pseudoObjs: the objects of the grammar that are neither Istio config nor composite kube services
var pseudoObjs = []struct {
	id string
	n  int
}{{meshID, len(meshVariants)}, {secretID, len(secretPairs)}, {ingressID, ingressVariants}}
