package main

import (
	"context"
	"fmt"

	knetworking "k8s.io/api/networking/v1"
	kerrors "k8s.io/apimachinery/pkg/api/errors"
	metav1 "k8s.io/apimachinery/pkg/apis/meta/v1"
	"k8s.io/apimachinery/pkg/runtime"
)

// A Kubernetes Ingress (`k-ing`, class istio): the ingress controller of the fake server turns it into a Gateway and a
// VirtualService for the router; 0 = one path to ksvc, 1 = two paths (ksvc, hhttp's namesake in ns1 does not exist: a
// backend without Service), 2 = another host.
const ingressID = "k-ing"

func isIngress(id string) bool { return id == ingressID }

const ingressVariants = 3

func ingressObject(v int) *knetworking.Ingress {
	pt := knetworking.PathTypePrefix
	backend := func(svc string, port int32) knetworking.IngressBackend {
		return knetworking.IngressBackend{Service: &knetworking.IngressServiceBackend{Name: svc, Port: knetworking.ServiceBackendPort{Number: port}}}
	}
	host := "ing.example.com"
	paths := []knetworking.HTTPIngressPath{{Path: "/k", PathType: &pt, Backend: backend("ksvc", 80)}}
	switch v % ingressVariants {
	case 1:
		paths = append(paths, knetworking.HTTPIngressPath{Path: "/h", PathType: &pt, Backend: backend("nosuch", 8080)})
	case 2:
		host = "ing2.example.com"
	}
	return &knetworking.Ingress{
		ObjectMeta: metav1.ObjectMeta{Name: "ing", Namespace: "ns1", Annotations: map[string]string{"kubernetes.io/ingress.class": "istio"},
			CreationTimestamp: metav1.NewTime(baseTime)},
		Spec: knetworking.IngressSpec{Rules: []knetworking.IngressRule{{Host: host,
			IngressRuleValue: knetworking.IngressRuleValue{HTTP: &knetworking.HTTPIngressRuleValue{Paths: paths}}}}},
	}
}

func ingressObjects(w world) []runtime.Object {
	if v, ok := w[ingressID]; ok {
		return []runtime.Object{ingressObject(v)}
	}
	return nil
}

func (st *site) applyIngress(op string, variant int) error {
	ctx := context.Background()
	k := st.s.KubeClient().Kube().NetworkingV1().Ingresses("ns1")
	switch op {
	case "create":
		_, err := k.Create(ctx, ingressObject(variant), metav1.CreateOptions{})
		return err
	case "update":
		_, err := k.Update(ctx, ingressObject(variant), metav1.UpdateOptions{})
		return err
	case "delete":
		if err := k.Delete(ctx, "ing", metav1.DeleteOptions{}); err != nil && !kerrors.IsNotFound(err) {
			return err
		}
		return nil
	}
	return fmt.Errorf("unknown op %s", op)
}
