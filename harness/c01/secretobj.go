package main

import (
	"context"
	"fmt"
	"os"
	"path/filepath"
	"time"

	corev1 "k8s.io/api/core/v1"
	kerrors "k8s.io/apimachinery/pkg/api/errors"
	metav1 "k8s.io/apimachinery/pkg/apis/meta/v1"
	"k8s.io/apimachinery/pkg/runtime"

	"istio.io/istio/pilot/pkg/model"
	"istio.io/istio/pkg/config/schema/kind"
	"istio.io/istio/pkg/security"
	"istio.io/istio/pkg/util/sets"
)

// The Kubernetes Secret behind the credentialName of Gateway variant 3 (`k-secret`): absent, or one of two key pairs.
// The router fetches it by SDS. In istiod the credentials controller's secret handler requests the push
// (bootstrap.initSDSServer: ConfigsUpdated {Secret name/namespace}, reason SecretTrigger); the fake server does not
// install that handler, so the harness requests exactly that push after the credentials informer had time to see the
// event.
const secretID = "k-secret"

var secretPairs = [][2]string{
	{"tests/testdata/certs/default/cert-chain.pem", "tests/testdata/certs/default/key.pem"},
	{"tests/testdata/certs/dns/cert-chain.pem", "tests/testdata/certs/dns/key.pem"},
}

func isSecret(id string) bool { return id == secretID }

func repoRoot() string {
	if r := os.Getenv("VERIF_REPO"); r != "" {
		return r
	}
	return "/repo"
}

func secretObject(v int) *corev1.Secret {
	pair := secretPairs[v%len(secretPairs)]
	crt, err := os.ReadFile(filepath.Join(repoRoot(), pair[0]))
	if err != nil {
		panic(err)
	}
	key, err := os.ReadFile(filepath.Join(repoRoot(), pair[1]))
	if err != nil {
		panic(err)
	}
	return &corev1.Secret{
		ObjectMeta: metav1.ObjectMeta{Name: "gw-cred", Namespace: "istio-system", CreationTimestamp: metav1.NewTime(baseTime)},
		Type:       corev1.SecretTypeTLS,
		Data:       map[string][]byte{"tls.crt": crt, "tls.key": key},
	}
}

func secretObjects(w world) []runtime.Object {
	if v, ok := w[secretID]; ok {
		return []runtime.Object{secretObject(v)}
	}
	return nil
}

func (st *site) applySecret(op string, variant int) error {
	ctx := context.Background()
	k := st.s.KubeClient().Kube().CoreV1().Secrets("istio-system")
	var err error
	switch op {
	case "create":
		_, err = k.Create(ctx, secretObject(variant), metav1.CreateOptions{})
	case "update":
		_, err = k.Update(ctx, secretObject(variant), metav1.UpdateOptions{})
	case "delete":
		err = k.Delete(ctx, "gw-cred", metav1.DeleteOptions{})
		if kerrors.IsNotFound(err) {
			err = nil
		}
	default:
		err = fmt.Errorf("unknown op %s", op)
	}
	if err != nil {
		return err
	}
	time.Sleep(40 * time.Millisecond) // the informer of the credentials controller delivers the event first
	st.s.Discovery.ConfigUpdate(&model.PushRequest{
		ConfigsUpdated: sets.New(model.ConfigKey{Kind: kind.Secret, Name: "gw-cred", Namespace: "istio-system"}),
		Reason:         model.NewReasonStats(model.SecretTrigger),
	})
	return nil
}

// ctxAuthenticator: the clients of the harness are in-process streams; each carries the identity of its proxy in its
// context (what the TLS handshake establishes for a real proxy), so that the server sets Proxy.VerifiedIdentity and the
// SDS generator serves it.
type identityKey struct{}

type ctxAuthenticator struct{}

func (ctxAuthenticator) AuthenticatorType() string { return "verif-ctx" }

func (ctxAuthenticator) Authenticate(ac security.AuthContext) (*security.Caller, error) {
	if ac.GrpcContext != nil {
		if id, ok := ac.GrpcContext.Value(identityKey{}).(string); ok && id != "" {
			return &security.Caller{AuthSource: security.AuthSourceClientCertificate, Identities: []string{id}}, nil
		}
	}
	return nil, fmt.Errorf("no identity in context")
}
