// Harness for property C01 (xDS converges to the current config, independent of update history).
//
// All decisions are taken by the REAL functions of /repo (pilot/pkg/xds, pilot/pkg/model),
// reached through the verif-tagged accessors of pilot/pkg/xds/zz_verif_c01.go.  This file:
// interning of the abstract identifiers of the Lean model into real strings, construction of
// real model.Proxy / model.PushRequest values, the test.Failer used to run istio's fake servers
// outside `go test`.
package main

import (
	"fmt"
	"os"
	"sort"
	"strconv"
	"strings"
	"sync"

	envoycore "github.com/envoyproxy/go-control-plane/envoy/config/core/v3"

	meshconfig "istio.io/api/mesh/v1alpha1"
	networking "istio.io/api/networking/v1alpha3"
	"istio.io/istio/pilot/pkg/model"
	"istio.io/istio/pilot/pkg/networking/core"
	v3 "istio.io/istio/pilot/pkg/xds/v3"
	"istio.io/istio/pkg/cluster"
	"istio.io/istio/pkg/config/constants"
	"istio.io/istio/pkg/config/host"
	"istio.io/istio/pkg/config/mesh"
	"istio.io/istio/pkg/config/protocol"
	"istio.io/istio/pkg/config/schema/kind"
	"istio.io/istio/pkg/network"
	"istio.io/istio/pkg/util/sets"
)

// ---------------------------------------------------------------- test.Failer outside go test

type failer struct {
	mu       sync.Mutex
	cleanups []func()
}

func (f *failer) Fail()                          { panic("harness: Fail") }
func (f *failer) FailNow()                       { panic("harness: FailNow") }
func (f *failer) Fatal(args ...any)              { panic(fmt.Sprint(args...)) }
func (f *failer) Fatalf(format string, a ...any) { panic(fmt.Sprintf(format, a...)) }
func (f *failer) Log(args ...any)                {}
func (f *failer) Logf(format string, a ...any)   {}
func (f *failer) TempDir() string                { d, _ := os.MkdirTemp("", "c01"); return d }
func (f *failer) Helper()                        {}
func (f *failer) Skip(args ...any)               {}
func (f *failer) Cleanup(fn func()) {
	f.mu.Lock()
	defer f.mu.Unlock()
	f.cleanups = append(f.cleanups, fn)
}

func (f *failer) done() {
	f.mu.Lock()
	cs := f.cleanups
	f.cleanups = nil
	f.mu.Unlock()
	for i := len(cs) - 1; i >= 0; i-- {
		cs[i]()
	}
}

// ---------------------------------------------------------------- interning

const rootNamespace = "istio-system"

// nsName maps a model namespace id to a real namespace: 0 is the mesh root namespace.
func nsName(id int) string {
	if id == 0 {
		return rootNamespace
	}
	return "ns" + strconv.Itoa(id)
}

// objName maps a model name / hostname id to a real name (a valid hostname).
func objName(id int) string { return "h" + strconv.Itoa(id) + ".example.com" }

func netName(id int) string  { return "net" + strconv.Itoa(id) }
func addrName(id int) string { return "10.0.0." + strconv.Itoa(id) }

// allKinds lists kind.Kind in iota order, as long as String() knows the value.
func allKinds() []kind.Kind {
	var out []kind.Kind
	for i := 0; i < 255; i++ {
		k := kind.Kind(i)
		if i != 0 && k.String() == "Unknown" {
			break
		}
		out = append(out, k)
	}
	return out
}

// ---------------------------------------------------------------- model inputs (abstract form)

type mKey struct {
	Kind     kind.Kind
	Name, Ns int
}

func (k mKey) real() model.ConfigKey {
	return model.ConfigKey{Kind: k.Kind, Name: objName(k.Name), Namespace: nsName(k.Ns)}
}

func (k mKey) tok() string { return fmt.Sprintf("%s/%d/%d", k.Kind.String(), k.Name, k.Ns) }

type mWRef struct {
	Ns        int
	Host      int // -1: address based
	Net, Addr int
}

func (w mWRef) real() model.WaypointReference {
	if w.Host >= 0 {
		return model.WaypointReference{Namespace: nsName(w.Ns), Hostname: objName(w.Host)}
	}
	return model.WaypointReference{Network: netName(w.Net), Address: addrName(w.Addr)}
}

type mReq struct {
	Keys    []mKey
	Reasons []string // TriggerReason values
	Forced  bool
	WRefs   []mWRef
}

type mScope struct {
	Nil      bool
	Ns       int
	Deps     []mKey
	Services []int
}

type mMG struct {
	Nil   bool
	AP    bool
	Hosts []int
	Names []int
}

type mProxy struct {
	Type        model.NodeType
	CfgNs       int
	MetaNs      int
	EW          bool
	WatchAddr   bool
	SelfDisc    bool
	Local       [2]int // name, ns; name -1 = zero value
	PrevLocal   [2]int
	Targets     [][2]int // hostname, ns
	PrevTargets [][2]int
	Scope       mScope
	PrevScope   mScope
	MG          mMG
	PrevMG      mMG
	Network     int
	Addrs       []int
}

var theMesh = func() *meshconfig.MeshConfig {
	m := mesh.DefaultMeshConfig()
	m.RootNamespace = rootNamespace
	return m
}()

// convergeMesh: the mesh config of the `converge` servers: theMesh plus extension providers that are
// backed by mesh services (access log services, tracing collectors, external authorization), so
// that what Telemetry / AuthorizationPolicy generate depends on the service index as well.
var convergeMesh = func() *meshconfig.MeshConfig {
	m := mesh.DefaultMeshConfig()
	m.RootNamespace = rootNamespace
	m.ExtensionProviders = append(m.ExtensionProviders,
		&meshconfig.MeshConfig_ExtensionProvider{Name: "otel-als", Provider: &meshconfig.MeshConfig_ExtensionProvider_EnvoyOtelAls{
			EnvoyOtelAls: &meshconfig.MeshConfig_ExtensionProvider_EnvoyOpenTelemetryLogProvider{Service: "otel.example.com", Port: 4317}}},
		&meshconfig.MeshConfig_ExtensionProvider{Name: "http-als", Provider: &meshconfig.MeshConfig_ExtensionProvider_EnvoyHttpAls{
			EnvoyHttpAls: &meshconfig.MeshConfig_ExtensionProvider_EnvoyHttpGrpcV3LogProvider{Service: "otel.example.com", Port: 8081}}},
		&meshconfig.MeshConfig_ExtensionProvider{Name: "tcp-als", Provider: &meshconfig.MeshConfig_ExtensionProvider_EnvoyTcpAls{
			EnvoyTcpAls: &meshconfig.MeshConfig_ExtensionProvider_EnvoyTcpGrpcV3LogProvider{Service: "ksvc.ns1.svc.cluster.local", Port: 80}}},
		&meshconfig.MeshConfig_ExtensionProvider{Name: "otel-trace", Provider: &meshconfig.MeshConfig_ExtensionProvider_Opentelemetry{
			Opentelemetry: &meshconfig.MeshConfig_ExtensionProvider_OpenTelemetryTracingProvider{Service: "otel.example.com", Port: 4317}}},
		&meshconfig.MeshConfig_ExtensionProvider{Name: "zipkin", Provider: &meshconfig.MeshConfig_ExtensionProvider_Zipkin{
			Zipkin: &meshconfig.MeshConfig_ExtensionProvider_ZipkinTracingProvider{Service: "otel.example.com", Port: 9411}}},
		&meshconfig.MeshConfig_ExtensionProvider{Name: "ext-authz", Provider: &meshconfig.MeshConfig_ExtensionProvider_EnvoyExtAuthzGrpc{
			EnvoyExtAuthzGrpc: &meshconfig.MeshConfig_ExtensionProvider_EnvoyExternalAuthorizationGrpcProvider{Service: "authz.example.com", Port: 9000}}},
	)
	return m
}()

// scopeEnv caches one real PushContext per set of visible service hostnames, so that router
// scopes are REAL model.SidecarScope values built by model.DefaultSidecarScopeForGateway.
type scopeEnv struct {
	f     *failer
	cache map[string]*model.PushContext
}

func newScopeEnv() *scopeEnv { return &scopeEnv{f: &failer{}, cache: map[string]*model.PushContext{}} }

func (e *scopeEnv) push(services []int) *model.PushContext {
	s := append([]int(nil), services...)
	sort.Ints(s)
	key := fmt.Sprint(s)
	if p, ok := e.cache[key]; ok {
		return p
	}
	var svcs []*model.Service
	for i, id := range s {
		if i > 0 && s[i-1] == id {
			continue
		}
		svcs = append(svcs, &model.Service{
			Hostname:       host.Name(objName(id)),
			DefaultAddress: "10.1.0." + strconv.Itoa(id%250+1),
			Ports:          model.PortList{{Name: "http", Port: 80, Protocol: protocol.HTTP}},
			Attributes:     model.ServiceAttributes{Name: "h" + strconv.Itoa(id), Namespace: nsName(1)},
		})
	}
	cg := core.NewConfigGenTest(e.f, core.TestOptions{Services: svcs, MeshConfig: theMesh})
	p := cg.PushContext()
	e.cache[key] = p
	return p
}

func (e *scopeEnv) close() { e.f.done() }

// realScope builds a real *model.SidecarScope. For a sidecar the decisions read Namespace and
// the config dependencies; for a router they read the services of the scope.
//
// A real scope derives config dependencies from its services (every imported service is a
// ServiceEntry dependency). The abstract description keeps the two apart, so for a sidecar (which
// reads only Namespace and the dependencies) the real scope is built over an empty registry and
// gets exactly the listed dependencies; for every other type (which never reads the
// dependencies) it is built over the listed services.
func (e *scopeEnv) realScope(s mScope, t model.NodeType) *model.SidecarScope {
	if s.Nil {
		return nil
	}
	services := s.Services
	if t == model.SidecarProxy {
		services = nil
	}
	sc := model.DefaultSidecarScopeForGateway(e.push(services), nsName(s.Ns))
	for _, d := range s.Deps {
		sc.AddConfigDependencies(d.real().HashCode())
	}
	return sc
}

func realMG(g mMG) *model.MergedGateway {
	if g.Nil {
		return nil
	}
	out := &model.MergedGateway{ContainsAutoPassthroughGateways: g.AP, AutoPassthroughSNIHosts: sets.New[string]()}
	for _, h := range g.Hosts {
		out.AutoPassthroughSNIHosts.Insert(objName(h))
	}
	out.GatewayNameForServer = gatewayNames(g.Names)
	return out
}

func realPrevMG(g mMG) *model.PrevMergedGateway {
	if g.Nil {
		return nil
	}
	out := &model.PrevMergedGateway{ContainsAutoPassthroughGateways: g.AP, AutoPassthroughSNIHosts: sets.New[string]()}
	for _, h := range g.Hosts {
		out.AutoPassthroughSNIHosts.Insert(objName(h))
	}
	out.GatewayNameForServer = gatewayNames(g.Names)
	return out
}

func netID(id int) network.ID { return network.ID(netName(id)) }

// gatewayNames builds GatewayNameForServer: one distinct server per (possibly repeated) name.
func gatewayNames(names []int) map[*networking.Server]string {
	m := map[*networking.Server]string{}
	for _, n := range names {
		m[&networking.Server{}] = "gw" + strconv.Itoa(n)
	}
	return m
}

func localInfo(x [2]int) model.LocalServiceInfo {
	if x[0] < 0 {
		return model.LocalServiceInfo{}
	}
	return model.LocalServiceInfo{Name: objName(x[0]), Namespace: nsName(x[1]), Port: 80}
}

// realProxy builds the real model.Proxy of an abstract proxy description.
func (e *scopeEnv) realProxy(p mProxy) *model.Proxy {
	labels := map[string]string{"app": "x"}
	if p.EW {
		labels["gateway.istio.io/managed"] = constants.ManagedGatewayEastWestControllerLabel
	}
	meta := &model.NodeMetadata{
		Namespace: nsName(p.MetaNs),
		Labels:    labels,
		Network:   netID(p.Network),
		ClusterID: "Kubernetes",
	}
	if p.SelfDisc {
		meta.EnableSelfDiscovery = true
	}
	px := &model.Proxy{
		Type:             p.Type,
		ID:               "proxy.ns",
		ConfigNamespace:  nsName(p.CfgNs),
		Metadata:         meta,
		Labels:           labels,
		IPAddresses:      []string{"10.9.9.9"},
		XdsNode:          &envoycore.Node{Id: "proxy.ns"},
		WatchedResources: map[string]*model.WatchedResource{},
		SidecarScope:     e.realScope(p.Scope, p.Type),
		PrevSidecarScope: e.realScope(p.PrevScope, p.Type),
		MergedGateway:    realMG(p.MG),
		LocalService:     localInfo(p.Local),
		PrevLocalService: localInfo(p.PrevLocal),
	}
	px.PrevMergedGateway = realPrevMG(p.PrevMG)
	if p.WatchAddr {
		px.WatchedResources[v3.AddressType] = &model.WatchedResource{TypeUrl: v3.AddressType, Wildcard: true}
	}
	for i, t := range p.Targets {
		svc := &model.Service{
			Hostname:       host.Name(objName(t[0])),
			DefaultAddress: "0.0.0.0",
			Attributes:     model.ServiceAttributes{Name: "h" + strconv.Itoa(t[0]), Namespace: nsName(t[1])},
		}
		// the service VIPs feed the waypoint key (address based references)
		if i == 0 && len(p.Addrs) > 0 {
			var vips []string
			for _, a := range p.Addrs {
				vips = append(vips, addrName(a))
			}
			svc.ClusterVIPs = model.AddressMap{Addresses: map[cluster.ID][]string{"Kubernetes": vips}}
		}
		px.ServiceTargets = append(px.ServiceTargets, model.ServiceTarget{Service: svc, Port: model.ServiceInstancePort{}})
	}
	for _, t := range p.PrevTargets {
		px.PrevServiceTargets = append(px.PrevServiceTargets, model.ServiceTarget{Service: &model.Service{
			Hostname:       host.Name(objName(t[0])),
			DefaultAddress: "0.0.0.0",
			Attributes:     model.ServiceAttributes{Name: "h" + strconv.Itoa(t[0]), Namespace: nsName(t[1])},
		}, Port: model.ServiceInstancePort{}})
	}
	return px
}

// realReq builds the real model.PushRequest.
func realReq(r mReq, push *model.PushContext) *model.PushRequest {
	req := &model.PushRequest{
		ConfigsUpdated: sets.New[model.ConfigKey](),
		Reason:         model.NewReasonStats(),
		Forced:         r.Forced,
		Push:           push,
	}
	for _, k := range r.Keys {
		req.ConfigsUpdated.Insert(k.real())
	}
	for _, x := range r.Reasons {
		req.Reason.Add(model.TriggerReason(x))
	}
	if len(r.WRefs) > 0 {
		req.WaypointsUpdated = sets.New[model.WaypointReference]()
		for _, w := range r.WRefs {
			req.WaypointsUpdated.Insert(w.real())
		}
	}
	return req
}

// keysBack maps the ConfigsUpdated of a returned request back to abstract keys (sorted tokens).
func keysBack(in []mKey, out sets.Set[model.ConfigKey]) []string {
	var toks []string
	seen := map[model.ConfigKey]bool{}
	for _, k := range in {
		rk := k.real()
		if out.Contains(rk) && !seen[rk] {
			seen[rk] = true
			toks = append(toks, k.tok())
		}
	}
	if len(seen) != len(out) {
		toks = append(toks, "EXTRA-KEYS")
	}
	sort.Strings(toks)
	return toks
}

// barePush is a PushContext that only carries the mesh config (root namespace).
func barePush() *model.PushContext {
	p := model.NewPushContext()
	p.Mesh = theMesh
	return p
}

func join(xs []string) string {
	if len(xs) == 0 {
		return "-"
	}
	return strings.Join(xs, ",")
}
