package main

// `table <name> <out.lean>`: T-gen. The REAL push-decision functions are evaluated over the whole
// finite single-key domain described in lean/IstioModel/C01/Table.lean (same mixed-radix row
// index) and the result is written as Nat bit masks to lean/IstioModel/Generated/C01Table.lean.

import (
	"fmt"
	"math/big"
	"os"
	"strings"

	"istio.io/istio/pilot/pkg/model"
	"istio.io/istio/pilot/pkg/xds"
	v3 "istio.io/istio/pilot/pkg/xds/v3"
	xdsfake "istio.io/istio/pilot/test/xds"
	"istio.io/istio/pkg/config/schema/kind"
	"istio.io/istio/pkg/util/sets"
)

var pvTypes = []model.NodeType{model.SidecarProxy, model.Router, model.Waypoint, model.Waypoint, model.Ztunnel, model.Agentgateway}

const (
	pvEW   = 3
	nPV    = 6
	nNs    = 3
	nRC    = 5
	nScope = 3
	nExtra = 9
	reps   = 3 // every function is called several times: Go map iteration order is random
)

var rcReasons = [][]string{{"config"}, {"headlessendpoint"}, {"service"}, {"headlessendpoint", "service"}, {"headlessendpoint", "endpoint"}}

type mask struct{ b *big.Int }

func newMask() *mask { return &mask{b: new(big.Int)} }
func (m *mask) set(i int, v bool) {
	if v {
		m.b.SetBit(m.b, i, 1)
	}
}
func (m *mask) hex() string { return "0x" + m.b.Text(16) }

func stable(name string, idx int, f func() bool) bool {
	v := f()
	for i := 1; i < reps; i++ {
		if f() != v {
			panic(fmt.Sprintf("table: %s is not deterministic on row %d", name, idx))
		}
	}
	return v
}

func tProxy(pv int) mProxy {
	return mProxy{
		Type: pvTypes[pv], CfgNs: 1, MetaNs: 1, EW: pv == pvEW,
		Local: [2]int{-1, 0}, PrevLocal: [2]int{-1, 0},
		Targets:   [][2]int{{6, 1}},
		Scope:     mScope{Nil: true},
		PrevScope: mScope{Nil: true},
		MG:        mMG{Names: []int{1}},
		PrevMG:    mMG{Names: []int{1}},
	}
}

func scopeOf(c int, k mKey) mScope {
	switch c {
	case 0:
		return mScope{Nil: true}
	case 1:
		return mScope{Ns: 1, Services: []int{9}}
	default:
		return mScope{Ns: 1, Deps: []mKey{k}, Services: []int{9, 5}}
	}
}

func runTable(out string) {
	kinds := allKinds()
	nK := len(kinds)
	env := newScopeEnv()
	defer env.close()
	push := barePush()

	// ---------------- section T
	tNames := []string{"cds", "cdsKept", "eds", "partialEds", "lds", "rds", "nds", "ecds", "sds", "pcds"}
	tMasks := make([]*mask, len(tNames))
	for i := range tMasks {
		tMasks[i] = newMask()
	}
	tRows := nK * nPV * nNs * nRC * 2 * 2
	for ki, k := range kinds {
		for pv := 0; pv < nPV; pv++ {
			for ns := 0; ns < nNs; ns++ {
				for rc := 0; rc < nRC; rc++ {
					for forced := 0; forced < 2; forced++ {
						for wp := 0; wp < 2; wp++ {
							idx := ((((ki*nPV+pv)*nNs+ns)*nRC+rc)*2+forced)*2 + wp
							key := mKey{Kind: k, Name: 5, Ns: ns}
							mr := mReq{Keys: []mKey{key}, Reasons: rcReasons[rc], Forced: forced == 1}
							if wp == 1 {
								mr.WRefs = append(mr.WRefs, mWRef{Ns: 1, Host: 6})
							}
							mr.WRefs = append(mr.WRefs, mWRef{Ns: 2, Host: 7})
							px := env.realProxy(tProxy(pv))
							mk := func() *model.PushRequest { return realReq(mr, push) }
							rk := key.real()
							tMasks[0].set(idx, stable("cds", idx, func() bool { _, b := xds.VerifC01CdsNeedsPush(mk(), px); return b }))
							tMasks[1].set(idx, stable("cdsKept", idx, func() bool {
								r, _ := xds.VerifC01CdsNeedsPush(mk(), px)
								return r.ConfigsUpdated.Contains(rk)
							}))
							tMasks[2].set(idx, stable("eds", idx, func() bool { return xds.VerifC01EdsNeedsPush(mk(), px) }))
							tMasks[3].set(idx, stable("partialEds", idx, func() bool { return xds.VerifC01CanSendPartialFullPushes(mk()) }))
							tMasks[4].set(idx, stable("lds", idx, func() bool { return xds.VerifC01LdsNeedsPush(px, mk()) }))
							tMasks[5].set(idx, stable("rds", idx, func() bool { return xds.VerifC01RdsNeedsPush(mk(), px) }))
							tMasks[6].set(idx, stable("nds", idx, func() bool { return xds.VerifC01NdsNeedsPush(mk(), px) }))
							tMasks[7].set(idx, stable("ecds", idx, func() bool { return xds.VerifC01EcdsNeedsPush(mk(), px) }))
							tMasks[8].set(idx, stable("sds", idx, func() bool {
								r := mk()
								return xds.VerifC01SdsNeedsPush(r.Forced, r.ConfigsUpdated)
							}))
							tMasks[9].set(idx, stable("pcds", idx, func() bool { return xds.VerifC01PcdsNeedsPush(mk()) }))
						}
					}
				}
			}
		}
	}

	// ---------------- section P
	pNeeds, pKept := newMask(), newMask()
	pRows := nPV * nK * nNs * nScope * nScope * nExtra
	for pv := 0; pv < nPV; pv++ {
		for ki, k := range kinds {
			for ns := 0; ns < nNs; ns++ {
				for cur := 0; cur < nScope; cur++ {
					for prev := 0; prev < nScope; prev++ {
						for extra := 0; extra < nExtra; extra++ {
							idx := ((((pv*nK+ki)*nNs+ns)*nScope+cur)*nScope+prev)*nExtra + extra
							key := mKey{Kind: k, Name: 5, Ns: ns}
							mp := mProxy{
								Type: pvTypes[pv], CfgNs: 1, MetaNs: 1, EW: pv == pvEW,
								Local: [2]int{-1, 0}, PrevLocal: [2]int{-1, 0},
								Targets:   [][2]int{{6, 1}},
								Scope:     scopeOf(cur, key),
								PrevScope: scopeOf(prev, key),
								MG:        mMG{Nil: true}, PrevMG: mMG{Nil: true},
							}
							mr := mReq{Keys: []mKey{key}, Reasons: []string{"config"}}
							switch extra {
							case 1: // selfNoMatch
								mp.SelfDisc, mp.Local = true, [2]int{9, 1}
							case 2: // selfLocal
								mp.SelfDisc, mp.Local = true, [2]int{5, ns}
							case 3: // selfPrev
								mp.SelfDisc, mp.Local, mp.PrevLocal = true, [2]int{9, 1}, [2]int{5, ns}
							case 4: // offButMatching
								mp.Local = [2]int{5, ns}
							case 5: // target
								mp.Targets = [][2]int{{5, ns}}
							case 6: // forced
								mr.Forced = true
							case 7: // watchAddr
								mp.WatchAddr = true
							case 8: // prevTarget
								mp.PrevTargets = [][2]int{{5, ns}}
							}
							px := env.realProxy(mp)
							rk := key.real()
							pNeeds.set(idx, stable("proxyNeedsPush", idx, func() bool {
								_, b := xds.DefaultProxyNeedsPush(px, realReq(mr, push))
								return b
							}))
							pKept.set(idx, stable("proxyNeedsPush.kept", idx, func() bool {
								r, _ := xds.DefaultProxyNeedsPush(px, realReq(mr, push))
								return r.ConfigsUpdated.Contains(rk)
							}))
						}
					}
				}
			}
		}
	}

	// ---------------- section S: the proxy state refresh, observed through sentinels
	f := &failer{}
	defer f.done()
	s := xdsfake.NewFakeDiscoveryServer(f, xdsfake.FakeOptions{MeshConfig: theMesh})
	sNames := []string{"labels", "targets", "scope", "gateway"}
	sDirect := []*mask{newMask(), newMask(), newMask(), newMask()}
	sPush := []*mask{newMask(), newMask(), newMask(), newMask()}
	sRows := nPV * nK * 2 * 2 * 2
	observe := func(pv int, req *model.PushRequest, through func(px *model.Proxy, req *model.PushRequest)) [4]bool {
		px := env.realProxy(mProxy{
			Type: pvTypes[pv], CfgNs: 1, MetaNs: 1, EW: pv == pvEW,
			Local: [2]int{-1, 0}, PrevLocal: [2]int{-1, 0},
			Scope: mScope{Ns: 1}, PrevScope: mScope{Nil: true},
			MG: mMG{AP: true}, PrevMG: mMG{Nil: true},
		})
		// sentinels: each refresh step leaves a distinct trace
		px.Labels = map[string]string{"verif-sentinel": "1"}
		for k, v := range px.Metadata.Labels {
			px.Labels[k] = v
		}
		px.LocalService = model.LocalServiceInfo{Name: "verif-sentinel"}
		sentinelScope := px.SidecarScope
		px.LastPushContext = s.Discovery.Env.PushContext()
		through(px, req)
		var o [4]bool
		_, still := px.Labels["verif-sentinel"]
		o[0] = !still
		o[1] = px.PrevLocalService.Name == "verif-sentinel"
		o[2] = px.PrevSidecarScope == sentinelScope
		o[3] = px.PrevMergedGateway != nil && px.PrevMergedGateway.ContainsAutoPassthroughGateways
		return o
	}
	direct := func(px *model.Proxy, req *model.PushRequest) { xds.VerifC01ComputeProxyState(s.Discovery, px, req) }
	viaPush := func(px *model.Proxy, req *model.PushRequest) {
		if err := xds.VerifC01PushConnection(s.Discovery, px, req); err != nil {
			panic(err)
		}
	}
	for pv := 0; pv < nPV; pv++ {
		for ki, k := range kinds {
			for own := 0; own < 2; own++ {
				for forced := 0; forced < 2; forced++ {
					for pr := 0; pr < 2; pr++ {
						idx := (((pv*nK+ki)*2+own)*2+forced)*2 + pr
						ns := 2
						if own == 1 {
							ns = 1
						}
						mr := mReq{Keys: []mKey{{Kind: k, Name: 5, Ns: ns}}, Reasons: []string{"config"}, Forced: forced == 1}
						if pr == 1 {
							mr.Reasons = append(mr.Reasons, "proxy")
						}
						for r := 0; r < reps; r++ {
							d := observe(pv, realReq(mr, s.Discovery.Env.PushContext()), direct)
							p := observe(pv, realReq(mr, s.Discovery.Env.PushContext()), viaPush)
							for j := 0; j < 4; j++ {
								if r == 0 {
									sDirect[j].set(idx, d[j])
									sPush[j].set(idx, p[j])
								} else if (sDirect[j].b.Bit(idx) == 1) != d[j] || (sPush[j].b.Bit(idx) == 1) != p[j] {
									panic(fmt.Sprintf("table: computeProxyState not deterministic on row %d", idx))
								}
							}
						}
					}
				}
			}
		}
		// the nil request of a new connection
		d := observe(pv, nil, direct)
		for j := 0; j < 4; j++ {
			sDirect[j].set(sRows+pv, d[j])
		}
	}

	// ---------------- constants
	var kindNames []string
	for _, k := range kinds {
		kindNames = append(kindNames, k.String())
	}
	var order []string
	for _, t := range xds.PushOrder {
		order = append(order, shortType(t))
	}
	skips := xds.VerifC01SkipTables()

	var b strings.Builder
	b.WriteString("/- GENERATED by `harness/c01 table` from the working tree of the istio repository: the real\n")
	b.WriteString("   push-decision functions of pilot/pkg/xds evaluated on every row of the single-key domain of\n")
	b.WriteString("   IstioModel/C01/Table.lean. Do not edit. -/\n")
	b.WriteString("namespace IstioModel.C01.Gen\n\n")
	fmt.Fprintf(&b, "def nKinds : Nat := %d\n", nK)
	fmt.Fprintf(&b, "def kindNames : List String := [%s]\n\n", quoteList(kindNames))
	fmt.Fprintf(&b, "def pushOrder : List String := [%s]\n\n", quoteList(order))
	fmt.Fprintf(&b, "def tRows : Nat := %d\n", tRows)
	for i, n := range tNames {
		fmt.Fprintf(&b, "def t_%s : Nat := %s\n", n, tMasks[i].hex())
	}
	fmt.Fprintf(&b, "\ndef pRows : Nat := %d\n", pRows)
	fmt.Fprintf(&b, "def p_needs : Nat := %s\n", pNeeds.hex())
	fmt.Fprintf(&b, "def p_kept : Nat := %s\n", pKept.hex())
	fmt.Fprintf(&b, "\ndef sRows : Nat := %d\n", sRows)
	for i, n := range sNames {
		fmt.Fprintf(&b, "def s_direct_%s : Nat := %s\n", n, sDirect[i].hex())
	}
	for i, n := range sNames {
		fmt.Fprintf(&b, "def s_push_%s : Nat := %s\n", n, sPush[i].hex())
	}
	b.WriteString("\n/- the hand-maintained skip tables, for the reader (the ties use the behaviour above):\n")
	for _, n := range sortedKeys(skips) {
		var ks []string
		for _, k := range skips[n] {
			ks = append(ks, k.String())
		}
		sortStrings(ks)
		fmt.Fprintf(&b, "   %s: %s\n", n, strings.Join(ks, " "))
	}
	b.WriteString("-/\n\nend IstioModel.C01.Gen\n")
	if err := os.WriteFile(out, []byte(b.String()), 0o644); err != nil {
		panic(err)
	}
	fmt.Printf("table: kinds=%d tRows=%d pRows=%d sRows=%d evaluations=%d\n", nK, tRows, pRows, sRows+nPV,
		tRows*len(tNames)+pRows*2+(sRows+nPV)*8)
}

var shortTypes = map[string]string{
	v3.ClusterType: "CDS", v3.EndpointType: "EDS", v3.ListenerType: "LDS", v3.RouteType: "RDS",
	v3.SecretType: "SDS", v3.AddressType: "WDS", v3.WorkloadType: "WL", v3.WorkloadAuthorizationType: "WAUTH",
	v3.NameTableType: "NDS", v3.ExtensionConfigurationType: "ECDS", v3.ProxyConfigType: "PCDS",
}

func shortType(t string) string {
	if s, ok := shortTypes[t]; ok {
		return s
	}
	return t
}

func longType(s string) string {
	for l, sh := range shortTypes {
		if sh == s {
			return l
		}
	}
	return s
}

func quoteList(xs []string) string {
	q := make([]string, len(xs))
	for i, x := range xs {
		q[i] = fmt.Sprintf("%q", x)
	}
	return strings.Join(q, ", ")
}

func sortedKeys(m map[string][]kind.Kind) []string {
	s := sets.New[string]()
	for k := range m {
		s.Insert(k)
	}
	return sets.SortedList(s)
}

func sortStrings(xs []string) {
	s := sets.New(xs...)
	copy(xs, sets.SortedList(s))
}
