package main

// Ambient part of the `converge` stream (cases marked `ambient`; the process must run with
// PILOT_ENABLE_AMBIENT=true, features are read at start-up): a waypoint (Gateway + Service +
// instance), services and workloads attached to / detached from it, waypoint-bound
// AuthorizationPolicy; a long-lived waypoint proxy (SotW CDS/EDS/LDS/RDS) and a ztunnel-like delta
// client subscribed with a wildcard to the Address (WDS) and WorkloadAuthorization types.
// The ambient index reads Istio CRDs from the kube client while the classic registries read the
// config store (in istiod both are the same CRD client), so in ambient cases ServiceEntry,
// WorkloadEntry, AuthorizationPolicy and PeerAuthentication changes are applied to both.

import (
	"context"
	"fmt"
	"io"
	"net"
	"os"
	"sort"
	"strings"
	"sync"
	"sync/atomic"
	"time"

	envoycore "github.com/envoyproxy/go-control-plane/envoy/config/core/v3"
	discovery "github.com/envoyproxy/go-control-plane/envoy/service/discovery/v3"
	"google.golang.org/grpc/metadata"
	"google.golang.org/grpc/peer"
	kerrors "k8s.io/apimachinery/pkg/api/errors"
	metav1 "k8s.io/apimachinery/pkg/apis/meta/v1"
	"k8s.io/apimachinery/pkg/runtime"

	clientnetworking "istio.io/client-go/pkg/apis/networking/v1"
	clientsecurity "istio.io/client-go/pkg/apis/security/v1"
	"istio.io/istio/pilot/pkg/model"
	xdsfake "istio.io/istio/pilot/test/xds"
	kubelib "istio.io/istio/pkg/kube"
)

func ambientEnabled() bool { return os.Getenv("PILOT_ENABLE_AMBIENT") == "true" }

// ---------------------------------------------------------------- fixed infrastructure

const ambientInfra = `apiVersion: gateway.networking.k8s.io/v1
kind: Gateway
metadata:
  name: waypoint
  namespace: ns1
spec:
  gatewayClassName: waypoint
  listeners:
  - name: mesh
    port: 15008
    protocol: HBONE
status:
  addresses:
  - type: Hostname
    value: waypoint.ns1.svc.cluster.local
---
apiVersion: v1
kind: Service
metadata:
  labels:
    gateway.istio.io/managed: istio.io-mesh-controller
    gateway.networking.k8s.io/gateway-name: waypoint
    istio.io/gateway-name: waypoint
  name: waypoint
  namespace: ns1
spec:
  clusterIP: 3.0.0.0
  ports:
  - appProtocol: hbone
    name: mesh
    port: 15008
  selector:
    gateway.networking.k8s.io/gateway-name: waypoint
---
apiVersion: networking.istio.io/v1
kind: WorkloadEntry
metadata:
  name: waypoint-a
  namespace: ns1
spec:
  address: 3.0.0.1
  labels:
    gateway.networking.k8s.io/gateway-name: waypoint
`

// the Istio-config side of the infrastructure (the waypoint's instance)
const ambientInfraConfig = `apiVersion: networking.istio.io/v1
kind: WorkloadEntry
metadata:
  name: waypoint-a
  namespace: ns1
spec:
  address: 3.0.0.1
  labels:
    gateway.networking.k8s.io/gateway-name: waypoint
`

// ambient objects of the grammar (ids start with `am-`)
var ambientUniverse = []objDef{
	{ID: "am-se", Variants: []string{
		`apiVersion: networking.istio.io/v1
kind: ServiceEntry
metadata:
  name: app
  namespace: ns1
  labels:
    istio.io/use-waypoint: waypoint
spec:
  hosts: [app.com]
  addresses: [1.2.3.4]
  ports:
  - {number: 80, name: http, protocol: HTTP}
  resolution: STATIC
  workloadSelector:
    labels: {app: app}
`,
		// detached from the waypoint
		`apiVersion: networking.istio.io/v1
kind: ServiceEntry
metadata:
  name: app
  namespace: ns1
spec:
  hosts: [app.com]
  addresses: [1.2.3.4]
  ports:
  - {number: 80, name: http, protocol: HTTP}
  resolution: STATIC
  workloadSelector:
    labels: {app: app}
`,
		`apiVersion: networking.istio.io/v1
kind: ServiceEntry
metadata:
  name: app
  namespace: ns1
  labels:
    istio.io/use-waypoint: waypoint
spec:
  hosts: [app.com]
  addresses: [1.2.3.5]
  ports:
  - {number: 80, name: http, protocol: HTTP}
  - {number: 9090, name: tcp, protocol: TCP}
  resolution: STATIC
  workloadSelector:
    labels: {app: app}
`,
	}},
	{ID: "am-se2", Variants: []string{
		`apiVersion: networking.istio.io/v1
kind: ServiceEntry
metadata:
  name: other
  namespace: ns1
  labels:
    istio.io/use-waypoint: waypoint
spec:
  hosts: [other.com]
  addresses: [1.2.4.4]
  ports:
  - {number: 8080, name: http, protocol: HTTP}
  resolution: STATIC
  endpoints:
  - {address: 1.1.2.1}
`,
		`apiVersion: networking.istio.io/v1
kind: ServiceEntry
metadata:
  name: other
  namespace: ns1
spec:
  hosts: [other.com]
  addresses: [1.2.4.4]
  ports:
  - {number: 8080, name: http, protocol: HTTP}
  resolution: STATIC
  endpoints:
  - {address: 1.1.2.1}
  - {address: 1.1.2.2}
`,
	}},
	{ID: "am-we", Variants: []string{
		`apiVersion: networking.istio.io/v1
kind: WorkloadEntry
metadata:
  name: app-a
  namespace: ns1
  labels: {app: app}
  annotations:
    ambient.istio.io/redirection: enabled
spec:
  address: 1.1.1.1
  labels: {app: app}
`,
		`apiVersion: networking.istio.io/v1
kind: WorkloadEntry
metadata:
  name: app-a
  namespace: ns1
  labels: {app: app}
  annotations:
    ambient.istio.io/redirection: enabled
spec:
  address: 1.1.1.9
  labels: {app: app}
`,
		`apiVersion: networking.istio.io/v1
kind: WorkloadEntry
metadata:
  name: app-a
  namespace: ns1
  labels: {app: elsewhere}
spec:
  address: 1.1.1.1
  labels: {app: elsewhere}
`,
	}},
	{ID: "am-ap", Variants: []string{
		`apiVersion: security.istio.io/v1
kind: AuthorizationPolicy
metadata:
  name: wp-allow
  namespace: ns1
spec:
  targetRefs:
  - {kind: Gateway, group: gateway.networking.k8s.io, name: waypoint}
  action: ALLOW
  rules:
  - to:
    - operation: {methods: ["GET"]}
`,
		`apiVersion: security.istio.io/v1
kind: AuthorizationPolicy
metadata:
  name: wp-allow
  namespace: ns1
spec:
  targetRefs:
  - {kind: Gateway, group: gateway.networking.k8s.io, name: waypoint}
  action: DENY
  rules:
  - to:
    - operation: {paths: ["/private*"]}
`,
	}},
	{ID: "am-apz", Variants: []string{
		// a selector policy: enforced by ztunnel (WorkloadAuthorization)
		`apiVersion: security.istio.io/v1
kind: AuthorizationPolicy
metadata:
  name: l4
  namespace: ns1
spec:
  selector:
    matchLabels: {app: app}
  action: DENY
  rules:
  - from:
    - source: {namespaces: ["bad"]}
`,
		`apiVersion: security.istio.io/v1
kind: AuthorizationPolicy
metadata:
  name: l4
  namespace: ns1
spec:
  selector:
    matchLabels: {app: app}
  action: DENY
  rules:
  - from:
    - source: {namespaces: ["bad", "worse"]}
`,
	}},
}

func init() {
	for i := range ambientUniverse {
		universeIndex[ambientUniverse[i].ID] = &ambientUniverse[i]
	}
}

func isAmbientObj(id string) bool { return strings.HasPrefix(id, "am-") }

var waypointProxy = proxyDef{
	Name:   "waypoint",
	NodeID: "waypoint~3.0.0.1~waypoint-a.ns1~ns1.svc.cluster.local",
	Meta: &model.NodeMetadata{Namespace: "ns1", ClusterID: "Kubernetes", IstioVersion: "1.32.0", ServiceAccount: "waypoint",
		Labels: map[string]string{
			"gateway.networking.k8s.io/gateway-name": "waypoint",
			"gateway.istio.io/managed":               "istio.io-mesh-controller",
		}},
	Types: []string{"CDS", "EDS", "LDS", "RDS"},
}

// stamped sets the creation timestamp the config-store copy of the object has (render), so that both
// copies - and a cold-started server - order objects alike.
func stamped(id string, objs []runtime.Object) []runtime.Object {
	ts := metav1.NewTime(baseTime.Add(time.Duration(objIndex(id)) * time.Minute))
	for _, o := range objs {
		if m, ok := o.(metav1.Object); ok {
			m.SetCreationTimestamp(ts)
		}
	}
	return objs
}

func decodeObjects(yaml string) []runtime.Object {
	var out []runtime.Object
	decode := kubelib.IstioCodec.UniversalDeserializer().Decode
	for _, s := range strings.Split(yaml, "\n---\n") {
		if len(strings.TrimSpace(s)) == 0 {
			continue
		}
		o, _, err := decode([]byte(s), nil, nil)
		if err != nil {
			panic(fmt.Sprintf("ambient: cannot decode object: %v\n%s", err, s))
		}
		out = append(out, o)
	}
	return out
}

// mirrored: Istio kinds that the ambient index reads from the kube client
func mirrored(id string) bool {
	if isKube(id) || isGwapi(id) {
		return false
	}
	d := universeIndex[id]
	if d == nil {
		return false
	}
	y := d.Variants[0]
	for _, k := range []string{"kind: ServiceEntry", "kind: WorkloadEntry", "kind: AuthorizationPolicy", "kind: PeerAuthentication"} {
		if strings.Contains(y, k) {
			return true
		}
	}
	return false
}

// ambientKubeObjects: the kube-side objects of a world in ambient mode.
func ambientKubeObjects(w world) []runtime.Object {
	out := decodeObjects(ambientInfra)
	var ids []string
	for id := range w {
		ids = append(ids, id)
	}
	sort.Strings(ids)
	for _, id := range ids {
		if mirrored(id) {
			out = append(out, stamped(id, decodeObjects(universeIndex[id].Variants[w[id]]))...)
		}
	}
	return out
}

// mirrorApply applies a change of an Istio object to the kube client as well.
func mirrorApply(c kubelib.Client, op, id string, variant int) error {
	if !mirrored(id) {
		return nil
	}
	ctx := context.Background()
	v := variant
	if op == "delete" {
		v = 0
	}
	for _, o := range stamped(id, decodeObjects(universeIndex[id].Variants[v])) {
		var err error
		switch x := o.(type) {
		case *clientnetworking.ServiceEntry:
			api := c.Istio().NetworkingV1().ServiceEntries(x.Namespace)
			switch op {
			case "create":
				_, err = api.Create(ctx, x, metav1.CreateOptions{})
			case "update":
				_, err = api.Update(ctx, x, metav1.UpdateOptions{})
			default:
				err = api.Delete(ctx, x.Name, metav1.DeleteOptions{})
			}
		case *clientnetworking.WorkloadEntry:
			api := c.Istio().NetworkingV1().WorkloadEntries(x.Namespace)
			switch op {
			case "create":
				_, err = api.Create(ctx, x, metav1.CreateOptions{})
			case "update":
				_, err = api.Update(ctx, x, metav1.UpdateOptions{})
			default:
				err = api.Delete(ctx, x.Name, metav1.DeleteOptions{})
			}
		case *clientsecurity.AuthorizationPolicy:
			api := c.Istio().SecurityV1().AuthorizationPolicies(x.Namespace)
			switch op {
			case "create":
				_, err = api.Create(ctx, x, metav1.CreateOptions{})
			case "update":
				_, err = api.Update(ctx, x, metav1.UpdateOptions{})
			default:
				err = api.Delete(ctx, x.Name, metav1.DeleteOptions{})
			}
		case *clientsecurity.PeerAuthentication:
			api := c.Istio().SecurityV1().PeerAuthentications(x.Namespace)
			switch op {
			case "create":
				_, err = api.Create(ctx, x, metav1.CreateOptions{})
			case "update":
				_, err = api.Update(ctx, x, metav1.UpdateOptions{})
			default:
				err = api.Delete(ctx, x.Name, metav1.DeleteOptions{})
			}
		default:
			err = fmt.Errorf("ambient: cannot mirror %T", o)
		}
		if err != nil && !(op == "delete" && kerrors.IsNotFound(err)) {
			return err
		}
	}
	return nil
}

// ---------------------------------------------------------------- ztunnel-like delta client

var ztunnelTypes = []string{"WDS", "WAUTH"}

// deltaClient implements the server side of a delta ADS stream in-process (like `client`): a
// wildcard subscription to the Address and WorkloadAuthorization types.
type deltaClient struct {
	ctx    context.Context
	cancel context.CancelFunc
	reqs   chan *discovery.DeltaDiscoveryRequest
	mu     sync.Mutex
	held   map[string]map[string]string
	text   map[string]map[string]string
	resps  map[string]int
	last   atomic.Int64
	queued atomic.Int64
	done   chan struct{}
	errs   []string
}

func newDeltaClient() *deltaClient {
	base := peer.NewContext(context.Background(), &peer.Peer{Addr: &net.TCPAddr{IP: net.IPv4(127, 0, 0, 1), Port: 15010}})
	ctx, cancel := context.WithCancel(base)
	c := &deltaClient{ctx: ctx, cancel: cancel, reqs: make(chan *discovery.DeltaDiscoveryRequest, 4096),
		held: map[string]map[string]string{}, text: map[string]map[string]string{}, resps: map[string]int{}, done: make(chan struct{})}
	c.last.Store(time.Now().UnixNano())
	return c
}

func (c *deltaClient) SetHeader(metadata.MD) error  { return nil }
func (c *deltaClient) SendHeader(metadata.MD) error { return nil }
func (c *deltaClient) SetTrailer(metadata.MD)       {}
func (c *deltaClient) Context() context.Context     { return c.ctx }
func (c *deltaClient) SendMsg(any) error            { return nil }
func (c *deltaClient) RecvMsg(any) error            { return nil }

func (c *deltaClient) Recv() (*discovery.DeltaDiscoveryRequest, error) {
	select {
	case r := <-c.reqs:
		c.queued.Add(-1)
		c.last.Store(time.Now().UnixNano())
		return r, nil
	case <-c.ctx.Done():
		return nil, io.EOF
	}
}

func (c *deltaClient) Send(resp *discovery.DeltaDiscoveryResponse) error {
	c.mu.Lock()
	defer c.mu.Unlock()
	c.last.Store(time.Now().UnixNano())
	typ := shortType(resp.TypeUrl)
	c.resps[typ]++
	if c.held[typ] == nil {
		c.held[typ], c.text[typ] = map[string]string{}, map[string]string{}
	}
	for _, r := range resp.Resources {
		_, t := canon(r.Resource)
		c.held[typ][r.Name] = hashOf(t)
		c.text[typ][r.Name] = t
	}
	for _, n := range resp.RemovedResources {
		delete(c.held[typ], n)
		delete(c.text[typ], n)
	}
	c.queued.Add(1)
	c.reqs <- &discovery.DeltaDiscoveryRequest{TypeUrl: resp.TypeUrl, ResponseNonce: resp.Nonce}
	return nil
}

func (c *deltaClient) start(s *xdsfake.FakeDiscoveryServer) {
	go func() {
		defer close(c.done)
		defer func() {
			if r := recover(); r != nil {
				c.mu.Lock()
				c.errs = append(c.errs, fmt.Sprint("panic: ", r))
				c.mu.Unlock()
			}
		}()
		if err := s.Discovery.StreamDeltas(c); err != nil {
			c.mu.Lock()
			c.errs = append(c.errs, err.Error())
			c.mu.Unlock()
		}
	}()
	node := &envoycore.Node{Id: "ztunnel~10.9.0.1~ztunnel-x.istio-system~istio-system.svc.cluster.local",
		Metadata: (&model.NodeMetadata{Namespace: "istio-system", ClusterID: "Kubernetes", NodeName: "node1", IstioVersion: "1.32.0"}).ToStruct()}
	for i, t := range ztunnelTypes {
		r := &discovery.DeltaDiscoveryRequest{TypeUrl: longType(t), ResourceNamesSubscribe: []string{"*"}}
		if i == 0 {
			r.Node = node
		}
		c.queued.Add(1)
		c.reqs <- r
	}
}

func (c *deltaClient) stop() {
	c.cancel()
	select {
	case <-c.done:
	case <-time.After(2 * time.Second):
	}
}

func (c *deltaClient) synced() bool {
	c.mu.Lock()
	defer c.mu.Unlock()
	return c.resps["WDS"] > 0
}

// asClient exposes the delta client's state through the comparison code of the SotW clients.
func (c *deltaClient) snapshotAs() *client {
	c.mu.Lock()
	defer c.mu.Unlock()
	o := &client{def: proxyDef{Name: "ztunnel", Types: ztunnelTypes}, held: map[string]map[string]string{}, text: map[string]map[string]string{}}
	for typ, m := range c.held {
		o.held[typ], o.text[typ] = map[string]string{}, map[string]string{}
		for n, v := range m {
			o.held[typ][n] = v
			o.text[typ][n] = c.text[typ][n]
		}
	}
	return o
}
