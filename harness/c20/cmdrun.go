package main

// Stream `cmd`: the REAL command. A child process (`c20 runcmd`) runs cmd.GetCommand(...).Execute() -
// the cobra command of the istio-iptables binary with its own Run closure: FillConfigFromEnvironment,
// Validate, ProgramIptables (dry-run / skip-rule-apply selection, NewIptablesConfigurator, Run),
// handleErrorWithCode (os.Exit) - always with dry-run (flag, shorthand or environment variable), so that
// ProgramIptables picks the DependenciesStub, whose record goes to DRY_RUN_FILE_PATH. The parent observes
// the exit status and that file. The harness decides nothing about the order of the steps.

import (
	"time"
	"bufio"
	"io"
	"os"
	"os/exec"
	"strconv"
	"strings"

	"istio.io/istio/pkg/log"
	iptcmd "istio.io/istio/tools/istio-iptables/pkg/cmd"
)

// runcmd <tokens-file> <dry-run-out>: runs one invocation in THIS process (it may os.Exit).
func runcmd(tokFile, outFile string) {
	b, err := os.ReadFile(tokFile)
	if err != nil {
		os.Exit(90)
	}
	t := strings.Fields(string(b))
	if len(t) > 0 {
		t[0] = "envcfg"
	}
	e, ok := envCaseFromTokens(t)
	if !ok {
		os.Exit(91)
	}
	nsOK = os.Getenv("C20_NSOK") == "true"
	args, err := e.prepare()
	if err != nil {
		os.Exit(92)
	}
	os.Setenv("DRY_RUN_FILE_PATH", outFile)
	switch e.via["dryrun"] { // how dry-run is requested
	case "env":
		os.Setenv("DRY_RUN", "true")
	case "short":
		args = append(args, "-n")
	default:
		args = append(args, "--dry-run")
	}
	if e.via["skip"] != "" {
		args = append(args, "--skip-rule-apply")
	}
	c := iptcmd.GetCommand(log.DefaultOptions())
	c.SetArgs(args)
	c.SetOut(io.Discard)
	c.SetErr(io.Discard)
	if err := c.Execute(); err != nil {
		os.Exit(93) // cobra itself refused (flag syntax)
	}
	os.Exit(0)
}

type cmdResult struct {
	exit  int
	lines []string
}

// runCommand spawns the child for one case.
// runCommand runs the case in a child process; a child that could not be started, was killed, or could not set
// its case up (exit >= 90) is tried again twice before the harness error is reported.
func runCommand(e envCase) cmdResult {
	var res cmdResult
	for attempt := 0; attempt < 3; attempt++ {
		if res = runCommandOnce(e); res.exit < 90 {
			break
		}
		time.Sleep(time.Duration(attempt+1) * 500 * time.Millisecond)
	}
	return res
}

func runCommandOnce(e envCase) cmdResult {
	dir, err := os.MkdirTemp("", "c20-cmd-")
	if err != nil {
		return cmdResult{exit: 94}
	}
	defer os.RemoveAll(dir)
	tok, out := dir+"/case", dir+"/dry-run.out"
	_ = os.WriteFile(tok, []byte(strings.Join(e.tokens(), " ")+"\n"), 0o644)
	self, _ := os.Executable()
	c := exec.Command(self, "runcmd", tok, out)
	c.Env = append(os.Environ(), "C20_NS=0", "C20_NSOK="+strconv.FormatBool(nsOK)) // the child inherits the private /etc
	res := cmdResult{}
	if err := c.Run(); err != nil {
		if ee, ok := err.(*exec.ExitError); ok {
			if res.exit = ee.ExitCode(); res.exit < 0 { // killed by a signal
				res.exit = 96
			}
		} else {
			res.exit = 95
		}
	}
	if f, err := os.Open(out); err == nil {
		sc := bufio.NewScanner(f)
		sc.Buffer(make([]byte, 1<<20), 1<<26)
		for sc.Scan() {
			res.lines = append(res.lines, sc.Text())
		}
		f.Close()
	}
	return res
}

func (r cmdResult) statusLine() []string {
	switch {
	case r.exit >= 90:
		return []string{"harness-error:" + strconv.Itoa(r.exit)}
	case r.exit != 0:
		return []string{"refused"}
	}
	return []string{"ok", strconv.Itoa(len(r.lines))}
}
