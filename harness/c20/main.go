// Harness for C20: runs the REAL istio-iptables compiler (capture.IptablesConfigurator.Run with the
// repository's dependencies.DependenciesStub) on capture configurations and exposes
//
//	stream rules   : the iptables-restore input it produced, line by line (v4 and v6)
//	stream packets : the verdict of a reference netfilter interpreter (interp.go, written from the
//	                 iptables documentation, independent of the Lean model) over that REAL rule text
//	stream sem     : same ops as packets (the Lean side answers with its own semantics over its own
//	                 compiled rules instead of the spec predicates)
//
//	c20 gen    <stream> <seed> <ncases> <ops-out>
//	c20 exec   <stream> <ops-in> <impl-out>
//	c20 oracle <stream> <ops-in> <verdict-out>
//	c20 finding <out>      reproduce the recorded observations on the real code (one line each)
package main

import (
	"fmt"
	"os"
	"strconv"
)

func main() {
	if len(os.Args) < 2 {
		fmt.Fprintln(os.Stderr, "usage: c20 gen|exec|oracle ...")
		os.Exit(2)
	}
	if os.Args[1] != "corpus" && os.Args[1] != "runcmd" {
		enterNamespace() // private /etc when possible (host.go); returns in the process that does the work
	}
	switch os.Args[1] {
	case "gen":
		seed, _ := strconv.ParseUint(os.Args[3], 10, 64)
		n, _ := strconv.Atoi(os.Args[4])
		gen(os.Args[2], seed, n, os.Args[5])
	case "exec":
		execOps(os.Args[2], os.Args[3], os.Args[4])
	case "runcmd":
		runcmd(os.Args[2], os.Args[3])
	case "finding":
		findings(os.Args[2])
	case "corpus":
		corpus(os.Args[2], os.Args[3])
	case "oracle":
		oracle(os.Args[2], os.Args[3], os.Args[4])
	default:
		os.Exit(2)
	}
}
