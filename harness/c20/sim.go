package main

// A small stateful stand-in for iptables / iptables-save / iptables-restore (one instance holds the
// IPv4 and the IPv6 tables of a network namespace), used as dependencies.Dependencies so that the REAL
// IptablesConfigurator.Run - VerifyIptablesState, GetStateFromSave, the -C check rules, guardrails,
// cleanup (-D / -F / -X built by buildCleanupRules + UndoRules) and the CleanupOnly / Reconcile / ForceApply
// guards of executeCommands - runs against a namespace that is NOT clean. Stream `apply` (oracle only):
// the property is stated on the FINAL table content.

import (
	"bufio"
	"bytes"
	"fmt"
	"io"
	"sort"
	"strconv"
	"strings"

	"istio.io/istio/pkg/log"
	"istio.io/istio/tools/istio-iptables/pkg/constants"
	dep "istio.io/istio/tools/istio-iptables/pkg/dependencies"
)

var builtinChains = map[string][]string{
	"filter": {"INPUT", "FORWARD", "OUTPUT"},
	"nat":    {"PREROUTING", "INPUT", "OUTPUT", "POSTROUTING"},
	"mangle": {"PREROUTING", "INPUT", "FORWARD", "OUTPUT", "POSTROUTING"},
	"raw":    {"PREROUTING", "OUTPUT"},
}

// tables[table][chain] = rule specs (the text after the chain name)
type famState struct {
	tables map[string]map[string][]string
	order  map[string][]string // user chains in creation order
}

func newFam() *famState {
	return &famState{tables: map[string]map[string][]string{}, order: map[string][]string{}}
}

func (f *famState) table(t string) map[string][]string {
	if f.tables[t] == nil {
		f.tables[t] = map[string][]string{}
		for _, c := range builtinChains[t] {
			f.tables[t][c] = nil
		}
	}
	return f.tables[t]
}

func isBuiltin(t, c string) bool {
	for _, x := range builtinChains[t] {
		if x == c {
			return true
		}
	}
	return false
}

// apply executes one command (`-A chain spec`, `-I chain n spec`, `-D`, `-C`, `-N`, `-F`, `-X`) on a table.
func (f *famState) apply(t string, a []string) error {
	if len(a) < 2 {
		return fmt.Errorf("bad command %v", a)
	}
	tb := f.table(t)
	op, chain := a[0], a[1]
	rules, exists := tb[chain]
	spec := strings.Join(a[2:], " ")
	switch op {
	case "-N":
		if exists {
			return fmt.Errorf("chain %s already exists", chain)
		}
		tb[chain] = nil
		f.order[t] = append(f.order[t], chain)
	case "-A":
		if !exists {
			return fmt.Errorf("no chain %s", chain)
		}
		if err := f.checkJump(t, a[2:]); err != nil {
			return err
		}
		tb[chain] = append(rules, spec)
	case "-I":
		if !exists || len(a) < 3 {
			return fmt.Errorf("no chain %s", chain)
		}
		pos, err := strconv.Atoi(a[2])
		if err != nil || pos < 1 || pos > len(rules)+1 {
			return fmt.Errorf("index of insertion too big")
		}
		if err := f.checkJump(t, a[3:]); err != nil {
			return err
		}
		spec = strings.Join(a[3:], " ")
		n := append([]string{}, rules[:pos-1]...)
		n = append(n, spec)
		tb[chain] = append(n, rules[pos-1:]...)
	case "-D", "-C":
		if !exists {
			return fmt.Errorf("no chain %s", chain)
		}
		for i, r := range rules {
			if r == spec {
				if op == "-D" {
					tb[chain] = append(append([]string{}, rules[:i]...), rules[i+1:]...)
				}
				return nil
			}
		}
		return fmt.Errorf("bad rule (does a matching rule exist in that chain?)")
	case "-F":
		if !exists {
			return fmt.Errorf("no chain %s", chain)
		}
		tb[chain] = nil
	case "-X":
		if !exists || isBuiltin(t, chain) {
			return fmt.Errorf("no user chain %s", chain)
		}
		if len(rules) > 0 {
			return fmt.Errorf("chain %s is not empty", chain)
		}
		for _, rs := range tb {
			for _, r := range rs {
				if strings.HasSuffix(r, "-j "+chain) || strings.Contains(r, "-j "+chain+" ") {
					return fmt.Errorf("chain %s is in use", chain)
				}
			}
		}
		delete(tb, chain)
		o := f.order[t][:0]
		for _, c := range f.order[t] {
			if c != chain {
				o = append(o, c)
			}
		}
		f.order[t] = o
	default:
		return fmt.Errorf("unsupported operation %s", op)
	}
	return nil
}

func (f *famState) checkJump(t string, spec []string) error {
	for i, x := range spec {
		if x == "-j" && i+1 < len(spec) {
			tg := spec[i+1]
			if builtinTargets[tg] {
				return nil
			}
			if _, ok := f.table(t)[tg]; !ok {
				return fmt.Errorf("chain %s does not exist", tg)
			}
		}
	}
	return nil
}

// restore = iptables-restore: all-or-nothing per invocation; without --noflush every named table is emptied first.
func (f *famState) restore(lines []string, noflush bool) error {
	c := f.clone()
	t := ""
	for _, l := range lines {
		w := strings.Fields(l)
		switch {
		case len(w) == 0 || strings.HasPrefix(l, "#"):
		case w[0] == "*" && len(w) == 2, strings.HasPrefix(w[0], "*") && len(w) == 1:
			t = strings.TrimPrefix(strings.Join(w, ""), "*")
			if !noflush {
				delete(c.tables, t)
				delete(c.order, t)
			}
			c.table(t)
		case w[0] == "COMMIT":
			t = ""
		case t == "":
			return fmt.Errorf("line outside a table: %s", l)
		case strings.HasPrefix(w[0], ":"):
		default:
			if err := c.apply(t, w); err != nil {
				return fmt.Errorf("%v: %s", err, l)
			}
		}
	}
	*f = *c
	return nil
}

func (f *famState) clone() *famState {
	c := newFam()
	for t, chains := range f.tables {
		c.tables[t] = map[string][]string{}
		for ch, rs := range chains {
			c.tables[t][ch] = append([]string(nil), rs...)
		}
	}
	for t, o := range f.order {
		c.order[t] = append([]string(nil), o...)
	}
	return c
}

// save = iptables-save (tables that were ever touched; inserted rules appear as -A in chain order).
func (f *famState) save() string {
	var b strings.Builder
	var ts []string
	for t := range f.tables {
		ts = append(ts, t)
	}
	sort.Strings(ts)
	for _, t := range ts {
		fmt.Fprintf(&b, "*%s\n", t)
		for _, c := range builtinChains[t] {
			fmt.Fprintf(&b, ":%s ACCEPT [0:0]\n", c)
		}
		for _, c := range f.order[t] {
			fmt.Fprintf(&b, ":%s - [0:0]\n", c)
		}
		for _, c := range append(append([]string{}, builtinChains[t]...), f.order[t]...) {
			for _, r := range f.tables[t][c] {
				fmt.Fprintf(&b, "-A %s %s\n", c, r)
			}
		}
		b.WriteString("COMMIT\n")
	}
	return b.String()
}

// canon = the content that matters: every non-empty chain and every user chain, sorted.
func (f *famState) canon() string {
	var out []string
	for t, chains := range f.tables {
		for c, rs := range chains {
			if len(rs) == 0 && isBuiltin(t, c) {
				continue
			}
			out = append(out, t+"/"+c+": "+strings.Join(rs, " ; "))
		}
	}
	sort.Strings(out)
	return strings.Join(out, "\n")
}

type simDeps struct {
	v4, v6                 *famState
	failV4, failV6, failIO bool
	cmds                   []string
	restores               int
}

func newSim() *simDeps { return &simDeps{v4: newFam(), v6: newFam()} }

func (s *simDeps) DetectIptablesVersion(ipV6 bool) (dep.IptablesVersion, error) {
	if ipV6 {
		if s.failV6 {
			return dep.IptablesVersion{}, fmt.Errorf("ip6tables binary not found")
		}
		return dep.IptablesVersion{DetectedBinary: "ip6tables", DetectedSaveBinary: "ip6tables-save", DetectedRestoreBinary: "ip6tables-restore"}, nil
	}
	if s.failV4 {
		return dep.IptablesVersion{}, fmt.Errorf("iptables binary not found")
	}
	return dep.IptablesVersion{DetectedBinary: "iptables", DetectedSaveBinary: "iptables-save", DetectedRestoreBinary: "iptables-restore"}, nil
}

func (s *simDeps) Run(logger *log.Scope, quiet bool, cmd constants.IptablesCmd, iptVer *dep.IptablesVersion,
	stdin io.ReadSeeker, args ...string,
) (*bytes.Buffer, error) {
	bin := ""
	if iptVer != nil {
		bin = iptVer.CmdToString(cmd)
	}
	s.cmds = append(s.cmds, strings.Join(append([]string{bin}, args...), " "))
	if bin == "" {
		return &bytes.Buffer{}, fmt.Errorf("no binary detected")
	}
	f := s.v4
	if strings.HasPrefix(bin, "ip6") {
		f = s.v6
	}
	switch cmd {
	case constants.IPTablesSave:
		if s.failIO {
			return &bytes.Buffer{}, fmt.Errorf("iptables-save: Permission denied (you must be root)")
		}
		return bytes.NewBufferString(f.save()), nil
	case constants.IPTablesRestore:
		s.restores++
		var lines []string
		if stdin != nil {
			sc := bufio.NewScanner(stdin)
			sc.Buffer(make([]byte, 1<<20), 1<<26)
			for sc.Scan() {
				lines = append(lines, sc.Text())
			}
		}
		noflush := false
		for _, a := range args {
			if a == "--noflush" || a == "-n" {
				noflush = true
			}
		}
		return &bytes.Buffer{}, f.restore(lines, noflush)
	default:
		if len(args) >= 3 && args[0] == "-t" {
			return &bytes.Buffer{}, f.apply(args[1], args[2:])
		}
		return &bytes.Buffer{}, f.apply("filter", args)
	}
}
