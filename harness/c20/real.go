package main

import (
	"bufio"
	"bytes"
	"fmt"
	"io"
	"net"
	"os"
	"strconv"
	"strings"

	"github.com/spf13/cobra"

	"istio.io/istio/pkg/log"
	"istio.io/istio/tools/common/config"
	"istio.io/istio/tools/istio-iptables/pkg/capture"
	iptcmd "istio.io/istio/tools/istio-iptables/pkg/cmd"
	"istio.io/istio/tools/istio-iptables/pkg/constants"
	dep "istio.io/istio/tools/istio-iptables/pkg/dependencies"
	_ "verifharness/internal/quiet"
	"verifharness/internal/wire"
)

// rawCfg is config.Config restricted to the fields Run reads, as the raw strings a user supplies.
type rawCfg struct {
	ProxyPort, InboundCapturePort, InboundTunnelPort string
	ProxyUID, ProxyGID                               string
	Mode, TProxyMark                                 string
	InboundInclude, InboundExclude                   string
	OwnerGroupsInclude, OwnerGroupsExclude           string
	OutPortsInclude, OutPortsExclude                 string
	OutInclude, OutExclude                           string
	KubeVirt, ExclIfs                                string
	RedirectDNS, DropInvalid, CaptureAllDNS, IPv6    bool
	DNSV4, DNSV6                                     []string
	LoCidr                                           string
}

func defaultRaw() rawCfg {
	return rawCfg{
		ProxyPort: "15001", InboundCapturePort: "15006", InboundTunnelPort: "15008",
		ProxyUID: "1337", ProxyGID: "1337", Mode: "REDIRECT", TProxyMark: "1337",
		OwnerGroupsInclude: "*", LoCidr: "127.0.0.1/32",
	}
}

func (r rawCfg) tokens() []string {
	return []string{
		"cfg",
		wire.Enc(r.ProxyPort), wire.Enc(r.InboundCapturePort), wire.Enc(r.InboundTunnelPort),
		wire.Enc(r.ProxyUID), wire.Enc(r.ProxyGID), wire.Enc(r.Mode), wire.Enc(r.TProxyMark),
		wire.Enc(r.InboundInclude), wire.Enc(r.InboundExclude),
		wire.Enc(r.OwnerGroupsInclude), wire.Enc(r.OwnerGroupsExclude),
		wire.Enc(r.OutPortsInclude), wire.Enc(r.OutPortsExclude),
		wire.Enc(r.OutInclude), wire.Enc(r.OutExclude),
		wire.Enc(r.KubeVirt), wire.Enc(r.ExclIfs),
		wire.B(r.RedirectDNS), wire.B(r.DropInvalid), wire.B(r.CaptureAllDNS), wire.B(r.IPv6),
		wire.EncList(r.DNSV4), wire.EncList(r.DNSV6), wire.Enc(r.LoCidr),
	}
}

func rawFromTokens(t []string) (rawCfg, bool) {
	if len(t) != 25 || t[0] != "cfg" {
		return rawCfg{}, false
	}
	d := wire.Dec
	return rawCfg{
		ProxyPort: d(t[1]), InboundCapturePort: d(t[2]), InboundTunnelPort: d(t[3]),
		ProxyUID: d(t[4]), ProxyGID: d(t[5]), Mode: d(t[6]), TProxyMark: d(t[7]),
		InboundInclude: d(t[8]), InboundExclude: d(t[9]),
		OwnerGroupsInclude: d(t[10]), OwnerGroupsExclude: d(t[11]),
		OutPortsInclude: d(t[12]), OutPortsExclude: d(t[13]),
		OutInclude: d(t[14]), OutExclude: d(t[15]),
		KubeVirt: d(t[16]), ExclIfs: d(t[17]),
		RedirectDNS: t[18] == "1", DropInvalid: t[19] == "1", CaptureAllDNS: t[20] == "1", IPv6: t[21] == "1",
		DNSV4: wire.DecList(t[22]), DNSV6: wire.DecList(t[23]), LoCidr: d(t[24]),
	}, true
}

func (r rawCfg) config() *config.Config {
	return &config.Config{
		ProxyPort:                r.ProxyPort,
		InboundCapturePort:       r.InboundCapturePort,
		InboundTunnelPort:        r.InboundTunnelPort,
		ProxyUID:                 r.ProxyUID,
		ProxyGID:                 r.ProxyGID,
		InboundInterceptionMode:  r.Mode,
		InboundTProxyMark:        r.TProxyMark,
		InboundTProxyRouteTable:  "133",
		InboundPortsInclude:      r.InboundInclude,
		InboundPortsExclude:      r.InboundExclude,
		OwnerGroupsInclude:       r.OwnerGroupsInclude,
		OwnerGroupsExclude:       r.OwnerGroupsExclude,
		OutboundPortsInclude:     r.OutPortsInclude,
		OutboundPortsExclude:     r.OutPortsExclude,
		OutboundIPRangesInclude:  r.OutInclude,
		OutboundIPRangesExclude:  r.OutExclude,
		RerouteVirtualInterfaces: r.KubeVirt,
		ExcludeInterfaces:        r.ExclIfs,
		RedirectDNS:              r.RedirectDNS,
		DropInvalid:              r.DropInvalid,
		CaptureAllDNS:            r.CaptureAllDNS,
		EnableIPv6:               r.IPv6,
		DNSServersV4:             r.DNSV4,
		DNSServersV6:             r.DNSV6,
		HostIPv4LoopbackCidr:     r.LoCidr,
	}
}

// recorder is the repository's DependenciesStub plus a note of which restore binary received
// which stdin (the stub itself concatenates the v4 and v6 inputs).
type recorder struct {
	dep.DependenciesStub
	v4, v6 []string
	cmds   []string // every external command with its arguments, in order
}

func (s *recorder) Run(logger *log.Scope, quiet bool, cmd constants.IptablesCmd, iptVer *dep.IptablesVersion,
	stdin io.ReadSeeker, args ...string,
) (*bytes.Buffer, error) {
	if iptVer != nil {
		s.cmds = append(s.cmds, strings.Join(append([]string{iptVer.CmdToString(cmd)}, args...), " "))
	}
	if stdin != nil {
		sc := bufio.NewScanner(stdin)
		sc.Buffer(make([]byte, 1<<20), 1<<26)
		var lines []string
		for sc.Scan() {
			lines = append(lines, sc.Text())
		}
		if iptVer != nil && strings.HasPrefix(iptVer.DetectedRestoreBinary, "ip6") {
			s.v6 = append(s.v6, lines...)
		} else {
			s.v4 = append(s.v4, lines...)
		}
		_, _ = stdin.Seek(0, io.SeekStart)
	}
	return s.DependenciesStub.Run(logger, quiet, cmd, iptVer, stdin, args...)
}

// compiled is the observable result of the real compiler on one configuration.
type compiled struct {
	status string // ok | invalid:<why> | error:<why> | crash
	v4, v6 []string
	cmds   []string
}

func (c compiled) okLine() []string {
	e := make([]string, len(c.cmds))
	for i, x := range c.cmds {
		e[i] = wire.Enc(x)
	}
	return []string{"ok", strconv.Itoa(len(c.v4)), strconv.Itoa(len(c.v6)), "cmds=" + strings.Join(e, ",")}
}

// runReal = cmd/root.go: cfg.Validate() then capture.NewIptablesConfigurator(cfg, ext).Run().
func runReal(r rawCfg) (out compiled) {
	return runCfg(r.config())
}

func runCfg(cfg *config.Config) (out compiled) {
	defer func() {
		if e := recover(); e != nil {
			out = compiled{status: "crash"}
		}
	}()
	// exactly what cmd/root.go does: cfg.Validate(); the refusal is classified by its message
	if err := cfg.Validate(); err != nil {
		switch msg := err.Error(); {
		case strings.Contains(msg, "owner groups"):
			return compiled{status: "invalid:ownergroups"}
		case strings.Contains(msg, "CIDR"):
			return compiled{status: "invalid:loopbackcidr"}
		case strings.Contains(msg, "FORCE_IPTABLES_BINARY"):
			return compiled{status: "invalid:binary"}
		default:
			return compiled{status: "invalid:other"}
		}
	}
	ext := &recorder{}
	ipt, err := capture.NewIptablesConfigurator(cfg, ext)
	if err != nil {
		return compiled{status: "error:new"}
	}
	if err := ipt.Run(); err != nil {
		if strings.Contains(err.Error(), "OUTBOUND_IP_RANGES_EXCLUDE") {
			return compiled{status: "error:exclude-wildcard"}
		}
		return compiled{status: "error:cidr"}
	}
	// the stub's own record must agree with the tagged one (v4 input then v6 input)
	all := append(append([]string{}, ext.v4...), ext.v6...)
	if strings.Join(all, "\n") != strings.Join(ext.ExecutedStdin, "\n") {
		return compiled{status: "error:recorder"}
	}
	return compiled{status: "ok", v4: ext.v4, v6: ext.v6, cmds: ext.cmds}
}

// ---------------------------------------------------------------- the configuration as the binary builds it

// The external contract of istio-iptables, written down here as LITERAL strings (not taken from the
// constants of the code under test): command-line flag, environment variable bound to it by flag.BindEnv,
// additional environment variable (flag.AdditionalEnv); `short` is the one-letter form production uses
// (the injector passes -p -z -u -m -i -x -b -d ...).
type contractEntry struct{ field, flag, short, env, alt string }

var contract = []contractEntry{
	{"ProxyPort", "envoy-port", "p", "", ""},
	{"InboundCapturePort", "inbound-capture-port", "z", "INBOUND_CAPTURE_PORT", ""},
	{"InboundTunnelPort", "inbound-tunnel-port", "e", "INBOUND_TUNNEL_PORT", ""},
	{"ProxyUID", "proxy-uid", "u", "PROXY_UID", ""},
	{"ProxyGID", "proxy-gid", "g", "PROXY_GID", ""},
	{"Mode", "istio-inbound-interception-mode", "m", "ISTIO_INBOUND_INTERCEPTION_MODE", ""},
	{"TProxyMark", "istio-inbound-tproxy-mark", "t", "ISTIO_INBOUND_TPROXY_MARK", ""},
	{"InboundInclude", "istio-inbound-ports", "b", "ISTIO_INBOUND_PORTS", ""},
	{"InboundExclude", "istio-local-exclude-ports", "d", "ISTIO_LOCAL_EXCLUDE_PORTS", ""},
	{"OutPortsInclude", "istio-outbound-ports", "q", "ISTIO_OUTBOUND_PORTS", ""},
	{"OutPortsExclude", "istio-local-outbound-ports-exclude", "o", "ISTIO_LOCAL_OUTBOUND_PORTS_EXCLUDE", ""},
	{"OutInclude", "istio-service-cidr", "i", "ISTIO_SERVICE_CIDR", ""},
	{"OutExclude", "istio-service-exclude-cidr", "x", "ISTIO_SERVICE_EXCLUDE_CIDR", ""},
	{"KubeVirt", "kube-virt-interfaces", "k", "KUBE_VIRT_INTERFACES", ""},
	{"ExclIfs", "istio-exclude-interfaces", "c", "ISTIO_EXCLUDE_INTERFACES", ""},
	{"RedirectDNS", "redirect-dns", "", "REDIRECT_DNS", "ISTIO_META_DNS_CAPTURE"},
	{"DropInvalid", "drop-invalid", "", "DROP_INVALID", "INVALID_DROP"},
	{"CaptureAllDNS", "capture-all-dns", "", "CAPTURE_ALL_DNS", ""},
	{"DualStack", "dual-stack", "", "DUAL_STACK", "ISTIO_DUAL_STACK"},
}

const (
	envOwnerGroupsInclude = "ISTIO_OUTBOUND_OWNER_GROUPS"
	envOwnerGroupsExclude = "ISTIO_OUTBOUND_OWNER_GROUPS_EXCLUDE"
	envLoopbackCidr       = "ISTIO_OUTBOUND_IPV4_LOOPBACK_CIDR"
	envEnvoyUser          = "ENVOY_USER"
	defaultEnvoyUser      = "istio-proxy"
	defaultProxyUID       = "1337"
)

var otherEnvNames = []string{
	"ISTIO_INBOUND_TPROXY_ROUTE_TABLE", "DRY_RUN", "IPTABLES_PROBE_PORT", "PROBE_TIMEOUT", "SKIP_RULE_APPLY", "RUN_VALIDATION",
	"NETWORK_NAMESPACE", "CNI_MODE", "RECONCILE", "CLEANUP_ONLY", "FORCE_APPLY", "NATIVE_NFTABLES", "FORCE_IPTABLES_BINARY",
	"ENVOY_PORT",
}

// envCase = one invocation of the binary: values, the source that carries each of them, and the host.
type envCase struct {
	vals      rawCfg            // values; OwnerGroups*/LoCidr are environment-only ("" = variable unset)
	dual      bool              // --dual-stack
	addrs     []string          // net.InterfaceAddrs(), in order
	via       map[string]string // field -> "env" | "alt" | "short" (-x v) | "sp" (--flag v); default --flag=v
	envoyUser string            // ENVOY_USER ("" = unset)
	binary    string            // --force-iptables-binary ("" = absent)
	addrErr   bool              // net.InterfaceAddrs() fails
	raw       map[string]string // field -> the literal text delivered instead of the canonical value (bool spellings)
	emptyEnv  map[string]bool   // environment-only variables set to the EMPTY string (not unset)
	decoy     map[string]string // field given by FLAG whose environment variable is ALSO set, to this other value (the flag wins)
	host      hostSpec          // /etc/resolv.conf and /etc/passwd as the case sees them (host.go)
}

func (e envCase) value(field string) (string, bool) {
	b := func(x bool) (string, bool) {
		if x {
			return "true", true
		}
		return "", false
	}
	v := e.vals
	switch field {
	case "ProxyPort":
		return v.ProxyPort, v.ProxyPort != ""
	case "InboundCapturePort":
		return v.InboundCapturePort, v.InboundCapturePort != ""
	case "InboundTunnelPort":
		return v.InboundTunnelPort, v.InboundTunnelPort != ""
	case "ProxyUID":
		return v.ProxyUID, v.ProxyUID != ""
	case "ProxyGID":
		return v.ProxyGID, v.ProxyGID != ""
	case "Mode":
		return v.Mode, v.Mode != ""
	case "TProxyMark":
		return v.TProxyMark, v.TProxyMark != ""
	case "InboundInclude":
		return v.InboundInclude, v.InboundInclude != ""
	case "InboundExclude":
		return v.InboundExclude, v.InboundExclude != ""
	case "OutPortsInclude":
		return v.OutPortsInclude, v.OutPortsInclude != ""
	case "OutPortsExclude":
		return v.OutPortsExclude, v.OutPortsExclude != ""
	case "OutInclude":
		return v.OutInclude, v.OutInclude != ""
	case "OutExclude":
		return v.OutExclude, v.OutExclude != ""
	case "KubeVirt":
		return v.KubeVirt, v.KubeVirt != ""
	case "ExclIfs":
		return v.ExclIfs, v.ExclIfs != ""
	case "RedirectDNS":
		return b(v.RedirectDNS)
	case "DropInvalid":
		return b(v.DropInvalid)
	case "CaptureAllDNS":
		return b(v.CaptureAllDNS)
	case "DualStack":
		return b(e.dual)
	}
	return "", false
}

func (e envCase) viaToken() string {
	var parts []string
	for _, c := range contract {
		if s := e.via[c.field]; s != "" {
			parts = append(parts, c.field+"="+s)
		}
	}
	for _, k := range []string{"dryrun", "skip"} { // stream cmd only
		if v := e.via[k]; v != "" {
			parts = append(parts, k+"="+v)
		}
	}
	if e.envoyUser != "" {
		parts = append(parts, "user="+e.envoyUser)
	}
	if e.binary != "" {
		parts = append(parts, "binary="+e.binary)
	}
	if e.addrErr {
		parts = append(parts, "addrerr=1")
	}
	for _, c := range contract {
		if v, ok := e.raw[c.field]; ok {
			parts = append(parts, "raw:"+c.field+"="+v)
		}
	}
	for _, n := range []string{envOwnerGroupsInclude, envOwnerGroupsExclude, envLoopbackCidr} {
		if e.emptyEnv[n] {
			parts = append(parts, "empty:"+n)
		}
	}
	if e.host.synthetic {
		parts = append(parts, "ns=1")
		for _, x := range e.host.passwd {
			parts = append(parts, "pw:"+x)
		}
	}
	for _, c := range contract {
		if v, ok := e.decoy[c.field]; ok {
			parts = append(parts, "decoy:"+c.field+"="+v)
		}
	}
	return wire.EncList(parts)
}

func (e envCase) tokens() []string {
	t := e.vals.tokens()
	t[0] = "envcfg"
	resolv := "!" // cannot be read
	if e.host.resolvOK {
		resolv = wire.EncList(e.host.resolv)
	}
	return append(t, wire.Enc(e.host.envoyUID), resolv, wire.B(e.dual), wire.EncList(e.addrs), e.viaToken())
}

func envCaseFromTokens(t []string) (envCase, bool) {
	if len(t) != 30 || t[0] != "envcfg" {
		return envCase{}, false
	}
	v, ok := rawFromTokens(append([]string{"cfg"}, t[1:25]...))
	if !ok {
		return envCase{}, false
	}
	e := envCase{vals: v, dual: t[27] == "1", addrs: wire.DecList(t[28]),
		via: map[string]string{}, raw: map[string]string{}, emptyEnv: map[string]bool{}, decoy: map[string]string{}}
	e.host.envoyUID = wire.Dec(t[25])
	if t[26] != "!" {
		e.host.resolvOK, e.host.resolv = true, wire.DecList(t[26])
	}
	for _, p := range wire.DecList(t[29]) {
		if strings.HasPrefix(p, "empty:") {
			e.emptyEnv[p[6:]] = true
			continue
		}
		if p == "ns=1" {
			e.host.synthetic = true
			continue
		}
		if strings.HasPrefix(p, "pw:") {
			e.host.passwd = append(e.host.passwd, p[3:])
			continue
		}
		if strings.HasPrefix(p, "decoy:") {
			if k, val, ok := strings.Cut(p[6:], "="); ok {
				e.decoy[k] = val
			}
			continue
		}
		if k, val, ok := strings.Cut(p, "="); ok {
			switch {
			case k == "user":
				e.envoyUser = val
			case k == "binary":
				e.binary = val
			case k == "addrerr":
				e.addrErr = true
			case strings.HasPrefix(k, "raw:"):
				e.raw[k[4:]] = val
			default:
				e.via[k] = val
			}
		}
	}
	return e, true
}

// passwdUID reads the uid of a user from /etc/passwd (literal parse, not os/user).
func passwdUID(name string) (string, bool) {
	b, err := os.ReadFile("/etc/passwd")
	if err != nil {
		return "", false
	}
	for _, l := range strings.Split(string(b), "\n") {
		f := strings.Split(l, ":")
		if len(f) >= 4 && f[0] == name {
			return f[2], true
		}
	}
	return "", false
}

// expectedUID: the documented default of --proxy-uid: the uid of ENVOY_USER (default istio-proxy), else 1337.
func expectedUID(envoyUser string) string {
	if envoyUser == "" {
		envoyUser = defaultEnvoyUser
	}
	if u, ok := passwdUID(envoyUser); ok {
		return u
	}
	return defaultProxyUID
}

// prepare puts the process into the state of one invocation: host files, environment variables, the
// interface addresses; it returns the command-line arguments.
func (e envCase) prepare() ([]string, error) {
	if err := e.host.realize(); err != nil {
		return nil, err
	}
	for _, c := range contract {
		if c.env != "" {
			os.Unsetenv(c.env)
		}
		if c.alt != "" {
			os.Unsetenv(c.alt)
		}
	}
	for _, n := range otherEnvNames {
		os.Unsetenv(n)
	}
	setOrUnset := func(name, v string) {
		if v != "" {
			os.Setenv(name, v)
		} else {
			os.Unsetenv(name)
		}
	}
	setOrUnset(envOwnerGroupsInclude, e.vals.OwnerGroupsInclude)
	setOrUnset(envOwnerGroupsExclude, e.vals.OwnerGroupsExclude)
	setOrUnset(envLoopbackCidr, e.vals.LoCidr)
	setOrUnset(envEnvoyUser, e.envoyUser)
	for n := range e.emptyEnv { // set, but to the empty string
		os.Setenv(n, "")
	}
	var args []string
	if e.binary != "" {
		args = append(args, "--force-iptables-binary="+e.binary)
	}
	for _, c := range contract {
		v, ok := e.value(c.field)
		if r, has := e.raw[c.field]; has { // a literal spelling (bool values other than `true`)
			v, ok = r, true
		}
		if !ok {
			continue
		}
		if d, has := e.decoy[c.field]; has && c.env != "" { // precedence: the command line beats the environment
			os.Setenv(c.env, d)
		}
		switch e.via[c.field] {
		case "env":
			os.Setenv(c.env, v)
		case "alt":
			os.Setenv(c.alt, v)
		case "short": // -x value
			args = append(args, "-"+c.short, v)
		case "sp": // --flag value
			args = append(args, "--"+c.flag, v)
		default:
			args = append(args, "--"+c.flag+"="+v)
		}
	}
	config.LocalIPAddrs = func() ([]net.Addr, error) {
		if e.addrErr {
			return nil, fmt.Errorf("route ip+net: no such network interface")
		}
		var l []net.Addr
		for _, a := range e.addrs {
			if strings.HasPrefix(a, "ipaddr:") { // not a *net.IPNet: getLocalIP skips it
				l = append(l, &net.IPAddr{IP: net.ParseIP(a[7:])})
				continue
			}
			ip := net.ParseIP(a)
			bits := 128
			if ip.To4() != nil {
				bits = 32
			}
			l = append(l, &net.IPNet{IP: ip, Mask: net.CIDRMask(bits, bits)})
		}
		return l, nil
	}
	return args, nil
}

// runRealEnv builds the configuration the way the istio-iptables binary does: config.DefaultConfig(),
// the real flag set (cmd.bindCmdlineFlags through the verif hook; flag.BindEnv / AdditionalEnv read the
// environment while binding) parsing real arguments, then Config.FillConfigFromEnvironment()
// (environment variables, net.InterfaceAddrs through config.LocalIPAddrs, /etc/resolv.conf, passwd).
// (The ORDER of these steps is the harness's here; stream `cmd` runs the real command instead.)
func runRealEnv(e envCase) (out compiled, filled rawCfg) {
	defer func() {
		if r := recover(); r != nil {
			out = compiled{status: "crash"}
		}
	}()
	old := config.LocalIPAddrs
	defer func() { config.LocalIPAddrs = old }()
	args, err := e.prepare()
	if err != nil {
		return compiled{status: "unreproducible:" + strings.ReplaceAll(err.Error(), " ", "_")}, e.vals
	}
	cfg := config.DefaultConfig()
	c := &cobra.Command{Use: "istio-iptables"}
	iptcmd.VerifBindFlags(cfg, c) // reads the environment
	if err := c.ParseFlags(args); err != nil {
		return compiled{status: "error:flags"}, e.vals
	}
	if err := cfg.FillConfigFromEnvironment(); err != nil {
		return compiled{status: "error:environment"}, rawFromConfig(cfg)
	}
	return runCfg(cfg), rawFromConfig(cfg)
}

func rawFromConfig(c *config.Config) rawCfg {
	return rawCfg{
		ProxyPort: c.ProxyPort, InboundCapturePort: c.InboundCapturePort, InboundTunnelPort: c.InboundTunnelPort,
		ProxyUID: c.ProxyUID, ProxyGID: c.ProxyGID, Mode: c.InboundInterceptionMode, TProxyMark: c.InboundTProxyMark,
		InboundInclude: c.InboundPortsInclude, InboundExclude: c.InboundPortsExclude,
		OwnerGroupsInclude: c.OwnerGroupsInclude, OwnerGroupsExclude: c.OwnerGroupsExclude,
		OutPortsInclude: c.OutboundPortsInclude, OutPortsExclude: c.OutboundPortsExclude,
		OutInclude: c.OutboundIPRangesInclude, OutExclude: c.OutboundIPRangesExclude,
		KubeVirt: c.RerouteVirtualInterfaces, ExclIfs: c.ExcludeInterfaces,
		RedirectDNS: c.RedirectDNS, DropInvalid: c.DropInvalid, CaptureAllDNS: c.CaptureAllDNS, IPv6: c.EnableIPv6,
		DNSV4: c.DNSServersV4, DNSV6: c.DNSServersV6, LoCidr: c.HostIPv4LoopbackCidr,
	}
}
