package main

import (
	"bufio"
	"bytes"
	"io"
	"net"
	"os"
	"os/user"
	"strconv"
	"strings"

	"github.com/miekg/dns"
	"github.com/spf13/cobra"

	"istio.io/istio/pkg/log"
	"istio.io/istio/tools/common/config"
	"istio.io/istio/tools/istio-iptables/pkg/capture"
	iptcmd "istio.io/istio/tools/istio-iptables/pkg/cmd"
	"istio.io/istio/tools/istio-iptables/pkg/constants"
	dep "istio.io/istio/tools/istio-iptables/pkg/dependencies"
	_ "verifharness/internal/quiet"
	"verifharness/internal/wire"
)

// rawCfg is config.Config restricted to the fields Run reads, as the raw strings a user supplies.
type rawCfg struct {
	ProxyPort, InboundCapturePort, InboundTunnelPort string
	ProxyUID, ProxyGID                               string
	Mode, TProxyMark                                 string
	InboundInclude, InboundExclude                   string
	OwnerGroupsInclude, OwnerGroupsExclude           string
	OutPortsInclude, OutPortsExclude                 string
	OutInclude, OutExclude                           string
	KubeVirt, ExclIfs                                string
	RedirectDNS, DropInvalid, CaptureAllDNS, IPv6    bool
	DNSV4, DNSV6                                     []string
	LoCidr                                           string
}

func defaultRaw() rawCfg {
	return rawCfg{
		ProxyPort: "15001", InboundCapturePort: "15006", InboundTunnelPort: "15008",
		ProxyUID: "1337", ProxyGID: "1337", Mode: "REDIRECT", TProxyMark: "1337",
		OwnerGroupsInclude: "*", LoCidr: "127.0.0.1/32",
	}
}

func (r rawCfg) tokens() []string {
	return []string{
		"cfg",
		wire.Enc(r.ProxyPort), wire.Enc(r.InboundCapturePort), wire.Enc(r.InboundTunnelPort),
		wire.Enc(r.ProxyUID), wire.Enc(r.ProxyGID), wire.Enc(r.Mode), wire.Enc(r.TProxyMark),
		wire.Enc(r.InboundInclude), wire.Enc(r.InboundExclude),
		wire.Enc(r.OwnerGroupsInclude), wire.Enc(r.OwnerGroupsExclude),
		wire.Enc(r.OutPortsInclude), wire.Enc(r.OutPortsExclude),
		wire.Enc(r.OutInclude), wire.Enc(r.OutExclude),
		wire.Enc(r.KubeVirt), wire.Enc(r.ExclIfs),
		wire.B(r.RedirectDNS), wire.B(r.DropInvalid), wire.B(r.CaptureAllDNS), wire.B(r.IPv6),
		wire.EncList(r.DNSV4), wire.EncList(r.DNSV6), wire.Enc(r.LoCidr),
	}
}

func rawFromTokens(t []string) (rawCfg, bool) {
	if len(t) != 25 || t[0] != "cfg" {
		return rawCfg{}, false
	}
	d := wire.Dec
	return rawCfg{
		ProxyPort: d(t[1]), InboundCapturePort: d(t[2]), InboundTunnelPort: d(t[3]),
		ProxyUID: d(t[4]), ProxyGID: d(t[5]), Mode: d(t[6]), TProxyMark: d(t[7]),
		InboundInclude: d(t[8]), InboundExclude: d(t[9]),
		OwnerGroupsInclude: d(t[10]), OwnerGroupsExclude: d(t[11]),
		OutPortsInclude: d(t[12]), OutPortsExclude: d(t[13]),
		OutInclude: d(t[14]), OutExclude: d(t[15]),
		KubeVirt: d(t[16]), ExclIfs: d(t[17]),
		RedirectDNS: t[18] == "1", DropInvalid: t[19] == "1", CaptureAllDNS: t[20] == "1", IPv6: t[21] == "1",
		DNSV4: wire.DecList(t[22]), DNSV6: wire.DecList(t[23]), LoCidr: d(t[24]),
	}, true
}

func (r rawCfg) config() *config.Config {
	return &config.Config{
		ProxyPort:                r.ProxyPort,
		InboundCapturePort:       r.InboundCapturePort,
		InboundTunnelPort:        r.InboundTunnelPort,
		ProxyUID:                 r.ProxyUID,
		ProxyGID:                 r.ProxyGID,
		InboundInterceptionMode:  r.Mode,
		InboundTProxyMark:        r.TProxyMark,
		InboundTProxyRouteTable:  "133",
		InboundPortsInclude:      r.InboundInclude,
		InboundPortsExclude:      r.InboundExclude,
		OwnerGroupsInclude:       r.OwnerGroupsInclude,
		OwnerGroupsExclude:       r.OwnerGroupsExclude,
		OutboundPortsInclude:     r.OutPortsInclude,
		OutboundPortsExclude:     r.OutPortsExclude,
		OutboundIPRangesInclude:  r.OutInclude,
		OutboundIPRangesExclude:  r.OutExclude,
		RerouteVirtualInterfaces: r.KubeVirt,
		ExcludeInterfaces:        r.ExclIfs,
		RedirectDNS:              r.RedirectDNS,
		DropInvalid:              r.DropInvalid,
		CaptureAllDNS:            r.CaptureAllDNS,
		EnableIPv6:               r.IPv6,
		DNSServersV4:             r.DNSV4,
		DNSServersV6:             r.DNSV6,
		HostIPv4LoopbackCidr:     r.LoCidr,
	}
}

// recorder is the repository's DependenciesStub plus a note of which restore binary received
// which stdin (the stub itself concatenates the v4 and v6 inputs).
type recorder struct {
	dep.DependenciesStub
	v4, v6 []string
	cmds   []string // every external command with its arguments, in order
}

func (s *recorder) Run(logger *log.Scope, quiet bool, cmd constants.IptablesCmd, iptVer *dep.IptablesVersion,
	stdin io.ReadSeeker, args ...string,
) (*bytes.Buffer, error) {
	if iptVer != nil {
		s.cmds = append(s.cmds, strings.Join(append([]string{iptVer.CmdToString(cmd)}, args...), " "))
	}
	if stdin != nil {
		sc := bufio.NewScanner(stdin)
		sc.Buffer(make([]byte, 1<<20), 1<<26)
		var lines []string
		for sc.Scan() {
			lines = append(lines, sc.Text())
		}
		if iptVer != nil && strings.HasPrefix(iptVer.DetectedRestoreBinary, "ip6") {
			s.v6 = append(s.v6, lines...)
		} else {
			s.v4 = append(s.v4, lines...)
		}
		_, _ = stdin.Seek(0, io.SeekStart)
	}
	return s.DependenciesStub.Run(logger, quiet, cmd, iptVer, stdin, args...)
}

// compiled is the observable result of the real compiler on one configuration.
type compiled struct {
	status string // ok | invalid:<why> | error:<why> | crash
	v4, v6 []string
	cmds   []string
}

func (c compiled) okLine() []string {
	e := make([]string, len(c.cmds))
	for i, x := range c.cmds {
		e[i] = wire.Enc(x)
	}
	return []string{"ok", strconv.Itoa(len(c.v4)), strconv.Itoa(len(c.v6)), "cmds=" + strings.Join(e, ",")}
}

// runReal = cmd/root.go: cfg.Validate() then capture.NewIptablesConfigurator(cfg, ext).Run().
func runReal(r rawCfg) (out compiled) {
	return runCfg(r.config())
}

func runCfg(cfg *config.Config) (out compiled) {
	defer func() {
		if e := recover(); e != nil {
			out = compiled{status: "crash"}
		}
	}()
	if err := config.ValidateOwnerGroups(cfg.OwnerGroupsInclude, cfg.OwnerGroupsExclude); err != nil {
		return compiled{status: "invalid:ownergroups"}
	}
	if err := cfg.Validate(); err != nil {
		return compiled{status: "invalid:loopbackcidr"}
	}
	ext := &recorder{}
	ipt, err := capture.NewIptablesConfigurator(cfg, ext)
	if err != nil {
		return compiled{status: "error:new"}
	}
	if err := ipt.Run(); err != nil {
		if strings.Contains(err.Error(), "OUTBOUND_IP_RANGES_EXCLUDE") {
			return compiled{status: "error:exclude-wildcard"}
		}
		return compiled{status: "error:cidr"}
	}
	// the stub's own record must agree with the tagged one (v4 input then v6 input)
	all := append(append([]string{}, ext.v4...), ext.v6...)
	if strings.Join(all, "\n") != strings.Join(ext.ExecutedStdin, "\n") {
		return compiled{status: "error:recorder"}
	}
	return compiled{status: "ok", v4: ext.v4, v6: ext.v6, cmds: ext.cmds}
}

// ---------------------------------------------------------------- the configuration as the binary builds it

// flagNames maps the raw fields to the real command-line flags (constants of the repository).
func (r rawCfg) flagArgs() []string {
	var a []string
	add := func(name, v string) {
		if v != "" {
			a = append(a, "--"+name+"="+v)
		}
	}
	add(constants.EnvoyPort, r.ProxyPort)
	add(constants.InboundCapturePort, r.InboundCapturePort)
	add(constants.InboundTunnelPort, r.InboundTunnelPort)
	add(constants.ProxyUID, r.ProxyUID)
	add(constants.ProxyGID, r.ProxyGID)
	add(constants.InboundInterceptionMode, r.Mode)
	add(constants.InboundTProxyMark, r.TProxyMark)
	add(constants.InboundPorts, r.InboundInclude)
	add(constants.LocalExcludePorts, r.InboundExclude)
	add(constants.OutboundPorts, r.OutPortsInclude)
	add(constants.LocalOutboundPortsExclude, r.OutPortsExclude)
	add(constants.ServiceCidr, r.OutInclude)
	add(constants.ServiceExcludeCidr, r.OutExclude)
	add(constants.RerouteVirtualInterfaces, r.KubeVirt)
	add(constants.ExcludeInterfaces, r.ExclIfs)
	if r.RedirectDNS {
		a = append(a, "--"+constants.RedirectDNS)
	}
	if r.DropInvalid {
		a = append(a, "--"+constants.DropInvalid)
	}
	if r.CaptureAllDNS {
		a = append(a, "--"+constants.CaptureAllDNS)
	}
	return a
}

var flagEnvNames = []string{
	"ENVOY_PORT", "INBOUND_CAPTURE_PORT", "INBOUND_TUNNEL_PORT", "PROXY_UID", "PROXY_GID", "ISTIO_INBOUND_INTERCEPTION_MODE",
	"ISTIO_INBOUND_TPROXY_MARK", "ISTIO_INBOUND_TPROXY_ROUTE_TABLE", "ISTIO_INBOUND_PORTS", "ISTIO_LOCAL_EXCLUDE_PORTS",
	"ISTIO_EXCLUDE_INTERFACES", "ISTIO_SERVICE_CIDR", "ISTIO_SERVICE_EXCLUDE_CIDR", "ISTIO_OUTBOUND_PORTS",
	"ISTIO_LOCAL_OUTBOUND_PORTS_EXCLUDE", "KUBE_VIRT_INTERFACES", "DRY_RUN", "IPTABLES_PROBE_PORT", "PROBE_TIMEOUT",
	"SKIP_RULE_APPLY", "RUN_VALIDATION", "REDIRECT_DNS", "ISTIO_META_DNS_CAPTURE", "DROP_INVALID", "INVALID_DROP", "DUAL_STACK",
	"ISTIO_DUAL_STACK", "CAPTURE_ALL_DNS", "NETWORK_NAMESPACE", "CNI_MODE", "RECONCILE", "CLEANUP_ONLY", "FORCE_APPLY",
	"NATIVE_NFTABLES", "FORCE_IPTABLES_BINARY", "ENVOY_USER",
}

func setOrUnset(name, v string, set bool) {
	if set {
		os.Setenv(name, v)
	} else {
		os.Unsetenv(name)
	}
}

// envoyUID is what FillConfigFromEnvironment falls back to for an empty --proxy-uid.
func envoyUID() string {
	if u, err := user.Lookup("istio-proxy"); err == nil {
		return u.Uid
	}
	return constants.DefaultProxyUID
}

func resolvServers() []string {
	c, err := dns.ClientConfigFromFile("/etc/resolv.conf")
	if err != nil {
		return nil
	}
	return c.Servers
}

// runRealEnv builds the configuration the way the istio-iptables binary does: config.DefaultConfig(),
// the real flag set (cmd.bindCmdlineFlags through the verif hook) parsing real arguments, then
// Config.FillConfigFromEnvironment() (environment variables, pod address family, /etc/resolv.conf).
// `~` in an environment-only field = variable unset.
func runRealEnv(r rawCfg, ogInclSet, ogExclSet, loSet bool) (out compiled, filled rawCfg) {
	defer func() {
		if e := recover(); e != nil {
			out = compiled{status: "crash"}
		}
	}()
	for _, n := range flagEnvNames {
		os.Unsetenv(n)
	}
	setOrUnset(constants.OwnerGroupsInclude.Name, r.OwnerGroupsInclude, ogInclSet)
	setOrUnset(constants.OwnerGroupsExclude.Name, r.OwnerGroupsExclude, ogExclSet)
	setOrUnset(constants.HostIPv4LoopbackCidr.Name, r.LoCidr, loSet)
	addr := "10.1.2.3"
	if r.IPv6 {
		addr = "2001:db8::3"
	}
	old := config.LocalIPAddrs
	config.LocalIPAddrs = func() ([]net.Addr, error) {
		return []net.Addr{&net.IPNet{IP: net.ParseIP("127.0.0.1"), Mask: net.CIDRMask(8, 32)},
			&net.IPNet{IP: net.ParseIP(addr), Mask: net.CIDRMask(32, 128)}}, nil
	}
	defer func() { config.LocalIPAddrs = old }()
	cfg := config.DefaultConfig()
	c := &cobra.Command{Use: "istio-iptables"}
	iptcmd.VerifBindFlags(cfg, c)
	if err := c.ParseFlags(r.flagArgs()); err != nil {
		return compiled{status: "error:flags"}, r
	}
	if err := cfg.FillConfigFromEnvironment(); err != nil {
		return compiled{status: "error:environment"}, r
	}
	return runCfg(cfg), rawFromConfig(cfg)
}

func rawFromConfig(c *config.Config) rawCfg {
	return rawCfg{
		ProxyPort: c.ProxyPort, InboundCapturePort: c.InboundCapturePort, InboundTunnelPort: c.InboundTunnelPort,
		ProxyUID: c.ProxyUID, ProxyGID: c.ProxyGID, Mode: c.InboundInterceptionMode, TProxyMark: c.InboundTProxyMark,
		InboundInclude: c.InboundPortsInclude, InboundExclude: c.InboundPortsExclude,
		OwnerGroupsInclude: c.OwnerGroupsInclude, OwnerGroupsExclude: c.OwnerGroupsExclude,
		OutPortsInclude: c.OutboundPortsInclude, OutPortsExclude: c.OutboundPortsExclude,
		OutInclude: c.OutboundIPRangesInclude, OutExclude: c.OutboundIPRangesExclude,
		KubeVirt: c.RerouteVirtualInterfaces, ExclIfs: c.ExcludeInterfaces,
		RedirectDNS: c.RedirectDNS, DropInvalid: c.DropInvalid, CaptureAllDNS: c.CaptureAllDNS, IPv6: c.EnableIPv6,
		DNSV4: c.DNSServersV4, DNSV6: c.DNSServersV6, LoCidr: c.HostIPv4LoopbackCidr,
	}
}
