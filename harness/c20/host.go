package main

// Host inputs of the code under test (FillConfigFromEnvironment reads /etc/resolv.conf and - through
// os/user - /etc/passwd; both paths are hard-coded there). Two modes:
//
//   - namespace mode (preferred; needs the privilege to unshare a mount namespace): the harness re-executes
//     itself in a PRIVATE mount namespace and binds a scratch directory over /etc, so every case gets a
//     synthetic resolv.conf (absent / empty / IPv4 / IPv6 / IPv4-mapped servers) and a synthetic passwd
//     (with or without the ENVOY_USER entry). The run does not depend on the machine's files at all.
//   - observed mode (fallback): whatever the machine has is OBSERVED - including "resolv.conf cannot be read" -
//     and recorded in the ops line, so that the model and the oracle expect exactly what the code will see.
//
// Nothing outside the private namespace is ever written.

import (
	"fmt"
	"os"
	"os/exec"
	"path/filepath"
	"strings"
	"syscall"
)

var nsOK bool // true: /etc is a private scratch directory of this process tree

func enterNamespace() {
	switch os.Getenv("C20_NS") {
	case "1": // re-executed child: build the private /etc
		nsOK = setupPrivateEtc() == nil
		return
	case "0":
		return
	}
	self, err := os.Executable()
	if err != nil {
		return
	}
	cmd := exec.Command(self, os.Args[1:]...)
	cmd.Stdin, cmd.Stdout, cmd.Stderr = os.Stdin, os.Stdout, os.Stderr
	cmd.Env = append(os.Environ(), "C20_NS=1")
	cmd.SysProcAttr = &syscall.SysProcAttr{Unshareflags: syscall.CLONE_NEWNS}
	if err := cmd.Start(); err != nil {
		os.Setenv("C20_NS", "0") // no privilege: observed mode
		return
	}
	err = cmd.Wait()
	_ = os.RemoveAll(filepath.Join(os.TempDir(), fmt.Sprintf("c20-etc-%d", cmd.Process.Pid))) // the child's scratch /etc
	if ee, ok := err.(*exec.ExitError); ok {
		os.Exit(ee.ExitCode())
	}
	if err != nil {
		os.Exit(2)
	}
	os.Exit(0)
}

func setupPrivateEtc() error {
	if err := syscall.Mount("", "/", "", syscall.MS_REC|syscall.MS_PRIVATE, ""); err != nil {
		return err
	}
	dir := filepath.Join(os.TempDir(), fmt.Sprintf("c20-etc-%d", os.Getpid()))
	if err := os.MkdirAll(dir, 0o755); err != nil {
		return err
	}
	for _, f := range []string{"nsswitch.conf", "hosts", "group", "localtime"} {
		if b, err := os.ReadFile(filepath.Join("/etc", f)); err == nil {
			_ = os.WriteFile(filepath.Join(dir, f), b, 0o644)
		}
	}
	_ = os.WriteFile(filepath.Join(dir, "passwd"), []byte("root:x:0:0:root:/root:/bin/sh\n"), 0o644)
	if err := syscall.Mount(dir, "/etc", "", syscall.MS_BIND, ""); err != nil {
		return err
	}
	// self-test: the overlay is really in place and writable
	if err := os.WriteFile("/etc/c20-probe", []byte("x"), 0o644); err != nil {
		return err
	}
	if _, err := os.Stat(filepath.Join(dir, "c20-probe")); err != nil {
		return fmt.Errorf("private /etc not effective")
	}
	return os.Remove("/etc/c20-probe")
}

// hostSpec = the host files one case runs with.
type hostSpec struct {
	synthetic bool     // namespace mode: the two fields below are WRITTEN; observed mode: they were READ
	resolvOK  bool     // /etc/resolv.conf can be read
	resolv    []string // its nameserver entries, verbatim
	passwd    []string // synthetic mode: extra passwd entries "name:uid:gid"
	envoyUID  string   // uid an empty --proxy-uid defaults to under these files (for the drawn ENVOY_USER)
}

func observeHost(envoyUser string) hostSpec {
	h := hostSpec{}
	if b, err := os.ReadFile("/etc/resolv.conf"); err == nil {
		h.resolvOK = true
		h.resolv = nameservers(string(b))
	}
	h.envoyUID = expectedUID(envoyUser)
	return h
}

// nameservers: the `nameserver` lines of a resolv.conf (literal parse).
func nameservers(text string) []string {
	var out []string
	for _, l := range strings.Split(text, "\n") {
		f := strings.Fields(l)
		if len(f) >= 2 && f[0] == "nameserver" {
			out = append(out, f[1])
		}
	}
	return out
}

// realize writes the synthetic files of a case (namespace mode only).
func (h hostSpec) realize() error {
	if !h.synthetic {
		return nil
	}
	if !nsOK {
		return fmt.Errorf("no private mount namespace")
	}
	if h.resolvOK {
		var b strings.Builder
		b.WriteString("# synthetic\nsearch svc.cluster.local\n")
		for _, s := range h.resolv {
			b.WriteString("nameserver " + s + "\n")
		}
		b.WriteString("options ndots:5\n")
		if err := os.WriteFile("/etc/resolv.conf", []byte(b.String()), 0o644); err != nil {
			return err
		}
	} else {
		_ = os.Remove("/etc/resolv.conf")
	}
	pw := "root:x:0:0:root:/root:/bin/sh\n"
	for _, e := range h.passwd {
		f := strings.Split(e, ":")
		if len(f) == 3 {
			pw += fmt.Sprintf("%s:x:%s:%s:%s:/nonexistent:/usr/sbin/nologin\n", f[0], f[1], f[2], f[0])
		}
	}
	return os.WriteFile("/etc/passwd", []byte(pw), 0o644)
}
