"""Live probe of the kernel facts lean/IstioModel/C20/Netfilter.lean assumes (run by checks/C20.py as
`unshare -n python3 probe.py` when a network namespace and iptables-restore are available; skipped
silently otherwise). Prints one line per fact: `FACT <name> OK|DIFFERENT <observation>`. Evidence only:
the verdict of the check never depends on it."""
import socket, subprocess, sys, threading, time
def sh(cmd, inp=None):
    r = subprocess.run(cmd, shell=True, input=inp, capture_output=True, text=True)
    return r.returncode, r.stdout + r.stderr
def restore(text):
    rc, out = sh("iptables-restore --noflush", text)
    assert rc == 0, out
def flush():
    for t in ("nat", "mangle", "raw"):
        sh("iptables -t %s -F; iptables -t %s -X" % (t, t))
def listen(port, addr="0.0.0.0"):
    s = socket.socket(); s.setsockopt(socket.SOL_SOCKET, socket.SO_REUSEADDR, 1); s.bind((addr, port)); s.listen(8)  # no accept timeout: a slow host must not kill the listener (daemon thread)
    def run():
        try:
            while True:
                c, _ = s.accept(); c.send(str(port).encode()); c.close()
        except Exception: pass
    threading.Thread(target=run, daemon=True).start(); return s
def connect(addr, port):
    c = socket.socket(); c.settimeout(3)
    try:
        c.connect((addr, port)); d = c.recv(16).decode(); c.close(); return "answered-by-" + d
    except Exception as e:
        return "refused/" + type(e).__name__
sh("ip link set lo up; ip addr add 10.1.2.3/32 dev lo")
l = listen(9090)
base = connect("127.0.0.1", 8080)
def fact(name, ok, obs):
    print("FACT", name, "OK" if ok else "DIFFERENT", str(obs).replace(" ", "_"))
fact("baseline-refused", base.startswith("refused"), base)
restore("*nat\n-A PREROUTING -p tcp --dport 8080 -j REDIRECT --to-ports 9090\nCOMMIT\n")
r = connect("127.0.0.1", 8080); fact("nat-PREROUTING-not-consulted-for-local-connection-on-lo", r.startswith("refused"), r)
r = connect("10.1.2.3", 8080); fact("nat-PREROUTING-not-consulted-for-local-connection-to-own-address", r.startswith("refused"), r)
r = sh("iptables-save -c -t nat | grep REDIRECT")[1].strip(); fact("nat-PREROUTING-rule-counter-zero", r.startswith("[0:0]"), r)
flush()
restore("*nat\n-A OUTPUT -p tcp --dport 8080 -j REDIRECT --to-ports 9090\nCOMMIT\n")
r = connect("127.0.0.1", 8080); fact("nat-OUTPUT-REDIRECT-captures-local-connection", r == "answered-by-9090", r)
r = connect("10.1.2.3", 8080); fact("nat-OUTPUT-REDIRECT-captures-connection-to-own-address", r == "answered-by-9090", r)
flush()
restore("*mangle\n-A PREROUTING -i lo -p tcp --dport 9090 -j MARK --set-mark 5\nCOMMIT\n")
connect("127.0.0.1", 9090)
r = sh("iptables-save -c -t mangle | grep MARK")[1].strip(); fact("mangle-PREROUTING-consulted-for-lo-packets", not r.startswith("[0:0]") and r != "", r)
flush()
# first match wins, RETURN, -I position, jump + fallthrough
restore("*nat\n-N C1\n-N C2\n-A OUTPUT -p tcp --dport 8080 -j C1\n-A C1 -p tcp -j C2\n-A C1 -p tcp -j REDIRECT --to-ports 9090\n-A C2 -p udp -j REDIRECT --to-ports 1\n-I C1 1 -p tcp --dport 8081 -j RETURN\nCOMMIT\n")
r = connect("127.0.0.1", 8080); fact("jump-falls-through-and-first-match-wins", r == "answered-by-9090", r)
r = sh("iptables-save -t nat | grep -- '-A C1'")[1].strip().split("\n"); fact("insert-at-1-goes-first", len(r) == 3 and "8081" in r[0], r[0] if r else "")
flush()
restore("*nat\n-N C1\n-A OUTPUT -p tcp -j C1\n-A C1 -p tcp --dport 8080 -j RETURN\n-A C1 -p tcp --dport 8080 -j REDIRECT --to-ports 9090\n-A OUTPUT -p tcp --dport 8080 -j REDIRECT --to-ports 9090\nCOMMIT\n")
r = connect("127.0.0.1", 8080); fact("RETURN-resumes-in-caller", r == "answered-by-9090", r)
flush()
restore("*nat\n-A OUTPUT -p tcp --dport 8080 -j RETURN\n-A OUTPUT -p tcp --dport 8080 -j REDIRECT --to-ports 9090\nCOMMIT\n")
r = connect("127.0.0.1", 8080); fact("RETURN-in-builtin-chain-is-policy-ACCEPT", r.startswith("refused"), r)
flush()
rc, out = sh("iptables-restore --noflush", "*nat\n-N C1\n-I C1 3 -p tcp -j RETURN\nCOMMIT\n")
fact("insert-beyond-end-rejected", rc != 0, rc)
rc, out = sh("iptables-restore --noflush", "*nat\n-A OUTPUT -j NOPE\nCOMMIT\n")
fact("jump-to-undeclared-chain-rejected", rc != 0, rc)
rc, out = sh("ip6tables-restore --noflush", "*nat\n-A OUTPUT -d 10.0.0.0/8 -j RETURN\nCOMMIT\n")
fact("v4-literal-in-ip6tables-rejected", rc != 0, rc)
