package main

// Reference netfilter interpreter over iptables-restore text. Written from the iptables(8) and
// iptables-extensions(8) manual pages, independently of the Lean model (lean/IstioModel/C20/
// Netfilter.lean); the `sem` stream compares the two on every run, the `packets` stream and the
// oracle use it to state the property on the rule text the real compiler produced.

import (
	"fmt"
	"net/netip"
	"strconv"
	"strings"
)

type match struct {
	kind   string // proto dport sport dports dst src in out uid gid ctstate mark connmark
	neg    bool
	str    string
	num    uint64
	mask   uint64
	nums   []uint64
	prefix netip.Prefix
	strs   []string
}

type rule struct {
	text    string
	matches []match
	target  string // RETURN ACCEPT DROP REDIRECT TPROXY MARK CONNMARK-SAVE CONNMARK-RESTORE CT or a chain name
	port    uint64 // REDIRECT / TPROXY
	mark    uint64 // MARK / TPROXY value
	mmask   uint64
	zone    uint64 // CT --zone
	err     string
}

type ruleset struct {
	// tables[table][chain] = ordered rules
	tables map[string]map[string][]*rule
	nUser  map[string]int
	err    string
}

var builtinTargets = map[string]bool{"RETURN": true, "ACCEPT": true, "DROP": true, "REDIRECT": true, "TPROXY": true, "MARK": true, "CONNMARK": true, "CONNMARK-SAVE": true, "CONNMARK-RESTORE": true, "CT": true}

func parseNum(s string) (uint64, error) {
	return strconv.ParseUint(s, 0, 64)
}

func parseValMask(s string) (uint64, uint64, error) {
	mask := uint64(0xffffffff)
	v := s
	if i := strings.IndexByte(s, '/'); i >= 0 {
		v = s[:i]
		m, err := parseNum(s[i+1:])
		if err != nil {
			return 0, 0, err
		}
		mask = m
	}
	n, err := parseNum(v)
	return n, mask, err
}

func parseRule(fields []string, v6 bool) *rule {
	r := &rule{text: strings.Join(fields, " ")}
	neg := false
	module := ""
	fail := func(f string, a ...any) *rule { r.err = fmt.Sprintf(f, a...); return r }
	i := 0
	next := func() (string, bool) {
		if i+1 >= len(fields) {
			return "", false
		}
		i++
		return fields[i], true
	}
	for ; i < len(fields); i++ {
		f := fields[i]
		takeNeg := func() bool { n := neg; neg = false; return n }
		switch f {
		case "!":
			neg = true
		case "-m":
			v, ok := next()
			if !ok {
				return fail("dangling -m")
			}
			module = v
		case "-p":
			v, ok := next()
			if !ok {
				return fail("dangling -p")
			}
			r.matches = append(r.matches, match{kind: "proto", neg: takeNeg(), str: v})
		case "--dport", "--sport":
			v, ok := next()
			n, err := strconv.ParseUint(v, 10, 16)
			if !ok || err != nil {
				return fail("bad port %q", v)
			}
			r.matches = append(r.matches, match{kind: f[2:], neg: takeNeg(), num: n})
		case "--dports":
			v, ok := next()
			if !ok || module != "multiport" {
				return fail("--dports without -m multiport")
			}
			m := match{kind: "dports", neg: takeNeg()}
			for _, p := range strings.Split(v, ",") {
				n, err := strconv.ParseUint(p, 10, 16)
				if err != nil {
					return fail("bad port %q", p)
				}
				m.nums = append(m.nums, n)
			}
			r.matches = append(r.matches, m)
		case "-d", "-s":
			v, ok := next()
			if !ok {
				return fail("dangling %s", f)
			}
			if !strings.Contains(v, "/") {
				if strings.Contains(v, ":") {
					v += "/128"
				} else {
					v += "/32"
				}
			}
			p, err := netip.ParsePrefix(v)
			if err != nil {
				return fail("bad prefix %q", v)
			}
			if p.Addr().Is6() != v6 { // iptables refuses IPv6 literals, ip6tables IPv4 ones
				return fail("address family of %q does not fit the table family", v)
			}
			k := "dst"
			if f == "-s" {
				k = "src"
			}
			r.matches = append(r.matches, match{kind: k, neg: takeNeg(), prefix: p})
		case "-i", "-o":
			v, ok := next()
			if !ok {
				return fail("dangling %s", f)
			}
			k := "in"
			if f == "-o" {
				k = "out"
			}
			r.matches = append(r.matches, match{kind: k, neg: takeNeg(), str: v})
		case "--uid-owner", "--gid-owner":
			v, ok := next()
			if !ok || module != "owner" {
				return fail("%s without -m owner", f)
			}
			r.matches = append(r.matches, match{kind: f[2:5], neg: takeNeg(), str: v})
		case "--ctstate":
			v, ok := next()
			if !ok || module != "conntrack" {
				return fail("--ctstate without -m conntrack")
			}
			r.matches = append(r.matches, match{kind: "ctstate", neg: takeNeg(), strs: strings.Split(v, ",")})
		case "--mark":
			v, ok := next()
			n, mask, err := parseValMask(v)
			if !ok || err != nil || (module != "mark" && module != "connmark") {
				return fail("bad --mark")
			}
			r.matches = append(r.matches, match{kind: module, neg: takeNeg(), num: n, mask: mask})
		case "-j":
			v, ok := next()
			if !ok {
				return fail("dangling -j")
			}
			r.target = v
			// target options
			for i+1 < len(fields) {
				i++
				o := fields[i]
				switch {
				case (o == "--to-ports" || o == "--to-port") && v == "REDIRECT",
					o == "--on-port" && v == "TPROXY":
					a, ok := next()
					n, err := strconv.ParseUint(a, 10, 16)
					if !ok || err != nil {
						return fail("bad port %q", a)
					}
					r.port = n
				case o == "--set-mark" && v == "MARK", o == "--tproxy-mark" && v == "TPROXY":
					a, ok := next()
					n, mask, err := parseValMask(a)
					if !ok || err != nil {
						return fail("bad mark %q", a)
					}
					r.mark, r.mmask = n, mask
				case o == "--save-mark" && v == "CONNMARK":
					r.target = "CONNMARK-SAVE"
				case o == "--restore-mark" && v == "CONNMARK":
					r.target = "CONNMARK-RESTORE"
				case o == "--zone" && v == "CT":
					a, ok := next()
					if !ok {
						return fail("dangling --zone")
					}
					n, err := strconv.ParseUint(a, 10, 16)
					if err != nil {
						return fail("bad zone %q", a)
					}
					r.zone = n
				default:
					return fail("unsupported target option %q", o)
				}
			}
			if v == "CONNMARK" && r.target == "CONNMARK" {
				return fail("CONNMARK without mode")
			}
		default:
			return fail("unsupported token %q", f)
		}
	}
	if neg {
		return fail("dangling !")
	}
	if r.target == "" {
		return fail("no target")
	}
	return r
}

// loadText applies one iptables-restore input (--noflush into empty tables).
func loadText(lines []string, v6 bool) *ruleset {
	rs := &ruleset{tables: map[string]map[string][]*rule{}, nUser: map[string]int{}}
	table := ""
	for _, l := range lines {
		f := strings.Fields(l)
		if len(f) == 0 {
			continue
		}
		switch {
		case f[0] == "*" && len(f) == 2:
			table = f[1]
			if rs.tables[table] == nil {
				rs.tables[table] = map[string][]*rule{}
			}
		case strings.HasPrefix(f[0], "*") && len(f) == 1:
			table = f[0][1:]
			if rs.tables[table] == nil {
				rs.tables[table] = map[string][]*rule{}
			}
		case f[0] == "COMMIT":
			table = ""
		case table == "":
			rs.err = "rule outside a table: " + l
		case f[0] == "-N" && len(f) == 2:
			if _, dup := rs.tables[table][f[1]]; dup {
				rs.err = "chain declared twice: " + l
			}
			rs.tables[table][f[1]] = []*rule{}
			rs.nUser[table]++
		case f[0] == "-A" && len(f) >= 2:
			r := parseRule(f[2:], v6)
			if r.err != "" {
				rs.err = r.err + " in: " + l
			}
			rs.tables[table][f[1]] = append(rs.tables[table][f[1]], r)
		case f[0] == "-I" && len(f) >= 3:
			pos, err := strconv.Atoi(f[2])
			cur := rs.tables[table][f[1]]
			if err != nil || pos < 1 || pos > len(cur)+1 {
				rs.err = "insert index out of range: " + l
				continue
			}
			r := parseRule(f[3:], v6)
			if r.err != "" {
				rs.err = r.err + " in: " + l
			}
			cur = append(cur, nil)
			copy(cur[pos:], cur[pos-1:])
			cur[pos-1] = r
			rs.tables[table][f[1]] = cur
		default:
			rs.err = "unsupported line: " + l
		}
	}
	// every jump target must exist
	for t, chains := range rs.tables {
		for _, rules := range chains {
			for _, r := range rules {
				if !builtinTargets[r.target] {
					if _, ok := chains[r.target]; !ok {
						rs.err = "jump to undeclared chain " + r.target + " in table " + t
					}
				}
			}
		}
	}
	return rs
}

type packet struct {
	hook           string // PREROUTING | OUTPUT
	v6             bool
	proto          string
	src, dst       netip.Addr
	sport, dport   uint64
	inIf, outIf    string
	uid, gid       string
	ctstate        string
	mark, connmark uint64
}

func ifaceMatch(pat, name string) bool {
	if strings.HasSuffix(pat, "+") {
		return strings.HasPrefix(name, pat[:len(pat)-1])
	}
	return pat == name
}

func (m *match) eval(p *packet) bool {
	var r bool
	switch m.kind {
	case "proto":
		r = p.proto == m.str
	case "dport":
		r = p.dport == m.num
	case "sport":
		r = p.sport == m.num
	case "dports":
		for _, n := range m.nums {
			if n == p.dport {
				r = true
			}
		}
	case "dst":
		r = m.prefix.Contains(p.dst)
	case "src":
		r = m.prefix.Contains(p.src)
	case "in":
		r = ifaceMatch(m.str, p.inIf)
	case "out":
		r = ifaceMatch(m.str, p.outIf)
	case "uid":
		r = p.uid == m.str
	case "gid":
		r = p.gid == m.str
	case "ctstate":
		for _, s := range m.strs {
			if s == p.ctstate {
				r = true
			}
		}
	case "mark":
		r = p.mark&m.mask == m.num
	case "connmark":
		r = p.connmark&m.mask == m.num
	}
	return r != m.neg
}

type fate struct {
	dropped, loop    bool
	tproxy, redirect int64 // -1 = none
	mark, connmark   uint64
	zone             uint64 // conntrack zone assigned in raw (0 = default zone); seen by the oracle only
	err              string
}

func (f fate) String() string {
	opt := func(n int64) string {
		if n < 0 {
			return "-"
		}
		return strconv.FormatInt(n, 10)
	}
	switch {
	case f.err != "":
		return "unsupported:" + strings.ReplaceAll(f.err, " ", "_")
	case f.loop:
		return "loop"
	case f.dropped:
		return "drop"
	}
	return fmt.Sprintf("pass tproxy=%s redirect=%s mark=%d connmark=%d", opt(f.tproxy), opt(f.redirect), f.mark, f.connmark)
}

// walkTable evaluates the built-in chain `hook` of one table. Returns the table's verdict:
// "ACCEPT", "DROP", "REDIRECT", "TPROXY" or "LOOP".
func (rs *ruleset) walkTable(table string, p *packet, f *fate) string {
	chains := rs.tables[table]
	if chains == nil {
		return "ACCEPT"
	}
	type frame struct {
		rules []*rule
		pc    int
	}
	stack := []frame{{rules: chains[p.hook]}}
	limit := rs.nUser[table] + 1 // the kernel's jump stack holds one entry per user chain
	for len(stack) > 0 {
		top := &stack[len(stack)-1]
		if top.pc >= len(top.rules) {
			stack = stack[:len(stack)-1] // end of chain: back to the caller (policy ACCEPT at the bottom)
			continue
		}
		r := top.rules[top.pc]
		top.pc++
		ok := true
		for k := range r.matches {
			if !r.matches[k].eval(p) {
				ok = false
				break
			}
		}
		if !ok {
			continue
		}
		switch r.target {
		case "RETURN":
			stack = stack[:len(stack)-1]
		case "ACCEPT":
			return "ACCEPT"
		case "DROP":
			return "DROP"
		case "REDIRECT":
			f.redirect = int64(r.port)
			return "REDIRECT"
		case "TPROXY":
			p.mark = (p.mark &^ r.mmask) ^ r.mark
			f.tproxy = int64(r.port)
			return "TPROXY"
		case "MARK":
			p.mark = (p.mark &^ r.mmask) | r.mark
		case "CONNMARK-SAVE":
			p.connmark = p.mark
		case "CONNMARK-RESTORE":
			p.mark = p.connmark
		case "CT":
			if f.zone == 0 { // xt_CT leaves a packet alone that already has a conntrack template
				f.zone = r.zone
			}
		default:
			if len(stack) >= limit {
				return "LOOP"
			}
			stack = append(stack, frame{rules: chains[r.target]})
		}
	}
	return "ACCEPT"
}

// traverse: raw, mangle, nat (nat only for the first packet of a connection).
func (rs *ruleset) traverse(p packet) fate {
	f := fate{tproxy: -1, redirect: -1}
	if rs.err != "" {
		f.err = rs.err
		return f
	}
	for _, t := range []string{"raw", "mangle", "nat"} {
		// nat: only for the packet that creates the connection, and not again at PREROUTING for a locally
		// generated connection coming back in through lo (its NAT binding was made at nat/OUTPUT)
		if t == "nat" && (!natState(p.ctstate) || (p.hook == "PREROUTING" && p.inIf == "lo")) {
			continue
		}
		v := rs.walkTable(t, &p, &f)
		if v == "DROP" {
			f.dropped = true
			break
		}
		if v == "LOOP" {
			f.loop = true
			break
		}
	}
	f.mark, f.connmark = p.mark, p.connmark
	return f
}

// natState: the kernel (nf_nat_inet_fn) walks the nat table for the packet that creates a conntrack entry:
// a NEW one, or the first packet of an expected (RELATED) connection. In this packet model RELATED stands
// for that first packet; later packets of either connection are ESTABLISHED.
func natState(ct string) bool { return ct == "NEW" || ct == "RELATED" }
