package main

import (
	"fmt"
	"sort"
	"strconv"
	"strings"

	"istio.io/istio/tools/istio-iptables/pkg/builder"
	"istio.io/istio/tools/istio-iptables/pkg/capture"
	"verifharness/internal/wire"
)

// Stream `apply` (oracle only): the real Run against a namespace that already holds rules.
//
//	case <n> apply
//	cfg <A>                                  the configuration a previous run installed
//	cfg <B>                                  the configuration of this run
//	apply <prior> <foreign 0|1> <reconcile> <cleanupOnly> <forceApply> <detection: ok|fail|v4-fail|save-fail>
//
// prior: clean | same | other (any other configuration, sometimes with the other IPv6 setting) | superset / subset
// (same chains, more / fewer rules) | extra-chain (B plus ISTIO_DROP and its jump) | same+chain (B plus an
// empty, unreferenced ISTIO chain) | v6-residue (IPv4 clean, IPv6 tables hold A's rules, B has IPv6 off).

var foreignRules = []string{
	"* nat", "-N KUBE-SERVICES", "-A PREROUTING -j KUBE-SERVICES", "-A OUTPUT -j KUBE-SERVICES",
	"-A KUBE-SERVICES -d 10.96.0.1/32 -p tcp -m tcp --dport 443 -j RETURN", "COMMIT",
	"* filter", "-A INPUT -p tcp -m tcp --dport 22 -j ACCEPT", "COMMIT",
}

func genApply(r *wire.Rng, i int, out *wire.Out) {
	a, b := genCfg(r, true), genCfg(r, true)
	for _, c := range []*rawCfg{&a, &b} { // no malformed values in this stream (names and other loopback CIDRs are fine)
		c.OutExclude = strings.ReplaceAll(c.OutExclude, "*", "")
		if !strings.HasPrefix(c.LoCidr, "127.") {
			c.LoCidr = "127.0.0.1/32"
		}
	}
	a.IPv6 = b.IPv6
	prior := wire.Pick(r, []string{"clean", "same", "same", "other", "other", "superset", "subset", "same+chain", "extra-chain", "v6-residue"})
	extra := func(c rawCfg) rawCfg { // the same chains, a few more rules in them
		c.OutPortsExclude = strings.TrimPrefix(c.OutPortsExclude+",4444", ",")
		c.OutExclude = strings.TrimPrefix(c.OutExclude+",203.0.113.0/24", ",")
		return c
	}
	switch prior {
	case "other":
		if r.Chance(1, 3) { // the two runs disagree on IPv6
			a.IPv6 = !b.IPv6
		}
	case "superset":
		a = extra(b)
	case "subset":
		a, b = b, extra(b)
	case "extra-chain": // what this run installs plus one more ISTIO chain with its jump (ISTIO_DROP of DROP_INVALID)
		b.DropInvalid = false
		a = b
		a.DropInvalid = true
	case "same+chain": // what this run installs plus an empty ISTIO chain nobody jumps to
		a = b
	case "v6-residue": // the previous run had IPv6 on, this one has not, and only the IPv6 tables hold its rules
		b.IPv6 = false
		a = b
		a.IPv6 = true
	}
	reconcile, cleanup, force := r.Chance(1, 2), r.Chance(1, 4), r.Chance(1, 6)
	v6 := "ok"
	switch r.Intn(12) {
	case 0, 1:
		v6 = "fail" // ip6tables cannot be detected
	case 2:
		v6 = "v4-fail" // iptables cannot be detected
	case 3:
		v6 = "save-fail" // iptables-save fails
	}
	out.Line("case", strconv.Itoa(i), "apply")
	out.Line(a.tokens()...)
	out.Line(b.tokens()...)
	out.Line("apply", prior, wire.B(r.Chance(1, 2)), wire.B(reconcile), wire.B(cleanup), wire.B(force), v6)
}

func install(s *simDeps, foreign bool, c compiled) error {
	if foreign {
		if err := s.v4.restore(foreignRules, true); err != nil {
			return err
		}
		if err := s.v6.restore(foreignRules[:4], true); err != nil {
			return err
		}
		s.v6.restore([]string{"COMMIT"}, true)
	}
	if err := s.v4.restore(c.v4, true); err != nil {
		return err
	}
	return s.v6.restore(c.v6, true)
}

func (s *simDeps) canon() string { return "v4:\n" + s.v4.canon() + "\nv6:\n" + s.v6.canon() }

// applyCase evaluates the clauses on one case; "" = OK.
func applyCase(a, b rawCfg, t []string) string {
	if len(t) != 7 {
		return ""
	}
	prior, foreign, reconcile, cleanup, force, v6fail := t[1], t[2] == "1", t[3] == "1", t[4] == "1", t[5] == "1", t[6] == "fail"
	v4fail, savefail := t[6] == "v4-fail", t[6] == "save-fail"
	drifted := prior == "other" || prior == "superset" || prior == "subset" || prior == "extra-chain" || prior == "same+chain"
	ca, cb := runReal(a), runReal(b)
	if ca.status != "ok" || cb.status != "ok" {
		return ""
	}
	sim, want, base := newSim(), newSim(), newSim()
	resid := compiled{} // rules of a family this run plans nothing for: they are not this run's business
	if prior == "v6-residue" {
		resid = compiled{v6: ca.v6}
	}
	_ = install(base, foreign, resid)
	if err := install(want, foreign, compiled{v4: cb.v4, v6: append(append([]string{}, resid.v6...), cb.v6...)}); err != nil {
		return "FAIL apply:own-restore-text-rejected " + strings.ReplaceAll(err.Error(), " ", "_")
	}
	switch prior {
	case "same":
		_ = install(sim, foreign, cb)
	case "same+chain":
		_ = install(sim, foreign, cb)
		_ = sim.v4.restore([]string{"* nat", "-N ISTIO_LEFTOVER", "COMMIT"}, true)
	case "other", "superset", "subset", "extra-chain":
		_ = install(sim, foreign, ca)
	case "v6-residue":
		_ = install(sim, foreign, compiled{v6: ca.v6})
	default:
		_ = install(sim, foreign, compiled{})
	}
	before := sim.canon()
	sim.failV6, sim.failV4, sim.failIO = v6fail, v4fail, savefail
	cfg := b.config()
	cfg.Reconcile, cfg.CleanupOnly, cfg.ForceApply = reconcile, cleanup, force
	ipt, err := capture.NewIptablesConfigurator(cfg, sim)
	// ip6tables detection failure: fatal exactly when IPv6 is enabled
	if v6fail {
		if (err != nil) != b.IPv6 {
			return fmt.Sprintf("FAIL apply:ip6tables-detection-failure-handling ipv6=%v error=%v", b.IPv6, err != nil)
		}
		if err != nil {
			return ""
		}
	} else if v4fail {
		if err == nil {
			return "FAIL apply:iptables-detection-failure-ignored"
		}
		return ""
	} else if err != nil {
		return "FAIL apply:configurator-refused"
	}
	runErr := ipt.Run()
	after := sim.canon()
	left := capture.HasIstioLeftovers(builder.NewIptablesRuleBuilder(nil).GetStateFromSave(sim.v4.save()))
	for k, v := range capture.HasIstioLeftovers(builder.NewIptablesRuleBuilder(nil).GetStateFromSave(sim.v6.save())) {
		left["v6:"+k] = v
	}
	if prior == "v6-residue" {
		for k := range left {
			if strings.HasPrefix(k, "v6:") {
				delete(left, k)
			}
		}
	}
	det := func(s string) string { return strings.ReplaceAll(strings.ReplaceAll(s, " ", "_"), "\n", "|") }
	class := fmt.Sprintf("prior=%s reconcile=%v cleanup=%v force=%v", prior, reconcile, cleanup, force)
	// foreign rules are never touched
	for _, l := range strings.Split(base.canon(), "\n") {
		if strings.Contains(l, ": ") && !strings.HasSuffix(l, ": ") && !strings.Contains(after, l) {
			// a builtin chain line of `base` may have grown; compare the foreign rules themselves
			for _, r := range strings.Split(strings.SplitN(l, ": ", 2)[1], " ; ") {
				if !strings.Contains(after, r) {
					return "FAIL apply:foreign-rule-lost " + class + " rule=" + det(r)
				}
			}
		}
	}
	// guardrails never survive
	if strings.Contains(after, "filter/INPUT: -p udp -j DROP") || strings.Contains(after, "-p tcp -j DROP ;") ||
		strings.Contains(after, "filter/FORWARD") || strings.Contains(after, "filter/OUTPUT: -p") {
		return "FAIL apply:guardrails-left " + class
	}
	if savefail {
		// iptables-save cannot be read: the state is assumed clean, the rules are applied
		if !cleanup && prior == "clean" {
			if runErr != nil || after != want.canon() {
				return "FAIL apply:save-failure-not-treated-as-clean-state " + class
			}
		}
		return ""
	}
	// drift detection (VerifyIptablesState): when the tables hold something else than what this configuration
	// installs, the run must notice - it issues a restore or cleanup commands, never "nothing to do"
	if drifted && !cleanup && before != want.canon() {
		acted := sim.restores > 0
		for _, c := range sim.cmds {
			if strings.Contains(c, " -F ") || strings.Contains(c, " -X ") || strings.Contains(c, " -D ") {
				acted = true
			}
		}
		if !acted {
			return "FAIL apply:drift-not-detected " + class
		}
	}
	// guardrails: whenever a run that goes on to apply rules removes old ones, every planned family drops all
	// tcp/udp traffic from before the first removal until after the restore
	if !cleanup {
		fams := []string{"iptables"}
		if b.IPv6 {
			fams = append(fams, "ip6tables")
		}
		for _, bin := range fams {
			if why := guardrailOrder(sim.cmds, bin); why != "" {
				return "FAIL apply:" + why + " " + class + " family=" + bin
			}
		}
	}
	switch {
	case cleanup:
		if sim.restores != 0 {
			return "FAIL apply:cleanup-only-applied-rules " + class
		}
		if !drifted {
			if runErr != nil {
				return "FAIL apply:cleanup-only-error " + class
			}
			if after != base.canon() {
				// recorded class c20:cleanup-leaves-jump-target-only-chain, excluded BY ITS CAUSE: everything left is an
				// empty ISTIO chain this configuration declares (-N) but never puts a rule into - buildCleanupRules only
				// flushes and deletes chains that own a rule
				if only := jumpTargetOnlyLeftovers(base, sim, cb); only != "" {
					return "KNOWN c20:cleanup-leaves-jump-target-only-chain " + class + " chains=" + only
				}
				return "FAIL apply:cleanup-only-leftovers " + class + " state=" + det(after)
			}
			if len(left) != 0 {
				return "FAIL apply:HasIstioLeftovers-after-cleanup " + class
			}
		}
	case prior == "clean", prior == "v6-residue", prior == "same" && !force:
		if runErr != nil {
			return "FAIL apply:error " + class + " err=" + det(runErr.Error())
		}
		if after != want.canon() {
			return "FAIL apply:final-state " + class
		}
		// nothing of Istio's in the tables of the planned families (residue of a family this run plans nothing for
		// does not count): the clean-state path - no cleanup commands, no guardrails
		// (foreign rules make the real code see "residue" - GetStateFromSave keeps every rule of the four tables -, so
		// the statement is made for tables holding nothing else)
		if prior != "same" && !foreign {
			hit("apply.clean-state.runs")
			for _, c := range sim.cmds {
				if isCleanupCmd(c) || isGuardrailCmd(c) {
					return "FAIL apply:cleanup-on-clean-state " + class + " cmd=" + det(c)
				}
			}
		}
		if prior == "same" && !reconcile && sim.restores != 0 {
			return "FAIL apply:not-idempotent(restore-issued-on-identical-state) " + class
		}
		if len(left) == 0 {
			return "FAIL apply:HasIstioLeftovers-blind " + class
		}
	case drifted && reconcile && !force:
		_ = before
		// Recorded, not a clause (outside the property: how rules are applied over another configuration's
		// residue): cleanup is built from the NEW configuration's rules, so chains only the old one had survive,
		// and the following restore can fail on `-N` of a chain that could not be removed.
		if runErr != nil {
			return "OBS apply:reconcile-across-configurations-fails " + class
		}
		if after != want.canon() {
			return "OBS apply:reconcile-across-configurations-leaves-residue " + class
		}
	}
	return ""
}

func isCleanupCmd(c string) bool {
	return !strings.Contains(c, " -t filter ") && (strings.Contains(c, " -D ") || strings.Contains(c, " -F ") || strings.Contains(c, " -X "))
}

func isGuardrailCmd(c string) bool {
	return strings.Contains(c, " -t filter ") && strings.HasSuffix(c, " -j DROP")
}

// guardrailOrder: "" when the commands issued for one family respect the guardrail discipline.
func guardrailOrder(cmds []string, bin string) string {
	firstCleanup, lastWork, sixth, ins := -1, -1, -1, 0
	for i, c := range cmds {
		switch {
		case strings.HasPrefix(c, bin+" ") && isCleanupCmd(c):
			if firstCleanup < 0 {
				firstCleanup = i
			}
			lastWork = i
		case strings.HasPrefix(c, bin+"-restore"):
			lastWork = i
		case strings.HasPrefix(c, bin+" -t filter -I ") && isGuardrailCmd(c):
			if ins++; ins == 6 {
				sixth = i
			}
		}
	}
	if firstCleanup < 0 {
		return ""
	}
	hit("apply.guardrail.runs-with-cleanup")
	if sixth < 0 || sixth > firstCleanup {
		return "cleanup-without-guardrails"
	}
	for i := sixth; i < lastWork; i++ {
		if strings.HasPrefix(cmds[i], bin+" -t filter -D ") && isGuardrailCmd(cmds[i]) {
			return "guardrails-removed-before-the-work-is-done"
		}
	}
	return ""
}

// jumpTargetOnlyLeftovers: when the only difference between `got` and `base` is a set of EMPTY user chains that
// the compiled text declares with -N without ever appending / inserting a rule into them (in that table and
// family), their names; "" otherwise.
func jumpTargetOnlyLeftovers(base, got *simDeps, c compiled) string {
	var names []string
	for _, fam := range []struct {
		name      string
		base, got *famState
		text      []string
	}{{"v4", base.v4, got.v4, c.v4}, {"v6", base.v6, got.v6, c.v6}} {
		have := map[string]bool{}
		for _, l := range strings.Split(fam.base.canon(), "\n") {
			have[l] = true
		}
		gotLines := map[string]bool{}
		for _, l := range strings.Split(fam.got.canon(), "\n") {
			gotLines[l] = true
			if l == "" || have[l] {
				continue
			}
			tc := strings.SplitN(strings.TrimSuffix(l, ": "), "/", 2)
			if !strings.HasSuffix(l, ": ") || len(tc) != 2 || !strings.HasPrefix(tc[1], "ISTIO_") {
				return ""
			}
			table, declared, owns := "", false, false
			for _, x := range fam.text {
				w := strings.Fields(x)
				switch {
				case len(w) == 2 && w[0] == "*":
					table = w[1]
				case table == tc[0] && len(w) >= 2 && w[0] == "-N" && w[1] == tc[1]:
					declared = true
				case table == tc[0] && len(w) >= 2 && (w[0] == "-A" || w[0] == "-I") && w[1] == tc[1]:
					owns = true
				}
			}
			if !declared || owns {
				return ""
			}
			names = append(names, fam.name+":"+l[:len(l)-2])
		}
		for l := range have {
			if l != "" && !gotLines[l] {
				return ""
			}
		}
	}
	return strings.Join(names, ",")
}

// cleanupResidue (stream `cleanup`, differential against Lean `cleanupResidue`): tables holding exactly what this
// configuration installs, then the real NewIptablesConfigurator(...).Run() with CleanupOnly; what is left in one
// family: number of rules, user chains still there.
func cleanupResidue(c rawCfg, own compiled, v6 bool) []string {
	sim := newSim()
	if err := install(sim, false, own); err != nil {
		return []string{"install-error", strings.ReplaceAll(err.Error(), " ", "_")}
	}
	cfg := c.config()
	cfg.CleanupOnly = true
	ipt, err := capture.NewIptablesConfigurator(cfg, sim)
	if err != nil {
		return []string{"configurator-error"}
	}
	if err := ipt.Run(); err != nil {
		return []string{"run-error", strings.ReplaceAll(err.Error(), " ", "_")}
	}
	f := sim.v4
	if v6 {
		f = sim.v6
	}
	n := 0
	var chains []string
	for t, cs := range f.tables {
		for ch, rs := range cs {
			n += len(rs)
			if !isBuiltin(t, ch) {
				chains = append(chains, t+"/"+ch)
			}
		}
	}
	sort.Strings(chains)
	names := "-"
	if len(chains) > 0 {
		names = strings.Join(chains, ",")
	}
	return []string{"left", strconv.Itoa(n), names}
}
