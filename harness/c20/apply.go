package main

import (
	"fmt"
	"strconv"
	"strings"

	"istio.io/istio/tools/istio-iptables/pkg/builder"
	"istio.io/istio/tools/istio-iptables/pkg/capture"
	"verifharness/internal/wire"
)

// Stream `apply` (oracle only): the real Run against a namespace that already holds rules.
//
//	case <n> apply
//	cfg <A>                                  the configuration a previous run installed
//	cfg <B>                                  the configuration of this run
//	apply <prior: clean|same|other> <foreign 0|1> <reconcile> <cleanupOnly> <forceApply> <v6detect: ok|fail>

var foreignRules = []string{
	"* nat", "-N KUBE-SERVICES", "-A PREROUTING -j KUBE-SERVICES", "-A OUTPUT -j KUBE-SERVICES",
	"-A KUBE-SERVICES -d 10.96.0.1/32 -p tcp -m tcp --dport 443 -j RETURN", "COMMIT",
	"* filter", "-A INPUT -p tcp -m tcp --dport 22 -j ACCEPT", "COMMIT",
}

func genApply(r *wire.Rng, i int, out *wire.Out) {
	a, b := genCfg(r, true), genCfg(r, true)
	for _, c := range []*rawCfg{&a, &b} { // no malformed values in this stream (names and other loopback CIDRs are fine)
		c.OutExclude = strings.ReplaceAll(c.OutExclude, "*", "")
		if !strings.HasPrefix(c.LoCidr, "127.") {
			c.LoCidr = "127.0.0.1/32"
		}
	}
	a.IPv6 = b.IPv6
	prior := wire.Pick(r, []string{"clean", "same", "same", "other", "superset", "subset"})
	extra := func(c rawCfg) rawCfg { // the same chains, a few more rules in them
		c.OutPortsExclude = strings.TrimPrefix(c.OutPortsExclude+",4444", ",")
		c.OutExclude = strings.TrimPrefix(c.OutExclude+",203.0.113.0/24", ",")
		return c
	}
	switch prior {
	case "superset":
		a = extra(b)
	case "subset":
		a, b = b, extra(b)
	}
	reconcile, cleanup, force := r.Chance(1, 2), r.Chance(1, 4), r.Chance(1, 6)
	v6 := "ok"
	switch r.Intn(12) {
	case 0, 1:
		v6 = "fail" // ip6tables cannot be detected
	case 2:
		v6 = "v4-fail" // iptables cannot be detected
	case 3:
		v6 = "save-fail" // iptables-save fails
	}
	out.Line("case", strconv.Itoa(i), "apply")
	out.Line(a.tokens()...)
	out.Line(b.tokens()...)
	out.Line("apply", prior, wire.B(r.Chance(1, 2)), wire.B(reconcile), wire.B(cleanup), wire.B(force), v6)
}

func install(s *simDeps, foreign bool, c compiled) error {
	if foreign {
		if err := s.v4.restore(foreignRules, true); err != nil {
			return err
		}
		if err := s.v6.restore(foreignRules[:4], true); err != nil {
			return err
		}
		s.v6.restore([]string{"COMMIT"}, true)
	}
	if err := s.v4.restore(c.v4, true); err != nil {
		return err
	}
	return s.v6.restore(c.v6, true)
}

func (s *simDeps) canon() string { return "v4:\n" + s.v4.canon() + "\nv6:\n" + s.v6.canon() }

// applyCase evaluates the clauses on one case; "" = OK.
func applyCase(a, b rawCfg, t []string) string {
	if len(t) != 7 {
		return ""
	}
	prior, foreign, reconcile, cleanup, force, v6fail := t[1], t[2] == "1", t[3] == "1", t[4] == "1", t[5] == "1", t[6] == "fail"
	v4fail, savefail := t[6] == "v4-fail", t[6] == "save-fail"
	drifted := prior == "other" || prior == "superset" || prior == "subset"
	ca, cb := runReal(a), runReal(b)
	if ca.status != "ok" || cb.status != "ok" {
		return ""
	}
	sim, want, base := newSim(), newSim(), newSim()
	_ = install(base, foreign, compiled{})
	if err := install(want, foreign, cb); err != nil {
		return "FAIL apply:own-restore-text-rejected " + strings.ReplaceAll(err.Error(), " ", "_")
	}
	switch prior {
	case "same":
		_ = install(sim, foreign, cb)
	case "other", "superset", "subset":
		_ = install(sim, foreign, ca)
	default:
		_ = install(sim, foreign, compiled{})
	}
	before := sim.canon()
	sim.failV6, sim.failV4, sim.failIO = v6fail, v4fail, savefail
	cfg := b.config()
	cfg.Reconcile, cfg.CleanupOnly, cfg.ForceApply = reconcile, cleanup, force
	ipt, err := capture.NewIptablesConfigurator(cfg, sim)
	// ip6tables detection failure: fatal exactly when IPv6 is enabled
	if v6fail {
		if (err != nil) != b.IPv6 {
			return fmt.Sprintf("FAIL apply:ip6tables-detection-failure-handling ipv6=%v error=%v", b.IPv6, err != nil)
		}
		if err != nil {
			return ""
		}
	} else if v4fail {
		if err == nil {
			return "FAIL apply:iptables-detection-failure-ignored"
		}
		return ""
	} else if err != nil {
		return "FAIL apply:configurator-refused"
	}
	runErr := ipt.Run()
	after := sim.canon()
	left := capture.HasIstioLeftovers(builder.NewIptablesRuleBuilder(nil).GetStateFromSave(sim.v4.save()))
	for k, v := range capture.HasIstioLeftovers(builder.NewIptablesRuleBuilder(nil).GetStateFromSave(sim.v6.save())) {
		left["v6:"+k] = v
	}
	det := func(s string) string { return strings.ReplaceAll(strings.ReplaceAll(s, " ", "_"), "\n", "|") }
	class := fmt.Sprintf("prior=%s reconcile=%v cleanup=%v force=%v", prior, reconcile, cleanup, force)
	// foreign rules are never touched
	for _, l := range strings.Split(base.canon(), "\n") {
		if strings.Contains(l, ": ") && !strings.HasSuffix(l, ": ") && !strings.Contains(after, l) {
			// a builtin chain line of `base` may have grown; compare the foreign rules themselves
			for _, r := range strings.Split(strings.SplitN(l, ": ", 2)[1], " ; ") {
				if !strings.Contains(after, r) {
					return "FAIL apply:foreign-rule-lost " + class + " rule=" + det(r)
				}
			}
		}
	}
	// guardrails never survive
	if strings.Contains(after, "filter/INPUT: -p udp -j DROP") || strings.Contains(after, "-p tcp -j DROP ;") ||
		strings.Contains(after, "filter/FORWARD") || strings.Contains(after, "filter/OUTPUT: -p") {
		return "FAIL apply:guardrails-left " + class
	}
	if savefail {
		// iptables-save cannot be read: the state is assumed clean, the rules are applied
		if !cleanup && prior == "clean" {
			if runErr != nil || after != want.canon() {
				return "FAIL apply:save-failure-not-treated-as-clean-state " + class
			}
		}
		return ""
	}
	// drift detection (VerifyIptablesState): when the tables hold something else than what this configuration
	// installs, the run must notice - it issues a restore or cleanup commands, never "nothing to do"
	if drifted && !cleanup && before != want.canon() {
		acted := sim.restores > 0
		for _, c := range sim.cmds {
			if strings.Contains(c, " -F ") || strings.Contains(c, " -X ") || strings.Contains(c, " -D ") {
				acted = true
			}
		}
		if !acted {
			return "FAIL apply:drift-not-detected " + class
		}
	}
	switch {
	case cleanup:
		if sim.restores != 0 {
			return "FAIL apply:cleanup-only-applied-rules " + class
		}
		if !drifted {
			if runErr != nil {
				return "FAIL apply:cleanup-only-error " + class
			}
			if after != base.canon() {
				return "FAIL apply:cleanup-only-leftovers " + class + " state=" + det(after)
			}
			if len(left) != 0 {
				return "FAIL apply:HasIstioLeftovers-after-cleanup " + class
			}
		}
	case prior == "clean", prior == "same" && !force:
		if runErr != nil {
			return "FAIL apply:error " + class + " err=" + det(runErr.Error())
		}
		if after != want.canon() {
			return "FAIL apply:final-state " + class
		}
		if prior == "same" && !reconcile && sim.restores != 0 {
			return "FAIL apply:not-idempotent(restore-issued-on-identical-state) " + class
		}
		if len(left) == 0 {
			return "FAIL apply:HasIstioLeftovers-blind " + class
		}
	case drifted && reconcile && !force:
		_ = before
		// Recorded, not a clause (outside the property: how rules are applied over another configuration's
		// residue): cleanup is built from the NEW configuration's rules, so chains only the old one had survive,
		// and the following restore can fail on `-N` of a chain that could not be removed.
		if runErr != nil {
			return "OBS apply:reconcile-across-configurations-fails " + class
		}
		if after != want.canon() {
			return "OBS apply:reconcile-across-configurations-leaves-residue " + class
		}
	}
	return ""
}
