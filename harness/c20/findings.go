package main

import (
	"net/netip"
	"strconv"
	"strings"

	"verifharness/internal/wire"
)

// findings re-checks, on the real compiler's output, the recorded observations that touch a clause of
// the property on configurations a user can set (notes/C20.md). One line each:
// <fingerprint> REPRODUCED|GONE <detail>.
func findings(path string) {
	out := wire.Create(path)
	defer out.Close()
	pk := func(dst string, dport uint64) packet {
		return packet{hook: "PREROUTING", proto: "tcp", src: netip.MustParseAddr("192.168.7.7"), dst: netip.MustParseAddr(dst),
			sport: 40000, dport: dport, inIf: "eth1", ctstate: "NEW"}
	}
	line := func(name string, ok bool, detail string) {
		st := "GONE"
		if ok {
			st = "REPRODUCED"
		}
		out.Line(name, st, detail)
	}
	c := defaultRaw()
	c.KubeVirt, c.OutInclude, c.OutExclude, c.OutPortsExclude, c.InboundInclude = "eth1", "*", "10.0.0.0/8", "3306", "*"
	res := runReal(c)
	if res.status == "ok" {
		l := loadRuleset(res)
		a := l.fate(pk("10.9.9.9", 80))  // destination in OUTBOUND_IP_RANGES_EXCLUDE
		b := l.fate(pk("8.8.8.8", 3306)) // port in OUTBOUND_PORTS_EXCLUDE
		d := l.fate(pk("127.0.0.1", 80)) // loopback destination
		line("c20:kubevirt-ignores-outbound-exclusions", a.redirect == 15001 && b.redirect == 15001 && d.redirect == 15001,
			"traffic_entering_on_a_KUBE_VIRT_INTERFACES_interface_is_redirected_to_the_outbound_port_although_its_destination_range/port_is_excluded_or_loopback")
	}
	// the proxy's own delivery (TPROXY mode: uid 0 / gid 1337, original source, mark 1337) looped back
	dl := func(dport uint64) packet {
		return packet{hook: "OUTPUT", proto: "tcp", src: netip.MustParseAddr("8.8.8.8"), dst: netip.MustParseAddr("10.1.2.3"),
			sport: 40000, dport: dport, outIf: "lo", uid: "0", gid: "1337", ctstate: "NEW", mark: 1337}
	}
	d := defaultRaw()
	d.Mode, d.InboundInclude, d.OutInclude, d.RedirectDNS, d.CaptureAllDNS = "TPROXY", "*", "*", true, true
	if res := runReal(d); res.status == "ok" {
		l := loadRuleset(res)
		a, b := l.fate(dl(53)), l.fate(dl(8080))
		line("c20:gid-dns53-delivery-loop", a.redirect == 15006 && b.redirect < 0,
			"TPROXY_mode+DNS_capture:_the_proxy's_own_delivery_(uid_0,_gid_1337,_mark_1337,_lo)_to_podIP:53/tcp_is_redirected_back_to_its_inbound_port_15006_by_the_GID_block_(which_lacks_the_port-53_exemption_of_the_UID_block)")
	}
	d = defaultRaw()
	d.Mode, d.InboundInclude, d.OutInclude = "TPROXY", "*", "127.1.2.3/32,10.0.0.0/8"
	if res := runReal(d); res.status == "ok" {
		l := loadRuleset(res)
		a := l.fate(dl(8080))
		line("c20:loopback-included-delivery-loop", a.redirect == 15006,
			"TPROXY_mode+a_loopback_range_in_OUTBOUND_IP_RANGES_INCLUDE:_no_bypass_rules_are_emitted_and_every_delivery_of_the_uid-0/gid-1337_proxy_on_lo_is_redirected_back_to_15006")
	}
	c.Mode = "TPROXY"
	res = runReal(c)
	if res.status == "ok" {
		l := loadRuleset(res)
		a := l.fate(pk("8.8.8.8", 80))
		line("c20:kubevirt-tproxy-double-capture", a.redirect == 15001 && a.tproxy == 15006,
			"in_TPROXY_mode_the_same_packet_is_handed_to_TPROXY_(15006)_in_mangle_and_redirected_(15001)_in_nat")
	}
	// Validate admits 64 owner groups; from 50 on the one rule listing them is longer than iptables-restore's parser
	// holds (254 arguments, 5 words per group + 4, + 3 of its own) and the real tool refuses the whole input
	g := defaultRaw()
	var groups []string
	for i := 0; i < 50; i++ {
		groups = append(groups, strconv.Itoa(2000+i))
	}
	g.OwnerGroupsInclude = strings.Join(groups, ",")
	if res := runReal(g); res.status == "ok" {
		long := 0
		for _, l := range res.v4 {
			if n := len(strings.Fields(l)); n > long {
				long = n
			}
		}
		line("c20:owner-groups-over-argc-limit", long > 251,
			"50_owner_groups_pass_Validate_(limit_64)_and_give_one_rule_of_"+strconv.Itoa(long)+"_words;_iptables-restore_holds_251_and_refuses_the_input")
	} else {
		line("c20:owner-groups-over-argc-limit", false, "50_owner_groups:_"+res.status)
	}
	// CleanupOnly leaves a chain that is only a jump target: no proxy identity, DNS capture with IPv4 servers only,
	// IPv6 on - the IPv6 raw table declares ISTIO_OUTPUT_DNS / ISTIO_PRERT_DNS without a rule in them
	k := defaultRaw()
	k.ProxyUID, k.ProxyGID, k.RedirectDNS, k.DNSV4, k.IPv6 = ",", ",", true, []string{"10.96.0.10"}, true
	v := applyCase(k, k, []string{"apply", "same", "0", "0", "1", "0", "ok"})
	line("c20:cleanup-leaves-jump-target-only-chain", strings.HasPrefix(v, "KNOWN c20:cleanup-leaves-jump-target-only-chain"),
		"CleanupOnly_over_its_own_rules:_"+strings.ReplaceAll(v, " ", "_"))
}
