package main

import (
	"fmt"
	"hash/fnv"
	"net/netip"
	"os"
	"sort"
	"strconv"
	"strings"

	"istio.io/istio/tools/common/config"
	"verifharness/internal/wire"
)

// loaded = the two rule sets the real compiler produced, as the reference interpreter sees them.
type loaded struct{ v4, v6 *ruleset }

func loadRuleset(c compiled) *loaded {
	return &loaded{v4: loadText(c.v4, false), v6: loadText(c.v6, true)}
}

// p <hook> <4|6> <proto> <src> <dst> <sport> <dport> <inIf> <outIf> <uid> <gid> <ctstate> <mark> <connmark>
func packetFromTokens(t []string) (packet, bool) {
	if len(t) != 15 || t[0] != "p" {
		return packet{}, false
	}
	p := packet{hook: "OUTPUT", v6: t[2] == "6", proto: t[3], inIf: wire.Dec(t[8]), outIf: wire.Dec(t[9]),
		uid: wire.Dec(t[10]), gid: wire.Dec(t[11]), ctstate: t[12]}
	if t[1] == "P" {
		p.hook = "PREROUTING"
	}
	var err [6]error
	p.src, err[0] = netip.ParseAddr(t[4])
	p.dst, err[1] = netip.ParseAddr(t[5])
	p.sport, err[2] = strconv.ParseUint(t[6], 10, 16)
	p.dport, err[3] = strconv.ParseUint(t[7], 10, 16)
	p.mark, err[4] = strconv.ParseUint(t[13], 10, 32)
	p.connmark, err[5] = strconv.ParseUint(t[14], 10, 32)
	for _, e := range err {
		if e != nil {
			return packet{}, false
		}
	}
	if p.src.Is6() != p.v6 || p.dst.Is6() != p.v6 {
		return packet{}, false
	}
	return p, true
}

func (p packet) tokens() []string {
	h, v := "O", "4"
	if p.hook == "PREROUTING" {
		h = "P"
	}
	if p.v6 {
		v = "6"
	}
	return []string{"p", h, v, p.proto, p.src.String(), p.dst.String(), strconv.FormatUint(p.sport, 10), strconv.FormatUint(p.dport, 10),
		wire.Enc(p.inIf), wire.Enc(p.outIf), wire.Enc(p.uid), wire.Enc(p.gid), p.ctstate,
		strconv.FormatUint(p.mark, 10), strconv.FormatUint(p.connmark, 10)}
}

func (l *loaded) fate(p packet) fate {
	if p.v6 {
		return l.v6.traverse(p)
	}
	return l.v4.traverse(p)
}

func execPacket(l *loaded, c rawCfg, t []string) string {
	p, ok := packetFromTokens(t)
	if !ok {
		return "bad-op"
	}
	return l.fate(p).String()
}

// ---------------------------------------------------------------- boundary packets

func addrAdd(a netip.Addr, up bool) netip.Addr {
	if up {
		return a.Next()
	}
	return a.Prev()
}

// prefixEdges: first and last address of the range and their outer neighbours.
func prefixEdges(s string) []netip.Addr {
	p, err := netip.ParsePrefix(s)
	if err != nil {
		return nil
	}
	first := p.Masked().Addr()
	// last address: set all host bits
	b := first.AsSlice()
	for i := p.Bits(); i < len(b)*8; i++ {
		b[i/8] |= 1 << (7 - i%8)
	}
	last, _ := netip.AddrFromSlice(b)
	out := []netip.Addr{first, last, p.Addr()}
	for _, a := range []netip.Addr{addrAdd(first, false), addrAdd(last, true)} {
		if a.IsValid() {
			out = append(out, a)
		}
	}
	return out
}

type candidates struct {
	dst4, dst6, src4, src6    []netip.Addr
	ports                     []uint64
	uids, gids, outIfs, inIfs []string
	marks                     []uint64
}

func mustAddrs(ss ...string) []netip.Addr {
	var out []netip.Addr
	for _, s := range ss {
		out = append(out, netip.MustParseAddr(s))
	}
	return out
}

func boundary(c rawCfg) candidates {
	var k candidates
	k.dst4 = mustAddrs("127.0.0.1", "127.0.0.6", "127.1.2.3", "10.1.2.3", "8.8.8.8", "127.0.0.53", "126.255.255.255", "128.0.0.0", "127.0.0.0", "127.0.0.2")
	k.dst6 = mustAddrs("::1", "::6", "::2", "2001:db8::1", "fd00::a", "::", "2001:db8:1::5")
	k.src4 = mustAddrs("10.1.2.3", "127.0.0.6", "127.0.0.1", "127.0.0.7", "8.8.8.8")
	k.src6 = mustAddrs("2001:db8::1", "::6", "::1", "::7")
	for _, l := range []string{c.OutInclude, c.OutExclude, c.LoCidr} {
		for _, s := range config.Split(l) {
			for _, a := range prefixEdges(s) {
				if a.Is4() {
					k.dst4 = append(k.dst4, a)
				} else {
					k.dst6 = append(k.dst6, a)
				}
			}
		}
	}
	for _, s := range c.DNSV4 {
		if a, err := netip.ParseAddr(s); err == nil {
			k.dst4 = append(k.dst4, a, a.Next())
			k.src4 = append(k.src4, a)
		}
	}
	for _, s := range c.DNSV6 {
		if a, err := netip.ParseAddr(s); err == nil {
			k.dst6 = append(k.dst6, a, a.Next())
			k.src6 = append(k.src6, a)
		}
	}
	k.ports = []uint64{80, 53, 54, 52, 15053}
	for _, l := range []string{c.InboundInclude, c.InboundExclude, c.OutPortsInclude, c.OutPortsExclude, c.ProxyPort, c.InboundCapturePort, c.InboundTunnelPort} {
		for _, s := range config.Split(l) {
			if n, err := strconv.ParseUint(s, 10, 16); err == nil {
				k.ports = append(k.ports, n)
				if n > 0 {
					k.ports = append(k.ports, n-1)
				}
				if n < 65535 {
					k.ports = append(k.ports, n+1)
				}
			}
		}
	}
	k.uids = append([]string{"5000", "1337"}, config.Split(c.ProxyUID)...)
	k.gids = append([]string{"5000", "1337"}, config.Split(c.ProxyGID)...)
	k.gids = append(k.gids, config.Split(c.OwnerGroupsInclude)...)
	k.gids = append(k.gids, config.Split(c.OwnerGroupsExclude)...)
	k.uids = append(k.uids, config.Split(c.ProxyGID)...) // a uid equal to a proxy gid is not proxy-owned
	k.gids = append(k.gids, config.Split(c.ProxyUID)...)
	k.outIfs = append([]string{"lo", "eth0", "lo", "eth0", "lo0"}, config.Split(c.ExclIfs)...)
	k.inIfs = append([]string{"eth0", "lo", "eth0", "eth2"}, config.Split(c.ExclIfs)...)
	k.inIfs = append(k.inIfs, config.Split(c.KubeVirt)...)
	k.outIfs = append(k.outIfs, config.Split(c.KubeVirt)...)
	k.marks = []uint64{0, 0, 0, 1337, 1338, 1}
	if n, err := strconv.ParseUint(c.TProxyMark, 10, 32); err == nil {
		k.marks = append(k.marks, n)
	}
	var gs []string
	for _, g := range k.gids {
		if g != "*" {
			gs = append(gs, g)
		}
	}
	k.gids = gs
	return k
}

func drawPacket(r *wire.Rng, c rawCfg, k candidates) packet {
	p := packet{hook: "OUTPUT", proto: "tcp", ctstate: "NEW"}
	if r.Chance(2, 5) {
		p.hook = "PREROUTING"
	}
	p.v6 = c.IPv6 && r.Chance(2, 5) || r.Chance(1, 25)
	switch r.Intn(10) {
	case 0, 1:
		p.proto = "udp"
	case 2:
		p.proto = "other"
	}
	if p.v6 {
		p.src, p.dst = wire.Pick(r, k.src6), wire.Pick(r, k.dst6)
	} else {
		p.src, p.dst = wire.Pick(r, k.src4), wire.Pick(r, k.dst4)
	}
	p.sport = wire.Pick(r, []uint64{40000, 53, 15053, 40000})
	p.dport = wire.Pick(r, k.ports)
	if p.hook == "OUTPUT" {
		p.outIf = wire.Pick(r, k.outIfs)
		p.uid, p.gid = wire.Pick(r, k.uids), wire.Pick(r, k.gids)
		if r.Chance(1, 2) { // an application packet
			p.uid, p.gid = "5000", wire.Pick(r, k.gids)
			if r.Chance(2, 3) {
				p.gid = "5000"
			}
		}
	} else {
		p.inIf = wire.Pick(r, k.inIfs)
	}
	if r.Chance(1, 6) {
		p.ctstate = wire.Pick(r, []string{"ESTABLISHED", "RELATED", "INVALID"})
	}
	p.mark = wire.Pick(r, k.marks)
	p.connmark = wire.Pick(r, k.marks)
	if r.Chance(1, 3) { // the plain case: unmarked new TCP through an ordinary interface
		p.proto, p.ctstate, p.mark, p.connmark = "tcp", "NEW", 0, 0
		if p.hook == "OUTPUT" {
			p.outIf = "eth0"
		} else {
			p.inIf = "eth0"
		}
	}
	return p
}

func genPackets(r *wire.Rng, c rawCfg, out *wire.Out) {
	k := boundary(c)
	for i := 0; i < 40; i++ {
		out.Line(drawPacket(r, c, k).tokens()...)
	}
}

// ---------------------------------------------------------------- oracle: the property, stated in Go on the real rules

type parsedCfg struct {
	raw                                rawCfg
	uids, gids                         []string
	lo4                                netip.Prefix
	exclIfs, kubeVirt                  []string
	outPortsExcl, outPortsIncl         []string
	inclAll                            bool
	incl, excl                         []netip.Prefix
	loopbackIncluded                   bool
	dns                                bool
	proxyPort, inboundPort, tunnelPort string
	ogAll                              bool
	ogIncl, ogExcl                     []string
}

func has(l []string, s string) bool {
	for _, x := range l {
		if x == s {
			return true
		}
	}
	return false
}

func parseForOracle(c rawCfg) parsedCfg {
	q := parsedCfg{raw: c, uids: config.Split(c.ProxyUID), gids: config.Split(c.ProxyGID),
		exclIfs: config.Split(c.ExclIfs), kubeVirt: config.Split(c.KubeVirt),
		outPortsExcl: config.Split(c.OutPortsExclude), outPortsIncl: config.Split(c.OutPortsInclude),
		inclAll: c.OutInclude == "*", proxyPort: c.ProxyPort, inboundPort: c.InboundCapturePort, tunnelPort: c.InboundTunnelPort,
		ogAll: c.OwnerGroupsInclude == "*", ogIncl: config.Split(c.OwnerGroupsInclude), ogExcl: config.Split(c.OwnerGroupsExclude)}
	q.lo4, _ = netip.ParsePrefix(c.LoCidr)
	if !q.inclAll {
		for _, s := range config.Split(c.OutInclude) {
			if p, err := netip.ParsePrefix(s); err == nil {
				q.incl = append(q.incl, p)
				// "loopback explicitly included": the range is WRITTEN with a loopback address (127.x.y.z/n, ::1/n,
				// ::ffff:127.x.y.z/n), whatever its length - stated by containment in the loopback networks
				a := p.Addr()
				if a.Is4In6() {
					a = a.Unmap()
				}
				if netip.MustParsePrefix("127.0.0.0/8").Contains(a) || a == netip.MustParseAddr("::1") {
					q.loopbackIncluded = true
				}
			}
		}
	}
	for _, s := range config.Split(c.OutExclude) {
		if p, err := netip.ParsePrefix(s); err == nil {
			q.excl = append(q.excl, p)
		}
	}
	q.dns = c.RedirectDNS && (c.CaptureAllDNS || len(c.DNSV4) > 0 || len(c.DNSV6) > 0)
	return q
}

func inAny(l []netip.Prefix, a netip.Addr) bool {
	for _, p := range l {
		if p.Addr().Is4() == a.Is4() && p.Contains(a) {
			return true
		}
	}
	return false
}

// checkPacket evaluates the clauses of the property statement on one (configuration, packet, fate).
// It returns "" or the name of the violated clause.
// stats: how often each clause's antecedent held (written next to the verdicts as <out>.stats)
var stats = map[string]int{}

func hit(k string) { stats[k]++ }

func checkPacket(q parsedCfg, p packet, f fate) string {
	if f.err != "" {
		return "interpreter:" + f.err
	}
	if f.loop {
		return "chain-loop"
	}
	port := func(n int64) string {
		if n < 0 {
			return ""
		}
		return strconv.FormatInt(n, 10)
	}
	red := port(f.redirect)
	lo := netip.MustParsePrefix("::1/128")
	if !p.v6 {
		lo = q.lo4
	}
	loopDst := lo.Contains(p.dst)
	if p.v6 && !q.raw.IPv6 {
		if red != "" || f.tproxy >= 0 || f.dropped || f.zone != 0 {
			return "v6-disabled"
		}
		return ""
	}
	if z := checkZones(q, p, f); z != "" {
		return z
	}
	dnsPort := q.dns && p.dport == 53
	switch p.hook {
	case "OUTPUT":
		if f.dropped || f.tproxy >= 0 {
			return "outbound-dropped"
		}
		proxy := has(q.uids, p.uid) || has(q.gids, p.gid)
		if q.dns && has(q.uids, p.uid) && p.proto == "tcp" && p.dport == 53 && red != "" {
			// with DNS capture the agent's own TCP DNS (proxy UID) is never redirected, not even to the inbound port
			return "dns_proxy_uid_port53"
		}
		if proxy {
			hit("no_loop.proxy-owned-packets")
			// no_loop: the proxy's own traffic never goes to the outbound port; the only redirect it may
			// take is the call-to-self on lo to a non-loopback address, to the inbound port
			if red != "" && !(red == q.inboundPort && p.outIf == "lo" && !loopDst && p.proto == "tcp") {
				return "no_loop"
			}
			// the call-to-self never takes the tunnel port (HBONE traffic to the pod's own 15008 goes straight to
			// the proxy's tunnel listener), and - for a proxy UID under DNS capture - never port 53
			if red != "" && strconv.FormatUint(p.dport, 10) == q.tunnelPort {
				return "self_call_tunnel_port_exempt"
			}
			// no_loop, narrowed: that redirect is never taken by the proxy's own deliveries - packets from the
			// passthrough source 127.0.0.6 / ::6, and packets owned by a LATER identity only (the TPROXY-mode proxy
			// runs as uid 0 / gid <proxy gid>; its deliveries carry the original source and mark 1337).
			// Two recorded corners remain (reported separately by `c20 finding`, see notes/C20.md):
			// DNS capture with TCP port 53, and an explicitly included loopback range.
			if red != "" {
				pass6 := netip.MustParseAddr("127.0.0.6")
				if p.v6 {
					pass6 = netip.MustParseAddr("::6")
				}
				if p.src == pass6 {
					return "delivery_loop:passthrough-source"
				}
				first := ""
				ownsFirst := false
				if len(q.uids) > 0 {
					first, ownsFirst = "uid", p.uid == q.uids[0]
				} else if len(q.gids) > 0 {
					first, ownsFirst = "gid", p.gid == q.gids[0]
				}
				cornerDNS := q.dns && p.dport == 53
				if first != "" && !ownsFirst && (cornerDNS || q.loopbackIncluded) {
					hit("delivery_loop.excluded-known-corner")
				}
				if ownsFirst {
					hit("no_loop.self-call-of-first-identity")
				}
				if first != "" && !ownsFirst && !cornerDNS && !q.loopbackIncluded {
					return "delivery_loop:later-identity"
				}
			}
			return ""
		}
		if !natState(p.ctstate) {
			if red != "" {
				return "nat-non-new"
			}
			return ""
		}
		identity := len(q.uids)+len(q.gids) > 0
		// loopback_alone
		if p.outIf == "lo" && identity && !q.loopbackIncluded && !(q.dns && !(p.proto == "tcp" && p.dport != 53)) {
			hit("loopback_alone.antecedent")
			if red != "" {
				return "loopback_alone"
			}
			return ""
		}
		og := has(q.ogIncl, p.gid)
		if q.ogAll {
			og = !has(q.ogExcl, p.gid)
		}
		src6 := netip.MustParseAddr("127.0.0.6")
		if p.v6 {
			src6 = netip.MustParseAddr("::6")
		}
		tcpudp := p.proto == "tcp" || p.proto == "udp"
		reaches := !has(q.exclIfs, p.outIf) && !(tcpudp && has(q.outPortsExcl, strconv.FormatUint(p.dport, 10))) &&
			!(p.outIf == "lo" && p.src == src6) &&
			!(p.outIf == "lo" && identity && !q.loopbackIncluded && (!q.dns || (p.proto == "tcp" && p.dport != 53))) && og
		// DNS capture: port 53 over TCP/UDP to a captured resolver goes to the agent
		if dnsPort && tcpudp {
			hit("dns_exact.port53-packets")
			servers := q.raw.DNSV4
			if p.v6 {
				servers = q.raw.DNSV6
			}
			if reaches && (q.raw.CaptureAllDNS || has(servers, p.dst.String())) {
				if red != "15053" {
					return "dns_exact"
				}
				return ""
			}
		}
		if p.proto != "tcp" {
			if red != "" {
				return "outbound_non_tcp"
			}
			return ""
		}
		want := reaches && !loopDst && !inAny(q.excl, p.dst) &&
			(has(q.outPortsIncl, strconv.FormatUint(p.dport, 10)) || q.inclAll || inAny(q.incl, p.dst))
		hit("outbound_exact.app-tcp-packets")
		if want {
			hit("outbound_exact.expected-captured")
		}
		if want != (red == q.proxyPort) || (!want && red != "") {
			return "outbound_exact"
		}
	case "PREROUTING":
		// traffic on lo (the proxy delivering to the application, the application talking to itself) comes
		// back in at PREROUTING: it must never be redirected there (never loop across hooks)
		if p.inIf == "lo" {
			hit("lo_reentry.packets")
		}
		if p.inIf == "lo" && red != "" {
			return "lo_reentry_redirected"
		}
		if p.inIf == "lo" && q.raw.Mode != "TPROXY" {
			if f.tproxy >= 0 || (f.dropped && !(q.raw.DropInvalid && p.ctstate == "INVALID")) {
				return "lo_reentry_captured"
			}
			return ""
		}
		if has(q.kubeVirt, p.inIf) && p.inIf != "lo" {
			// KUBE_VIRT_INTERFACES (outside the property's grammar): treated as outbound, by included ranges only
			if !natState(p.ctstate) {
				if red != "" {
					return "nat-non-new"
				}
				return ""
			}
			want := p.proto == "tcp" && (q.inclAll || inAny(q.incl, p.dst))
			if want != (red == q.proxyPort) || (!want && red != "") {
				return "kube_virt_exact"
			}
			return ""
		}
		if q.raw.Mode == "TPROXY" {
			hit("tproxy_inbound.packets")
			return checkTproxyInbound(q, p, f, loopDst)
		}
		hit("inbound_exact.packets")
		if f.tproxy >= 0 {
			return "inbound_tproxy_in_redirect_mode"
		}
		if f.dropped {
			if q.raw.DropInvalid && p.ctstate == "INVALID" {
				return ""
			}
			return "inbound_dropped"
		}
		if !natState(p.ctstate) {
			if red != "" {
				return "nat-non-new"
			}
			return ""
		}
		d := strconv.FormatUint(p.dport, 10)
		sel := false
		switch {
		case q.raw.InboundInclude == "":
		case q.raw.InboundInclude == "*":
			sel = !has(config.Split(q.raw.InboundExclude), d)
		default:
			sel = has(config.Split(q.raw.InboundInclude), d)
		}
		want := p.proto == "tcp" && !has(q.exclIfs, p.inIf) && d != q.tunnelPort && sel
		if want != (red == q.inboundPort) || (!want && red != "") {
			return "inbound_exact"
		}
	}
	return ""
}

var addrPairs = [][2]string{
	{"8.8.8.8", "2001:4860:4860::8888"}, {"127.0.0.1", "::1"}, {"10.1.2.3", "2001:db8::3"}, {"127.0.0.6", "::6"},
	{"192.168.7.7", "fd00::7"}, {"127.0.0.53", "fd00::a"},
}

func pairedClause(cfgTokens []string, c rawCfg, q parsedCfg, rs *loaded) string {
	h := fnv.New64a()
	h.Write([]byte("pair " + strings.Join(cfgTokens, " ")))
	r := wire.NewRng(h.Sum64())
	k := boundary(c)
	lo6 := netip.MustParsePrefix("::1/128")
	class := func(a netip.Addr) [4]bool {
		lo := lo6.Contains(a)
		if a.Is4() {
			lo = q.lo4.Contains(a)
		}
		servers := c.DNSV6
		if a.Is4() {
			servers = c.DNSV4
		}
		return [4]bool{lo, inAny(q.excl, a), q.inclAll || inAny(q.incl, a), has(servers, a.String())}
	}
	for i := 0; i < 16; i++ {
		p4 := drawPacket(r, c, k)
		sp, dp := wire.Pick(r, addrPairs), wire.Pick(r, addrPairs)
		p4.v6, p4.src, p4.dst = false, netip.MustParseAddr(sp[0]), netip.MustParseAddr(dp[0])
		p6 := p4
		p6.v6, p6.src, p6.dst = true, netip.MustParseAddr(sp[1]), netip.MustParseAddr(dp[1])
		// the embedding must hold for this configuration: same classification of both addresses
		if class(p4.dst) != class(p6.dst) || (sp[0] == "127.0.0.6") != (sp[1] == "::6") {
			hit("v4_v6_paired.skipped-classification-differs")
			continue
		}
		hit("v4_v6_paired.compared")
		f4, f6 := rs.fate(p4), rs.fate(p6)
		if f4.String() != f6.String() {
			return fmt.Sprintf("FAIL v4_v6_same_policy:paired packet=%s fate=%s packet6=%s fate6=%s", strings.Join(p4.tokens(), "_"),
				strings.ReplaceAll(f4.String(), " ", "_"), strings.Join(p6.tokens(), "_"), strings.ReplaceAll(f6.String(), " ", "_"))
		}
	}
	return ""
}

// checkTproxyInbound: the inbound clauses in TPROXY mode (mangle table).
// checkZones: the conntrack zones of DNS capture (addDNSConntrackZones), stated from the documented intent -
// "traffic that goes from istio to DNS servers and vice versa is zone 1, traffic from DNS client to istio and
// vice versa is zone 2" - so that a captured UDP query and the agent's answer to it meet in one zone, the
// agent's upstream query and the resolver's answer in the other, and nothing else is moved out of the default zone.
func checkZones(q parsedCfg, p packet, f fate) string {
	want := uint64(0)
	server := func(a netip.Addr) bool {
		if q.raw.CaptureAllDNS {
			return true
		}
		l := q.raw.DNSV4
		if p.v6 {
			l = q.raw.DNSV6
		}
		for _, s := range l {
			if x, err := netip.ParseAddr(s); err == nil && x == a {
				return true
			}
		}
		return false
	}
	if q.dns && p.proto == "udp" {
		switch {
		case p.hook == "OUTPUT" && (has(q.uids, p.uid) || has(q.gids, p.gid)):
			if p.dport == 53 {
				want = 1 // the agent asks an upstream resolver
			} else if p.sport == 15053 {
				want = 2 // the agent answers an application
			}
		case p.hook == "OUTPUT":
			if p.dport == 53 && server(p.dst) {
				want = 2 // an application asks a captured resolver
			}
		case p.hook == "PREROUTING":
			if p.sport == 53 && server(p.src) {
				want = 1 // a resolver answers the agent
			}
		}
	}
	if want != 0 {
		hit("dns_zones.zone-" + strconv.FormatUint(want, 10))
	}
	if f.zone != want {
		return "dns_conntrack_zone:want-" + strconv.FormatUint(want, 10) + "-got-" + strconv.FormatUint(f.zone, 10)
	}
	// a UDP query handed to the agent must sit in the zone the agent's answers are put into
	if p.proto == "udp" && f.redirect == 15053 && f.zone != 2 {
		return "dns_conntrack_zone:captured-query-outside-zone-2"
	}
	return ""
}

func checkTproxyInbound(q parsedCfg, p packet, f fate, loopDst bool) string {
	if f.dropped {
		if q.raw.DropInvalid && p.ctstate == "INVALID" {
			return ""
		}
		return "inbound_dropped"
	}
	if f.redirect >= 0 {
		return "tproxy_mode_nat_redirect"
	}
	tmark, _ := strconv.ParseUint(q.raw.TProxyMark, 10, 32)
	src6 := netip.MustParseAddr("127.0.0.6")
	if p.v6 {
		src6 = netip.MustParseAddr("::6")
	}
	captured := f.tproxy >= 0 || (f.mark == tmark && p.mark != tmark) // TPROXY'd or diverted
	// "prevent infinite redirect": a packet already carrying the TPROXY mark is never captured again
	if p.mark == tmark && f.tproxy >= 0 {
		return "tproxy_no_reloop"
	}
	// traffic the proxy itself sends over lo (from 127.0.0.6, or not marked 1338) is not captured
	if p.inIf == "lo" && (p.src == src6 || p.mark != 1338) && captured {
		return "tproxy_lo_bypass"
	}
	if p.proto != "tcp" || has(q.exclIfs, p.inIf) {
		if captured {
			return "tproxy_inbound_exact"
		}
		return ""
	}
	if p.mark == tmark || p.inIf == "lo" {
		return ""
	}
	d := strconv.FormatUint(p.dport, 10)
	sel := false
	switch {
	case q.raw.InboundInclude == "":
	case q.raw.InboundInclude == "*":
		sel = !has(config.Split(q.raw.InboundExclude), d)
	default:
		sel = has(config.Split(q.raw.InboundInclude), d)
	}
	if p.ctstate == "INVALID" && q.raw.DropInvalid {
		return ""
	}
	reply := p.ctstate == "ESTABLISHED" || p.ctstate == "RELATED"
	wantTproxy := sel && !reply && !loopDst
	wantDivert := sel && reply
	if wantTproxy != (f.tproxy >= 0 && strconv.FormatInt(f.tproxy, 10) == q.inboundPort) || (!wantTproxy && f.tproxy >= 0) {
		return "tproxy_inbound_exact"
	}
	if wantDivert != (f.tproxy < 0 && f.mark == tmark) && !wantTproxy {
		return "tproxy_divert_exact"
	}
	return ""
}

// intended: what an invocation means according to the documented contract of istio-iptables (flag help
// texts, environment-variable documentation, FillConfigFromEnvironment's comments), written independently
// of tools/common/config: defaults, proxy GID = proxy UID, owner-group / loopback variables, the pod's
// address family (first usable address; with dual stack: IPv6 as soon as a usable IPv6 address exists;
// loopback and link-local addresses are not usable), DNS servers from resolv.conf only for
// REDIRECT_DNS without CAPTURE_ALL_DNS.
func intended(e envCase) (rawCfg, bool) {
	c := e.vals
	def := func(p *string, d string) {
		if *p == "" {
			*p = d
		}
	}
	def(&c.ProxyPort, "15001")
	def(&c.InboundCapturePort, "15006")
	def(&c.InboundTunnelPort, "15008")
	def(&c.TProxyMark, "1337")
	def(&c.ProxyUID, e.host.envoyUID)
	def(&c.ProxyGID, c.ProxyUID)
	if !e.emptyEnv[envOwnerGroupsInclude] { // set to the empty string = capture no group; unset = "*"
		def(&c.OwnerGroupsInclude, "*")
	}
	def(&c.LoCidr, "127.0.0.1/32")
	if e.addrErr {
		return c, true
	}
	usable := []netip.Addr{}
	for _, s := range e.addrs {
		a, err := netip.ParseAddr(s) // "ipaddr:..." entries (not interface networks) do not parse: skipped
		if err != nil {
			continue
		}
		a = a.Unmap()
		if a.IsLoopback() || a.IsLinkLocalUnicast() || a.IsLinkLocalMulticast() {
			continue
		}
		usable = append(usable, a)
	}
	if len(usable) == 0 {
		return c, true
	}
	c.IPv6 = usable[0].Is6()
	if e.dual {
		for _, a := range usable {
			if a.Is6() {
				c.IPv6 = true
			}
		}
	}
	c.DNSV4, c.DNSV6 = nil, nil
	if c.RedirectDNS && !c.CaptureAllDNS {
		if !e.host.resolvOK { // the DNS servers cannot be learnt: the binary must refuse to go on
			return c, true
		}
		for _, s := range e.host.resolv {
			if a, err := netip.ParseAddr(s); err == nil {
				if a.Is4() {
					c.DNSV4 = append(c.DNSV4, a.String())
				} else {
					c.DNSV6 = append(c.DNSV6, a.String())
				}
			}
		}
	}
	return c, false
}

// mustRefuse: configurations the binary documents as errors (Validate; and - unless the rules are not
// applied at all - the early errors of Run), stated independently of the code.
func mustRefuse(c rawCfg, binary string, skip bool) (bool, string) {
	if c.OwnerGroupsInclude != "*" && len(config.Split(c.OwnerGroupsInclude)) > 64 {
		return true, "more-than-64-owner-groups"
	}
	if binary != "" && binary != "legacy" && binary != "nft" {
		return true, "force-iptables-binary"
	}
	lo, err := netip.ParsePrefix(c.LoCidr)
	if err != nil || !lo.Addr().Is4() || !netip.MustParsePrefix("127.0.0.0/8").Contains(lo.Addr()) || lo.Bits() < 8 {
		return true, "loopback-cidr"
	}
	if skip {
		return false, ""
	}
	if c.OutExclude == "*" {
		return true, "exclude-wildcard"
	}
	for _, l := range []string{c.OutExclude, c.OutInclude} {
		if l == "*" {
			continue
		}
		for _, s := range config.Split(l) {
			if _, err := netip.ParsePrefix(s); err != nil {
				return true, "cidr"
			}
		}
	}
	return false, ""
}

// diffRaw names the first field in which the configuration the code built differs from the intended one.
func diffRaw(want, got rawCfg) string {
	type f struct{ n, a, b string }
	j := func(l []string) string { return strings.Join(l, ",") }
	for _, x := range []f{
		{"ProxyPort", want.ProxyPort, got.ProxyPort}, {"InboundCapturePort", want.InboundCapturePort, got.InboundCapturePort},
		{"InboundTunnelPort", want.InboundTunnelPort, got.InboundTunnelPort}, {"ProxyUID", want.ProxyUID, got.ProxyUID},
		{"ProxyGID", want.ProxyGID, got.ProxyGID}, {"Mode", want.Mode, got.Mode}, {"TProxyMark", want.TProxyMark, got.TProxyMark},
		{"InboundInclude", want.InboundInclude, got.InboundInclude}, {"InboundExclude", want.InboundExclude, got.InboundExclude},
		{"OwnerGroupsInclude", want.OwnerGroupsInclude, got.OwnerGroupsInclude}, {"OwnerGroupsExclude", want.OwnerGroupsExclude, got.OwnerGroupsExclude},
		{"OutPortsInclude", want.OutPortsInclude, got.OutPortsInclude}, {"OutPortsExclude", want.OutPortsExclude, got.OutPortsExclude},
		{"OutInclude", want.OutInclude, got.OutInclude}, {"OutExclude", want.OutExclude, got.OutExclude},
		{"KubeVirt", want.KubeVirt, got.KubeVirt}, {"ExclIfs", want.ExclIfs, got.ExclIfs},
		{"RedirectDNS", wire.B(want.RedirectDNS), wire.B(got.RedirectDNS)}, {"DropInvalid", wire.B(want.DropInvalid), wire.B(got.DropInvalid)},
		{"CaptureAllDNS", wire.B(want.CaptureAllDNS), wire.B(got.CaptureAllDNS)}, {"EnableIPv6", wire.B(want.IPv6), wire.B(got.IPv6)},
		{"DNSServersV4", j(want.DNSV4), j(got.DNSV4)}, {"DNSServersV6", j(want.DNSV6), j(got.DNSV6)}, {"LoopbackCidr", want.LoCidr, got.LoCidr},
	} {
		if x.a != x.b {
			return x.n + ":want=" + wire.Enc(x.a) + ":got=" + wire.Enc(x.b)
		}
	}
	return ""
}

func oracle(stream, in, outPath string) {
	out := wire.Create(outPath)
	defer out.Close()
	var cur compiled
	var q parsedCfg
	var rs *loaded
	verdict := ""
	started := false
	known := "" // a registered known-finding class met by this case (reported only when no clause is violated)
	flush := func() {
		if started {
			switch {
			case verdict != "":
				out.Line(verdict)
			case known != "":
				out.Line(known)
			default:
				out.Line("OK")
			}
		}
		verdict, known = "", ""
	}
	var applyCfgs []rawCfg
	for _, t := range wire.ReadLines(in) {
		if stream == "apply" {
			switch t[0] {
			case "case":
				flush()
				started = true
				applyCfgs = nil
			case "cfg":
				if c, ok := rawFromTokens(t); ok {
					applyCfgs = append(applyCfgs, c)
				}
			case "apply":
				if len(applyCfgs) == 2 && verdict == "" {
					verdict = applyCase(applyCfgs[0], applyCfgs[1], t)
				}
			}
			continue
		}
		if t[0] == "cmdcfg" { // stream cmd: the real command in a child process
			e, ok := envCaseFromTokens(append([]string{"envcfg"}, t[1:]...))
			if !ok || verdict != "" {
				continue
			}
			res := runCommand(e)
			want, wantErr := intended(e)
			refuse, why := wantErr, "environment"
			if !refuse {
				refuse, why = mustRefuse(want, e.binary, e.via["skip"] != "")
			}
			switch {
			case res.exit >= 90:
				// the child could not be started / could not set its case up (after retries): a fact about the
				// machine, reported as a harness error, never as a violation
				verdict = "HARNESS command-child-exit-" + strconv.Itoa(res.exit)
			case refuse && res.exit == 0:
				verdict = "FAIL command_flow:accepted-what-must-be-refused:" + why + " via=" + e.viaToken()
			case !refuse && res.exit != 0:
				verdict = "FAIL command_flow:refused-a-valid-invocation via=" + e.viaToken()
			case res.exit == 0 && e.via["skip"] != "" && len(res.lines) != 0:
				verdict = "FAIL command_flow:skip-rule-apply-applied-rules"
			case res.exit == 0 && e.via["skip"] == "" && len(res.lines) == 0:
				verdict = "FAIL command_flow:dry-run-recorded-nothing"
			}
			continue
		}
		switch t[0] {
		case "case":
			flush()
			started = true
			cur, rs = compiled{}, nil
		case "cfg", "envcfg":
			var c rawCfg
			if t[0] == "cfg" {
				var ok bool
				if c, ok = rawFromTokens(t); !ok {
					continue
				}
				cur = runReal(c)
			} else {
				e, ok := envCaseFromTokens(t)
				if !ok {
					continue
				}
				var filled rawCfg
				cur, filled = runRealEnv(e)
				// the policy is judged against the configuration the invocation MEANS (the documented
				// contract, written down independently below), not against what the code made of it
				want, wantErr := intended(e)
				c = want
				switch {
				case wantErr && cur.status != "error:environment":
					verdict = "FAIL config_contract:no-usable-address-accepted"
				case !wantErr && cur.status == "error:environment":
					verdict = "FAIL config_contract:environment-refused"
				case !wantErr && cur.status != "crash":
					if d := diffRaw(want, filled); d != "" && verdict == "" {
						verdict = "FAIL config_contract:" + d + " via=" + e.viaToken()
					}
				}
			}
			rs = nil
			// Validate's documented limit is 64 owner groups: a list within the limit must not be refused
			if cur.status == "invalid:ownergroups" && verdict == "" {
				if n := len(config.Split(c.OwnerGroupsInclude)); c.OwnerGroupsInclude == "*" || n <= 64 {
					verdict = "FAIL owner-groups-limit:refused-within-limit " + strconv.Itoa(n) + "_groups"
				}
			}
			if cur.status == "crash" && verdict == "" {
				verdict = "FAIL crash compiler-panicked"
			}
			if cur.status == "ok" {
				rs = loadRuleset(cur)
				q = parseForOracle(c)
				if (rs.v4.err != "" || rs.v6.err != "") && verdict == "" {
					verdict = "FAIL restore-input-rejected " + strings.ReplaceAll(rs.v4.err+rs.v6.err, " ", "_")
				}
				// Validate's limit: no rule may carry more than 64 owner-group matches
				for _, l := range append(append([]string{}, cur.v4...), cur.v6...) {
					if strings.Count(l, "--gid-owner") > 64 && verdict == "" {
						verdict = "FAIL owner-groups-limit " + strconv.Itoa(strings.Count(l, "--gid-owner")) + "_matches_in_one_rule"
					}
				}
				// every line fits the restore parser (254 arguments, three of them its own: 251 words). Recorded class
				// c20:owner-groups-over-argc-limit, excluded by its cause: the one owner-group rule of 50..64 groups
				for _, l := range append(append([]string{}, cur.v4...), cur.v6...) {
					if n := len(strings.Fields(l)); n > 251 && verdict == "" {
						g := strings.Count(l, "--gid-owner")
						if g >= 50 && g <= 64 && n == 5*g+4 && strings.HasPrefix(l, "-A ISTIO_OUTPUT -m owner ! --gid-owner") {
							hit("restore_argc.excluded-known-owner-groups-line")
							known = "KNOWN c20:owner-groups-over-argc-limit " + strconv.Itoa(g) + "_groups_" + strconv.Itoa(n) + "_words_in_one_line"
						} else {
							verdict = "FAIL restore-argc-limit " + strconv.Itoa(n) + "_words_in_one_line"
						}
					}
				}
				// IPv4 and IPv6 express the same policy: the v6 rule set exists exactly when IPv6 is enabled
				if (len(cur.v6) > 0) != c.IPv6 && verdict == "" {
					verdict = fmt.Sprintf("FAIL v4_v6_same_policy:v6-rules-present=%v-but-ipv6-intended=%v", len(cur.v6) > 0, c.IPv6)
				}
				// the restore input must be applied without flushing what is already in the tables
				for _, x := range cur.cmds {
					if strings.Contains(x, "-restore") && !strings.Contains(x, "--noflush") && verdict == "" {
						verdict = "FAIL restore-flushes " + strings.ReplaceAll(x, " ", "_")
					}
				}
				// "IPv4 and IPv6 express the same policy": paired packets - the same connection attempt in both
				// families, addresses the configuration classifies alike - must meet the same fate
				if c.IPv6 && verdict == "" {
					verdict = pairedClause(t, c, q, rs)
				}
				if stream == "rules" && verdict == "" {
					// no packets in this stream: search over this configuration's boundary packets
					h := fnv.New64a()
					h.Write([]byte(strings.Join(t, " ")))
					r := wire.NewRng(h.Sum64())
					k := boundary(c)
					for i := 0; i < 80 && verdict == ""; i++ {
						p := drawPacket(r, c, k)
						f := rs.fate(p)
						if cl := checkPacket(q, p, f); cl != "" {
							verdict = fmt.Sprintf("FAIL %s packet=%s fate=%s", cl, strings.Join(p.tokens(), "_"), strings.ReplaceAll(f.String(), " ", "_"))
						}
					}
				}
			}
		case "p":
			if rs == nil || verdict != "" {
				continue
			}
			p, ok := packetFromTokens(t)
			if !ok {
				continue
			}
			f := rs.fate(p)
			if cl := checkPacket(q, p, f); cl != "" {
				verdict = fmt.Sprintf("FAIL %s packet=%s fate=%s", cl, strings.Join(t, "_"), strings.ReplaceAll(f.String(), " ", "_"))
			}
		}
	}
	flush()
	out.Flush()
	if f, err := os.Create(outPath + ".stats"); err == nil {
		keys := make([]string, 0, len(stats))
		for k := range stats {
			keys = append(keys, k)
		}
		sort.Strings(keys)
		for _, k := range keys {
			fmt.Fprintf(f, "%s %d\n", k, stats[k])
		}
		f.Close()
	}
}
