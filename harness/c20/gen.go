package main

import (
	"fmt"
	"hash/fnv"
	"strconv"
	"strings"

	"verifharness/internal/wire"
)

var (
	portPool  = []string{"80", "443", "53", "8080", "15001", "15006", "15008", "15020", "15021", "15053", "15090", "1", "65535", "3306", "9090", "22", "8443", "54"}
	listPorts = append(append([]string{}, portPool...), "0") // port lists may name port 0; the proxy's own ports never do
	idPool    = []string{"1337", "0", "1000", "3", "4", "1", "2", "istio-proxy", "1338", "65534"}
	groupPool = []string{"java", "202", "888", "ftp", "1337", "1000", "2", "0"}
	ifPool    = []string{"eth0", "eth1", "not-istio-nic", "docker0", "cni0", "lo", "net1"}
	cidr4Pool = []string{
		"10.0.0.0/8", "10.1.0.0/16", "10.1.2.0/24", "10.1.2.3/32", "172.16.0.0/12", "192.168.0.0/16",
		"0.0.0.0/0", "127.0.0.0/8", "127.1.2.3/32", "127.0.0.1/32", "1.1.0.0/16", "9.9.0.0/16", "10.1.2.3/8",
		"169.254.169.254/32", "10.96.0.0/12", "0.0.0.0/1", "128.0.0.0/1", "255.255.255.255/32", "10.1.2.2/31",
		"127.5.5.5/1", "127.0.0.1/0", "126.0.0.0/7", "127.255.255.255/9", "128.0.0.1/8",
	}
	cidr6Pool = []string{
		"2001:db8::/32", "fd00::/8", "::1/128", "::/0", "fe80::/10", "2001:db8:1::/48", "2001:db8::1/128",
		"2001:db8:0:1::/64", "::6/128", "ff00::/8", "2001:db8:a:b:c:d:e:f/128", "0:0:1::/48", "1::/16",
		"::ffff:10.0.0.0/104", "::ffff:1.2.3.4/128", "::ffff:127.0.0.1/128",
	}
	dns4Pool = []string{"127.0.0.53", "10.96.0.10", "8.8.8.8", "169.254.20.10"}
	dns6Pool = []string{"fd00::a", "2001:4860:4860::8888", "::7f00:35", "fd00:ec2::253"}
	badCidr  = []string{"10.0.0/8", "10.0.0.256/8", "10.0.0.0/33", "foo", "10.0.0.0", "2001:db8::/129", "1.2.3.4/", "/8", "10.0.0.0/08", "01.2.3.4/8", "1::2::3/64", "12345::/16"}
	loPool   = []string{"127.0.0.1/8", "127.0.0.0/8", "127.0.0.1/16", "127.0.0.0/24", "127.1.0.0/16"}
	badLo    = []string{"10.0.0.1/32", "127.0.0.1/7", "::1/128", "garbage", "127.0.0.1", "127.0.0.1/33"}
)

func pickSome(r *wire.Rng, pool []string, max int) []string {
	n := r.Intn(max + 1)
	out := make([]string, 0, n)
	for i := 0; i < n; i++ {
		out = append(out, wire.Pick(r, pool))
	}
	return out
}

// joinList renders a list the way users write it; now and then with a stray comma (config.Split
// drops empty elements).
func joinList(r *wire.Rng, l []string) string {
	s := strings.Join(l, ",")
	if len(l) > 0 && r.Chance(1, 12) {
		s += ","
	}
	if len(l) > 1 && r.Chance(1, 20) {
		s = strings.Replace(s, ",", ",,", 1)
	}
	return s
}

func randCidr4(r *wire.Rng) string {
	bits := r.Intn(33)
	a := uint32(r.Next())
	if r.Chance(2, 3) && bits < 32 { // usually a masked base address
		a &^= (uint32(1) << (32 - bits)) - 1
		if bits == 0 {
			a = 0
		}
	}
	return fmt.Sprintf("%d.%d.%d.%d/%d", a>>24, a>>16&255, a>>8&255, a&255, bits)
}

func randCidr6(r *wire.Rng) string {
	// a few groups set, the rest zero, so that `::` compression is exercised in every position
	g := make([]uint16, 8)
	for i := range g {
		if r.Chance(1, 3) {
			g[i] = uint16(r.Next())
			if r.Chance(1, 3) {
				g[i] &= 0xff
			}
		}
	}
	if g[5] == 0xffff && g[0]|g[1]|g[2]|g[3]|g[4] == 0 { // keep out of ::ffff:0:0/96 (printed in dotted form)
		g[5] = 0xfffe
	}
	parts := make([]string, 8)
	for i := range g {
		parts[i] = strconv.FormatUint(uint64(g[i]), 16)
	}
	return strings.Join(parts, ":") + "/" + strconv.Itoa(r.Intn(129))
}

func genCidrs(r *wire.Rng, v6 bool, max int) []string {
	n := r.Intn(max + 1)
	var out []string
	for i := 0; i < n; i++ {
		switch {
		case r.Chance(1, 4):
			out = append(out, randCidr4(r))
		case v6 && r.Chance(1, 4):
			out = append(out, randCidr6(r))
		case v6 && r.Chance(1, 2):
			out = append(out, wire.Pick(r, cidr6Pool))
		default:
			out = append(out, wire.Pick(r, cidr4Pool))
		}
	}
	return out
}

// genCfg draws a configuration over the property's grammar. `wide` adds the parts outside the
// IPv4/REDIRECT core (TPROXY, IPv6, DNS capture, kube-virt interfaces, malformed values).
func genCfg(r *wire.Rng, wide bool) rawCfg {
	c := defaultRaw()
	// proxy identities
	switch r.Intn(8) {
	case 0:
		c.ProxyUID, c.ProxyGID = "1337", "1337"
	case 1:
		c.ProxyUID, c.ProxyGID = joinList(r, pickSome(r, idPool, 3)), ""
	case 2:
		c.ProxyUID, c.ProxyGID = "", joinList(r, pickSome(r, idPool, 3))
	case 3:
		c.ProxyUID, c.ProxyGID = joinList(r, pickSome(r, idPool, 7)), joinList(r, pickSome(r, idPool, 5))
	default:
		c.ProxyUID, c.ProxyGID = joinList(r, pickSome(r, idPool, 3)), joinList(r, pickSome(r, idPool, 3))
	}
	if r.Chance(1, 6) {
		c.ProxyPort = wire.Pick(r, portPool)
	}
	if r.Chance(1, 6) {
		c.InboundCapturePort = wire.Pick(r, portPool)
	}
	if r.Chance(1, 6) {
		c.InboundTunnelPort = wire.Pick(r, portPool)
	}
	// inbound ports
	switch r.Intn(5) {
	case 0:
		c.InboundInclude = ""
	case 1, 2:
		c.InboundInclude = "*"
	default:
		c.InboundInclude = joinList(r, pickSome(r, listPorts, 4))
		if c.InboundInclude == "" && r.Chance(1, 2) {
			c.InboundInclude = ","
		}
	}
	if r.Chance(1, 2) {
		c.InboundExclude = joinList(r, pickSome(r, listPorts, 3))
	}
	// outbound ports
	if r.Chance(1, 3) {
		c.OutPortsInclude = joinList(r, pickSome(r, listPorts, 3))
	}
	if r.Chance(1, 2) {
		c.OutPortsExclude = joinList(r, pickSome(r, listPorts, 3))
	}
	// outbound ranges
	v6 := wide && r.Chance(1, 2)
	c.IPv6 = v6
	switch r.Intn(6) {
	case 0:
		c.OutInclude = ""
	case 1, 2, 3:
		c.OutInclude = "*"
	default:
		c.OutInclude = joinList(r, genCidrs(r, wide, 4))
	}
	if r.Chance(1, 2) {
		c.OutExclude = joinList(r, genCidrs(r, wide, 4))
	}
	// interfaces
	if r.Chance(1, 3) {
		c.ExclIfs = joinList(r, pickSome(r, ifPool, 3))
	}
	// owner groups
	switch r.Intn(10) {
	case 0, 1:
		c.OwnerGroupsInclude = joinList(r, pickSome(r, groupPool, 3))
	case 2, 3:
		c.OwnerGroupsExclude = joinList(r, pickSome(r, groupPool, 3))
	case 5: // both lists: the exclude list must be ignored unless include is "*"
		c.OwnerGroupsInclude = joinList(r, pickSome(r, groupPool, 3))
		c.OwnerGroupsExclude = joinList(r, pickSome(r, groupPool, 3))
	case 4:
		if r.Chance(1, 3) { // Validate's limit (64: accepted, 65: refused) and the restore parser's (49 groups fit a line, 50 do not)
			var g []string
			n := wire.Pick(r, []int{49, 50, 64, 65, 50 + r.Intn(15)})
			for i := 0; i < n; i++ {
				g = append(g, strconv.Itoa(2000+i))
			}
			c.OwnerGroupsInclude = strings.Join(g, ",")
		}
	}
	// loopback cidr
	if r.Chance(1, 6) {
		c.LoCidr = wire.Pick(r, loPool)
	}
	if r.Chance(1, 3) {
		c.DropInvalid = true
	}
	if wide {
		if r.Chance(1, 3) {
			c.Mode = "TPROXY"
			if r.Chance(1, 3) {
				c.TProxyMark = wire.Pick(r, []string{"1234", "1", "1338", "4294967295", "65536", "0", strconv.Itoa(1 + r.Intn(100000))})
			}
		} else if r.Chance(1, 10) {
			c.Mode = wire.Pick(r, []string{"", "tproxy", "NONE"})
		}
		if r.Chance(1, 4) {
			c.KubeVirt = joinList(r, pickSome(r, ifPool, 2))
		}
		if r.Chance(1, 3) {
			c.RedirectDNS = true
			c.CaptureAllDNS = r.Chance(1, 3)
			c.DNSV4 = pickSome(r, dns4Pool, 2)
			if v6 || r.Chance(1, 4) {
				c.DNSV6 = pickSome(r, dns6Pool, 2)
			}
		}
		if !c.RedirectDNS && r.Chance(1, 6) { // DNS flags without REDIRECT_DNS: must have no effect
			c.CaptureAllDNS = r.Chance(1, 2)
			c.DNSV4 = pickSome(r, dns4Pool, 2)
			if v6 {
				c.DNSV6 = pickSome(r, dns6Pool, 1)
			}
		}
		// malformed values
		if r.Chance(1, 40) {
			c.OutExclude = "*"
		}
		if r.Chance(1, 40) {
			c.OutExclude = joinList(r, append(genCidrs(r, true, 2), wire.Pick(r, badCidr)))
		}
		if r.Chance(1, 40) {
			c.OutInclude = joinList(r, append(genCidrs(r, true, 2), wire.Pick(r, badCidr)))
		}
		if r.Chance(1, 40) {
			c.LoCidr = wire.Pick(r, badLo)
		}
	}
	return c
}

func gen(stream string, seed uint64, n int, path string) {
	out := wire.Create(path)
	defer out.Close()
	// The root state must not be an affine function of the seed (splitmix64 advances its state by a constant:
	// `seed * constant` would make seed s+1 the same sequence shifted by one draw). Mix the seed through the
	// generator once and separate the streams by a hash of their name.
	hs := fnv.New64a()
	hs.Write([]byte(stream))
	root := wire.NewRng(wire.NewRng(seed^0x5851f42d4c957f2d).Next() ^ hs.Sum64())
	for i := 0; i < n; i++ {
		r := root.Fork()
		if stream == "apply" {
			genApply(r, i, out)
			continue
		}
		wide := stream != "rules4" && stream != "packets4" && i%3 != 0
		c := genCfg(r, wide)
		out.Line("case", strconv.Itoa(i), stream)
		if stream == "env" || stream == "cmd" {
			genEnvCase(r, c, out, stream == "cmd")
			continue
		}
		out.Line(c.tokens()...)
		switch stream {
		case "cleanup":
			out.Line("cl", "4")
			out.Line("cl", "6")
		case "rules":
			res := runReal(c)
			for k := 0; k <= len(res.v4); k++ {
				out.Line("r", "4", strconv.Itoa(k))
			}
			if c.IPv6 {
				for k := 0; k <= len(res.v6); k++ {
					out.Line("r", "6", strconv.Itoa(k))
				}
			} else {
				out.Line("r", "6", "0")
			}
		default:
			genPackets(r, c, out)
		}
	}
}

var addrPool = []string{"10.1.2.3", "2001:db8::3", "192.168.7.7", "fd00::7", "fe80::1", "169.254.10.10", "127.0.0.1", "::1",
	"ff02::1", "224.0.0.1", "ff12::5", "fe90::2", "febf::9", "fec0::1", "169.253.1.1", "224.0.1.1"}

// genEnvCase: one invocation of the binary: DefaultConfig + real flags / environment variables +
// FillConfigFromEnvironment on a host with the drawn interface addresses.
// Environment-only fields use `~` for "variable unset"; the other fields `~` for "absent".
func genEnvCase(r *wire.Rng, c rawCfg, out *wire.Out, asCommand bool) {
	e := envCase{vals: c, via: map[string]string{}}
	if r.Chance(1, 3) {
		e.vals.ProxyGID = "" // defaults to the (possibly defaulted) UID
	}
	if r.Chance(1, 3) {
		e.vals.ProxyUID = "" // defaults to ENVOY_USER's uid / 1337
		e.envoyUser = wire.Pick(r, []string{"", "", "games", "man", "no-such-user"})
	}
	for _, f := range []*string{&e.vals.ProxyPort, &e.vals.InboundCapturePort, &e.vals.InboundTunnelPort, &e.vals.TProxyMark, &e.vals.Mode} {
		if r.Chance(1, 2) {
			*f = ""
		}
	}
	if e.vals.OwnerGroupsInclude == "*" && r.Chance(1, 2) {
		e.vals.OwnerGroupsInclude = "" // unset
	}
	if e.vals.LoCidr == "127.0.0.1/32" && r.Chance(1, 2) {
		e.vals.LoCidr = ""
	}
	if r.Chance(1, 3) {
		e.vals.RedirectDNS = true
		e.vals.CaptureAllDNS = r.Chance(1, 3)
	}
	e.vals.DNSV4, e.vals.DNSV6 = nil, nil // come from /etc/resolv.conf
	// the source of each value: flag, the flag's environment variable, or the additional variable
	for _, ce := range contract {
		if _, ok := e.value(ce.field); !ok {
			continue
		}
		switch {
		case ce.alt != "" && r.Chance(1, 3):
			e.via[ce.field] = "alt"
		case ce.env != "" && r.Chance(1, 4):
			e.via[ce.field] = "env"
		case ce.short != "" && r.Chance(1, 2): // what production does
			e.via[ce.field] = "short"
		case ce.short != "" && r.Chance(1, 3): // string flags only: bool flags take no separate value
			e.via[ce.field] = "sp"
		}
	}
	// the host: interface addresses (loopback and link-local first or in between, both family orders)
	e.dual = r.Chance(1, 2)
	n := 1 + r.Intn(5)
	for i := 0; i < n; i++ {
		e.addrs = append(e.addrs, wire.Pick(r, addrPool))
	}
	if r.Chance(5, 6) { // mostly a real pod address somewhere in the list
		i := r.Intn(len(e.addrs) + 1)
		e.addrs = append(e.addrs[:i], append([]string{wire.Pick(r, addrPool[:4])}, e.addrs[i:]...)...)
	}
	if r.Chance(1, 2) {
		e.addrs = append([]string{"127.0.0.1", "::1"}, e.addrs...)
	}
	if e.dual {
		e.via["DualStack"] = wire.Pick(r, []string{"", "", "env", "alt"})
	}
	// rarely: the break-glass binary flag (Validate accepts "", legacy, nft), a failing InterfaceAddrs,
	// addresses that are not *net.IPNet, env-only variables set to the empty string, bool spellings
	if r.Chance(1, 12) {
		e.binary = wire.Pick(r, []string{"legacy", "nft", "iptables-nft", "LEGACY"})
	}
	if r.Chance(1, 40) {
		e.addrErr = true
	}
	if r.Chance(1, 6) {
		i := r.Intn(len(e.addrs) + 1)
		e.addrs = append(e.addrs[:i], append([]string{"ipaddr:" + wire.Pick(r, addrPool[:4])}, e.addrs[i:]...)...)
	}
	e.raw, e.emptyEnv = map[string]string{}, map[string]bool{}
	if e.vals.OwnerGroupsExclude == "" && r.Chance(1, 6) {
		e.emptyEnv[envOwnerGroupsExclude] = true // "" is also the default
	}
	if e.vals.OwnerGroupsInclude == "" && r.Chance(1, 8) {
		e.emptyEnv[envOwnerGroupsInclude] = true // set to "": capture no group at all (NOT the default "*")
	}
	for _, f := range []string{"RedirectDNS", "DropInvalid", "CaptureAllDNS"} {
		if r.Chance(1, 5) && e.via[f] != "" { // through an environment variable, in another spelling
			cur, _ := e.value(f)
			if cur == "true" {
				e.raw[f] = wire.Pick(r, []string{"1", "t", "T", "TRUE", "True"})
			} else {
				e.raw[f] = wire.Pick(r, []string{"0", "false", "F", "FALSE", "junk", "yes"})
			}
		}
	}
	e.vals.IPv6 = false // ignored: the family comes from getLocalIP
	// precedence: for some flag-delivered string values also set the flag's environment variable, to another value
	e.decoy = map[string]string{}
	for _, ce := range contract {
		v, ok := e.value(ce.field)
		if ok && ce.env != "" && ce.short != "" && (e.via[ce.field] == "" || e.via[ce.field] == "short" || e.via[ce.field] == "sp") && r.Chance(1, 8) {
			e.decoy[ce.field] = v + "9"
		}
	}
	// the host files: synthetic in a private mount namespace, else observed
	if nsOK {
		h := hostSpec{synthetic: true, resolvOK: !r.Chance(1, 8)}
		if h.resolvOK {
			h.resolv = pickSome(r, []string{"10.96.0.10", "fd00::a", "127.0.0.53", "::ffff:10.0.0.53", "2001:4860:4860::8888", "169.254.20.10", "not-an-ip"}, 3)
		}
		h.envoyUID = defaultProxyUID
		name := e.envoyUser
		if name == "" {
			name = defaultEnvoyUser
		}
		if r.Chance(1, 2) { // the ENVOY_USER exists, with uid != gid
			uid, gid := strconv.Itoa(1000+r.Intn(500)), strconv.Itoa(2000+r.Intn(500))
			h.passwd = append(h.passwd, name+":"+uid+":"+gid)
			h.envoyUID = uid
		}
		if r.Chance(1, 3) {
			h.passwd = append(h.passwd, "someone-else:4242:4343")
		}
		e.host = h
	} else {
		e.host = observeHost(e.envoyUser)
	}
	if asCommand { // stream cmd: the real cobra command in a child process
		e.via["dryrun"] = wire.Pick(r, []string{"", "", "short", "env"})
		if r.Chance(1, 8) {
			e.via["skip"] = "1"
		}
		t := e.tokens()
		t[0] = "cmdcfg"
		out.Line(t...)
		res := runCommand(e)
		for k := 0; k <= len(res.lines); k++ {
			out.Line("r", "4", strconv.Itoa(k))
		}
		return
	}
	out.Line(e.tokens()...)
	res, _ := runRealEnv(e)
	for k := 0; k <= len(res.v4); k++ {
		out.Line("r", "4", strconv.Itoa(k))
	}
	for k := 0; k <= len(res.v6); k++ {
		out.Line("r", "6", strconv.Itoa(k))
	}
}

func execOps(stream, in, outPath string) {
	out := wire.Create(outPath)
	defer out.Close()
	var cur compiled
	var curCfg rawCfg
	var rs *loaded
	for _, t := range wire.ReadLines(in) {
		switch t[0] {
		case "case":
			cur, rs = compiled{}, nil
			out.Line("ok")
		case "cfg":
			c, ok := rawFromTokens(t)
			if !ok {
				cur, rs = compiled{}, nil
				out.Line("bad-op")
				break
			}
			curCfg = c
			cur = runReal(c)
			rs = nil
			if cur.status == "ok" {
				out.Line(cur.okLine()...)
			} else {
				out.Line(cur.status)
			}
		case "cmdcfg":
			tt := append([]string{"envcfg"}, t[1:]...)
			e, ok := envCaseFromTokens(tt)
			cur, rs = compiled{}, nil
			if !ok {
				out.Line("bad-op")
				break
			}
			res := runCommand(e)
			if res.exit == 0 {
				cur = compiled{status: "ok", v4: res.lines}
			}
			out.Line(res.statusLine()...)
		case "envcfg":
			e, ok := envCaseFromTokens(t)
			if !ok {
				cur, rs = compiled{}, nil
				out.Line("bad-op")
				break
			}
			cur, curCfg = runRealEnv(e)
			rs = nil
			if cur.status == "ok" {
				out.Line(cur.okLine()...)
			} else {
				out.Line(cur.status)
			}
		case "cl": // stream cleanup: the REAL Run with CleanupOnly over this configuration's own rules
			if cur.status != "ok" || len(t) != 2 {
				out.Line("none")
				break
			}
			out.Line(cleanupResidue(curCfg, cur, t[1] == "6")...)
		case "r":
			lines := cur.v4
			if len(t) == 3 && t[1] == "6" {
				lines = cur.v6
			}
			k := -1
			if len(t) == 3 {
				k, _ = strconv.Atoi(t[2])
			}
			if cur.status == "ok" && k >= 0 && k < len(lines) {
				out.Line(lines[k])
			} else {
				out.Line("none")
			}
		case "p":
			if cur.status != "ok" {
				out.Line("none")
				break
			}
			if rs == nil {
				rs = loadRuleset(cur)
			}
			out.Line(execPacket(rs, curCfg, t))
		default:
			out.Line("bad-op")
		}
		out.Flush()
	}
}

// goldenCfgs are the configurations of tools/istio-iptables/pkg/capture/run_test.go (getCommonTestCases);
// `c20 corpus <stream> <ops-out>` writes them as a corpus file.
func goldenCfgs() []rawCfg {
	mk := func(f func(c *rawCfg)) rawCfg {
		c := defaultRaw()
		c.Mode = ""
		f(&c)
		return c
	}
	return []rawCfg{
		mk(func(c *rawCfg) { c.IPv6 = true }),
		mk(func(c *rawCfg) {
			c.OutExclude, c.OutInclude, c.RedirectDNS, c.ProxyGID, c.ProxyUID, c.DNSV4 = "1.1.0.0/16", "9.9.0.0/16", true, "1,2", "3,4", []string{"127.0.0.53"}
		}),
		mk(func(c *rawCfg) {
			c.Mode, c.InboundInclude, c.OutExclude, c.OutInclude, c.RedirectDNS = "TPROXY", "*", "1.1.0.0/16", "9.9.0.0/16", true
			c.DNSV4, c.ExclIfs, c.IPv6 = []string{"127.0.0.53"}, "not-istio-nic", true
		}),
		mk(func(c *rawCfg) { c.InboundInclude, c.IPv6 = "4000,5000", true }),
		mk(func(c *rawCfg) { c.InboundInclude, c.KubeVirt, c.IPv6 = "4000,5000", "eth0,eth1", true }),
		mk(func(c *rawCfg) {
			c.InboundInclude, c.InboundExclude, c.KubeVirt, c.OutExclude, c.OutInclude, c.IPv6 = "4000,5000", "6000,7000,", "eth0,eth1", "2001:db8::/32", "2001:db8::/32", true
		}),
		mk(func(c *rawCfg) {
			c.InboundInclude, c.InboundExclude, c.KubeVirt, c.ProxyGID, c.ProxyUID, c.IPv6 = "4000,5000", "6000,7000", "eth0,eth1", "1,2", "3,4", true
			c.OutExclude, c.OutInclude = "2001:db8::/32", "2001:db8::/32"
		}),
		mk(func(c *rawCfg) { c.OutPortsInclude, c.IPv6 = "32000,31000", true }),
		mk(func(c *rawCfg) {}),
		mk(func(c *rawCfg) { c.KubeVirt, c.OutInclude = "eth1,eth2", "*" }),
		mk(func(c *rawCfg) { c.OutInclude = "10.0.0.0/8" }),
		mk(func(c *rawCfg) { c.KubeVirt, c.OutInclude = "eth1,eth2", "10.0.0.0/8" }),
		mk(func(c *rawCfg) { c.InboundInclude = "32000,31000" }),
		mk(func(c *rawCfg) { c.InboundInclude = "*" }),
		mk(func(c *rawCfg) { c.InboundInclude, c.Mode = "32000,31000", "TPROXY" }),
		mk(func(c *rawCfg) { c.InboundInclude, c.Mode = "*", "TPROXY" }),
		mk(func(c *rawCfg) {
			c.RedirectDNS, c.DNSV4, c.DNSV6, c.ProxyGID, c.ProxyUID, c.IPv6 = true, []string{"127.0.0.53"}, []string{"::7f00:35"}, "1,2", "3,4", true
		}),
		mk(func(c *rawCfg) { c.IPv6, c.RedirectDNS, c.ProxyGID, c.ProxyUID = true, true, "1,2", "3,4" }),
		mk(func(c *rawCfg) { c.OwnerGroupsInclude = "java,202" }),
		mk(func(c *rawCfg) { c.OwnerGroupsExclude = "888,ftp" }),
		mk(func(c *rawCfg) { c.IPv6, c.RedirectDNS, c.OwnerGroupsInclude = true, true, "java,202" }),
		mk(func(c *rawCfg) { c.IPv6, c.RedirectDNS, c.OwnerGroupsExclude = true, true, "888,ftp" }),
		mk(func(c *rawCfg) { c.OutPortsInclude = "32000,31000" }),
		mk(func(c *rawCfg) {
			c.OutInclude, c.RedirectDNS, c.DNSV4, c.ProxyGID, c.ProxyUID = "127.1.2.3/32", true, []string{"127.0.0.53"}, "1,2", "3,4"
		}),
		mk(func(c *rawCfg) { c.ExclIfs = "not-istio-nic" }),
		mk(func(c *rawCfg) { c.DropInvalid = true }),
		mk(func(c *rawCfg) { c.LoCidr = "127.0.0.1/8" }),
		// every inbound/outbound feature at once, REDIRECT mode
		mk(func(c *rawCfg) {
			c.InboundInclude, c.InboundExclude, c.OutPortsExclude, c.OutPortsInclude = "*", "15020,15021", "3306", "9090"
			c.OutInclude, c.OutExclude, c.ExclIfs, c.ProxyUID, c.ProxyGID = "10.0.0.0/8,192.168.0.0/16", "10.1.2.0/24", "docker0", "1337,0", "1337"
		}),
	}
}

func corpus(stream, path string) {
	out := wire.Create(path)
	defer out.Close()
	r := wire.NewRng(20)
	for i, c := range goldenCfgs() {
		out.Line("case", strconv.Itoa(i), stream, "golden")
		out.Line(c.tokens()...)
		if stream == "rules" {
			res := runReal(c)
			for k := 0; k <= len(res.v4); k++ {
				out.Line("r", "4", strconv.Itoa(k))
			}
			for k := 0; k <= len(res.v6); k++ {
				out.Line("r", "6", strconv.Itoa(k))
			}
		} else {
			genPackets(r.Fork(), c, out)
		}
	}
}
