package main

// Property oracle for stream `issue`: evaluates the statement of C09 directly on the certificate
// returned by the real CreateCertificate, with no reference to the Lean model.
//
//   - a certificate is issued only if some authenticator succeeded (caller, >= 1 identity, no error)
//     on an authenticating context; for a REAL authenticator (`reqa`) the identities are derived here,
//     independently, from the credential it was given;
//   - its SAN entries are exactly the authenticated identities, in order, each as one entry (IP
//     literal -> iPAddress, otherwise the string itself) - or exactly the one impersonated identity,
//     and then only if the caller is a trusted node account whose pod (matching UID and service
//     account, not Failed) runs on a node that also runs a non-Failed pod of the impersonated
//     namespace/service account - and the identity is that workload's (same trust domain as the caller's);
//   - its subject is empty or just CN = the first of those identities (never CSR content);
//   - it is not a CA certificate, is signed by the CA's signing certificate, binds the CSR's public key,
//     NotAfter <= signer NotAfter, lifetime <= max TTL, and is not issued by an expired signer;
//   - malformed input gives an error, never a crash, never a certificate.

import (
	"bytes"
	"crypto"
	"crypto/x509"
	"encoding/hex"
	"fmt"
	"net/netip"
	"os"
	"sort"
	"strconv"
	"strings"
	"time"

	"github.com/alecholmes/xfccparser"

	"istio.io/istio/pkg/security"
	"istio.io/istio/security/pkg/pki/util"
	"verifharness/internal/wire"
)

func oracleSAN(id string) string {
	if a, err := netip.ParseAddr(id); err == nil {
		b := a.AsSlice()
		if a.Is4In6() {
			x := a.As4()
			b = x[:]
		}
		return "I:" + hex.EncodeToString(b)
	}
	// a name with the spiffe scheme is a URI; URI schemes are case-insensitive (RFC 3986 3.1)
	if len(id) >= 9 && strings.EqualFold(id[:9], "spiffe://") {
		return "U:" + wire.Enc(id)
	}
	return "D:" + wire.Enc(id)
}

// authed is the outcome of authentication as the property sees it.
type authed struct {
	ids  []string
	kube security.KubernetesInfo
}

// spiffeParts splits spiffe://<td>/ns/<ns>/sa/<sa>.
func spiffeParts(identity string) (td, ns, sa string, ok bool) {
	if !strings.HasPrefix(identity, "spiffe://") {
		return "", "", "", false
	}
	parts := strings.Split(strings.TrimPrefix(identity, "spiffe://"), "/")
	if len(parts) != 5 || parts[1] != "ns" || parts[3] != "sa" {
		return "", "", "", false
	}
	return parts[0], parts[2], parts[4], true
}

// mayImpersonate states the impersonation clause of the property on the pod world.
func mayImpersonate(w *world, clusterTok string, k authed, identity string) bool {
	return impersonationRefusal(w, clusterTok, k, identity) == ""
}

// impersonationRefusal: "" when the impersonation clause of the property allows the request, else the first
// condition of the clause that fails (counted in the evidence: which condition refused how often).
func impersonationRefusal(w *world, clusterTok string, k authed, identity string) string {
	if len(w.trusted) == 0 {
		return "no-authorizer"
	}
	trusted := false
	for _, t := range w.trusted {
		if t == k.kube.PodNamespace+"/"+k.kube.PodServiceAccount {
			trusted = true
		}
	}
	if !trusted {
		return "caller-not-a-trusted-node-account"
	}
	_, ns, sa, ok := spiffeParts(identity)
	if !ok {
		return "identity-not-a-workload-identity"
	}
	if strings.Contains(identity, ",") {
		return "identity-with-comma" // not an identity of any workload
	}
	ids := wire.DecList(clusterTok)
	if clusterTok == "-" || len(ids) != 1 {
		ids = []string{""}
	}
	pods, ok := w.pods[ids[0]]
	if !ok {
		return "cluster-unknown-or-ambiguous"
	}
	node := ""
	found := false
	for _, p := range pods {
		if p.failed() || w.isHidden(p.ns) {
			continue
		}
		if p.name == k.kube.PodName && p.ns == k.kube.PodNamespace {
			if p.uid != k.kube.PodUID {
				return "caller-pod-uid-mismatch"
			}
			if p.sa != k.kube.PodServiceAccount {
				return "caller-pod-account-mismatch"
			}
			node, found = p.node, true
		}
	}
	if !found {
		return "caller-pod-unknown"
	}
	if node == "" {
		return "caller-pod-unscheduled"
	}
	if sa == "" {
		return "identity-without-account"
	}
	for _, p := range pods {
		if !p.failed() && !w.isHidden(p.ns) && p.ns == ns && p.sa == sa && p.node == node {
			return ""
		}
	}
	return "no-such-workload-on-the-node"
}

// foreignTrustDomain: the impersonated identity names a trust domain in which the caller itself has
// no SPIFFE identity, i.e. it is not the identity of the workload running on the node.
func foreignTrustDomain(k authed, identity string) bool {
	td, _, _, ok := spiffeParts(identity)
	if !ok {
		return false
	}
	any := false
	for _, id := range k.ids {
		if ctd, _, _, ok := spiffeParts(id); ok {
			any = true
			if ctd == td {
				return false
			}
		}
	}
	return any
}

// expectedFromCredential derives, independently of the code under test, who a real authenticator
// must authenticate for a credential spec (kind first, transport grpc); ok=false: nobody.
func expectedFromCredential(f []string, clusterTok string, mesh *string) (a authed, ok bool) {
	// the trust domain of the mesh config at the time of the request (a `mesh` op may have changed it since the
	// authenticator was constructed)
	tdNow := func(constructed string) string {
		if mesh != nil {
			return *mesh
		}
		return constructed
	}
	switch f[0] {
	case "oidc":
		sub := wire.Dec(f[6])
		parts := strings.Split(sub, ":")
		if len(f) > 9 && strings.HasSuffix(f[9], "n") {
			return a, false // constructed without a mesh config: there is no trust domain to issue an identity in
		}
		if !tokenPresented(f[1], f[4]) || f[5] != "ok" || f[7] != "list" || f[6] == "absent" || len(parts) < 4 ||
			!strings.HasPrefix(sub, "system:serviceaccount") || parts[2] == "" || parts[3] == "" {
			return a, false
		}
		for _, x := range wire.DecList(f[8]) {
			for _, y := range wire.DecList(f[3]) {
				if x == y {
					ok = true
				}
			}
		}
		a.ids = []string{"spiffe://" + sanitizeTD(tdNow(wire.Dec(f[2]))) + "/ns/" + parts[2] + "/sa/" + parts[3]}
		return a, ok
	case "kube":
		rev := parseReview(f[10])
		parts := strings.Split(rev.username, ":")
		inGroup := false
		for _, g := range rev.groups {
			if g == "system:serviceaccounts" {
				inGroup = true
			}
		}
		if !tokenPresented(f[1], f[7]) || rev.apiErr || rev.errMsg != "" || !rev.authenticated || !inGroup || len(parts) != 4 ||
			parts[2] == "" || parts[3] == "" {
			return a, false
		}
		// the cluster the caller claims must be one istiod knows
		claimed := ""
		if c := wire.DecList(clusterTok); clusterTok != "-" && len(c) == 1 {
			claimed = c[0]
		}
		primary := wire.Dec(f[3])
		alias := ""
		for _, al := range wire.DecList(f[4]) {
			if k, v, _ := strings.Cut(al, "="); k == claimed {
				alias = v
			}
		}
		known := claimed == "" || claimed == primary || alias == primary
		if f[5] != "nil" {
			for _, r := range wire.DecList(f[5]) {
				if r == claimed || (r == alias && alias != "") {
					known = true
				}
			}
		}
		if !known {
			return a, false
		}
		a.ids = []string{"spiffe://" + sanitizeTD(tdNow(wire.Dec(f[2]))) + "/ns/" + parts[2] + "/sa/" + parts[3]}
		a.kube = security.KubernetesInfo{PodNamespace: parts[2], PodServiceAccount: parts[3]}
		if v, ok := extraValues(rev.podName); ok && len(v) > 0 {
			a.kube.PodName = v[0]
		}
		if v, ok := extraValues(rev.podUID); ok && len(v) > 0 {
			a.kube.PodUID = v[0]
		}
		return a, true
	case "xfcc":
		hs := wire.DecList(f[4])
		if f[4] == "-" || len(hs) == 0 || !peerTrusted(f[3], wire.DecList(f[2])) {
			return a, false
		}
		certs, err := xfccparser.ParseXFCCHeader(hs[0])
		if err != nil {
			return a, false
		}
		for _, c := range certs {
			a.ids = append(a.ids, c.URI...)
			a.ids = append(a.ids, c.DNS...)
			if c.Subject != nil {
				a.ids = append(a.ids, c.Subject.CommonName)
			}
		}
		return a, len(a.ids) > 0
	case "tlscert":
		vals, ok := tlsCertExpected(f)
		a.ids = vals
		return a, ok && len(vals) > 0
	case "cert":
		if f[2] != "tls" || f[3] == "-" {
			return a, false
		}
		chains := wire.DecList(f[3])
		if len(chains) == 0 || chains[0] == "" {
			return a, false
		}
		spec := wire.Dec(strings.Split(chains[0], "|")[0])
		if !strings.HasPrefix(spec, "san:") {
			return a, false
		}
		for _, e := range wire.DecList(spec[4:]) {
			if len(e) >= 2 && e[0] == 'I' {
				b, _ := hex.DecodeString(e[2:])
				a.ids = append(a.ids, string(b))
			} else if len(e) >= 2 {
				a.ids = append(a.ids, e[2:])
			}
		}
		return a, len(a.ids) > 0
	}
	return a, false
}

// chainView: what each authenticator of a chain sees of the ONE request.  Kubernetes-JWT and OIDC authenticators all
// read the same `authorization` metadata, which carries the token(s) of the LAST token-based spec of the line (the
// carrier).  For every other token-based spec the view is: an OIDC authenticator facing an OIDC carrier judges the
// carrier's token by its own configuration (audiences, trust domain); every other pairing is a token of the wrong
// kind (a Kubernetes token is no JWT of the OIDC issuer; the API server does not know the OIDC token): nil.
func chainView(specs [][]string) [][]string {
	// the carrier: the last token-based spec that puts an authorization value into the request at all
	carrier, tokenBased := -1, 0
	for i, sp := range specs {
		if sp[0] == "kube" || sp[0] == "oidc" {
			tokenBased++
			form := sp[4]
			if sp[0] == "kube" {
				form = sp[7]
			}
			if authValues(form, "t", "o") != nil {
				carrier = i
			}
		}
	}
	out := make([][]string, len(specs))
	for i, sp := range specs {
		out[i] = sp
		if (sp[0] != "kube" && sp[0] != "oidc") || i == carrier || tokenBased < 2 || carrier < 0 {
			continue
		}
		c := specs[carrier]
		if sp[0] == "oidc" && c[0] == "oidc" {
			v := append([]string{}, sp...)
			copy(v[4:9], c[4:9]) // header form, token kind, sub, aud kind, aud
			out[i] = v
		} else {
			out[i] = nil
		}
	}
	return out
}

// issueJudge executes the ops of stream `issue` on the real code ONCE and does two things with each result:
// it formats the output line the Lean model must predict (exec), and it evaluates the property on the raw
// result (oracle), independently of the model.  It also counts what the evidence reports: which condition of
// the impersonation clause refused, what was issued, which clauses were evaluated how often.
type issueJudge struct {
	s       *issueSUT
	verdict string
	known   string // a violation of the known-finding class is reported only if nothing else fails
	open    bool
	idx     int
	cfg     []string
	out     *wire.Out // verdict lines; nil: none wanted
	stats   map[string]int
}

func newIssueJudge(verdicts *wire.Out) *issueJudge {
	return &issueJudge{s: newIssueSUT(), out: verdicts, stats: map[string]int{}}
}

func (j *issueJudge) count(key string) { j.stats[key]++ }

func (j *issueJudge) flush() {
	if j.open && j.out != nil {
		v := j.verdict
		if v == "" {
			v = j.known
		}
		if v == "" {
			v = "OK"
		}
		j.out.Line(v)
		j.out.Flush()
	}
	j.open = false
}

// finish writes the last verdict and the counters (`#stats` line, skipped by the reader of verdicts).
func (j *issueJudge) finish() {
	j.flush()
	if j.s.authn != nil && j.s.authn.pki != nil {
		for k, v := range j.s.authn.pki.modes {
			j.stats[k] += v
		}
	}
	if j.out != nil {
		j.out.Line(statsLine(j.stats)...)
		j.out.Flush()
	}
	j.s.close()
}

func statsLine(stats map[string]int) []string {
	keys := make([]string, 0, len(stats))
	for k := range stats {
		keys = append(keys, k)
	}
	sort.Strings(keys)
	l := []string{"#stats"}
	for _, k := range keys {
		l = append(l, k+"="+strconv.Itoa(stats[k]))
	}
	return l
}

func (j *issueJudge) fail(clause, detail string) {
	if j.verdict == "" {
		j.verdict = fmt.Sprintf("FAIL %s op=%d %s", clause, j.idx, wire.Enc(detail))
	}
}

// judge evaluates the property on one issued certificate.
func (j *issueJudge) judge(res issueResult, line string, who *authed, csr csrSpec, impTok, clusterTok string) {
	s := j.s
	j.count("evaluated.issued-certificate-clauses")
	if res.perr != nil {
		j.fail("leaf-unparsable", line)
		return
	}
	if who == nil {
		j.fail("no-cert-without-authn", line)
		return
	}
	if !csrFormValid(csr.form) {
		j.fail("malformed-csr-accepted", line)
	}
	expected := who.ids
	if imp, ok := metaString(impTok); ok && imp != "" {
		j.count("evaluated.impersonation-clause")
		if !mayImpersonate(s.cur, clusterTok, *who, imp) {
			j.fail("impersonation-not-authorised", line)
			return
		}
		if foreignTrustDomain(*who, imp) && j.known == "" {
			j.known = fmt.Sprintf("FAIL impersonation-foreign-trust-domain op=%d %s", j.idx, wire.Enc(line))
		}
		expected = []string{imp}
	}
	var want []string
	for _, id := range expected {
		w := oracleSAN(id)
		want = append(want, w)
		j.count("issued.san." + map[byte]string{'U': "uri", 'D': "dns", 'I': "ip"}[w[0]])
	}
	if len(expected) > 1 {
		j.count("issued.identities.several")
	} else {
		j.count("issued.identities.one")
	}
	l := res.leaf
	if !l.sanCritical && len(l.subject) == 0 {
		j.fail("san-not-critical-with-empty-subject", line) // RFC 5280 4.2.1.6: required for an empty subject
	}
	if l.sanCount != 1 || strings.Join(l.sans, ",") != strings.Join(want, ",") {
		j.fail("san-exact", "want="+strings.Join(want, ",")+" "+line)
	}
	for _, a := range l.subject {
		if !strings.HasPrefix(a, "2.5.4.3=") {
			j.fail("subject-from-csr", line)
		}
	}
	if len(l.subject) > 1 || (l.cn != "" && (len(expected) == 0 || l.cn != expected[0])) {
		j.fail("subject-from-csr", line)
	}
	if l.isCA {
		j.fail("never-ca", line)
	}
	if l.keyUsage&(1<<5) != 0 {
		j.fail("never-ca(keyCertSign)", line)
	}
	if res.spki == nil || !bytes.Equal(l.spki, res.spki) {
		j.fail("binds-csr-key", line)
	}
	signer := s.signerCert()
	if signer == nil {
		j.fail("issued-without-signer", line)
		return
	}
	if !s.signedBySigner(l) {
		j.fail("not-signed-by-ca", line)
	}
	if !signer.IsCA {
		j.fail("signer-not-a-ca", line) // nobody could validate such a certificate
	}
	if l.notAfter.After(signer.NotAfter) {
		j.fail("not-beyond-signer-expiry", line)
	}
	if !res.before.Before(signer.NotAfter) {
		j.fail("expired-signer-issued", line)
	}
	var max int64
	fmt.Sscan(j.cfg[6], &max)
	if l.notAfter.After(res.after.Add(time.Duration(max) * time.Second)) {
		j.fail("lifetime-within-max", line)
	}
	// the validity window in absolute time: it opens two minutes (the clock-skew grace) before the request - not
	// later than the request, not earlier than that - and is never longer than the maximum plus the grace
	// (certificate times are whole seconds)
	if l.notBefore.After(res.after) || l.notBefore.Before(res.before.Add(-121*time.Second)) {
		j.fail("validity-window-start", line)
	}
	if l.notAfter.Sub(l.notBefore) > time.Duration(max+120)*time.Second {
		j.fail("validity-window-length", line)
	}
	if len(l.xext) != 0 {
		j.fail("csr-extension-copied", line)
	}
}

// statusCode: the gRPC status of a refused request says why, and no more.  Whoever is not authenticated - or asks for
// an identity the impersonation clause does not grant - gets Unauthenticated (whatever else is wrong with the request);
// an authenticated, authorised caller never does; for him a CA without usable signing certificate answers Internal, a
// malformed CSR (with a signer present) InvalidArgument; no other code is used.
func (j *issueJudge) statusCode(res issueResult, who *authed, csr csrSpec, impTok, clusterTok, line string) {
	if res.code == "" || res.crash {
		return
	}
	j.count("evaluated.status-code-clause")
	imp, isStr := metaString(impTok)
	granted := who != nil && (!isStr || imp == "" || mayImpersonate(j.s.cur, clusterTok, *who, imp))
	if who != nil && isStr && imp != "" && impersonationRefusal(j.s.cur, clusterTok, *who, imp) == "identity-with-comma" {
		return // no workload has such an identity: it may be refused as unauthorised or as unissuable
	}
	switch {
	case res.code != "Unauthenticated" && res.code != "InvalidArgument" && res.code != "Internal":
		j.fail("status-code", "unexpected code "+line)
	case !granted && res.code != "Unauthenticated":
		j.fail("status-code", "not authenticated / authorised, but "+line)
	case granted && res.code == "Unauthenticated":
		j.fail("status-code", "authenticated and authorised, but "+line)
	case granted && j.s.signerCert() == nil && res.code != "Internal":
		j.fail("status-code", "no signing certificate, but "+line)
	case granted && j.s.signerCert() != nil && !csrFormValid(csr.form) && res.code != "InvalidArgument":
		j.fail("status-code", "malformed CSR, but "+line)
	}
}

// gate accounts one authenticated request that asks for impersonation: issued, or refused - and then by which
// condition of the clause, as the oracle sees it.
func (j *issueJudge) gate(res issueResult, who *authed, impTok, clusterTok, via string) {
	imp, ok := metaString(impTok)
	if !ok || imp == "" || who == nil || res.crash {
		return
	}
	why := impersonationRefusal(j.s.cur, clusterTok, *who, imp)
	switch {
	case res.code == "":
		j.count("gate.issued." + via)
	case why == "":
		j.count("gate.allowed-but-request-failed." + res.code)
		if res.code == "Unauthenticated" && os.Getenv("C09_DEBUG") != "" {
			fmt.Fprintln(os.Stderr, "allowed-but-unauthenticated: op", j.idx, impTok, clusterTok, who.kube, strings.Join(j.s.naLine, " "))
		}
	default:
		j.count("gate.refused." + why)
	}
}

// step executes one op; it returns the output line of the real code.
func (j *issueJudge) step(f []string) string {
	s := j.s
	if f[0] == "case" {
		j.flush()
		out := s.apply(f)
		j.verdict, j.known, j.open, j.idx = "", "", true, 0
		return out
	}
	j.idx++
	switch f[0] {
	case "req":
		if !s.caOK || s.cur == nil {
			return "no-ca"
		}
		r, err := parseReq(f)
		if err != nil {
			return "bad-op"
		}
		res := s.run(r)
		line := s.format(res)
		j.count("evaluated.errors-not-crashes")
		if res.crash {
			j.fail("errors-not-crashes", strings.Join(f, " "))
			return line
		}
		if r.noMD {
			r.cluster = "-" // no incoming metadata: no cluster is named
		}
		var who *authed
		if r.xdsAuth && r.hasPeer && (r.tls || r.plaintext) {
			for i := range r.outs {
				if r.outs[i].kind == "ok" && len(r.outs[i].ids) > 0 {
					who = &authed{ids: r.outs[i].ids, kube: r.outs[i].kube}
					break
				}
			}
		}
		j.gate(res, who, r.imp, r.cluster, "scripted-caller")
		j.statusCode(res, who, r.csr, r.imp, r.cluster, line)
		if res.code != "" {
			return line // an error is always allowed by the property
		}
		j.judge(res, line, who, r.csr, r.imp, r.cluster)
		j.genCSRClause(r.csr)
		return line
	case "reqm":
		if !s.caOK || s.cur == nil {
			return "no-ca"
		}
		m, err := parseReqM(f)
		if err != nil {
			return "bad-op"
		}
		res, err := s.runM(m)
		if err != nil {
			return "fixture-failed " + wire.Enc(err.Error())
		}
		line := s.format(res)
		if res.rejected {
			return line
		}
		j.count("evaluated.errors-not-crashes")
		j.count("transport." + map[bool]string{true: "tls", false: m.req.mode}[m.req.mode == ""])
		if res.crash {
			skip := false
			for _, sp := range m.specs {
				if sp[0] == "xfcc" && !peerIsNetworkAddress(sp[3]) {
					skip = true
				}
			}
			if !skip {
				j.fail("errors-not-crashes", strings.Join(f, " "))
			}
			return line
		}
		// authenticated: the first authenticator, in order, whose credential is valid
		var who *authed
		connOK := modeAuthenticates(m.req.mode)
		for _, sp := range m.specs {
			if (sp[0] == "xfcc" && sp[3] == "nopeer") || (m.req.mode == "" && sp[0] == "cert" && sp[2] != "tls" && sp[2] != "tlspeer") {
				connOK = false // no peer / no TLS auth info: security.Authenticate refuses before any authenticator runs
			}
		}
		winner, valid := "none", 0
		for i, sp := range chainView(m.specs) {
			if sp == nil || (m.req.mode != "" && (sp[0] == "cert" || sp[0] == "tlscert")) {
				continue // a token of the wrong kind; not a TLS connection: there is no client certificate
			}
			if w, ok := expectedFromCredential(sp, m.req.cluster, s.authn.mesh); ok && connOK {
				valid++
				if who == nil {
					x := w
					who = &x
					winner = strconv.Itoa(i) + "-" + sp[0]
				}
			}
		}
		j.count("reqm.winner." + winner)
		j.count("reqm.valid-credentials." + strconv.Itoa(valid))
		j.gate(res, who, m.req.imp, m.req.cluster, "real-authenticator-chain")
		j.statusCode(res, who, m.req.csr, m.req.imp, m.req.cluster, line)
		if res.code != "" {
			return line
		}
		j.judge(res, line, who, m.req.csr, m.req.imp, m.req.cluster)
		j.genCSRClause(m.req.csr)
		return line
	case "reqa":
		if !s.caOK || s.cur == nil {
			return "no-ca"
		}
		a, err := parseReqA(f)
		if err != nil {
			return "bad-op"
		}
		res, _, err := s.runA(a)
		if err != nil {
			return "fixture-failed " + wire.Enc(err.Error())
		}
		line := s.format(res)
		if res.rejected {
			return line // the TLS handshake was refused: no request, no certificate
		}
		j.count("evaluated.errors-not-crashes")
		j.count("transport." + map[bool]string{true: "tls", false: a.req.mode}[a.req.mode == ""])
		if res.crash {
			if a.spec[0] == "xfcc" && !peerIsNetworkAddress(a.spec[3]) {
				return line // not a transport address (recorded observation)
			}
			j.fail("errors-not-crashes", strings.Join(f, " "))
			return line
		}
		var who *authed
		certKind := a.spec[0] == "cert" || a.spec[0] == "tlscert"
		if w, ok := expectedFromCredential(a.spec, a.req.cluster, s.authn.mesh); ok && modeAuthenticates(a.req.mode) && !(a.req.mode != "" && certKind) {
			who = &w
		}
		j.gate(res, who, a.req.imp, a.req.cluster, "real-"+a.spec[0])
		j.statusCode(res, who, a.req.csr, a.req.imp, a.req.cluster, line)
		if res.code != "" {
			return line
		}
		j.judge(res, line, who, a.req.csr, a.req.imp, a.req.cluster)
		j.genCSRClause(a.req.csr)
		return line
	case "genkeycert":
		// istiod's own serving certificate: the real IstioCA.GenKeyCert
		if !s.caOK || len(f) != 3 {
			return "bad-op"
		}
		ttl, _ := strconv.ParseInt(f[2], 10, 64)
		hosts := wire.DecList(f[1])
		var r keyCertResult
		crashed := func() (c bool) {
			defer func() {
				if recover() != nil {
					c = true
				}
			}()
			r = s.genKeyCert(hosts, ttl)
			return false
		}()
		if crashed {
			j.fail("errors-not-crashes", strings.Join(f, " "))
			return "crash"
		}
		line := s.formatKeyCert(r)
		j.judgeKeyCert(r, hosts, ttl, strings.Join(f, " ")+" => "+line)
		return line
	}
	out := s.apply(f)
	if out == "crash" {
		j.fail("errors-not-crashes", strings.Join(f, " "))
	}
	if f[0] == "ca" {
		j.cfg = f
	}
	if f[0] == "ca" || f[0] == "rot" {
		// the certificates the fixture had util.GenCertKeyFromOptions / GenRootCertFromExistingKey make for this op
		j.stats["evaluated.certgen-clause"] = s.fix.genChecked
		if s.fix.genFault != "" {
			j.fail("certgen-"+s.fix.genFault, strings.Join(f, " "))
			s.fix.genFault = ""
		}
	}
	return out
}

// genCSRClause: the CSR of the request came from the real util.GenCSR - report the first defect found in one.
func (j *issueJudge) genCSRClause(c csrSpec) {
	if c.form != "gen" {
		return
	}
	j.count("evaluated.gencsr-clause")
	if j.s.keys.genFault != "" {
		j.fail("gencsr-"+j.s.keys.genFault, "util.GenCSR output")
		j.s.keys.genFault = ""
	}
}

// judgeKeyCert: the property for GenKeyCert - the certificate names exactly the hosts asked for (one SAN entry
// each, none for a host with a comma: refused), is no CA certificate, belongs to the returned private key, is
// signed by the CA's signing certificate and does not outlive it nor the lifetime asked for.
func (j *issueJudge) judgeKeyCert(r keyCertResult, hosts []string, ttl int64, line string) {
	j.count("evaluated.genkeycert-clauses")
	if r.err {
		return
	}
	if r.perr != nil {
		j.fail("genkeycert-leaf-unparsable", line)
		return
	}
	l := r.leaf
	var want []string
	for _, h := range hosts {
		if strings.Contains(h, ",") {
			j.fail("genkeycert-comma-host-accepted", line)
		}
		want = append(want, oracleSAN(h))
	}
	if l.sanCount != 1 || strings.Join(l.sans, ",") != strings.Join(want, ",") {
		j.fail("genkeycert-san-exact", line)
	}
	if l.isCA || l.keyUsage&(1<<5) != 0 {
		j.fail("genkeycert-never-ca", line)
	}
	key, err := util.ParsePemEncodedKey(r.keyPEM)
	if signer, ok := key.(crypto.Signer); err != nil || !ok {
		j.fail("genkeycert-key-mismatch", line)
	} else if pub, err := x509.MarshalPKIXPublicKey(signer.Public()); err != nil || !bytes.Equal(pub, l.spki) {
		j.fail("genkeycert-key-mismatch", line)
	}
	signer := j.s.signerCert()
	if signer == nil || !j.s.signedBySigner(l) {
		j.fail("genkeycert-not-signed-by-ca", line)
		return
	}
	if l.notAfter.After(signer.NotAfter) {
		j.fail("genkeycert-beyond-signer-expiry", line)
	}
	if l.notAfter.After(r.after.Add(time.Duration(ttl) * time.Second)) {
		j.fail("genkeycert-lifetime", line)
	}
	if len(l.subject) != 0 || len(l.xext) != 0 {
		j.fail("genkeycert-extra-content", line)
	}
}

func oracleIssue(in, outp string) {
	out := wire.Create(outp)
	defer out.Close()
	j := newIssueJudge(out)
	for _, f := range wire.ReadLines(in) {
		j.step(f)
	}
	j.finish()
}
