package main

// Property oracle for stream `issue`: evaluates the statement of C09 directly on the certificate
// returned by the real CreateCertificate, with no reference to the Lean model.
//
//   - a certificate is issued only if some authenticator succeeded (caller, >= 1 identity, no error)
//     on an authenticating context;
//   - its SAN entries are exactly the authenticated identities, in order, each as one entry (IP
//     literal -> iPAddress, otherwise the string itself) - or exactly the one impersonated identity,
//     and then only if the caller is a trusted node account whose pod (matching UID and service
//     account) runs on a node that also runs a pod of the impersonated namespace/service account;
//   - its subject CommonName is empty or the first of those identities (never CSR content);
//   - it is not a CA certificate, binds the CSR's public key, NotAfter <= signer NotAfter,
//     lifetime <= max TTL (when default <= max is configured), and is not issued by an expired signer;
//   - malformed input gives an error, never a crash, never a certificate.

import (
	"bytes"
	"encoding/hex"
	"fmt"
	"net/netip"
	"strings"
	"time"

	"verifharness/internal/wire"
)

func oracleSAN(id string) string {
	if a, err := netip.ParseAddr(id); err == nil {
		b := a.AsSlice()
		if a.Is4In6() {
			x := a.As4()
			b = x[:]
		}
		return "I:" + hex.EncodeToString(b)
	}
	if strings.HasPrefix(id, "spiffe://") {
		return "U:" + wire.Enc(id)
	}
	return "D:" + wire.Enc(id)
}

// mayImpersonate states the impersonation clause of the property on the pod world.
func mayImpersonate(w *world, clusterTok string, k authOutcome, identity string) bool {
	if len(w.trusted) == 0 {
		return false
	}
	trusted := false
	for _, t := range w.trusted {
		if t == k.kube.PodNamespace+"/"+k.kube.PodServiceAccount {
			trusted = true
		}
	}
	if !trusted || !strings.HasPrefix(identity, "spiffe://") {
		return false
	}
	parts := strings.Split(strings.TrimPrefix(identity, "spiffe://"), "/")
	if len(parts) != 5 || parts[1] != "ns" || parts[3] != "sa" {
		return false
	}
	ns, sa := parts[2], parts[4]
	if strings.Contains(identity, ",") {
		return false // not an identity of any workload
	}
	ids := wire.DecList(clusterTok)
	if clusterTok == "-" || len(ids) != 1 {
		ids = []string{""}
	}
	pods, ok := w.pods[ids[0]]
	if !ok {
		return false
	}
	node := ""
	found := false
	for _, p := range pods {
		if p.name == k.kube.PodName && p.ns == k.kube.PodNamespace {
			if p.uid != k.kube.PodUID || p.sa != k.kube.PodServiceAccount {
				return false
			}
			node, found = p.node, true
		}
	}
	if !found || node == "" || sa == "" {
		return false
	}
	for _, p := range pods {
		if p.ns == ns && p.sa == sa && p.node == node {
			return true
		}
	}
	return false
}

func oracleIssue(in, outp string) {
	out := wire.Create(outp)
	defer out.Close()
	s := newIssueSUT()
	verdict, open, idx := "", false, 0
	var cfg []string
	flush := func() {
		if open {
			if verdict == "" {
				verdict = "OK"
			}
			out.Line(verdict)
			out.Flush()
		}
	}
	fail := func(clause, detail string) {
		if verdict == "" {
			verdict = fmt.Sprintf("FAIL %s op=%d %s", clause, idx, wire.Enc(detail))
		}
	}
	for _, f := range wire.ReadLines(in) {
		if f[0] == "case" {
			flush()
			s.apply(f)
			verdict, open, idx = "", true, 0
			continue
		}
		idx++
		if f[0] != "req" {
			if r := s.apply(f); r == "crash" {
				fail("errors-not-crashes", strings.Join(f, " "))
			}
			if f[0] == "ca" {
				cfg = f
			}
			continue
		}
		if !s.caOK || s.cur == nil {
			continue
		}
		r, err := parseReq(f)
		if err != nil {
			continue
		}
		res := s.run(r)
		if res.crash {
			fail("errors-not-crashes", strings.Join(f, " "))
			continue
		}
		if res.code != "" {
			continue // an error is always allowed by the property
		}
		line := s.format(res)
		if res.perr != nil {
			fail("leaf-unparsable", line)
			continue
		}
		// who authenticated?
		var who *authOutcome
		if r.xdsAuth && r.hasPeer && (r.tls || r.plaintext) {
			for i := range r.outs {
				if r.outs[i].kind == "ok" && len(r.outs[i].ids) > 0 {
					who = &r.outs[i]
					break
				}
			}
		}
		if who == nil {
			fail("no-cert-without-authn", line)
			continue
		}
		if !csrFormParses(r.csr.form) || r.csr.form == "badsig" {
			fail("malformed-csr-accepted", line)
		}
		expected := who.ids
		if imp, ok := metaString(r.imp); ok && imp != "" {
			if !mayImpersonate(s.cur, r.cluster, *who, imp) {
				fail("impersonation-not-authorised", line)
				continue
			}
			expected = []string{imp}
		}
		var want []string
		for _, id := range expected {
			want = append(want, oracleSAN(id))
		}
		l := res.leaf
		if l.sanCount != 1 || strings.Join(l.sans, ",") != strings.Join(want, ",") {
			fail("san-exact", "want="+strings.Join(want, ",")+" "+line)
		}
		if l.cn != "" && (len(expected) == 0 || l.cn != expected[0]) {
			fail("subject-cn-not-an-identity", line)
		}
		if l.isCA {
			fail("never-ca", line)
		}
		if l.keyUsage&(1<<5) != 0 {
			fail("never-ca(keyCertSign)", line)
		}
		if res.spki == nil || !bytes.Equal(l.spki, res.spki) {
			fail("binds-csr-key", line)
		}
		signer := s.signerCert()
		if signer == nil {
			fail("issued-without-signer", line)
			continue
		}
		if l.notAfter.After(signer.NotAfter) {
			fail("not-beyond-signer-expiry", line)
		}
		if !res.before.Before(signer.NotAfter) {
			fail("expired-signer-issued", line)
		}
		var def, max int64
		fmt.Sscan(cfg[5], &def)
		fmt.Sscan(cfg[6], &max)
		if def <= max && l.notAfter.After(res.after.Add(time.Duration(max)*time.Second)) {
			fail("lifetime-within-max", line)
		}
		if len(l.xext) != 0 {
			fail("csr-extension-copied", line)
		}
	}
	flush()
}
