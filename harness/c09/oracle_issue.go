package main

// Property oracle for stream `issue`: evaluates the statement of C09 directly on the certificate
// returned by the real CreateCertificate, with no reference to the Lean model.
//
//   - a certificate is issued only if some authenticator succeeded (caller, >= 1 identity, no error)
//     on an authenticating context; for a REAL authenticator (`reqa`) the identities are derived here,
//     independently, from the credential it was given;
//   - its SAN entries are exactly the authenticated identities, in order, each as one entry (IP
//     literal -> iPAddress, otherwise the string itself) - or exactly the one impersonated identity,
//     and then only if the caller is a trusted node account whose pod (matching UID and service
//     account, not Failed) runs on a node that also runs a non-Failed pod of the impersonated
//     namespace/service account - and the identity is that workload's (same trust domain as the caller's);
//   - its subject is empty or just CN = the first of those identities (never CSR content);
//   - it is not a CA certificate, is signed by the CA's signing certificate, binds the CSR's public key,
//     NotAfter <= signer NotAfter, lifetime <= max TTL, and is not issued by an expired signer;
//   - malformed input gives an error, never a crash, never a certificate.

import (
	"bytes"
	"encoding/hex"
	"fmt"
	"net/netip"
	"strings"
	"time"

	"github.com/alecholmes/xfccparser"

	"istio.io/istio/pkg/security"
	"verifharness/internal/wire"
)

func oracleSAN(id string) string {
	if a, err := netip.ParseAddr(id); err == nil {
		b := a.AsSlice()
		if a.Is4In6() {
			x := a.As4()
			b = x[:]
		}
		return "I:" + hex.EncodeToString(b)
	}
	// a name with the spiffe scheme is a URI; URI schemes are case-insensitive (RFC 3986 3.1)
	if len(id) >= 9 && strings.EqualFold(id[:9], "spiffe://") {
		return "U:" + wire.Enc(id)
	}
	return "D:" + wire.Enc(id)
}

// authed is the outcome of authentication as the property sees it.
type authed struct {
	ids  []string
	kube security.KubernetesInfo
}

// spiffeParts splits spiffe://<td>/ns/<ns>/sa/<sa>.
func spiffeParts(identity string) (td, ns, sa string, ok bool) {
	if !strings.HasPrefix(identity, "spiffe://") {
		return "", "", "", false
	}
	parts := strings.Split(strings.TrimPrefix(identity, "spiffe://"), "/")
	if len(parts) != 5 || parts[1] != "ns" || parts[3] != "sa" {
		return "", "", "", false
	}
	return parts[0], parts[2], parts[4], true
}

// mayImpersonate states the impersonation clause of the property on the pod world.
func mayImpersonate(w *world, clusterTok string, k authed, identity string) bool {
	if len(w.trusted) == 0 {
		return false
	}
	trusted := false
	for _, t := range w.trusted {
		if t == k.kube.PodNamespace+"/"+k.kube.PodServiceAccount {
			trusted = true
		}
	}
	_, ns, sa, ok := spiffeParts(identity)
	if !trusted || !ok {
		return false
	}
	if strings.Contains(identity, ",") {
		return false // not an identity of any workload
	}
	ids := wire.DecList(clusterTok)
	if clusterTok == "-" || len(ids) != 1 {
		ids = []string{""}
	}
	pods, ok := w.pods[ids[0]]
	if !ok {
		return false
	}
	node := ""
	found := false
	for _, p := range pods {
		if p.failed() || w.isHidden(p.ns) {
			continue
		}
		if p.name == k.kube.PodName && p.ns == k.kube.PodNamespace {
			if p.uid != k.kube.PodUID || p.sa != k.kube.PodServiceAccount {
				return false
			}
			node, found = p.node, true
		}
	}
	if !found || node == "" || sa == "" {
		return false
	}
	for _, p := range pods {
		if !p.failed() && !w.isHidden(p.ns) && p.ns == ns && p.sa == sa && p.node == node {
			return true
		}
	}
	return false
}

// foreignTrustDomain: the impersonated identity names a trust domain in which the caller itself has
// no SPIFFE identity, i.e. it is not the identity of the workload running on the node.
func foreignTrustDomain(k authed, identity string) bool {
	td, _, _, ok := spiffeParts(identity)
	if !ok {
		return false
	}
	any := false
	for _, id := range k.ids {
		if ctd, _, _, ok := spiffeParts(id); ok {
			any = true
			if ctd == td {
				return false
			}
		}
	}
	return any
}

// expectedFromCredential derives, independently of the code under test, who a real authenticator
// must authenticate for a credential spec (kind first, transport grpc); ok=false: nobody.
func expectedFromCredential(f []string, clusterTok string) (a authed, ok bool) {
	switch f[0] {
	case "oidc":
		sub := wire.Dec(f[6])
		parts := strings.Split(sub, ":")
		if !tokenPresented(f[1], f[4]) || f[5] != "ok" || f[7] != "list" || f[6] == "absent" || len(parts) < 4 ||
			!strings.HasPrefix(sub, "system:serviceaccount") || parts[2] == "" || parts[3] == "" {
			return a, false
		}
		for _, x := range wire.DecList(f[8]) {
			for _, y := range wire.DecList(f[3]) {
				if x == y {
					ok = true
				}
			}
		}
		a.ids = []string{"spiffe://" + sanitizeTD(wire.Dec(f[2])) + "/ns/" + parts[2] + "/sa/" + parts[3]}
		return a, ok
	case "kube":
		rev := parseReview(f[10])
		parts := strings.Split(rev.username, ":")
		inGroup := false
		for _, g := range rev.groups {
			if g == "system:serviceaccounts" {
				inGroup = true
			}
		}
		if !tokenPresented(f[1], f[7]) || rev.apiErr || rev.errMsg != "" || !rev.authenticated || !inGroup || len(parts) != 4 ||
			parts[2] == "" || parts[3] == "" {
			return a, false
		}
		// the cluster the caller claims must be one istiod knows
		claimed := ""
		if c := wire.DecList(clusterTok); clusterTok != "-" && len(c) == 1 {
			claimed = c[0]
		}
		primary := wire.Dec(f[3])
		alias := ""
		for _, al := range wire.DecList(f[4]) {
			if k, v, _ := strings.Cut(al, "="); k == claimed {
				alias = v
			}
		}
		known := claimed == "" || claimed == primary || alias == primary
		if f[5] != "nil" {
			for _, r := range wire.DecList(f[5]) {
				if r == claimed || (r == alias && alias != "") {
					known = true
				}
			}
		}
		if !known {
			return a, false
		}
		a.ids = []string{"spiffe://" + sanitizeTD(wire.Dec(f[2])) + "/ns/" + parts[2] + "/sa/" + parts[3]}
		a.kube = security.KubernetesInfo{PodNamespace: parts[2], PodServiceAccount: parts[3]}
		if v, ok := extraValues(rev.podName); ok && len(v) > 0 {
			a.kube.PodName = v[0]
		}
		if v, ok := extraValues(rev.podUID); ok && len(v) > 0 {
			a.kube.PodUID = v[0]
		}
		return a, true
	case "xfcc":
		hs := wire.DecList(f[4])
		if f[4] == "-" || len(hs) == 0 || !peerTrusted(f[3], wire.DecList(f[2])) {
			return a, false
		}
		certs, err := xfccparser.ParseXFCCHeader(hs[0])
		if err != nil {
			return a, false
		}
		for _, c := range certs {
			a.ids = append(a.ids, c.URI...)
			a.ids = append(a.ids, c.DNS...)
			if c.Subject != nil {
				a.ids = append(a.ids, c.Subject.CommonName)
			}
		}
		return a, len(a.ids) > 0
	case "tlscert":
		vals, ok := tlsCertExpected(f)
		a.ids = vals
		return a, ok && len(vals) > 0
	case "cert":
		if f[2] != "tls" || f[3] == "-" {
			return a, false
		}
		chains := wire.DecList(f[3])
		if len(chains) == 0 || chains[0] == "" {
			return a, false
		}
		spec := wire.Dec(strings.Split(chains[0], "|")[0])
		if !strings.HasPrefix(spec, "san:") {
			return a, false
		}
		for _, e := range wire.DecList(spec[4:]) {
			if len(e) >= 2 && e[0] == 'I' {
				b, _ := hex.DecodeString(e[2:])
				a.ids = append(a.ids, string(b))
			} else if len(e) >= 2 {
				a.ids = append(a.ids, e[2:])
			}
		}
		return a, len(a.ids) > 0
	}
	return a, false
}

func oracleIssue(in, outp string) {
	out := wire.Create(outp)
	defer out.Close()
	s := newIssueSUT()
	verdict, open, idx := "", false, 0
	known := "" // a violation of the known-finding class is reported only if nothing else fails
	var cfg []string
	flush := func() {
		if open {
			if verdict == "" {
				verdict = known
			}
			if verdict == "" {
				verdict = "OK"
			}
			out.Line(verdict)
			out.Flush()
		}
	}
	fail := func(clause, detail string) {
		if verdict == "" {
			verdict = fmt.Sprintf("FAIL %s op=%d %s", clause, idx, wire.Enc(detail))
		}
	}
	// judge evaluates the property on one issued certificate.
	judge := func(res issueResult, line string, who *authed, csr csrSpec, impTok, clusterTok string) {
		if res.perr != nil {
			fail("leaf-unparsable", line)
			return
		}
		if who == nil {
			fail("no-cert-without-authn", line)
			return
		}
		if !csrFormParses(csr.form) || csr.form == "badsig" {
			fail("malformed-csr-accepted", line)
		}
		expected := who.ids
		if imp, ok := metaString(impTok); ok && imp != "" {
			if !mayImpersonate(s.cur, clusterTok, *who, imp) {
				fail("impersonation-not-authorised", line)
				return
			}
			if foreignTrustDomain(*who, imp) && known == "" {
				known = fmt.Sprintf("FAIL impersonation-foreign-trust-domain op=%d %s", idx, wire.Enc(line))
			}
			expected = []string{imp}
		}
		var want []string
		for _, id := range expected {
			want = append(want, oracleSAN(id))
		}
		l := res.leaf
		if !l.sanCritical && len(l.subject) == 0 {
			fail("san-not-critical-with-empty-subject", line) // RFC 5280 4.2.1.6: required for an empty subject
		}
		if l.sanCount != 1 || strings.Join(l.sans, ",") != strings.Join(want, ",") {
			fail("san-exact", "want="+strings.Join(want, ",")+" "+line)
		}
		for _, a := range l.subject {
			if !strings.HasPrefix(a, "2.5.4.3=") {
				fail("subject-from-csr", line)
			}
		}
		if len(l.subject) > 1 || (l.cn != "" && (len(expected) == 0 || l.cn != expected[0])) {
			fail("subject-from-csr", line)
		}
		if l.isCA {
			fail("never-ca", line)
		}
		if l.keyUsage&(1<<5) != 0 {
			fail("never-ca(keyCertSign)", line)
		}
		if res.spki == nil || !bytes.Equal(l.spki, res.spki) {
			fail("binds-csr-key", line)
		}
		signer := s.signerCert()
		if signer == nil {
			fail("issued-without-signer", line)
			return
		}
		if !s.signedBySigner(l) {
			fail("not-signed-by-ca", line)
		}
		if l.notAfter.After(signer.NotAfter) {
			fail("not-beyond-signer-expiry", line)
		}
		if !res.before.Before(signer.NotAfter) {
			fail("expired-signer-issued", line)
		}
		var max int64
		fmt.Sscan(cfg[6], &max)
		if l.notAfter.After(res.after.Add(time.Duration(max) * time.Second)) {
			fail("lifetime-within-max", line)
		}
		if len(l.xext) != 0 {
			fail("csr-extension-copied", line)
		}
	}
	for _, f := range wire.ReadLines(in) {
		if f[0] == "case" {
			flush()
			s.apply(f)
			verdict, known, open, idx = "", "", true, 0
			continue
		}
		idx++
		switch f[0] {
		case "req":
			if !s.caOK || s.cur == nil {
				continue
			}
			r, err := parseReq(f)
			if err != nil {
				continue
			}
			res := s.run(r)
			if res.crash {
				fail("errors-not-crashes", strings.Join(f, " "))
				continue
			}
			if res.code != "" {
				continue // an error is always allowed by the property
			}
			var who *authed
			if r.xdsAuth && r.hasPeer && (r.tls || r.plaintext) {
				for i := range r.outs {
					if r.outs[i].kind == "ok" && len(r.outs[i].ids) > 0 {
						who = &authed{ids: r.outs[i].ids, kube: r.outs[i].kube}
						break
					}
				}
			}
			judge(res, s.format(res), who, r.csr, r.imp, r.cluster)
		case "reqm":
			if !s.caOK || s.cur == nil {
				continue
			}
			m, err := parseReqM(f)
			if err != nil {
				continue
			}
			res, err := s.runM(m)
			if err != nil || res.rejected {
				continue
			}
			if res.crash {
				skip := false
				for _, sp := range m.specs {
					if sp[0] == "xfcc" && !peerIsNetworkAddress(sp[3]) {
						skip = true
					}
				}
				if !skip {
					fail("errors-not-crashes", strings.Join(f, " "))
				}
				continue
			}
			if res.code != "" {
				continue
			}
			// authenticated: the first authenticator, in order, whose credential is valid
			var who *authed
			connOK := true
			for _, sp := range m.specs {
				if (sp[0] == "xfcc" && sp[3] == "nopeer") || (sp[0] == "cert" && sp[2] != "tls" && sp[2] != "tlspeer") {
					connOK = false // no peer / no TLS auth info: security.Authenticate refuses before any authenticator runs
				}
			}
			for _, sp := range m.specs {
				if w, ok := expectedFromCredential(sp, m.req.cluster); ok && connOK && who == nil {
					x := w
					who = &x
				}
			}
			judge(res, s.format(res), who, m.req.csr, m.req.imp, m.req.cluster)
		case "reqa":
			if !s.caOK || s.cur == nil {
				continue
			}
			a, err := parseReqA(f)
			if err != nil {
				continue
			}
			res, _, err := s.runA(a)
			if err != nil {
				continue
			}
			if res.rejected {
				continue // the TLS handshake was refused: no request, no certificate
			}
			if res.crash {
				if a.spec[0] == "xfcc" && !peerIsNetworkAddress(a.spec[3]) {
					continue // not a transport address (recorded observation)
				}
				fail("errors-not-crashes", strings.Join(f, " "))
				continue
			}
			if res.code != "" {
				continue
			}
			var who *authed
			if w, ok := expectedFromCredential(a.spec, a.req.cluster); ok {
				who = &w
			}
			judge(res, s.format(res), who, a.req.csr, a.req.imp, a.req.cluster)
		default:
			if r := s.apply(f); r == "crash" {
				fail("errors-not-crashes", strings.Join(f, " "))
			}
			if f[0] == "ca" {
				cfg = f
			}
		}
	}
	flush()
}
