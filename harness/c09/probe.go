package main

import (
	"fmt"
	"os"
	"strings"

	"verifharness/internal/wire"
)

// probe prints the hand-written regression cases of harness/corpus/C09/issue.*.ops (development
// aid: `c09 probe > ../corpus/C09/issue.witnesses.ops`).
func probe() {
	if len(os.Args) > 2 && os.Args[2] == "authn" {
		probeAuthn()
		return
	}
	pods := []podSpec{{"zt", "istio-system", "u1", "ztunnel", "n1"}, {"p1", "a", "u2", "b", "n1"}, {"p2", "c", "u3", "d", "n2"}}
	na := []string{"na", wire.EncList([]string{"istio-system/ztunnel"}), "1", "c1", encPods(pods)}
	node := authOutcome{kind: "ok", ids: []string{"spiffe://cluster.local/ns/istio-system/sa/ztunnel"}, kube: kinfo("zt", "istio-system", "u1", "ztunnel")}
	base := func() reqSpec {
		return reqSpec{xdsAuth: true, hasPeer: true, tls: true, outs: []authOutcome{node},
			csr: csrSpec{form: "ok", key: "ec256-a"}, ttl: 600, imp: "-", signer: "-", cluster: "c1"}
	}
	emit := func(f ...string) { fmt.Println(strings.Join(f, " ")) }
	n := 0
	header := func(name string) {
		emit("case", fmt.Sprint(n), "issue", name)
		n++
	}
	// 1. finding: impersonated identity with commas in the trust-domain segment (fixed by 9b70d27)
	header("comma-impersonation")
	emit("ca", "plug", "86400", "86400", "1", "3600", "86400")
	emit(na...)
	for _, imp := range []string{
		"spiffe://evil,victim.example.com,10.0.0.1,x/ns/a/sa/b",
		"spiffe://evil,victim.example.com/ns/a/sa/b",
		"spiffe://cluster.local/ns/a/sa/b",
		"spiffe://cluster.local/ns/c/sa/d",
		"spiffe://other.td/ns/a/sa/b",
		"spiffe://cluster.local/ns/a/sa/b/x",
		"cluster.local/ns/a/sa/b",
	} {
		r := base()
		r.imp = "s:" + wire.Enc(imp)
		emit(r.line()...)
	}
	// every ingredient of the gate, one at a time: stale UID, other service account, unknown pod,
	// untrusted account, other / unknown / ambiguous cluster
	for i := 0; i < 7; i++ {
		r := base()
		r.imp = "s:" + wire.Enc("spiffe://cluster.local/ns/a/sa/b")
		switch i {
		case 0:
			r.outs[0].kube.PodUID = "stale"
		case 1:
			r.outs[0].kube.PodServiceAccount = "d"
		case 2:
			r.outs[0].kube.PodName = "ghost"
		case 3:
			// an untrusted account asking for the identity running on its own node
			r.outs[0].kube = kinfo("p2", "c", "u3", "d")
			r.imp = "s:" + wire.Enc("spiffe://cluster.local/ns/c/sa/d")
		case 4:
			r.cluster = "c2"
		case 5:
			r.cluster = "-"
		case 6:
			r.cluster = "c1,c1"
		}
		emit(r.line()...)
	}
	// 2. authenticated identity containing a comma
	header("comma-identity")
	emit("ca", "self", fmt.Sprint(farLife), "-", "1", "3600", "86400")
	emit("na", "-")
	for _, ids := range [][]string{{"a,b"}, {"spiffe://cluster.local/ns/a/sa/b,evil.example.com"}, {"spiffe://cluster.local/ns/a/sa/b", "x,10.0.0.1"}} {
		r := base()
		r.outs = []authOutcome{{kind: "ok", ids: ids}}
		emit(r.line()...)
	}
	// 3. the CSR asks for everything; the certificate carries only the authenticated identity
	header("adversarial-csr")
	emit("ca", "plug2", "7200", "7200,"+fmt.Sprint(int1Life), "1", "1800", "86400")
	emit("na", "-")
	for _, k := range keyNames {
		r := base()
		r.csr = csrSpec{form: "ok", key: k, cn: "evil.example.com", org: "Evil", sans: []string{"spiffe://cluster.local/ns/kube-system/sa/admin", "10.6.6.6"}, ca: true, extra: true}
		r.junk = 2
		r.signer = "s:" + wire.Enc("x,y")
		emit(r.line()...)
	}
	for _, form := range []string{"oktype", "oktrail", "oklead", "nopem", "empty", "badder", "trunc", "badsig", "emptyblock"} {
		r := base()
		r.csr.form = form
		emit(r.line()...)
	}
	// 4. TTL policy: default, max, clamp to the signer, int64 wrap-around
	header("ttl")
	emit("ca", "plug", "3600", "3600", "1", "1800", "86400")
	emit("na", "-")
	for _, ttl := range []int64{-5, 0, 1, 1800, 3600, 5400, 86400, 86401, (1 << 55) + 600, -(1 << 55) + 600, 1 << 62, 9223372036, 9223372037, -(1 << 63)} {
		r := base()
		r.ttl = ttl
		emit(r.line()...)
	}
	// 5. no signer / expired signer / expired chain
	for _, k := range []string{"nosigner", "expired", "expiredchain"} {
		header(k)
		switch k {
		case "nosigner":
			emit("ca", k, "none", "-", "1", "1800", "86400")
		case "expired":
			emit("ca", k, "-3600", "-", "1", "1800", "86400")
		default:
			emit("ca", k, "-3600", "-3600", "1", "1800", "86400")
		}
		emit("na", "-")
		emit(base().line()...)
	}
	// 6. unauthenticated in every way
	header("unauthenticated")
	emit("ca", "self", fmt.Sprint(farLife), "-", "1", "3600", "86400")
	emit("na", "-")
	for i := 0; i < 7; i++ {
		r := base()
		switch i {
		case 0:
			r.outs = nil
		case 1:
			r.outs = []authOutcome{{kind: "err"}, {kind: "nil"}, {kind: "both", ids: []string{"a.b"}}, {kind: "ok"}}
		case 2:
			r.xdsAuth = false
		case 3:
			r.hasPeer = false
		case 4:
			r.tls = false
		case 5:
			r.tls, r.plaintext = false, true // authenticates
		case 6:
			r.outs = []authOutcome{{kind: "err"}, {kind: "ok", ids: []string{"a.b", "::ffff:1.2.3.4"}}, node}
		}
		emit(r.line()...)
	}
}

func probeAuthn() {
	emit := func(f ...string) { fmt.Println(strings.Join(f, " ")) }
	e := wire.Enc
	// finding F5: verified OIDC token whose sub has fewer than four fields (fixed by 90fe2f5)
	emit("case", "0", "authn", "oidc-short-sub")
	for _, sub := range []string{"system:serviceaccount:x", "system:serviceaccount", "system:serviceaccount:", "system:serviceaccountx",
		"system:serviceaccount:ns1:sa1", "system:serviceaccount:ns1:sa1:extra", "system:serviceaccountfoo:a:b", "bar:foo", ""} {
		emit("authn", "oidc", "cluster.local", "istio-ca", "ok", e(sub), "list", "istio-ca")
	}
	emit("authn", "oidc", "cluster.local", "istio-ca", "ok", e("system:serviceaccount:ns1:sa1"), "list", "x")
	emit("authn", "oidc", "cluster.local", "istio-ca", "ok", e("system:serviceaccount:x"), "list", "x")
	emit("authn", "oidc", "cluster.local", "istio-ca", "otherkey", e("system:serviceaccount:ns1:sa1"), "list", "istio-ca")
	emit("authn", "oidc", "cluster.local", "istio-ca", "expired", e("system:serviceaccount:ns1:sa1"), "list", "istio-ca")
	emit("authn", "oidc", "cluster.local", "istio-ca", "ok", e("system:serviceaccount:ns1:sa1"), "string", "istio-ca")
	emit("authn", "oidc", "cluster.local", "istio-ca", "ok", "absent", "list", "istio-ca")
	emit("authn", "oidc", "cluster.local", "istio-ca", "nohdr", "~", "list", "-")
	emit("authn", "oidc", e("td@corp"), "-", "ok", e("system:serviceaccount:ns1:sa1"), "list", "istio-ca")
	// XFCC: trusted / untrusted / loopback peers
	emit("case", "1", "authn", "xfcc")
	h := `URI=spiffe://cluster.local/ns/b/sa/c;DNS=foo.example.com;Subject="CN=bar,O=x"`
	for _, p := range []string{"10.1.2.3:555", "11.1.2.3:555", "127.0.0.1:80", "[::1]:80", "[::ffff:10.1.2.3]:1", "10.1.2.3", "[fe80::1%eth0]:1"} {
		emit("authn", "xfcc", e("10.0.0.0/8"), e(p), wire.EncList([]string{h}), parsedXFCC(h))
	}
	emit("authn", "xfcc", e("10.0.0.0/8"), "nopeer", wire.EncList([]string{h}), parsedXFCC(h))
	emit("authn", "xfcc", e("10.0.0.0/8"), e("10.1.2.3:555"), "-", "err")
	emit("authn", "xfcc", e("10.0.0.0/8"), e("10.1.2.3:555"), e("garbage"), parsedXFCC("garbage"))
	// client certificate
	emit("case", "2", "authn", "cert")
	leaf := e("san:" + wire.EncList([]string{"U:spiffe://cluster.local/ns/a/sa/b", "D:foo.example.com"}))
	other := e("san:" + wire.EncList([]string{"U:spiffe://cluster.local/ns/kube-system/sa/admin"}))
	emit("authn", "cert", "tls", wire.EncList([]string{leaf + "|" + other, other}))
	emit("authn", "cert", "tls", wire.EncList([]string{e("nosan") + "|" + other}))
	emit("authn", "cert", "tls", wire.EncList([]string{e("bad")}))
	emit("authn", "cert", "tls", "-")
	emit("authn", "cert", "tls", "~")
	emit("authn", "cert", "other", wire.EncList([]string{leaf}))
	emit("authn", "cert", "noauth", wire.EncList([]string{leaf}))
	emit("authn", "cert", "nopeer", wire.EncList([]string{leaf}))
	// kube JWT
	emit("case", "3", "authn", "kube")
	good := reviewSpec{authenticated: true, groups: []string{"system:serviceaccounts", "system:authenticated"},
		username: "system:serviceaccount:istio-system:ztunnel", podName: "=zt", podUID: "=u1"}
	emit("authn", "kube", "cluster.local", "Kubernetes", "alias=remote1", "remote1", "-", "bearer", good.tok())
	emit("authn", "kube", "cluster.local", "Kubernetes", "alias=remote1", "remote1", "alias", "bearer", good.tok())
	emit("authn", "kube", "cluster.local", "Kubernetes", "alias=remote1", "remote1", "unknown", "bearer", good.tok())
	emit("authn", "kube", "cluster.local", "Kubernetes", "-", "nil", "remote1", "bearer", good.tok())
	emit("authn", "kube", "cluster.local", "Kubernetes", "-", "nil", "-", "none", good.tok())
	for i := 0; i < 6; i++ {
		r := good
		switch i {
		case 0:
			r.authenticated = false
		case 1:
			r.groups = []string{"system:authenticated"}
		case 2:
			r.username = "system:serviceaccount:istio-system"
		case 3:
			r.username = "system:serviceaccount::ztunnel"
		case 4:
			r.errMsg = "expired"
		case 5:
			r.apiErr = true
		}
		emit("authn", "kube", "cluster.local", "Kubernetes", "-", "nil", "-", "bearer", r.tok())
	}
}
